#!/usr/bin/env bash
# Offline setup: make sure the harness module resolves and pre-build every check package.
set -e
cd "$(dirname "$0")/harness"
export GOFLAGS=-mod=mod GOPROXY=off GOTOOLCHAIN=auto
[ -f go.sum ] || cp /repo/go.sum go.sum
go vet -tags verif ./internal/... >/dev/null 2>&1 || true
go test -tags verif -count=1 -run '^$' ./... >/dev/null
echo setup ok
