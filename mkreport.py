#!/usr/bin/env python3
"""Regenerates the generated tables of DESIGN.md (between <!-- X:begin --> / <!-- X:end --> markers):
findings (from known_findings.json) and seeded (from seeded/*/meta.json, seeded/RESULTS.txt, seeded/CONFIRM.txt).
Also stamps each seeded/<id>/meta.json with what was confirmed and which checks were run against it."""
import json, os, re, glob, sys
ROOT = os.path.dirname(os.path.abspath(__file__))

def one(s, n):
    s = " ".join(str(s).split()).replace("|", "\\|")
    return s if len(s) <= n else s[:n - 1] + "…"

def findings():
    kf = json.load(open(os.path.join(ROOT, "known_findings.json")))["findings"]
    out = ["| id | property | status | replay | what |", "|---|---|---|---|---|"]
    for f in kf:
        st = f["status"] + (" " + f.get("commit", "") if f["status"] == "fixed" else "")
        out.append("| %s | %s | %s | %s | %s |" % (f["id"], f["property"], st.strip(), f.get("replay", ""), one(f["what"], 260)))
    nopen = sum(1 for f in kf if f["status"] == "open")
    out.append("")
    out.append("%d entries: %d fixed by `fix:` commits, %d open (listed)." % (len(kf), len(kf) - nopen, nopen))
    return "\n".join(out)

def seeded():
    res = {}
    p = os.path.join(ROOT, "seeded", "RESULTS.txt")
    if os.path.exists(p):
        for line in open(p):
            m = re.match(r"seed=(\S+) check=(\S+) exit=(\d+) ?(.*)", line.strip())
            if m:
                res.setdefault(m.group(1), {})[m.group(2)] = (int(m.group(3)), m.group(4))
    conf = {}
    p = os.path.join(ROOT, "seeded", "CONFIRM.txt")
    if os.path.exists(p):
        for line in open(p):
            m = re.match(r"seed=(\S+) (.*)", line.strip())
            if m:
                conf[m.group(1)] = m.group(2)
    out = ["| seed | property | change (what / where) | needs | caught by | not caught by |", "|---|---|---|---|---|---|"]
    ncaught = 0
    seeds = sorted(d for d in os.listdir(os.path.join(ROOT, "seeded")) if os.path.isfile(os.path.join(ROOT, "seeded", d, "meta.json")))
    for s in seeds:
        mp = os.path.join(ROOT, "seeded", s, "meta.json")
        meta = json.load(open(mp))
        r = res.get(s, {})
        caught = sorted(c for c, (rc, _) in r.items() if rc == 1)
        missed = sorted(c for c, (rc, _) in r.items() if rc == 0)
        other = sorted(c for c, (rc, _) in r.items() if rc not in (0, 1))
        if caught:
            ncaught += 1
        meta["confirmed"] = conf.get(s, "not yet confirmed")
        meta["checks_run"] = {c: {"exit": rc, "first_line": one(msg, 300)} for c, (rc, msg) in sorted(r.items())}
        meta["caught_by"] = caught
        meta["how_run"] = "seeded/confirm_seed.sh %s (demo fails with / passes without the patch, existing tests of the touched packages pass) and seeded/run_seed.sh %s [checks] (scratch worktree of /repo + patch, VERIF_REPO=<worktree> ./vcheck <check> quick; exit 1 = caught)" % (s, s)
        json.dump(meta, open(mp, "w"), indent=1, ensure_ascii=False)
        out.append("| %s | %s | %s | %s | %s | %s |" % (s, meta.get("property", ""), one(meta.get("summary", ""), 230), one(meta.get("needs", ""), 200),
                                                       ", ".join(caught) or "—", (", ".join(missed + [o + "(inconclusive)" for o in other]) or "—") + ((" — " + one(meta["note"], 400)) if meta.get("note") else "")))
    out.append("")
    out.append("%d seeded changes, %d caught by at least one quick-tier check." % (len(seeds), ncaught))
    return "\n".join(out)

def main():
    p = os.path.join(ROOT, "DESIGN.md")
    s = open(p).read()
    for name, fn in (("findings", findings), ("seeded", seeded)):
        b, e = "<!-- %s:begin -->" % name, "<!-- %s:end -->" % name
        if b in s and e in s:
            i, j = s.index(b) + len(b), s.index(e)
            s = s[:i] + "\n" + fn() + "\n" + s[j:]
        else:
            print("marker for", name, "missing", file=sys.stderr)
    open(p, "w").write(s)

if __name__ == "__main__":
    main()
