# Table of claimed checks; executed by mkmanifest.py.  NA: id -> reason for properties not claimed.
NA = {}
chk("C38", "exploration", "property-based testing: exhaustive enumeration of a small topology domain + rapid-generated larger topologies against a reference predicate",
    "Validate() is compared with a reference predicate transcribed from the statement on every topology of a bounded domain (complete enumeration) and on generated larger ones; a disagreement in either direction is a violation.",
    "Trusts the reference predicate's reading of the statement (duplicate region/peer ids are not defects). Exhaustive only inside the stated small domain.")
