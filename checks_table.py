# Table of claimed checks; executed by mkmanifest.py.  NA: id -> reason for properties not claimed.
NA = {}
chk("C38", "exploration", "property-based testing: exhaustive enumeration of a small topology domain + rapid-generated larger topologies against a reference predicate",
    "Validate() is compared with a reference predicate transcribed from the statement on every topology of a bounded domain (complete enumeration) and on generated larger ones; a disagreement in either direction is a violation.",
    "Trusts the reference predicate's reading of the statement (duplicate region/peer ids are not defects). Exhaustive only inside the stated small domain.")
chk("C35", "exploration", "property-based testing (rapid): generated sorted entry sets built with the production table builder, compared with a sorted reference slice (point lookups, both-direction seeks and iteration, before/after reopen)",
    "Generated tables (1..120 entries, block sizes 128..8192, bloom on/off) are checked against a reference ordered slice: every stored key found, every seek (stored keys + neighbours) lands where the reference says in both directions, full iteration equals the input, again after reopening the file.",
    "Explores random tables only; value sizes up to 20 KB; tables are built through a verif-tagged accessor that calls the production builder and openTable.")
