#!/usr/bin/env python3
"""Regenerates /verif/MANIFEST.json from the table below (kept valid at all times)."""
import json, subprocess, os
ROOT = os.path.dirname(os.path.abspath(__file__))
props = [json.loads(l) for l in open(os.path.join(ROOT, "properties.jsonl"))]
ids = [p["id"] for p in props]

# id -> (category, technique, level text, level note, design ref)
CHECKS = {}
def chk(i, cat, tech, text, note, ref=None):
    CHECKS[i] = (cat, tech, text, note, ref or f"DESIGN.md §3 {i}")

exec(open(os.path.join(ROOT, "checks_table.py")).read())

try:
    hook_commits = subprocess.check_output(["git", "-C", "/repo", "log", "--format=%H", "--grep=^verif:"], text=True).split()
    # the watermark repair carries one more VerifYield call inside its wait loop
    hook_commits += subprocess.check_output(["git", "-C", "/repo", "log", "--format=%H", "--grep=^fix: watermark Begin waits out"], text=True).split()
except Exception:
    hook_commits = []

m = {
 "version": 1,
 "setup_cmd": "./setup.sh",
 "hooks": {
  "guard": "verif",
  "enable": "Go build tag: checks run `go test -tags verif` from /verif/harness whose go.mod replaces github.com/feichai0017/NoKV with /repo (current working tree)",
  "baseline_off_cmd": "cd /repo && GOFLAGS=-mod=mod GOPROXY=off go test -vet=off -count=1 -timeout 25m ./...",
  "source_commits": hook_commits,
  "add_only": True,
 },
 "engines": [
  {"name": "pbt", "path": "harness/internal/pbt", "serves_properties": sorted(CHECKS), "kind_free_text": "rapid-driven runner: case = JSON data (generator + Run with explicit oracle), replay/known-findings phase, sharded search, shrinking, evidence writer"},
 ],
 "checks": [],
 "notes": "Every check: ./vcheck <ID> <quick|thorough>; exit 0 held, 1 VIOLATION, 2 inconclusive. VERIF_SEED selects the rapid seed. known_findings.json lists genuine defects (open/fixed).",
 "not_applicable": [],
}
for i in ids:
    if i in CHECKS:
        cat, tech, text, note, ref = CHECKS[i]
        m["checks"].append({
            "property_id": i,
            "quick_cmd": f"./vcheck {i} quick",
            "thorough_cmd": f"./vcheck {i} thorough",
            "evidence_file": f"/verif/evidence/{i}.json",
            "replay_cmd_template": f"./vcheck {i} quick --replay {{path}}",
            "engine": "pbt",
            "level_claimed": {"category": cat, "text": text, "design_ref": ref},
            "level_note": note,
            "technique": tech,
        })
    else:
        m["not_applicable"].append({"property_id": i, "reason": NA.get(i, "check not built yet (work in progress; see DESIGN.md §3 for the planned generated check)")})
json.dump(m, open(os.path.join(ROOT, "MANIFEST.json"), "w"), indent=1)
print("checks:", len(m["checks"]), "not_applicable:", len(m["not_applicable"]))
