#!/usr/bin/env python3
"""mkreplay.py <out.json> <msg> [--sleep ms] cmd...   (each cmd: words separated by spaces; use \\x20 for a blank, "" for empty)
Builds a C29 replay/regression file (spec seq) from readable commands."""
import sys, json, base64, shlex
out, msg = sys.argv[1], sys.argv[2]
rest = sys.argv[3:]
sleep = 0
if rest and rest[0] == '--sleep':
    sleep = int(rest[1]); rest = rest[2:]
cmds = []
for c in rest:
    if c.startswith('REPEAT '):
        _, n, body = c.split(' ', 2)
        words = shlex.split(body)
        for _ in range(int(n)):
            cmds.append([base64.b64encode(w.encode('utf-8').decode('unicode_escape').encode('latin1')).decode() for w in words])
        continue
    words = shlex.split(c)
    cmds.append([base64.b64encode(w.encode('utf-8').decode('unicode_escape').encode('latin1')).decode() for w in words])
case = {"Cmds": cmds}
if sleep:
    case["SleepMs"] = sleep
json.dump({"property": "C29", "spec": "seq", "msg": msg, "case": case}, open(out, 'w'), indent=1)
open(out, 'a').write("\n")
