//go:build verifinpkg && !verifmainseam

// Gateway launcher, fallback flavour: used when the flavour that drives the real
// main() (gw_mainseam_test.go) does not compile any more because main()'s test
// seams were renamed.  It REPLICATES the option construction of main() — keep it
// in sync with cmd/nokv-redis/main.go (run.sh prints which flavour is in use).
package main

import (
	"net"
	"path/filepath"

	NoKV "github.com/feichai0017/NoKV"
)

const vfGatewayFlavour = "replica-of-main-options"

// vfStartEmbedded starts the gateway with the embedded backend on a unix socket
// below dir and returns the socket path and a stop function.
func vfStartEmbedded(dir string) (string, func(), error) {
	opt := NoKV.NewDefaultOptions()
	opt.WorkDir = filepath.Join(dir, "db")
	// ---- copied from main() ----
	if opt.MaxBatchCount <= 0 {
		opt.MaxBatchCount = int64(opt.WriteBatchMaxCount)
		if opt.MaxBatchCount <= 0 {
			opt.MaxBatchCount = 1024
		}
	}
	if opt.MaxBatchSize <= 0 {
		opt.MaxBatchSize = opt.WriteBatchMaxSize
		if opt.MaxBatchSize <= 0 {
			opt.MaxBatchSize = 16 << 20
		}
	}
	// ----------------------------
	ln, err := net.Listen("unix", filepath.Join(dir, "s"))
	if err != nil {
		return "", nil, err
	}
	db := NoKV.Open(opt)
	srv := newServer(newEmbeddedBackend(db))
	done := make(chan struct{})
	go func() { _ = srv.Serve(ln); close(done) }()
	stop := func() {
		_ = ln.Close()
		<-done
		srv.Wait()
		_ = db.Close()
	}
	return ln.Addr().String(), stop, nil
}
