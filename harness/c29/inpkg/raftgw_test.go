//go:build verifinpkg

// Raft flavour of the gateway for the injected checks (shared by C29 and C30; keep the
// copies identical).  Unexported identifiers used: newServer, raftBackend{client, ts}.
package main

import (
	"bytes"
	"context"
	"fmt"
	"net"
	"path/filepath"
	"sync"
	"time"

	NoKV "github.com/feichai0017/NoKV"
	"github.com/feichai0017/NoKV/pb"
	"github.com/feichai0017/NoKV/pd/tso"
	"github.com/feichai0017/NoKV/raftstore/client"
	rkv "github.com/feichai0017/NoKV/raftstore/kv"
)

// ------------------------------------------- raft flavour of the gateway ----

// vfPercClient implements the gateway's raftClient interface on top of the real
// command applier of the raft store (raftstore/kv.Apply over a real Percolator
// database) for a single region.  It is a transcription of raftstore/client.Client
// (BatchGet / TwoPhaseCommit / CheckTxnStatus / ResolveLocks) minus routing.  Write
// commands are applied one at a time, as the region's raft apply loop does; reads
// run concurrently after them, as store.ReadCommand does.
type vfPercClient struct {
	db    *NoKV.DB
	apply sync.Mutex
}

func (c *vfPercClient) propose(req *pb.Request) (*pb.Response, error) {
	c.apply.Lock()
	defer c.apply.Unlock()
	resp, err := rkv.Apply(c.db, &pb.RaftCmdRequest{Header: &pb.CmdHeader{RegionId: 1}, Requests: []*pb.Request{req}})
	if err != nil {
		return nil, err
	}
	if len(resp.GetResponses()) != 1 {
		return nil, fmt.Errorf("harness: %d responses", len(resp.GetResponses()))
	}
	return resp.GetResponses()[0], nil
}

func (c *vfPercClient) BatchGet(ctx context.Context, keys [][]byte, version uint64) (map[string]*pb.GetResponse, error) {
	out := make(map[string]*pb.GetResponse, len(keys))
	if len(keys) == 0 {
		return out, nil
	}
	// client.BatchGet de-duplicates keys through a map
	uniq := map[string][]byte{}
	var order []string
	for _, k := range keys {
		if _, ok := uniq[string(k)]; !ok {
			order = append(order, string(k))
		}
		uniq[string(k)] = append([]byte(nil), k...)
	}
	req := &pb.RaftCmdRequest{Header: &pb.CmdHeader{RegionId: 1}}
	for _, id := range order {
		req.Requests = append(req.Requests, &pb.Request{CmdType: pb.CmdType_CMD_GET,
			Cmd: &pb.Request_Get{Get: &pb.GetRequest{Key: uniq[id], Version: version}}})
	}
	resp, err := rkv.Apply(c.db, req)
	if err != nil {
		return nil, err // kv.Service turns this into codes.Internal
	}
	for i, id := range order {
		var g *pb.GetResponse
		if i < len(resp.GetResponses()) && resp.GetResponses()[i] != nil {
			g = resp.GetResponses()[i].GetGet()
		}
		if g == nil {
			g = &pb.GetResponse{NotFound: true}
		}
		out[id] = g
	}
	return out, nil
}

func (c *vfPercClient) Mutate(ctx context.Context, primary []byte, mutations []*pb.Mutation, startVersion, commitVersion, lockTTL uint64) error {
	if len(primary) == 0 {
		return fmt.Errorf("client: primary key required")
	}
	var muts []*pb.Mutation
	var keys [][]byte
	hasPrimary := false
	for _, m := range mutations {
		if m == nil {
			continue
		}
		muts = append(muts, &pb.Mutation{Op: m.Op, Key: append([]byte(nil), m.Key...), Value: append([]byte(nil), m.Value...)})
		keys = append(keys, append([]byte(nil), m.Key...))
		if bytes.Equal(m.Key, primary) {
			hasPrimary = true
		}
	}
	if len(muts) == 0 {
		return nil
	}
	if !hasPrimary {
		return fmt.Errorf("client: primary key %q not present in mutations", primary)
	}
	r, err := c.propose(&pb.Request{CmdType: pb.CmdType_CMD_PREWRITE, Cmd: &pb.Request_Prewrite{Prewrite: &pb.PrewriteRequest{
		Mutations: muts, PrimaryLock: append([]byte(nil), primary...), StartVersion: startVersion, LockTtl: lockTTL}}})
	if err != nil {
		return err
	}
	if pr := r.GetPrewrite(); pr != nil && len(pr.GetErrors()) > 0 {
		return &client.KeyConflictError{Errors: pr.GetErrors()}
	}
	r, err = c.propose(&pb.Request{CmdType: pb.CmdType_CMD_COMMIT, Cmd: &pb.Request_Commit{Commit: &pb.CommitRequest{
		Keys: keys, StartVersion: startVersion, CommitVersion: commitVersion}}})
	if err != nil {
		return err
	}
	if cr := r.GetCommit(); cr != nil && cr.GetError() != nil {
		return fmt.Errorf("client: commit key error: %v", cr.GetError())
	}
	return nil
}

func (c *vfPercClient) CheckTxnStatus(ctx context.Context, primary []byte, lockVersion, currentTS uint64) (*pb.CheckTxnStatusResponse, error) {
	r, err := c.propose(&pb.Request{CmdType: pb.CmdType_CMD_CHECK_TXN_STATUS, Cmd: &pb.Request_CheckTxnStatus{CheckTxnStatus: &pb.CheckTxnStatusRequest{
		PrimaryKey: append([]byte(nil), primary...), LockTs: lockVersion, CurrentTs: currentTS, CallerStartTs: currentTS,
		RollbackIfNotExist: true, CurrentTime: uint64(time.Now().Unix())}}})
	if err != nil {
		return nil, err
	}
	return r.GetCheckTxnStatus(), nil
}

func (c *vfPercClient) ResolveLocks(ctx context.Context, startVersion, commitVersion uint64, keys [][]byte) (uint64, error) {
	if len(keys) == 0 {
		return 0, nil
	}
	cp := make([][]byte, len(keys))
	for i, k := range keys {
		cp[i] = append([]byte(nil), k...)
	}
	r, err := c.propose(&pb.Request{CmdType: pb.CmdType_CMD_RESOLVE_LOCK, Cmd: &pb.Request_ResolveLock{ResolveLock: &pb.ResolveLockRequest{
		StartVersion: startVersion, CommitVersion: commitVersion, Keys: cp}}})
	if err != nil {
		return 0, err
	}
	if out := r.GetResolveLock(); out != nil {
		if ke := out.GetError(); ke != nil {
			return 0, fmt.Errorf("client: resolve lock key error: %v", ke)
		}
		return out.GetResolvedLocks(), nil
	}
	return 0, nil
}

func (c *vfPercClient) Close() error { return nil }

// vfTSO adapts the real PD timestamp allocator to the gateway's timestampAllocator.
type vfTSO struct{ a *tso.Allocator }

func (t vfTSO) Reserve(n uint64) (uint64, error) {
	if n == 0 {
		return 0, fmt.Errorf("tso reserve: n must be >= 1")
	}
	first, got, err := t.a.Reserve(n)
	if err != nil {
		return 0, err
	}
	if got < n {
		return 0, fmt.Errorf("tso reserve: requested %d timestamps, got %d", n, got)
	}
	return first, nil
}

// vfStartRaft starts the gateway with the raft backend over the harness client.
// The Percolator database is opened the way `nokv serve` opens a store's database.
func vfStartRaft(dir string) (string, func(), error) {
	opt := NoKV.NewDefaultOptions()
	opt.WorkDir = filepath.Join(dir, "store")
	ln, err := net.Listen("unix", filepath.Join(dir, "s"))
	if err != nil {
		return "", nil, err
	}
	db := NoKV.Open(opt)
	backend := &raftBackend{client: &vfPercClient{db: db}, ts: vfTSO{a: tso.NewAllocator(1)}}
	srv := newServer(backend)
	done := make(chan struct{})
	go func() { _ = srv.Serve(ln); close(done) }()
	stop := func() {
		_ = ln.Close()
		<-done
		srv.Wait()
		_ = db.Close()
	}
	return ln.Addr().String(), stop, nil
}
