//go:build verifinpkg

// C29 — Redis gateway commands follow Redis semantics (single client).
//
// Injected into package main of cmd/nokv-redis by ../run.sh (go -overlay).
// Unexported identifiers used: newServer, newEmbeddedBackend (fallback launcher) or
// main, listen, signalNotify (preferred launcher, see gw_*_test.go); raftBackend{client, ts}
// (raftgw_test.go).
//
// A case is a list of argv's.  They are sent as RESP arrays over a real
// connection to the real gateway (embedded backend, database opened the way
// main() opens it, fresh work directory per case); every reply is compared with
// a reference model of Redis written from the Redis command documentation for
// exactly the commands named by the property.  At the end the data is read back
// over a second connection and compared with the model's store.
package main

import (
	"bufio"
	"bytes"
	"errors"
	"fmt"
	"io"
	"log"
	"math"
	"net"
	"os"
	"sort"
	"strconv"
	"strings"
	"syscall"
	"testing"
	"time"

	pbt "github.com/feichai0017/NoKV/cmd/nokv-redis/zzverifpbt"
	"pgregory.net/rapid"
)

func TestMain(m *testing.M) {
	log.SetOutput(io.Discard)
	pbt.RunMain(m)
}

// ------------------------------------------------------------ the case ----

type vfCase29 struct {
	Backend string     `json:",omitempty"` // "" = embedded (real main()), "raft" = raftBackend over the harness Percolator client
	Cmds    [][][]byte // argv per command
	// Batch: number of commands written before their replies are read (pipelining);
	// missing / non-positive entries mean 1.
	Batch    []int `json:",omitempty"`
	SleepMs  int   `json:",omitempty"` // pause before the final read-back (only static cases)
	Excluded int   `json:",omitempty"`
}

// ------------------------------------------------- reference Redis model ----

// Expected reply.
type vfExp struct {
	kind byte     // '+' simple, '$' bulk, '_' null bulk, ':' integer, '*' array of bulks, '-' error, 'c' connection closed, 'x' not judged
	s    []byte   // '+', '$'
	n    int64    // ':'
	arr  [][]byte // '*' (nil element = null)
	errs []string // '-': acceptable error classes
}

const (
	vfErrArity     = "arity"
	vfErrSyntax    = "syntax"
	vfErrNotInt    = "notint"
	vfErrBadExpire = "badexpire"
	vfErrOverflow  = "overflow"
)

// Expiry horizon classes.  Generated expiries are decades away from "now" so the
// wall clock cannot flip an answer; anything closer taints the key (not judged).
const (
	vfPastSec   = 1_700_000_000 // <= 2023-11: already over
	vfFutureSec = 4_000_000_000 // >= 2096: far away
)

type vfModel struct {
	m       map[string][]byte
	tainted map[string]bool
	closed  bool
	// statistics for the non-trivial rule
	refusedCond, incrErr, incrOK, expiredSet, futureSet, errReplies int
}

func vfNewModel() *vfModel {
	return &vfModel{m: map[string][]byte{}, tainted: map[string]bool{}}
}

// vfString2ll is Redis' string2ll: optional '-', no leading zeros, no '+', no blanks.
func vfString2ll(b []byte) (int64, bool) {
	if len(b) == 0 || len(b) > 20 {
		return 0, false
	}
	if len(b) == 1 && b[0] == '0' {
		return 0, true
	}
	i := 0
	if b[0] == '-' {
		i = 1
		if len(b) == 1 {
			return 0, false
		}
	}
	if b[i] < '1' || b[i] > '9' {
		return 0, false
	}
	for j := i; j < len(b); j++ {
		if b[j] < '0' || b[j] > '9' {
			return 0, false
		}
	}
	n, err := strconv.ParseInt(string(b), 10, 64)
	if err != nil {
		return 0, false
	}
	return n, true
}

func vfErr(classes ...string) vfExp { return vfExp{kind: '-', errs: classes} }

func (m *vfModel) anyTainted(keys ...[]byte) bool {
	for _, k := range keys {
		if m.tainted[string(k)] {
			return true
		}
	}
	return false
}

// apply executes one command on the model and returns the reply Redis gives.
func (m *vfModel) apply(argv [][]byte) vfExp {
	if m.closed {
		return vfExp{kind: 'c'}
	}
	if len(argv) == 0 {
		return vfExp{kind: 'x'}
	}
	name := strings.ToUpper(string(argv[0]))
	args := argv[1:]
	switch name {
	case "PING":
		switch len(args) {
		case 0:
			return vfExp{kind: '+', s: []byte("PONG")}
		case 1:
			return vfExp{kind: '$', s: args[0]}
		}
		return vfErr(vfErrArity)
	case "ECHO":
		if len(args) != 1 {
			return vfErr(vfErrArity)
		}
		return vfExp{kind: '$', s: args[0]}
	case "QUIT":
		m.closed = true
		return vfExp{kind: '+', s: []byte("OK")}
	case "GET":
		if len(args) != 1 {
			return vfErr(vfErrArity)
		}
		if m.anyTainted(args[0]) {
			return vfExp{kind: 'x'}
		}
		if v, ok := m.m[string(args[0])]; ok {
			return vfExp{kind: '$', s: v}
		}
		return vfExp{kind: '_'}
	case "SET":
		return m.set(args)
	case "DEL":
		if len(args) < 1 {
			return vfErr(vfErrArity)
		}
		judged := !m.anyTainted(args...)
		var n int64
		for _, k := range args {
			if _, ok := m.m[string(k)]; ok {
				n++
				delete(m.m, string(k))
			}
			delete(m.tainted, string(k)) // whatever it was, it is gone now
		}
		if !judged {
			return vfExp{kind: 'x'}
		}
		return vfExp{kind: ':', n: n}
	case "EXISTS":
		if len(args) < 1 {
			return vfErr(vfErrArity)
		}
		if m.anyTainted(args...) {
			return vfExp{kind: 'x'}
		}
		var n int64
		for _, k := range args {
			if _, ok := m.m[string(k)]; ok {
				n++
			}
		}
		return vfExp{kind: ':', n: n}
	case "MGET":
		if len(args) < 1 {
			return vfErr(vfErrArity)
		}
		if m.anyTainted(args...) {
			return vfExp{kind: 'x'}
		}
		out := make([][]byte, len(args))
		for i, k := range args {
			if v, ok := m.m[string(k)]; ok {
				out[i] = v
			}
		}
		return vfExp{kind: '*', arr: out}
	case "MSET":
		if len(args) < 2 || len(args)%2 != 0 {
			return vfErr(vfErrArity)
		}
		for i := 0; i < len(args); i += 2 {
			m.m[string(args[i])] = args[i+1]
			delete(m.tainted, string(args[i]))
		}
		return vfExp{kind: '+', s: []byte("OK")}
	case "INCR", "DECR":
		if len(args) != 1 {
			return vfErr(vfErrArity)
		}
		d := int64(1)
		if name == "DECR" {
			d = -1
		}
		return m.incr(args[0], d, nil)
	case "INCRBY", "DECRBY":
		if len(args) != 2 {
			return vfErr(vfErrArity)
		}
		d, ok := vfString2ll(args[1])
		if !ok {
			m.incrErr++
			return vfErr(vfErrNotInt)
		}
		if name == "DECRBY" {
			if d == math.MinInt64 {
				// decrbyCommand: "decrement would overflow", checked before the key is looked at;
				// a non-integer value under the key is an error as well, either class is accepted
				m.incrErr++
				return vfErr(vfErrOverflow, vfErrNotInt)
			}
			d = -d
		}
		return m.incr(args[0], d, nil)
	}
	return vfExp{kind: 'x'} // not a command the property names
}

func (m *vfModel) incr(key []byte, d int64, _ []string) vfExp {
	if m.anyTainted(key) {
		return vfExp{kind: 'x'}
	}
	var cur int64
	if v, ok := m.m[string(key)]; ok {
		n, isInt := vfString2ll(v)
		if !isInt {
			m.incrErr++
			return vfErr(vfErrNotInt)
		}
		cur = n
	}
	if (d < 0 && cur < 0 && d < math.MinInt64-cur) || (d > 0 && cur > 0 && d > math.MaxInt64-cur) {
		m.incrErr++
		return vfErr(vfErrOverflow)
	}
	cur += d
	m.m[string(key)] = []byte(strconv.FormatInt(cur, 10)) // TTL is kept (not observable here)
	m.incrOK++
	return vfExp{kind: ':', n: cur}
}

func (m *vfModel) set(args [][]byte) vfExp {
	if len(args) < 2 {
		return vfErr(vfErrArity)
	}
	key, val := args[0], args[1]
	var (
		nx, xx   bool
		expKind  string
		expArg   []byte
		defects  []string
		unjudged bool
	)
	for i := 2; i < len(args); i++ {
		opt := strings.ToUpper(string(args[i]))
		switch opt {
		case "NX":
			if xx {
				defects = append(defects, vfErrSyntax)
			}
			nx = true
		case "XX":
			if nx {
				defects = append(defects, vfErrSyntax)
			}
			xx = true
		case "EX", "PX", "EXAT", "PXAT":
			if i+1 >= len(args) {
				defects = append(defects, vfErrSyntax)
				continue
			}
			if expKind != "" {
				if expKind == opt {
					unjudged = true // Redis accepts a repeated identical option; not documented
				} else {
					defects = append(defects, vfErrSyntax)
				}
			}
			expKind, expArg = opt, args[i+1]
			i++
		case "KEEPTTL", "GET":
			unjudged = true // SET options outside the property's list
		default:
			defects = append(defects, vfErrSyntax)
		}
	}
	past := false
	if expKind != "" {
		n, ok := vfString2ll(expArg)
		switch {
		case !ok:
			defects = append(defects, vfErrNotInt)
		case n <= 0:
			defects = append(defects, vfErrBadExpire)
		default:
			switch expKind {
			case "EX":
				if n < 100_000 || n > 9_000_000_000_000_000 {
					unjudged = true
				}
			case "PX":
				if n < 100_000_000 || n > 9_000_000_000_000_000_000 {
					unjudged = true
				}
			case "EXAT":
				switch {
				case n <= vfPastSec:
					past = true
				case n >= vfFutureSec && n <= 9_000_000_000_000_000:
				default:
					unjudged = true
				}
			case "PXAT":
				switch {
				case n <= vfPastSec*1000:
					past = true
				case n >= vfFutureSec*1000 && n <= 9_000_000_000_000_000_000:
				default:
					unjudged = true
				}
			}
		}
	}
	if len(defects) > 0 {
		// which defect is reported first is not specified by the documentation
		return vfErr(defects...)
	}
	if unjudged || m.anyTainted(key) {
		m.tainted[string(key)] = true
		return vfExp{kind: 'x'}
	}
	_, exists := m.m[string(key)]
	if (nx && exists) || (xx && !exists) {
		m.refusedCond++
		return vfExp{kind: '_'}
	}
	if past {
		delete(m.m, string(key)) // stored with an expiry that is already over: absent
		m.expiredSet++
	} else {
		m.m[string(key)] = val
		if expKind != "" {
			m.futureSet++
		}
	}
	return vfExp{kind: '+', s: []byte("OK")}
}

// ---------------------------------------------------------- RESP client ----

type vfReply struct {
	kind byte // '+', '-', ':', '$', '_', '*', 'c'
	s    []byte
	n    int64
	arr  [][]byte
	null bool // '*-1'
}

func (r vfReply) String() string {
	switch r.kind {
	case '+':
		return "+" + string(r.s)
	case '-':
		return "-" + string(r.s)
	case ':':
		return ":" + strconv.FormatInt(r.n, 10)
	case '$':
		return "bulk " + vfQ(r.s)
	case '_':
		return "(nil)"
	case '*':
		if r.null {
			return "(nil array)"
		}
		p := make([]string, len(r.arr))
		for i, e := range r.arr {
			if e == nil {
				p[i] = "(nil)"
			} else {
				p[i] = vfQ(e)
			}
		}
		return "[" + strings.Join(p, " ") + "]"
	case 'c':
		return "(connection closed)"
	}
	return "?"
}

func (e vfExp) String() string {
	switch e.kind {
	case '-':
		return "error of class " + strings.Join(e.errs, "|")
	case 'x':
		return "(not judged)"
	}
	return vfReply{kind: e.kind, s: e.s, n: e.n, arr: e.arr}.String()
}

func vfQ(b []byte) string {
	if len(b) > 48 {
		return fmt.Sprintf("%q…(%d bytes)", b[:48], len(b))
	}
	return fmt.Sprintf("%q", b)
}

func vfReadLine(rd *bufio.Reader) (string, error) {
	l, err := rd.ReadString('\n')
	if err != nil {
		return "", err
	}
	if len(l) < 2 || l[len(l)-2] != '\r' {
		return "", fmt.Errorf("reply line %q not CRLF terminated", l)
	}
	return l[:len(l)-2], nil
}

func vfReadBulk(rd *bufio.Reader, hdr string) ([]byte, bool, error) {
	n, err := strconv.Atoi(hdr)
	if err != nil {
		return nil, false, fmt.Errorf("bad bulk length %q", hdr)
	}
	if n < 0 {
		return nil, true, nil
	}
	buf := make([]byte, n+2)
	if _, err := io.ReadFull(rd, buf); err != nil {
		return nil, false, err
	}
	if string(buf[n:]) != "\r\n" {
		return nil, false, fmt.Errorf("bulk not CRLF terminated")
	}
	return buf[:n], false, nil
}

func vfIsClosed(err error) bool {
	return errors.Is(err, io.EOF) || errors.Is(err, io.ErrUnexpectedEOF) || errors.Is(err, syscall.ECONNRESET) || errors.Is(err, syscall.EPIPE) || errors.Is(err, net.ErrClosed)
}

func vfReadReply(rd *bufio.Reader) (vfReply, error) {
	l, err := vfReadLine(rd)
	if err != nil {
		if vfIsClosed(err) {
			return vfReply{kind: 'c'}, nil
		}
		return vfReply{}, err
	}
	if l == "" {
		return vfReply{}, fmt.Errorf("empty reply line")
	}
	switch l[0] {
	case '+', '-':
		return vfReply{kind: l[0], s: []byte(l[1:])}, nil
	case ':':
		n, err := strconv.ParseInt(l[1:], 10, 64)
		if err != nil {
			return vfReply{}, fmt.Errorf("bad integer reply %q", l)
		}
		return vfReply{kind: ':', n: n}, nil
	case '$':
		b, null, err := vfReadBulk(rd, l[1:])
		if err != nil {
			return vfReply{}, err
		}
		if null {
			return vfReply{kind: '_'}, nil
		}
		return vfReply{kind: '$', s: b}, nil
	case '*':
		n, err := strconv.Atoi(l[1:])
		if err != nil {
			return vfReply{}, fmt.Errorf("bad array length %q", l)
		}
		if n < 0 {
			return vfReply{kind: '*', null: true}, nil
		}
		r := vfReply{kind: '*', arr: make([][]byte, n)}
		for i := 0; i < n; i++ {
			h, err := vfReadLine(rd)
			if err != nil {
				return vfReply{}, err
			}
			if h == "" || h[0] != '$' {
				return vfReply{}, fmt.Errorf("array element %d is not a bulk: %q", i, h)
			}
			b, null, err := vfReadBulk(rd, h[1:])
			if err != nil {
				return vfReply{}, err
			}
			if !null {
				if b == nil {
					b = []byte{}
				}
				r.arr[i] = b
			}
		}
		return r, nil
	}
	return vfReply{}, fmt.Errorf("unknown reply type %q", l)
}

func vfEncode(argv [][]byte) []byte {
	var b bytes.Buffer
	fmt.Fprintf(&b, "*%d\r\n", len(argv))
	for _, a := range argv {
		fmt.Fprintf(&b, "$%d\r\n", len(a))
		b.Write(a)
		b.WriteString("\r\n")
	}
	return b.Bytes()
}

func vfErrClass(msg string) string {
	l := strings.ToLower(msg)
	switch {
	case strings.Contains(l, "wrong number of arguments"):
		return vfErrArity
	case strings.Contains(l, "syntax error"):
		return vfErrSyntax
	case strings.Contains(l, "invalid expire"):
		return vfErrBadExpire
	case strings.Contains(l, "overflow"):
		return vfErrOverflow
	case strings.Contains(l, "not an integer"):
		return vfErrNotInt
	case strings.Contains(l, "unknown command"):
		return "unknown"
	}
	return "other"
}

// vfMatch compares a reply with the expectation ("" = match).
func vfMatch(e vfExp, r vfReply) string {
	switch e.kind {
	case 'x':
		return ""
	case '-':
		if r.kind != '-' {
			return "wrong reply type"
		}
		c := vfErrClass(string(r.s))
		for _, a := range e.errs {
			if a == c {
				return ""
			}
		}
		return "wrong error class " + c
	case 'c':
		if r.kind != 'c' {
			return "connection should be closed"
		}
		return ""
	case '+', '$':
		if r.kind != e.kind {
			return "wrong reply type"
		}
		if !bytes.Equal(r.s, e.s) {
			return "wrong value"
		}
		return ""
	case '_':
		if r.kind != '_' {
			return "wrong reply type"
		}
		return ""
	case ':':
		if r.kind != ':' {
			return "wrong reply type"
		}
		if r.n != e.n {
			return "wrong integer"
		}
		return ""
	case '*':
		if r.kind != '*' || r.null {
			return "wrong reply type"
		}
		if len(r.arr) != len(e.arr) {
			return "wrong array length"
		}
		for i := range e.arr {
			if (e.arr[i] == nil) != (r.arr[i] == nil) || !bytes.Equal(e.arr[i], r.arr[i]) {
				return fmt.Sprintf("wrong array element %d", i)
			}
		}
		return ""
	}
	return "harness: unknown expectation"
}

// -------------------------------------------------------------- running ----

func vfArgv(argv [][]byte) string {
	p := make([]string, len(argv))
	for i, a := range argv {
		if i == 0 {
			p[i] = string(a)
		} else {
			p[i] = vfQ(a)
		}
	}
	return strings.Join(p, " ")
}

func vfRun29(c vfCase29, r *pbt.Rec) (err error) {
	r.Excluded(c.Excluded)
	dir, clean := pbt.TempDir("c29")
	defer clean()
	t0 := time.Now()
	if os.Getenv("VERIF_DEBUG_TIMING") != "" {
		defer func() { fmt.Fprintf(os.Stderr, "case: %d cmds, total %v\n", len(c.Cmds), time.Since(t0)) }()
	}
	var (
		path string
		stop func()
		herr error
	)
	flavour := vfGatewayFlavour
	if c.Backend == "raft" {
		path, stop, herr = vfStartRaft(dir)
		flavour = "raft backend over kv.Apply"
		r.Label("backend:raft")
	} else {
		path, stop, herr = vfStartEmbedded(dir)
		r.Label("backend:embedded")
	}
	if os.Getenv("VERIF_DEBUG_TIMING") != "" {
		fmt.Fprintf(os.Stderr, "start %v\n", time.Since(t0))
	}
	if herr != nil {
		return fmt.Errorf("harness: %v", herr)
	}
	var conns []net.Conn
	defer func() {
		for _, cn := range conns {
			_ = cn.Close()
		}
		stop()
	}()
	dial := func() (net.Conn, *bufio.Reader, error) {
		cn, err := net.Dial("unix", path)
		if err != nil {
			return nil, nil, err
		}
		conns = append(conns, cn)
		_ = cn.SetDeadline(time.Now().Add(30 * time.Second))
		return cn, bufio.NewReaderSize(cn, 1<<16), nil
	}
	cn, rd, herr := dial()
	if herr != nil {
		return fmt.Errorf("harness: dial: %v", herr)
	}
	m := vfNewModel()
	var hist []string
	note := func(s string) {
		hist = append(hist, s)
	}
	fail := func(sig, format string, a ...any) error {
		h := hist
		if len(h) > 40 {
			h = append([]string{fmt.Sprintf("… %d earlier commands …", len(h)-40)}, h[len(h)-40:]...)
		}
		return pbt.Failf(sig, "%s\nhistory (gateway flavour %s):\n  %s", fmt.Sprintf(format, a...), flavour, strings.Join(h, "\n  "))
	}
	i, b := 0, 0
	for i < len(c.Cmds) {
		n := 1
		if b < len(c.Batch) && c.Batch[b] > 0 {
			n = c.Batch[b]
		}
		b++
		if i+n > len(c.Cmds) {
			n = len(c.Cmds) - i
		}
		if n > 1 {
			r.Label("pipelined-batch")
		}
		var w bytes.Buffer
		for _, argv := range c.Cmds[i : i+n] {
			w.Write(vfEncode(argv))
		}
		wbuf := w.Bytes()
		wdone := make(chan struct{})
		go func() { _, _ = cn.Write(wbuf); close(wdone) }()
		for _, argv := range c.Cmds[i : i+n] {
			exp := m.apply(argv)
			got, rerr := vfReadReply(rd)
			name := ""
			if len(argv) > 0 {
				name = strings.ToUpper(string(argv[0]))
			}
			if rerr != nil {
				note(fmt.Sprintf("%s -> %v", vfArgv(argv), rerr))
				return fail("bad-reply:"+name, "command %d %s: unreadable reply: %v (expected %s)", i, vfArgv(argv), rerr, exp)
			}
			note(fmt.Sprintf("%-40s -> %s", vfArgv(argv), got))
			r.Label("cmd:" + name)
			switch exp.kind {
			case '-':
				r.Label("expect-error:" + exp.errs[0])
			case '_':
				if name == "SET" {
					r.Label("set-condition-refused")
				}
			case 'x':
				r.Label("not-judged")
			}
			if why := vfMatch(exp, got); why != "" {
				cls := name
				if exp.kind == '-' {
					cls += ":" + exp.errs[0]
				}
				return fail("reply:"+cls, "command %d %s: %s: gateway replied %s, Redis replies %s", i, vfArgv(argv), why, got, exp)
			}
			i++
		}
		<-wdone
	}
	if c.SleepMs > 0 {
		time.Sleep(time.Duration(c.SleepMs) * time.Millisecond)
	}
	// resulting data, read over a second connection
	keys := map[string]bool{}
	for _, k := range vfKeys {
		keys[k] = true
	}
	for _, argv := range c.Cmds {
		if len(argv) >= 2 {
			keys[string(argv[1])] = true
		}
	}
	var ks []string
	for k := range keys {
		if k != "" && !m.tainted[k] {
			ks = append(ks, k)
		}
	}
	sort.Strings(ks)
	cn2, rd2, herr := dial()
	if herr != nil {
		return fail("server-dead", "cannot open a second connection: %v", herr)
	}
	for _, k := range ks {
		if _, werr := cn2.Write(vfEncode([][]byte{[]byte("GET"), []byte(k)})); werr != nil {
			return fail("final-state", "read-back GET %q: %v", k, werr)
		}
		got, rerr := vfReadReply(rd2)
		if rerr != nil {
			return fail("final-state", "read-back GET %q: %v", k, rerr)
		}
		exp := vfExp{kind: '_'}
		if v, ok := m.m[k]; ok {
			exp = vfExp{kind: '$', s: v}
		}
		note(fmt.Sprintf("[conn 2] GET %-32q -> %s", k, got))
		if why := vfMatch(exp, got); why != "" {
			return fail("final-state", "resulting data differ for key %q: %s: gateway has %s, model has %s", k, why, got, exp)
		}
	}
	if m.refusedCond > 0 {
		r.Label("case:refused-conditional-set")
	}
	if m.incrErr > 0 {
		r.Label("case:incr-error")
	}
	if m.expiredSet > 0 {
		r.Label("case:set-with-past-expiry")
	}
	if m.futureSet > 0 {
		r.Label("case:set-with-future-expiry")
	}
	if m.closed {
		r.Label("case:quit")
	}
	if m.refusedCond > 0 && m.incrErr > 0 && m.incrOK > 0 {
		r.NT()
	}
	return nil
}

// ------------------------------------------------------------ generator ----

var vfKeys = []string{"k1", "k2", "ctr", "a:b"}

// Findings of this check that are excluded by construction while listed as open.
const (
	tagPing      = "C29-ping-arity"      // PING with >1 arguments / PING ""
	tagIncrEmpty = "C29-incr-empty"      // empty / blank value counted as 0 by INCR
	tagLenient   = "C29-lenient-int"     // +5, 007, -0 accepted as integers
	tagDecrMin   = "C29-decrby-minint"   // DECRBY k -9223372036854775808
	tagExOver    = "C29-expire-overflow" // EX/PX large enough to overflow time.Duration
	tagHot       = "C29-hotkey-throttle" // >=128 writes to one key within 2 s are refused
	tagPxatSub   = "C29-pxat-subsecond"  // PXAT 1..999 refused
	tagEmptyBulk = "C29-empty-value"     // GET of a key holding "" answers nil
)

var (
	vfInts = []string{"0", "1", "-1", "2", "10", "-7", "100", "9223372036854775807", "9223372036854775806", "-9223372036854775808", "-9223372036854775807",
		"4611686018427387904", "-4611686018427387905"}
	vfNonInts  = []string{"abc", "1.5", "12abc", " 1", "1 ", "0x10", "9223372036854775808", "-9223372036854775809", "99999999999999999999999", "1e3", "--1", "-", "١"}
	vfBlank    = []string{"", " ", "\t", "  "}
	vfLenient  = []string{"+5", "007", "-0", "00", "+0", "-01"}
	vfFutureEX = []string{"100000", "31536000", "1000000000"}
	vfFuturePX = []string{"100000000", "31536000000", "1000000000000"}
	vfEXAT     = []string{"1", "1000000000", "1700000000", "4000000000", "4102444800", "253402300799"}
	vfPXAT     = []string{"1", "1000000000000", "1700000000000", "4000000000000", "4102444800000", "253402300799000"}
	vfBadExp   = []string{"0", "-1", "-100", "abc", "", "1.5", "9223372036854775808"}
)

type vfGen struct {
	t        *rapid.T
	excluded int
	m        *vfModel        // state reached by the commands generated so far (drives exclusion by construction)
	raft     bool            // generating for the raft backend (its own findings are excluded only there)
	ghost    map[string]bool // keys last written by a SET with an already elapsed expiry and not mentioned since
}

// Findings of the raft backend (spec seq-raft).
const (
	tagRaftDelDup     = "C29-raft-del-dup"     // DEL k k counts the key twice
	tagRaftDelExpired = "C29-raft-del-expired" // DEL counts a key whose expiry has passed
	tagRaftMsetDup    = "C29-raft-mset-dup"    // MSET k a k c keeps the first value
	tagRaftEmptyValue = "C29-raft-empty-value" // a key holding "" reads as absent (Percolator reader)
)

// uniqueKeys draws 1..hi distinct keys.
func (g *vfGen) uniqueKeys(hi int) [][]byte {
	n := 1 + g.uni("nkeys-u", hi)
	start := g.uni("key-u", len(vfKeys))
	var out [][]byte
	for i := 0; i < n && i < len(vfKeys); i++ {
		out = append(out, []byte(vfKeys[(start+i)%len(vfKeys)]))
	}
	return out
}

// vfLenientForm: accepted by strconv.ParseInt but not by Redis' string2ll.
func vfLenientForm(v []byte) bool {
	if _, ok := vfString2ll(v); ok {
		return false
	}
	_, err := strconv.ParseInt(string(v), 10, 64)
	return err == nil
}

// counterKey draws the key of an INCR-family command.  While C29-incr-empty /
// C29-lenient-int are open, keys currently holding a blank / leniently-integer
// value are avoided (nil = no suitable key).
func (g *vfGen) counterKey() []byte {
	bad := func(k string) bool {
		v, ok := g.m.m[k]
		if !ok {
			return false
		}
		if pbt.Open(tagIncrEmpty) && len(bytes.TrimSpace(v)) == 0 {
			return true
		}
		return pbt.Open(tagLenient) && vfLenientForm(v)
	}
	k := g.key()
	if !bad(string(k)) {
		return k
	}
	g.excluded++
	for _, alt := range vfKeys {
		if !bad(alt) {
			return []byte(alt)
		}
	}
	return nil
}

// uni draws 0..n-1 (near-)uniformly from unbiased bits: rapid's integer and
// SampledFrom generators strongly favour small values, which starves the later
// alternatives of a grammar.  Shrinks towards 0.
func (g *vfGen) uni(label string, n int) int {
	v := 0
	for m := 1; m < n; m <<= 1 {
		v <<= 1
		if rapid.Bool().Draw(g.t, label) {
			v |= 1
		}
	}
	return v % n
}

func (g *vfGen) pick(label string, xs []string) string { return xs[g.uni(label, len(xs))] }

func (g *vfGen) key() []byte { return []byte(g.pick("key", vfKeys)) }

func (g *vfGen) caseName(n string) []byte {
	switch g.uni("case", 6) {
	case 0:
		return []byte(strings.ToLower(n))
	case 1:
		b := []byte(strings.ToLower(n))
		b[0] = n[0]
		return b
	}
	return []byte(n)
}

// intish draws a string used where an integer is expected.
func (g *vfGen) intish(label string) []byte {
	switch g.uni(label+"-class", 10) {
	case 0, 1:
		return []byte(g.pick(label+"-nonint", vfNonInts))
	case 2:
		if pbt.Open(tagLenient) {
			g.excluded++
			return []byte(g.pick(label+"-int", vfInts))
		}
		return []byte(g.pick(label+"-lenient", vfLenient))
	case 3:
		return []byte(strconv.FormatInt(rapid.Int64().Draw(g.t, label+"-any"), 10))
	}
	return []byte(g.pick(label+"-int", vfInts))
}

// value draws a value to store.
func (g *vfGen) value() []byte {
	v := g.value0()
	if len(v) == 0 && (pbt.Open(tagEmptyBulk) || (g.raft && pbt.Open(tagRaftEmptyValue))) {
		g.excluded++
		return []byte(" ")
	}
	return v
}

func (g *vfGen) value0() []byte {
	switch g.uni("val-class", 12) {
	case 0, 1, 2, 3:
		return []byte(g.pick("val-int", vfInts))
	case 4:
		return []byte(g.pick("val-nonint", vfNonInts))
	case 5:
		return []byte(g.pick("val-blank", vfBlank))
	case 6:
		return []byte(g.pick("val-lenient", vfLenient))
	case 7:
		return rapid.SliceOfN(rapid.Byte(), 1, 24).Draw(g.t, "val-bytes")
	case 8:
		return []byte(g.pick("val-crlf", []string{"a\r\nb", "\r\n", "$-1\r\n", "+OK\r\n"}))
	case 9:
		n := rapid.SampledFrom([]int{900, 1100, 4096, 20000, 70000}).Draw(g.t, "val-big")
		return bytes.Repeat([]byte{byte('A' + n%26)}, n)
	}
	return []byte(rapid.StringMatching(`[a-z]{1,8}`).Draw(g.t, "val-word"))
}

func (g *vfGen) setCmd() [][]byte {
	argv := [][]byte{g.caseName("SET"), g.key(), g.value()}
	opt := func(s string) []byte {
		if g.uni("opt-lower", 4) == 0 {
			return []byte(strings.ToLower(s))
		}
		return []byte(s)
	}
	expiry := func() {
		kind := g.pick("exp-kind", []string{"EX", "PX", "EXAT", "PXAT"})
		var val string
		switch g.uni("exp-class", 6) {
		case 0:
			val = g.pick("exp-bad", vfBadExp)
		default:
			switch kind {
			case "EX":
				val = g.pick("exp-val", vfFutureEX)
			case "PX":
				val = g.pick("exp-val", vfFuturePX)
			case "EXAT":
				val = g.pick("exp-val", vfEXAT)
			case "PXAT":
				val = g.pick("exp-val", vfPXAT)
				if val == "1" && pbt.Open(tagPxatSub) {
					g.excluded++
					val = "1000"
				}
			}
		}
		argv = append(argv, opt(kind), []byte(val))
	}
	cond := func() { argv = append(argv, opt(g.pick("cond", []string{"NX", "XX"}))) }
	switch g.uni("set-shape", 16) {
	case 0, 1, 2, 3:
	case 4, 5, 6:
		cond()
	case 7, 8:
		expiry()
	case 9, 10:
		cond()
		expiry()
	case 11:
		expiry()
		cond()
	case 12: // both conditions: syntax error
		argv = append(argv, opt("NX"), opt("XX"))
	case 13: // two different expiry kinds: syntax error
		argv = append(argv, opt("EX"), []byte("100000"), opt("PXAT"), []byte("4102444800000"))
	case 14: // expiry option without its value / unknown option
		argv = append(argv, opt(g.pick("dangling", []string{"EX", "PX", "EXAT", "PXAT", "FOO", "NXX", "10"})))
	case 15: // repeated condition (allowed)
		c := opt(g.pick("cond2", []string{"NX", "XX"}))
		argv = append(argv, c, c)
	}
	return argv
}

func (g *vfGen) keys(lo, hi int) [][]byte {
	n := rapid.IntRange(lo, hi).Draw(g.t, "nkeys")
	var out [][]byte
	seen := map[string]int{}
	for len(out) < n {
		k := g.key()
		if seen[string(k)] >= 2 { // at most 2 mentions of a key per command (keeps writes per key well below the hot-key limit)
			k = []byte(vfKeys[len(out)%len(vfKeys)])
			if seen[string(k)] >= 2 {
				break
			}
		}
		seen[string(k)]++
		out = append(out, k)
	}
	return out
}

func (g *vfGen) command() [][]byte {
	w := g.uni("cmd", 128)
	switch {
	case w < 24:
		return g.setCmd()
	case w < 36:
		return [][]byte{g.caseName("GET"), g.key()}
	case w < 44:
		ks := g.keys(1, 3)
		if g.raft && pbt.Open(tagRaftDelDup) {
			g.excluded++
			ks = g.uniqueKeys(3)
		}
		if g.raft && pbt.Open(tagRaftDelExpired) {
			var live [][]byte
			for _, k := range ks {
				if !g.ghost[string(k)] {
					live = append(live, k)
				}
			}
			if len(live) != len(ks) {
				g.excluded++
			}
			if len(live) == 0 {
				return [][]byte{g.caseName("GET"), ks[0]}
			}
			ks = live
		}
		return append([][]byte{g.caseName("DEL")}, ks...)
	case w < 52:
		return append([][]byte{g.caseName("MGET")}, g.keys(1, 4)...)
	case w < 60:
		argv := [][]byte{g.caseName("MSET")}
		ks := g.keys(1, 3)
		if g.raft && pbt.Open(tagRaftMsetDup) {
			g.excluded++
			ks = g.uniqueKeys(3)
		}
		for _, k := range ks {
			argv = append(argv, k, g.value())
		}
		return argv
	case w < 68:
		return append([][]byte{g.caseName("EXISTS")}, g.keys(1, 4)...)
	case w < 110:
		k := g.counterKey()
		if k == nil {
			return [][]byte{g.caseName("GET"), g.key()}
		}
		switch {
		case w < 78:
			return [][]byte{g.caseName("INCR"), k}
		case w < 86:
			return [][]byte{g.caseName("DECR"), k}
		case w < 98:
			return [][]byte{g.caseName("INCRBY"), k, g.delta(false)}
		}
		return [][]byte{g.caseName("DECRBY"), k, g.delta(true)}
	case w < 114:
		switch g.uni("ping-shape", 4) {
		case 0:
			return [][]byte{g.caseName("PING"), []byte(rapid.StringMatching(`[a-z ]{1,8}`).Draw(g.t, "ping-msg"))}
		case 1:
			if pbt.Open(tagPing) {
				g.excluded++
				return [][]byte{g.caseName("PING")}
			}
			if rapid.Bool().Draw(g.t, "ping-empty") {
				return [][]byte{g.caseName("PING"), {}}
			}
			return [][]byte{g.caseName("PING"), []byte("a"), []byte("b")}
		}
		return [][]byte{g.caseName("PING")}
	case w < 118:
		return [][]byte{g.caseName("ECHO"), g.value()}
	default:
		return g.wrongArity()
	}
}

func (g *vfGen) delta(decr bool) []byte {
	d := g.intish("delta")
	if decr && string(d) == "-9223372036854775808" && pbt.Open(tagDecrMin) {
		g.excluded++
		return []byte("-9223372036854775807")
	}
	return d
}

func (g *vfGen) wrongArity() [][]byte {
	k, v := g.key(), []byte("v")
	shapes := [][][]byte{
		{[]byte("GET")}, {[]byte("GET"), k, k},
		{[]byte("SET")}, {[]byte("SET"), k},
		{[]byte("DEL")}, {[]byte("MGET")}, {[]byte("EXISTS")},
		{[]byte("MSET")}, {[]byte("MSET"), k}, {[]byte("MSET"), k, v, k},
		{[]byte("INCR")}, {[]byte("INCR"), k, []byte("1")},
		{[]byte("DECR")}, {[]byte("DECR"), k, []byte("1")},
		{[]byte("INCRBY"), k}, {[]byte("INCRBY"), k, []byte("1"), []byte("2")},
		{[]byte("DECRBY"), k}, {[]byte("DECRBY")},
		{[]byte("ECHO")}, {[]byte("ECHO"), v, v},
	}
	return shapes[g.uni("arity-shape", len(shapes))]
}

func vfGen29(t *rapid.T) vfCase29 { return vfGen29For(t, false) }

func vfGen29For(t *rapid.T, raft bool) vfCase29 {
	g := &vfGen{t: t, m: vfNewModel(), raft: raft, ghost: map[string]bool{}}
	var c vfCase29
	n := rapid.IntRange(4, 40).Draw(t, "len")
	for i := 0; i < n; i++ {
		argv := g.command()
		before := g.m.expiredSet
		if exp := g.m.apply(argv); exp.kind != '-' {
			for _, a := range argv[1:] {
				delete(g.ghost, string(a)) // a later successful mention overwrites, deletes or (on read) cleans the key up
			}
		}
		if g.m.expiredSet > before && len(argv) > 1 {
			g.ghost[string(argv[1])] = true
		}
		c.Cmds = append(c.Cmds, argv)
	}
	if rapid.IntRange(0, 7).Draw(t, "quit") == 0 {
		c.Cmds = append(c.Cmds, [][]byte{g.caseName("QUIT")})
		for i := rapid.IntRange(0, 2).Draw(t, "after-quit"); i > 0; i-- {
			c.Cmds = append(c.Cmds, [][]byte{[]byte("GET"), g.key()})
		}
	}
	switch rapid.IntRange(0, 2).Draw(t, "pipelining") {
	case 0: // strict request/response
	case 1:
		for left := len(c.Cmds); left > 0; {
			b := rapid.IntRange(1, 12).Draw(t, "batch")
			c.Batch = append(c.Batch, b)
			left -= b
		}
	case 2:
		c.Batch = []int{len(c.Cmds)}
	}
	c.Excluded = g.excluded
	return c
}

// vfStatic29: documented examples and the boundary inputs named by the property.
func vfStatic29() []vfCase29 { return vfStatic29For(false) }

func vfStatic29For(raft bool) []vfCase29 {
	cmd := func(a ...string) [][]byte {
		out := make([][]byte, len(a))
		for i, s := range a {
			out[i] = []byte(s)
		}
		return out
	}
	seq := func(cmds ...[][]byte) vfCase29 { return vfCase29{Cmds: cmds} }
	max, min := "9223372036854775807", "-9223372036854775808"
	out := []vfCase29{
		seq(cmd("PING"), cmd("PING", "hello"), cmd("ECHO", "x"), cmd("GET", "k1"), cmd("SET", "k1", "v"), cmd("GET", "k1"), cmd("QUIT")),
		seq(cmd("SET", "k1", "a", "NX"), cmd("SET", "k1", "b", "NX"), cmd("GET", "k1"), cmd("SET", "k2", "c", "XX"), cmd("GET", "k2"), cmd("SET", "k1", "d", "XX"), cmd("GET", "k1")),
		seq(cmd("SET", "ctr", "10"), cmd("INCR", "ctr"), cmd("DECR", "ctr"), cmd("INCRBY", "ctr", "5"), cmd("DECRBY", "ctr", "20"), cmd("GET", "ctr")),
		seq(cmd("SET", "ctr", max), cmd("INCR", "ctr"), cmd("INCRBY", "ctr", "1"), cmd("DECRBY", "ctr", "-1"), cmd("GET", "ctr"), cmd("DECR", "ctr"), cmd("INCR", "ctr"), cmd("GET", "ctr")),
		seq(cmd("SET", "ctr", min), cmd("DECR", "ctr"), cmd("DECRBY", "ctr", "1"), cmd("INCRBY", "ctr", "-1"), cmd("GET", "ctr"), cmd("INCRBY", "ctr", max), cmd("GET", "ctr")),
		seq(cmd("INCRBY", "ctr", min), cmd("GET", "ctr"), cmd("INCRBY", "ctr", "-1"), cmd("DEL", "ctr"), cmd("INCRBY", "ctr", max), cmd("INCR", "ctr")),
		seq(cmd("SET", "k1", "abc"), cmd("INCR", "k1"), cmd("INCRBY", "k1", "2"), cmd("DECRBY", "k1", "x"), cmd("INCRBY", "ctr", "1.5"), cmd("INCRBY", "ctr", "9223372036854775808"), cmd("GET", "ctr")),
		seq(cmd("SET", "k1", "v", "EXAT", "1000000000"), cmd("GET", "k1"), cmd("EXISTS", "k1"), cmd("SET", "k1", "w", "XX"), cmd("SET", "k1", "w", "NX"), cmd("GET", "k1"), cmd("SET", "k1", "z", "PXAT", "1000"), cmd("MGET", "k1", "k2"), cmd("DEL", "k1"), cmd("INCR", "k1")),
		seq(cmd("SET", "k1", "v", "EX", "100000"), cmd("GET", "k1"), cmd("SET", "k2", "v", "PX", "100000000", "NX"), cmd("SET", "k2", "v", "PXAT", "4102444800000", "XX"), cmd("EXISTS", "k1", "k2", "k1"), cmd("SET", "k1", "5", "EXAT", "4102444800"), cmd("INCR", "k1"), cmd("MSET", "k1", "x"), cmd("GET", "k1")),
		seq(cmd("SET", "k1", "v", "EX", "0"), cmd("SET", "k1", "v", "PX", "-1"), cmd("SET", "k1", "v", "EX", "abc"), cmd("SET", "k1", "v", "EX"), cmd("SET", "k1", "v", "NX", "XX"), cmd("SET", "k1", "v", "EX", "100000", "PX", "100000000"), cmd("SET", "k1", "v", "BOGUS"), cmd("GET", "k1")),
		seq(cmd("MSET", "k1", "a", "k2", "b"), cmd("MGET", "k1", "k2", "ctr", "k1"), cmd("DEL", "k1", "ctr"), cmd("EXISTS", "k2", "k2", "k1"), cmd("MSET", "k1"), cmd("MSET", "k1", "a", "k2")),
		seq(cmd("set", "k1", "v", "nx"), cmd("gEt", "k1"), cmd("incrby", "ctr", "3"), cmd("Del", "k1", "ctr"), cmd("ping")),
	}
	if !(raft && pbt.Open(tagRaftDelDup)) {
		out = append(out, seq(cmd("MSET", "k1", "a", "k2", "b"), cmd("DEL", "k1", "k1", "ctr"), cmd("DEL", "k2", "k2")))
	}
	if !(raft && pbt.Open(tagRaftMsetDup)) {
		out = append(out, seq(cmd("MSET", "k1", "a", "k2", "b", "k1", "c"), cmd("MGET", "k1", "k2"), cmd("MSET", "k2", "x", "k2", "y"), cmd("GET", "k2")))
	}
	if !(raft && pbt.Open(tagRaftDelExpired)) {
		out = append(out, seq(cmd("SET", "k1", "v", "EXAT", "1000000000"), cmd("DEL", "k1"), cmd("SET", "k2", "v", "PXAT", "1000000000000"), cmd("SET", "ctr", "1"), cmd("DEL", "k2", "ctr")))
	}
	if !pbt.Open(tagPing) {
		out = append(out, seq(cmd("PING", "a", "b"), cmd("PING", "")))
	}
	if !pbt.Open(tagIncrEmpty) {
		out = append(out, seq(cmd("SET", "k1", "  "), cmd("GET", "k1"), cmd("INCR", "k1"), cmd("SET", "k2", " "), cmd("DECRBY", "k2", "1"), cmd("SET", "a:b", "\r\n"), cmd("INCRBY", "a:b", "5")))
	}
	if !pbt.Open(tagLenient) {
		out = append(out, seq(cmd("SET", "k1", "+5"), cmd("INCR", "k1"), cmd("SET", "k2", "007"), cmd("INCR", "k2"), cmd("INCRBY", "ctr", "+1"), cmd("SET", "k1", "v", "EX", "+100000")))
	}
	if !pbt.Open(tagDecrMin) {
		out = append(out, seq(cmd("DECRBY", "ctr", min), cmd("GET", "ctr"), cmd("SET", "ctr", "-1"), cmd("DECRBY", "ctr", min), cmd("SET", "ctr", "5"), cmd("DECRBY", "ctr", min), cmd("GET", "ctr")))
	}
	if !pbt.Open(tagExOver) {
		c := seq(cmd("SET", "k1", "v", "EX", "18446744073"), cmd("SET", "k2", "v", "PX", "18446744073709"), cmd("SET", "a:b", "v", "EX", "9223372037"), cmd("MGET", "k1", "k2", "a:b"))
		c.SleepMs = 2300
		out = append(out, c)
	}
	if !pbt.Open(tagEmptyBulk) && !(raft && pbt.Open(tagRaftEmptyValue)) {
		out = append(out, seq(cmd("SET", "k1", ""), cmd("GET", "k1"), cmd("EXISTS", "k1"), cmd("MGET", "k1", "k2"), cmd("ECHO", ""), cmd("SET", "k1", "x", "NX")))
	}
	if !pbt.Open(tagPxatSub) {
		out = append(out, seq(cmd("SET", "k1", "v", "PXAT", "1"), cmd("GET", "k1"), cmd("SET", "k2", "v"), cmd("SET", "k2", "w", "PXAT", "999"), cmd("GET", "k2")))
	}
	if !pbt.Open(tagHot) {
		var c vfCase29
		for i := 0; i < 200; i++ {
			c.Cmds = append(c.Cmds, cmd("INCR", "ctr"))
		}
		c.Cmds = append(c.Cmds, cmd("GET", "ctr"))
		out = append(out, c)
	}
	return out
}

func TestCheck(t *testing.T) {
	s := &pbt.Suite{ID: "C29", Level: "exploration",
		Rule: "Sequences of 4-43 commands over 4 keys drawn from a grammar of GET, SET [NX|XX] [EX|PX|EXAT|PXAT n] (far-past / far-future n, invalid n, conflicting and dangling options), " +
			"DEL, MGET, MSET, EXISTS, INCR, DECR, INCRBY, DECRBY (integers at and beyond the int64 limits, non-integers), PING, ECHO, QUIT and wrong arities, mixed-case names, " +
			"sent request/response or pipelined over a real connection to the real gateway, fresh database per case: spec seq = embedded backend started through the real main(), " +
			"spec seq-raft = raftBackend over a harness client on the real raftstore/kv applier (Percolator database, PD TSO allocator, one region). " +
			"Oracle: a reference Redis model written from the command documentation: reply type and value of every command (errors by class: arity / syntax / not-an-integer / invalid-expire / overflow), " +
			"connection closed after QUIT, and the resulting values read back over a second connection. Non-trivial = sequence containing >= 1 refused conditional SET, >= 1 INCR-family error and >= 1 successful INCR-family call; distinct by content.",
		Assumptions: []string{
			"expiries are only far past (<= 2023) or far future (>= 2096, relative >= 27 h): closer ones are not generated and would not be judged",
			"when one command has several defects any of their error classes is accepted (the documentation does not order them)",
			"error texts are compared by class only",
			"empty keys, SET options GET/KEEPTTL and commands outside the property's list are not generated",
			"gateway flavour: " + vfGatewayFlavour,
		},
	}
	pbt.Add(s, &pbt.Spec[vfCase29]{Name: "seq", Gen: vfGen29, Run: vfRun29, Static: vfStatic29,
		Quick: 2400, Thorough: 64000, Shards: 8, Timeout: 12 * time.Minute})
	raft := func(c vfCase29) vfCase29 { c.Backend = "raft"; return c }
	pbt.Add(s, &pbt.Spec[vfCase29]{Name: "seq-raft",
		Gen: func(t *rapid.T) vfCase29 { return raft(vfGen29For(t, true)) }, Run: vfRun29,
		Static: func() []vfCase29 {
			var out []vfCase29
			for _, c := range vfStatic29For(true) {
				out = append(out, raft(c))
			}
			return out
		},
		Quick: 800, Thorough: 20000, Shards: 8, Timeout: 12 * time.Minute})
	s.Extra("gateway_flavour", vfGatewayFlavour)
	s.Main(t)
	_ = os.Stdout
}
