// C13 — WAL replays exactly what was appended, tolerating any torn tail.
//
// Generator: sequences of WAL operations (typed AppendRecords batches, untyped Append,
// Rotate, SwitchSegment to a new id the way lsm.NewMemtable does, SwitchSegment back to
// the newest non-empty segment the way lsm.recovery does, Sync, Close+Open) over drawn
// segment sizes / buffer sizes, payload sizes 0..70 KiB including sizes that exactly
// fill the segment.
//
// Oracle (round trip): Replay and ReplaySegment yield exactly the appended
// (type,payload) list in order.  Then the segment that was being written is cut at
// every byte offset (exhaustive for small files, structural + drawn offsets otherwise):
// wal.VerifyDir + wal.Open + Replay must yield exactly the records whose last byte lies
// before the cut, and after appending one more record to the reopened log a fresh
// Open + Replay must yield that prefix followed by the new record.
package c13

import (
	"bytes"
	"fmt"
	"os"
	"path/filepath"
	"runtime/debug"
	"sort"
	"testing"

	"github.com/feichai0017/NoKV/wal"
	"nokvverif/internal/pbt"
	"pgregory.net/rapid"
)

func TestMain(m *testing.M) {
	// the WAL allocates 256 KiB buffers per opened segment; with the default GC target the
	// collector would run every few cuts
	debug.SetGCPercent(800)
	pbt.RunMain(m)
}

const maxPayload = 70 << 10

// Rec is one WAL record of the case: type + a payload described by (N, Fill, Seed).
type Rec struct {
	T    uint8  `json:"t"`
	N    int    `json:"n"`
	Fill uint8  `json:"f"` // 0 zeros, 1 0xff, 2 pseudo-random from Seed, 3 looks like record headers
	Seed uint32 `json:"s"`
}

func (r Rec) payload() []byte {
	n := r.N
	if n < 0 {
		n = 0
	}
	if n > maxPayload {
		n = maxPayload
	}
	b := make([]byte, n)
	switch r.Fill % 4 {
	case 0:
	case 1:
		for i := range b {
			b[i] = 0xff
		}
	case 2:
		x := r.Seed*2654435761 + 0x9e3779b9
		for i := range b {
			x ^= x << 13
			x ^= x >> 17
			x ^= x << 5
			b[i] = byte(x)
		}
	case 3:
		// bytes that look like small record headers: 00 00 00 02 <type> ...
		pat := []byte{0, 0, 0, 2, byte(r.Seed % 4), byte(r.Seed >> 8)}
		for i := range b {
			b[i] = pat[i%len(pat)]
		}
	}
	return b
}

// Op kinds: A AppendRecords(batch) | U Append(untyped payloads) | R Rotate |
// J SwitchSegment(ID,true) to a new higher id | B SwitchSegment(newest non-empty,false) |
// S Sync | O Close+Open.
type Op struct {
	K    string `json:"k"`
	Recs []Rec  `json:"recs,omitempty"`
	ID   uint32 `json:"id,omitempty"`
}

type Case struct {
	SegSize     int64    `json:"seg"`
	BufSize     int      `json:"buf"`
	SyncOnWrite bool     `json:"sow"`
	Ops         []Op     `json:"ops"`
	Live        bool     `json:"live"`             // full replay on the live manager after Sync instead of after Close+Open
	Cuts        []uint32 `json:"cuts"`             // drawn truncation offsets (mod size+1) used when the file is not enumerated completely
	ExhLimit    int      `json:"exh"`              // enumerate every offset when the cut segment is at most this long
	Tail        Rec      `json:"tail"`             // record appended after recovery
	Budget      int      `json:"budget,omitempty"` // work budget of the cut phase in MiB of buffers allocated/read (default 600)
	// Excl lists the open known findings the generator steered away from (see FINDINGS.md):
	// "hdr-tail": cuts 1..3 bytes into a length header skip the append-after-recovery step.
	Excl []string `json:"excl,omitempty"`
}

func (c Case) excl(s string) bool {
	for _, e := range c.Excl {
		if e == s {
			return true
		}
	}
	return false
}

type placed struct {
	typ      wal.RecordType
	pay      []byte
	seg      uint32
	off, end int64
}

type got struct {
	typ wal.RecordType
	pay []byte
}

func effSeg(s int64) int64 {
	if s == 0 {
		return 64 << 20
	}
	if s < 64<<10 {
		return 64 << 10
	}
	return s
}

func collect(m *wal.Manager) ([]got, error) {
	var out []got
	err := m.Replay(func(info wal.EntryInfo, p []byte) error {
		out = append(out, got{info.Type, append([]byte(nil), p...)})
		return nil
	})
	return out, err
}

func diff(want []placed, have []got) string {
	n := len(want)
	if len(have) < n {
		n = len(have)
	}
	for i := 0; i < n; i++ {
		if want[i].typ != have[i].typ || !bytes.Equal(want[i].pay, have[i].pay) {
			return fmt.Sprintf("record %d differs: want type=%d len=%d (seg %d off %d), got type=%d len=%d", i, want[i].typ, len(want[i].pay), want[i].seg, want[i].off, have[i].typ, len(have[i].pay))
		}
	}
	if len(want) != len(have) {
		return fmt.Sprintf("replay yields %d records, want %d", len(have), len(want))
	}
	return ""
}

func segPath(dir string, id uint32) string { return filepath.Join(dir, fmt.Sprintf("%05d.wal", id)) }

func listWal(dir string) []string {
	fs, _ := filepath.Glob(filepath.Join(dir, "*.wal"))
	sort.Strings(fs)
	return fs
}

func run(c Case, r *pbt.Rec) error {
	dir, cleanup := pbt.TempDir("c13")
	defer cleanup()
	cfg := wal.Config{Dir: dir, SegmentSize: c.SegSize, BufferSize: c.BufSize, SyncOnWrite: c.SyncOnWrite}
	m, err := wal.Open(cfg)
	if err != nil {
		return fmt.Errorf("harness: open: %v", err)
	}
	closed := false
	defer func() {
		if !closed {
			_ = m.Close()
		}
	}()

	// ---- phase 1: execute the operations, remembering where the WAL says each record went
	var all []placed
	count := map[uint32]int{1: 0} // records per existing segment id
	active := uint32(1)
	maxID := func() uint32 {
		var mx uint32
		for id := range count {
			if id > mx {
				mx = id
			}
		}
		return mx
	}
	newestNonEmpty := func() (uint32, bool) {
		var mx uint32
		ok := false
		for id, n := range count {
			if n > 0 && (!ok || id > mx) {
				mx, ok = id, true
			}
		}
		return mx, ok
	}
	higherAllEmpty := func(id uint32) bool {
		for j, n := range count {
			if j > id && n > 0 {
				return false
			}
		}
		return true
	}
	note := func(infos []wal.EntryInfo, recs []wal.Record) error {
		if len(infos) != len(recs) {
			return pbt.Failf("append-infos", "AppendRecords returned %d infos for %d records", len(infos), len(recs))
		}
		for i, in := range infos {
			if _, ok := count[in.SegmentID]; !ok {
				count[in.SegmentID] = 0
				r.Label("auto-rotate")
			}
			count[in.SegmentID]++
			active = in.SegmentID
			all = append(all, placed{typ: recs[i].Type, pay: recs[i].Payload, seg: in.SegmentID, off: in.Offset, end: in.Offset + int64(len(recs[i].Payload)) + 9})
		}
		return nil
	}
	for _, op := range c.Ops {
		switch op.K {
		case "A", "U":
			if len(op.Recs) == 0 {
				continue
			}
			recs := make([]wal.Record, len(op.Recs))
			pays := make([][]byte, len(op.Recs))
			for i, rc := range op.Recs {
				t := wal.RecordType(rc.T % 4)
				if op.K == "U" {
					t = wal.RecordTypeEntry
				}
				pays[i] = rc.payload()
				recs[i] = wal.Record{Type: t, Payload: pays[i]}
				r.Label(fmt.Sprintf("type:%d", t))
				r.Label("size:" + sizeClass(len(pays[i])))
			}
			var infos []wal.EntryInfo
			if op.K == "A" {
				infos, err = m.AppendRecords(recs...)
			} else {
				infos, err = m.Append(pays...)
			}
			if err != nil {
				return pbt.Failf("append-error", "append failed: %v", err)
			}
			// a record that does not fit makes the WAL rotate to active+1; that id may already
			// exist (and is recreated) only when it is empty by the B precondition below.
			if e := note(infos, recs); e != nil {
				return e
			}
		case "R":
			if err := m.Rotate(); err != nil {
				return pbt.Failf("rotate-error", "Rotate: %v", err)
			}
			active++
			count[active] = 0
			r.Label("op:rotate")
		case "J":
			if op.ID <= maxID() {
				continue
			}
			if err := m.SwitchSegment(op.ID, true); err != nil {
				return pbt.Failf("switch-error", "SwitchSegment(%d,true): %v", op.ID, err)
			}
			active = op.ID
			count[active] = 0
			r.Label("op:switch-new")
		case "B":
			id, ok := newestNonEmpty()
			if !ok || id == active || !higherAllEmpty(id) {
				continue
			}
			if err := m.SwitchSegment(id, false); err != nil {
				return pbt.Failf("switch-error", "SwitchSegment(%d,false): %v", id, err)
			}
			active = id
			r.Label("op:switch-back")
		case "S":
			if err := m.Sync(); err != nil {
				return pbt.Failf("sync-error", "Sync: %v", err)
			}
		case "O":
			if err := m.Close(); err != nil {
				return pbt.Failf("close-error", "Close: %v", err)
			}
			m, err = wal.Open(cfg)
			if err != nil {
				closed = true
				return pbt.Failf("reopen-error", "Open of a cleanly closed log: %v", err)
			}
			active = maxID()
			r.Label("op:reopen")
		}
	}
	// Harness invariant: records were appended in (segment id, offset) order, so the
	// append order is the replay order (SwitchSegment back is only used when every
	// higher segment is empty, as lsm.recovery does).
	for i := 1; i < len(all); i++ {
		a, b := all[i-1], all[i]
		if a.seg > b.seg || (a.seg == b.seg && a.end > b.off) {
			return pbt.Failf("placement", "record %d placed at seg %d off %d after record %d at seg %d [%d,%d)", i, b.seg, b.off, i-1, a.seg, a.off, a.end)
		}
	}
	if active > 99999 || maxID() > 99999 {
		r.Label("segment-id>99999")
	}
	if len(count) > 1 {
		r.Label("multi-segment")
	}

	// ---- phase 2: full replay
	if c.Live {
		if err := m.Sync(); err != nil {
			return pbt.Failf("sync-error", "Sync: %v", err)
		}
		r.Label("replay:live")
	} else {
		if err := m.Close(); err != nil {
			return pbt.Failf("close-error", "Close: %v", err)
		}
		if m, err = wal.Open(cfg); err != nil {
			closed = true
			return pbt.Failf("reopen-error", "Open of a cleanly closed log: %v", err)
		}
		r.Label("replay:reopened")
	}
	have, err := collect(m)
	if err != nil {
		return pbt.Failf("replay-error", "Replay of an intact log failed: %v", err)
	}
	if d := diff(all, have); d != "" {
		return pbt.Failf("replay-mismatch", "Replay of an intact log: %s", d)
	}
	// ReplaySegment, segment by segment in id order, must give the same list.
	ids := make([]uint32, 0, len(count))
	for id := range count {
		ids = append(ids, id)
	}
	sort.Slice(ids, func(i, j int) bool { return ids[i] < ids[j] })
	var bySeg []got
	for _, id := range ids {
		if err := m.ReplaySegment(id, func(info wal.EntryInfo, p []byte) error {
			bySeg = append(bySeg, got{info.Type, append([]byte(nil), p...)})
			return nil
		}); err != nil {
			return pbt.Failf("replaysegment-error", "ReplaySegment(%d) of an intact log failed: %v", id, err)
		}
	}
	if d := diff(all, bySeg); d != "" {
		return pbt.Failf("replaysegment-mismatch", "ReplaySegment over all segments: %s", d)
	}
	if err := m.Close(); err != nil {
		return pbt.Failf("close-error", "Close: %v", err)
	}
	closed = true

	// ---- phase 3: cut the segment that was being written at byte offsets
	cutSeg := active
	var inSeg []placed
	nBefore := 0 // records in lower segments
	for _, p := range all {
		if p.seg == cutSeg {
			inSeg = append(inSeg, p)
		} else if p.seg < cutSeg {
			nBefore++
		}
	}
	ph := &cutPhase{c: c, r: r, cfg: cfg, dir: dir, cutSeg: cutSeg, highest: maxID(), before: all[:nBefore], inSeg: inSeg}
	if err := ph.prepare(); err != nil {
		return err
	}
	size := ph.size
	nfiles := int64(len(ph.orig))

	// Work estimate per cut in allocated+read bytes: VerifyDir uses a fixed 256 KiB reader per
	// segment, every Open allocates a writer and replays everything, plus two explicit replays.
	bufEff := int64(c.BufSize)
	if bufEff <= 0 {
		bufEff = 256 << 10
	}
	cost := func(nf, total int64) int64 { return nf*(256<<10) + 2*bufEff + 4*nf*bufEff + 5*total + 300<<10 }
	budget := int64(c.Budget) << 20
	if budget <= 0 {
		budget = 600 << 20
	}

	structural := func() []int64 {
		seen := map[int64]bool{}
		var offs []int64
		add := func(o int64) {
			if o >= 0 && o <= size && !seen[o] {
				seen[o] = true
				offs = append(offs, o)
			}
		}
		st := inSeg
		if len(st) > 4 {
			st = append(append([]placed(nil), inSeg[:1]...), inSeg[len(inSeg)-3:]...)
		}
		for _, p := range st {
			for d := int64(0); d <= 5; d++ {
				add(p.off + d)
			}
			for d := int64(1); d <= 5; d++ {
				add(p.end - d)
			}
		}
		add(size)
		for _, cu := range c.Cuts {
			add(int64(cu) % (size + 1))
		}
		return offs
	}
	all0 := func() []int64 {
		offs := make([]int64, 0, size+1)
		for o := int64(0); o <= size; o++ {
			offs = append(offs, o)
		}
		return offs
	}
	limit := func(offs []int64, per int64) []int64 {
		if n := budget / 2 / per; int64(len(offs)) > n {
			if n < 6 {
				n = 6
			}
			if int64(len(offs)) > n {
				offs = offs[:n]
			}
		}
		return offs
	}

	if nfiles == 1 {
		per := cost(1, size)
		if size <= int64(c.ExhLimit) && (size+1)*per <= budget {
			r.Label("cuts:exhaustive")
			if err := ph.sweep(all0(), false); err != nil {
				return err
			}
		} else {
			r.Label("cuts:sampled")
			if err := ph.sweep(limit(structural(), per), false); err != nil {
				return err
			}
		}
	} else {
		// (a) the whole directory with structural + drawn offsets
		if err := ph.sweep(limit(structural(), cost(nfiles, ph.total)), false); err != nil {
			return err
		}
		if err := ph.othersUntouched(); err != nil {
			return err
		}
		// (b) every offset, with the older segments removed the way the engine removes them
		// after their memtable has been flushed (Manager.RemoveSegment)
		per := cost(1, size)
		if size <= int64(c.ExhLimit) && (size+1)*per <= budget {
			r.Label("cuts:exhaustive")
			r.Label("cuts:exhaustive-after-removing-older-segments")
			if err := ph.dropOthers(); err != nil {
				return err
			}
			if err := ph.sweep(all0(), true); err != nil {
				return err
			}
		} else {
			r.Label("cuts:sampled")
		}
	}
	if ph.nt {
		r.NT()
	}
	return nil
}

// cutPhase holds the state of the truncation sweep over one closed WAL directory.
type cutPhase struct {
	c        Case
	r        *pbt.Rec
	cfg      wal.Config
	dir      string
	cutSeg   uint32
	highest  uint32
	before   []placed // records in lower segments (still present unless dropOthers was called)
	inSeg    []placed
	path     string
	pristine []byte
	size     int64
	orig     map[string]int64
	total    int64
	nt       bool
}

func (ph *cutPhase) prepare() error {
	ph.path = segPath(ph.dir, ph.cutSeg)
	b, err := os.ReadFile(ph.path)
	if err != nil {
		return fmt.Errorf("harness: read cut segment: %v", err)
	}
	ph.pristine, ph.size = b, int64(len(b))
	if n := len(ph.inSeg); (n == 0 && ph.size != 0) || (n > 0 && ph.inSeg[n-1].end != ph.size) {
		return pbt.Failf("layout", "segment %d is %d bytes long but its %d records do not end there", ph.cutSeg, ph.size, n)
	}
	ph.orig = map[string]int64{}
	for _, f := range listWal(ph.dir) {
		st, err := os.Stat(f)
		if err != nil {
			return fmt.Errorf("harness: %v", err)
		}
		ph.orig[f] = st.Size()
		ph.total += st.Size()
	}
	return nil
}

func (ph *cutPhase) dropOthers() error {
	for f := range ph.orig {
		if f != ph.path {
			if err := os.Remove(f); err != nil {
				return fmt.Errorf("harness: %v", err)
			}
			delete(ph.orig, f)
		}
	}
	ph.before = nil
	ph.highest = ph.cutSeg
	ph.total = ph.size
	return nil
}

// othersUntouched checks that recovery and the append after it left every other segment
// alone.  The only legitimate change is that the appended record did not fit and the log
// rotated into the next id, which may be an existing empty segment; restore() empties it again.
func (ph *cutPhase) othersUntouched() error {
	for f, sz := range ph.orig {
		if f == ph.path {
			continue
		}
		st, err := os.Stat(f)
		if err != nil {
			return pbt.Failf("other-segment-changed", "recovery removed %s: %v", filepath.Base(f), err)
		}
		if st.Size() == sz {
			continue
		}
		if sz == 0 && f == segPath(ph.dir, ph.cutSeg+1) {
			continue
		}
		return pbt.Failf("other-segment-changed", "recovery or the append after it changed %s (was %d bytes, now %d)", filepath.Base(f), sz, st.Size())
	}
	return nil
}

func (ph *cutPhase) restore() {
	for _, f := range listWal(ph.dir) {
		sz, ok := ph.orig[f]
		if !ok {
			_ = os.Remove(f)
		} else if f != ph.path && sz == 0 {
			_ = os.Truncate(f, 0)
		}
	}
}

func (ph *cutPhase) sweep(offs []int64, lean bool) error {
	r, c := ph.r, ph.c
	inSeg := ph.inSeg
	tailRec := wal.Record{Type: wal.RecordType(c.Tail.T % 4), Payload: c.Tail.payload()}
	r.LabelN("cut-offsets", len(offs))
	for _, o := range offs {
		k := 0 // complete records of the cut segment
		for k < len(inSeg) && inSeg[k].end <= o {
			k++
		}
		class := "boundary"
		inHdr := false
		if k < len(inSeg) && o > inSeg[k].off {
			p := inSeg[k]
			switch d := o - p.off; {
			case d < 4:
				class, inHdr = "in-length", true
			case d == 4:
				class = "after-length"
			case o > p.end-4:
				class = "in-crc"
			case o == p.end-4:
				class = "before-crc"
			default:
				class = "in-payload"
			}
			if len(ph.before)+k > 0 {
				ph.nt = true
			}
		} else if o == 0 {
			class = "at-0"
		}
		r.Label("cut:" + class)

		if err := os.WriteFile(ph.path, ph.pristine[:o], 0o644); err != nil {
			return fmt.Errorf("harness: write cut: %v", err)
		}
		want := append([]placed(nil), ph.before...)
		want = append(want, inSeg[:k]...)
		where := fmt.Sprintf("segment %d (%d bytes, %d records) cut at %d [%s]", ph.cutSeg, ph.size, len(inSeg), o, class)
		if lean {
			where += " (older segments removed)"
		}

		if err := wal.VerifyDir(ph.dir, nil); err != nil {
			return pbt.Failf("verifydir-error", "%s: VerifyDir: %v", where, err)
		}
		m, err := wal.Open(ph.cfg)
		if err != nil {
			return pbt.Failf("open-after-cut", "%s: Open: %v", where, err)
		}
		if ph.cutSeg != ph.highest {
			// lsm.recovery: resume the newest non-empty segment
			if err := m.SwitchSegment(ph.cutSeg, false); err != nil {
				_ = m.Close()
				return pbt.Failf("switch-error", "%s: SwitchSegment(%d,false): %v", where, ph.cutSeg, err)
			}
		}
		have, err := collect(m)
		if err != nil {
			_ = m.Close()
			return pbt.Failf("replay-after-cut-error", "%s: Replay: %v", where, err)
		}
		if d := diff(want, have); d != "" {
			_ = m.Close()
			return pbt.Failf("replay-after-cut", "%s: %s", where, d)
		}
		if inHdr && c.excl("hdr-tail") {
			r.Excluded(1)
			_ = m.Close()
			ph.restore()
			continue
		}
		if _, err := m.AppendRecords(tailRec); err != nil {
			_ = m.Close()
			return pbt.Failf("append-after-cut", "%s: AppendRecords: %v", where, err)
		}
		if err := m.Close(); err != nil {
			return pbt.Failf("close-error", "%s: Close: %v", where, err)
		}
		m, err = wal.Open(ph.cfg)
		if err != nil {
			return pbt.Failf("open-after-append", "%s: Open after appending one record: %v", where, err)
		}
		have, err = collect(m)
		_ = m.Close()
		if err != nil {
			return pbt.Failf("replay-after-append-error", "%s: Replay after appending one record to the recovered log: %v", where, err)
		}
		want = append(want, placed{typ: tailRec.Type, pay: tailRec.Payload, seg: ph.cutSeg, off: -1})
		if d := diff(want, have); d != "" {
			return pbt.Failf("replay-after-append", "%s, then one record appended: %s", where, d)
		}
		if err := ph.othersUntouched(); err != nil {
			return err
		}
		ph.restore()
	}
	return nil
}

func sizeClass(n int) string {
	switch {
	case n == 0:
		return "0"
	case n <= 64:
		return "1-64"
	case n <= 4096:
		return "65-4K"
	case n < 64<<10:
		return "4K-64K"
	default:
		return ">=64K"
	}
}

// ---- generator

func genRec(t *rapid.T, room int64) Rec {
	rc := Rec{T: uint8(rapid.IntRange(0, 3).Draw(t, "type")), Fill: uint8(rapid.IntRange(0, 3).Draw(t, "fill")), Seed: rapid.Uint32().Draw(t, "seed")}
	switch rapid.IntRange(0, 19).Draw(t, "sizeClass") {
	case 0, 1:
		rc.N = 0
	case 2:
		rc.N = 1
	case 3, 4, 5, 6, 7, 8, 9, 10, 11:
		rc.N = rapid.IntRange(2, 48).Draw(t, "small")
	case 12, 13, 14:
		rc.N = rapid.IntRange(49, 3000).Draw(t, "medium")
	case 15:
		rc.N = rapid.IntRange(3001, maxPayload).Draw(t, "large")
	case 16:
		rc.N = rapid.SampledFrom([]int{65526, 65527, 65528, 65535, 65536, 65537, maxPayload}).Draw(t, "edge")
	default:
		// exactly fills (or misses by one) the room left in the active segment
		n := room - 9 + int64(rapid.IntRange(-1, 1).Draw(t, "fit"))
		if n < 0 || n > maxPayload {
			n = int64(rapid.IntRange(0, 48).Draw(t, "small2"))
		}
		rc.N = int(n)
	}
	return rc
}

func gen(t *rapid.T) Case {
	c := Case{
		SegSize:     rapid.SampledFrom([]int64{1, 1, 65536, 65536, 70000, 131072, 0}).Draw(t, "seg"),
		BufSize:     rapid.SampledFrom([]int{0, 16, 16, 100, 4096, 4096, 4096, 65536}).Draw(t, "buf"),
		SyncOnWrite: rapid.IntRange(0, 3).Draw(t, "sow") == 0,
		Live:        rapid.Bool().Draw(t, "live"),
		ExhLimit:    8 << 10,
	}
	if pbt.Tier() == "thorough" {
		c.ExhLimit = 32 << 10
		c.Budget = 3000
	}
	if pbt.Open("C13-F1") {
		c.Excl = append(c.Excl, "hdr-tail")
	}
	seg := effSeg(c.SegSize)
	var used int64
	maxID := uint32(1)
	// a few cases start near the 5-digit boundary of the segment file name
	high := rapid.IntRange(0, 11).Draw(t, "highIDs") == 0
	if high && pbt.Open("C13-F2") {
		high = false
		c.Excl = append(c.Excl, "high-ids")
	}
	if high {
		maxID = uint32(rapid.IntRange(99990, 99999).Draw(t, "highStart"))
		c.Ops = append(c.Ops, Op{K: "J", ID: maxID})
	}
	nops := rapid.IntRange(0, 24).Draw(t, "nops")
	bigBudget := 3
	for i := 0; i < nops; i++ {
		switch k := rapid.IntRange(0, 19).Draw(t, "op"); {
		case k < 12:
			op := Op{K: "A"}
			if k == 11 {
				op.K = "U"
			}
			nb := rapid.IntRange(1, 4).Draw(t, "batch")
			for j := 0; j < nb; j++ {
				rc := genRec(t, seg-used)
				if rc.N > 8192 {
					if bigBudget == 0 {
						rc.N = rc.N % 40
					} else {
						bigBudget--
					}
				}
				need := int64(rc.N) + 9
				if used+need > seg {
					used = 0
					maxID++
				}
				used += need
				op.Recs = append(op.Recs, rc)
			}
			c.Ops = append(c.Ops, op)
		case k < 14:
			c.Ops = append(c.Ops, Op{K: "R"})
			used = 0
			maxID++
		case k < 16:
			maxID += uint32(rapid.IntRange(1, 4).Draw(t, "gap"))
			c.Ops = append(c.Ops, Op{K: "J", ID: maxID})
			used = 0
		case k == 16:
			// lsm.recovery shape: empty newer segment(s) exist (optionally after a restart), the
			// newest non-empty one is resumed.  run decides whether the precondition holds.
			if rapid.Bool().Draw(t, "viaRotate") {
				c.Ops = append(c.Ops, Op{K: "R"})
				maxID++
			} else {
				maxID += uint32(rapid.IntRange(1, 3).Draw(t, "gapB"))
				c.Ops = append(c.Ops, Op{K: "J", ID: maxID})
			}
			if rapid.Bool().Draw(t, "restart") {
				c.Ops = append(c.Ops, Op{K: "O"})
			}
			c.Ops = append(c.Ops, Op{K: "B"})
			used = 0 // unknown; "fit" sizes are then only approximate
		case k == 17:
			c.Ops = append(c.Ops, Op{K: "S"})
		default:
			c.Ops = append(c.Ops, Op{K: "O"})
		}
	}
	c.Cuts = rapid.SliceOfN(rapid.Uint32(), 0, 40).Draw(t, "cuts")
	c.Tail = genRec(t, seg-used)
	if c.Tail.N > 4096 {
		c.Tail.N %= 4096
	}
	return c
}

// ---- static: a completely enumerated small domain.
// Every sequence of 0..3 records over types {0..3} and payload sizes {0,1,5}, optionally
// with a Rotate before the last record, closed-and-reopened or live; every cut offset of
// the final segment is enumerated (ExhLimit covers the whole file).
func enumerate() []Case {
	var out []Case
	sizes := []int{0, 1, 5}
	var recs []Rec
	for t := 0; t < 4; t++ {
		for _, n := range sizes {
			recs = append(recs, Rec{T: uint8(t), N: n, Fill: 2, Seed: uint32(7*t + n)})
		}
	}
	excl := []string(nil)
	if pbt.Open("C13-F1") {
		excl = []string{"hdr-tail"}
	}
	emit := func(seq []Rec) {
		for rot := 0; rot <= len(seq); rot++ { // rot == len(seq): no rotate
			if rot == 0 && len(seq) > 0 {
				continue
			}
			var ops []Op
			for i, rc := range seq {
				if i == rot {
					ops = append(ops, Op{K: "R"})
				}
				ops = append(ops, Op{K: "A", Recs: []Rec{rc}})
			}
			out = append(out, Case{SegSize: 1, BufSize: 16, Ops: ops, ExhLimit: 1 << 10, Tail: Rec{T: 1, N: 3, Fill: 1}, Excl: excl})
		}
	}
	emit(nil)
	for _, a := range recs {
		emit([]Rec{a})
		for _, b := range recs {
			emit([]Rec{a, b})
		}
	}
	// three records: all size combinations, fixed types 0,3,2
	for _, a := range sizes {
		for _, b := range sizes {
			for _, cc := range sizes {
				emit([]Rec{{T: 0, N: a, Fill: 2, Seed: 1}, {T: 3, N: b, Fill: 3, Seed: 2}, {T: 2, N: cc, Fill: 0}})
			}
		}
	}
	return out
}

func TestCheck(t *testing.T) {
	s := &pbt.Suite{ID: "C13", Level: "exploration",
		Rule: "gen: rapid-drawn WAL operation sequences (AppendRecords batches of 1-4 typed records, untyped Append, Rotate, SwitchSegment to a new id, SwitchSegment back to the newest non-empty segment, Sync, Close+Open; record types 0..3; payload 0..70KiB incl. sizes that exactly fill the segment; SegmentSize in {1(clamped to 64KiB),64KiB,70000,128KiB,default}; BufferSize in {default,16,100,4096,64KiB}). Oracle: Replay/ReplaySegment of the intact log == appended (type,payload) list; then the segment being written is cut at EVERY offset 0..size when it is <= ExhLimit bytes (8KiB quick / 32KiB thorough) and the work budget allows and at structural (each byte of the length header, type byte, CRC bytes of first/last records) + drawn offsets otherwise; after each cut VerifyDir+Open+Replay == records completely before the cut, and after appending one record + Close+Open, Replay == that prefix + the new record. static: all sequences of <=2 records over types{0..3} x sizes{0,1,5} and all 3-record sequences over sizes{0,1,5} with types 0,3,2, each without and with a Rotate before any record but the first, every cut offset. Non-trivial = the case contains a cut strictly inside a record (length header, type/payload or CRC) with >=1 complete record before it; distinct by case content.",
		Assumptions: []string{
			"SwitchSegment is used the way its callers use it: (id,true) only with a new id above every existing one (lsm.NewMemtable), (id,false) only to resume the newest non-empty segment while every higher segment is empty (lsm.recovery)",
			"the torn segment is the one that was active when writing stopped; earlier segments are intact",
			"recovery = wal.VerifyDir followed by wal.Open, as DB.Open does (runRecoveryChecks then wal.Open)",
			"record types are the four declared in wal/record.go",
		},
	}
	pbt.Add(s, &pbt.Spec[Case]{Name: "wal", Gen: gen, Run: run, Static: enumerate, Quick: 256, Thorough: 5000, Shards: 8})
	s.Extra("static_domain_enumerated_completely", true)
	s.Extra("truncation_offsets", "every offset 0..size for cut segments <= ExhLimit bytes (label cuts:exhaustive), structural+drawn otherwise (label cuts:sampled)")
	s.Main(t)
}
