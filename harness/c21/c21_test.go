// C21 — persisted raft state and log survive a process crash.
//
// Generated histories of the persist part of peer.handleReady (SetHardState,
// ApplySnapshot, Append with conflicting suffix overwrites, MaybeCompact) on real
// engine.WALStorage values over a real wal.Manager + manifest.Manager (bare, or the
// ones of a NoKV DB with interleaved LSM writes), on the vfsx crash-capture shim.
// Oracle: every crash image taken after a Ready's persist step returned must reopen
// (wal.Open, manifest.Open, OpenWALStorage) to exactly the reference state; images
// inside a Ready must reopen to the state after some prefix of its storage calls.
package c21

import (
	"testing"

	"nokvverif/internal/pbt"
)

func TestMain(m *testing.M) { pbt.RunMain(m) }

func TestCheck(t *testing.T) {
	s := &pbt.Suite{
		ID:    "C21",
		Level: "fault_enumeration",
		Rule:  "history with at least one conflicting suffix overwrite whose crash images (at least two, one of them after the overwrite's Ready returned) were reopened and compared with the reference log",
		Assumptions: []string{
			"process-crash model: bytes handed to the OS (page cache) survive, user-space buffers (wal.Manager's bufio.Writer) do not; an image is a copy of the directory taken while every vfs operation is blocked",
			"'persisted' = the storage calls of one Ready (SetHardState, ApplySnapshot, Append, MaybeCompact in peer.handleReady's order) have all returned; that is the instant the peer calls Advance and sends the Ready's messages",
			"inputs are restricted to what etcd/raft can emit: terms and commit never decrease, appends start in (commit, last+1], overwrites carry a newer term, snapshots lie beyond the commit index and replace the log",
			"entries at or below max(snapshot index, MaybeCompact target) are not required after recovery",
			"WAL segment removal (LSM flush, watchdog) is out of scope here: C36",
		},
	}
	// While C21-R8 is open only Ready-boundary images are judged (cheap cases); once it is
	// fixed every vfs operation and torn write inside a Ready is a judged crash point and a
	// case costs about ten times as much, so the case counts shrink to keep the tier budget.
	bareQ, dbQ := 1000, 100
	if !pbt.Open("C21-R8") {
		bareQ, dbQ = 300, 24
	}
	pbt.Add(s, &pbt.Spec[Case]{Name: "bare", Gen: genCase("bare"), Run: runCase, Quick: bareQ, Thorough: 8 * bareQ, Shards: 8})
	pbt.Add(s, &pbt.Spec[Case]{Name: "db", Gen: genCase("db"), Run: runCase, Quick: dbQ, Thorough: 6 * dbQ, Shards: 8})
	s.Main(t)
}
