package c21

// Case format, reference model (written from the property text and etcd/raft's
// Storage contract: later conflicting appends win, a snapshot replaces the log,
// compaction only lowers what is required) and generators.

import (
	"fmt"

	myraft "github.com/feichai0017/NoKV/raft"
	"nokvverif/internal/pbt"
	"pgregory.net/rapid"
)

// Case is one generated history (plain data: it is the replay file).
type Case struct {
	Mode   string `json:"mode"`   // "bare": wal.Manager + manifest.Manager in one directory; "db": DB.WAL() / DB.Manifest() of a NoKV DB
	Sync   bool   `json:"sync"`   // db mode: Options.SyncWrites
	Groups int    `json:"groups"` // raft groups sharing the WAL (1..2)
	Steps  []Step `json:"steps"`
	// NoFlush=false: the driver calls wal.Manager.Sync() at the end of every Ready and
	// judges only Ready-boundary images (exclusion of the open finding C21-R8 by
	// construction).  NoFlush=true is the unmodified peer sequence with every crash point.
	NoFlush bool `json:"noflush"`
	Excl    int  `json:"excl,omitempty"` // draws steered away from open findings (reported via r.Excluded)
	// SmallSeg (bare mode): WAL segments of 64 KiB, so appends roll the segment over by size
	// in the middle of a Ready (default segments are 64 MiB and only change through Rotate).
	SmallSeg bool `json:"smallseg,omitempty"`
}

// Step is one driver step.
type Step struct {
	K string `json:"k"` // ready | rotate | lsm | reopen
	G int    `json:"g,omitempty"`
	// ready: the persist part of peer.handleReady, in its order:
	// SetHardState (if HS), ApplySnapshot (if Snap), Append (if Terms), MaybeCompact (if Applied>0).
	HS      *HS      `json:"hs,omitempty"`
	Snap    *Snap    `json:"snap,omitempty"`
	First   uint64   `json:"first,omitempty"` // index of the first appended entry
	Terms   []uint64 `json:"terms,omitempty"` // term of each appended entry
	Sizes   []int    `json:"sizes,omitempty"` // payload size of each appended entry
	Applied uint64   `json:"applied,omitempty"`
	Retain  uint64   `json:"retain,omitempty"`
	// lsm: N plain writes on the same DB (db mode only)
	N int `json:"n,omitempty"`
}

// HS mirrors raftpb.HardState.
type HS struct {
	Term, Vote, Commit uint64
}

// Snap is the metadata of a snapshot (data is derived).
type Snap struct {
	Index, Term uint64
}

func groupID(g int) uint64 { return []uint64{1, 7}[g] }

type ent struct {
	Term uint64
	Size int
}

// gm is the reference state of one raft group.
type gm struct {
	hs       HS
	snapIdx  uint64
	snapTerm uint64
	trunc    uint64 // highest compaction target handed to the storage
	first    uint64 // index of ents[0]
	ents     []ent
}

func newGM() *gm { return &gm{first: 1} }

func (m *gm) clone() *gm {
	c := *m
	c.ents = append([]ent(nil), m.ents...)
	return &c
}

func (m *gm) last() uint64 { return m.first + uint64(len(m.ents)) - 1 }

// floor: entries at or below it are not required after recovery.
func (m *gm) floor() uint64 { return max(m.snapIdx, m.trunc) }

func (m *gm) termAt(i uint64) (uint64, bool) {
	if i == 0 {
		return 0, true
	}
	if i == m.snapIdx {
		return m.snapTerm, true
	}
	if i < m.first || i > m.last() {
		return 0, false
	}
	return m.ents[i-m.first].Term, true
}

func (m *gm) setHS(h HS) { m.hs = h }

func (m *gm) snapshot(s Snap) {
	m.snapIdx, m.snapTerm = s.Index, s.Term
	m.first, m.ents = s.Index+1, nil
}

func (m *gm) append(first uint64, terms []uint64, sizes []int) {
	m.ents = m.ents[:first-m.first]
	for i := range terms {
		m.ents = append(m.ents, ent{terms[i], sizes[i]})
	}
}

// compact mirrors the documented contract of MaybeCompact(applied, retain): keep the
// newest `retain` applied entries, i.e. entries up to applied-retain become optional.
func (m *gm) compact(applied, retain uint64) {
	if retain == 0 || applied == 0 || applied <= retain {
		return
	}
	if t := applied - retain; t > m.floor() {
		m.trunc = t
	}
}

// sub is one storage call of a Ready.
type sub struct {
	name string
	do   func(m *gm)
}

// subs lists the storage calls of a ready step in peer.handleReady's order.
func (s Step) subs() []sub {
	var out []sub
	if s.HS != nil {
		h := *s.HS
		out = append(out, sub{"SetHardState", func(m *gm) { m.setHS(h) }})
	}
	if s.Snap != nil {
		sn := *s.Snap
		out = append(out, sub{"ApplySnapshot", func(m *gm) { m.snapshot(sn) }})
	}
	if len(s.Terms) > 0 {
		out = append(out, sub{"Append", func(m *gm) { m.append(s.First, s.Terms, s.Sizes) }})
	}
	if s.Applied > 0 {
		out = append(out, sub{"MaybeCompact", func(m *gm) { m.compact(s.Applied, s.Retain) }})
	}
	return out
}

// entryData derives the payload of an entry from its identity.
func entryData(g int, index, term uint64, size int) []byte {
	if size == 0 {
		return nil
	}
	b := make([]byte, size)
	seed := fmt.Sprintf("g%d/i%d/t%d|", g, index, term)
	for i := range b {
		b[i] = seed[i%len(seed)]
	}
	return b
}

func (s Step) entries() []myraft.Entry {
	out := make([]myraft.Entry, len(s.Terms))
	for i := range s.Terms {
		idx := s.First + uint64(i)
		out[i] = myraft.Entry{Index: idx, Term: s.Terms[i], Data: entryData(s.G, idx, s.Terms[i], s.Sizes[i])}
	}
	return out
}

func (s Step) snapshotMsg() myraft.Snapshot {
	var sn myraft.Snapshot
	sn.Metadata.Index, sn.Metadata.Term = s.Snap.Index, s.Snap.Term
	sn.Metadata.ConfState.Voters = []uint64{1, 2, 3}
	sn.Data = entryData(s.G, s.Snap.Index, s.Snap.Term, 24)
	return sn
}

// validate re-derives the input domain of the storage calls from etcd/raft (what a
// RawNode can put into a Ready) so hand-written replay files cannot leave it.
func validate(c Case) error {
	if c.Mode != "bare" && c.Mode != "db" {
		return fmt.Errorf("harness: unknown mode %q", c.Mode)
	}
	if c.Groups < 1 || c.Groups > 2 {
		return fmt.Errorf("harness: groups %d", c.Groups)
	}
	ms := []*gm{newGM(), newGM()}
	for i, s := range c.Steps {
		bad := func(f string, a ...any) error {
			return fmt.Errorf("harness: step %d (%s) outside the input domain: %s", i, s.K, fmt.Sprintf(f, a...))
		}
		switch s.K {
		case "reopen":
		case "rotate":
			if c.Mode != "bare" {
				return bad("segment switches are driven directly only in bare mode (the DB owns them otherwise)")
			}
		case "lsm":
			if c.Mode != "db" || s.N <= 0 {
				return bad("lsm step needs db mode and n>0")
			}
		case "ready":
			if s.G < 0 || s.G >= c.Groups {
				return bad("group %d", s.G)
			}
			m := ms[s.G]
			if len(s.subs()) == 0 {
				return bad("empty ready")
			}
			term, commit := m.hs.Term, m.hs.Commit
			if s.HS != nil {
				if s.HS.Term < m.hs.Term || s.HS.Commit < m.hs.Commit || s.HS.Term == 0 {
					return bad("hard state goes backwards")
				}
				if s.HS.Term == m.hs.Term && m.hs.Vote != 0 && s.HS.Vote != m.hs.Vote {
					return bad("vote changes within a term")
				}
				term = s.HS.Term
			}
			if s.Snap != nil {
				if s.Snap.Index <= commit || s.Snap.Term == 0 || s.Snap.Term > term || len(s.Terms) > 0 {
					return bad("snapshot not beyond the commit index / with entries")
				}
				if t, ok := m.termAt(s.Snap.Index); ok && t == s.Snap.Term && s.Snap.Index <= m.last() {
					return bad("snapshot matches the log (raft would not restore)")
				}
			}
			if len(s.Terms) > 0 {
				if len(s.Sizes) != len(s.Terms) {
					return bad("sizes/terms mismatch")
				}
				if s.First <= commit || s.First <= m.floor() || s.First > m.last()+1 {
					return bad("append at %d outside (commit %d, last %d + 1]", s.First, commit, m.last())
				}
				prev, _ := m.termAt(s.First - 1)
				for _, t := range s.Terms {
					if t < prev || t > term || t == 0 {
						return bad("entry term %d not in [%d,%d]", t, prev, term)
					}
					prev = t
				}
				if old, ok := m.termAt(s.First); ok && s.First <= m.last() && old >= s.Terms[0] {
					return bad("overwrite at %d does not carry a newer term", s.First)
				}
			}
			mm := m.clone()
			for _, sb := range s.subs()[:len(s.subs())-boolInt(s.Applied > 0)] {
				sb.do(mm)
			}
			if mm.hs.Commit > mm.last() {
				return bad("commit %d beyond last index %d", mm.hs.Commit, mm.last())
			}
			if s.Applied > mm.hs.Commit {
				return bad("applied %d beyond commit %d", s.Applied, mm.hs.Commit)
			}
			mm.compact(s.Applied, s.Retain)
			*m = *mm
		default:
			return fmt.Errorf("harness: unknown step kind %q", s.K)
		}
	}
	return nil
}

func boolInt(b bool) int {
	if b {
		return 1
	}
	return 0
}

// ---- generator

var sizeChoices = []int{0, 1, 7, 40, 40, 300, 300, 5000, 70000}

func genCase(mode string) func(t *rapid.T) Case {
	return func(t *rapid.T) Case {
		c := Case{Mode: mode, Groups: rapid.IntRange(1, 2).Draw(t, "groups")}
		if mode == "bare" {
			c.SmallSeg = rapid.IntRange(0, 2).Draw(t, "smallSeg") == 0
		}
		if mode == "db" {
			c.Sync = rapid.Bool().Draw(t, "sync")
		}
		if pbt.Open("C21-R8") {
			c.NoFlush = false
		} else {
			c.NoFlush = true
		}
		maxSteps := 14
		if mode == "db" {
			maxSteps = 8
		}
		n := rapid.IntRange(1, maxSteps).Draw(t, "nsteps")
		ms := []*gm{newGM(), newGM()}
		for i := 0; i < n; i++ {
			k := rapid.IntRange(0, 19).Draw(t, "kind")
			switch {
			case k == 0:
				c.Steps = append(c.Steps, Step{K: "reopen"})
			case k == 1 && mode == "bare":
				c.Steps = append(c.Steps, Step{K: "rotate"})
			case k <= 3 && mode == "db":
				c.Steps = append(c.Steps, Step{K: "lsm", N: rapid.IntRange(1, 4).Draw(t, "n")})
			default:
				g := 0
				if c.Groups > 1 {
					g = rapid.IntRange(0, 1).Draw(t, "g")
				}
				s := genReady(t, g, ms[g])
				c.Steps = append(c.Steps, s)
			}
		}
		return c
	}
}

// genReady draws the persist part of one Ready that etcd/raft could emit in state m and
// advances m.
func genReady(t *rapid.T, g int, m *gm) Step {
	s := Step{K: "ready", G: g}
	hs := m.hs
	// term / vote
	switch rapid.IntRange(0, 9).Draw(t, "termstep") {
	case 0, 1, 2:
		hs.Term += 1
		hs.Vote = uint64(rapid.IntRange(0, 3).Draw(t, "vote"))
	case 3:
		hs.Term += uint64(rapid.IntRange(2, 4).Draw(t, "termjump"))
		hs.Vote = uint64(rapid.IntRange(0, 3).Draw(t, "vote"))
	default:
		if hs.Term == 0 {
			hs.Term = 1
			hs.Vote = uint64(rapid.IntRange(0, 3).Draw(t, "vote"))
		} else if hs.Vote == 0 && rapid.IntRange(0, 3).Draw(t, "latevote") == 0 {
			hs.Vote = uint64(rapid.IntRange(1, 3).Draw(t, "vote"))
		}
	}
	what := rapid.IntRange(0, 19).Draw(t, "what")
	last := m.last()
	switch {
	case what == 0 || what == 1: // snapshot beyond the commit index that does not match the log
		idx := m.hs.Commit + uint64(rapid.IntRange(1, 6).Draw(t, "snapahead"))
		lo := uint64(1)
		if tt, ok := m.termAt(min(idx, last)); ok && tt > lo {
			lo = tt
		}
		st := lo + uint64(rapid.IntRange(0, int(hs.Term-lo)).Draw(t, "snapterm"))
		if tt, ok := m.termAt(idx); ok && idx <= last && tt == st {
			idx = last + 1
		}
		s.Snap = &Snap{Index: idx, Term: st}
		hs.Commit = idx
	case what <= 3: // hard state only (vote / term / commit movement)
	default:
		first := last + 1
		lowest := max(m.hs.Commit, m.floor()) + 1
		if what <= 12 && lowest <= last {
			// conflicting suffix overwrite: needs a term above the one stored at `first`
			cand := lowest + uint64(rapid.IntRange(0, int(last-lowest)).Draw(t, "ovw"))
			if old, _ := m.termAt(cand); old < hs.Term {
				first = cand
			}
		}
		prev, _ := m.termAt(first - 1)
		lo := max(prev, 1)
		if first <= last {
			old, _ := m.termAt(first)
			lo = max(lo, old+1)
		}
		n := rapid.IntRange(1, 4).Draw(t, "nents")
		for i := 0; i < n; i++ {
			tt := lo
			if rapid.IntRange(0, 2).Draw(t, "bump") == 0 {
				tt = lo + uint64(rapid.IntRange(0, int(hs.Term-lo)).Draw(t, "eterm"))
			}
			s.Terms = append(s.Terms, tt)
			s.Sizes = append(s.Sizes, rapid.SampledFrom(sizeChoices).Draw(t, "size"))
			lo = tt
		}
		s.First = first
	}
	// commit movement
	lastAfter := last
	if s.Snap != nil {
		lastAfter = s.Snap.Index
	} else if len(s.Terms) > 0 {
		lastAfter = s.First + uint64(len(s.Terms)) - 1
	}
	if s.Snap == nil && lastAfter > hs.Commit && rapid.IntRange(0, 2).Draw(t, "commitmove") == 0 {
		hs.Commit += uint64(rapid.IntRange(1, int(lastAfter-hs.Commit)).Draw(t, "commit"))
	}
	if hs != m.hs {
		h := hs
		s.HS = &h
	}
	// compaction after apply
	if hs.Commit > 1 && rapid.IntRange(0, 2).Draw(t, "compact") == 0 {
		s.Applied = hs.Commit - uint64(rapid.IntRange(0, int(min(hs.Commit-1, 2))).Draw(t, "appliedlag"))
		s.Retain = uint64(rapid.IntRange(1, 3).Draw(t, "retain"))
	}
	if len(s.subs()) == 0 {
		// nothing drawn (e.g. hard-state-only without a change): force a term bump
		hs.Term++
		hs.Vote = 0
		h := hs
		s.HS = &h
	}
	for _, sb := range s.subs() {
		sb.do(m)
	}
	return s
}
