package c21

// Session driver (real wal.Manager / manifest.Manager / engine.WALStorage on the vfsx
// crash-capture shim) and the image judge.

import (
	"bytes"
	"errors"
	"fmt"
	"math"
	"os"
	"path/filepath"
	"strings"

	NoKV "github.com/feichai0017/NoKV"
	"github.com/feichai0017/NoKV/manifest"
	myraft "github.com/feichai0017/NoKV/raft"
	"github.com/feichai0017/NoKV/raftstore/engine"
	"github.com/feichai0017/NoKV/vfs"
	"github.com/feichai0017/NoKV/wal"
	"nokvverif/internal/eng"
	"nokvverif/internal/pbt"
	"nokvverif/internal/vfsx"
)

// sys is one opened storage stack: WAL + manifest (+ DB) + one WALStorage per group,
// wired the way raftstore/peer.ResolveStorage and raftstore/server do it.
type sys struct {
	walM *wal.Manager
	man  *manifest.Manager
	db   *NoKV.DB
	ws   []*engine.WALStorage
}

func dbCfg(c Case) eng.Cfg {
	return eng.Cfg{Engine: "skiplist", ValueThreshold: 1 << 20, Buckets: 1, VlogFileSize: 1 << 20,
		SyncWrites: c.Sync, MemTableSize: 1 << 20, L0Tables: 1000}
}

// openSys opens the stack on dir.  Open paths of the engine may panic: panics are
// converted into errors.
func openSys(c Case, dir string, fs vfs.FS) (s *sys, err error) {
	s = &sys{}
	defer func() {
		if p := recover(); p != nil {
			err = fmt.Errorf("open panicked: %v", p)
		}
		if err != nil {
			s.close()
			s = nil
		}
	}()
	if c.Mode == "db" {
		s.db, err = eng.Open(dbCfg(c), dir, fs)
		if err != nil {
			return s, err
		}
		s.walM, s.man = s.db.WAL(), s.db.Manifest()
	} else {
		// the recovery checks DB.Open runs before opening the WAL and the manifest
		if err = manifest.Verify(dir, fs); err != nil && !errors.Is(err, os.ErrNotExist) {
			return s, fmt.Errorf("manifest.Verify: %w", err)
		}
		if err = wal.VerifyDir(dir, fs); err != nil {
			return s, fmt.Errorf("wal.VerifyDir: %w", err)
		}
		wcfg := wal.Config{Dir: dir, FS: fs}
		if c.SmallSeg {
			wcfg.SegmentSize = 64 << 10
		}
		if s.walM, err = wal.Open(wcfg); err != nil {
			return s, fmt.Errorf("wal.Open: %w", err)
		}
		if s.man, err = manifest.Open(dir, fs); err != nil {
			return s, fmt.Errorf("manifest.Open: %w", err)
		}
	}
	for g := 0; g < c.Groups; g++ {
		w, werr := engine.OpenWALStorage(engine.WALStorageConfig{GroupID: groupID(g), WAL: s.walM, Manifest: s.man})
		if werr != nil {
			err = fmt.Errorf("OpenWALStorage(group %d): %w", groupID(g), werr)
			return s, err
		}
		s.ws = append(s.ws, w)
	}
	return s, nil
}

func (s *sys) close() (err error) {
	if s == nil {
		return nil
	}
	defer func() {
		if p := recover(); p != nil {
			err = fmt.Errorf("close panicked: %v", p)
		}
	}()
	if s.db != nil {
		err = s.db.Close()
		s.db = nil
		return err
	}
	if s.walM != nil {
		err = s.walM.Close()
		s.walM = nil
	}
	if s.man != nil {
		if e := s.man.Close(); err == nil {
			err = e
		}
		s.man = nil
	}
	return err
}

// compare decides whether storage ws shows exactly model state m.  "" = yes.
func compare(ws *engine.WALStorage, m *gm, g int) (diff string) {
	defer func() {
		if p := recover(); p != nil {
			diff = fmt.Sprintf("storage panicked while being read: %v", p)
		}
	}()
	hs, _, err := ws.InitialState()
	if err != nil {
		return fmt.Sprintf("InitialState: %v", err)
	}
	if hs.Term != m.hs.Term || hs.Vote != m.hs.Vote || hs.Commit != m.hs.Commit {
		return fmt.Sprintf("hard state {term %d vote %d commit %d}, persisted {term %d vote %d commit %d}",
			hs.Term, hs.Vote, hs.Commit, m.hs.Term, m.hs.Vote, m.hs.Commit)
	}
	last, err := ws.LastIndex()
	if err != nil {
		return fmt.Sprintf("LastIndex: %v", err)
	}
	if last != m.last() {
		return fmt.Sprintf("last index %d, persisted log ends at %d", last, m.last())
	}
	first, err := ws.FirstIndex()
	if err != nil {
		return fmt.Sprintf("FirstIndex: %v", err)
	}
	fl := m.floor()
	if first > fl+1 {
		return fmt.Sprintf("first index %d, but entries from %d on are required (snapshot index %d, compacted to %d)", first, fl+1, m.snapIdx, m.trunc)
	}
	if m.snapIdx > 0 && m.snapIdx >= m.trunc {
		t, err := ws.Term(m.snapIdx)
		if err != nil || t != m.snapTerm {
			return fmt.Sprintf("Term(snapshot index %d) = %d, %v; persisted snapshot term %d", m.snapIdx, t, err, m.snapTerm)
		}
	}
	if last > fl {
		got, err := ws.Entries(fl+1, last+1, math.MaxUint64)
		if err != nil {
			return fmt.Sprintf("Entries(%d,%d): %v", fl+1, last+1, err)
		}
		if uint64(len(got)) != last-fl {
			return fmt.Sprintf("Entries(%d,%d) returned %d entries", fl+1, last+1, len(got))
		}
		for i, e := range got {
			idx := fl + 1 + uint64(i)
			w := m.ents[idx-m.first]
			if e.Index != idx || e.Term != w.Term || !bytes.Equal(e.Data, entryData(g, idx, w.Term, w.Size)) {
				return fmt.Sprintf("entry %d: recovered {index %d term %d len %d}, persisted {term %d len %d}", idx, e.Index, e.Term, len(e.Data), w.Term, w.Size)
			}
		}
	}
	return ""
}

// imgCtx describes one capture point.
type imgCtx struct {
	Seq      int
	Step     int    // step in progress (-1: initial open, len(steps): after the last step)
	Kind     string // boundary | mid-ready | mid-step
	Sub      string // storage call in progress (mid-ready)
	Inflight int    // group whose Ready is in flight, -1 none
	Cands    []*gm  // admissible states of the in-flight group (after each prefix of its storage calls)
	Models   []*gm  // acknowledged state of every group
	Pt       vfsx.Point
}

func (ic imgCtx) where() string {
	s := fmt.Sprintf("image #%d (%s", ic.Seq, ic.Kind)
	if ic.Kind != "boundary" {
		s += fmt.Sprintf(", %s of FS op %d %s %s, written %d/%d", ic.Pt.Phase, ic.Pt.Rec.Index, ic.Pt.Rec.Op, filepath.Base(ic.Pt.Rec.Path), ic.Pt.Written, ic.Pt.Rec.Len)
	}
	if ic.Sub != "" {
		s += ", inside " + ic.Sub
	}
	switch {
	case ic.Step < 0:
		s += ") during the initial open"
	case ic.Kind == "boundary":
		s += fmt.Sprintf(") after step %d returned", ic.Step)
	default:
		s += fmt.Sprintf(") during step %d", ic.Step)
	}
	return s
}

// judge applies the oracle to the image directory img.
func judge(c Case, img string, ic imgCtx, r *pbt.Rec) error {
	s, err := openSys(c, img, nil)
	if err != nil {
		return pbt.Failf("image-reopen-fails", "%s: the crash image does not reopen: %v", ic.where(), err)
	}
	defer s.close()
	for g := 0; g < c.Groups; g++ {
		if g == ic.Inflight {
			ok := false
			var diffs []string
			for k, cand := range ic.Cands {
				d := compare(s.ws[g], cand, g)
				if d == "" {
					ok = true
					if cand.hs.Commit > cand.last() {
						// SetHardState is persisted before Append: a crash between the two leaves
						// commit > last index (etcd/raft's loadState panics on that at restart).
						// Not part of C21's statement; counted for FINDINGS.md.
						r.Label("obs:mid-ready-image-with-commit-beyond-last-index")
					}
					r.Label(fmt.Sprintf("mid:matches-prefix-%d-of-%d", k, len(ic.Cands)-1))
					break
				}
				diffs = append(diffs, fmt.Sprintf("  vs state after %d storage call(s) of the Ready in flight: %s", k, d))
			}
			if !ok {
				return pbt.Failf("image-not-a-prefix-state", "%s: group %d recovers to a state that is neither the one before the Ready in flight nor the one after any prefix of its storage calls:\n%s",
					ic.where(), groupID(g), strings.Join(diffs, "\n"))
			}
			continue
		}
		if d := compare(s.ws[g], ic.Models[g], g); d != "" {
			return pbt.Failf(classify(d), "%s: group %d: %s", ic.where(), groupID(g), d)
		}
	}
	return nil
}

func classify(d string) string {
	switch {
	case strings.HasPrefix(d, "hard state"):
		return "hardstate-differs"
	case strings.HasPrefix(d, "last index"):
		return "last-index-differs"
	case strings.HasPrefix(d, "first index"), strings.HasPrefix(d, "Term(snapshot"):
		return "required-prefix-missing"
	case strings.HasPrefix(d, "entry"), strings.HasPrefix(d, "Entries"):
		return "entries-differ"
	}
	return "storage-unreadable"
}

type driveStats struct {
	images, midSkipped int
	ctr                vfsx.Counters
	segments           int
}

func tornPoints(n int) []int {
	if n <= 1 {
		return nil
	}
	if n <= 24 {
		ks := make([]int, 0, n-1)
		for k := 1; k < n; k++ {
			ks = append(ks, k)
		}
		return ks
	}
	return []int{1, 4, 5, n / 2, n - 4, n - 1}
}

// drive runs the case on dir and calls onImage at every capture point while the
// filesystem is quiescent.
func drive(c Case, dir string, deep bool, onImage func(ic imgCtx) error) (driveStats, error) {
	var (
		st       driveStats
		fail     error
		step     = -1
		inflight = -1
		sub      string
		cands    []*gm
		models   = make([]*gm, c.Groups)
	)
	for g := range models {
		models[g] = newGM()
	}
	fs := vfsx.New(nil)
	fs.KeepLog(false)
	fire := func(kind string, pt vfsx.Point) {
		if fail != nil {
			return
		}
		if kind == "mid-ready" && !c.NoFlush {
			st.midSkipped++ // C21-R8 open: crash points inside a Ready are not judged
			return
		}
		ic := imgCtx{Seq: st.images, Step: step, Kind: kind, Sub: sub, Inflight: inflight, Cands: cands, Models: models, Pt: pt}
		st.images++
		fail = onImage(ic)
	}
	plan := func(rec vfsx.Rec, data []byte) vfsx.Action {
		a := vfsx.Action{After: rec.Mut}
		if c.Mode == "db" && !deep {
			// quick tier: only operations on WAL segments and the manifest (vlog / LOCK / SST
			// housekeeping of the DB does not touch raft state)
			base := filepath.Base(rec.Path)
			a.After = rec.Mut && (strings.HasSuffix(base, ".wal") || strings.HasPrefix(base, "MANIFEST") || strings.HasPrefix(base, "CURRENT"))
		}
		if rec.Op == vfs.OpFileWrite || rec.Op == vfsx.OpFileWriteAt {
			base := filepath.Base(rec.Path)
			if strings.HasSuffix(base, ".wal") || strings.HasPrefix(base, "MANIFEST") {
				switch {
				case deep:
					a.Torn = tornPoints(len(data))
				case c.Mode == "db":
					a.Torn = []int{len(data) / 2}
				default:
					a.Torn = []int{3, len(data) - 1}
				}
			}
		}
		return a
	}
	fs.SetPlan(plan, func(pt vfsx.Point) {
		if inflight >= 0 {
			fire("mid-ready", pt)
		} else {
			fire("mid-step", pt)
		}
	})
	boundary := func() {
		fire("boundary", vfsx.Point{Phase: vfsx.After})
	}
	done := func(err error) (driveStats, error) {
		st.ctr = fs.Counters()
		if fail != nil {
			return st, fail
		}
		return st, err
	}

	s, err := openSys(c, dir, fs)
	if err != nil {
		return done(pbt.Failf("open-fails", "fresh directory: %v", err))
	}
	defer func() { s.close() }()
	checkLive := func(at string) error {
		for g := 0; g < c.Groups; g++ {
			if d := compare(s.ws[g], models[g], g); d != "" {
				return pbt.Failf("clean-reopen-"+classify(d), "%s: group %d after a clean close and reopen: %s", at, groupID(g), d)
			}
		}
		return nil
	}
	boundary()
	for i, sp := range c.Steps {
		if fail != nil {
			break
		}
		step = i
		at := fmt.Sprintf("step %d (%s)", i, sp.K)
		switch sp.K {
		case "ready":
			g := sp.G
			subs := sp.subs()
			cands = []*gm{models[g]}
			cur := models[g]
			for _, sb := range subs {
				cur = cur.clone()
				sb.do(cur)
				cands = append(cands, cur)
			}
			inflight = g
			ws := s.ws[g]
			// peer.handleReady, persist part, in its order
			if sp.HS != nil {
				sub = "SetHardState"
				if err := ws.SetHardState(myraft.HardState{Term: sp.HS.Term, Vote: sp.HS.Vote, Commit: sp.HS.Commit}); err != nil {
					return done(pbt.Failf("storage-call-fails", "%s: SetHardState: %v", at, err))
				}
			}
			if sp.Snap != nil {
				sub = "ApplySnapshot"
				if err := ws.ApplySnapshot(sp.snapshotMsg()); err != nil {
					return done(pbt.Failf("storage-call-fails", "%s: ApplySnapshot: %v", at, err))
				}
			}
			if len(sp.Terms) > 0 {
				sub = "Append"
				if err := ws.Append(sp.entries()); err != nil {
					return done(pbt.Failf("storage-call-fails", "%s: Append: %v", at, err))
				}
			}
			if sp.Applied > 0 {
				sub = "MaybeCompact"
				if err := ws.MaybeCompact(sp.Applied, sp.Retain); err != nil {
					return done(pbt.Failf("storage-call-fails", "%s: MaybeCompact(%d,%d): %v", at, sp.Applied, sp.Retain, err))
				}
			}
			if !c.NoFlush {
				// C21-R8 open: the history contains an explicit WAL flush where the peer has none
				sub = "harness-sync"
				if err := s.walM.Sync(); err != nil {
					return done(pbt.Failf("storage-call-fails", "%s: wal.Sync: %v", at, err))
				}
			}
			// handleReady has returned: the peer now calls Advance and sends rd.Messages
			models[g] = cands[len(cands)-1]
			inflight, cands, sub = -1, nil, ""
			if d := compare(ws, models[g], g); d != "" {
				return done(pbt.Failf("harness-model-divergence", "%s: live storage differs from the reference model: %s", at, d))
			}
		case "rotate":
			if err := s.walM.SwitchSegment(s.walM.ActiveSegment()+1, true); err != nil {
				return done(pbt.Failf("storage-call-fails", "%s: SwitchSegment: %v", at, err))
			}
			st.segments++
		case "lsm":
			for j := 0; j < sp.N; j++ {
				k := []byte(fmt.Sprintf("c21-s%d-%d", i, j))
				if err := s.db.Set(k, bytes.Repeat([]byte{byte('a' + j)}, 100)); err != nil {
					return done(pbt.Failf("storage-call-fails", "%s: db.Set: %v", at, err))
				}
			}
		case "reopen":
			if err := s.close(); err != nil {
				return done(pbt.Failf("close-fails", "%s: %v", at, err))
			}
			s2, err := openSys(c, dir, fs)
			if err != nil {
				if fail != nil {
					return done(nil)
				}
				return done(pbt.Failf("clean-reopen-fails", "%s: reopen after a clean close: %v", at, err))
			}
			s = s2
			if err := checkLive(at); err != nil {
				return done(err)
			}
		}
		boundary()
	}
	step = len(c.Steps)
	if fail != nil {
		return done(nil)
	}
	// clean shutdown and restart: the weakest crash
	if err := s.close(); err != nil {
		return done(pbt.Failf("close-fails", "final close: %v", err))
	}
	fs.SetPlan(nil, nil)
	s2, err := openSys(c, dir, nil)
	if err != nil {
		return done(pbt.Failf("clean-reopen-fails", "reopen after the final clean close: %v", err))
	}
	s = s2
	return done(checkLive("end of case"))
}

func runCase(c Case, r *pbt.Rec) error {
	if err := validate(c); err != nil {
		return err
	}
	labelCase(c, r)
	dir, cleanup := pbt.TempDir("c21")
	defer cleanup()
	img := dir + "-img"
	defer os.RemoveAll(img)
	judged, mid, torn := 0, 0, 0
	st, err := drive(c, dir, pbt.Tier() == "thorough", func(ic imgCtx) error {
		_ = os.RemoveAll(img)
		if err := vfsx.CopyDir(dir, img); err != nil {
			return fmt.Errorf("harness: copy: %v", err)
		}
		if err := judge(c, img, ic, r); err != nil {
			return err
		}
		judged++
		r.Label("img:" + ic.Kind)
		if ic.Kind == "mid-ready" {
			mid++
			r.Label("img:mid:" + ic.Sub)
		}
		if ic.Pt.Phase == vfsx.Torn {
			torn++
			r.Label("img:torn")
		}
		return nil
	})
	r.LabelN("images", st.images)
	r.LabelN("fs-ops", int(st.ctr.Ops))
	r.Excluded(c.Excl)
	if st.midSkipped > 0 {
		r.Excluded(st.midSkipped)
		r.LabelN("excluded:mid-ready-crash-points", st.midSkipped)
	}
	if err != nil {
		return err
	}
	if hasConflict(c) && judged > 1 {
		r.NT()
	}
	return nil
}

// hasConflict: some Append overwrites a suffix of the group's log.
func hasConflict(c Case) bool {
	ms := []*gm{newGM(), newGM()}
	for _, s := range c.Steps {
		if s.K != "ready" {
			continue
		}
		m := ms[s.G]
		if len(s.Terms) > 0 && s.Snap == nil && s.First <= m.last() {
			return true
		}
		for _, sb := range s.subs() {
			sb.do(m)
		}
	}
	return false
}

func labelCase(c Case, r *pbt.Rec) {
	r.Label("mode:" + c.Mode)
	r.Label(fmt.Sprintf("groups:%d", c.Groups))
	if c.NoFlush {
		r.Label("peer-sequence:unmodified")
	} else {
		r.Label("peer-sequence:with-harness-sync")
	}
	ms := []*gm{newGM(), newGM()}
	seen := map[string]bool{}
	big := 0
	for _, s := range c.Steps {
		seen["step:"+s.K] = true
		if s.K != "ready" {
			continue
		}
		m := ms[s.G]
		if s.HS != nil {
			if s.HS.Term > m.hs.Term && m.hs.Term > 0 {
				seen["ready:term-change"] = true
			}
			if s.HS.Vote != m.hs.Vote {
				seen["ready:vote-change"] = true
			}
			if s.HS.Commit > m.hs.Commit {
				seen["ready:commit-advance"] = true
			}
			if len(s.Terms) > 0 && s.HS.Commit > m.last() {
				seen["ready:commit-beyond-old-last"] = true
			}
		}
		if s.Snap != nil {
			seen["ready:snapshot"] = true
			if s.Snap.Index <= m.last() {
				seen["ready:snapshot-inside-log"] = true
			}
		}
		if len(s.Terms) > 0 {
			if s.First <= m.last() {
				seen["ready:conflicting-overwrite"] = true
			} else {
				seen["ready:append"] = true
			}
			for _, z := range s.Sizes {
				big += z
			}
		}
		if s.Applied > 0 {
			before := m.floor()
			mm := m.clone()
			for _, sb := range s.subs() {
				sb.do(mm)
			}
			if mm.floor() > before && mm.trunc == mm.floor() {
				seen["ready:compaction-effective"] = true
			} else {
				seen["ready:compaction-noop"] = true
			}
		}
		for _, sb := range s.subs() {
			sb.do(m)
		}
	}
	if big > 256<<10 {
		seen["case:wal-buffer-overflow"] = true
	}
	for k := range seen {
		r.Label(k)
	}
}
