package sim

// World is the multi-store fixture of C22/C23: three real store.Store processes
// images hosting one or two three-voter regions, driven by a plain-data Script.
//
// Determinism.  The whole run happens inside a testing/synctest bubble:
//
//   - time is virtual: Store.ProposeCommand's timeout and ReadCommand's 3 s
//     context only expire when the script says "sleep"; nothing depends on the
//     wall clock or machine load;
//   - after every primitive action (one delivery, one tick, one client call) the
//     driver calls synctest.Wait(), i.e. it continues only when every client
//     goroutine is parked in its select (or has returned).  All raft work runs
//     on the goroutine that calls Step/Tick/Propose, so the interleaving is a
//     pure function of the script;
//   - followers and candidates are never ticked: etcd-raft randomises election
//     timeouts from crypto/rand, so "a follower's election timer fired" is a
//     script step (campaign) instead; leaders are ticked (heartbeats, transfer
//     abort) which is deterministic.
//
// Client calls (ProposeCommand / ReadCommand) run in goroutines because they
// block until some later delivery applies the entry; their results are stamped
// with logical times 2*step (invoke) and 2*step+1 (return).

import (
	"crypto/sha256"
	"encoding/hex"
	"fmt"
	"runtime/debug"
	"sort"
	"strings"
	"sync"
	"sync/atomic"
	"testing"
	"testing/synctest"
	"time"

	"github.com/feichai0017/NoKV/manifest"
	"github.com/feichai0017/NoKV/pb"
	myraft "github.com/feichai0017/NoKV/raft"
	rkv "github.com/feichai0017/NoKV/raftstore/kv"
	proto "google.golang.org/protobuf/proto"
)

// Script is the replayable input of a World run (plain data).
type Script struct {
	Regions int     `json:"regions"` // 1 or 2
	Storage Storage `json:"storage"` // mem | wal | db
	// Applier: "model" = harness mini-percolator behind the observed applier (state
	// survives restarts like a DB would); "kv" = real NoKV DB + raftstore/kv.Apply
	// (needs storage db).
	Applier string `json:"applier"`
	// Leaders: store index (0..2) campaigning first for each region; the election
	// is settled before the steps start.
	Leaders []int `json:"leaders"`
	// UniqueIDs: the client fills CmdHeader.RequestId with a cluster-wide unique
	// value instead of leaving the assignment to the store's counter.
	UniqueIDs bool `json:"unique_ids,omitempty"`
	// NoRetry: a transaction gets at most one commit attempt (C22 wants every
	// command content proposed once).
	NoRetry bool `json:"no_retry,omitempty"`
	// PoisonKey (model applier only, never generated): a prewrite naming this key
	// makes the applier return a Go error, as raftstore/kv.Apply does for an
	// unsupported command or a storage failure.  Used to reproduce the
	// apply-error observation of FINDINGS.md.
	PoisonKey string `json:"poison_key,omitempty"`
	Steps     []Step `json:"steps"`
}

// Step is one driver action.
//
//	tick      A=store (0..2, 3=all) B=count      tick the peers that are leaders
//	deliver   A=k                                deliver the k-th pending message (mod pending)
//	drop      A=k
//	dup       A=k
//	defer     A=k                                move the k-th pending message to the back
//	pump      A=max                              deliver FIFO until quiet or max
//	hold      A=k                                delay the k-th pending message (held-back pool, untouched by pump)
//	holdto    A=store B=region                   delay every pending message addressed to that store
//	release                                      put the held-back messages in front of the queue
//	split     A=region                           ProposeSplit of (original) region A at its believed leader
//	isolate   A=store B=region                   partition {A | others} (replaces a previous one)
//	heal
//	campaign  A=store B=region
//	transfer  A=region B=store                   leader transfer issued at the claimed leader
//	prewrite  A=target B=region C=key (-1=fresh) new transaction, ProposeCommand(prewrite)
//	bulk      A=target B=region C=n              100*n fresh-key prewrites, each followed by pump 40
//	commit    A=target B=k                       ProposeCommand(commit) of the k-th committable txn
//	read      A=target B=region C=key            ReadCommand(get)
//	restart   A=store B=region                   close + reopen (persistent storage only)
//	sleep     A=seconds                          advance the virtual clock
//
// Every "store"/"target" operand is a selector (see world.sel): 0..2 = that
// store; 3 = the store the harness believes leads region B; 4 = a deposed
// leader; 5 / 6 = the first / second store after the believed leader.
type Step struct {
	Op string `json:"op"`
	A  int    `json:"a,omitempty"`
	B  int    `json:"b,omitempty"`
	C  int    `json:"c,omitempty"`
}

// ClientOp is one client call and what came back.
type ClientOp struct {
	ID     int
	Kind   string // prewrite | commit | read
	Txn    int    // transaction index (prewrite/commit), -1 for reads
	Region uint64
	Key    string
	Value  string // prewrite
	Ts     uint64 // prewrite: start ts; commit: commit ts; read: read ts
	Store  uint64
	Inc    int // incarnation of the store that served the call

	Invoke int // logical time 2*step
	Return int // 2*step+1, or -1 while pending

	ReqID uint64 // request id carried by the request after the call (racy-free: read after return)
	Hash  string // hash of the command content (region + requests, no header ids)

	Resp  *pb.RaftCmdResponse
	Err   error
	Panic string

	// Sampled by the single-threaded driver around the call.
	LeaderBefore, LeaderAfter bool
	HadPeer                   bool
	AppliesBefore             int // applier invocations on the store before the call
	AppliesAfter              int // ... after the call step (nothing else ran in that step)
	Isolated                  bool
	Deposed                   bool // store claimed leadership while another store claimed it with a higher term
	done                      atomic.Bool
	parkedReqID               uint64 // driver-side copy of the request id while the call is pending
}

// Done reports whether the call has returned.
func (o *ClientOp) Done() bool { return o.done.Load() }

// OK reports a returned call without Go error and without region error.
func (o *ClientOp) OK() bool {
	return o.Done() && o.Panic == "" && o.Err == nil && o.Resp != nil && o.Resp.GetRegionError() == nil
}

// Rejected reports a returned call answered with a region error.
func (o *ClientOp) Rejected() bool {
	return o.Done() && o.Panic == "" && o.Err == nil && o.Resp != nil && o.Resp.GetRegionError() != nil
}

// KeyErr returns the key error of the (single) response, if any.
func (o *ClientOp) KeyErr() *pb.KeyError {
	if o.Resp == nil || len(o.Resp.GetResponses()) == 0 {
		return nil
	}
	r := o.Resp.GetResponses()[0]
	switch o.Kind {
	case "prewrite":
		if es := r.GetPrewrite().GetErrors(); len(es) > 0 {
			return es[0]
		}
	case "commit":
		return r.GetCommit().GetError()
	case "read":
		return r.GetGet().GetError()
	}
	return nil
}

// Txn is one two-phase write.
type Txn struct {
	ID       int
	Region   uint64
	Key      string
	Value    string
	StartTs  uint64
	CommitTs uint64 // 0 until the first commit attempt
	Prewrite *ClientOp
	Commits  []*ClientOp
}

// AppliedCmd is one applier invocation for a write command.
type AppliedCmd struct {
	Hash  string
	ReqID uint64
	Resp  *pb.RaftCmdResponse
	Err   error
}

// Trace is everything a run observed.
type Trace struct {
	Ops  []*ClientOp
	Txns []*Txn
	// Applied[store index][incarnation][region id] = write commands in apply order.
	Applied [3][]map[uint64][]AppliedCmd
	Labels  map[string]int
	// LeaderChangeInFlight: a region's believed leader (store, term) changed while
	// one of its proposals was pending.
	LeaderChangeInFlight int
	// SameIDPending: two stores held pending proposals carrying the same numeric request id.
	SameIDPending int
	// DeposedReads: reads issued to a store that still claimed leadership while it
	// was partitioned away and another store led with a higher term.
	DeposedReads int
	Restarts     int
	// KVState[store] = dump of the real DB per key (kv applier only), taken after the epilogue.
	KVState [3]map[string]string
	Steps   int
}

func (t *Trace) label(s string) { t.Labels[s]++ }

type world struct {
	sc      Script
	c       *Cluster
	metas   []manifest.RegionMeta
	models  [3]*modelState
	tr      *Trace
	step    atomic.Int64
	tso     uint64
	iso     int // isolated store index or -1
	inc     [3]int
	txns    []*Txn
	pending []*ClientOp
	lastLdr map[uint64][2]uint64 // region -> (store, term) last believed
	dirs    []func()
	wg      sync.WaitGroup
	splits  map[uint64][]string // original region id -> split keys proposed so far (descending)
	nsplit  int
}

const (
	peerBase = 100 // peer id = region*100 + store id
)

// RegionKeys returns the shared keys of region index r (0-based).
func RegionKeys(r int) []string {
	if r == 0 {
		return []string{"b0", "b1", "b2"}
	}
	return []string{"n0", "n1", "n2"}
}

func regionRange(r int) ([]byte, []byte) {
	if r == 0 {
		return []byte("a"), []byte("m")
	}
	return []byte("m"), []byte("z")
}

// RunWorld executes the script inside a synctest bubble.  tmp hands out scratch
// directories (pbt.TempDir).  The returned error reports harness-level trouble
// or a panic of the code under test (prefix "panic:").
func RunWorld(t *testing.T, sc Script, tmp func(prefix string) (string, func())) (tr *Trace, err error) {
	tr = &Trace{Labels: map[string]int{}}
	synctest.Test(t, func(*testing.T) {
		w := &world{sc: sc, tr: tr, iso: -1, tso: 10, lastLdr: map[uint64][2]uint64{}}
		defer func() {
			if p := recover(); p != nil {
				err = fmt.Errorf("panic: %v\n%s", p, trimStack(debug.Stack()))
			}
			w.shutdown()
		}()
		if e := w.run(tmp); e != nil {
			err = e
		}
	})
	return tr, err
}

func trimStack(b []byte) string {
	l := strings.Split(string(b), "\n")
	if len(l) > 36 {
		l = l[:36]
	}
	return strings.Join(l, "\n")
}

func (w *world) shutdown() {
	defer func() { _ = recover() }()
	// let every pending client call run into its (virtual) timeout, then close.
	time.Sleep(30 * time.Second)
	synctest.Wait()
	if w.c != nil {
		w.c.Close()
	}
	w.wg.Wait()
	for _, f := range w.dirs {
		f()
	}
}

func (w *world) run(tmp func(string) (string, func())) error {
	sc := w.sc
	if sc.Regions < 1 || sc.Regions > 2 {
		return fmt.Errorf("script: regions must be 1 or 2")
	}
	if sc.Applier == "kv" && sc.Storage != StorageDB {
		return fmt.Errorf("script: applier kv needs storage db")
	}
	w.c = NewCluster()
	w.c.Net.Filter = func(m myraft.Message) bool {
		if w.iso < 0 {
			return true
		}
		from, to := int(m.From%peerBase)-1, int(m.To%peerBase)-1
		return (from == w.iso) == (to == w.iso)
	}
	for s := 0; s < 3; s++ {
		dir, cl := tmp("world")
		w.dirs = append(w.dirs, cl)
		cfg := NodeConfig{StoreID: uint64(s + 1), Dir: dir, Storage: sc.Storage}
		if sc.Applier != "kv" {
			ms := newModelState()
			ms.poison = sc.PoisonKey
			w.models[s] = ms
			cfg.Applier = ms.apply
		}
		if _, err := w.c.AddNode(cfg); err != nil {
			return fmt.Errorf("harness: open store %d: %v", s+1, err)
		}
		w.tr.Applied[s] = []map[uint64][]AppliedCmd{{}}
	}
	for r := 0; r < sc.Regions; r++ {
		start, end := regionRange(r)
		m := manifest.RegionMeta{ID: uint64(r + 1), StartKey: start, EndKey: end,
			Epoch: manifest.RegionEpoch{Version: 1, ConfVersion: 1}, State: manifest.RegionStateRunning}
		for s := 1; s <= 3; s++ {
			m.Peers = append(m.Peers, manifest.PeerMeta{StoreID: uint64(s), PeerID: uint64((r+1)*peerBase + s)})
		}
		w.metas = append(w.metas, m)
	}
	for _, n := range w.c.Nodes {
		for _, m := range w.metas {
			if _, err := n.StartRegion(m); err != nil {
				return fmt.Errorf("harness: start region %d on store %d: %v", m.ID, n.Cfg.StoreID, err)
			}
		}
	}
	for r := 0; r < sc.Regions; r++ {
		l := 0
		if r < len(sc.Leaders) {
			l = mod(sc.Leaders[r], 3)
		}
		if err := w.c.Nodes[l].Campaign(uint64(r + 1)); err != nil {
			return fmt.Errorf("harness: initial campaign: %v", err)
		}
		w.pump(10000)
		if !w.c.Nodes[l].IsLeader(uint64(r + 1)) {
			return fmt.Errorf("harness: store %d did not become leader of region %d", l+1, r+1)
		}
	}
	w.observeLeaders()
	for i, st := range sc.Steps {
		w.step.Store(int64(i + 1))
		if err := w.do(st); err != nil {
			return err
		}
		synctest.Wait()
		w.afterStep()
		for _, o := range w.pending {
			if o.Panic != "" {
				// a panic inside the store leaves its mutexes locked: stop driving it
				return fmt.Errorf("panic: in %s #%d at store %d (step %d %+v): %s", o.Kind, o.ID, o.Store, i, st, o.Panic)
			}
		}
	}
	w.tr.Steps = len(sc.Steps)
	// epilogue: heal, let the cluster converge, expire what is still pending.
	w.step.Store(int64(len(sc.Steps) + 1))
	w.iso = -1
	w.c.Net.Release()
	for i := 0; i < 12; i++ {
		w.tickLeaders(3, 2)
		w.pump(20000)
	}
	// barrier: one more command per region at a (possibly freshly elected) leader.
	// Every replica that applies it must have applied everything acknowledged
	// before, which turns a command missing at the tail of a replica's sequence
	// into a divergence the prefix comparison sees.
	for r := 0; r < sc.Regions; r++ {
		region := uint64(r + 1)
		for s := 0; s < 3 && len(w.claims(region)) == 0; s++ {
			if n := w.c.Nodes[s]; n.Store != nil && n.RegionPeer(region) != nil {
				_ = n.Campaign(region)
				w.pump(20000)
			}
		}
		if len(w.claims(region)) == 0 {
			w.tr.label("epilogue:no-leader")
			continue
		}
		w.prewrite(Step{Op: "prewrite", A: 3, B: r, C: -1})
		w.pump(20000)
	}
	for i := 0; i < 4; i++ {
		w.tickLeaders(3, 2)
		w.pump(20000)
	}
	w.afterStep()
	w.step.Store(int64(len(sc.Steps) + 2))
	time.Sleep(10 * time.Second)
	synctest.Wait()
	w.pump(20000)
	w.afterStep()
	for s := 0; s < 3; s++ {
		w.collect(s)
	}
	if sc.Applier == "kv" {
		w.dumpKV()
	}
	w.tr.Ops = append([]*ClientOp(nil), w.tr.Ops...)
	w.tr.Txns = w.txns
	return nil
}

func mod(a, n int) int {
	if n <= 0 {
		return 0
	}
	a %= n
	if a < 0 {
		a += n
	}
	return a
}

// ---------------------------------------------------------------- primitives

func (w *world) deliver(i int) {
	_ = w.c.Net.Deliver(i) // a Step error (e.g. peer gone) is what a real transport would log
	synctest.Wait()
}

func (w *world) pump(max int) int {
	n := 0
	for n < max && w.c.Net.Pending() > 0 {
		w.deliver(0)
		n++
	}
	return n
}

// tickLeaders ticks, count times, every peer that currently is raft leader on
// store s (3 = every store), in (store, region) order; the other peers only
// get their ready loop run.
func (w *world) tickLeaders(s, count int) {
	for k := 0; k < count; k++ {
		for si, n := range w.c.Nodes {
			if (s != 3 && s != si) || n.Store == nil {
				continue
			}
			for _, m := range w.metas {
				p := n.RegionPeer(m.ID)
				if p == nil {
					continue
				}
				if p.Status().RaftState != myraft.StateLeader {
					// what a tick does for a non-leader apart from moving its (random)
					// election clock: process whatever Ready is outstanding
					_ = p.Flush()
				} else {
					_ = n.Store.Router().SendTick(p.ID())
				}
				synctest.Wait()
			}
		}
	}
}

type claim struct {
	store int
	term  uint64
}

func (w *world) claims(region uint64) []claim {
	var out []claim
	for si, n := range w.c.Nodes {
		p := n.RegionPeer(region)
		if p == nil {
			continue
		}
		st := p.Status()
		if st.RaftState == myraft.StateLeader {
			out = append(out, claim{si, st.Term})
		}
	}
	sort.SliceStable(out, func(i, j int) bool { return out[i].term > out[j].term })
	return out
}

// sel resolves a store selector to a store index: 0..2 = that store; 3 = the
// store the harness believes leads the region (claimed leader with the highest
// term, else the last one seen); 4 = a deposed leader (claims leadership with a
// lower term than another claimant), falling back to 3; 5 / 6 = the first /
// second store after the believed leader.
func (w *world) sel(code int, region uint64) int {
	code = mod(code, 7)
	if code < 3 {
		return code
	}
	cl := w.claims(region)
	if code == 4 && len(cl) >= 2 {
		return cl[len(cl)-1].store
	}
	l := 0
	if len(cl) > 0 {
		l = cl[0].store
	} else if last, ok := w.lastLdr[region]; ok {
		l = int(last[0])
	}
	switch code {
	case 5:
		return (l + 1) % 3
	case 6:
		return (l + 2) % 3
	}
	return l
}

func (w *world) target(code int, region uint64) int { return w.sel(code, region) }

func (w *world) observeLeaders() {
	for _, m := range w.metas {
		cl := w.claims(m.ID)
		if len(cl) == 0 {
			continue
		}
		cur := [2]uint64{uint64(cl[0].store), cl[0].term}
		if old, ok := w.lastLdr[m.ID]; ok && old != cur {
			w.tr.label("leader-change")
			for _, o := range w.pending {
				if o.Region == m.ID && o.Kind != "read" && !o.Done() {
					w.tr.LeaderChangeInFlight++
					w.tr.label("leader-change-with-proposal-in-flight")
					break
				}
			}
		}
		w.lastLdr[m.ID] = cur
	}
}

func (w *world) afterStep() {
	w.observeLeaders()
	// same numeric request id pending at two stores?
	byID := map[uint64]uint64{}
	keep := w.pending[:0]
	same := false
	for _, o := range w.pending {
		if o.Done() {
			continue
		}
		keep = append(keep, o)
		if o.Kind == "read" || o.parkedReqID == 0 {
			continue
		}
		if st, ok := byID[o.parkedReqID]; ok && st != o.Store {
			same = true
		}
		byID[o.parkedReqID] = o.Store
	}
	w.pending = keep
	if same {
		w.tr.SameIDPending++
		w.tr.label("same-request-id-pending-at-two-stores")
	}
}

// ---------------------------------------------------------------- steps

func (w *world) do(st Step) error {
	net := w.c.Net
	switch st.Op {
	case "tick":
		w.tickLeaders(mod(st.A, 4), 1+mod(st.B, 12))
		w.tr.label("step:tick")
	case "deliver":
		if p := net.Pending(); p > 0 {
			w.deliver(mod(st.A, p))
			w.tr.label("step:deliver")
		}
	case "drop":
		if p := net.Pending(); p > 0 {
			net.Drop(mod(st.A, p))
			w.tr.label("step:drop")
		}
	case "dup":
		if p := net.Pending(); p > 0 {
			net.Duplicate(mod(st.A, p))
			w.tr.label("step:dup")
		}
	case "defer":
		if p := net.Pending(); p > 1 {
			net.MoveToBack(mod(st.A, p))
			w.tr.label("step:reorder")
		}
	case "pump":
		w.pump(1 + mod(st.A, 400))
		w.tr.label("step:pump")
	case "hold":
		if p := net.Pending(); p > 0 {
			net.Hold(mod(st.A, p))
			w.tr.label("step:hold")
		}
	case "holdto":
		s := w.sel(st.A, uint64(1+mod(st.B, w.sc.Regions)))
		if k := net.HoldIf(func(m myraft.Message) bool { return int(m.To%peerBase)-1 == s }); k > 0 {
			w.tr.label("step:hold")
		}
	case "release":
		if net.Release() > 0 {
			w.tr.label("step:release")
		}
	case "split":
		w.split(mod(st.A, w.sc.Regions))
	case "isolate":
		w.iso = w.sel(st.A, uint64(1+mod(st.B, w.sc.Regions)))
		w.tr.label("step:partition")
	case "heal":
		if w.iso >= 0 {
			w.tr.label("step:heal")
		}
		w.iso = -1
	case "campaign":
		region := uint64(1 + mod(st.B, w.sc.Regions))
		n := w.c.Nodes[w.sel(st.A, region)]
		if n.Store != nil && n.RegionPeer(region) != nil {
			_ = n.Campaign(region)
			w.tr.label("step:campaign")
		}
	case "transfer":
		region := uint64(1 + mod(st.A, w.sc.Regions))
		cl := w.claims(region)
		if len(cl) > 0 {
			to := w.sel(st.B, region)
			if p := w.c.Nodes[cl[0].store].RegionPeer(region); p != nil && to != cl[0].store {
				_ = p.TransferLeader(region*peerBase + uint64(to+1))
				w.tr.label("step:transfer-leader")
			}
		}
	case "prewrite":
		w.prewrite(st)
	case "bulk":
		// C*100 fresh-key prewrites at target A of region B, each followed by a pump:
		// enough log growth to make the leader compact its raft log
		for i := 0; i < 100*mod(st.C, 60); i++ {
			w.prewrite(Step{Op: "prewrite", A: st.A, B: st.B, C: -1})
			w.pump(40)
		}
		w.tr.label("step:bulk")
	case "commit":
		w.commit(st)
	case "read":
		w.read(st)
	case "restart":
		w.restart(w.sel(st.A, uint64(1+mod(st.B, w.sc.Regions))))
	case "sleep":
		time.Sleep(time.Duration(1+mod(st.A, 8)) * time.Second)
		w.tr.label("step:sleep")
	default:
		w.tr.label("step:unknown")
	}
	return nil
}

// splitKeys are the keys original region r can be split at, in the order they
// are used: strictly descending and above every data key, so a split stays
// valid whichever of the earlier splits were committed, and no data key ever
// changes its region.
func splitKeys(r int) []string {
	if r == 0 {
		return []string{"l", "k", "j", "i", "h", "g", "f", "e"}
	}
	return []string{"y", "x", "w", "v", "u", "t", "s", "r"}
}

// split proposes a split of original region r (0-based) at its believed leader,
// the way an operator / scheduler would: child = [key, parent's current end).
func (w *world) split(r int) {
	region := uint64(r + 1)
	if w.splits == nil {
		w.splits = map[uint64][]string{}
	}
	keys := splitKeys(r)
	if len(w.splits[region]) >= len(keys) {
		w.tr.label("skip:split-keys-exhausted")
		return
	}
	l := w.sel(3, region)
	st := w.c.Nodes[l].Store
	if st == nil {
		return
	}
	parent, ok := st.RegionMetaByID(region)
	if !ok {
		return
	}
	key := keys[len(w.splits[region])]
	if string(parent.EndKey) <= key {
		w.tr.label("skip:split-not-inside")
		return
	}
	w.nsplit++
	child := manifest.RegionMeta{ID: uint64(10 + w.nsplit), StartKey: []byte(key), EndKey: append([]byte(nil), parent.EndKey...),
		Epoch: manifest.RegionEpoch{Version: 1, ConfVersion: 1}, State: manifest.RegionStateRunning}
	for s := 1; s <= 3; s++ {
		child.Peers = append(child.Peers, manifest.PeerMeta{StoreID: uint64(s), PeerID: child.ID*peerBase + uint64(s)})
	}
	if err := st.ProposeSplit(region, child, []byte(key)); err != nil {
		w.tr.label("split:refused")
		return
	}
	w.splits[region] = append(w.splits[region], key)
	w.tr.label("step:split")
}

func (w *world) restart(s int) {
	if w.sc.Storage == StorageMemory {
		// a store that loses its raft log and vote is outside raft's fault model
		w.tr.label("skip:restart-with-volatile-log")
		return
	}
	n := w.c.Nodes[s]
	w.collect(s)
	n.Close()
	if err := n.Open(); err != nil {
		panic(fmt.Sprintf("reopen of store %d failed: %v", s+1, err))
	}
	w.inc[s]++
	w.tr.Applied[s] = append(w.tr.Applied[s], map[uint64][]AppliedCmd{})
	if _, err := n.StartAll(); err != nil {
		panic(fmt.Sprintf("restart of store %d: %v", s+1, err))
	}
	w.tickLeaders(s, 1)
	w.tr.Restarts++
	w.tr.label("step:restart")
}

// collect moves the node's recorded applier invocations into the trace.
func (w *world) collect(s int) {
	n := w.c.Nodes[s]
	cur := w.tr.Applied[s][len(w.tr.Applied[s])-1]
	for _, a := range n.TakeApplies() {
		if a.Request == nil || isRead(a.Request) {
			continue
		}
		cur[a.Region] = append(cur[a.Region], AppliedCmd{
			Hash: CmdHash(a.Request), ReqID: a.Request.GetHeader().GetRequestId(), Resp: a.Response, Err: a.Err,
		})
	}
}

func isRead(req *pb.RaftCmdRequest) bool {
	for _, r := range req.GetRequests() {
		if r.GetCmdType() != pb.CmdType_CMD_GET && r.GetCmdType() != pb.CmdType_CMD_SCAN {
			return false
		}
	}
	return true
}

// CmdHash identifies a command by region and request payload (header ids ignored).
func CmdHash(req *pb.RaftCmdRequest) string {
	h := sha256.New()
	fmt.Fprintf(h, "%d|", req.GetHeader().GetRegionId())
	for _, r := range req.GetRequests() {
		b, _ := proto.MarshalOptions{Deterministic: true}.Marshal(r)
		fmt.Fprintf(h, "%d:", len(b))
		h.Write(b)
	}
	return hex.EncodeToString(h.Sum(nil)[:10])
}

// ---------------------------------------------------------------- client calls

// header builds the request header a freshly routed client would send to store
// s: the epoch is the one that store's catalog currently holds for the region.
func (w *world) header(s int, region uint64, id int) *pb.CmdHeader {
	ep := &pb.RegionEpoch{Version: 1, ConfVer: 1}
	if st := w.c.Nodes[s].Store; st != nil {
		if meta, ok := st.RegionMetaByID(region); ok {
			ep = &pb.RegionEpoch{Version: meta.Epoch.Version, ConfVer: meta.Epoch.ConfVersion}
		}
	}
	h := &pb.CmdHeader{RegionId: region, RegionEpoch: ep}
	if w.sc.UniqueIDs {
		h.RequestId = 1<<40 + uint64(id)
	}
	return h
}

func (w *world) call(o *ClientOp, req *pb.RaftCmdRequest, read bool) {
	s := int(o.Store - 1)
	n := w.c.Nodes[s]
	o.ID = len(w.tr.Ops)
	req.Header = w.header(s, o.Region, o.ID)
	o.Hash = CmdHash(req)
	o.Inc = w.inc[s]
	o.Invoke = int(w.step.Load()) * 2
	o.Return = -1
	o.Isolated = w.iso == s
	w.tr.Ops = append(w.tr.Ops, o)
	st := n.Store
	if st == nil {
		o.Err = fmt.Errorf("store closed")
		o.Return = o.Invoke + 1
		o.done.Store(true)
		return
	}
	if p := n.RegionPeer(o.Region); p != nil {
		o.HadPeer = true
		o.LeaderBefore = p.Status().RaftState == myraft.StateLeader
	}
	if o.LeaderBefore {
		if cl := w.claims(o.Region); len(cl) >= 2 && cl[0].store != s && cl[0].term > cl[len(cl)-1].term {
			o.Deposed = true
		}
	}
	w.collect(s)
	o.AppliesBefore = w.appliesOn(s)
	w.wg.Add(1)
	go func() {
		defer w.wg.Done()
		defer func() {
			if p := recover(); p != nil {
				o.Panic = fmt.Sprintf("%v\n%s", p, trimStack(debug.Stack()))
			}
			o.ReqID = req.GetHeader().GetRequestId()
			o.Return = int(w.step.Load())*2 + 1
			o.done.Store(true)
		}()
		if read {
			o.Resp, o.Err = st.ReadCommand(req)
		} else {
			o.Resp, o.Err = st.ProposeCommand(req)
		}
	}()
	synctest.Wait()
	if !o.Done() && !read {
		// the goroutine is parked in ProposeCommand's select: the id was assigned before.
		o.parkedReqID = req.GetHeader().GetRequestId()
	}
	if p := n.RegionPeer(o.Region); p != nil && n.Store == st {
		o.LeaderAfter = p.Status().RaftState == myraft.StateLeader
	}
	w.collect(s)
	o.AppliesAfter = w.appliesOn(s)
	w.pending = append(w.pending, o)
}

// appliesOn counts every applier invocation (reads included) seen so far on store s.
func (w *world) appliesOn(s int) int { return w.c.Nodes[s].applyCount() }

func (w *world) prewrite(st Step) {
	r := mod(st.B, w.sc.Regions)
	region := uint64(r + 1)
	id := len(w.txns)
	key := fmt.Sprintf("%s%03d", map[int]string{0: "c", 1: "p"}[r], id)
	if st.C >= 0 {
		ks := RegionKeys(r)
		key = ks[mod(st.C, len(ks))]
	}
	w.tso++
	tx := &Txn{ID: id, Region: region, Key: key, Value: fmt.Sprintf("v%d", id), StartTs: w.tso}
	o := &ClientOp{Kind: "prewrite", Txn: id, Region: region, Key: key, Value: tx.Value, Ts: tx.StartTs,
		Store: uint64(w.target(st.A, region) + 1)}
	tx.Prewrite = o
	w.txns = append(w.txns, tx)
	req := &pb.RaftCmdRequest{Requests: []*pb.Request{{CmdType: pb.CmdType_CMD_PREWRITE, Cmd: &pb.Request_Prewrite{Prewrite: &pb.PrewriteRequest{
		Mutations:   []*pb.Mutation{{Op: pb.Mutation_Put, Key: []byte(key), Value: []byte(tx.Value)}},
		PrimaryLock: []byte(key), StartVersion: tx.StartTs, LockTtl: 1 << 30,
	}}}}}
	w.call(o, req, false)
	w.tr.label("step:prewrite")
}

// committable lists transactions whose prewrite was acknowledged without key
// error and which have no acknowledged commit yet (and, with NoRetry, no commit
// attempt at all).
func (w *world) committable() []*Txn {
	var out []*Txn
	for _, tx := range w.txns {
		if !tx.Prewrite.OK() || tx.Prewrite.KeyErr() != nil {
			continue
		}
		if w.sc.NoRetry && len(tx.Commits) > 0 {
			continue
		}
		acked := false
		for _, c := range tx.Commits {
			if c.OK() {
				acked = true
			}
		}
		if !acked {
			out = append(out, tx)
		}
	}
	return out
}

func (w *world) commit(st Step) {
	cs := w.committable()
	if len(cs) == 0 {
		w.tr.label("skip:nothing-to-commit")
		return
	}
	tx := cs[mod(st.B, len(cs))]
	if tx.CommitTs == 0 {
		w.tso++
		tx.CommitTs = w.tso
	}
	o := &ClientOp{Kind: "commit", Txn: tx.ID, Region: tx.Region, Key: tx.Key, Ts: tx.CommitTs,
		Store: uint64(w.target(st.A, tx.Region) + 1)}
	tx.Commits = append(tx.Commits, o)
	req := &pb.RaftCmdRequest{Requests: []*pb.Request{{CmdType: pb.CmdType_CMD_COMMIT, Cmd: &pb.Request_Commit{Commit: &pb.CommitRequest{
		Keys: [][]byte{[]byte(tx.Key)}, StartVersion: tx.StartTs, CommitVersion: tx.CommitTs,
	}}}}}
	w.call(o, req, false)
	w.tr.label("step:commit")
}

func (w *world) read(st Step) {
	r := mod(st.B, w.sc.Regions)
	region := uint64(r + 1)
	ks := RegionKeys(r)
	key := ks[mod(st.C, len(ks))]
	w.tso++
	o := &ClientOp{Kind: "read", Txn: -1, Region: region, Key: key, Ts: w.tso, Store: uint64(w.target(st.A, region) + 1)}
	req := &pb.RaftCmdRequest{Requests: []*pb.Request{{CmdType: pb.CmdType_CMD_GET, Cmd: &pb.Request_Get{Get: &pb.GetRequest{
		Key: []byte(key), Version: o.Ts,
	}}}}}
	w.call(o, req, true)
	if o.Deposed && o.Isolated {
		w.tr.DeposedReads++
		w.tr.label("read-at-deposed-leader-in-partition")
	}
	w.tr.label("step:read")
}

// dumpKV reads every key the run touched straight from each store's DB.
func (w *world) dumpKV() {
	keys := map[string]bool{}
	for _, tx := range w.txns {
		keys[tx.Key] = true
	}
	var ks []string
	for k := range keys {
		ks = append(ks, k)
	}
	sort.Strings(ks)
	for s, n := range w.c.Nodes {
		if n.DB == nil {
			continue
		}
		out := map[string]string{}
		for _, k := range ks {
			resp, err := rkv.Apply(n.DB, &pb.RaftCmdRequest{Requests: []*pb.Request{{CmdType: pb.CmdType_CMD_GET,
				Cmd: &pb.Request_Get{Get: &pb.GetRequest{Key: []byte(k), Version: 1 << 60}}}}})
			switch {
			case err != nil:
				out[k] = "error:" + err.Error()
			case resp.GetResponses()[0].GetGet().GetError() != nil:
				out[k] = fmt.Sprintf("locked@%d", resp.GetResponses()[0].GetGet().GetError().GetLocked().GetLockVersion())
			case resp.GetResponses()[0].GetGet().GetNotFound():
				out[k] = "<none>"
			default:
				out[k] = string(resp.GetResponses()[0].GetGet().GetValue())
			}
		}
		w.tr.KVState[s] = out
	}
}

// ---------------------------------------------------------------- model applier

// modelState is a deterministic stand-in for raftstore/kv.Apply on a DB: locks
// and committed versions per key, answers shaped like percolator's.  It lives
// outside the store incarnation (a DB survives a restart too).
type modelState struct {
	mu     sync.Mutex
	poison string
	locks  map[string]modelLock
	writes map[string][]modelWrite // ascending commit ts
}

type modelLock struct {
	ts    uint64
	value string
}

type modelWrite struct {
	commitTs, startTs uint64
	value             string
}

func newModelState() *modelState {
	return &modelState{locks: map[string]modelLock{}, writes: map[string][]modelWrite{}}
}

func lockedErr(key string, l modelLock) *pb.KeyError {
	return &pb.KeyError{Locked: &pb.Locked{PrimaryLock: []byte(key), Key: []byte(key), LockVersion: l.ts}}
}

func (m *modelState) apply(req *pb.RaftCmdRequest) (*pb.RaftCmdResponse, error) {
	m.mu.Lock()
	defer m.mu.Unlock()
	resp := &pb.RaftCmdResponse{Header: req.GetHeader()}
	for _, r := range req.GetRequests() {
		switch r.GetCmdType() {
		case pb.CmdType_CMD_PREWRITE:
			pw := r.GetPrewrite()
			out := &pb.PrewriteResponse{}
			for _, mu := range pw.GetMutations() {
				k := string(mu.GetKey())
				if m.poison != "" && k == m.poison {
					return nil, fmt.Errorf("model: storage failure on key %q", k)
				}
				if l, ok := m.locks[k]; ok {
					if l.ts != pw.GetStartVersion() {
						out.Errors = append(out.Errors, lockedErr(k, l))
					}
					continue
				}
				if ws := m.writes[k]; len(ws) > 0 && ws[len(ws)-1].commitTs >= pw.GetStartVersion() {
					last := ws[len(ws)-1]
					out.Errors = append(out.Errors, &pb.KeyError{WriteConflict: &pb.WriteConflict{
						Key: mu.GetKey(), Primary: pw.GetPrimaryLock(), ConflictTs: last.commitTs, StartTs: pw.GetStartVersion()}})
					continue
				}
				m.locks[k] = modelLock{ts: pw.GetStartVersion(), value: string(mu.GetValue())}
			}
			resp.Responses = append(resp.Responses, &pb.Response{Cmd: &pb.Response_Prewrite{Prewrite: out}})
		case pb.CmdType_CMD_COMMIT:
			cm := r.GetCommit()
			var kerr *pb.KeyError
			for _, kb := range cm.GetKeys() {
				k := string(kb)
				l, ok := m.locks[k]
				if !ok {
					found := false
					for _, w := range m.writes[k] {
						if w.startTs == cm.GetStartVersion() {
							found = true
						}
					}
					if found {
						continue
					}
					kerr = &pb.KeyError{Abort: "lock not found"}
					break
				}
				if l.ts != cm.GetStartVersion() {
					kerr = lockedErr(k, l)
					break
				}
				ws := append(m.writes[k], modelWrite{commitTs: cm.GetCommitVersion(), startTs: l.ts, value: l.value})
				sort.SliceStable(ws, func(i, j int) bool { return ws[i].commitTs < ws[j].commitTs })
				m.writes[k] = ws
				delete(m.locks, k)
			}
			resp.Responses = append(resp.Responses, &pb.Response{Cmd: &pb.Response_Commit{Commit: &pb.CommitResponse{Error: kerr}}})
		case pb.CmdType_CMD_GET:
			g := r.GetGet()
			k := string(g.GetKey())
			out := &pb.GetResponse{}
			if l, ok := m.locks[k]; ok && g.GetVersion() >= l.ts {
				out.Error = lockedErr(k, l)
			} else {
				out.NotFound = true
				ws := m.writes[k]
				for i := len(ws) - 1; i >= 0; i-- {
					if ws[i].commitTs <= g.GetVersion() {
						out.NotFound = false
						out.Value = []byte(ws[i].value)
						break
					}
				}
			}
			resp.Responses = append(resp.Responses, &pb.Response{Cmd: &pb.Response_Get{Get: out}})
		default:
			return nil, fmt.Errorf("model: unsupported command %v", r.GetCmdType())
		}
	}
	return resp, nil
}
