// Package sim is an in-process raftstore fixture: real store.Store / peer.Peer /
// etcd-raft nodes wired to a harness transport.  Nothing in here owns a clock
// or a goroutine: raft messages are queued by Net.Send and handed to the
// destination store only when the driver says so (Deliver / Pump), ticks are
// explicit (Cluster.Tick), leadership of a single-voter group is obtained with
// Campaign.  A cluster of one node is the fixture of C24/C25; C22/C23 use the
// same types with three nodes.
//
// Layering:
//
//	Net      – transport.Transport implementation + message pool
//	Node     – one store: manifest (+ optional WAL or full NoKV DB), store.Store,
//	           PeerBuilder, apply recorder; Open/Close model a process restart
//	Cluster  – a Net plus its Nodes, convenience drivers (Tick, Settle)
package sim

import (
	"fmt"
	"path/filepath"
	"sort"
	"sync"
	"time"

	NoKV "github.com/feichai0017/NoKV"
	"github.com/feichai0017/NoKV/manifest"
	"github.com/feichai0017/NoKV/pb"
	myraft "github.com/feichai0017/NoKV/raft"
	"github.com/feichai0017/NoKV/raftstore/kv"
	"github.com/feichai0017/NoKV/raftstore/peer"
	"github.com/feichai0017/NoKV/raftstore/store"
	"github.com/feichai0017/NoKV/wal"
	proto "google.golang.org/protobuf/proto"
)

// ---------------------------------------------------------------- transport

// Net is the harness transport shared by every node of a cluster.  Send only
// queues; the driver decides what is delivered, dropped or duplicated.
type Net struct {
	mu    sync.Mutex
	queue []myraft.Message
	nodes []*Node

	Sent, Delivered, Dropped, Undeliverable int

	// Filter, when set, is consulted by Deliver: a message for which it returns
	// false is discarded (counted in Cut) instead of being stepped into the
	// destination.  Multi-node drivers model partitions with it.
	Filter func(myraft.Message) bool
	Cut    int

	// held: messages taken out of the queue by Hold/HoldIf (delayed, not lost);
	// Release puts them back in front of the queue.
	held []myraft.Message
}

// Hold moves the i-th queued message into the held-back pool.
func (n *Net) Hold(i int) bool {
	m, ok := n.take(i)
	if ok {
		n.mu.Lock()
		n.held = append(n.held, m)
		n.mu.Unlock()
	}
	return ok
}

// HoldIf moves every queued message matching f into the held-back pool
// (queue order is kept) and returns how many were moved.
func (n *Net) HoldIf(f func(myraft.Message) bool) int {
	n.mu.Lock()
	defer n.mu.Unlock()
	rest := n.queue[:0:0]
	moved := 0
	for _, m := range n.queue {
		if f(m) {
			n.held = append(n.held, m)
			moved++
		} else {
			rest = append(rest, m)
		}
	}
	n.queue = rest
	return moved
}

// Held returns the number of held-back messages.
func (n *Net) Held() int {
	n.mu.Lock()
	defer n.mu.Unlock()
	return len(n.held)
}

// Release puts the held-back messages in front of the queue (in the order they
// were held) and returns how many there were.
func (n *Net) Release() int {
	n.mu.Lock()
	defer n.mu.Unlock()
	k := len(n.held)
	if k > 0 {
		n.queue = append(append([]myraft.Message(nil), n.held...), n.queue...)
		n.held = nil
	}
	return k
}

// Send implements transport.Transport.
func (n *Net) Send(m myraft.Message) {
	n.mu.Lock()
	n.queue = append(n.queue, m)
	n.Sent++
	n.mu.Unlock()
}

// Pending returns the number of queued messages.
func (n *Net) Pending() int {
	n.mu.Lock()
	defer n.mu.Unlock()
	return len(n.queue)
}

// Peek returns a copy of the i-th queued message.
func (n *Net) Peek(i int) (myraft.Message, bool) {
	n.mu.Lock()
	defer n.mu.Unlock()
	if i < 0 || i >= len(n.queue) {
		return myraft.Message{}, false
	}
	return n.queue[i], true
}

func (n *Net) take(i int) (myraft.Message, bool) {
	n.mu.Lock()
	defer n.mu.Unlock()
	if i < 0 || i >= len(n.queue) {
		return myraft.Message{}, false
	}
	m := n.queue[i]
	n.queue = append(n.queue[:i:i], n.queue[i+1:]...)
	return m, true
}

// Drop removes the i-th queued message without delivering it.
func (n *Net) Drop(i int) bool {
	_, ok := n.take(i)
	if ok {
		n.mu.Lock()
		n.Dropped++
		n.mu.Unlock()
	}
	return ok
}

// Duplicate appends a copy of the i-th queued message to the queue.
func (n *Net) Duplicate(i int) bool {
	m, ok := n.Peek(i)
	if ok {
		n.mu.Lock()
		n.queue = append(n.queue, m)
		n.mu.Unlock()
	}
	return ok
}

// MoveToBack re-queues the i-th message behind every other queued message
// (reordering without loss).
func (n *Net) MoveToBack(i int) bool {
	m, ok := n.take(i)
	if ok {
		n.mu.Lock()
		n.queue = append(n.queue, m)
		n.mu.Unlock()
	}
	return ok
}

// Deliver removes the i-th queued message and steps it into the open node that
// hosts the destination peer.  A message whose destination is not hosted by any
// open, connected node is discarded (as a real transport would fail to dial).
func (n *Net) Deliver(i int) error {
	m, ok := n.take(i)
	if !ok {
		return fmt.Errorf("sim: no message at %d", i)
	}
	if f := n.Filter; f != nil && !f(m) {
		n.mu.Lock()
		n.Cut++
		n.mu.Unlock()
		return nil
	}
	dst := n.hostOf(m.To)
	if dst == nil {
		n.mu.Lock()
		n.Undeliverable++
		n.mu.Unlock()
		return nil
	}
	n.mu.Lock()
	n.Delivered++
	n.mu.Unlock()
	return dst.Store.Step(m)
}

// Pump delivers queued messages in FIFO order until the queue is empty or max
// deliveries were made; it returns the number of deliveries and the first Step
// error (delivery continues after an error).
func (n *Net) Pump(max int) (int, error) {
	var first error
	done := 0
	for done < max && n.Pending() > 0 {
		if err := n.Deliver(0); err != nil && first == nil {
			first = err
		}
		done++
	}
	return done, first
}

func (n *Net) hostOf(peerID uint64) *Node {
	n.mu.Lock()
	nodes := append([]*Node(nil), n.nodes...)
	n.mu.Unlock()
	for _, nd := range nodes {
		if nd.Store == nil || nd.Isolated {
			continue
		}
		if _, ok := nd.Store.Peer(peerID); ok {
			return nd
		}
	}
	return nil
}

// ---------------------------------------------------------------- node

// Storage selects the raft log engine of a node's peers.
type Storage string

const (
	// StorageMemory: etcd MemoryStorage per peer; the raft log does not survive Close/Open.
	StorageMemory Storage = "mem"
	// StorageWAL: engine.WALStorage over a wal.Manager + the node's manifest (what
	// raftstore/server configures); the raft log survives Close/Open.
	StorageWAL Storage = "wal"
	// StorageDB: like StorageWAL but manifest and WAL are the ones of a full NoKV
	// DB opened in Dir, and the default applier is kv.NewApplier(db) — exactly the
	// wiring of raftstore/server.New.
	StorageDB Storage = "db"
)

// Applier is the store's command applier signature.
type Applier func(*pb.RaftCmdRequest) (*pb.RaftCmdResponse, error)

// NodeConfig describes one store.
type NodeConfig struct {
	StoreID uint64
	Dir     string  // work directory (manifest, WAL, DB); required
	Storage Storage // default StorageMemory
	// Applier executes commands.  nil: StorageDB uses kv.NewApplier(db); the other
	// engines answer every command with an empty response.  Every invocation is
	// recorded in Node.Applies before the applier runs.
	Applier Applier
	// MakeApplier, when set, is called on every Open with the node (so it can
	// capture n.DB) and overrides Applier.
	MakeApplier func(n *Node) Applier
	// Raft is the base raft configuration (ID is filled per peer).  Zero fields get
	// the defaults of raftstore/server.New.
	Raft myraft.Config
	// DBOptions may adjust the NoKV options used by StorageDB.
	DBOptions func(*NoKV.Options)
	// CommandTimeout is store.Config.CommandTimeout (0 = the store's default, 3 s).
	CommandTimeout time.Duration
}

// Apply is one invocation of the command applier observed on a node.
type Apply struct {
	Store    uint64
	Region   uint64
	Request  *pb.RaftCmdRequest // deep copy taken before the applier ran
	Response *pb.RaftCmdResponse
	Err      error
}

// RegionEvent is one region-catalog notification (RegionHooks) observed on a node.
type RegionEvent struct {
	Removed bool
	Meta    manifest.RegionMeta // for updates
	ID      uint64
}

// Node is one store process image.  Open/Close can be repeated (restart).
type Node struct {
	Cfg      NodeConfig
	Store    *store.Store
	Manifest *manifest.Manager
	WAL      *wal.Manager
	DB       *NoKV.DB
	Isolated bool // set by the driver: no message is delivered to this node

	net *Net

	mu         sync.Mutex
	applies    []Apply
	applyTotal int // applier invocations since the node was created (never reset)
	events     []RegionEvent
}

func (n *Node) raftConfig(peerID uint64) myraft.Config {
	c := n.Cfg.Raft
	c.ID = peerID
	if c.ElectionTick == 0 {
		c.ElectionTick = 10
	}
	if c.HeartbeatTick == 0 {
		c.HeartbeatTick = 2
	}
	if c.MaxSizePerMsg == 0 {
		c.MaxSizePerMsg = 1 << 20
	}
	if c.MaxInflightMsgs == 0 {
		c.MaxInflightMsgs = 256
	}
	return c
}

// PeerConfig is the node's store.PeerBuilder: it mirrors the builder of
// raftstore/server.New (peer id looked up by store id in meta.Peers).
func (n *Node) PeerConfig(meta manifest.RegionMeta) (*peer.Config, error) {
	var peerID uint64
	for _, p := range meta.Peers {
		if p.StoreID == n.Cfg.StoreID {
			peerID = p.PeerID
			break
		}
	}
	if peerID == 0 {
		return nil, fmt.Errorf("sim: store %d missing peer in region %d", n.Cfg.StoreID, meta.ID)
	}
	cfg := &peer.Config{
		RaftConfig: n.raftConfig(peerID),
		Transport:  n.net,
		Apply:      func([]myraft.Entry) error { return nil }, // replaced by store.StartPeer
		GroupID:    meta.ID,
		Region:     manifest.CloneRegionMetaPtr(&meta),
	}
	if n.Cfg.Storage == StorageWAL || n.Cfg.Storage == StorageDB {
		cfg.WAL = n.WAL
		cfg.Manifest = n.Manifest
	}
	return cfg, nil
}

// Open builds the store from whatever Dir holds (fresh start or restart).  No
// peer is started: call StartRegion / StartAll.
func (n *Node) Open() (err error) {
	if n.Store != nil {
		return fmt.Errorf("sim: node %d already open", n.Cfg.StoreID)
	}
	defer func() {
		if p := recover(); p != nil {
			err = fmt.Errorf("sim: open of store %d panicked: %v", n.Cfg.StoreID, p)
		}
		if err != nil {
			n.closeFiles()
		}
	}()
	switch n.Cfg.Storage {
	case StorageDB:
		opt := NoKV.NewDefaultOptions()
		opt.WorkDir = n.Cfg.Dir
		opt.MemTableSize = 1 << 20
		opt.SSTableMaxSz = 8 << 20
		opt.ValueLogFileSize = 1 << 20
		opt.ValueLogBucketCount = 1
		opt.ValueLogHotBucketCount = 0
		opt.ValueLogGCInterval = 0
		opt.HotRingEnabled = false
		opt.ValueLogHotRingOverride = false
		opt.EnableWALWatchdog = false
		opt.BlockCacheSize = 64
		opt.BloomCacheSize = 64
		opt.WriteBatchWait = 0
		if n.Cfg.DBOptions != nil {
			n.Cfg.DBOptions(opt)
		}
		n.DB = NoKV.Open(opt)
		n.Manifest = n.DB.Manifest()
		n.WAL = n.DB.WAL()
	case StorageWAL:
		if n.Manifest, err = manifest.Open(n.Cfg.Dir, nil); err != nil {
			return err
		}
		if n.WAL, err = wal.Open(wal.Config{Dir: filepath.Join(n.Cfg.Dir, "raftwal")}); err != nil {
			return err
		}
	default:
		n.Cfg.Storage = StorageMemory
		if n.Manifest, err = manifest.Open(n.Cfg.Dir, nil); err != nil {
			return err
		}
	}
	inner := n.Cfg.Applier
	if n.Cfg.MakeApplier != nil {
		inner = n.Cfg.MakeApplier(n)
	}
	if inner == nil && n.DB != nil {
		inner = kv.NewApplier(n.DB)
	}
	n.Store = store.NewStoreWithConfig(store.Config{
		StoreID:        n.Cfg.StoreID,
		Manifest:       n.Manifest,
		PeerBuilder:    n.PeerConfig,
		CommandTimeout: n.Cfg.CommandTimeout,
		RegionHooks: store.RegionHooks{
			OnRegionUpdate: func(m manifest.RegionMeta) {
				n.mu.Lock()
				n.events = append(n.events, RegionEvent{Meta: manifest.CloneRegionMeta(m), ID: m.ID})
				n.mu.Unlock()
			},
			OnRegionRemove: func(id uint64) {
				n.mu.Lock()
				n.events = append(n.events, RegionEvent{Removed: true, ID: id})
				n.mu.Unlock()
			},
		},
		CommandApplier: func(req *pb.RaftCmdRequest) (*pb.RaftCmdResponse, error) {
			rec := Apply{Store: n.Cfg.StoreID, Region: req.GetHeader().GetRegionId()}
			if req != nil {
				rec.Request = proto.Clone(req).(*pb.RaftCmdRequest)
			}
			var (
				resp *pb.RaftCmdResponse
				err  error
			)
			if inner != nil {
				resp, err = inner(req)
			} else {
				resp = &pb.RaftCmdResponse{Header: req.GetHeader()}
			}
			rec.Response, rec.Err = resp, err
			n.mu.Lock()
			n.applies = append(n.applies, rec)
			n.applyTotal++
			n.mu.Unlock()
			return resp, err
		},
	})
	return nil
}

func (n *Node) closeFiles() {
	if n.DB != nil {
		func() {
			defer func() { _ = recover() }()
			_ = n.DB.Close()
		}()
		n.DB, n.Manifest, n.WAL = nil, nil, nil
	}
	if n.WAL != nil {
		_ = n.WAL.Close()
		n.WAL = nil
	}
	if n.Manifest != nil {
		_ = n.Manifest.Close()
		n.Manifest = nil
	}
}

// Close models a clean process exit: peers are closed WITHOUT going through
// Store.StopPeer (which would move their regions to the Removing state), then
// the store, the WAL and the manifest are closed.  The directory stays.
func (n *Node) Close() {
	if n.Store != nil {
		n.Store.VisitPeers(func(p *peer.Peer) { _ = p.Close() })
		n.Store.Close()
		n.Store = nil
	}
	n.closeFiles()
}

// StartRegion starts the local peer of meta (bootstrapping the raft group with
// meta.Peers when its log is empty), as cmd/nokv serve does per catalog entry.
func (n *Node) StartRegion(meta manifest.RegionMeta) (*peer.Peer, error) {
	cfg, err := n.PeerConfig(meta)
	if err != nil {
		return nil, err
	}
	boot := make([]myraft.Peer, 0, len(meta.Peers))
	for _, p := range meta.Peers {
		boot = append(boot, myraft.Peer{ID: p.PeerID})
	}
	return n.Store.StartPeer(cfg, boot)
}

// StartAll starts a peer for every catalog region that lists this store, in
// region-id order (cmd/nokv serve iterates a map; the order is fixed here so
// runs are reproducible).  It returns the ids started.
func (n *Node) StartAll() ([]uint64, error) {
	metas := n.Store.RegionMetas()
	sort.Slice(metas, func(i, j int) bool { return metas[i].ID < metas[j].ID })
	var started []uint64
	for _, m := range metas {
		hosted := false
		for _, p := range m.Peers {
			if p.StoreID == n.Cfg.StoreID {
				hosted = true
			}
		}
		if !hosted {
			continue
		}
		if _, err := n.StartRegion(m); err != nil {
			return started, fmt.Errorf("sim: start peer for region %d: %w", m.ID, err)
		}
		started = append(started, m.ID)
	}
	return started, nil
}

// RegionPeer returns the local peer serving regionID, if any.
func (n *Node) RegionPeer(regionID uint64) *peer.Peer {
	if n.Store == nil {
		return nil
	}
	for _, h := range n.Store.Peers() {
		if h.Region != nil && h.Region.ID == regionID {
			return h.Peer
		}
	}
	return nil
}

// Campaign makes the local peer of regionID start an election (a single-voter
// group is leader when this returns).
func (n *Node) Campaign(regionID uint64) error {
	p := n.RegionPeer(regionID)
	if p == nil {
		return fmt.Errorf("sim: region %d has no local peer on store %d", regionID, n.Cfg.StoreID)
	}
	return p.Campaign()
}

// IsLeader reports whether the local peer of regionID is raft leader.
func (n *Node) IsLeader(regionID uint64) bool {
	p := n.RegionPeer(regionID)
	return p != nil && p.Status().RaftState == myraft.StateLeader
}

// Applies returns the applier invocations recorded since the last TakeApplies.
func (n *Node) Applies() []Apply {
	n.mu.Lock()
	defer n.mu.Unlock()
	return append([]Apply(nil), n.applies...)
}

func (n *Node) applyCount() int {
	n.mu.Lock()
	defer n.mu.Unlock()
	return n.applyTotal
}

// TakeApplies returns and clears the recorded applier invocations.
func (n *Node) TakeApplies() []Apply {
	n.mu.Lock()
	defer n.mu.Unlock()
	out := n.applies
	n.applies = nil
	return out
}

// TakeEvents returns and clears the recorded region-catalog notifications.
func (n *Node) TakeEvents() []RegionEvent {
	n.mu.Lock()
	defer n.mu.Unlock()
	out := n.events
	n.events = nil
	return out
}

// Catalog returns the store's region catalog sorted by region id.
func (n *Node) Catalog() []manifest.RegionMeta {
	if n.Store == nil {
		return nil
	}
	metas := n.Store.RegionMetas()
	sort.Slice(metas, func(i, j int) bool { return metas[i].ID < metas[j].ID })
	return metas
}

// ManifestCatalog returns the manifest's region snapshot sorted by region id.
func (n *Node) ManifestCatalog() []manifest.RegionMeta {
	if n.Manifest == nil {
		return nil
	}
	snap := n.Manifest.RegionSnapshot()
	out := make([]manifest.RegionMeta, 0, len(snap))
	for _, m := range snap {
		out = append(out, manifest.CloneRegionMeta(m))
	}
	sort.Slice(out, func(i, j int) bool { return out[i].ID < out[j].ID })
	return out
}

// ---------------------------------------------------------------- cluster

// Cluster is a Net plus the nodes attached to it.
type Cluster struct {
	Net   *Net
	Nodes []*Node // in AddNode order
}

// NewCluster returns an empty cluster.
func NewCluster() *Cluster { QuietRaft(); return &Cluster{Net: &Net{}} }

// AddNode attaches and opens a node.
func (c *Cluster) AddNode(cfg NodeConfig) (*Node, error) {
	if cfg.StoreID == 0 || cfg.Dir == "" {
		return nil, fmt.Errorf("sim: node needs StoreID and Dir")
	}
	for _, n := range c.Nodes {
		if n.Cfg.StoreID == cfg.StoreID {
			return nil, fmt.Errorf("sim: duplicate store id %d", cfg.StoreID)
		}
	}
	n := &Node{Cfg: cfg, net: c.Net}
	if err := n.Open(); err != nil {
		return nil, err
	}
	c.Nodes = append(c.Nodes, n)
	c.Net.mu.Lock()
	c.Net.nodes = append(c.Net.nodes, n)
	c.Net.mu.Unlock()
	return n, nil
}

// Node returns the node with the given store id.
func (c *Cluster) Node(storeID uint64) *Node {
	for _, n := range c.Nodes {
		if n.Cfg.StoreID == storeID {
			return n
		}
	}
	return nil
}

// Tick advances the logical raft clock of every peer of every open node once
// (node order, then the router's own order inside a node).
func (c *Cluster) Tick() error {
	var first error
	for _, n := range c.Nodes {
		if n.Store == nil {
			continue
		}
		if err := n.Store.Router().BroadcastTick(); err != nil && first == nil {
			first = err
		}
	}
	return first
}

// Settle pumps the network until it is quiet (at most maxMsgs deliveries).
func (c *Cluster) Settle(maxMsgs int) (int, error) { return c.Net.Pump(maxMsgs) }

// Close closes every node.
func (c *Cluster) Close() {
	for _, n := range c.Nodes {
		n.Close()
	}
}

// SingleVoter builds the region meta of a group whose only replica is
// (storeID, peerID).
func SingleVoter(regionID uint64, start, end []byte, epoch manifest.RegionEpoch, storeID, peerID uint64) manifest.RegionMeta {
	return manifest.RegionMeta{
		ID:       regionID,
		StartKey: append([]byte(nil), start...),
		EndKey:   append([]byte(nil), end...),
		Epoch:    epoch,
		Peers:    []manifest.PeerMeta{{StoreID: storeID, PeerID: peerID}},
		State:    manifest.RegionStateRunning,
	}
}
