package sim

import (
	"fmt"
	"sync"

	myraft "github.com/feichai0017/NoKV/raft"
)

// quietLogger drops etcd-raft's informational output (it is process-global and
// extremely chatty with thousands of short-lived groups) but keeps Panic/Fatal
// semantics as panics so the runner sees them as failures of the case.
type quietLogger struct{}

func (quietLogger) Debug(...any)            {}
func (quietLogger) Debugf(string, ...any)   {}
func (quietLogger) Info(...any)             {}
func (quietLogger) Infof(string, ...any)    {}
func (quietLogger) Warning(...any)          {}
func (quietLogger) Warningf(string, ...any) {}
func (quietLogger) Error(...any)            {}
func (quietLogger) Errorf(string, ...any)   {}
func (quietLogger) Fatal(v ...any)          { panic("raft fatal: " + fmt.Sprint(v...)) }
func (quietLogger) Fatalf(f string, v ...any) {
	panic("raft fatal: " + fmt.Sprintf(f, v...))
}
func (quietLogger) Panic(v ...any)            { panic("raft panic: " + fmt.Sprint(v...)) }
func (quietLogger) Panicf(f string, v ...any) { panic("raft panic: " + fmt.Sprintf(f, v...)) }

var quietOnce sync.Once

// QuietRaft installs the quiet raft logger (once per process).  NewCluster calls it.
func QuietRaft() { quietOnce.Do(func() { myraft.SetLogger(quietLogger{}) }) }
