package sim

import (
	"testing"

	"github.com/feichai0017/NoKV/manifest"
	"github.com/feichai0017/NoKV/pb"
	"nokvverif/internal/pbt"
)

func TestMain(m *testing.M) { pbt.RunMain(m) }

// Smoke test of the fixture: a single-voter group elects itself by Campaign,
// serves a proposal and a read, splits through the raft log, and the catalog
// survives a Close/Open cycle for every storage engine.
func TestSingleNode(t *testing.T) {
	for _, st := range []Storage{StorageMemory, StorageWAL, StorageDB} {
		t.Run(string(st), func(t *testing.T) {
			dir, cleanup := pbt.TempDir("simtest")
			defer cleanup()
			c := NewCluster()
			defer c.Close()
			n, err := c.AddNode(NodeConfig{StoreID: 1, Dir: dir, Storage: st})
			if err != nil {
				t.Fatal(err)
			}
			meta := SingleVoter(10, []byte("b"), nil, manifest.RegionEpoch{Version: 1, ConfVersion: 1}, 1, 100)
			if _, err := n.StartRegion(meta); err != nil {
				t.Fatal(err)
			}
			if err := n.Campaign(10); err != nil {
				t.Fatal(err)
			}
			if !n.IsLeader(10) {
				t.Fatal("not leader after Campaign")
			}
			hdr := func() *pb.CmdHeader {
				return &pb.CmdHeader{RegionId: 10, RegionEpoch: &pb.RegionEpoch{Version: 1, ConfVer: 1}}
			}
			resp, err := n.Store.ProposeCommand(&pb.RaftCmdRequest{Header: hdr(), Requests: []*pb.Request{{
				CmdType: pb.CmdType_CMD_PREWRITE,
				Cmd: &pb.Request_Prewrite{Prewrite: &pb.PrewriteRequest{
					Mutations:    []*pb.Mutation{{Op: pb.Mutation_Put, Key: []byte("c"), Value: []byte("v")}},
					PrimaryLock:  []byte("c"),
					StartVersion: 5, LockTtl: 1000,
				}},
			}}})
			if err != nil || resp.GetRegionError() != nil {
				t.Fatalf("propose: %v %v", err, resp.GetRegionError())
			}
			resp, err = n.Store.ReadCommand(&pb.RaftCmdRequest{Header: hdr(), Requests: []*pb.Request{{
				CmdType: pb.CmdType_CMD_GET, Cmd: &pb.Request_Get{Get: &pb.GetRequest{Key: []byte("c"), Version: 1}},
			}}})
			if err != nil || resp.GetRegionError() != nil {
				t.Fatalf("read: %v %v", err, resp.GetRegionError())
			}
			if got := len(n.TakeApplies()); got != 2 {
				t.Fatalf("applies=%d want 2", got)
			}
			child := SingleVoter(11, []byte("m"), nil, manifest.RegionEpoch{Version: 1, ConfVersion: 1}, 1, 101)
			if err := n.Store.ProposeSplit(10, child, []byte("m")); err != nil {
				t.Fatal(err)
			}
			if got := len(n.Catalog()); got != 2 {
				t.Fatalf("regions after split = %d", got)
			}
			before := n.Catalog()
			n.Close()
			if err := n.Open(); err != nil {
				t.Fatal(err)
			}
			after := n.Catalog()
			if len(after) != len(before) || string(after[0].EndKey) != "m" || after[0].Epoch.Version != 2 {
				t.Fatalf("catalog after restart: %+v", after)
			}
			if c.Net.Pending() != 0 {
				t.Fatalf("single-voter groups must not send messages, %d pending", c.Net.Pending())
			}
		})
	}
}
