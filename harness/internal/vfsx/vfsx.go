// Package vfsx is the crash-capture filesystem shim of the verification harness
// (DESIGN.md §2.4).
//
// FS implements the repository's vfs.FS on top of another vfs.FS (normally
// vfs.OSFS) and
//
//  1. logs every operation: index, kind, path(s), byte length, offset, result;
//  2. serialises all logged operations under one lock and lets a Plan choose, per
//     operation, capture points *before* / *after* the operation; the capture
//     callback runs while every other FS operation is blocked, so a copy of the
//     work directory made inside it is exactly what `kill -9` at that instant
//     leaves behind (page cache survives a process crash, user-space buffers are
//     not in the files and therefore not in the copy);
//  3. for Write / WriteAt / WriteFile can apply only a byte prefix before a
//     capture (torn write): the callback sees the file with only the prefix
//     written, afterwards the rest is written and the caller sees a normal result;
//  4. can gate operations: an operation matching a Gate's predicate parks (without
//     holding the lock and without an index) until the gate is released;
//  5. CopyDir: sparse-aware recursive copy that skips nothing (LOCK files included);
//  6. counters (operations by kind, captures, gated operations, bytes written) and
//     two client counters (Started / Acked) whose values are sampled into every
//     capture Point.
//
// Files returned by FS expose OSFile() and Fd() exactly like vfs.faultFile, so
// file.OpenMmapFile and utils.dirlock keep working (vfs.UnwrapOSFile / vfs.FileFD).
// mmap stores bypass every vfs.FS and are therefore neither logged nor blocked.
//
// A real crash instead of a copy: let the capture callback call os.Exit — it runs
// at precisely the chosen instant (before, torn at k bytes, after).
//
// The capture callback must not call into the FS it is attached to (deadlock); use
// the os package / CopyDir on the directory, or another FS value, from inside it.
package vfsx

import (
	"errors"
	"fmt"
	"io"
	"os"
	"path/filepath"
	"sort"
	"sync"
	"sync/atomic"
	"syscall"
	"time"

	"github.com/feichai0017/NoKV/vfs"
)

// Operation kinds: the vfs.Op constants of the repository plus the ones FaultFS
// does not distinguish.
const (
	OpFileWriteAt vfs.Op = "file_write_at"
)

// Rec is one logged operation.
type Rec struct {
	Index int    `json:"i"`               // position in the log (order of execution)
	Op    vfs.Op `json:"op"`              //
	Path  string `json:"path"`            // file path as given to the FS (for file ops: the path used to open it)
	Path2 string `json:"path2,omitempty"` // Rename: destination
	Len   int    `json:"len,omitempty"`   // Write/WriteAt/WriteFile: byte length
	Off   int64  `json:"off,omitempty"`   // WriteAt: offset; Truncate: new size
	Flag  int    `json:"flag,omitempty"`  // OpenFileHandle flags
	Mut   bool   `json:"mut"`             // may change what a directory copy contains
	Done  bool   `json:"done"`            // the operation has returned
	Err   string `json:"err,omitempty"`   // its error, if any
}

// Phase says where a capture sits relative to its operation.
type Phase int

const (
	Before Phase = iota // the operation has not touched the filesystem yet
	Torn                // a write applied only Written bytes so far
	After               // the operation is complete (successful or not)
)

func (p Phase) String() string { return [...]string{"before", "torn", "after"}[p] }

// Point describes one capture.
type Point struct {
	Rec     Rec
	Phase   Phase
	Written int   // Torn: bytes of the payload applied so far
	Started int64 // client counters sampled under the lock
	Acked   int64
	Seq     int // 0-based number of this capture
}

// Action is a Plan's decision for one operation.
type Action struct {
	Before bool
	After  bool
	// Torn lists byte-prefix lengths for write operations.  For Write/WriteAt only
	// 0 < k < len are used; for WriteFile k = 0 is meaningful too (file created /
	// truncated, nothing written yet).
	Torn []int
}

// Plan is consulted once per operation, under the lock, before the operation
// runs.  data is the payload of write operations (do not retain or modify).
type Plan func(rec Rec, data []byte) Action

// CaptureFunc is invoked at capture points while all other logged FS operations
// are blocked.
type CaptureFunc func(pt Point)

// Counters is a snapshot of the shim's statistics.
type Counters struct {
	Ops          int64
	Mutating     int64
	Captures     int64
	TornCaptures int64
	Gated        int64 // operations that had to wait on a gate
	BytesWritten int64
	ByOp         map[vfs.Op]int64
}

// FS is the shim.  The zero value is not usable; call New.
type FS struct {
	base vfs.FS

	mu      sync.Mutex // serialises logged operations; held during captures
	log     []Rec
	plan    Plan
	capture CaptureFunc
	keepLog bool
	ctr     Counters

	started atomic.Int64
	acked   atomic.Int64
	gated   atomic.Int64

	gmu   sync.Mutex
	gcond *sync.Cond
	gates []*Gate
}

// New wraps base (nil = vfs.OSFS).
func New(base vfs.FS) *FS {
	f := &FS{base: vfs.Ensure(base), keepLog: true}
	f.ctr.ByOp = map[vfs.Op]int64{}
	f.gcond = sync.NewCond(&f.gmu)
	return f
}

// SetPlan installs the plan and the capture callback (either may be nil).
func (f *FS) SetPlan(p Plan, c CaptureFunc) {
	f.mu.Lock()
	f.plan, f.capture = p, c
	f.mu.Unlock()
}

// KeepLog(false) stops recording Rec values (indices and counters continue); for
// long workloads that only need capture points.
func (f *FS) KeepLog(on bool) { f.mu.Lock(); f.keepLog = on; f.mu.Unlock() }

// Log returns a copy of the operation log.
func (f *FS) Log() []Rec {
	f.mu.Lock()
	defer f.mu.Unlock()
	return append([]Rec(nil), f.log...)
}

// Len returns the number of operations started so far (= next index).
func (f *FS) Len() int {
	f.mu.Lock()
	defer f.mu.Unlock()
	return int(f.ctr.Ops)
}

// Counters returns a snapshot of the statistics.
func (f *FS) Counters() Counters {
	f.mu.Lock()
	defer f.mu.Unlock()
	c := f.ctr
	c.Gated = f.gated.Load()
	c.ByOp = make(map[vfs.Op]int64, len(f.ctr.ByOp))
	for k, v := range f.ctr.ByOp {
		c.ByOp[k] = v
	}
	return c
}

// AddStarted / AddAcked maintain the client counters sampled into capture
// points.  Convention: AddStarted(n) immediately before a client call carrying n
// items, AddAcked(n) immediately after it returned success.  A capture therefore
// sees Acked <= (items whose call really returned) and Started >= (items whose
// call really began): both errors are on the sound side.
func (f *FS) AddStarted(n int64) { f.started.Add(n) }
func (f *FS) AddAcked(n int64)   { f.acked.Add(n) }
func (f *FS) Started() int64     { return f.started.Load() }
func (f *FS) Acked() int64       { return f.acked.Load() }

// Quiesce runs fn while all logged FS operations are blocked (a manual capture
// at an instant chosen by the test, e.g. while some operation is parked on a gate).
func (f *FS) Quiesce(fn func()) {
	f.mu.Lock()
	defer f.mu.Unlock()
	fn()
}

// ---- plans

// PlanAll captures after every operation (only mutating ones if mutOnly), and
// before the very first operation.
func PlanAll(mutOnly bool) Plan {
	return func(rec Rec, _ []byte) Action {
		if mutOnly && !rec.Mut {
			return Action{Before: rec.Index == 0}
		}
		return Action{Before: rec.Index == 0, After: true}
	}
}

// PlanIndices captures at the given operation indices.
func PlanIndices(m map[int]Action) Plan {
	return func(rec Rec, _ []byte) Action { return m[rec.Index] }
}

// ---- gates

// Gate parks matching operations until released.
type Gate struct {
	fs      *FS
	pred    func(op vfs.Op, path, path2 string) bool
	open    bool
	waiting int
	hits    int
}

// Gate installs a gate.  pred is evaluated exactly once per arriving operation
// (under an internal lock; it may keep state, it must not call the FS).
func (f *FS) Gate(pred func(op vfs.Op, path, path2 string) bool) *Gate {
	g := &Gate{fs: f, pred: pred}
	f.gmu.Lock()
	f.gates = append(f.gates, g)
	f.gmu.Unlock()
	return g
}

// Release opens the gate permanently and wakes every parked operation.
func (g *Gate) Release() {
	g.fs.gmu.Lock()
	g.open = true
	for i, x := range g.fs.gates {
		if x == g {
			g.fs.gates = append(g.fs.gates[:i:i], g.fs.gates[i+1:]...)
			break
		}
	}
	g.fs.gcond.Broadcast()
	g.fs.gmu.Unlock()
}

// Waiting returns how many operations are parked on the gate right now.
func (g *Gate) Waiting() int { g.fs.gmu.Lock(); defer g.fs.gmu.Unlock(); return g.waiting }

// Hits returns how many operations matched the gate so far.
func (g *Gate) Hits() int { g.fs.gmu.Lock(); defer g.fs.gmu.Unlock(); return g.hits }

// WaitBlocked waits until at least n operations are parked on the gate.
func (g *Gate) WaitBlocked(n int, timeout time.Duration) bool {
	deadline := time.Now().Add(timeout)
	for {
		if g.Waiting() >= n {
			return true
		}
		if time.Now().After(deadline) {
			return false
		}
		time.Sleep(200 * time.Microsecond)
	}
}

func (f *FS) waitGates(op vfs.Op, path, path2 string) {
	f.gmu.Lock()
	if len(f.gates) == 0 {
		f.gmu.Unlock()
		return
	}
	var mine []*Gate
	for _, g := range f.gates {
		if !g.open && g.pred(op, path, path2) {
			g.hits++
			g.waiting++
			mine = append(mine, g)
		}
	}
	if len(mine) > 0 {
		f.gated.Add(1)
	}
	for _, g := range mine {
		for !g.open {
			f.gcond.Wait()
		}
		g.waiting--
	}
	f.gmu.Unlock()
}

// ---- core: begin / torn / end

type opctx struct {
	idx    int
	logPos int // position in f.log, -1 when the log is off
	act    Action
	rec    Rec
}

func (f *FS) begin(rec Rec, data []byte) *opctx {
	f.waitGates(rec.Op, rec.Path, rec.Path2)
	f.mu.Lock()
	rec.Index = int(f.ctr.Ops)
	f.ctr.Ops++
	f.ctr.ByOp[rec.Op]++
	if rec.Mut {
		f.ctr.Mutating++
	}
	c := &opctx{idx: rec.Index, rec: rec, logPos: -1}
	if f.keepLog {
		c.logPos = len(f.log)
		f.log = append(f.log, rec)
	}
	if f.plan != nil {
		c.act = f.plan(rec, data)
	}
	if c.act.Before {
		f.fire(Point{Rec: rec, Phase: Before})
	}
	return c
}

func (f *FS) fire(pt Point) {
	if f.capture == nil {
		return
	}
	pt.Started, pt.Acked = f.started.Load(), f.acked.Load()
	pt.Seq = int(f.ctr.Captures)
	f.ctr.Captures++
	if pt.Phase == Torn {
		f.ctr.TornCaptures++
	}
	f.capture(pt)
}

func (f *FS) end(c *opctx, err error) {
	c.rec.Done = true
	if err != nil {
		c.rec.Err = err.Error()
	}
	if c.logPos >= 0 && c.logPos < len(f.log) {
		f.log[c.logPos] = c.rec
	}
	if c.act.After {
		f.fire(Point{Rec: c.rec, Phase: After})
	}
	f.mu.Unlock()
}

// tornPoints returns the sorted distinct prefix lengths usable for a payload of n bytes.
func tornPoints(ks []int, n int, allowZero bool) []int {
	if len(ks) == 0 {
		return nil
	}
	out := make([]int, 0, len(ks))
	for _, k := range ks {
		if k >= n || k < 0 || (k == 0 && !allowZero) {
			continue
		}
		out = append(out, k)
	}
	sort.Ints(out)
	j := 0
	for i, k := range out {
		if i == 0 || k != out[i-1] {
			out[j] = k
			j++
		}
	}
	return out[:j]
}

// tornWrite applies p through w in the pieces dictated by c.act.Torn, firing a
// Torn capture after each prefix.
func (f *FS) tornWrite(c *opctx, p []byte, allowZero bool, w func(b []byte, at int) (int, error)) (int, error) {
	written := 0
	for _, k := range tornPoints(c.act.Torn, len(p), allowZero) {
		if k > written {
			n, err := w(p[written:k], written)
			written += n
			if err != nil {
				return written, err
			}
			if written < k { // short write without error
				return written, io.ErrShortWrite
			}
		}
		f.fire(Point{Rec: c.rec, Phase: Torn, Written: written})
	}
	if written < len(p) || len(p) == 0 {
		n, err := w(p[written:], written)
		written += n
		if err != nil {
			return written, err
		}
	}
	f.ctr.BytesWritten += int64(written)
	return written, nil
}

// ---- vfs.FS

func (f *FS) wrap(file vfs.File, name string) vfs.File { return &File{base: file, fs: f, path: name} }

// OpenHandle opens an existing file read-only.
func (f *FS) OpenHandle(name string) (vfs.File, error) {
	c := f.begin(Rec{Op: vfs.OpOpen, Path: name}, nil)
	file, err := f.base.OpenHandle(name)
	f.end(c, err)
	if err != nil {
		return nil, err
	}
	return f.wrap(file, name), nil
}

// OpenFileHandle opens or creates a file.
func (f *FS) OpenFileHandle(name string, flag int, perm os.FileMode) (vfs.File, error) {
	mut := flag&(os.O_CREATE|os.O_TRUNC) != 0
	c := f.begin(Rec{Op: vfs.OpOpenFile, Path: name, Flag: flag, Mut: mut}, nil)
	file, err := f.base.OpenFileHandle(name, flag, perm)
	f.end(c, err)
	if err != nil {
		return nil, err
	}
	return f.wrap(file, name), nil
}

// MkdirAll creates a directory hierarchy.
func (f *FS) MkdirAll(path string, perm os.FileMode) error {
	c := f.begin(Rec{Op: vfs.OpMkdirAll, Path: path, Mut: true}, nil)
	err := f.base.MkdirAll(path, perm)
	f.end(c, err)
	return err
}

// RemoveAll removes a path recursively.
func (f *FS) RemoveAll(path string) error {
	c := f.begin(Rec{Op: vfs.OpRemoveAll, Path: path, Mut: true}, nil)
	err := f.base.RemoveAll(path)
	f.end(c, err)
	return err
}

// Remove removes a file or empty directory.
func (f *FS) Remove(name string) error {
	c := f.begin(Rec{Op: vfs.OpRemove, Path: name, Mut: true}, nil)
	err := f.base.Remove(name)
	f.end(c, err)
	return err
}

// Rename renames a file or directory.
func (f *FS) Rename(oldPath, newPath string) error {
	c := f.begin(Rec{Op: vfs.OpRename, Path: oldPath, Path2: newPath, Mut: true}, nil)
	err := f.base.Rename(oldPath, newPath)
	f.end(c, err)
	return err
}

// Stat returns file metadata.
func (f *FS) Stat(name string) (os.FileInfo, error) {
	c := f.begin(Rec{Op: vfs.OpStat, Path: name}, nil)
	fi, err := f.base.Stat(name)
	f.end(c, err)
	return fi, err
}

// ReadDir lists directory entries.
func (f *FS) ReadDir(name string) ([]os.DirEntry, error) {
	c := f.begin(Rec{Op: vfs.OpReadDir, Path: name}, nil)
	es, err := f.base.ReadDir(name)
	f.end(c, err)
	return es, err
}

// ReadFile reads an entire file.
func (f *FS) ReadFile(name string) ([]byte, error) {
	c := f.begin(Rec{Op: vfs.OpReadFile, Path: name}, nil)
	b, err := f.base.ReadFile(name)
	f.end(c, err)
	return b, err
}

// WriteFile writes an entire file (create/truncate + write + close).  With torn
// points it is performed in pieces through a handle of the base FS.
func (f *FS) WriteFile(name string, data []byte, perm os.FileMode) error {
	c := f.begin(Rec{Op: vfs.OpWriteFile, Path: name, Len: len(data), Mut: true}, data)
	var err error
	if len(tornPoints(c.act.Torn, len(data), true)) == 0 {
		err = f.base.WriteFile(name, data, perm)
		if err == nil {
			f.ctr.BytesWritten += int64(len(data))
		}
	} else {
		var h vfs.File
		h, err = f.base.OpenFileHandle(name, os.O_WRONLY|os.O_CREATE|os.O_TRUNC, perm)
		if err == nil {
			_, err = f.tornWrite(c, data, true, func(b []byte, _ int) (int, error) {
				if len(b) == 0 {
					return 0, nil
				}
				return h.Write(b)
			})
			if cerr := h.Close(); err == nil {
				err = cerr
			}
		}
	}
	f.end(c, err)
	return err
}

// Truncate resizes a file by path.
func (f *FS) Truncate(name string, size int64) error {
	c := f.begin(Rec{Op: vfs.OpTruncate, Path: name, Off: size, Mut: true}, nil)
	err := f.base.Truncate(name, size)
	f.end(c, err)
	return err
}

// Glob expands a pattern.
func (f *FS) Glob(pattern string) ([]string, error) {
	c := f.begin(Rec{Op: vfs.OpGlob, Path: pattern}, nil)
	m, err := f.base.Glob(pattern)
	f.end(c, err)
	return m, err
}

// Hostname returns the host name.
func (f *FS) Hostname() (string, error) {
	c := f.begin(Rec{Op: vfs.OpHostname}, nil)
	h, err := f.base.Hostname()
	f.end(c, err)
	return h, err
}

// ---- vfs.File

// File is a handle returned by FS.  Write, WriteAt, Sync, Truncate and Close are
// logged operations; Read, ReadAt, Seek, Stat pass through unlogged.
type File struct {
	base vfs.File
	fs   *FS
	path string
}

func (h *File) Read(p []byte) (int, error)                { return h.base.Read(p) }
func (h *File) ReadAt(p []byte, off int64) (int, error)   { return h.base.ReadAt(p, off) }
func (h *File) Seek(off int64, whence int) (int64, error) { return h.base.Seek(off, whence) }
func (h *File) Stat() (os.FileInfo, error)                { return h.base.Stat() }

// Name returns the path the file was opened with.
func (h *File) Name() string {
	if h.path != "" {
		return h.path
	}
	return h.base.Name()
}

// Write appends at the handle's offset.
func (h *File) Write(p []byte) (int, error) {
	c := h.fs.begin(Rec{Op: vfs.OpFileWrite, Path: h.path, Len: len(p), Mut: true}, p)
	n, err := h.fs.tornWrite(c, p, false, func(b []byte, _ int) (int, error) { return h.base.Write(b) })
	h.fs.end(c, err)
	return n, err
}

// WriteAt writes at an absolute offset.
func (h *File) WriteAt(p []byte, off int64) (int, error) {
	c := h.fs.begin(Rec{Op: OpFileWriteAt, Path: h.path, Len: len(p), Off: off, Mut: true}, p)
	n, err := h.fs.tornWrite(c, p, false, func(b []byte, at int) (int, error) { return h.base.WriteAt(b, off+int64(at)) })
	h.fs.end(c, err)
	return n, err
}

// Sync flushes the file.  It does not change what a directory copy contains
// (Mut=false) but is logged so that checks can derive "synced length" models.
func (h *File) Sync() error {
	c := h.fs.begin(Rec{Op: vfs.OpFileSync, Path: h.path}, nil)
	err := h.base.Sync()
	h.fs.end(c, err)
	return err
}

// Truncate resizes the file.
func (h *File) Truncate(size int64) error {
	c := h.fs.begin(Rec{Op: vfs.OpFileTrunc, Path: h.path, Off: size, Mut: true}, nil)
	err := h.base.Truncate(size)
	h.fs.end(c, err)
	return err
}

// Close closes the handle.
func (h *File) Close() error {
	c := h.fs.begin(Rec{Op: vfs.OpFileClose, Path: h.path}, nil)
	err := h.base.Close()
	h.fs.end(c, err)
	return err
}

// Fd exposes the descriptor (vfs.FDProvider), 0 if the base has none.
func (h *File) Fd() uintptr {
	if fd, ok := vfs.FileFD(h.base); ok {
		return fd
	}
	return 0
}

// OSFile exposes the underlying *os.File for mmap (vfs.UnwrapOSFile).
func (h *File) OSFile() *os.File {
	if of, ok := vfs.UnwrapOSFile(h.base); ok {
		return of
	}
	return nil
}

var (
	_ vfs.FS         = (*FS)(nil)
	_ vfs.File       = (*File)(nil)
	_ vfs.FDProvider = (*File)(nil)
)

// ---- CopyDir

// CopyDir copies the tree rooted at src to dst (created; must not contain
// conflicting entries).  Every entry is copied — LOCK files, temp files, empty
// directories, symlinks (as symlinks).  Regular files are copied extent by extent
// (SEEK_DATA/SEEK_HOLE) so sparse / pre-truncated mmap files stay sparse; the
// logical size and the permission bits are preserved.
func CopyDir(src, dst string) error {
	st, err := os.Stat(src)
	if err != nil {
		return err
	}
	if !st.IsDir() {
		return fmt.Errorf("vfsx.CopyDir: %s is not a directory", src)
	}
	if err := os.MkdirAll(dst, st.Mode().Perm()|0o700); err != nil {
		return err
	}
	buf := make([]byte, 256<<10)
	return copyTree(src, dst, buf)
}

func copyTree(src, dst string, buf []byte) error {
	ents, err := os.ReadDir(src)
	if err != nil {
		return err
	}
	for _, e := range ents {
		s, d := filepath.Join(src, e.Name()), filepath.Join(dst, e.Name())
		info, err := e.Info()
		if err != nil {
			return err
		}
		switch {
		case info.Mode()&os.ModeSymlink != 0:
			tgt, err := os.Readlink(s)
			if err != nil {
				return err
			}
			if err := os.Symlink(tgt, d); err != nil {
				return err
			}
		case info.IsDir():
			if err := os.MkdirAll(d, info.Mode().Perm()|0o700); err != nil {
				return err
			}
			if err := copyTree(s, d, buf); err != nil {
				return err
			}
		case info.Mode().IsRegular():
			if err := copyFileSparse(s, d, info.Mode().Perm(), buf); err != nil {
				return err
			}
		default:
			// sockets, fifos, devices: not produced by the engine; refuse silently skipping
			return fmt.Errorf("vfsx.CopyDir: unsupported file type %v at %s", info.Mode().Type(), s)
		}
	}
	return nil
}

const (
	seekData = 3
	seekHole = 4
)

func copyFileSparse(src, dst string, perm os.FileMode, buf []byte) error {
	in, err := os.Open(src)
	if err != nil {
		return err
	}
	defer in.Close()
	out, err := os.OpenFile(dst, os.O_WRONLY|os.O_CREATE|os.O_TRUNC, perm)
	if err != nil {
		return err
	}
	fail := func(err error) error { out.Close(); return err }
	st, err := in.Stat()
	if err != nil {
		return fail(err)
	}
	size := st.Size()
	sparseOK := true
	var off int64
	for off < size {
		start, end := off, size
		if sparseOK {
			s, err := in.Seek(off, seekData)
			if err != nil {
				if errors.Is(err, syscall.ENXIO) {
					break // only a hole remains
				}
				sparseOK = false // filesystem without SEEK_DATA: plain copy from here
			} else {
				start = s
				e, err := in.Seek(start, seekHole)
				if err != nil {
					sparseOK = false
				} else {
					end = e
				}
			}
		}
		if end > size {
			end = size
		}
		for pos := start; pos < end; {
			n := int64(len(buf))
			if end-pos < n {
				n = end - pos
			}
			r, rerr := in.ReadAt(buf[:n], pos)
			if r > 0 {
				if !sparseOK && allZero(buf[:r]) {
					// keep holes when extents are unknown
				} else if _, werr := out.WriteAt(buf[:r], pos); werr != nil {
					return fail(werr)
				}
				pos += int64(r)
			}
			if rerr != nil {
				if rerr == io.EOF {
					// file shrank while copying (not quiescent): copy what exists
					size = pos
					end = pos
					break
				}
				return fail(rerr)
			}
		}
		off = end
	}
	if err := out.Truncate(size); err != nil {
		return fail(err)
	}
	return out.Close()
}

func allZero(b []byte) bool {
	for _, x := range b {
		if x != 0 {
			return false
		}
	}
	return true
}
