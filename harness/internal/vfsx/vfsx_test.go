package vfsx

import (
	"bytes"
	"os"
	"path/filepath"
	"sync"
	"syscall"
	"testing"
	"time"

	"github.com/feichai0017/NoKV/file"
	"github.com/feichai0017/NoKV/utils"
	"github.com/feichai0017/NoKV/vfs"
)

func scratch(t *testing.T) string {
	base := "/dev/shm"
	if st, err := os.Stat(base); err != nil || !st.IsDir() {
		base = ""
	}
	d, err := os.MkdirTemp(base, "vfsx-test-")
	if err != nil {
		t.Fatal(err)
	}
	t.Cleanup(func() { os.RemoveAll(d) })
	return d
}

func TestLogTornAndCapture(t *testing.T) {
	root := scratch(t)
	dir := filepath.Join(root, "work")
	img := filepath.Join(root, "img")
	fs := New(nil)
	type shot struct {
		pt   Point
		data string
		tmp  string
	}
	var shots []shot
	fs.SetPlan(func(rec Rec, data []byte) Action {
		switch rec.Op {
		case vfs.OpFileWrite:
			return Action{Before: true, After: true, Torn: []int{0, 2, 2, 5, len(data), 99}}
		case vfs.OpWriteFile:
			return Action{After: true, Torn: []int{0, 1}}
		}
		return Action{}
	}, func(pt Point) {
		os.RemoveAll(img)
		if err := CopyDir(dir, img); err != nil {
			t.Errorf("copy: %v", err)
		}
		a, _ := os.ReadFile(filepath.Join(img, "a"))
		b, err := os.ReadFile(filepath.Join(img, "b.tmp"))
		s := shot{pt: pt, data: string(a), tmp: string(b)}
		if err != nil {
			s.tmp = "<none>"
		}
		shots = append(shots, s)
	})
	if err := fs.MkdirAll(dir, 0o755); err != nil {
		t.Fatal(err)
	}
	f, err := fs.OpenFileHandle(filepath.Join(dir, "a"), os.O_CREATE|os.O_RDWR, 0o644)
	if err != nil {
		t.Fatal(err)
	}
	fs.AddStarted(1)
	if n, err := f.Write([]byte("0123456")); n != 7 || err != nil {
		t.Fatalf("write: %d %v", n, err)
	}
	fs.AddAcked(1)
	if err := fs.WriteFile(filepath.Join(dir, "b.tmp"), []byte("xy"), 0o600); err != nil {
		t.Fatal(err)
	}
	if err := fs.Rename(filepath.Join(dir, "b.tmp"), filepath.Join(dir, "b")); err != nil {
		t.Fatal(err)
	}
	if err := f.Sync(); err != nil {
		t.Fatal(err)
	}
	if err := f.Close(); err != nil {
		t.Fatal(err)
	}
	want := []struct {
		ph        Phase
		w         int
		data, tmp string
	}{
		{Before, 0, "", "<none>"}, {Torn, 2, "01", "<none>"}, {Torn, 5, "01234", "<none>"}, {After, 0, "0123456", "<none>"},
		{Torn, 0, "0123456", ""}, {Torn, 1, "0123456", "x"}, {After, 0, "0123456", "xy"},
	}
	if len(shots) != len(want) {
		t.Fatalf("got %d captures, want %d: %+v", len(shots), len(want), shots)
	}
	for i, w := range want {
		s := shots[i]
		if s.pt.Phase != w.ph || s.pt.Written != w.w || s.data != w.data || s.tmp != w.tmp || s.pt.Seq != i {
			t.Errorf("capture %d: got %+v, want %+v", i, s, w)
		}
	}
	if shots[0].pt.Started != 1 || shots[0].pt.Acked != 0 || shots[4].pt.Acked != 1 {
		t.Errorf("client counters wrong: %+v", shots)
	}
	log := fs.Log()
	kinds := []vfs.Op{vfs.OpMkdirAll, vfs.OpOpenFile, vfs.OpFileWrite, vfs.OpWriteFile, vfs.OpRename, vfs.OpFileSync, vfs.OpFileClose}
	if len(log) != len(kinds) {
		t.Fatalf("log: %+v", log)
	}
	for i, k := range kinds {
		if log[i].Op != k || log[i].Index != i || !log[i].Done || log[i].Err != "" {
			t.Errorf("log[%d] = %+v, want op %s", i, log[i], k)
		}
	}
	if log[2].Len != 7 || log[3].Len != 2 || log[4].Path2 == "" || !log[2].Mut || log[5].Mut {
		t.Errorf("log fields: %+v", log)
	}
	c := fs.Counters()
	if c.Ops != 7 || c.Captures != 7 || c.TornCaptures != 4 || c.BytesWritten != 9 || c.ByOp[vfs.OpFileWrite] != 1 {
		t.Errorf("counters: %+v", c)
	}
	if _, err := fs.Stat(filepath.Join(dir, "nope")); err == nil {
		t.Fatal("stat of missing file succeeded")
	}
	if l := fs.Log(); l[len(l)-1].Err == "" {
		t.Errorf("error not recorded: %+v", l[len(l)-1])
	}
}

func TestWriteAtTorn(t *testing.T) {
	dir := scratch(t)
	fs := New(nil)
	p := filepath.Join(dir, "f")
	var seen []string
	fs.SetPlan(func(rec Rec, _ []byte) Action {
		if rec.Op == OpFileWriteAt {
			return Action{Torn: []int{1, 3}}
		}
		return Action{}
	}, func(pt Point) {
		b, _ := os.ReadFile(p)
		seen = append(seen, string(b))
	})
	f, err := fs.OpenFileHandle(p, os.O_CREATE|os.O_RDWR, 0o644)
	if err != nil {
		t.Fatal(err)
	}
	if _, err := f.Write([]byte("........")); err != nil {
		t.Fatal(err)
	}
	if n, err := f.WriteAt([]byte("abcd"), 2); n != 4 || err != nil {
		t.Fatal(n, err)
	}
	f.Close()
	b, _ := os.ReadFile(p)
	if string(b) != "..abcd.." || len(seen) != 2 || seen[0] != "..a....." || seen[1] != "..abc..." {
		t.Fatalf("final %q seen %q", b, seen)
	}
}

func TestGate(t *testing.T) {
	dir := scratch(t)
	fs := New(nil)
	target := filepath.Join(dir, "LOCK")
	if err := fs.WriteFile(target, nil, 0o644); err != nil {
		t.Fatal(err)
	}
	g := fs.Gate(func(op vfs.Op, path, _ string) bool { return op == vfs.OpRemove && path == target })
	var wg sync.WaitGroup
	wg.Add(1)
	removed := make(chan struct{})
	go func() {
		defer wg.Done()
		if err := fs.Remove(target); err != nil {
			t.Errorf("remove: %v", err)
		}
		close(removed)
	}()
	if !g.WaitBlocked(1, 5*time.Second) {
		t.Fatal("operation did not park on the gate")
	}
	// other operations proceed and a manual capture works while the op is parked
	if _, err := fs.Stat(target); err != nil {
		t.Fatalf("gated file should still exist: %v", err)
	}
	ran := false
	fs.Quiesce(func() { ran = true })
	select {
	case <-removed:
		t.Fatal("gated operation ran before release")
	case <-time.After(20 * time.Millisecond):
	}
	g.Release()
	wg.Wait()
	if _, err := os.Stat(target); !os.IsNotExist(err) {
		t.Fatalf("file still there: %v", err)
	}
	if !ran || g.Hits() != 1 || fs.Counters().Gated != 1 {
		t.Fatalf("gate stats: ran=%v hits=%d ctr=%+v", ran, g.Hits(), fs.Counters())
	}
	// the log places the Remove after the Stat issued while it was parked
	log := fs.Log()
	if log[len(log)-1].Op != vfs.OpRemove || log[len(log)-2].Op != vfs.OpStat {
		t.Fatalf("log order: %+v", log)
	}
}

func TestCopyDirSparseAndLock(t *testing.T) {
	root := scratch(t)
	src, dst := filepath.Join(root, "s"), filepath.Join(root, "d")
	must := func(err error) {
		t.Helper()
		if err != nil {
			t.Fatal(err)
		}
	}
	must(os.MkdirAll(filepath.Join(src, "vlog", "bucket-000"), 0o755))
	must(os.MkdirAll(filepath.Join(src, "empty"), 0o755))
	must(os.WriteFile(filepath.Join(src, "LOCK"), nil, 0o600))
	must(os.WriteFile(filepath.Join(src, "CURRENT"), []byte("MANIFEST-000001"), 0o644))
	big := filepath.Join(src, "vlog", "bucket-000", "00001.vlog")
	f, err := os.Create(big)
	must(err)
	must(f.Truncate(64 << 20))
	_, err = f.WriteAt([]byte("head"), 0)
	must(err)
	_, err = f.WriteAt([]byte("mid"), 32<<20)
	must(err)
	must(f.Close())
	must(os.Symlink("CURRENT", filepath.Join(src, "link")))
	must(CopyDir(src, dst))
	for _, rel := range []string{"LOCK", "CURRENT", "empty", "vlog/bucket-000/00001.vlog", "link"} {
		if _, err := os.Lstat(filepath.Join(dst, rel)); err != nil {
			t.Errorf("missing %s: %v", rel, err)
		}
	}
	a, _ := os.ReadFile(big)
	b, _ := os.ReadFile(filepath.Join(dst, "vlog", "bucket-000", "00001.vlog"))
	if !bytes.Equal(a, b) || len(b) != 64<<20 {
		t.Fatalf("sparse file content differs (len %d vs %d)", len(a), len(b))
	}
	var st syscall.Stat_t
	must(syscall.Stat(filepath.Join(dst, "vlog", "bucket-000", "00001.vlog"), &st))
	if st.Blocks*512 > 4<<20 {
		t.Errorf("copy is not sparse: %d bytes allocated", st.Blocks*512)
	}
	if fi, _ := os.Stat(filepath.Join(dst, "LOCK")); fi.Mode().Perm() != 0o600 {
		t.Errorf("mode not preserved: %v", fi.Mode())
	}
}

// The repository's mmap and dir-lock code must accept the shim's handles.
func TestRepoMmapAndDirLockThroughShim(t *testing.T) {
	dir := scratch(t)
	fs := New(nil)
	mf, err := file.OpenMmapFile(fs, filepath.Join(dir, "m.sst"), os.O_CREATE|os.O_RDWR, 1<<16)
	if err != nil && mf == nil {
		t.Fatalf("OpenMmapFile through shim: %v", err)
	}
	copy(mf.Data, "hello")
	if err := mf.Sync(); err != nil {
		t.Fatal(err)
	}
	img := filepath.Join(dir, "..", filepath.Base(dir)+"-img")
	defer os.RemoveAll(img)
	fs.Quiesce(func() {
		if err := CopyDir(dir, img); err != nil {
			t.Error(err)
		}
	})
	b, _ := os.ReadFile(filepath.Join(img, "m.sst"))
	if len(b) != 1<<16 || string(b[:5]) != "hello" {
		t.Fatalf("mmap store not visible in copy: len %d %q", len(b), b[:5])
	}
	if err := mf.Close(); err != nil {
		t.Fatal(err)
	}
	l, err := utils.AcquireDirLock(dir, fs)
	if err != nil {
		t.Fatalf("dirlock through shim: %v", err)
	}
	if _, err := utils.AcquireDirLock(dir, fs); err == nil {
		t.Fatal("second lock acquisition succeeded")
	}
	if err := l.Release(); err != nil {
		t.Fatal(err)
	}
}
