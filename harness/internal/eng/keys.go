package eng

import (
	"bytes"
	"encoding/binary"
	"math"

	"pgregory.net/rapid"
)

var segs = [][]byte{[]byte("a"), []byte("b"), []byte("ab"), []byte("abc"), {'a', 0}, {'a', 0xff}, {0xff}, {0}}

// GenUserKey draws a user key from the structured alphabet (prefix relations and
// boundary bytes are frequent by construction), occasionally arbitrary or long.
func GenUserKey(t *rapid.T) []byte {
	switch k := rapid.IntRange(0, 99).Draw(t, "kclass"); {
	case k < 88:
		n := rapid.IntRange(1, 3).Draw(t, "nseg")
		var out []byte
		for i := 0; i < n; i++ {
			out = append(out, segs[rapid.IntRange(0, len(segs)-1).Draw(t, "seg")]...)
		}
		return out
	case k < 98:
		return rapid.SliceOfN(rapid.Byte(), 1, 40).Draw(t, "kbytes")
	default:
		n := rapid.IntRange(200, 2048).Draw(t, "klen")
		b := byte(rapid.IntRange(0, 255).Draw(t, "kfill"))
		return bytes.Repeat([]byte{b}, n)
	}
}

// KeyPool draws n distinct user keys.
func KeyPool(t *rapid.T, min, max int) [][]byte {
	n := rapid.IntRange(min, max).Draw(t, "nkeys")
	seen := map[string]bool{}
	var out [][]byte
	for tries := 0; len(out) < n && tries < 10*n+10; tries++ {
		k := GenUserKey(t)
		if IsReserved(k) || seen[string(k)] {
			continue
		}
		seen[string(k)] = true
		out = append(out, k)
	}
	if len(out) == 0 {
		out = append(out, []byte("a"))
	}
	return out
}

// IsReserved reports keys in the engine's own namespace (never generated, filtered from scans).
func IsReserved(k []byte) bool { return bytes.HasPrefix(k, []byte("!NoKV!")) }

// Value builds a value of the given length whose content identifies the writing operation.
func Value(tag int, n int) []byte {
	if n <= 0 {
		return []byte{}
	}
	out := make([]byte, n)
	var hdr [8]byte
	binary.BigEndian.PutUint64(hdr[:], uint64(tag)+1)
	for i := range out {
		out[i] = hdr[4+i%4] ^ byte(i/4)
	}
	return out
}

// ValueSizes are size classes relative to a threshold of 32 and 8 KiB blocks.
var ValueSizes = []int{0, 1, 31, 32, 33, 100, 1000, 9000, 30000}

// GenValueSize draws a value size; big values are rarer.
func GenValueSize(t *rapid.T) int {
	return rapid.SampledFrom([]int{0, 1, 1, 31, 32, 33, 33, 100, 100, 1000, 9000, 30000}).Draw(t, "vsize")
}

// Versions is the small/edge version domain.
var Versions = []uint64{0, 1, 2, 3, 4, 5, 7, 9, math.MaxUint64 - 1, math.MaxUint64}

// CompareInternal is the engine-independent reference order: cf and user key ascending, version descending.
func CompareInternal(cf1 byte, k1 []byte, v1 uint64, cf2 byte, k2 []byte, v2 uint64) int {
	if cf1 != cf2 {
		if cf1 < cf2 {
			return -1
		}
		return 1
	}
	if c := bytes.Compare(k1, k2); c != 0 {
		return c
	}
	switch {
	case v1 > v2:
		return -1
	case v1 < v2:
		return 1
	}
	return 0
}
