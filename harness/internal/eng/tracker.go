package eng

import (
	"fmt"
	"math"
	"os"
	"sort"

	"github.com/feichai0017/NoKV/kv"
	"github.com/feichai0017/NoKV/lsm"
	"github.com/feichai0017/NoKV/utils"
)

// Tracker mirrors, from the outside, which SST holds a copy of which (cf,key)
// base key. It exists only to implement the exclusion-by-construction of the
// open finding "equal internal keys in two ingest-buffer tables" (C01-F1c): reads
// of keys whose two shallowest copies sit in the same ingest buffer (or whose
// copy was produced by merging two such tables) are *tainted* and judged only for
// membership in the key's write history. It is never used as an oracle.
//
// It relies on maintenance being synchronous: SSTs appear only through the
// harness' own rotate+flush and compaction steps. Anything unexpected flips
// Unknown, which taints every multi-copy key (conservative).
type Tracker struct {
	mem      map[string]bool
	memSeq   map[string]int // write sequence of the copy held by the memtable
	newest   map[string]int // write sequence of the newest copy of a key anywhere
	writes   map[string]int // number of writes ever made to the key
	clock    int
	memMaybe map[string]bool
	tabs    map[uint64]*ttab
	Unknown bool
}

type ttab struct {
	seq      map[string]int // write sequence of the copy this table holds
	keys     map[string]bool
	poisoned map[string]bool
	level    int
	ingest   bool
}

// NewTracker returns an empty tracker.
func NewTracker() *Tracker {
	return &Tracker{mem: map[string]bool{}, memSeq: map[string]int{}, newest: map[string]int{}, writes: map[string]int{}, tabs: map[uint64]*ttab{}}
}

// BaseKey is the identity of a plain-API key (sentinel version) used by the tracker.
func BaseKey(cf byte, key []byte) string { return IKey(cf, key, math.MaxUint64) }

// IKey is the tracker identity of one internal key (cf, user key, version).
func IKey(cf byte, key []byte, ver uint64) string {
	return string(kv.InternalKey(kv.ColumnFamily(cf), key, ver))
}

// Wrote records a write of base key k into the active memtable.
func (t *Tracker) Wrote(k string) {
	t.clock++
	t.mem[k] = true
	t.memSeq[k] = t.clock
	t.newest[k] = t.clock
	t.writes[k]++
	delete(t.memMaybe, k)
}

// Sync updates the tracker from the table layout after a maintenance step.
// flushed=true means the step was rotate+flush (the memtable content became the new L0 table).
func (t *Tracker) Sync(layout []lsm.VerifTableInfo, flushed bool) {
	cur := map[uint64]lsm.VerifTableInfo{}
	for _, ti := range layout {
		cur[ti.FID] = ti
	}
	var added []lsm.VerifTableInfo
	for fid, ti := range cur {
		if tb, ok := t.tabs[fid]; ok {
			tb.level, tb.ingest = ti.Level, ti.Ingest
		} else {
			added = append(added, ti)
		}
	}
	var gone []*ttab
	for fid, tb := range t.tabs {
		if _, ok := cur[fid]; !ok {
			gone = append(gone, tb)
			delete(t.tabs, fid)
		}
	}
	sort.Slice(added, func(i, j int) bool { return added[i].FID < added[j].FID })
	switch {
	case flushed:
		if len(gone) != 0 || len(added) > 1 {
			t.Unknown = true
		}
		for _, ti := range added {
			nt := &ttab{keys: map[string]bool{}, seq: map[string]int{}, poisoned: map[string]bool{}, level: ti.Level, ingest: ti.Ingest}
			for k := range t.memMaybe {
				nt.keys[k] = false
				nt.seq[k] = t.newest[k] // GC re-inserts the copy the engine currently serves; assumed to be the newest
			}
			for k := range t.mem {
				nt.keys[k] = true
				nt.seq[k] = t.memSeq[k]
			}
			t.tabs[ti.FID] = nt
		}
		t.mem = map[string]bool{}
		t.memSeq = map[string]int{}
		t.memMaybe = nil
	case len(added) == 0 && len(gone) > 0:
		// tables vanished without outputs (seen after reopen: an ingest merge had folded a main
		// table into its outputs but kept it listed in memory): their keys may live in any table
		// of the same level whose range covers them
		for _, g := range gone {
			for k := range g.keys {
				homed := false
				for fid, tb := range t.tabs {
					ti := cur[fid]
					if tb.level == g.level && utils.CompareKeys([]byte(k), ti.Min) >= 0 && utils.CompareKeys([]byte(k), ti.Max) <= 0 {
						if _, ok := tb.keys[k]; !ok {
							tb.keys[k] = false
							tb.seq[k] = g.seq[k]
						}
						if g.poisoned[k] {
							tb.poisoned[k] = true // the folded copy may already be the wrong one
						}
						homed = true
					}
				}
				if !homed {
					t.Unknown = true
				}
			}
		}
	case len(added) == 0 && len(gone) == 0:
		// pure move (L0 -> ingest buffer) or nothing
	case len(gone) == 0:
		t.Unknown = true // tables appeared without inputs: not a step we placed
		for _, ti := range added {
			t.tabs[ti.FID] = &ttab{keys: map[string]bool{}, seq: map[string]int{}, poisoned: map[string]bool{}, level: ti.Level, ingest: ti.Ingest}
		}
	default:
		// compaction: outputs partition the union of the inputs by key range
		union := map[string]int{}    // key -> number of ingest-buffer inputs holding it
		present := map[string]bool{} // key -> in any input
		poisoned := map[string]bool{}
		maxSeq := map[string]int{}
		for _, g := range gone {
			for k, sq := range g.seq {
				if sq > maxSeq[k] {
					maxSeq[k] = sq
				}
			}
			for k, sure := range g.keys {
				present[k] = present[k] || sure
				if g.ingest {
					union[k]++
				}
				if g.poisoned[k] {
					poisoned[k] = true
				}
			}
		}
		goneSeq := map[string]int{}
		for k, sq := range maxSeq {
			goneSeq[k] = sq
		}
		for _, ti := range added {
			for _, tb := range t.tabs {
				if tb.level == ti.Level && !tb.ingest {
					// an ingest merge may fold main-run tables of the level into its outputs
					for k, sq := range tb.seq {
						if _, ok := present[k]; !ok {
							present[k] = false
						}
						if sq > maxSeq[k] {
							maxSeq[k] = sq
						}
						if tb.poisoned[k] {
							poisoned[k] = true
						}
						if gs, ok := goneSeq[k]; ok && sq > gs {
							// the main run holds a NEWER copy than the ingest inputs (partial-drain
							// inversion, listed): the merge prefers the ingest copy
							poisoned[k] = true
						}
					}
				}
			}
		}
		outs := make([]*ttab, len(added))
		for i, ti := range added {
			outs[i] = &ttab{keys: map[string]bool{}, seq: map[string]int{}, poisoned: map[string]bool{}, level: ti.Level, ingest: ti.Ingest}
			t.tabs[ti.FID] = outs[i]
		}
		for k := range present {
			placed := false
			for i, ti := range added {
				if utils.CompareKeys([]byte(k), ti.Min) >= 0 && utils.CompareKeys([]byte(k), ti.Max) <= 0 {
					outs[i].keys[k] = present[k]
					outs[i].seq[k] = maxSeq[k] // a correct merge keeps the newest input copy
					if union[k] >= 2 || poisoned[k] {
						outs[i].poisoned[k] = true
					}
					placed = true
				}
			}
			if !placed && present[k] {
				t.Unknown = true
				if os.Getenv("VERIF_TRACE") != "" {
					fmt.Printf("TRACE tracker: key %q of the inputs fits no output table:", k)
					for _, ti := range added {
						fmt.Printf(" fid=%d[%q..%q]", ti.FID, ti.Min, ti.Max)
					}
					fmt.Println()
				}
			}
		}
	}
}

// MaybeRewrote records that value-log GC may have re-inserted the given base keys
// into the active memtable (same value, same version).
func (t *Tracker) MaybeRewrote(keys []string) {
	for _, k := range keys {
		if !t.mem[k] {
			if t.memMaybe == nil {
				t.memMaybe = map[string]bool{}
			}
			t.memMaybe[k] = true
		}
	}
}

// Tainted reports whether a read of base key k may legitimately (given the open
// finding) return an older copy. Table membership is tracked as sure (true) or maybe
// (false, after a GC rewrite); groups are walked shallowest first until one with a
// sure copy has been examined.
func (t *Tracker) Tainted(k string) bool {
	if t.mem[k] {
		return false
	}
	type pos struct {
		level  int
		ingest bool
	}
	groups := map[pos][]*ttab{}
	n := 0
	for _, tb := range t.tabs {
		if _, ok := tb.keys[k]; ok {
			n++
			p := pos{tb.level, tb.ingest}
			if tb.level == 0 {
				p.ingest = false
			}
			groups[p] = append(groups[p], tb)
		}
	}
	if t.Unknown && t.writes[k] >= 2 {
		return true // layout no longer understood: every key that ever had two copies is suspect
	}
	var ps []pos
	for p := range groups {
		ps = append(ps, p)
	}
	sort.Slice(ps, func(i, j int) bool {
		if ps[i].level != ps[j].level {
			return ps[i].level < ps[j].level
		}
		return ps[i].ingest && !ps[j].ingest
	})
	for _, p := range ps {
		tbs := groups[p]
		sure := false
		for _, tb := range tbs {
			if tb.poisoned[k] {
				return true
			}
			if tb.keys[k] {
				sure = true
			}
		}
		if p.level > 0 && p.ingest && len(tbs) >= 2 {
			return true
		}
		if sure {
			// the copy served from this group must be the newest one anywhere: a partial drain
			// can move a newer table into the main run while an older one stays in the ingest
			// buffer, which is searched first (same listed finding)
			best := 0
			for _, tb := range tbs {
				if tb.keys[k] && tb.seq[k] > best {
					best = tb.seq[k]
				}
			}
			if best >= t.newest[k] {
				return false
			}
			// The newest copy is somewhere else.  The listed inversions keep it in the SAME
			// level (partial drain: main run vs ingest buffer) or are not understood (maybe
			// copies).  A newest copy that sits, for sure, in a DEEPER level while an older one
			// is served from a shallower level is no listed finding: such a read is judged.
			deeper, elsewhere := false, false
			for _, tb := range t.tabs {
				if _, has := tb.keys[k]; !has || tb.seq[k] != t.newest[k] {
					continue
				}
				if tb.keys[k] && tb.level > p.level {
					deeper = true
				} else {
					elsewhere = true
				}
			}
			return !deeper || elsewhere
		}
	}
	return false
}

// Describe lists what the tracker believes about base key k (debugging aid, VERIF_TRACE).
func (t *Tracker) Describe(k string) string {
	out := fmt.Sprintf("newest=%d writes=%d mem=%v memMaybe=%v unknown=%v;", t.newest[k], t.writes[k], t.mem[k], t.memMaybe[k], t.Unknown)
	var fids []uint64
	for fid := range t.tabs {
		fids = append(fids, fid)
	}
	sort.Slice(fids, func(i, j int) bool { return fids[i] < fids[j] })
	for _, fid := range fids {
		tb := t.tabs[fid]
		if sure, ok := tb.keys[k]; ok {
			out += fmt.Sprintf(" fid=%d L%d ingest=%v sure=%v seq=%d poisoned=%v;", fid, tb.level, tb.ingest, sure, tb.seq[k], tb.poisoned[k])
		}
	}
	return out
}
