package eng

import (
	"testing"
	"time"

	"nokvverif/internal/pbt"
)

func TestOpenCloseCost(t *testing.T) {
	dir, cl := pbt.TempDir("b")
	defer cl()
	c := Cfg{Engine: "skiplist", ValueThreshold: 32, Buckets: 1, VlogFileSize: 1 << 20, MemTableSize: 8 << 20}
	for i := 0; i < 5; i++ {
		t0 := time.Now()
		db, err := Open(c, dir, nil)
		if err != nil {
			t.Fatal(err)
		}
		t1 := time.Now()
		_ = db.Set([]byte("a"), []byte("b"))
		t2 := time.Now()
		_ = Close(db)
		t.Logf("open %v set %v close %v", t1.Sub(t0), t2.Sub(t1), time.Since(t2))
	}
}
