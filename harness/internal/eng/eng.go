// Package eng holds helpers shared by the engine-level checks: option sets,
// open/close with panic capture, generated maintenance steps and key/value generators.
package eng

import (
	"errors"
	"fmt"
	"time"

	NoKV "github.com/feichai0017/NoKV"
	"github.com/feichai0017/NoKV/lsm/compact"
	"github.com/feichai0017/NoKV/utils"
	"github.com/feichai0017/NoKV/vfs"
	"nokvverif/internal/pbt"
	"pgregory.net/rapid"
)

// Cfg is the generated configuration of one database (plain data).
type Cfg struct {
	Engine          string // "skiplist" | "art"
	ValueThreshold  int64
	Buckets         int
	VlogFileSize    int
	SyncWrites      bool
	ManifestRewrite int64
	DetectConflicts bool
	MemTableSize    int64
	SmallLevels     bool // spread tiny data over several levels (lsm.Options level sizing)
	MaxBatchCount   int64
	MaxBatchSize    int64
	HotKeyLimit     int32
	L0Tables        int
	// HotBuckets > 0 enables hot/cold value-log bucket routing (HotRing on, that many
	// hot buckets, a key becomes hot after HotAfter writes).
	HotBuckets int
	HotAfter   int32
}

// GenCfg draws a configuration.
func GenCfg(t *rapid.T) Cfg {
	c := Cfg{
		Engine:          rapid.SampledFrom([]string{"skiplist", "art"}).Draw(t, "engine"),
		ValueThreshold:  rapid.SampledFrom([]int64{32, 1 << 20}).Draw(t, "threshold"),
		Buckets:         rapid.SampledFrom([]int{1, 2, 3}).Draw(t, "buckets"),
		VlogFileSize:    rapid.SampledFrom([]int{64 << 10, 256 << 10, 1 << 20}).Draw(t, "vlogsize"),
		ManifestRewrite: rapid.SampledFrom([]int64{0, 256, 4096}).Draw(t, "mrewrite"),
		SmallLevels:     rapid.Bool().Draw(t, "smallLevels"),
		MemTableSize:    1 << 20,
		L0Tables:        1000,
	}
	return c
}

// Options builds NoKV options for dir. Background work that is not placed by the
// generated history is switched off (GC ticker, WAL watchdog, hot-ring features).
func (c Cfg) Options(dir string, fs vfs.FS) *NoKV.Options {
	o := NoKV.NewDefaultOptions()
	o.FS = fs
	o.WorkDir = dir
	o.MemTableSize = c.MemTableSize
	if o.MemTableSize == 0 {
		o.MemTableSize = 1 << 20
	}
	o.MemTableEngine = NoKV.MemTableEngine(c.Engine)
	if c.Engine == "" {
		o.MemTableEngine = NoKV.MemTableEngineSkiplist
	}
	o.SSTableMaxSz = 8 << 20
	o.ValueThreshold = c.ValueThreshold
	if o.ValueThreshold == 0 {
		o.ValueThreshold = 1 << 20
	}
	o.ValueLogFileSize = c.VlogFileSize
	if o.ValueLogFileSize == 0 {
		o.ValueLogFileSize = 1 << 20
	}
	o.ValueLogBucketCount = c.Buckets
	if o.ValueLogBucketCount == 0 {
		o.ValueLogBucketCount = 1
	}
	o.ValueLogHotBucketCount = 0
	o.ValueLogHotKeyThreshold = 0
	o.ValueLogGCInterval = 0
	o.ValueLogMaxEntries = 100000
	o.HotRingEnabled = false
	o.ValueLogHotRingOverride = false
	if c.HotBuckets > 0 && o.ValueLogBucketCount > 1 {
		// hot/cold routing as in the default options, with a small hotness threshold
		o.HotRingEnabled = true
		o.HotRingRotationInterval = 0
		o.ValueLogHotRingOverride = true
		o.ValueLogHotRingRotationInterval = 0
		o.ValueLogHotRingWindowSlots = 0
		o.HotRingWindowSlots = 0
		o.ValueLogHotBucketCount = c.HotBuckets
		o.ValueLogHotKeyThreshold = c.HotAfter
		if o.ValueLogHotKeyThreshold <= 0 {
			o.ValueLogHotKeyThreshold = 2
		}
	}
	o.WriteHotKeyLimit = c.HotKeyLimit
	o.HotWriteBurstThreshold = 0
	o.EnableWALWatchdog = false
	o.SyncWrites = c.SyncWrites
	o.ManifestSync = c.SyncWrites
	o.ManifestRewriteThreshold = c.ManifestRewrite
	o.DetectConflicts = c.DetectConflicts
	o.NumCompactors = 1
	o.NumLevelZeroTables = c.L0Tables
	if o.NumLevelZeroTables == 0 {
		o.NumLevelZeroTables = 1000
	}
	o.BlockCacheSize = 64
	o.BloomCacheSize = 64
	o.WriteBatchWait = 0
	if c.MaxBatchCount > 0 {
		o.MaxBatchCount = c.MaxBatchCount
	} else {
		o.MaxBatchCount = 10000
	}
	if c.MaxBatchSize > 0 {
		o.MaxBatchSize = c.MaxBatchSize
	} else {
		o.MaxBatchSize = 16 << 20
	}
	return o
}

// Open opens a DB converting the engine's open-time panics into errors.
func Open(c Cfg, dir string, fs vfs.FS) (db *NoKV.DB, err error) {
	defer func() {
		if p := recover(); p != nil {
			db, err = nil, fmt.Errorf("Open panicked: %v", p)
		}
	}()
	compact.VerifPause.Store(true)
	db = NoKV.Open(c.Options(dir, fs))
	if c.SmallLevels {
		db.VerifLSM().VerifSetLevelSizing(64<<10, 16<<10, 2, 2)
	}
	return db, nil
}

// Close closes a DB converting panics into errors.
func Close(db *NoKV.DB) (err error) {
	defer func() {
		if p := recover(); p != nil {
			err = fmt.Errorf("Close panicked: %v", p)
		}
	}()
	return db.Close()
}

// Maint is one generated maintenance step.
type Maint struct {
	Kind string // rotate | compact | once | l0l0 | gc | rewrite | reopen
	A, B int
}

// MaintKinds lists the kinds GenMaint draws from.
var MaintKinds = []string{"rotate", "rotate", "compact", "drain", "drain", "once", "l0l0", "rewrite", "gc"}

// GenMaint draws a maintenance step (without reopen; reopen is a history-level op).
func GenMaint(t *rapid.T) Maint {
	return Maint{
		Kind: rapid.SampledFrom(MaintKinds).Draw(t, "mkind"),
		A:    rapid.IntRange(0, 7).Draw(t, "ma"),
		B:    rapid.IntRange(0, 7).Draw(t, "mb"),
	}
}

// DoMaint executes a maintenance step synchronously. It returns a label describing what
// actually happened ("" when nothing could be done) and an error only for unexpected failures.
func DoMaint(db *NoKV.DB, m Maint, r *pbt.Rec) (string, error) {
	l := db.VerifLSM()
	switch m.Kind {
	case "rotate":
		l.Rotate()
		if !l.VerifWaitFlush(20 * time.Second) {
			return "", errors.New("flush did not finish within 20s")
		}
		r.Label("maint:flush")
		return "flush", nil
	case "rotate-async":
		// seal the memtable without waiting: several flushes may be pending at once
		l.Rotate()
		r.Label("maint:rotate-async")
		return "rotate-async", nil
	case "waitflush":
		if !l.VerifWaitFlush(20 * time.Second) {
			return "", errors.New("flush did not finish within 20s")
		}
		return "", nil
	case "drain":
		// layout-aware: compact whatever is there - L0 first, else drain/merge the first
		// level that has ingest tables, else a regular compaction of the first non-empty level
		lay := l.VerifLayout()
		level, mode := -1, 0
		for _, ti := range lay {
			if ti.Level == 0 {
				level, mode = 0, 0
				break
			}
		}
		if level < 0 {
			for _, ti := range lay {
				if ti.Ingest {
					level, mode = ti.Level, 1+m.B%2
					break
				}
			}
		}
		if level < 0 {
			for _, ti := range lay {
				if ti.Level < 6 {
					level, mode = ti.Level, 0
					break
				}
			}
		}
		if level < 0 {
			return "", nil
		}
		err := l.VerifCompact(level, mode)
		if err == nil {
			lab := fmt.Sprintf("compact:L%d/mode%d", level, mode)
			r.Label("maint:" + lab)
			return lab, nil
		}
		if errors.Is(err, utils.ErrFillTables) {
			return "", nil
		}
		return "", fmt.Errorf("compaction L%d mode %d failed: %v", level, mode, err)
	case "compact":
		// A selects the level (0..6), B the ingest mode.
		level := m.A % 7
		mode := m.B % 3
		if level == 0 {
			mode = 0
		}
		err := l.VerifCompact(level, mode)
		if err == nil {
			lab := fmt.Sprintf("compact:L%d/mode%d", level, mode)
			r.Label("maint:" + lab)
			return lab, nil
		}
		if errors.Is(err, utils.ErrFillTables) {
			return "", nil
		}
		return "", fmt.Errorf("compaction L%d mode %d failed: %v", level, mode, err)
	case "once":
		if l.VerifCompactOnce() {
			r.Label("maint:compact-natural")
			return "compact-natural", nil
		}
		return "", nil
	case "l0l0":
		l.VerifAgeTables(time.Minute)
		err := l.VerifCompactL0ToL0()
		if err == nil {
			r.Label("maint:compact:L0toL0")
			return "compact:L0toL0", nil
		}
		if errors.Is(err, utils.ErrFillTables) {
			return "", nil
		}
		return "", fmt.Errorf("L0->L0 compaction failed: %v", err)
	case "rewrite":
		files, active := db.VerifVlogFiles()
		if len(files) == 0 {
			return "", nil
		}
		b := uint32(m.A % len(files))
		var cand []uint32
		for _, f := range files[b] {
			if f < active[b] {
				cand = append(cand, f)
			}
		}
		if len(cand) == 0 {
			return "", nil
		}
		fid := cand[m.B%len(cand)]
		err := db.VerifRewriteVlog(b, fid)
		if err == nil {
			r.Label("maint:vlog-rewrite")
			return fmt.Sprintf("vlog-rewrite:b%d/f%d", b, fid), nil
		}
		if errors.Is(err, utils.ErrNoRewrite) || errors.Is(err, utils.ErrRejected) {
			return "", nil
		}
		if errors.Is(err, utils.ErrEmptyKey) {
			// Observed on the pinned tree: rewrite re-inserts the live entries, then reads
			// wb[len-1].Key after the write pipeline has released the pooled entries and
			// fails with ErrEmptyKey before deleting the file (RunValueLogGC swallows this
			// error). The live entries were moved, the old file stays: not a violation of any
			// listed property, so it is only counted.
			r.Label("maint:vlog-rewrite-incomplete")
			return fmt.Sprintf("vlog-rewrite-incomplete:b%d/f%d", b, fid), nil
		}
		return "", fmt.Errorf("vlog rewrite b%d f%d failed: %v", b, fid, err)
	case "gc":
		ratio := []float64{0.01, 0.5, 0.99}[m.A%3]
		err := db.RunValueLogGC(ratio)
		if err == nil {
			r.Label("maint:vlog-gc")
			return "vlog-gc", nil
		}
		if errors.Is(err, utils.ErrNoRewrite) || errors.Is(err, utils.ErrRejected) {
			return "", nil
		}
		// Any other error (observed on the pinned tree: ErrKeyNotFound when a sampled
		// entry's key has been deleted) only means this GC round did nothing; no listed
		// property is about GC succeeding, so it is counted, not judged.
		r.Label("maint:vlog-gc-error")
		return "", nil
	}
	return "", fmt.Errorf("unknown maintenance kind %q", m.Kind)
}
