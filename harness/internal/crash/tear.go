package crash

// Torn memory-mapped value-log records.
//
// Value-log records are written with copy() into a shared file mapping
// (file.MmapFile.AppendBuffer); the vfsx shim cannot see those stores, and a kill -9
// (or page-granular write-back) can leave ANY subset of the bytes of the record that was
// being written when the process died: memmove does not store front to back, and a record
// that spans two pages can have its second page on disk without the first.  DriveTear
// constructs those states deterministically: the image before operation i (everything the
// shim and the page cache hold at the call boundary) plus a generated part of the bytes
// operation i added to each value-log file.  The WAL in the image does not contain
// operation i (the value log is written first), so the image is "operation i in flight".

import (
	"fmt"
	"io/fs"
	"os"
	"path/filepath"
	"sort"
	"strings"

	"nokvverif/internal/eng"
	"nokvverif/internal/pbt"
	"nokvverif/internal/vfsx"
	"pgregory.net/rapid"
)

const vlogHeader = 20 // kv.ValueLogHeaderSize

func vlogFiles(dir string) (map[string][]byte, error) {
	out := map[string][]byte{}
	err := filepath.WalkDir(dir, func(p string, d fs.DirEntry, err error) error {
		if err != nil {
			return err
		}
		if d.Type().IsRegular() && strings.HasSuffix(p, ".vlog") {
			b, rerr := os.ReadFile(p)
			if rerr != nil {
				return rerr
			}
			rel, _ := filepath.Rel(dir, p)
			out[rel] = b
		}
		return nil
	})
	return out, err
}

// diffRegion returns [a,b): the smallest range outside of which old and new agree
// (new may be longer; the missing part of old counts as zeros).
func diffRegion(old, new []byte) (int, int) {
	at := func(x []byte, i int) byte {
		if i < len(x) {
			return x[i]
		}
		return 0
	}
	n := len(new)
	if len(old) > n {
		n = len(old)
	}
	a := 0
	for a < n && at(old, a) == at(new, a) {
		a++
	}
	if a == n {
		return 0, 0
	}
	b := n
	for b > a && at(old, b-1) == at(new, b-1) {
		b--
	}
	return a, b
}

// DriveTear runs the workload and builds torn-mapping images for every operation that
// appended to a value-log file.  c.Tear lists the tears tried per such operation:
// k > 0: the first k bytes of the appended region are missing (zero), the rest is there;
// k < 0: only the first -k bytes are there; k == 0: everything up to the next 4096-byte
// boundary of the file is missing, the rest is there (page-granular write-back).
// Values are reduced modulo the region length.
func DriveTear(c Case, dir, imgRoot string, r *pbt.Rec) (res *Result, err error) {
	res = &Result{cfg: c.Cfg, c: c}
	// the shim is only used to block background file operations (flush, manifest rewrite) while copying
	shim := vfsx.New(nil)
	shim.KeepLog(false)
	db, err := eng.Open(c.Cfg, dir, shim)
	if err != nil {
		return res, pbt.Failf("open", "fresh directory: %v", err)
	}
	closed := false
	defer func() {
		if !closed {
			_ = eng.Close(db)
		}
	}()
	cur := state{}
	res.States = append(res.States, cur.clone())
	for i, op := range c.Ops {
		before := filepath.Join(imgRoot, fmt.Sprintf("before-%04d", i))
		var old map[string][]byte
		writes := op.K == "set" || op.K == "txn"
		if writes {
			var e error
			shim.Quiesce(func() { e = vfsx.CopyDir(dir, before) })
			if e != nil {
				return res, fmt.Errorf("harness: copy: %v", e)
			}
			if old, err = vlogFiles(before); err != nil {
				return res, fmt.Errorf("harness: %v", err)
			}
		}
		if aerr := applyOp(c, db, i, op, cur, r); aerr != nil {
			return res, aerr
		}
		res.States = append(res.States, cur.clone())
		res.Ops = i + 1
		if !writes {
			continue
		}
		var now map[string][]byte
		var verr error
		shim.Quiesce(func() { now, verr = vlogFiles(dir) })
		if verr != nil {
			return res, fmt.Errorf("harness: %v", verr)
		}
		made := 0
		rels := make([]string, 0, len(now))
		for rel := range now {
			rels = append(rels, rel)
		}
		sort.Strings(rels)
		for _, rel := range rels {
			nb := now[rel]
			ob, existed := old[rel]
			if !existed {
				r.Label("tear:new-vlog-file(skipped)")
				continue
			}
			a, b := diffRegion(ob, nb)
			if b-a < 2 {
				continue
			}
			for _, k := range c.Tear {
				if len(res.Images) >= 200 {
					break
				}
				n := b - a
				lo, hi := a, b // bytes of the new content present in the image
				what := ""
				switch {
				case k > 0:
					kk := 1 + (k-1)%(n-1)
					lo = a + kk
					what = fmt.Sprintf("first %d of %d appended bytes missing", kk, n)
				case k < 0:
					kk := 1 + (-k-1)%(n-1)
					hi = a + kk
					what = fmt.Sprintf("only the first %d of %d appended bytes present", kk, n)
				default:
					lo = (a/4096 + 1) * 4096
					if lo >= b {
						continue
					}
					what = fmt.Sprintf("page holding the first %d of %d appended bytes missing", lo-a, n)
				}
				img := filepath.Join(imgRoot, fmt.Sprintf("img-%04d", len(res.Images)))
				if e := vfsx.CopyDir(before, img); e != nil {
					return res, fmt.Errorf("harness: copy: %v", e)
				}
				f, e := os.OpenFile(filepath.Join(img, rel), os.O_RDWR, 0)
				if e != nil {
					return res, fmt.Errorf("harness: %v", e)
				}
				if st, _ := f.Stat(); st != nil && st.Size() < int64(hi) {
					_ = f.Truncate(int64(len(nb)))
				}
				_, e = f.WriteAt(nb[lo:hi], int64(lo))
				_ = f.Close()
				if e != nil {
					return res, fmt.Errorf("harness: %v", e)
				}
				cls := "vlog:mmap-tear"
				if lo > a {
					cls += "-head-missing"
					if a == vlogHeader {
						cls += "-first-record"
					}
				}
				if a/4096 != (b-1)/4096 {
					cls += "-spans-pages"
				}
				res.Images = append(res.Images, Image{Dir: img, Started: i + 1, Acked: i,
					Where: fmt.Sprintf("client op %d (%s) in flight: %s appended [%d,%d), %s; WAL/manifest/SSTs as before the operation", i, op.K, rel, a, b, what),
					Class: cls + "@" + op.K, Torn: true})
				made++
			}
		}
		if made > 0 {
			r.Label("tear:op-with-images")
		}
		_ = os.RemoveAll(before)
	}
	closed = true
	if cerr := eng.Close(db); cerr != nil {
		return res, pbt.Failf("close", "Close failed: %v", cerr)
	}
	return res, nil
}

// GenTear draws a value-log heavy workload with synchronous writes plus the tears to try
// on every value-log append.
func GenTear(t *rapid.T, p Profile) Case {
	p.Sync = "on"
	c := Gen(t, p)
	c.Cfg.ValueThreshold = 32
	if c.Cfg.Buckets < 1 {
		c.Cfg.Buckets = 1
	}
	c.Cfg.VlogFileSize = rapid.SampledFrom([]int{64 << 10, 64 << 10, 1 << 20}).Draw(t, "tearVlogSize")
	// make sure some operations carry separated values
	big := []int{33, 100, 1000, 5000, 9000, 30000}
	for i := range c.Ops {
		for j := range c.Ops[i].Ws {
			w := &c.Ops[i].Ws[j]
			if !w.Del && w.VSize < 33 && rapid.Bool().Draw(t, "tearBig") {
				w.VSize = rapid.SampledFrom(big).Draw(t, "tearSize")
			}
		}
	}
	n := rapid.IntRange(2, 4).Draw(t, "ntear")
	for i := 0; i < n; i++ {
		switch rapid.IntRange(0, 3).Draw(t, "tearKind") {
		case 0:
			c.Tear = append(c.Tear, 0)
		case 1:
			c.Tear = append(c.Tear, rapid.SampledFrom([]int{1, 2, 3, 4, 8, 16, 31, 64, 4096}).Draw(t, "tearK"))
		case 2:
			c.Tear = append(c.Tear, rapid.IntRange(1, 50000).Draw(t, "tearAny"))
		default:
			c.Tear = append(c.Tear, -rapid.IntRange(1, 50000).Draw(t, "tearPrefix"))
		}
	}
	return c
}
