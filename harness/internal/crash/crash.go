// Package crash is the shared crash-point machinery for the engine-level durability
// properties (C09, C10, C11). A generated workload runs once on a database whose
// Options.FS is the vfsx shim; the shim's capture callback copies the work directory
// at selected file-operation indices (after the operation, or with the in-flight
// write torn at a byte prefix). A copy taken while all file operations are blocked
// is exactly what kill -9 at that instant leaves behind (page cache survives a
// process crash, user-space buffers are not in the files). Every image is then
// reopened and compared with the reference model of the workload.
package crash

import (
	"bytes"
	"encoding/binary"
	"errors"
	"fmt"
	"github.com/feichai0017/NoKV/manifest"
	"os"
	"path/filepath"
	"sort"
	"strings"

	NoKV "github.com/feichai0017/NoKV"
	"github.com/feichai0017/NoKV/kv"
	"github.com/feichai0017/NoKV/utils"
	"github.com/feichai0017/NoKV/vfs"
	"nokvverif/internal/eng"
	"nokvverif/internal/pbt"
	"nokvverif/internal/vfsx"
	"pgregory.net/rapid"
)

// W is one write inside an operation.
type W struct {
	CF    byte
	Key   int
	Del   bool
	VSize int
	TTL   bool `json:",omitempty"` // transactional writes only: the entry carries an expiry in the far future
}

// Op is one client operation: a plain write, a transaction (all-or-nothing batch)
// or a maintenance step.
type Op struct {
	K  string // set | txn | maint
	Ws []W
	M  eng.Maint
}

// Case is a generated workload plus the capture plan.
type Case struct {
	Mode   string // plain | txn (the two APIs must not be mixed in one database)
	Cfg    eng.Cfg
	Keys   [][]byte
	Ops    []Op
	Every  int  // capture after every Every-th mutating file operation (1 = all)
	Phase  int  // offset of the stride
	Torn   bool // additionally capture torn prefixes of writes at stride points
	Post   []eng.Maint
	Tear   []int `json:",omitempty"` // non-empty: torn-mapping images of value-log appends instead of file-operation crash points (see tear.go)
	PostN  int   // number of images that get the post-recovery maintenance schedule (C11)
	Expect string
	// WriteOnce (txn mode): every key is written at most once, so no key ever has two versions and
	// value-log GC can be generated although C02-R1 / C08-R1gc are open.
	WriteOnce bool `json:",omitempty"`
}

// Profile tunes generation.
type Profile struct {
	Sync     string // "on" | "off" | "both"
	MaxOps   int
	PostN    int
	Stride   []int
	Thorough bool
	GCBias   bool // favour plain-API workloads on hot/cold value-log buckets (GC on recovered images)
}

// Gen draws a case.
func Gen(t *rapid.T, p Profile) Case {
	c := Case{Cfg: eng.GenCfg(t), Mode: rapid.SampledFrom([]string{"plain", "txn", "txn"}).Draw(t, "mode")}
	c.Cfg.MemTableSize = 8 << 20
	c.Cfg.ManifestRewrite = rapid.SampledFrom([]int64{0, 256, 256, 4096}).Draw(t, "mrewrite2")
	switch p.Sync {
	case "on":
		c.Cfg.SyncWrites = true
	case "off":
		c.Cfg.SyncWrites = false
	default:
		c.Cfg.SyncWrites = rapid.Bool().Draw(t, "sync")
	}
	gcTxn := false
	if p.GCBias {
		// GC needs either the plain API or a transactional workload whose keys are written once
		switch rapid.IntRange(0, 3).Draw(t, "gcbias") {
		case 0, 1:
			c.Mode = "plain"
		case 2:
			c.Mode, gcTxn = "txn", true
		}
	}
	if rapid.IntRange(0, 2).Draw(t, "vlogHeavy") == 0 || (p.GCBias && c.Mode == "plain") {
		// value-log heavy flavour: several buckets, small files (frequent rotation inside a
		// batch), optional hot/cold routing
		c.Cfg.ValueThreshold = 32
		c.Cfg.Buckets = rapid.SampledFrom([]int{2, 3}).Draw(t, "vhBuckets")
		c.Cfg.VlogFileSize = 64 << 10
		if rapid.Bool().Draw(t, "vhHot") {
			c.Cfg.HotBuckets, c.Cfg.HotAfter = 1, 2
		}
	}
	c.Keys = eng.KeyPool(t, 2, 6)
	if gcTxn {
		c.WriteOnce = true
		c.Keys = eng.KeyPool(t, 8, 16)
		c.Cfg.ValueThreshold = 32
		c.Cfg.VlogFileSize = 64 << 10
		c.Cfg.Buckets = rapid.SampledFrom([]int{1, 1, 2}).Draw(t, "woBuckets")
	}
	if c.Cfg.Engine == "art" && (pbt.Open("C07-F7") || pbt.Open("C07-F7pad")) {
		c.Keys = prefixFree(c.Keys)
	}
	maxOps := p.MaxOps
	if maxOps == 0 {
		maxOps = 24
	}
	n := rapid.IntRange(4, maxOps).Draw(t, "nops")
	sizes := []int{1, 8, 31, 33, 100, 1000, 9000, 40000}
	if c.Cfg.VlogFileSize == 64<<10 && c.Cfg.ValueThreshold == 32 {
		sizes = []int{8, 33, 1000, 9000, 30000, 40000, 40000}
	}
	maintKinds := []string{"rotate", "rotate", "rotate-async", "rotate-async", "drain", "once", "rewrite", "gc"}
	if c.Mode == "plain" && pbt.Open("C01-F1c") {
		// equal-version copies meeting in one ingest buffer are a listed finding:
		// plain workloads do not move tables out of L0
		maintKinds = []string{"rotate", "rotate", "rotate-async", "rotate-async", "rewrite", "gc"}
	}
	if c.Mode == "txn" && pbt.Open("C02-R1") && !c.WriteOnce {
		// GC re-inserts live old versions into the newest memtable, which then shadow newer
		// versions in SSTs (first-hit-by-level lookup, listed as C02-R1)
		maintKinds = []string{"rotate", "rotate", "rotate-async", "rotate-async", "drain", "once"}
	}
	used := map[int]bool{}
	for i := 0; i < n; i++ {
		op := Op{K: rapid.SampledFrom([]string{"set", "set", "set", "txn", "txn", "maint"}).Draw(t, "op")}
		if c.Mode == "plain" && op.K == "txn" {
			op.K = "set"
		}
		if c.Mode == "txn" && op.K == "set" {
			op.K = "txn"
		}
		switch op.K {
		case "set":
			op.Ws = []W{genW(t, c, sizes)}
		case "txn":
			k := rapid.IntRange(1, 4).Draw(t, "nw")
			seen := map[int]bool{}
			for j := 0; j < k; j++ {
				w := genW(t, c, sizes)
				w.CF = 0
				if seen[w.Key] {
					continue
				}
				if c.WriteOnce {
					if used[w.Key] {
						continue
					}
					used[w.Key] = true
					w.Del = false
					if w.VSize < 1000 {
						w.VSize = rapid.SampledFrom([]int{1000, 9000, 30000, 40000}).Draw(t, "woSize")
					}
					w.TTL = rapid.Bool().Draw(t, "ttl")
				}
				seen[w.Key] = true
				op.Ws = append(op.Ws, w)
			}
			if len(op.Ws) == 0 {
				op.K, op.M = "maint", eng.GenMaint(t)
				op.M.Kind = rapid.SampledFrom(maintKinds).Draw(t, "mk2")
			}
		case "maint":
			op.M = eng.GenMaint(t)
			op.M.Kind = rapid.SampledFrom(maintKinds).Draw(t, "mk")
			if op.M.Kind == "rotate-async" && rapid.Bool().Draw(t, "flushBurst") {
				// several sealed memtables queue up behind a running flush: write, seal, write, seal, ...
				for b := 0; b < 3; b++ {
					w := Op{K: "set", Ws: []W{genW(t, c, sizes)}}
					if c.Mode == "txn" {
						w.K = "txn"
						w.Ws[0].CF = 0
					}
					if c.WriteOnce {
						break
					}
					c.Ops = append(c.Ops, w, Op{K: "maint", M: eng.Maint{Kind: "rotate-async"}})
				}
			}
		}
		c.Ops = append(c.Ops, op)
	}
	stride := p.Stride
	if len(stride) == 0 {
		stride = []int{3, 5, 7}
	}
	c.Every = rapid.SampledFrom(stride).Draw(t, "every")
	c.Phase = rapid.IntRange(0, c.Every-1).Draw(t, "phase")
	c.Torn = rapid.Bool().Draw(t, "torn")
	c.PostN = p.PostN
	if c.PostN > 0 {
		pk := []string{"rotate", "rotate", "compact", "compact", "once", "rewrite", "gc", "l0l0"}
		if c.Mode == "plain" && pbt.Open("C01-F1c") {
			pk = []string{"rotate", "rotate", "rewrite", "gc"}
		}
		if c.Mode == "txn" && pbt.Open("C02-R1") && !c.WriteOnce {
			pk = []string{"rotate", "rotate", "compact", "compact", "once", "l0l0"}
		}
		m := rapid.IntRange(2, 8).Draw(t, "npost")
		for i := 0; i < m; i++ {
			mm := eng.GenMaint(t)
			mm.Kind = rapid.SampledFrom(pk).Draw(t, "pk")
			if mm.Kind == "l0l0" && pbt.Open("C01-F1b") {
				mm.Kind = "compact"
			}
			c.Post = append(c.Post, mm)
		}
	}
	return c
}

func genW(t *rapid.T, c Case, sizes []int) W {
	w := W{Key: rapid.IntRange(0, len(c.Keys)-1).Draw(t, "key")}
	if c.Mode == "plain" {
		w.CF = byte(rapid.SampledFrom([]int{0, 0, 1, 2}).Draw(t, "cf"))
	}
	if rapid.IntRange(0, 4).Draw(t, "del") == 0 {
		w.Del = true
	} else {
		w.VSize = rapid.SampledFrom(sizes).Draw(t, "vsize")
	}
	return w
}

func prefixFree(keys [][]byte) [][]byte {
	var out [][]byte
	for _, k := range keys {
		ok := true
		for _, o := range out {
			if bytes.HasPrefix(k, o) || bytes.HasPrefix(o, k) {
				ok = false
			}
		}
		if ok {
			out = append(out, k)
		}
	}
	if len(out) == 0 {
		out = [][]byte{[]byte("a")}
	}
	return out
}

// ---- model

type state map[string][]byte // (cf byte + key) -> value; absent = not present

func skey(cf byte, key []byte) string { return string(append([]byte{cf}, key...)) }

func (s state) clone() state {
	o := make(state, len(s))
	for k, v := range s {
		o[k] = v
	}
	return o
}

func equal(a, b state) bool {
	if len(a) != len(b) {
		return false
	}
	for k, v := range a {
		w, ok := b[k]
		if !ok || !bytes.Equal(v, w) {
			return false
		}
	}
	return true
}

// Image is one captured crash state.
type Image struct {
	Dir     string
	Started int
	Acked   int
	Where   string
	Class   string
	Torn    bool
	// TornBatch (torn write to a MANIFEST file): which edit kinds of the written batch are
	// completely inside the applied prefix and which are missing, e.g. "have=add miss=logptr".
	TornBatch string
}

// Result summarises a run for the caller's oracle.
type Result struct {
	States []state // States[j] = contents after j client operations
	Images []Image
	Ops    int
	cfg    eng.Cfg
	c      Case
}

func value(c Case, i, j int, w W) []byte { return eng.Value(i*8+j, w.VSize) }

const farFuture = 4102444800 // year 2100

// withExp is how a value with an expiry is represented in the model state: the expiry is
// part of the contents (value-log GC and compaction must carry it along).
func withExp(v []byte, exp uint64) []byte {
	if exp == 0 {
		return v
	}
	out := append(append([]byte(nil), v...), 0xEE)
	return binary.BigEndian.AppendUint64(out, exp)
}

func modelValue(c Case, i, j int, w W) []byte {
	if w.TTL {
		return withExp(value(c, i, j, w), farFuture)
	}
	return value(c, i, j, w)
}

func classify(rec vfsx.Rec) string {
	base := filepath.Base(rec.Path)
	switch {
	case strings.HasSuffix(base, ".wal"):
		return "wal:" + string(rec.Op)
	case strings.HasSuffix(base, ".sst"):
		return "sst:" + string(rec.Op)
	case strings.HasSuffix(base, ".vlog"):
		return "vlog:" + string(rec.Op)
	case strings.HasPrefix(base, "MANIFEST") || strings.HasPrefix(base, "CURRENT") || strings.HasPrefix(base, "REWRITE"):
		return "manifest:" + string(rec.Op)
	case base == "LOCK":
		return "lock:" + string(rec.Op)
	}
	return "other:" + string(rec.Op)
}

// tornBatch describes a torn manifest write: data is a sequence of frames (4-byte little
// endian length + payload; payload = 4-byte magic, 1-byte edit type, ...).
func tornBatch(data []byte, written int) string {
	names := map[byte]string{byte(manifest.EditAddFile): "add", byte(manifest.EditDeleteFile): "del", byte(manifest.EditLogPointer): "logptr"}
	var have, miss []string
	for off := 0; off+4 <= len(data); {
		n := int(binary.LittleEndian.Uint32(data[off:]))
		end := off + 4 + n
		if n < 5 || end > len(data) {
			return "unparsed"
		}
		name, ok := names[data[off+4+4]]
		if !ok {
			name = fmt.Sprintf("type%d", data[off+4+4])
		}
		if end <= written {
			have = append(have, name)
		} else {
			miss = append(miss, name)
		}
		off = end
	}
	return "have=" + strings.Join(have, ",") + " miss=" + strings.Join(miss, ",")
}

// ListedTornBatch reports whether a torn manifest batch has one of the shapes of the listed
// findings C09/C11-manifest-batch-torn on the unchanged tree: table deletions applied without
// the additions of the same batch (move to an ingest buffer, compaction: data gone), or a
// table addition applied without the WAL pointer that follows it (flush: table and WAL both
// replayed).  Any other prefix of a batch is judged.
func ListedTornBatch(tb string) bool {
	i := strings.Index(tb, " miss=")
	if !strings.HasPrefix(tb, "have=") || i < 0 {
		return true // not understood: conservative
	}
	have, miss := strings.Split(tb[5:i], ","), strings.Split(tb[i+6:], ",")
	has := func(l []string, x string) bool {
		for _, e := range l {
			if e == x {
				return true
			}
		}
		return false
	}
	switch {
	case has(have, "del") && has(miss, "add"):
		return true
	case has(have, "add") && !has(have, "logptr") && has(miss, "logptr"):
		return true
	case has(have, "add") && has(miss, "del"):
		return true // outputs installed, inputs not yet removed: the same batch seen from the other side
	}
	return false
}

// Drive runs the workload once and captures images into imgRoot.
func Drive(c Case, dir, imgRoot string, r *pbt.Rec) (res *Result, err error) {
	res = &Result{cfg: c.Cfg, c: c}
	fs := vfsx.New(nil)
	fs.KeepLog(false)
	curOp := "open"
	mutSeen := 0
	var curData []byte
	plan := func(rec vfsx.Rec, data []byte) vfsx.Action {
		curData = data
		if !rec.Mut {
			return vfsx.Action{}
		}
		mutSeen++
		interesting := rec.Op == vfs.OpRename || rec.Op == vfs.OpRemove || rec.Op == vfs.OpTruncate || rec.Op == vfs.OpFileTrunc
		if !interesting && (mutSeen%c.Every) != c.Phase%c.Every {
			return vfsx.Action{}
		}
		a := vfsx.Action{After: true}
		if c.Torn && len(data) > 2 && (rec.Op == vfs.OpFileWrite || rec.Op == vfsx.OpFileWriteAt || rec.Op == vfs.OpWriteFile) {
			a.Torn = []int{1, len(data) / 2, len(data) - 1}
			if strings.HasPrefix(classify(rec), "manifest:") {
				// every prefix of a batch of edits: cut at the frame boundaries too
				for off := 0; off+4 <= len(data); {
					n := int(binary.LittleEndian.Uint32(data[off:]))
					off += 4 + n
					if n < 5 || off >= len(data) {
						break
					}
					a.Torn = append(a.Torn, off)
				}
			}
		}
		return a
	}
	var capErr error
	capture := func(pt vfsx.Point) {
		if capErr != nil || len(res.Images) >= 400 {
			return
		}
		img := filepath.Join(imgRoot, fmt.Sprintf("img-%04d", len(res.Images)))
		if e := vfsx.CopyDir(dir, img); e != nil {
			capErr = e
			return
		}
		res.Images = append(res.Images, Image{Dir: img, Started: int(pt.Started), Acked: int(pt.Acked),
			Where: fmt.Sprintf("fs op #%d %s %s (%s, client op %q)", pt.Rec.Index, pt.Rec.Op, filepath.Base(pt.Rec.Path), pt.Phase, curOp),
			Class: classify(pt.Rec) + "@" + strings.SplitN(curOp, " ", 2)[0], Torn: pt.Phase == vfsx.Torn})
		if pt.Phase == vfsx.Torn && strings.HasPrefix(classify(pt.Rec), "manifest:") {
			res.Images[len(res.Images)-1].TornBatch = tornBatch(curData, pt.Written)
		}
	}
	fs.SetPlan(plan, capture)

	db, err := eng.Open(c.Cfg, dir, fs)
	if err != nil {
		return res, pbt.Failf("open", "fresh directory: %v", err)
	}
	closed := false
	defer func() {
		if !closed {
			_ = eng.Close(db)
		}
	}()
	cur := state{}
	res.States = append(res.States, cur.clone())
	for i, op := range c.Ops {
		curOp = op.K
		if op.K == "maint" {
			curOp = "maint " + op.M.Kind
		}
		fs.AddStarted(1)
		if aerr := applyOp(c, db, i, op, cur, r); aerr != nil {
			return res, aerr
		}
		fs.AddAcked(1)
		res.States = append(res.States, cur.clone())
		res.Ops = i + 1
		if capErr != nil {
			return res, fmt.Errorf("harness: capture failed: %v", capErr)
		}
	}
	// final image at a call boundary, before Close
	fs.Quiesce(func() {
		img := filepath.Join(imgRoot, fmt.Sprintf("img-%04d", len(res.Images)))
		if e := vfsx.CopyDir(dir, img); e == nil {
			res.Images = append(res.Images, Image{Dir: img, Started: res.Ops, Acked: res.Ops, Where: "after the last operation returned", Class: "boundary"})
		}
	})
	closed = true
	if cerr := eng.Close(db); cerr != nil {
		return res, pbt.Failf("close", "Close failed: %v", cerr)
	}
	return res, nil
}

// ReadAll reads every pool key of a database into a state (and scans for foreign keys in txn mode).
func ReadAll(c Case, db *NoKV.DB) (state, error) {
	out := state{}
	if c.Mode == "plain" {
		for cf := byte(0); cf < 3; cf++ {
			for _, k := range c.Keys {
				e, err := db.GetCF(kv.ColumnFamily(cf), k)
				if errors.Is(err, utils.ErrKeyNotFound) {
					continue
				}
				if err != nil {
					return nil, pbt.Failf("unreadable", "GetCF(cf=%d,%q) on the recovered database: %v", cf, k, err)
				}
				out[skey(cf, k)] = append([]byte(nil), e.Value...)
			}
		}
		return out, nil
	}
	tx := db.NewTransaction(false)
	defer tx.Discard()
	for _, k := range c.Keys {
		it, err := tx.Get(k)
		if errors.Is(err, utils.ErrKeyNotFound) {
			continue
		}
		if err != nil {
			return nil, pbt.Failf("unreadable", "Txn.Get(%q) on the recovered database: %v", k, err)
		}
		v, verr := it.ValueCopy(nil)
		if verr != nil {
			return nil, pbt.Failf("unreadable", "value of %q on the recovered database: %v", k, verr)
		}
		out[skey(0, k)] = withExp(v, it.Entry().ExpiresAt)
	}
	// full scan: every key that reads as present must be a pool key with the same value
	iter := tx.NewIterator(NoKV.IteratorOptions{})
	defer iter.Close()
	for iter.Rewind(); iter.Valid(); iter.Next() {
		e := iter.Item().Entry()
		if eng.IsReserved(e.Key) {
			continue
		}
		v, verr := iter.Item().ValueCopy(nil)
		if verr != nil {
			return nil, pbt.Failf("unreadable", "scan value of %q on the recovered database: %v", e.Key, verr)
		}
		v = withExp(v, e.ExpiresAt)
		want, ok := out[skey(0, e.Key)]
		if !ok || !bytes.Equal(want, v) {
			vers := ""
			ki := tx.NewKeyIterator(append([]byte(nil), e.Key...), NoKV.IteratorOptions{})
			for ki.Rewind(); ki.Valid(); ki.Next() {
				ke := ki.Item().Entry()
				vers += fmt.Sprintf(" @%d(%d bytes,meta=%d)", ke.Version, len(ke.Value), ke.Meta)
			}
			ki.Close()
			lay := ""
			for _, ti := range db.VerifLSM().VerifLayout() {
				lay += fmt.Sprintf(" L%d/ingest=%v/fid=%d", ti.Level, ti.Ingest, ti.FID)
			}
			return nil, pbt.Failf("scan-mismatch", "scan of the recovered database yields %q=%s (version %d, %d bytes) but a point read in the same transaction (readTs=%d) gives present=%v value=%s (%d bytes); all versions:%s; tables:%s; immutables=%d", e.Key, brief(v), e.Version, len(v), tx.ReadTs(), ok, brief(want), len(want), vers, lay, db.VerifLSM().VerifImmutables())
		}
	}
	return out, nil
}

func brief(b []byte) string {
	if len(b) <= 8 {
		return fmt.Sprintf("%x", b)
	}
	return fmt.Sprintf("%x…(%d bytes)", b[:8], len(b))
}

func diff(a, b state) string {
	var ks []string
	for k := range a {
		ks = append(ks, k)
	}
	for k := range b {
		if _, ok := a[k]; !ok {
			ks = append(ks, k)
		}
	}
	sort.Strings(ks)
	var out []string
	for _, k := range ks {
		if !bytes.Equal(a[k], b[k]) || (a[k] == nil) != (b[k] == nil) {
			av, bv := "absent", "absent"
			if v, ok := a[k]; ok {
				av = brief(v)
			}
			if v, ok := b[k]; ok {
				bv = brief(v)
			}
			out = append(out, fmt.Sprintf("cf=%d %q: recovered %s / model %s", k[0], k[1:], av, bv))
		}
	}
	if len(out) > 6 {
		out = append(out[:6], "…")
	}
	return strings.Join(out, "; ")
}

// Verdict of one image.
// applyOp runs one client operation against db and the model.
func applyOp(c Case, db *NoKV.DB, i int, op Op, cur state, r *pbt.Rec) error {
	switch op.K {
	case "set":
		w := op.Ws[0]
		key := c.Keys[w.Key%len(c.Keys)]
		var werr error
		if w.Del {
			werr = db.DelCF(kv.ColumnFamily(w.CF), key)
		} else {
			werr = db.SetCF(kv.ColumnFamily(w.CF), key, value(c, i, 0, w))
		}
		if werr != nil {
			return pbt.Failf("write-error", "op %d: %v", i, werr)
		}
		if w.Del {
			delete(cur, skey(w.CF, key))
		} else {
			cur[skey(w.CF, key)] = value(c, i, 0, w)
		}
	case "txn":
		tx := db.NewTransaction(true)
		for j, w := range op.Ws {
			key := c.Keys[w.Key%len(c.Keys)]
			var werr error
			if w.Del {
				werr = tx.Delete(append([]byte(nil), key...))
			} else {
				ne := kv.NewEntry(append([]byte(nil), key...), value(c, i, j, w))
				if w.TTL {
					ne.ExpiresAt = farFuture
				}
				werr = tx.SetEntry(ne)
			}
			if werr != nil {
				tx.Discard()
				return pbt.Failf("write-error", "op %d: %v", i, werr)
			}
		}
		if cerr := tx.Commit(); cerr != nil {
			return pbt.Failf("write-error", "op %d: Commit: %v", i, cerr)
		}
		for j, w := range op.Ws {
			key := c.Keys[w.Key%len(c.Keys)]
			if w.Del {
				delete(cur, skey(0, key))
			} else {
				cur[skey(0, key)] = modelValue(c, i, j, w)
			}
		}
	case "maint":
		if _, merr := eng.DoMaint(db, op.M, r); merr != nil {
			return pbt.Failf("maint-error", "op %d: %v", i, merr)
		}
	}
	return nil
}

type Verdict struct {
	Err      error  // nil if the image satisfies the checked properties
	Prop     string // which family the failure belongs to: "reopen", "acked", "prefix", "readable"
	Lossy    bool   // recovered state is older than the newest started operation
	MatchedJ int
	Excluded bool // accepted only because of an open listed finding
}

// CheckImage reopens an image and judges it. checkAcked: acknowledged writes must be
// present (C09; only meaningful with SyncWrites). checkPrefix: contents must equal the
// model after some prefix (C10).
func CheckImage(res *Result, im Image, checkAcked, checkPrefix bool) (v Verdict, db *NoKV.DB) {
	c := res.c
	db, err := eng.Open(c.Cfg, im.Dir, nil)
	if err != nil {
		return Verdict{Err: pbt.Failf("reopen-fails", "crash image at %s (acked=%d started=%d, torn=%v) does not reopen: %v", im.Where, im.Acked, im.Started, im.Torn, err), Prop: "reopen"}, nil
	}
	got, rerr := ReadAll(c, db)
	if rerr != nil {
		_ = eng.Close(db)
		return Verdict{Err: fmt.Errorf("crash image at %s (acked=%d started=%d): %w", im.Where, im.Acked, im.Started, rerr), Prop: "readable"}, nil
	}
	hi := im.Started
	if hi >= len(res.States) {
		hi = len(res.States) - 1
	}
	lo := 0
	if c.Cfg.SyncWrites {
		lo = im.Acked
	}
	match := -1
	for j := hi; j >= 0; j-- {
		if equal(got, res.States[j]) {
			match = j
			break
		}
	}
	v.MatchedJ = match
	v.Lossy = match >= 0 && match < hi
	if checkAcked && c.Cfg.SyncWrites {
		// every key must carry a value it had at some point in [acked, started]
		for k := range unionKeys(got, res.States[lo:hi+1]) {
			ok := false
			for j := lo; j <= hi; j++ {
				gv, gok := got[k]
				mv, mok := res.States[j][k]
				if gok == mok && bytes.Equal(gv, mv) {
					ok = true
					break
				}
			}
			if !ok {
				_ = eng.Close(db)
				return Verdict{Err: pbt.Failf("acked-lost", "crash image at %s (acked=%d started=%d, torn=%v): after reopen an acknowledged write is missing or wrong: %s", im.Where, im.Acked, im.Started, im.Torn, diff(got, res.States[lo])), Prop: "acked"}, nil
			}
		}
	}
	if checkPrefix && (match < 0 || match < lo) && pbt.Open("C10-txn-torn") {
		// listed finding: a multi-entry batch is written to the WAL as independent records, so a
		// crash inside that write recovers an arbitrary subset of the batch. Accept
		// states[j] overlaid with a subset of the writes of a multi-key transaction j+1.
		for j := hi - 1; j >= lo && j >= 0; j-- {
			if j >= len(c.Ops) || c.Ops[j].K != "txn" || len(c.Ops[j].Ws) < 2 {
				continue
			}
			touched := map[string]bool{}
			for _, w := range c.Ops[j].Ws {
				touched[skey(0, c.Keys[w.Key%len(c.Keys)])] = true
			}
			ok := true
			for k := range unionKeys(got, []state{res.States[j], res.States[j+1]}) {
				gv, gok := got[k]
				av, aok := res.States[j][k]
				bv, bok := res.States[j+1][k]
				same := func(x []byte, xok bool) bool { return xok == gok && bytes.Equal(x, gv) }
				if touched[k] {
					if !same(av, aok) && !same(bv, bok) {
						ok = false
					}
				} else if !same(av, aok) {
					ok = false
				}
			}
			if ok {
				v.Excluded = true
				v.MatchedJ = j
				return v, db
			}
		}
	}
	if checkPrefix && (match < 0 || match < lo) {
		_ = eng.Close(db)
		near := res.States[hi]
		return Verdict{Err: pbt.Failf("not-a-prefix", "crash image at %s (acked=%d started=%d, sync=%v, torn=%v): recovered contents equal no prefix of the accepted write batches in [%d,%d]; against the newest: %s", im.Where, im.Acked, im.Started, c.Cfg.SyncWrites, im.Torn, lo, hi, diff(got, near)), Prop: "prefix"}, nil
	}
	return v, db
}

func unionKeys(got state, sts []state) map[string]bool {
	u := map[string]bool{}
	for k := range got {
		u[k] = true
	}
	for _, s := range sts {
		for k := range s {
			u[k] = true
		}
	}
	return u
}

// PostMaintenance runs the C11 schedule on a recovered database: contents must stay S0.
func PostMaintenance(res *Result, im Image, db *NoKV.DB, r *pbt.Rec) (*NoKV.DB, error) {
	c := res.c
	s0, err := ReadAll(c, db)
	if err != nil {
		return db, err
	}
	ran := 0
	for i, m := range c.Post {
		if os.Getenv("VERIF_TRACE") != "" {
			lay := ""
			for _, ti := range db.VerifLSM().VerifLayout() {
				lay += fmt.Sprintf(" L%d/ingest=%v/fid=%d", ti.Level, ti.Ingest, ti.FID)
			}
			fmt.Printf("TRACE post image=%q step=%d maint=%v layout:%s\n", im.Where, i, m, lay)
		}
		what, merr := eng.DoMaint(db, m, r)
		if merr != nil {
			return db, pbt.Failf("maint-error", "recovered image (%s): maintenance step %d %v: %v", im.Where, i, m, merr)
		}
		if what == "" {
			continue
		}
		ran++
		got, rerr := ReadAll(c, db)
		if rerr != nil {
			return db, fmt.Errorf("recovered image (%s) after %s: %w", im.Where, what, rerr)
		}
		if !equal(got, s0) {
			return db, pbt.Failf("contents-changed", "recovered image (%s): contents changed without any client write after maintenance step %d (%s): %s", im.Where, i, what, diff(got, s0))
		}
	}
	if cerr := eng.Close(db); cerr != nil {
		return nil, pbt.Failf("close", "recovered image (%s): Close failed: %v", im.Where, cerr)
	}
	db2, oerr := eng.Open(c.Cfg, im.Dir, nil)
	if oerr != nil {
		return nil, pbt.Failf("reopen-fails", "recovered image (%s): second reopen after maintenance fails: %v", im.Where, oerr)
	}
	got, rerr := ReadAll(c, db2)
	if rerr != nil {
		return db2, rerr
	}
	if !equal(got, s0) {
		return db2, pbt.Failf("contents-changed", "recovered image (%s): contents changed across maintenance + clean reopen: %s", im.Where, diff(got, s0))
	}
	if ran >= 2 {
		r.Label("post:maintenance-ran>=2")
	}
	return db2, nil
}

// Cleanup removes image directories.
func Cleanup(res *Result) {
	for _, im := range res.Images {
		_ = os.RemoveAll(im.Dir)
	}
}
