package crash

import (
	"fmt"

	"nokvverif/internal/eng"
	"nokvverif/internal/pbt"
)

// Run executes one case for the given property: "C09" (acked writes survive, reopen
// succeeds), "C10" (prefix consistency, readable), "C11" (recovered contents only change
// through new writes).
func Run(prop string, c Case, r *pbt.Rec) error {
	if len(c.Keys) == 0 || len(c.Ops) == 0 {
		return nil
	}
	dir, cleanup := pbt.TempDir("crash")
	defer cleanup()
	imgRoot, cleanup2 := pbt.TempDir("crashimg")
	defer cleanup2()
	drive := Drive
	if len(c.Tear) > 0 {
		drive = DriveTear
	}
	res, err := drive(c, dir, imgRoot, r)
	defer Cleanup(res)
	if err != nil {
		return err
	}
	r.Label("mode:" + c.Mode)
	r.Label(fmt.Sprintf("sync:%v", c.Cfg.SyncWrites))
	r.LabelN("images", len(res.Images))
	nt := false
	postEvery := 0
	if c.PostN > 0 && len(res.Images) > 0 {
		postEvery = len(res.Images)/c.PostN + 1
	}
	tornManifest := pbt.Open("C09-manifest-batch-torn") || pbt.Open("C11-manifest-batch-torn")
	for idx, im := range res.Images {
		if tornManifest && im.Torn && containsStr(im.Class, "manifest:") && ListedTornBatch(im.TornBatch) {
			// listed finding: a multi-edit manifest batch is not atomic across a crash
			r.Excluded(1)
			r.Label("img:torn-manifest-batch(listed)")
			continue
		}
		v, db := CheckImage(res, im, prop == "C09", prop == "C10" || prop == "C11")
		if v.Err != nil {
			if prop == "C11" && v.Prop != "reopen" {
				// C11 only judges what happens after a successful recovery; recovery itself is C09/C10
				r.Label("c11:image-not-judged(" + v.Prop + ")")
				continue
			}
			if prop == "C11" {
				r.Label("c11:image-not-judged(reopen)")
				continue
			}
			return v.Err
		}
		r.Label("img:" + im.Class)
		if im.TornBatch != "" {
			r.Label("img:torn-manifest-batch-judged(" + im.TornBatch + ")")
		}
		if v.Excluded {
			r.Excluded(1)
			r.Label("img:partial-batch(listed)")
		}
		if im.Torn {
			r.Label("img:torn")
		}
		if v.Lossy {
			r.Label("img:lossy")
		}
		inMaint := false
		for _, cls := range []string{"@maint", "sst:", "manifest:", "vlog:"} {
			if len(im.Class) >= len(cls) && (containsStr(im.Class, cls)) {
				inMaint = true
			}
		}
		switch prop {
		case "C09":
			if inMaint && im.Acked > 0 {
				nt = true
			}
		case "C10":
			if v.Lossy || (im.Started > im.Acked) {
				nt = true
			}
		}
		// torn manifest batches always get the maintenance schedule: which other images do depends
		// on the image count, and a committed replay must not depend on that
		if prop == "C11" && postEvery > 0 && (idx%postEvery == 0 || im.TornBatch != "") {
			db2, perr := PostMaintenance(res, im, db, r)
			db = db2
			if perr != nil {
				if db != nil {
					_ = eng.Close(db)
				}
				return perr
			}
			nt = true
			r.Label("post:image")
		}
		if db != nil {
			if cerr := eng.Close(db); cerr != nil {
				return pbt.Failf("close", "recovered image (%s): Close failed: %v", im.Where, cerr)
			}
		}
	}
	if nt {
		r.NT()
	}
	return nil
}

func containsStr(s, sub string) bool {
	for i := 0; i+len(sub) <= len(s); i++ {
		if s[i:i+len(sub)] == sub {
			return true
		}
	}
	return false
}
