// Package txm is the shared state machine for the transactional API: interleaved
// transactions driven by one goroutine (so the commit order is the order of
// successful Commit returns), an MVCC reference model, iterator scripts, maintenance
// steps and reopen. C03, C04, C06 and C12 use it with different generator profiles.
package txm

import (
	"bytes"
	"errors"
	"fmt"
	"os"
	"sort"

	NoKV "github.com/feichai0017/NoKV"
	"github.com/feichai0017/NoKV/kv"
	"github.com/feichai0017/NoKV/utils"
	"nokvverif/internal/eng"
	"nokvverif/internal/pbt"
	"pgregory.net/rapid"
)

const farFuture = 4102444800 // year 2100: the wall clock cannot flip an answer during a run

// Profile tunes the generator.
type Profile struct {
	Name        string
	OpKinds     []string // begin get set del iter commit discard maint reopen
	MaintKinds  []string
	ValueSizes  []int
	MaxOps      int
	MaxKeys     int
	SmallLimits bool // MaxBatchCount/MaxBatchSize tiny, hot-key limit small (C04)
	Conflicts   bool // DetectConflicts
	IterHeavy   bool // more/longer iterator scripts (C06)
	AllowGC     bool // generate value-log GC steps even while C02-R1 is open (used to replay it)
	// ExpiredTail: a third of the histories end with "commit an already expired write (and a
	// delete), flush, compact, reopen": the newest versions in the store are entries a
	// compaction classifies as stale.
	ExpiredTail bool
	MemSizes    []int // memtable sizes to draw from (default 8 MiB: rotation only where the history places it)
}

// IterStep is one call on an open iterator.
type IterStep struct {
	K      string // rewind | seek | next
	Target []byte
	NoVal  bool // do not touch the value at this position (what key-only scans do)
}

// IterSpec describes an iterator and the calls made on it.
type IterSpec struct {
	KeyIter     bool // NewKeyIterator(key) instead of NewIterator
	Reverse     bool
	AllVersions bool
	KeyOnly     bool
	Prefix      []byte
	Lower       []byte
	Upper       []byte
	Script      []IterStep
}

// Op is one step of the history.
type Op struct {
	K      string
	T      int // transaction slot
	Update bool
	Key    int
	VSize  int
	Exp    int // 0 none, 1 already expired, 2 far future
	It     IterSpec
	M      eng.Maint
}

// Case is a generated history.
type Case struct {
	NTRule string
	Cfg    eng.Cfg
	Keys   [][]byte
	Ops    []Op
}

// exactOnly is set while the ART ordering findings (C07-F7*) are open and the case uses
// the ART memtable: seek targets and bounds are then drawn from the stored keys only,
// because a target that is prefix-related to a stored key hits the same finding.
var exactOnly bool

func genBound(t *rapid.T, keys [][]byte, label string) []byte {
	kind := rapid.IntRange(0, 5).Draw(t, label+"Kind")
	if exactOnly && kind >= 4 {
		kind = 2
	}
	switch kind {
	case 0, 1:
		return nil
	case 2, 3:
		return keys[rapid.IntRange(0, len(keys)-1).Draw(t, label+"Key")]
	case 4:
		k := keys[rapid.IntRange(0, len(keys)-1).Draw(t, label+"Key")]
		return append(append([]byte(nil), k...), 0)
	default:
		return eng.GenUserKey(t)
	}
}

func genIter(t *rapid.T, keys [][]byte, heavy bool) IterSpec {
	it := IterSpec{
		Reverse:     rapid.IntRange(0, 2).Draw(t, "rev") == 0,
		AllVersions: rapid.IntRange(0, 3).Draw(t, "allv") == 0,
		KeyOnly:     rapid.IntRange(0, 3).Draw(t, "keyonly") == 0,
	}
	switch rapid.IntRange(0, 9).Draw(t, "itShape") {
	case 0:
		it.KeyIter = true
		it.Prefix = keys[rapid.IntRange(0, len(keys)-1).Draw(t, "kiKey")]
	case 1, 2:
		k := keys[rapid.IntRange(0, len(keys)-1).Draw(t, "pfxKey")]
		n := rapid.IntRange(1, len(k)).Draw(t, "pfxLen")
		it.Prefix = append([]byte(nil), k[:n]...)
	case 3, 4, 5:
		it.Lower = genBound(t, keys, "lower")
		it.Upper = genBound(t, keys, "upper")
	}
	maxSteps := 8
	if heavy {
		maxSteps = 16
	}
	n := rapid.IntRange(1, maxSteps).Draw(t, "nsteps")
	for i := 0; i < n; i++ {
		st := IterStep{K: rapid.SampledFrom([]string{"rewind", "seek", "seek", "next", "next", "next", "next"}).Draw(t, "istep")}
		if i == 0 && st.K == "next" {
			st.K = "rewind"
		}
		if st.K == "seek" {
			st.Target = genBound(t, keys, "seek")
		}
		st.NoVal = rapid.IntRange(0, 2).Draw(t, "noval") == 0
		it.Script = append(it.Script, st)
	}
	return it
}

// Gen draws a case.
func Gen(t *rapid.T, p Profile) Case {
	c := Case{Cfg: eng.GenCfg(t), NTRule: p.Name}
	c.Cfg.MemTableSize = 8 << 20
	if len(p.MemSizes) > 0 {
		// small memtables: commits straddle automatic rotations
		c.Cfg.MemTableSize = int64(rapid.SampledFrom(p.MemSizes).Draw(t, "memSize"))
	}
	c.Cfg.DetectConflicts = p.Conflicts
	if p.SmallLimits {
		c.Cfg.MaxBatchCount = int64(rapid.SampledFrom([]int{4, 8}).Draw(t, "maxCount"))
		c.Cfg.MaxBatchSize = int64(rapid.SampledFrom([]int{2048, 4096}).Draw(t, "maxSize"))
		c.Cfg.HotKeyLimit = int32(rapid.SampledFrom([]int{0, 3, 6}).Draw(t, "hotLimit"))
	}
	maxKeys := p.MaxKeys
	if maxKeys == 0 {
		maxKeys = 5
	}
	c.Keys = eng.KeyPool(t, 1, maxKeys)
	exactOnly = false
	if c.Cfg.Engine == "art" && (pbt.Open("C07-F7") || pbt.Open("C07-F7pad")) {
		c.Keys = prefixFree(c.Keys)
		exactOnly = true
	}
	maxOps := p.MaxOps
	if maxOps == 0 {
		maxOps = 60
	}
	n := rapid.IntRange(5, maxOps).Draw(t, "nops")
	for i := 0; i < n; i++ {
		op := Op{K: rapid.SampledFrom(p.OpKinds).Draw(t, "op"), T: rapid.IntRange(0, 2).Draw(t, "slot")}
		switch op.K {
		case "begin":
			op.Update = rapid.IntRange(0, 3).Draw(t, "update") != 0
		case "get", "del":
			op.Key = rapid.IntRange(0, len(c.Keys)-1).Draw(t, "key")
		case "set":
			op.Key = rapid.IntRange(0, len(c.Keys)-1).Draw(t, "key")
			op.VSize = rapid.SampledFrom(p.ValueSizes).Draw(t, "vsize")
			if op.VSize == 0 && pbt.Open("C03-emptyval") {
				op.VSize = 1 // open finding: committed empty values become unreadable once flushed
			}
			op.Exp = rapid.SampledFrom([]int{0, 0, 0, 0, 0, 0, 1, 2}).Draw(t, "exp")
		case "iter":
			op.It = genIter(t, c.Keys, p.IterHeavy)
		case "maint":
			op.M = eng.GenMaint(t)
			op.M.Kind = rapid.SampledFrom(p.MaintKinds).Draw(t, "mkind2")
			if op.M.Kind == "l0l0" && pbt.Open("C01-F1b") {
				op.M.Kind = "compact"
			}
			if (op.M.Kind == "rewrite" || op.M.Kind == "gc") && pbt.Open("C02-R1") && !p.AllowGC {
				// value-log GC re-inserts live OLD versions into the newest memtable; with the
				// first-hit-by-level lookup (C02-R1) they then shadow newer versions in SSTs
				op.M.Kind = "rotate"
			}
		}
		c.Ops = append(c.Ops, op)
	}
	if p.ExpiredTail && rapid.IntRange(0, 2).Draw(t, "expiredTail") == 0 {
		k := rapid.IntRange(0, len(c.Keys)-1).Draw(t, "tailKey")
		c.Ops = append(c.Ops,
			Op{K: "begin", T: 3, Update: true},
			Op{K: "set", T: 3, Key: k, VSize: 33, Exp: 1},
			Op{K: "commit", T: 3},
			Op{K: "begin", T: 3, Update: true},
			Op{K: "del", T: 3, Key: (k + 1) % len(c.Keys)},
			Op{K: "set", T: 3, Key: k, VSize: 1, Exp: 1},
			Op{K: "commit", T: 3},
			Op{K: "maint", M: eng.Maint{Kind: "rotate"}},
			Op{K: "maint", M: eng.Maint{Kind: "drain", A: rapid.IntRange(0, 7).Draw(t, "tailA")}},
			Op{K: "maint", M: eng.Maint{Kind: rapid.SampledFrom([]string{"drain", "compact", "once"}).Draw(t, "tailM"), A: rapid.IntRange(0, 7).Draw(t, "tailB")}},
			Op{K: "reopen"},
			Op{K: "begin", T: 3, Update: true},
			Op{K: "set", T: 3, Key: k, VSize: 8},
			Op{K: "commit", T: 3},
			Op{K: "reopen"})
	}
	return c
}

func prefixFree(keys [][]byte) [][]byte {
	var out [][]byte
	for _, k := range keys {
		ok := true
		for _, o := range out {
			if bytes.HasPrefix(k, o) || bytes.HasPrefix(o, k) {
				ok = false
			}
		}
		if ok {
			out = append(out, k)
		}
	}
	return out
}

// ---- model

type wval struct {
	val     []byte
	deleted bool
	exp     uint64
}

func (w *wval) live() bool { return w != nil && !w.deleted && w.exp != 1 }

type commitRec struct {
	version uint64 // engine commit timestamp (observed through the verif accessor)
	writes  map[string]*wval
}

type mtxn struct {
	tx        *NoKV.Txn
	update    bool
	beginIdx  int // number of commits visible
	readTs    uint64
	pending   map[string]*wval
	reads     map[string]bool // keys read from the database (Get hit or miss, iterator yields, seek targets)
	unprotect bool            // began at or below the read watermark while C32-atmark is open
	iters     int
}

type machine struct {
	c       Case
	r       *pbt.Rec
	db      *NoKV.DB
	dir     string
	commits []commitRec
	slots   [4]*mtxn
	maxVer  uint64
	nt      map[string]bool
	flushes int
	compact int
}

// versionsOf returns all committed writes of key visible at beginIdx, newest first.
func (m *machine) versionsOf(key string, beginIdx int) []struct {
	ver uint64
	w   *wval
} {
	var out []struct {
		ver uint64
		w   *wval
	}
	for i := beginIdx - 1; i >= 0; i-- {
		if w, ok := m.commits[i].writes[key]; ok {
			out = append(out, struct {
				ver uint64
				w   *wval
			}{m.commits[i].version, w})
		}
	}
	return out
}

func (m *machine) visible(tx *mtxn, key string) *wval {
	if tx.update {
		if w, ok := tx.pending[key]; ok {
			return w
		}
	}
	vs := m.versionsOf(key, tx.beginIdx)
	if len(vs) == 0 {
		return nil
	}
	return vs[0].w
}

// Run executes a case.
func Run(c Case, r *pbt.Rec) (err error) {
	if len(c.Keys) == 0 {
		return nil
	}
	dir, cleanup := pbt.TempDir("txm")
	defer cleanup()
	db, err := eng.Open(c.Cfg, dir, nil)
	if err != nil {
		return pbt.Failf("open", "%v", err)
	}
	m := &machine{c: c, r: r, db: db, dir: dir, nt: map[string]bool{}}
	defer func() {
		m.discardAll()
		if m.db != nil {
			if cerr := eng.Close(m.db); cerr != nil && err == nil {
				err = pbt.Failf("close", "Close failed: %v", cerr)
			}
		}
	}()
	r.Label("engine:" + c.Cfg.Engine)
	for i, op := range c.Ops {
		if err := m.step(i, op); err != nil {
			return err
		}
	}
	m.discardAll()
	if err := m.finalCheck(len(c.Ops)); err != nil {
		return err
	}
	switch c.NTRule {
	case "c03":
		if m.nt["must-conflict"] && m.nt["overlap-commit-ok"] {
			r.NT()
		}
	case "c04":
		if m.nt["failed-commit"] && m.nt["commit-after-failure"] {
			r.NT()
		}
	case "c06":
		if m.nt["iter-interesting"] {
			r.NT()
		}
	case "c12":
		if m.nt["reopen-rich"] {
			r.NT()
		}
	default:
		if len(m.commits) >= 2 {
			r.NT()
		}
	}
	return nil
}

func (m *machine) discardAll() {
	for i, tx := range m.slots {
		if tx != nil {
			func() {
				defer func() { _ = recover() }()
				tx.tx.Discard()
			}()
			m.slots[i] = nil
		}
	}
}

func (m *machine) begin(slot int, update bool) *mtxn {
	if old := m.slots[slot]; old != nil {
		old.tx.Discard()
	}
	atMark := m.db.VerifReadMarkDoneUntil()
	tx := &mtxn{tx: m.db.NewTransaction(update), update: update, beginIdx: len(m.commits),
		pending: map[string]*wval{}, reads: map[string]bool{}}
	tx.readTs = tx.tx.ReadTs()
	if tx.readTs <= atMark && pbt.Open("C32-atmark") {
		tx.unprotect = true
	}
	m.slots[slot] = tx
	return tx
}

var trace = os.Getenv("VERIF_TRACE") != ""

func (m *machine) step(i int, op Op) error {
	err := m.step0(i, op)
	if trace {
		fmt.Printf("TRACE step %d %s slot=%d key=%d vsize=%d exp=%d maint=%v -> err=%v commits=%d nextTs=%d\n", i, op.K, op.T, op.Key, op.VSize, op.Exp, op.M, err, len(m.commits), m.db.VerifNextTxnTs())
	}
	return err
}

func (m *machine) step0(i int, op Op) error {
	r := m.r
	switch op.K {
	case "begin":
		if m.slots[op.T] != nil {
			return nil // slot busy: keep the open transaction (restarting it would throw its work away)
		}
		tx := m.begin(op.T, op.Update)
		// snapshot timestamp must cover every acknowledged commit
		if len(m.commits) > 0 && tx.readTs < m.commits[len(m.commits)-1].version {
			return pbt.Failf("readts-behind", "step %d: new transaction has read timestamp %d below the last acknowledged commit version %d", i, tx.readTs, m.commits[len(m.commits)-1].version)
		}
		r.Label("op:begin")
	case "get":
		tx := m.slots[op.T]
		if tx == nil {
			tx = m.begin(op.T, true)
		}
		return m.get(i, tx, m.c.Keys[op.Key%len(m.c.Keys)])
	case "set", "del":
		tx := m.slots[op.T]
		if tx == nil || !tx.update {
			tx = m.begin(op.T, true)
		}
		key := m.c.Keys[op.Key%len(m.c.Keys)]
		var werr error
		nv := &wval{}
		if op.K == "set" {
			nv.val = eng.Value(i, op.VSize)
			e := kv.NewEntry(append([]byte(nil), key...), nv.val)
			switch op.Exp {
			case 1:
				e.ExpiresAt, nv.exp = 1, 1
			case 2:
				e.ExpiresAt, nv.exp = farFuture, farFuture
			}
			werr = tx.tx.SetEntry(e)
		} else {
			nv.deleted = true
			werr = tx.tx.Delete(append([]byte(nil), key...))
		}
		switch {
		case werr == nil:
			tx.pending[string(key)] = nv
			r.Label("op:" + op.K)
		case errors.Is(werr, utils.ErrTxnTooBig):
			r.Label("set-error:too-big")
		case errors.Is(werr, utils.ErrHotKeyWriteThrottle):
			r.Label("set-error:throttled")
		default:
			return pbt.Failf("set-error", "step %d: %s(%q) unexpected error: %v", i, op.K, key, werr)
		}
		// own write (or its absence after a failed Set) must be what the transaction reads back
		return m.get(i, tx, key)
	case "iter":
		tx := m.slots[op.T]
		if tx == nil {
			tx = m.begin(op.T, false)
		}
		return m.iterate(i, tx, op.It)
	case "discard":
		if tx := m.slots[op.T]; tx != nil {
			tx.tx.Discard()
			m.slots[op.T] = nil
			r.Label("op:discard")
		}
	case "commit":
		tx := m.slots[op.T]
		if tx == nil {
			return nil
		}
		return m.commit(i, op.T, tx)
	case "maint":
		what, merr := eng.DoMaint(m.db, op.M, r)
		if merr != nil {
			return pbt.Failf("maint-error", "step %d: %v", i, merr)
		}
		if what == "flush" {
			m.flushes++
		} else if what != "" {
			m.compact++
		}
		if what != "" {
			return m.spotCheck(i, "after "+what)
		}
	case "reopen":
		m.discardAll()
		before := m.maxVer
		if cerr := eng.Close(m.db); cerr != nil {
			m.db = nil
			return pbt.Failf("close", "step %d: Close failed: %v", i, cerr)
		}
		db, err := eng.Open(m.c.Cfg, m.dir, nil)
		if err != nil {
			m.db = nil
			return pbt.Failf("reopen", "step %d: reopen failed: %v", i, err)
		}
		m.db = db
		r.Label("op:reopen")
		if nxt := db.VerifNextTxnTs(); nxt <= before {
			return pbt.Failf("ts-regress", "step %d: after reopen the next commit timestamp is %d, not above the largest stored version %d", i, nxt, before)
		}
		if len(m.commits) >= 2 && m.flushes >= 1 {
			m.nt["reopen-rich"] = true
		}
		return m.finalCheck(i)
	}
	return nil
}

func brief(b []byte) string {
	if len(b) <= 10 {
		return fmt.Sprintf("%x", b)
	}
	return fmt.Sprintf("%x…(%d bytes)", b[:10], len(b))
}

func (m *machine) get(i int, tx *mtxn, key []byte) error {
	want := m.visible(tx, string(key))
	item, err := tx.tx.Get(key)
	if err != nil && !errors.Is(err, utils.ErrKeyNotFound) {
		return pbt.Failf("get-error", "step %d: Txn.Get(%q) unexpected error: %v", i, key, err)
	}
	if _, own := tx.pending[string(key)]; !(tx.update && own) {
		tx.reads[string(key)] = true
	}
	got := err == nil && item != nil
	if got != want.live() {
		if want.live() {
			return pbt.Failf("snapshot-lost", "step %d: Txn.Get(%q) at readTs=%d = not found, want %s (snapshot of %d commits + own writes)", i, key, tx.readTs, brief(want.val), tx.beginIdx)
		}
		return pbt.Failf("snapshot-phantom", "step %d: Txn.Get(%q) at readTs=%d = %s, want not found (deleted, expired or not yet committed in this snapshot)", i, key, tx.readTs, brief(item.Entry().Value))
	}
	if got {
		val, verr := item.ValueCopy(nil)
		if verr != nil {
			return pbt.Failf("get-error", "step %d: ValueCopy(%q): %v", i, key, verr)
		}
		if !bytes.Equal(val, want.val) {
			return pbt.Failf("snapshot-wrong", "step %d: Txn.Get(%q) at readTs=%d = %s, want %s", i, key, tx.readTs, brief(val), brief(want.val))
		}
		if item.Entry().ExpiresAt != want.exp {
			return pbt.Failf("expiry-wrong", "step %d: Txn.Get(%q) ExpiresAt=%d, want %d", i, key, item.Entry().ExpiresAt, want.exp)
		}
	}
	return nil
}

func (m *machine) commit(i, slot int, tx *mtxn) error {
	r := m.r
	m.slots[slot] = nil
	if !tx.update || len(tx.pending) == 0 {
		if err := tx.tx.Commit(); err != nil {
			return pbt.Failf("commit-error", "step %d: Commit of a transaction without writes failed: %v", i, err)
		}
		r.Label("commit:empty")
		return nil
	}
	// must-conflict: a key read from the database was written by a commit after the snapshot
	must := ""
	for k := range tx.reads {
		for j := tx.beginIdx; j < len(m.commits); j++ {
			if _, ok := m.commits[j].writes[k]; ok {
				must = k
			}
		}
	}
	overlap := len(m.commits) > tx.beginIdx
	prevNext := m.db.VerifNextTxnTs()
	cerr := tx.tx.Commit()
	switch {
	case cerr == nil:
		if must != "" && m.c.Cfg.DetectConflicts {
			if tx.unprotect {
				r.Excluded(1)
				r.Label("commit:must-conflict-waived(at-mark)")
			} else {
				return pbt.Failf("missed-conflict", "step %d: Commit succeeded although key %q, read by this transaction at readTs=%d, was written by a transaction that committed after that read timestamp", i, must, tx.readTs)
			}
		}
		ver := m.db.VerifNextTxnTs() - 1
		if ver < prevNext || ver <= m.maxVer {
			return pbt.Failf("version-order", "step %d: commit version %d is not greater than every earlier commit version (max %d)", i, ver, m.maxVer)
		}
		m.maxVer = ver
		m.commits = append(m.commits, commitRec{version: ver, writes: tx.pending})
		r.Label("commit:ok")
		if overlap {
			m.nt["overlap-commit-ok"] = true
		}
		if m.nt["failed-commit"] {
			m.nt["commit-after-failure"] = true
		}
		// atomicity: all writes visible to a fresh reader at one common version
		return m.checkCommitted(i, tx, ver)
	case errors.Is(cerr, utils.ErrConflict):
		if !m.c.Cfg.DetectConflicts {
			return pbt.Failf("commit-error", "step %d: ErrConflict with conflict detection disabled", i)
		}
		if must == "" {
			r.Label("commit:conflict-spurious")
		} else {
			r.Label("commit:conflict-required")
			m.nt["must-conflict"] = true
		}
		m.nt["failed-commit"] = true
	case errors.Is(cerr, utils.ErrTxnTooBig):
		r.Label("commit:too-big")
		m.nt["failed-commit"] = true
	default:
		return pbt.Failf("commit-error", "step %d: Commit unexpected error: %v", i, cerr)
	}
	return m.spotCheck(i, "after failed commit")
}

// checkCommitted verifies that every write of the transaction is visible to a fresh
// reader, all at the commit version, which exceeds all earlier versions.
func (m *machine) checkCommitted(i int, tx *mtxn, ver uint64) error {
	rd := m.db.NewTransaction(false)
	defer rd.Discard()
	keys := make([]string, 0, len(tx.pending))
	for k := range tx.pending {
		keys = append(keys, k)
	}
	sort.Strings(keys)
	for _, k := range keys {
		w := tx.pending[k]
		it := rd.NewKeyIterator([]byte(k), NoKV.IteratorOptions{})
		found := false
		if w.live() {
			// the newest live version reported for this key must be the commit version
			for it.Rewind(); it.Valid(); it.Next() {
				e := it.Item().Entry()
				if !bytes.Equal(e.Key, []byte(k)) {
					continue
				}
				if e.Version != ver {
					it.Close()
					return pbt.Failf("atomic-version", "step %d: after Commit the newest version of %q is %d, want the transaction's commit version %d", i, k, e.Version, ver)
				}
				found = true
				break
			}
		}
		it.Close()
		if w.live() && !found {
			return pbt.Failf("atomic-missing", "step %d: after a successful Commit the write to %q is not visible to a fresh reader", i, k)
		}
	}
	return nil
}

// spotCheck reads every key through a fresh read-only transaction.
func (m *machine) spotCheck(i int, when string) error {
	tx := &mtxn{tx: m.db.NewTransaction(false), beginIdx: len(m.commits), pending: map[string]*wval{}, reads: map[string]bool{}}
	tx.readTs = tx.tx.ReadTs()
	defer tx.tx.Discard()
	for _, k := range m.c.Keys {
		if err := m.get(i, tx, k); err != nil {
			return fmt.Errorf("%s: %w", when, err)
		}
	}
	// open transactions must still see their own snapshot
	for _, ot := range m.slots {
		if ot == nil {
			continue
		}
		for _, k := range m.c.Keys {
			if err := m.get(i, ot, k); err != nil {
				return fmt.Errorf("%s (open transaction, repeatable read): %w", when, err)
			}
		}
	}
	return nil
}

// finalCheck: point reads + a full forward all-versions scan compared with the model.
func (m *machine) finalCheck(i int) error {
	if err := m.spotCheck(i, "final"); err != nil {
		return err
	}
	tx := &mtxn{tx: m.db.NewTransaction(false), beginIdx: len(m.commits), pending: map[string]*wval{}, reads: map[string]bool{}}
	tx.readTs = tx.tx.ReadTs()
	defer tx.tx.Discard()
	for _, spec := range []IterSpec{
		{Script: fullScript(len(m.c.Keys) + 2)},
		{AllVersions: true, Script: fullScript(4*len(m.commits) + 4)},
	} {
		if err := m.iterate(i, tx, spec); err != nil {
			return fmt.Errorf("final scan: %w", err)
		}
	}
	return nil
}

func fullScript(n int) []IterStep {
	s := []IterStep{{K: "rewind"}}
	for j := 0; j < n; j++ {
		s = append(s, IterStep{K: "next"})
	}
	return s
}

// ---- iterator reference

type ient struct {
	key []byte
	ver uint64
	w   *wval
}

// expected returns the sequence an iterator with spec must produce for tx, in
// forward internal-key order (key ascending, version descending). skip lists keys
// left out of the comparison because of an open finding.
func (m *machine) expected(tx *mtxn, spec IterSpec) (seq []ient, skip map[string]bool) {
	skip = map[string]bool{}
	keyset := map[string]bool{}
	for j := 0; j < tx.beginIdx; j++ {
		for k := range m.commits[j].writes {
			keyset[k] = true
		}
	}
	if tx.update {
		for k := range tx.pending {
			keyset[k] = true
		}
	}
	var keys []string
	for k := range keyset {
		keys = append(keys, k)
	}
	sort.Strings(keys)
	for _, k := range keys {
		kb := []byte(k)
		if eng.IsReserved(kb) {
			continue
		}
		if len(spec.Lower) > 0 && bytes.Compare(kb, spec.Lower) < 0 {
			continue
		}
		if len(spec.Upper) > 0 && bytes.Compare(kb, spec.Upper) >= 0 {
			continue
		}
		if len(spec.Prefix) > 0 {
			if spec.KeyIter {
				if !bytes.Equal(kb, spec.Prefix) {
					continue
				}
			} else if !bytes.HasPrefix(kb, spec.Prefix) {
				continue
			}
		}
		var vers []ient
		if tx.update {
			if w, ok := tx.pending[k]; ok {
				vers = append(vers, ient{kb, tx.readTs, w})
			}
		}
		for _, v := range m.versionsOf(k, tx.beginIdx) {
			if len(vers) > 0 && vers[0].ver == v.ver {
				continue // pending write shadows a committed version at the same timestamp
			}
			vers = append(vers, ient{kb, v.ver, v.w})
		}
		if len(vers) == 0 {
			continue
		}
		newestLive := vers[0].w.live()
		if spec.AllVersions || spec.KeyIter {
			if !newestLive {
				// whether older versions of a deleted/expired key are "live" is not settled
				// by the property: such keys are left out of the comparison
				skip[k] = true
				continue
			}
			for _, v := range vers {
				if v.w.live() {
					seq = append(seq, v)
				}
			}
			continue
		}
		if spec.Reverse && len(vers) > 1 && pbt.Open("C06-F5") {
			skip[k] = true
			continue
		}
		if newestLive {
			seq = append(seq, vers[0])
		}
	}
	return seq, skip
}

func (m *machine) iterate(i int, tx *mtxn, spec IterSpec) error {
	err := m.iterate0(i, tx, spec)
	if err == nil {
		return nil
	}
	if f, ok := err.(*pbt.Fail); ok && f.Sig != "panic" {
		f.Msg += m.dump(tx, spec)
	}
	return err
}

// dump renders the expected sequence and what a fresh iterator with the same options yields.
func (m *machine) dump(tx *mtxn, spec IterSpec) (out string) {
	defer func() {
		if p := recover(); p != nil {
			out += fmt.Sprintf(" (dump panicked: %v)", p)
		}
	}()
	exp, skip := m.expected(tx, spec)
	if spec.Reverse {
		for a, b := 0, len(exp)-1; a < b; a, b = a+1, b-1 {
			exp[a], exp[b] = exp[b], exp[a]
		}
	}
	out = "\n  expected full sequence:"
	for _, e := range exp {
		out += fmt.Sprintf(" %q@%d", e.key, e.ver)
	}
	out += fmt.Sprintf("\n  skipped keys: %d\n  engine full sequence:", len(skip))
	opt := NoKV.IteratorOptions{Reverse: spec.Reverse, AllVersions: spec.AllVersions, KeyOnly: spec.KeyOnly, LowerBound: spec.Lower, UpperBound: spec.Upper}
	var it *NoKV.TxnIterator
	if spec.KeyIter {
		it = tx.tx.NewKeyIterator(spec.Prefix, NoKV.IteratorOptions{Reverse: spec.Reverse, KeyOnly: spec.KeyOnly})
	} else {
		opt.Prefix = spec.Prefix
		it = tx.tx.NewIterator(opt)
	}
	defer it.Close()
	n := 0
	for it.Rewind(); it.Valid() && n < 40; it.Next() {
		e := it.Item().Entry()
		out += fmt.Sprintf(" %q@%d(meta=%d,exp=%d)", e.Key, e.Version, e.Meta, e.ExpiresAt)
		n++
	}
	return out
}

func (m *machine) iterate0(i int, tx *mtxn, spec IterSpec) error {
	r := m.r
	if spec.KeyIter && len(spec.Prefix) == 0 {
		return nil
	}
	// open findings excluded by construction
	if tx.update && len(tx.pending) > 1 && pbt.Open("C06-F6") {
		if prefixRelated(tx.pending) {
			r.Excluded(1)
			return nil
		}
	}
	exp, skip := m.expected(tx, spec)
	if len(skip) > 0 {
		r.Excluded(len(skip))
	}
	if spec.Reverse {
		for a, b := 0, len(exp)-1; a < b; a, b = a+1, b-1 {
			exp[a], exp[b] = exp[b], exp[a]
		}
	}
	opt := NoKV.IteratorOptions{Reverse: spec.Reverse, AllVersions: spec.AllVersions, KeyOnly: spec.KeyOnly,
		LowerBound: spec.Lower, UpperBound: spec.Upper}
	var it *NoKV.TxnIterator
	if spec.KeyIter {
		it = tx.tx.NewKeyIterator(spec.Prefix, NoKV.IteratorOptions{Reverse: spec.Reverse, KeyOnly: spec.KeyOnly})
	} else {
		opt.Prefix = spec.Prefix
		it = tx.tx.NewIterator(opt)
	}
	defer it.Close()
	r.Label("op:iter")

	desc := fmt.Sprintf("iterator{reverse=%v allVersions=%v keyOnly=%v keyIter=%v prefix=%q lower=%q upper=%q} readTs=%d", spec.Reverse, spec.AllVersions || spec.KeyIter, spec.KeyOnly, spec.KeyIter, spec.Prefix, spec.Lower, spec.Upper, tx.readTs)
	pos := -1 // index into exp; -1 = not positioned, len(exp) = exhausted
	positioned := false
	for si, st := range spec.Script {
		switch st.K {
		case "rewind":
			it.Rewind()
			pos = 0
			positioned = true
		case "seek":
			target := st.Target
			if len(target) > 0 {
				tx.reads[string(target)] = true
			}
			it.Seek(target)
			positioned = true
			if len(target) == 0 {
				pos = 0
				break
			}
			if !spec.Reverse {
				if len(spec.Upper) > 0 && bytes.Compare(target, spec.Upper) >= 0 {
					pos = len(exp)
					break
				}
				pos = sort.Search(len(exp), func(j int) bool { return bytes.Compare(exp[j].key, target) >= 0 })
			} else {
				if len(spec.Lower) > 0 && bytes.Compare(target, spec.Lower) < 0 {
					pos = len(exp)
					break
				}
				pos = sort.Search(len(exp), func(j int) bool { return bytes.Compare(exp[j].key, target) <= 0 })
			}
		case "next":
			if !positioned || pos >= len(exp) {
				continue // calling Next on an unpositioned/exhausted iterator is not part of the property
			}
			it.Next()
			pos++
		}
		// skip keys excluded from the comparison on the engine side
		// keys excluded from the comparison, and the engine's own bookkeeping key
		// (!NoKV!discard, reserved namespace), are stepped over on the engine side
		for it.Valid() && (skip[string(it.Item().Entry().Key)] || eng.IsReserved(it.Item().Entry().Key)) {
			it.Next()
		}
		wantValid := pos < len(exp)
		if it.Valid() != wantValid {
			if wantValid {
				return pbt.Failf("iter-missing", "step %d: %s: after script step %d (%s %q) the iterator is exhausted, want key %q version %d", i, desc, si, st.K, st.Target, exp[pos].key, exp[pos].ver)
			}
			e := it.Item().Entry()
			return pbt.Failf("iter-extra", "step %d: %s: after script step %d (%s %q) the iterator yields key %q version %d, want exhausted (expected sequence has %d entries)", i, desc, si, st.K, st.Target, e.Key, e.Version, len(exp))
		}
		if !wantValid {
			continue
		}
		e := it.Item().Entry()
		w := exp[pos]
		if !bytes.Equal(e.Key, w.key) || e.Version != w.ver {
			return pbt.Failf("iter-order", "step %d: %s: after script step %d (%s %q) the iterator yields key %q version %d, want key %q version %d", i, desc, si, st.K, st.Target, e.Key, e.Version, w.key, w.ver)
		}
		tx.reads[string(w.key)] = true
		if st.NoVal {
			continue
		}
		val, verr := it.Item().ValueCopy(nil)
		if verr != nil {
			return pbt.Failf("iter-value", "step %d: %s: ValueCopy(%q@%d): %v", i, desc, e.Key, e.Version, verr)
		}
		if !bytes.Equal(val, w.w.val) {
			return pbt.Failf("iter-value", "step %d: %s: key %q version %d has value %s, want %s", i, desc, e.Key, e.Version, brief(val), brief(w.w.val))
		}
	}
	if len(exp) >= 3 && (m.flushes > 0 || tx.update && len(tx.pending) > 0) {
		interesting := false
		for j := range exp {
			for l := range exp {
				if j != l && len(exp[j].key) < len(exp[l].key) && bytes.HasPrefix(exp[l].key, exp[j].key) {
					interesting = true
				}
			}
		}
		for j := 0; j < tx.beginIdx; j++ {
			for _, w := range m.commits[j].writes {
				if w.deleted {
					interesting = true
				}
			}
		}
		if interesting {
			m.nt["iter-interesting"] = true
		}
	}
	return nil
}

func prefixRelated(p map[string]*wval) bool {
	for a := range p {
		for b := range p {
			if a != b && len(a) < len(b) && bytes.HasPrefix([]byte(b), []byte(a)) {
				return true
			}
		}
	}
	return false
}
