// Package plain is the shared state machine for the non-transactional API
// (Set/Del/SetCF/DelCF/Get under generated maintenance and reopen). C01 and C08 use
// it with different generator profiles.
package plain

import (
	"bytes"
	"errors"
	"fmt"
	"os"

	"github.com/feichai0017/NoKV/kv"
	"github.com/feichai0017/NoKV/utils"
	"nokvverif/internal/eng"
	"nokvverif/internal/pbt"
	"pgregory.net/rapid"
)

// Profile tunes the generator.
type Profile struct {
	Name       string
	OpKinds    []string // weighted list of: set del get maint reopen
	MaintKinds []string // weighted list of eng maintenance kinds
	ValueSizes []int
	ForceVlog  bool // value threshold fixed at 32 so most values are separated
	MaxOps     int
}

type Op struct {
	K     string // set | del | get | maint | reopen
	CF    byte
	Key   int
	VSize int
	M     eng.Maint
}

type Case struct {
	NTRule string // "gc": non-trivial = read of a separated value after a GC rewrite that followed an overwrite/delete of the key
	Cfg    eng.Cfg
	Keys [][]byte
	Ops  []Op
}

// Gen draws a case for the given profile.
func Gen(t *rapid.T, p Profile) Case {
	c := Case{Cfg: eng.GenCfg(t)}
	if p.ForceVlog {
		c.NTRule = "gc"
	}
	c.Cfg.MemTableSize = 8 << 20 // no size-triggered rotation: flushes happen only where the history places them
	c.Keys = eng.KeyPool(t, 1, 8)
	if c.Cfg.Engine == "art" && pbt.Open("C07-F7") {
		c.Keys = prefixFree(c.Keys)
	}
	if p.ForceVlog {
		c.Cfg.ValueThreshold = 32
		if rapid.Bool().Draw(t, "hotcold") {
			// hot/cold bucket routing: a key moves to a hot bucket after two writes, so its
			// newer values live in another bucket than its older ones
			c.Cfg.Buckets = rapid.SampledFrom([]int{2, 3}).Draw(t, "hcBuckets")
			c.Cfg.HotBuckets = 1
			c.Cfg.HotAfter = 2
			c.Cfg.VlogFileSize = 64 << 10
		}
	}
	maxOps := p.MaxOps
	if maxOps == 0 {
		maxOps = 70
	}
	n := rapid.IntRange(5, maxOps).Draw(t, "nops")
	kinds := p.OpKinds
	for i := 0; i < n; i++ {
		op := Op{K: rapid.SampledFrom(kinds).Draw(t, "op")}
		switch op.K {
		case "set", "del", "get":
			op.CF = byte(rapid.SampledFrom([]int{0, 0, 0, 1, 2}).Draw(t, "cf"))
			op.Key = rapid.IntRange(0, len(c.Keys)-1).Draw(t, "key")
			if op.K == "set" {
				op.VSize = rapid.SampledFrom(p.ValueSizes).Draw(t, "vsize")
			}
		case "maint":
			op.M = eng.GenMaint(t)
			op.M.Kind = rapid.SampledFrom(p.MaintKinds).Draw(t, "mkind2")
			if op.M.Kind == "l0l0" && pbt.Open("C01-F1b") {
				op.M.Kind = "compact"
			}
		}
		c.Ops = append(c.Ops, op)
	}
	return c
}

// prefixFree drops keys that are a proper prefix of (or have as proper prefix) an earlier key.
func prefixFree(keys [][]byte) [][]byte {
	var out [][]byte
	for _, k := range keys {
		ok := true
		for _, o := range out {
			if bytes.HasPrefix(k, o) || bytes.HasPrefix(o, k) {
				ok = false
			}
		}
		if ok {
			out = append(out, k)
		}
	}
	return out
}

type mkey struct {
	cf  byte
	key string
}

type mval struct {
	val     []byte
	deleted bool
	hist    [][]byte // every value ever written to this key (for tainted reads)
	everDel bool
	// bookkeeping for the non-trivial rule
	flushedAfter, compactedAfter, gcAfter bool
	overwrites                   int
	vlog                         bool
}

// Run executes a case against a fresh database and the reference model.
func Run(c Case, r *pbt.Rec) (err error) {
	if len(c.Keys) == 0 {
		return nil
	}
	dir, cleanup := pbt.TempDir("c01")
	defer cleanup()
	db, err := eng.Open(c.Cfg, dir, nil)
	if err != nil {
		return pbt.Failf("open", "%v", err)
	}
	defer func() {
		if db != nil {
			if cerr := eng.Close(db); cerr != nil && err == nil {
				err = pbt.Failf("close", "Close failed: %v", cerr)
			}
		}
	}()
	r.Label("engine:" + c.Cfg.Engine)
	model := map[mkey]*mval{}
	nt := false
	trk := eng.NewTracker()
	f1c := pbt.Open("C01-F1c")

	readCheck := func(step int, cf byte, key []byte) error {
		mk := mkey{cf, string(key)}
		mv := model[mk]
		e, gerr := db.GetCF(kv.ColumnFamily(cf), key)
		wantPresent := mv != nil && !mv.deleted
		if gerr != nil && !errors.Is(gerr, utils.ErrKeyNotFound) {
			if f1c && mv != nil && trk.Tainted(eng.BaseKey(cf, key)) {
				// the stale copy that wins under the listed finding may point into a value-log
				// file GC has meanwhile removed: same root cause, counted as excluded
				r.Excluded(1)
				r.Label("tainted-read-error")
				return nil
			}
			return pbt.Failf("get-error", "step %d: GetCF(cf=%d,%q) unexpected error: %v", step, cf, key, gerr)
		}
		gotPresent := gerr == nil && e != nil
		if f1c && mv != nil && trk.Tainted(eng.BaseKey(cf, key)) {
			// open finding C01-F1c: two equal-version copies in one ingest buffer; only membership is judged
			r.Excluded(1)
			r.Label("tainted-read")
			if !gotPresent {
				if !mv.everDel {
					return pbt.Failf("lost", "step %d: GetCF(cf=%d,%q) = not found but the key was never deleted", step, cf, key)
				}
				return nil
			}
			for _, h := range mv.hist {
				if bytes.Equal(h, e.Value) {
					return nil
				}
			}
			return pbt.Failf("invented", "step %d: GetCF(cf=%d,%q) = %s which was never written to this key", step, cf, key, brief(e.Value))
		}
		if gotPresent != wantPresent {
			if wantPresent {
				return pbt.Failf("lost", "step %d: GetCF(cf=%d,%q) = not found, want value of %d bytes (written by the last successful Set)", step, cf, key, len(mv.val))
			}
			return pbt.Failf("resurrected", "step %d: GetCF(cf=%d,%q) = %d-byte value, want not found (last write was a delete or none)", step, cf, key, len(e.Value))
		}
		if gotPresent && !bytes.Equal(e.Value, mv.val) {
			return pbt.Failf("stale", "step %d: GetCF(cf=%d,%q) = %s, want %s [layout tracker: %s]", step, cf, key, brief(e.Value), brief(mv.val), trk.Describe(eng.BaseKey(cf, key)))
		}
		if c.NTRule == "gc" {
			if mv != nil && mv.gcAfter && mv.overwrites > 0 && mv.vlog {
				nt = true
				r.Label("nt-read:after-gc")
			}
		} else if mv != nil && mv.flushedAfter && mv.compactedAfter && mv.overwrites > 0 {
			nt = true
			if mv.vlog {
				r.Label("nt-read:vlog")
			} else {
				r.Label("nt-read:inline")
			}
		}
		return nil
	}
	fullCheck := func(step int) error {
		for cf := byte(0); cf < 3; cf++ {
			for _, k := range c.Keys {
				if err := readCheck(step, cf, k); err != nil {
					return err
				}
			}
		}
		return nil
	}

	for i, op := range c.Ops {
		switch op.K {
		case "set", "del":
			key := c.Keys[op.Key%len(c.Keys)]
			mk := mkey{op.CF, string(key)}
			var werr error
			var val []byte
			if op.K == "set" {
				val = eng.Value(i, op.VSize)
				werr = db.SetCF(kv.ColumnFamily(op.CF), key, val)
			} else {
				werr = db.DelCF(kv.ColumnFamily(op.CF), key)
			}
			if werr != nil {
				return pbt.Failf("write-error", "step %d: %s(cf=%d,%q) failed: %v", i, op.K, op.CF, key, werr)
			}
			prev := model[mk]
			nv := &mval{val: val, deleted: op.K == "del", vlog: int64(len(val)) >= c.Cfg.ValueThreshold}
			if prev != nil {
				nv.overwrites = prev.overwrites + 1
				nv.hist, nv.everDel = prev.hist, prev.everDel
			}
			if op.K == "set" {
				nv.hist = append(nv.hist, val)
			} else {
				nv.everDel = true
			}
			model[mk] = nv
			trk.Wrote(eng.BaseKey(op.CF, key))
			r.Label("op:" + op.K)
			if err := readCheck(i, op.CF, key); err != nil {
				return err
			}
		case "get":
			key := c.Keys[op.Key%len(c.Keys)]
			if err := readCheck(i, op.CF, key); err != nil {
				return err
			}
		case "maint":
			what, merr := eng.DoMaint(db, op.M, r)
			if merr != nil {
				return pbt.Failf("maint-error", "step %d: %v", i, merr)
			}
			if what != "" {
				if op.M.Kind == "rewrite" || op.M.Kind == "gc" {
					var ks []string
					for mk := range model {
						ks = append(ks, eng.BaseKey(mk.cf, []byte(mk.key)))
					}
					trk.MaybeRewrote(ks)
				}
				trk.Sync(db.VerifLSM().VerifLayout(), what == "flush")
				if os.Getenv("VERIF_TRACE") != "" {
					lay := ""
					for _, ti := range db.VerifLSM().VerifLayout() {
						lay += fmt.Sprintf(" L%d/ing=%v/fid=%d", ti.Level, ti.Ingest, ti.FID)
					}
					fmt.Printf("TRACE step %d %s -> %s unknown=%v layout:%s\n", i, op.M.Kind, what, trk.Unknown, lay)
				}
			}
			if what == "flush" {
				for _, mv := range model {
					mv.flushedAfter = true
				}
			} else if what != "" {
				for _, mv := range model {
					if mv.flushedAfter {
						mv.compactedAfter = true
					}
					if op.M.Kind == "rewrite" || op.M.Kind == "gc" {
						mv.gcAfter = true
					}
				}
			}
			if what != "" {
				if err := fullCheck(i); err != nil {
					return fmt.Errorf("after %s: %w", what, err)
				}
			}
		case "reopen":
			if cerr := eng.Close(db); cerr != nil {
				db = nil
				return pbt.Failf("close", "step %d: Close failed: %v", i, cerr)
			}
			db, err = eng.Open(c.Cfg, dir, nil)
			if err != nil {
				db = nil
				return pbt.Failf("reopen", "step %d: reopen failed: %v", i, err)
			}
			r.Label("op:reopen")
			if os.Getenv("VERIF_TRACE") != "" {
				lay := ""
				for _, ti := range db.VerifLSM().VerifLayout() {
					lay += fmt.Sprintf(" L%d/ing=%v/fid=%d", ti.Level, ti.Ingest, ti.FID)
				}
				fmt.Printf("TRACE step %d reopen layout:%s\n", i, lay)
			}
			trk.Sync(db.VerifLSM().VerifLayout(), false)
			if err := fullCheck(i); err != nil {
				return fmt.Errorf("after reopen: %w", err)
			}
		}
		if i%8 == 7 {
			if err := fullCheck(i); err != nil {
				return err
			}
		}
	}
	if err := fullCheck(len(c.Ops)); err != nil {
		return err
	}
	if nt {
		r.NT()
	}
	return nil
}

func brief(b []byte) string {
	if len(b) <= 12 {
		return fmt.Sprintf("%x", b)
	}
	return fmt.Sprintf("%x…(%d bytes)", b[:12], len(b))
}

