// Package deps pins every module the harness may use so go.mod/go.sum are complete
// before several check packages are built concurrently.
package deps

import (
	_ "github.com/anishathalye/porcupine"
	_ "github.com/feichai0017/NoKV"
	_ "github.com/feichai0017/NoKV/config"
	_ "github.com/feichai0017/NoKV/pd/client"
	_ "github.com/feichai0017/NoKV/pd/server"
	_ "github.com/feichai0017/NoKV/pd/storage"
	_ "github.com/feichai0017/NoKV/percolator"
	_ "github.com/feichai0017/NoKV/percolator/latch"
	_ "github.com/feichai0017/NoKV/raftstore/client"
	_ "github.com/feichai0017/NoKV/raftstore/kv"
	_ "github.com/feichai0017/NoKV/raftstore/server"
	_ "github.com/feichai0017/NoKV/raftstore/store"
	_ "github.com/stretchr/testify/require"
	_ "go.etcd.io/raft/v3"
	_ "google.golang.org/grpc"
	_ "google.golang.org/grpc/test/bufconn"
	_ "pgregory.net/rapid"
)
