package sched

import (
	"fmt"
	"reflect"
	"sync"
	"testing"
	"time"
)

func runCounter(choices []int) (string, *Result) {
	var log []string
	s := New(Config{Choices: choices})
	for i := 0; i < 3; i++ {
		i := i
		s.Go(fmt.Sprintf("w%d", i), func(w *Worker) {
			for k := 0; k < 3; k++ {
				log = append(log, fmt.Sprintf("%d.%d", i, k))
				s.Yield("y") // through the engine hook path (goid lookup)
			}
		})
	}
	res := s.Run()
	return fmt.Sprint(log), res
}

func TestDeterministic(t *testing.T) {
	a, ra := runCounter([]int{2, 1, 0, 5, 7, 1, 1, 0, 2})
	b, rb := runCounter([]int{2, 1, 0, 5, 7, 1, 1, 0, 2})
	if a != b || !reflect.DeepEqual(ra.Trace, rb.Trace) {
		t.Fatalf("not deterministic:\n%s\n%s", a, b)
	}
	c, _ := runCounter(nil)
	if c != "[0.0 0.1 0.2 1.0 1.1 1.2 2.0 2.1 2.2]" {
		t.Fatalf("exhausted choices must run lowest id first: %s", c)
	}
	if a == c {
		t.Fatalf("choices had no effect")
	}
	if ra.Err != nil || ra.Hung || len(ra.Panics) > 0 {
		t.Fatalf("%+v", ra)
	}
}

func TestBlockingAndWake(t *testing.T) {
	for rep := 0; rep < 50; rep++ {
		ch := make(chan struct{})
		var mu sync.Mutex
		var log []string
		s := New(Config{Choices: []int{0, 0, 1, 0, 0, 0, 0, 0}})
		s.Go("waiter", func(w *Worker) {
			<-ch // blocks: scheduler must move on
			log = append(log, "woken")
			w.Yield("after")
			log = append(log, "waiter-end")
		})
		s.Go("locker", func(w *Worker) {
			mu.Lock()
			w.Yield("holding")
			log = append(log, "unlock")
			mu.Unlock()
		})
		s.Go("contender", func(w *Worker) {
			mu.Lock() // blocks while locker is parked holding mu
			log = append(log, "got-lock")
			mu.Unlock()
			log = append(log, "closed")
			close(ch)
		})
		res := s.Run()
		if res.Err != nil || res.Hung {
			t.Fatalf("rep %d: %+v", rep, res)
		}
		want := "[unlock got-lock closed woken waiter-end]"
		if fmt.Sprint(log) != want {
			t.Fatalf("rep %d: got %v want %s trace %s", rep, log, want, res.TraceString())
		}
		if res.BlockedSeen < 2 {
			t.Fatalf("blocked not seen: %+v", res)
		}
	}
}

func TestHangAndOnHang(t *testing.T) {
	ch := make(chan struct{})
	s := New(Config{OnStop: func() { close(ch) }})
	s.Go("w", func(w *Worker) { <-ch })
	start := time.Now()
	res := s.Run()
	if !res.Hung || res.Err != nil {
		t.Fatalf("%+v", res)
	}
	if time.Since(start) > time.Second {
		t.Fatalf("classified hang should be fast, took %v", time.Since(start))
	}

	ch2 := make(chan struct{})
	calls := 0
	s = New(Config{OnHang: func(b []*Worker) bool { calls++; close(ch2); return true }})
	done := false
	s.Go("w", func(w *Worker) { <-ch2; w.Yield("x"); done = true })
	res = s.Run()
	if res.Hung || !done || calls != 1 || res.Err != nil {
		t.Fatalf("%+v done=%v calls=%d", res, done, calls)
	}
}

func TestAwaitAndGuardDeadlock(t *testing.T) {
	flag := false
	var log []string
	s := New(Config{})
	s.Go("a", func(w *Worker) {
		w.Await("wait-flag", func() bool { return flag })
		log = append(log, "a")
	})
	s.Go("b", func(w *Worker) {
		w.Yield("y")
		flag = true
		log = append(log, "b")
	})
	res := s.Run()
	if fmt.Sprint(log) != "[b a]" || res.Hung {
		t.Fatalf("%v %+v", log, res)
	}
	s = New(Config{})
	s.Go("a", func(w *Worker) { w.Await("never", func() bool { return false }) })
	res = s.Run()
	if !res.Hung || res.Err != nil {
		t.Fatalf("%+v", res)
	}
}

func TestNonWorkerPassesThroughAndPanic(t *testing.T) {
	s := New(Config{Filter: func(l string) bool { return l != "skip" }})
	bg := make(chan struct{})
	s.Go("a", func(w *Worker) {
		go func() { s.Yield("bg"); close(bg) }() // unregistered goroutine: must not park
		<-bg
		s.Yield("skip") // filtered
		panic("boom")
	})
	res := s.Run()
	if len(res.Panics) != 1 || res.Err != nil {
		t.Fatalf("%+v", res)
	}
	for _, st := range res.Trace {
		if st.To == "skip" || st.To == "bg" {
			t.Fatalf("parked at %s", st.To)
		}
	}
}

func TestStopTearsDown(t *testing.T) {
	ch := make(chan struct{})
	s := New(Config{
		AfterStep: func(st Step) error {
			if st.N == 2 {
				return fmt.Errorf("stop")
			}
			return nil
		},
		OnStop: func() { close(ch) },
	})
	s.Go("blocked", func(w *Worker) { <-ch })
	s.Go("spinner", func(w *Worker) {
		for {
			w.Yield("y")
		}
	})
	res := s.Run()
	if res.Stop == nil || res.Err != nil {
		t.Fatalf("%+v", res)
	}
}
