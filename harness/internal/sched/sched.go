// Package sched is a small deterministic cooperative scheduler for exploring
// thread interleavings of real (unmodified) concurrent code.
//
// # Model
//
// A run consists of a fixed set of workers.  Each worker is a goroutine
// executing a script (a Go func).  Workers stop ("park") at yield points:
//
//   - engine yield points: the code under test calls a hook at labelled places
//     (in NoKV: utils.VerifYield(label), build tag verif).  Install
//     (*Scheduler).Yield as that hook: utils.SetVerifYield(s.Yield).  A call
//     made by a goroutine that is not a registered worker returns immediately,
//     so background goroutines of the engine are never parked.
//   - script yield points: (*Worker).Yield(label) and (*Worker).Await(label,
//     cond).  Await parks the worker until cond() is true; cond is evaluated by
//     the scheduler between steps (while no worker runs), which gives scripts a
//     cooperative way to model locks and "enabled" guards without real blocking.
//
// The scheduler releases exactly ONE parked worker at a time.  Which one is
// decided by the choice sequence Config.Choices: at decision k the runnable
// workers (parked, guard true) are sorted by id and runnable[Choices[k] mod
// len(runnable)] is released; when the sequence is exhausted 0 is used.  The
// schedule is therefore plain data ([]int) that a property-based-testing
// library can draw and shrink.
//
// A released worker runs until (a) its next yield point, (b) the end of its
// script, or (c) it BLOCKS inside the code under test (channel wait, mutex held
// by a parked worker, ...).  Blocking is detected from the goroutine's
// scheduler state reported by runtime.Stack ("chan receive", "select",
// "sync.Mutex.Lock", "sync.Cond.Wait", ...): a worker seen in such a wait state
// continuously for Config.BlockConfirm (default 1ms, >= 3 samples; this filters
// short runtime-internal waits such as GC assists) is "blocked", is left alone
// in the background, and another worker is scheduled.
// When a blocked worker is woken by somebody else's action it continues to its
// next yield point and simply parks there; a step is only complete when every
// woken worker has parked, finished or blocked again, so what a step contains
// does not depend on timing.  If the state cannot be classified, a worker that
// made no progress for Config.Grace is treated as blocked (fallback).
//
// After every step Config.AfterStep is called on the scheduler goroutine; no
// worker runs at that moment, so the callback may inspect the system under test
// and a reference model without races.  This is where oracles live.
//
// # Determinism and soundness
//
// With yield points only, a run is a pure function of (scripts, Choices).  With
// blocking calls the run is deterministic as long as the engine's own wake-ups
// are (a woken worker's continuation up to its next yield runs concurrently
// with nothing else, because the step is not closed before it parks).  The one
// residual timing dependence is the classification fallback (Grace) and engine
// timers; an oracle must therefore only judge events it has observed (calls and
// returns recorded by the scripts), never "what should have happened by now".
// A schedule that is replayed may in rare cases diverge at a blocking call; the
// observed history is then different but still a real history.
//
// # Hangs
//
// If no worker is runnable and not all have finished, Config.OnHang is consulted
// (it may e.g. cancel contexts and return true to continue).  Otherwise the run
// ends with Result.Hung = true: a hang is reported as such and is NOT by itself
// a property violation - the caller decides (deadlock properties) or reports the
// case as inconclusive.  If workers are blocked in unclassifiable states the
// scheduler waits Config.HangTimeout before declaring the hang.
//
// # Minimal use
//
//	s := sched.New(sched.Config{Choices: c.Sched, AfterStep: oracle})
//	s.Go("w0", func(w *sched.Worker) { obj.A(); w.Yield("between"); obj.B() })
//	s.Go("w1", func(w *sched.Worker) { obj.C() })
//	utils.SetVerifYield(s.Yield); defer utils.SetVerifYield(nil)
//	res := s.Run()
//
// A Scheduler is single-use.  Several schedulers must not run concurrently in
// one process when they share one global engine hook.
package sched

import (
	"bytes"
	"fmt"
	"runtime"
	"runtime/debug"
	"sort"
	"strconv"
	"strings"
	"sync"
	"sync/atomic"
	"time"
)

// Config parameterises one run.
type Config struct {
	// Choices is the schedule (see package comment).
	Choices []int
	// Filter, if set, is a cheap label pre-filter called on EVERY hook call, before
	// the calling goroutine is identified (identification costs ~1µs).  Returning
	// false makes the call a no-op.  It may be called concurrently by non-workers.
	Filter func(label string) bool
	// Park, if set, decides whether worker w parks at an engine yield point.
	// It runs on w's goroutine.  Script yields (Worker.Yield/Await) always park.
	Park func(w *Worker, label string) bool
	// AfterStep is called after every step with no worker running.  A non-nil
	// error stops the run and is returned in Result.Stop.
	AfterStep func(st Step) error
	// OnHang is called when nobody is runnable and unfinished workers remain.
	// Return true after taking an action that can unblock somebody (the scheduler
	// then re-evaluates); return false to end the run as hung.
	OnHang func(blocked []*Worker) bool
	// OnStop is called once when the run ends (normally or not), before remaining
	// workers are torn down: cancel contexts / close the object here so that
	// workers blocked inside the code under test can return.
	OnStop func()
	// MaxSteps bounds the run (default 100000); exceeding it sets Result.Err.
	MaxSteps int
	// Grace: a released worker in an unclassifiable state that made no progress for
	// this long is treated as blocked (default 5ms).
	Grace time.Duration
	// BlockConfirm: a worker is only declared blocked after its goroutine has been
	// seen in a wait state continuously (at least 3 samples, no event in between) for
	// this long (default 1ms).  This filters runtime-internal waits (GC, allocation)
	// which would otherwise let two workers run at the same time.
	BlockConfirm time.Duration
	// StepTimeout: a released worker that keeps running (never yields, never blocks)
	// for this long is a harness problem (default 10s) -> Result.Err.
	StepTimeout time.Duration
	// HangTimeout: how long to wait before declaring a hang when blocked workers are
	// in unclassifiable states (default 2s).  With classifiable states the hang is
	// declared after two consistent observations, without waiting.
	HangTimeout time.Duration
	// TraceLimit: number of steps kept in Result.Trace (default 256).
	TraceLimit int
}

// Step describes one completed scheduling step.
type Step struct {
	N      int    // step number, from 0
	Worker int    // id of the released worker
	From   string // label it was released from
	To     string // where it stopped: a label, EndLabel or BlockedLabel
	Woken  []int  // blocked workers that were woken during this step and parked/finished
}

const (
	StartLabel   = "<start>"
	EndLabel     = "<end>"
	BlockedLabel = "<blocked>"
)

func (s Step) String() string {
	return fmt.Sprintf("#%d w%d %s->%s", s.N, s.Worker, s.From, s.To)
}

// Result is what Run returns.
type Result struct {
	Steps       int
	ChoicesUsed int
	Stop        error    // error returned by AfterStep, if any
	Hung        bool     // nobody runnable, unfinished workers remain
	HungAt      []string // "name@label" of the unfinished workers
	Panics      []string // panics raised by worker scripts (with stack)
	Err         error    // harness trouble: runaway worker, step limit, leaked goroutines
	Trace       []Step
	BlockedSeen int // number of times a worker was classified as blocked
}

// TraceString renders the kept trace compactly.
func (r *Result) TraceString() string {
	var b strings.Builder
	for i, st := range r.Trace {
		if i > 0 {
			b.WriteString(" | ")
		}
		fmt.Fprintf(&b, "w%d:%s", st.Worker, st.To)
	}
	return b.String()
}

type wstate int32

const (
	stNew wstate = iota
	stParked
	stRunning
	stBlocked
	stFinished
)

// Worker is one scripted goroutine.
type Worker struct {
	ID   int
	Name string
	// Data is free for the script owner (e.g. per-worker flags read by Config.Park).
	Data any

	s      *Scheduler
	fn     func(w *Worker)
	gid    uint64
	resume chan bool // true = continue, false = abort
	// owned by the scheduler goroutine:
	state       wstate
	waitSince   time.Time // first sample of the current uninterrupted wait state
	waitSamples int
	label       string
	cond        func() bool
}

// Label is the label the worker is parked at (valid inside AfterStep/OnHang).
func (w *Worker) Label() string { return w.label }

type evKind int

const (
	evParked evKind = iota
	evFinished
)

type event struct {
	w     *Worker
	kind  evKind
	label string
	cond  func() bool
	pan   string
}

// Scheduler runs one schedule.
type Scheduler struct {
	cfg      Config
	workers  []*Worker
	byGID    sync.Map // uint64 -> *Worker
	events   chan event
	stopping atomic.Bool
	started  bool
}

// New creates a scheduler.
func New(cfg Config) *Scheduler {
	if cfg.MaxSteps <= 0 {
		cfg.MaxSteps = 100000
	}
	if cfg.Grace <= 0 {
		cfg.Grace = 5 * time.Millisecond
	}
	if cfg.BlockConfirm <= 0 {
		cfg.BlockConfirm = time.Millisecond
	}
	if cfg.StepTimeout <= 0 {
		cfg.StepTimeout = 10 * time.Second
	}
	if cfg.HangTimeout <= 0 {
		cfg.HangTimeout = 2 * time.Second
	}
	if cfg.TraceLimit <= 0 {
		cfg.TraceLimit = 256
	}
	return &Scheduler{cfg: cfg}
}

// Go registers a worker script; call before Run.  Worker ids are 0,1,2,... in
// registration order.
func (s *Scheduler) Go(name string, fn func(w *Worker)) *Worker {
	if s.started {
		panic("sched: Go after Run")
	}
	w := &Worker{ID: len(s.workers), Name: name, s: s, fn: fn, resume: make(chan bool, 1)}
	s.workers = append(s.workers, w)
	return w
}

// Workers returns the registered workers.
func (s *Scheduler) Workers() []*Worker { return s.workers }

// spinLabels: engine yield points inside a wait loop -> the label of the step the loop waits for.
var spinLabels = map[string]string{"wm.begin.awaitAdvance": "wm.advance.beforeCAS"}

// Yield is the engine hook: parks the calling goroutine if it is a registered
// worker (and the filters agree); returns immediately otherwise.
func (s *Scheduler) Yield(label string) {
	if bl, ok := spinLabels[label]; ok {
		// The engine spins here until a step another worker is in the middle of has been
		// taken.  Under a cooperative schedule that worker may be parked: wait for it
		// instead of spinning (a plain park could be re-chosen forever).
		if v, ok := s.byGID.Load(goid()); ok {
			w := v.(*Worker)
			w.park(label, func() bool {
				for _, o := range s.workers {
					if o != w && o.state != stFinished && o.label == bl {
						return false
					}
				}
				return true
			})
		}
		return
	}
	if s.cfg.Filter != nil && !s.cfg.Filter(label) {
		return
	}
	v, ok := s.byGID.Load(goid())
	if !ok {
		return
	}
	w := v.(*Worker)
	if s.cfg.Park != nil && !s.cfg.Park(w, label) {
		return
	}
	w.park(label, nil)
}

// Yield is a script-level yield point.
func (w *Worker) Yield(label string) { w.park(label, nil) }

// Await parks the worker until cond() holds.  cond is evaluated by the scheduler
// between steps; it must be cheap and must not block.
func (w *Worker) Await(label string, cond func() bool) { w.park(label, cond) }

func (w *Worker) park(label string, cond func() bool) {
	if w.s.stopping.Load() {
		runtime.Goexit()
	}
	w.s.events <- event{w: w, kind: evParked, label: label, cond: cond}
	if !<-w.resume {
		runtime.Goexit()
	}
}

func (s *Scheduler) launch(w *Worker) {
	ready := make(chan struct{})
	go func() {
		w.gid = goid()
		s.byGID.Store(w.gid, w)
		close(ready)
		defer func() {
			ev := event{w: w, kind: evFinished}
			if p := recover(); p != nil {
				ev.pan = fmt.Sprintf("worker %s panicked: %v\n%s", w.Name, p, clipStack(debug.Stack()))
			}
			s.byGID.Delete(w.gid)
			s.events <- ev
		}()
		w.park(StartLabel, nil)
		w.fn(w)
	}()
	<-ready
}

func clipStack(b []byte) string {
	l := strings.Split(string(b), "\n")
	if len(l) > 30 {
		l = l[:30]
	}
	return strings.Join(l, "\n")
}

// Run executes the schedule and tears all workers down before returning.
func (s *Scheduler) Run() *Result {
	if s.started {
		panic("sched: Run called twice")
	}
	s.started = true
	res := &Result{}
	n := len(s.workers)
	s.events = make(chan event, 4*n+4)
	for _, w := range s.workers {
		w.state = stRunning
		s.launch(w)
	}
	// all workers park at <start>
	for i := 0; i < n; i++ {
		s.apply(<-s.events, res)
	}
	timer := time.NewTimer(time.Hour)
	defer timer.Stop()

	choice := 0
	hangCalls := 0
loop:
	for {
		var runnable []*Worker
		unfinished := 0
		for _, w := range s.workers {
			if w.state != stFinished {
				unfinished++
			}
			if w.state == stParked && (w.cond == nil || w.cond()) {
				runnable = append(runnable, w)
			}
		}
		if unfinished == 0 {
			break
		}
		if len(runnable) == 0 {
			if s.settleHang(res, timer) {
				continue // somebody made progress on its own
			}
			var blocked []*Worker
			for _, w := range s.workers {
				if w.state != stFinished {
					blocked = append(blocked, w)
				}
			}
			if s.cfg.OnHang != nil && hangCalls < 64 {
				hangCalls++
				if s.cfg.OnHang(blocked) {
					// the callback did something: a guard may have become true, or
					// blocked workers may have been woken
					if s.anyRunnable() || s.waitAny(res, timer, s.cfg.HangTimeout) {
						continue
					}
				}
			}
			res.Hung = true
			for _, w := range blocked {
				lab := w.label
				if w.state == stBlocked {
					lab += "+" + BlockedLabel
				}
				res.HungAt = append(res.HungAt, w.Name+"@"+lab)
			}
			break
		}
		if res.Steps >= s.cfg.MaxSteps {
			res.Err = fmt.Errorf("sched: step limit %d exceeded", s.cfg.MaxSteps)
			break
		}
		sort.Slice(runnable, func(i, j int) bool { return runnable[i].ID < runnable[j].ID })
		c := 0
		if choice < len(s.cfg.Choices) {
			c = s.cfg.Choices[choice]
			if c < 0 {
				c = -c
			}
			res.ChoicesUsed = choice + 1
		}
		choice++
		x := runnable[c%len(runnable)]
		st := Step{N: res.Steps, Worker: x.ID, From: x.label}
		x.state = stRunning
		x.cond = nil
		x.waitSince = time.Time{}
		x.resume <- true
		if err := s.settle(x, &st, res, timer); err != nil {
			res.Err = err
			break loop
		}
		switch x.state {
		case stFinished:
			st.To = EndLabel
		case stBlocked:
			st.To = BlockedLabel
			res.BlockedSeen++
		default:
			st.To = x.label
		}
		res.Steps++
		if len(res.Trace) < s.cfg.TraceLimit {
			res.Trace = append(res.Trace, st)
		}
		if s.cfg.AfterStep != nil {
			if err := s.cfg.AfterStep(st); err != nil {
				res.Stop = err
				break
			}
		}
	}
	s.teardown(res)
	return res
}

func (s *Scheduler) anyRunnable() bool {
	for _, w := range s.workers {
		if w.state == stParked && (w.cond == nil || w.cond()) {
			return true
		}
	}
	return false
}

func (s *Scheduler) apply(ev event, res *Result) {
	w := ev.w
	switch ev.kind {
	case evParked:
		w.waitSince = time.Time{}
		w.state, w.label, w.cond = stParked, ev.label, ev.cond
	case evFinished:
		w.state, w.label, w.cond = stFinished, EndLabel, nil
		if ev.pan != "" {
			res.Panics = append(res.Panics, ev.pan)
		}
	}
}

// settle waits until the released worker x and every worker woken meanwhile has
// parked, finished or blocked.
func (s *Scheduler) settle(x *Worker, st *Step, res *Result, timer *time.Timer) error {
	start := time.Now()
	poll := 30 * time.Microsecond
	var lastUnknown time.Time
	take := func(ev event) {
		if ev.w != x {
			st.Woken = append(st.Woken, ev.w.ID)
		}
		s.apply(ev, res)
	}
	drain := func() {
		for {
			select {
			case ev := <-s.events:
				take(ev)
			default:
				return
			}
		}
	}
	moving := func() (m []*Worker) {
		for _, w := range s.workers {
			if w.state == stRunning || w.state == stBlocked {
				m = append(m, w)
			}
		}
		return m
	}
	for {
		// fast path: wait for an event (the common case: x reaches its next yield
		// within microseconds) before paying for a goroutine dump.
		got := false
		timer.Reset(poll)
		select {
		case ev := <-s.events:
			if !timer.Stop() {
				select {
				case <-timer.C:
				default:
				}
			}
			take(ev)
			got = true
		case <-timer.C:
		}
		drain()
		mv := moving()
		if len(mv) == 0 {
			return nil
		}
		if got {
			running := false
			for _, w := range mv {
				if w.state == stRunning {
					running = true
				}
			}
			if running {
				continue
			}
		}
		states := goStates()
		// A worker sends its event BEFORE it waits on its resume channel, so an
		// event that explains a wait state is already queued: drain again.
		drain()
		mv = moving()
		if len(mv) == 0 {
			return nil
		}
		busy, unknown := false, false
		for _, w := range mv {
			switch classify(states[w.gid]) {
			case clsBlocked:
				if w.state == stBlocked {
					break // confirmed earlier, still waiting
				}
				if w.waitSince.IsZero() {
					w.waitSince, w.waitSamples = time.Now(), 1
					busy = true
				} else if w.waitSamples++; w.waitSamples >= 3 && time.Since(w.waitSince) >= s.cfg.BlockConfirm {
					w.state = stBlocked
					w.waitSince = time.Time{}
				} else {
					busy = true
				}
			case clsRunning:
				w.state = stRunning
				w.waitSince = time.Time{}
				busy = true
			default:
				w.waitSince = time.Time{}
				unknown = true
				if w.state == stRunning {
					busy = true
				}
			}
		}
		if !busy {
			return nil
		}
		if unknown {
			if lastUnknown.IsZero() {
				lastUnknown = time.Now()
			} else if time.Since(lastUnknown) > s.cfg.Grace {
				// fallback: no classifiable progress for Grace => treat as blocked
				for _, w := range mv {
					if w.state == stRunning && classify(states[w.gid]) == clsUnknown {
						w.state = stBlocked
					}
				}
				lastUnknown = time.Time{}
				continue
			}
		}
		if time.Since(start) > s.cfg.StepTimeout {
			return fmt.Errorf("sched: worker(s) still running after %v without reaching a yield point (released w%d from %s)", s.cfg.StepTimeout, x.ID, st.From)
		}
		if poll < 400*time.Microsecond {
			poll *= 2
		}
	}
}

// settleHang is used when nobody is runnable: returns true if some worker
// parked/finished on its own (e.g. an engine timer fired).
func (s *Scheduler) settleHang(res *Result, timer *time.Timer) bool {
	anyBlocked := false
	for _, w := range s.workers {
		if w.state == stBlocked || w.state == stRunning {
			anyBlocked = true
		}
	}
	if !anyBlocked {
		return false // only parked workers with false guards: a pure guard deadlock
	}
	// two consistent observations of "everybody in a wait state" => hang
	allClassified := true
	for i := 0; i < 2; i++ {
		select {
		case ev := <-s.events:
			s.apply(ev, res)
			return true
		default:
		}
		states := goStates()
		for _, w := range s.workers {
			if w.state == stBlocked || w.state == stRunning {
				if classify(states[w.gid]) != clsBlocked {
					allClassified = false
				}
			}
		}
		if !allClassified {
			break
		}
		time.Sleep(200 * time.Microsecond)
	}
	if allClassified {
		select {
		case ev := <-s.events:
			s.apply(ev, res)
			return true
		default:
			return false
		}
	}
	return s.waitAny(res, timer, s.cfg.HangTimeout)
}

func (s *Scheduler) waitAny(res *Result, timer *time.Timer, d time.Duration) bool {
	timer.Reset(d)
	select {
	case ev := <-s.events:
		if !timer.Stop() {
			select {
			case <-timer.C:
			default:
			}
		}
		s.apply(ev, res)
		// let the rest of the woken workers settle too
		dummy := &Step{}
		_ = s.settle(ev.w, dummy, res, timer)
		return true
	case <-timer.C:
		return false
	}
}

func (s *Scheduler) teardown(res *Result) {
	s.stopping.Store(true)
	if s.cfg.OnStop != nil {
		s.cfg.OnStop()
	}
	for _, w := range s.workers {
		if w.state == stParked {
			w.state = stRunning
			w.resume <- false
		}
	}
	deadline := time.After(3 * time.Second)
	for {
		left := 0
		for _, w := range s.workers {
			if w.state != stFinished {
				left++
			}
		}
		if left == 0 {
			return
		}
		select {
		case ev := <-s.events:
			if ev.kind == evParked {
				// raced with stopping: it will Goexit on its own after we answer
				ev.w.resume <- false
				continue
			}
			s.apply(ev, res)
		case <-deadline:
			if res.Err == nil {
				res.Err = fmt.Errorf("sched: %d worker goroutine(s) could not be torn down (leaked)", left)
			}
			return
		}
	}
}

// ---- goroutine identity and state

func goid() uint64 {
	var buf [64]byte
	n := runtime.Stack(buf[:], false)
	// "goroutine 123 [running]:"
	b := buf[:n]
	b = bytes.TrimPrefix(b, []byte("goroutine "))
	i := bytes.IndexByte(b, ' ')
	if i < 0 {
		return 0
	}
	id, _ := strconv.ParseUint(string(b[:i]), 10, 64)
	return id
}

var stackBuf struct {
	sync.Mutex
	b []byte
}

// goStates returns goroutine id -> state string ("running", "chan receive", ...).
func goStates() map[uint64]string {
	stackBuf.Lock()
	defer stackBuf.Unlock()
	if stackBuf.b == nil {
		stackBuf.b = make([]byte, 256<<10)
	}
	var n int
	for {
		n = runtime.Stack(stackBuf.b, true)
		if n < len(stackBuf.b) || len(stackBuf.b) >= 64<<20 {
			break
		}
		stackBuf.b = make([]byte, 2*len(stackBuf.b))
	}
	out := map[uint64]string{}
	b := stackBuf.b[:n]
	for len(b) > 0 {
		line := b
		if i := bytes.IndexByte(b, '\n'); i >= 0 {
			line, b = b[:i], b[i+1:]
		} else {
			b = nil
		}
		if !bytes.HasPrefix(line, []byte("goroutine ")) {
			continue
		}
		rest := line[len("goroutine "):]
		sp := bytes.IndexByte(rest, ' ')
		if sp < 0 {
			continue
		}
		id, err := strconv.ParseUint(string(rest[:sp]), 10, 64)
		if err != nil {
			continue
		}
		lb := bytes.IndexByte(rest, '[')
		rb := bytes.LastIndexByte(rest, ']')
		if lb < 0 || rb < lb {
			continue
		}
		stt := string(rest[lb+1 : rb])
		if c := strings.IndexByte(stt, ','); c >= 0 {
			stt = stt[:c]
		}
		out[id] = strings.TrimSpace(stt)
	}
	return out
}

type cls int

const (
	clsUnknown cls = iota
	clsRunning
	clsBlocked
)

func classify(state string) cls {
	state = strings.TrimSuffix(state, " (scan)")
	switch {
	case state == "":
		return clsUnknown
	case state == "running", state == "runnable", state == "syscall", state == "preempted",
		state == "copystack", strings.HasPrefix(state, "GC "), state == "force gc (idle)":
		return clsRunning
	case state == "chan receive", state == "chan send", state == "select",
		strings.HasPrefix(state, "chan receive"), strings.HasPrefix(state, "chan send"),
		strings.HasPrefix(state, "select"),
		strings.HasPrefix(state, "sync."), state == "sleep",
		state == "IO wait", state == "timer goroutine (idle)":
		return clsBlocked
	}
	return clsUnknown
}
