// Package pbt is the shared runner of every check in /verif/harness.
//
// A check is a Suite (one property) made of Specs (sub-checks).  A Spec has a
// rapid generator producing a plain-data case C (JSON-serialisable) and a Run
// function executing the case against the real code with an explicit oracle.
// Because a case is data, the shrunk failing case *is* the replay file, and
// known findings / regression inputs are just committed case files.
//
// Phases per run (see DESIGN.md §2.6):
//  1. replay: known_findings.json entries and regress/<ID>/*.json
//  2. search: rapid.Check over Gen/Run, optionally sharded over child processes
//  3. evidence: /verif/evidence/<ID>.json
//
// Output contract: "VIOLATION property=<id> replay=<path>" and
// "KNOWN-FINDING: property=<id> <what>" lines on stdout; the driver (vcheck)
// turns them into exit codes.
package pbt

import (
	"bytes"
	"encoding/json"
	"flag"
	"fmt"
	"hash/fnv"
	"io"
	"log"
	"os"
	"os/exec"
	"path/filepath"
	"runtime"
	"runtime/debug"
	"sort"
	"strconv"
	"strings"
	"sync"
	"sync/atomic"
	"testing"
	"time"

	"pgregory.net/rapid"
)

// VerifRoot is where MANIFEST.json lives.
func VerifRoot() string {
	if v := os.Getenv("VERIF_ROOT"); v != "" {
		return v
	}
	return "/verif"
}

// Tier returns "quick" or "thorough".
func Tier() string {
	if os.Getenv("VERIF_TIER") == "thorough" {
		return "thorough"
	}
	return "quick"
}

// Seed returns VERIF_SEED (default 1).
func Seed() int64 {
	if v := os.Getenv("VERIF_SEED"); v != "" {
		if n, err := strconv.ParseInt(v, 10, 64); err == nil {
			return n
		}
	}
	return 1
}

// Rec is the per-case recorder handed to Run.
type Rec struct {
	labels     map[string]int
	nontrivial bool
	excluded   int
	ntKey      string
	sample     any
}

// Label counts an event class for the label histogram.
func (r *Rec) Label(s string) {
	if r.labels == nil {
		r.labels = map[string]int{}
	}
	r.labels[s]++
}

// LabelN adds n to a label.
func (r *Rec) LabelN(s string, n int) {
	if n == 0 {
		return
	}
	if r.labels == nil {
		r.labels = map[string]int{}
	}
	r.labels[s] += n
}

// NT marks the case as non-trivial by the suite's stated rule.
func (r *Rec) NT() { r.nontrivial = true }

// NTKey marks the case as non-trivial and overrides the fingerprint used for
// distinctness (default: hash of the case JSON).
func (r *Rec) NTKey(k string) { r.nontrivial = true; r.ntKey = k }

// Excluded counts draws steered away from an open known finding.
func (r *Rec) Excluded(n int) { r.excluded += n }

// Sample overrides how this case is rendered in evidence samples.
func (r *Rec) Sample(v any) { r.sample = v }

// Fail is an oracle failure with an optional signature (failure class).
type Fail struct {
	Sig string
	Msg string
}

func (f *Fail) Error() string {
	if f.Sig != "" {
		return "[" + f.Sig + "] " + f.Msg
	}
	return f.Msg
}

// Failf builds a *Fail.
func Failf(sig, format string, args ...any) error {
	return &Fail{Sig: sig, Msg: fmt.Sprintf(format, args...)}
}

// Spec is one generated sub-check.
type Spec[C any] struct {
	Name string
	Gen  func(t *rapid.T) C
	Run  func(c C, r *Rec) error
	// Cases per tier (total over all shards).
	Quick, Thorough int
	// Shards: number of child processes for the search phase (0/1 = in-process).
	Shards int
	// Nondet: Run depends on a real thread schedule; one observed failure with its
	// history is a violation even if the case does not fail again.
	Nondet bool
	// Timeout for the whole search phase of this spec (default 20 min quick, 6 h thorough).
	Timeout time.Duration
	// Static, if set, enumerates fixed cases (exhaustive domains) run before the search.
	Static func() []C
}

type runner interface {
	name() string
	shards() int
	cases() int
	quickCases() int
	timeout() time.Duration
	replay(raw json.RawMessage) (error, *Rec)
	search(seed uint64, n int, curFile string) partial
	static() partial
}

type partial struct {
	Spec        string            `json:"spec"`
	Evaluations int               `json:"evaluations"`
	Requested   int               `json:"requested"`
	NT          map[string]bool   `json:"nt"`
	Labels      map[string]int    `json:"labels"`
	Excluded    int               `json:"excluded"`
	Samples     []json.RawMessage `json:"samples"`
	FailCase    json.RawMessage   `json:"fail_case,omitempty"`
	FailMsg     string            `json:"fail_msg,omitempty"`
	FailSig     string            `json:"fail_sig,omitempty"`
	Flaky       bool              `json:"flaky,omitempty"`
	Exhaustive  bool              `json:"exhaustive,omitempty"`
	BudgetStop  int               `json:"budget_stop,omitempty"` // requested cases not run because the wall budget of the spec was used up
}

func (p *partial) merge(q partial) {
	p.Evaluations += q.Evaluations
	p.Requested += q.Requested
	p.BudgetStop += q.BudgetStop
	if p.NT == nil {
		p.NT = map[string]bool{}
	}
	for k := range q.NT {
		p.NT[k] = true
	}
	if p.Labels == nil {
		p.Labels = map[string]int{}
	}
	for k, v := range q.Labels {
		p.Labels[k] += v
	}
	p.Excluded += q.Excluded
	for _, s := range q.Samples {
		if len(p.Samples) < 4 {
			p.Samples = append(p.Samples, s)
		}
	}
	if p.FailCase == nil && q.FailCase != nil {
		p.FailCase, p.FailMsg, p.FailSig, p.Flaky = q.FailCase, q.FailMsg, q.FailSig, q.Flaky
	}
}

func (s *Spec[C]) name() string { return s.Name }
func (s *Spec[C]) shards() int {
	if s.Shards < 1 {
		return 1
	}
	if v := os.Getenv("VERIF_MAXSHARDS"); v != "" {
		if n, err := strconv.Atoi(v); err == nil && n >= 1 && n < s.Shards {
			return n
		}
	}
	return s.Shards
}
func (s *Spec[C]) quickCases() int { return s.Quick }
func (s *Spec[C]) cases() int {
	n := s.Quick
	if Tier() == "thorough" {
		n = s.Thorough
		if n == 0 {
			n = s.Quick * 20
		}
	}
	if v := os.Getenv("VERIF_CASES"); v != "" {
		if m, err := strconv.Atoi(v); err == nil {
			n = m
		}
	}
	return n
}
func (s *Spec[C]) timeout() time.Duration {
	if s.Timeout > 0 {
		if Tier() == "thorough" {
			return s.Timeout * 12
		}
		return s.Timeout
	}
	if Tier() == "thorough" {
		return 6 * time.Hour
	}
	return 20 * time.Minute
}

// budget is the wall-clock budget of one spec's search phase.  When it is used up the
// remaining requested cases are not generated (counted in the evidence as
// not_run_wall_budget); running out of budget is never a failure, but a run that got
// through less than a quarter of the quick case count is reported as inconclusive.
// VERIF_BUDGET_S overrides (0 = none); defaults: quick 8 min, thorough 20 min per spec.
func budget() time.Duration {
	if v := os.Getenv("VERIF_BUDGET_S"); v != "" {
		if n, err := strconv.Atoi(v); err == nil {
			return time.Duration(n) * time.Second
		}
	}
	if Tier() == "thorough" {
		return 20 * time.Minute
	}
	return 8 * time.Minute
}

// safeRun executes Run converting panics into failures.
func (s *Spec[C]) safeRun(c C, r *Rec) (err error) {
	defer func() {
		if p := recover(); p != nil {
			err = &Fail{Sig: "panic", Msg: fmt.Sprintf("panic: %v\n%s", p, trimStack(debug.Stack()))}
		}
	}()
	return s.Run(c, r)
}

func trimStack(b []byte) string {
	lines := strings.Split(string(b), "\n")
	if len(lines) > 40 {
		lines = lines[:40]
	}
	return strings.Join(lines, "\n")
}

func (s *Spec[C]) replay(raw json.RawMessage) (error, *Rec) {
	var c C
	dec := json.NewDecoder(bytes.NewReader(raw))
	if err := dec.Decode(&c); err != nil {
		return fmt.Errorf("replay: cannot decode case for spec %s: %v", s.Name, err), nil
	}
	r := &Rec{}
	return s.safeRun(c, r), r
}

func fp(b []byte) string {
	h := fnv.New64a()
	h.Write(b)
	return strconv.FormatUint(h.Sum64(), 36)
}

func (s *Spec[C]) account(p *partial, c C, r *Rec) []byte {
	p.Evaluations++
	js, _ := json.Marshal(c)
	for k, v := range r.labels {
		p.Labels[k] += v
	}
	p.Excluded += r.excluded
	if r.nontrivial {
		p.Labels["nontrivial"]++
		k := r.ntKey
		if k == "" {
			k = fp(js)
		} else {
			k = fp([]byte(k))
		}
		if !p.NT[k] && len(p.Samples) < 4 {
			if r.sample != nil {
				if sj, err := json.Marshal(r.sample); err == nil {
					p.Samples = append(p.Samples, clip(sj))
				}
			} else {
				p.Samples = append(p.Samples, clip(js))
			}
		}
		p.NT[k] = true
	}
	return js
}

func clip(js []byte) json.RawMessage {
	if len(js) <= 3000 {
		return json.RawMessage(js)
	}
	q, _ := json.Marshal(string(js[:3000]) + "…(clipped)")
	return json.RawMessage(q)
}

func (s *Spec[C]) static() partial {
	p := partial{Spec: s.Name, NT: map[string]bool{}, Labels: map[string]int{}}
	if s.Static == nil {
		return p
	}
	for _, c := range s.Static() {
		r := &Rec{}
		err := s.safeRun(c, r)
		js := s.account(&p, c, r)
		if err != nil && p.FailCase == nil {
			p.FailCase, p.FailMsg = js, err.Error()
			if f, ok := err.(*Fail); ok {
				p.FailSig = f.Sig
			}
			break
		}
	}
	p.Requested = p.Evaluations
	p.Exhaustive = p.FailCase == nil
	return p
}

// recTB is the rapid.TB we hand to rapid.Check so a falsified property does not
// abort the Go test before we have written replay and evidence.
type recTB struct {
	mu     sync.Mutex
	failed bool
	log    bytes.Buffer
}

func (r *recTB) Helper()      {}
func (r *recTB) Name() string { return "verif" }
func (r *recTB) Logf(f string, a ...any) {
	r.mu.Lock()
	fmt.Fprintf(&r.log, f+"\n", a...)
	r.mu.Unlock()
}
func (r *recTB) Log(a ...any)            { r.Logf("%s", fmt.Sprint(a...)) }
func (r *recTB) Skipf(f string, a ...any) { runtime.Goexit() }
func (r *recTB) Skip(a ...any)           { runtime.Goexit() }
func (r *recTB) SkipNow()                { runtime.Goexit() }
func (r *recTB) Errorf(f string, a ...any) {
	r.Logf(f, a...)
	r.Fail()
}
func (r *recTB) Error(a ...any)            { r.Log(a...); r.Fail() }
func (r *recTB) Fatalf(f string, a ...any) { r.Errorf(f, a...); runtime.Goexit() }
func (r *recTB) Fatal(a ...any)            { r.Error(a...); runtime.Goexit() }
func (r *recTB) FailNow()                  { r.Fail(); runtime.Goexit() }
func (r *recTB) Fail()                     { r.mu.Lock(); r.failed = true; r.mu.Unlock() }
func (r *recTB) Failed() bool              { r.mu.Lock(); defer r.mu.Unlock(); return r.failed }

func (s *Spec[C]) search(seed uint64, n int, curFile string) partial {
	p := partial{Spec: s.Name, NT: map[string]bool{}, Labels: map[string]int{}, Requested: n}
	if n <= 0 || s.Gen == nil {
		return p
	}
	if seed == 0 {
		seed = 1
	}
	must(flag.Set("rapid.seed", strconv.FormatUint(seed, 10)))
	must(flag.Set("rapid.checks", strconv.Itoa(n)))
	must(flag.Set("rapid.nofailfile", "true"))
	if os.Getenv("VERIF_SHRINKTIME") != "" {
		must(flag.Set("rapid.shrinktime", os.Getenv("VERIF_SHRINKTIME")))
	} else {
		must(flag.Set("rapid.shrinktime", "45s"))
	}
	var (
		lastFail    []byte
		lastFailMsg string
		lastFailSig string
		failing     bool
	)
	tb := &recTB{}
	began, bud := time.Now(), budget()
	prop := func(t *rapid.T) {
		if bud > 0 && !failing && time.Since(began) > bud {
			p.BudgetStop++
			return
		}
		c := s.Gen(t)
		if curFile != "" {
			if js, err := json.Marshal(c); err == nil {
				_ = os.WriteFile(curFile, js, 0o644)
			}
		}
		r := &Rec{}
		err := s.safeRun(c, r)
		if !failing {
			// After the first failure rapid is shrinking/re-running: do not count those.
			js := s.account(&p, c, r)
			if err != nil {
				failing = true
				lastFail = js
			}
		}
		if err != nil {
			js, _ := json.Marshal(c)
			lastFail, lastFailMsg = js, err.Error()
			lastFailSig = ""
			if f, ok := err.(*Fail); ok {
				lastFailSig = f.Sig
			}
			t.Fatalf("%v", err)
		}
	}
	done := make(chan struct{})
	go func() {
		defer close(done)
		rapid.Check(tb, prop)
	}()
	<-done
	if tb.Failed() {
		if lastFail != nil {
			p.FailCase, p.FailMsg, p.FailSig = lastFail, lastFailMsg, lastFailSig
			if strings.Contains(tb.log.String(), "flaky test") {
				p.Flaky = true
			}
		} else {
			// rapid itself complained (e.g. generator could not produce valid cases)
			p.FailMsg = "rapid: " + tb.log.String()
			p.FailSig = "harness"
		}
	}
	return p
}

func must(err error) {
	if err != nil {
		panic(err)
	}
}

// Suite is one property's check.
type Suite struct {
	ID          string
	Level       string // exploration | fault_enumeration
	Rule        string
	Assumptions []string
	Exhaustive  bool // claim exhaustive:true when every Static enumerator completed and no Gen specs undercounted
	specs       []runner
	kf          []Finding
	extra       map[string]any
}

// Add registers a spec.
func Add[C any](s *Suite, spec *Spec[C]) { s.specs = append(s.specs, spec) }

// Extra adds a key to evidence coverage.
func (s *Suite) Extra(k string, v any) {
	if s.extra == nil {
		s.extra = map[string]any{}
	}
	s.extra[k] = v
}

// Finding is an entry of known_findings.json.
type Finding struct {
	Property  string `json:"property"`
	ID        string `json:"id"`
	Status    string `json:"status"` // open | fixed
	Commit    string `json:"commit,omitempty"`
	Signature string `json:"signature,omitempty"`
	Replay    string `json:"replay,omitempty"` // path relative to /verif
	What      string `json:"what"`
}

type replayFile struct {
	Property string          `json:"property"`
	Spec     string          `json:"spec"`
	Msg      string          `json:"msg,omitempty"`
	Case     json.RawMessage `json:"case"`
}

var (
	kfOnce    sync.Once
	kfAll     []Finding
	noExclude atomic.Bool
)

func loadKF() []Finding {
	kfOnce.Do(func() {
		kfPath := filepath.Join(VerifRoot(), "known_findings.json")
		if v := os.Getenv("VERIF_KF"); v != "" {
			kfPath = v // development only: draft findings file
		}
		b, err := os.ReadFile(kfPath)
		if err != nil {
			return
		}
		var f struct {
			Findings []Finding `json:"findings"`
		}
		if err := json.Unmarshal(b, &f); err != nil {
			panic("known_findings.json: " + err.Error())
		}
		kfAll = f.Findings
	})
	return kfAll
}

// Open reports whether finding id is listed as open (generators use it to steer
// away from the finding by construction; when the entry is fixed or absent the
// generator covers the area again).
func Open(id string) bool {
	if noExclude.Load() {
		return false // replaying an open finding: it must be reproduced without its exclusion
	}
	for _, f := range loadKF() {
		if f.ID == id && f.Status == "open" {
			return true
		}
	}
	return false
}

func (s *Suite) find(name string) runner {
	for _, r := range s.specs {
		if r.name() == name {
			return r
		}
	}
	return nil
}

// Main runs the suite.  It never calls t.Fatal for a property violation: the
// VIOLATION line is the signal.  It fails the test only for harness trouble.
func (s *Suite) Main(t *testing.T) {
	if ch := os.Getenv("VERIF_CHILD"); ch != "" {
		s.childMain(ch)
		return
	}
	start := time.Now()
	violations := 0
	inconclusive := false
	out := func(format string, a ...any) { fmt.Printf(format+"\n", a...) }

	// explicit replay of one file
	if rp := os.Getenv("VERIF_REPLAY"); rp != "" {
		rf, err := readReplay(rp)
		if err != nil {
			t.Fatalf("replay: %v", err)
		}
		r := s.find(rf.Spec)
		if r == nil {
			t.Fatalf("replay: unknown spec %q", rf.Spec)
		}
		if err, _ := r.replay(rf.Case); err != nil {
			out("replay failed: %v", err)
			out("VIOLATION property=%s replay=%s", s.ID, rp)
		} else {
			out("replay passed: %s", rp)
		}
		return
	}

	perSpec := map[string]*partial{}
	get := func(n string) *partial {
		if perSpec[n] == nil {
			perSpec[n] = &partial{Spec: n, NT: map[string]bool{}, Labels: map[string]int{}}
		}
		return perSpec[n]
	}
	known := []string{}

	// ---- phase 1: replay known findings and regression inputs
	openReplays := map[string]bool{}
	for _, f := range loadKF() {
		if f.Property != s.ID {
			continue
		}
		if f.Replay == "" {
			continue
		}
		path := filepath.Join(VerifRoot(), f.Replay)
		if f.Status == "open" {
			openReplays[filepath.Clean(path)] = true
		}
		rf, err := readReplay(path)
		if err != nil {
			t.Errorf("known finding %s: %v", f.ID, err)
			continue
		}
		r := s.find(rf.Spec)
		if r == nil {
			t.Errorf("known finding %s: unknown spec %q", f.ID, rf.Spec)
			continue
		}
		noExclude.Store(f.Status == "open")
		err, _ = r.replay(rf.Case)
		noExclude.Store(false)
		get(rf.Spec).Labels["replayed-findings"]++
		switch {
		case f.Status == "open" && err != nil:
			out("KNOWN-FINDING: property=%s %s: %s", s.ID, f.ID, oneLine(f.What))
			known = append(known, f.ID)
		case f.Status == "open":
			out("note: listed finding %s no longer reproduces from its replay", f.ID)
		case err != nil: // fixed entry failing again
			out("regression of fixed finding %s: %v", f.ID, err)
			out("VIOLATION property=%s replay=%s", s.ID, path)
			violations++
		}
	}
	regs, _ := filepath.Glob(filepath.Join(VerifRoot(), "regress", s.ID, "*.json"))
	sort.Strings(regs)
	for _, path := range regs {
		if openReplays[filepath.Clean(path)] {
			continue
		}
		rf, err := readReplay(path)
		if err != nil {
			t.Errorf("regress %s: %v", path, err)
			continue
		}
		r := s.find(rf.Spec)
		if r == nil {
			continue
		}
		get(rf.Spec).Labels["regress-inputs"]++
		if err, _ := r.replay(rf.Case); err != nil {
			out("regression input fails: %s: %v", path, err)
			out("VIOLATION property=%s replay=%s", s.ID, path)
			violations++
		}
	}

	// ---- phase 2: static enumeration + generated search
	only := os.Getenv("VERIF_SPEC")
	allExh := true
	for _, r := range s.specs {
		if only != "" && only != r.name() {
			continue
		}
		p := get(r.name())
		st := r.static()
		p.merge(st)
		if st.Evaluations > 0 && !st.Exhaustive {
			allExh = false
		}
		var sp partial
		n := r.cases()
		if r.shards() <= 1 || n < r.shards() {
			sp = r.search(mixSeed(uint64(Seed()), r.name(), 0), n, "")
		} else {
			var inc bool
			sp, inc = s.runSharded(r, n)
			if inc {
				inconclusive = true
			}
		}
		p.merge(sp)
		if sp.Requested > 0 {
			allExh = false
		}
		if sp.BudgetStop > 0 {
			out("note: spec %s stopped by its wall budget (%v) after %d of %d requested cases", r.name(), budget(), sp.Evaluations, sp.Requested)
			if floor := r.quickCases() / 4; sp.Evaluations < floor && sp.FailCase == nil && sp.FailMsg == "" {
				out("note: that is fewer than %d cases (a quarter of the quick count)", floor)
				inconclusive = true
			}
		}
		if sp.Evaluations+sp.BudgetStop < sp.Requested && sp.FailCase == nil && sp.FailMsg == "" {
			out("note: spec %s executed %d of %d requested cases", r.name(), sp.Evaluations, sp.Requested)
			inconclusive = true
		}
		if p.FailCase != nil || p.FailMsg != "" {
			if p.FailSig == "harness" || p.FailCase == nil {
				out("harness problem in spec %s: %s", r.name(), p.FailMsg)
				inconclusive = true
				continue
			}
			path := s.writeReplay(r.name(), p.FailCase, p.FailMsg)
			out("spec %s falsified: %s", r.name(), firstLines(p.FailMsg, 30))
			if p.Flaky {
				out("note: rapid reported the failure as not reproducible (schedule dependent); the case above is the last failing one")
			}
			out("VIOLATION property=%s replay=%s", s.ID, path)
			violations++
		}
	}

	// ---- phase 3: evidence
	cov := map[string]any{}
	total := partial{NT: map[string]bool{}, Labels: map[string]int{}}
	specCov := map[string]any{}
	names := make([]string, 0, len(perSpec))
	for n := range perSpec {
		names = append(names, n)
	}
	sort.Strings(names)
	var samples []any
	for _, n := range names {
		p := perSpec[n]
		total.Evaluations += p.Evaluations
		total.Excluded += p.Excluded
		for k := range p.NT {
			total.NT[n+"/"+k] = true
		}
		specCov[n] = map[string]any{
			"evaluations": p.Evaluations, "distinct_nontrivial": len(p.NT),
			"labels": p.Labels, "excluded_by_known_findings": p.Excluded,
		}
		if p.Requested > 0 {
			specCov[n].(map[string]any)["requested"] = p.Requested
		}
		if p.BudgetStop > 0 {
			specCov[n].(map[string]any)["not_run_wall_budget"] = p.BudgetStop
		}
		for i, sm := range p.Samples {
			if i < 2 {
				samples = append(samples, map[string]any{"spec": n, "case": sm})
			}
		}
	}
	if len(samples) == 0 {
		samples = append(samples, "no non-trivial case was produced in this run")
	}
	cov["evaluations"] = total.Evaluations
	cov["distinct_nontrivial"] = len(total.NT)
	cov["rule"] = s.Rule
	cov["samples"] = samples
	cov["per_spec"] = specCov
	cov["excluded_by_known_findings"] = total.Excluded
	cov["known_findings_reproduced"] = known
	if s.Exhaustive && allExh {
		cov["exhaustive"] = true
	}
	for k, v := range s.extra {
		cov[k] = v
	}
	ev := map[string]any{
		"property_id": s.ID, "tier": Tier(), "seed": Seed(), "level": s.Level,
		"coverage": cov, "assumptions": s.Assumptions,
		"wall_s": time.Since(start).Seconds(), "violations": violations,
	}
	evPath := os.Getenv("VERIF_EVIDENCE")
	if evPath == "" {
		evPath = filepath.Join(VerifRoot(), "evidence", s.ID+".json")
	}
	_ = os.MkdirAll(filepath.Dir(evPath), 0o755)
	b, _ := json.MarshalIndent(ev, "", " ")
	if err := os.WriteFile(evPath, append(b, '\n'), 0o644); err != nil {
		t.Errorf("evidence: %v", err)
	}
	out("SUMMARY property=%s tier=%s seed=%d evaluations=%d distinct_nontrivial=%d violations=%d known=%d wall=%.1fs",
		s.ID, Tier(), Seed(), total.Evaluations, len(total.NT), violations, len(known), time.Since(start).Seconds())
	if inconclusive && violations == 0 {
		out("INCONCLUSIVE property=%s", s.ID)
	}
}

func oneLine(s string) string { return strings.Join(strings.Fields(s), " ") }

func firstLines(s string, n int) string {
	l := strings.Split(s, "\n")
	if len(l) > n {
		l = append(l[:n], "…")
	}
	return strings.Join(l, "\n")
}

func readReplay(path string) (*replayFile, error) {
	b, err := os.ReadFile(path)
	if err != nil {
		return nil, err
	}
	var rf replayFile
	if err := json.Unmarshal(b, &rf); err != nil {
		return nil, fmt.Errorf("%s: %v", path, err)
	}
	return &rf, nil
}

func (s *Suite) writeReplay(spec string, c json.RawMessage, msg string) string {
	dir := filepath.Join(VerifRoot(), "replays")
	_ = os.MkdirAll(dir, 0o755)
	rf := replayFile{Property: s.ID, Spec: spec, Msg: firstLines(msg, 60), Case: c}
	b, _ := json.MarshalIndent(rf, "", " ")
	path := filepath.Join(dir, fmt.Sprintf("%s-%s-%s.json", s.ID, spec, fp(c)))
	_ = os.WriteFile(path, append(b, '\n'), 0o644)
	return path
}

func mixSeed(seed uint64, name string, shard int) uint64 {
	h := fnv.New64a()
	fmt.Fprintf(h, "%d/%s/%d", seed, name, shard)
	v := h.Sum64()
	if v == 0 {
		v = 1
	}
	return v
}

// ---- sharding over child processes

func (s *Suite) runSharded(r runner, n int) (partial, bool) {
	k := r.shards()
	per := (n + k - 1) / k
	dir, err := os.MkdirTemp(ScratchRoot(), "shards-")
	must(err)
	defer os.RemoveAll(dir)
	exe, err := os.Executable()
	must(err)
	type res struct {
		p        partial
		ok       bool
		dead     bool
		timedOut bool
		tail     string
		cur      []byte
	}
	results := make([]res, k)
	var wg sync.WaitGroup
	testName := currentTestName()
	for i := 0; i < k; i++ {
		wg.Add(1)
		go func(i int) {
			defer wg.Done()
			outFile := filepath.Join(dir, fmt.Sprintf("out-%d.json", i))
			curFile := filepath.Join(dir, fmt.Sprintf("cur-%d.json", i))
			cmd := exec.Command(exe, "-test.run=^"+testName+"$", "-test.timeout=0", "-test.count=1")
			cmd.Env = append(os.Environ(),
				fmt.Sprintf("VERIF_CHILD=search:%s:%d:%d:%s:%s", r.name(), i, per, outFile, curFile))
			var buf tailBuf
			cmd.Stdout, cmd.Stderr = &buf, &buf
			if err := cmd.Start(); err != nil {
				results[i] = res{dead: true, tail: err.Error()}
				return
			}
			done := make(chan error, 1)
			go func() { done <- cmd.Wait() }()
			var werr error
			select {
			case werr = <-done:
			case <-time.After(r.timeout()):
				_ = cmd.Process.Kill()
				<-done
				results[i] = res{timedOut: true, tail: buf.String()}
				results[i].cur, _ = os.ReadFile(curFile)
				return
			}
			b, rerr := os.ReadFile(outFile)
			if rerr == nil {
				var p partial
				if json.Unmarshal(b, &p) == nil {
					results[i] = res{p: p, ok: true}
					return
				}
			}
			results[i] = res{dead: true, tail: fmt.Sprintf("%v\n%s", werr, buf.String())}
			results[i].cur, _ = os.ReadFile(curFile)
		}(i)
	}
	wg.Wait()
	total := partial{Spec: r.name(), NT: map[string]bool{}, Labels: map[string]int{}}
	inconclusive := false
	for i, rs := range results {
		switch {
		case rs.ok:
			total.merge(rs.p)
		case rs.timedOut:
			fmt.Printf("note: shard %d of %s timed out after %v; last output:\n%s\n", i, r.name(), r.timeout(), lastN(rs.tail, 30))
			inconclusive = true
		case rs.dead:
			// The worker process died (unrecovered panic in a background goroutine, fatal error, OOM).
			// Re-run the case it was executing in a fresh process to decide whether the case kills it.
			total.Requested += per
			if len(rs.cur) == 0 {
				fmt.Printf("note: shard %d of %s died before running a case:\n%s\n", i, r.name(), lastN(rs.tail, 40))
				inconclusive = true
				continue
			}
			died, msg := s.confirmDeath(r, rs.cur, dir, i)
			if died {
				if total.FailCase == nil {
					total.FailCase = rs.cur
					total.FailMsg = "process died while executing this case (twice):\n" + lastN(msg, 40)
					total.FailSig = "process-death"
				}
			} else {
				fmt.Printf("note: shard %d of %s died once but its case passes in a fresh process:\n%s\n", i, r.name(), lastN(rs.tail, 40))
				inconclusive = true
			}
		}
	}
	return total, inconclusive
}

func (s *Suite) confirmDeath(r runner, cur []byte, dir string, i int) (bool, string) {
	exe, _ := os.Executable()
	caseFile := filepath.Join(dir, fmt.Sprintf("confirm-%d.json", i))
	_ = os.WriteFile(caseFile, cur, 0o644)
	outFile := filepath.Join(dir, fmt.Sprintf("confirm-out-%d.json", i))
	cmd := exec.Command(exe, "-test.run=^"+currentTestName()+"$", "-test.timeout=0", "-test.count=1")
	cmd.Env = append(os.Environ(), fmt.Sprintf("VERIF_CHILD=replay:%s:%s:%s", r.name(), caseFile, outFile))
	var buf tailBuf
	cmd.Stdout, cmd.Stderr = &buf, &buf
	if err := cmd.Start(); err != nil {
		return false, err.Error()
	}
	done := make(chan error, 1)
	go func() { done <- cmd.Wait() }()
	select {
	case <-done:
	case <-time.After(5 * time.Minute):
		_ = cmd.Process.Kill()
		<-done
		return false, "confirm run timed out"
	}
	if b, err := os.ReadFile(outFile); err == nil {
		var p partial
		if json.Unmarshal(b, &p) == nil {
			if p.FailMsg != "" {
				return true, p.FailMsg // fails cleanly on replay: also a confirmed failure
			}
			return false, ""
		}
	}
	return true, buf.String()
}

var testNameOverride string

// SetTestName must be called by the test (t.Name()) before Main when sharding.
func SetTestName(n string) { testNameOverride = n }

func currentTestName() string {
	if testNameOverride != "" {
		return testNameOverride
	}
	return "TestCheck"
}

func (s *Suite) childMain(ch string) {
	parts := strings.SplitN(ch, ":", 6)
	switch parts[0] {
	case "search":
		name := parts[1]
		shard, _ := strconv.Atoi(parts[2])
		n, _ := strconv.Atoi(parts[3])
		outFile, curFile := parts[4], parts[5]
		r := s.find(name)
		if r == nil {
			fmt.Println("child: unknown spec", name)
			os.Exit(3)
		}
		p := r.search(mixSeed(uint64(Seed()), name, shard), n, curFile)
		b, _ := json.Marshal(p)
		must(os.WriteFile(outFile, b, 0o644))
	case "replay":
		name, caseFile, outFile := parts[1], parts[2], parts[3]
		r := s.find(name)
		if r == nil {
			os.Exit(3)
		}
		raw, err := os.ReadFile(caseFile)
		must(err)
		p := partial{Spec: name}
		if err, _ := r.replay(raw); err != nil {
			p.FailMsg = err.Error()
		}
		b, _ := json.Marshal(p)
		must(os.WriteFile(outFile, b, 0o644))
	}
}

type tailBuf struct {
	mu sync.Mutex
	b  []byte
}

func (t *tailBuf) Write(p []byte) (int, error) {
	t.mu.Lock()
	defer t.mu.Unlock()
	t.b = append(t.b, p...)
	if len(t.b) > 1<<16 {
		t.b = t.b[len(t.b)-(1<<15):]
	}
	return len(p), nil
}
func (t *tailBuf) String() string { t.mu.Lock(); defer t.mu.Unlock(); return string(t.b) }

func lastN(s string, n int) string {
	l := strings.Split(strings.TrimRight(s, "\n"), "\n")
	if len(l) > n {
		l = l[len(l)-n:]
	}
	return strings.Join(l, "\n")
}

// ---- scratch directories

var scratchOnce sync.Once
var scratchRoot string

// ScratchRoot returns a per-process scratch directory on tmpfs.
func ScratchRoot() string {
	scratchOnce.Do(func() {
		base := "/dev/shm"
		if st, err := os.Stat(base); err != nil || !st.IsDir() {
			base = os.TempDir()
		}
		scratchRoot = filepath.Join(base, fmt.Sprintf("verif-%d", os.Getpid()))
		_ = os.MkdirAll(scratchRoot, 0o755)
	})
	return scratchRoot
}

// CleanupScratch removes the process scratch root (call from TestMain).
func CleanupScratch() {
	if scratchRoot != "" {
		_ = os.RemoveAll(scratchRoot)
	}
}

var dirCtr struct {
	sync.Mutex
	n int
}

// TempDir returns a fresh directory and a cleanup function.
func TempDir(prefix string) (string, func()) {
	dirCtr.Lock()
	dirCtr.n++
	n := dirCtr.n
	dirCtr.Unlock()
	d := filepath.Join(ScratchRoot(), fmt.Sprintf("%s-%d", prefix, n))
	must(os.MkdirAll(d, 0o755))
	return d, func() { _ = os.RemoveAll(d) }
}

// RunMain is a TestMain helper that cleans scratch space.
func RunMain(m *testing.M) {
	if os.Getenv("VERIF_ENGINE_LOG") == "" {
		log.SetOutput(io.Discard) // the engine logs every compaction through the std logger
	}
	code := m.Run()
	CleanupScratch()
	os.Exit(code)
}
