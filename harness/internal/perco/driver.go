//go:build verif

package perco

import (
	"bytes"
	"fmt"
	"sort"
	"sync"
	"time"

	NoKV "github.com/feichai0017/NoKV"
	nkv "github.com/feichai0017/NoKV/kv"
	"github.com/feichai0017/NoKV/lsm/compact"
	"github.com/feichai0017/NoKV/pb"
	"github.com/feichai0017/NoKV/percolator"
	"github.com/feichai0017/NoKV/percolator/latch"
	rkv "github.com/feichai0017/NoKV/raftstore/kv"
	"github.com/feichai0017/NoKV/utils"
	"nokvverif/internal/pbt"
)

var pauseOnce sync.Once

// NoHotLimit is a WriteHotKeyLimit no history reaches.
const NoHotLimit = 1 << 30

// Driver runs a history against one real DB.
type Driver struct {
	DB      *NoKV.DB
	opt     *NoKV.Options
	keys    [][]byte
	cleanup func()
	reader  *percolator.Reader
	Flushes int
}

// Open opens a fresh DB in a tmpfs scratch directory with small options and
// background compaction paused (maintenance happens only as history steps).
func Open(keys []string) *Driver {
	pauseOnce.Do(func() { compact.VerifPause.Store(true) })
	dir, cleanup := pbt.TempDir("perco")
	opt := NoKV.NewDefaultOptions()
	opt.WorkDir = dir
	opt.MemTableSize = 1 << 20
	opt.SSTableMaxSz = 4 << 20
	opt.ValueLogFileSize = 4 << 20
	opt.ValueLogBucketCount = 1
	opt.ValueLogHotBucketCount = 0
	opt.ValueThreshold = 1 << 20 // keep every value inline in the LSM
	opt.EnableWALWatchdog = false
	// Hot-key write throttle: plain monotonic per-(cf,key) counters (no sliding window,
	// no decay, no rotation: nothing depends on the wall clock); the limit starts out of
	// reach and is lowered / raised by OpHotLimit steps.
	opt.HotRingEnabled = true
	opt.HotRingWindowSlots = 0
	opt.HotRingWindowSlotDuration = 0
	opt.HotRingRotationInterval = 0
	opt.HotRingDecayInterval = 0
	opt.WriteHotKeyLimit = NoHotLimit
	opt.ValueLogHotRingOverride = false
	opt.NumCompactors = 1
	opt.BlockCacheSize = 64
	opt.BloomCacheSize = 64
	db := NoKV.Open(opt)
	d := &Driver{DB: db, opt: opt, cleanup: cleanup, reader: percolator.NewReader(db)}
	for _, k := range keys {
		d.keys = append(d.keys, []byte(k))
	}
	return d
}

// Close closes the DB and removes the scratch directory.
func (d *Driver) Close() {
	if d.DB != nil {
		_ = d.DB.Close()
		d.DB = nil
	}
	if d.cleanup != nil {
		d.cleanup()
	}
}

func (d *Driver) keyIndex(k []byte) int {
	for i, x := range d.keys {
		if bytes.Equal(x, k) {
			return i
		}
	}
	return -1
}

func (d *Driver) normErr(e *pb.KeyError) []KErr {
	if e == nil {
		return nil
	}
	switch {
	case e.GetLocked() != nil:
		l := e.GetLocked()
		return []KErr{{Kind: "locked", Key: d.keyIndex(l.GetKey()), LockTs: l.GetLockVersion(), MinC: l.GetMinCommitTs()}}
	case e.GetWriteConflict() != nil:
		w := e.GetWriteConflict()
		return []KErr{{Kind: "conflict", Key: d.keyIndex(w.GetKey()), LockTs: w.GetConflictTs()}}
	case e.GetCommitTsExpired() != nil:
		c := e.GetCommitTsExpired()
		return []KErr{{Kind: "expired", Key: d.keyIndex(c.GetKey()), MinC: c.GetMinCommitTs()}}
	case e.GetAbort() != "":
		return []KErr{{Kind: "abort", Key: -1, Msg: e.GetAbort()}}
	case e.GetRetryable() != "":
		return []KErr{{Kind: "retryable", Key: -1, Msg: e.GetRetryable()}}
	}
	return []KErr{{Kind: "other", Key: -1, Msg: e.String()}}
}

func (d *Driver) keyList(ix []int) [][]byte {
	out := make([][]byte, 0, len(ix))
	for _, i := range ix {
		out = append(out, d.keys[i])
	}
	return out
}

// request builds the pb request of a transactional step.
func (d *Driver) request(s Step) *pb.Request {
	switch s.Op {
	case OpPrewrite:
		req := &pb.PrewriteRequest{PrimaryLock: d.keys[s.Primary], StartVersion: s.Start, LockTtl: s.TTL, MinCommitTs: s.MinCommit}
		for _, m := range s.Muts {
			mu := &pb.Mutation{Op: pb.Mutation_Op(m.Op), Key: d.keys[m.K]}
			if m.Op == KPut {
				mu.Value = m.Value()
			}
			req.Mutations = append(req.Mutations, mu)
		}
		return &pb.Request{CmdType: pb.CmdType_CMD_PREWRITE, Cmd: &pb.Request_Prewrite{Prewrite: req}}
	case OpCommit:
		return &pb.Request{CmdType: pb.CmdType_CMD_COMMIT, Cmd: &pb.Request_Commit{Commit: &pb.CommitRequest{Keys: d.keyList(s.Keys), StartVersion: s.Start, CommitVersion: s.Commit}}}
	case OpRollback:
		return &pb.Request{CmdType: pb.CmdType_CMD_BATCH_ROLLBACK, Cmd: &pb.Request_BatchRollback{BatchRollback: &pb.BatchRollbackRequest{Keys: d.keyList(s.Keys), StartVersion: s.Start}}}
	case OpResolve:
		return &pb.Request{CmdType: pb.CmdType_CMD_RESOLVE_LOCK, Cmd: &pb.Request_ResolveLock{ResolveLock: &pb.ResolveLockRequest{Keys: d.keyList(s.Keys), StartVersion: s.Start, CommitVersion: s.Commit}}}
	case OpCheck:
		return &pb.Request{CmdType: pb.CmdType_CMD_CHECK_TXN_STATUS, Cmd: &pb.Request_CheckTxnStatus{CheckTxnStatus: &pb.CheckTxnStatusRequest{
			PrimaryKey: d.keys[s.Primary], LockTs: s.Start, CurrentTs: s.Cur, CallerStartTs: s.Caller, RollbackIfNotExist: s.RBNE}}}
	case OpGet:
		return &pb.Request{CmdType: pb.CmdType_CMD_GET, Cmd: &pb.Request_Get{Get: &pb.GetRequest{Key: d.keys[s.K], Version: s.TS}}}
	case OpScan:
		req := &pb.ScanRequest{Limit: s.Limit, Version: s.TS, IncludeStart: s.Incl}
		if s.From >= 0 {
			req.StartKey = d.keys[s.From]
		}
		return &pb.Request{CmdType: pb.CmdType_CMD_SCAN, Cmd: &pb.Request_Scan{Scan: req}}
	}
	panic("perco: no request for " + s.Op)
}

// Do executes one transactional or read step through kv.Apply.
func (d *Driver) Do(s Step) (Resp, error) {
	resp, err := rkv.Apply(d.DB, &pb.RaftCmdRequest{Requests: []*pb.Request{d.request(s)}})
	if err != nil {
		return Resp{}, err
	}
	if len(resp.GetResponses()) != 1 {
		return Resp{}, fmt.Errorf("kv.Apply returned %d responses for one request", len(resp.GetResponses()))
	}
	return d.normalize(s, resp.GetResponses()[0]), nil
}

// Direct executes a transactional request through the percolator package
// functions (what kv.Apply calls) with an explicit latch manager.
func (d *Driver) Direct(s Step, m *latch.Manager) Resp {
	req := d.request(s)
	var r *pb.Response
	switch s.Op {
	case OpPrewrite:
		r = &pb.Response{Cmd: &pb.Response_Prewrite{Prewrite: &pb.PrewriteResponse{Errors: percolator.Prewrite(d.DB, m, req.GetPrewrite())}}}
	case OpCommit:
		r = &pb.Response{Cmd: &pb.Response_Commit{Commit: &pb.CommitResponse{Error: percolator.Commit(d.DB, m, req.GetCommit())}}}
	case OpRollback:
		r = &pb.Response{Cmd: &pb.Response_BatchRollback{BatchRollback: &pb.BatchRollbackResponse{Error: percolator.BatchRollback(d.DB, m, req.GetBatchRollback())}}}
	case OpResolve:
		n, err := percolator.ResolveLock(d.DB, m, req.GetResolveLock())
		r = &pb.Response{Cmd: &pb.Response_ResolveLock{ResolveLock: &pb.ResolveLockResponse{ResolvedLocks: n, Error: err}}}
	case OpCheck:
		r = &pb.Response{Cmd: &pb.Response_CheckTxnStatus{CheckTxnStatus: percolator.CheckTxnStatus(d.DB, m, req.GetCheckTxnStatus())}}
	default:
		panic("perco: Direct on " + s.Op)
	}
	return d.normalize(s, r)
}

// KeyBytes returns the user keys of the given indexes.
func (d *Driver) KeyBytes(ix []int) [][]byte { return d.keyList(ix) }

func (d *Driver) normalize(s Step, r *pb.Response) Resp {
	var out Resp
	switch s.Op {
	case OpPrewrite:
		for _, e := range r.GetPrewrite().GetErrors() {
			out.Errs = append(out.Errs, d.normErr(e)...)
		}
	case OpCommit:
		out.Errs = d.normErr(r.GetCommit().GetError())
	case OpRollback:
		out.Errs = d.normErr(r.GetBatchRollback().GetError())
	case OpResolve:
		out.Errs = d.normErr(r.GetResolveLock().GetError())
		out.Resolved = r.GetResolveLock().GetResolvedLocks()
	case OpCheck:
		c := r.GetCheckTxnStatus()
		out.Errs = d.normErr(c.GetError())
		out.Action = int(c.GetAction())
		out.LockTTL = c.GetLockTtl()
		out.CommitVersion = c.GetCommitVersion()
	case OpGet:
		g := r.GetGet()
		out.Errs = d.normErr(g.GetError())
		out.NotFound = g.GetNotFound()
		out.Value = string(g.GetValue())
	case OpScan:
		sc := r.GetScan()
		out.Errs = d.normErr(sc.GetError())
		for _, kv := range sc.GetKvs() {
			out.KVs = append(out.KVs, KVOut{K: d.keyIndex(kv.GetKey()), V: string(kv.GetValue())})
		}
	}
	return out
}

// Maint executes a maintenance step; the returned string classifies what happened.
func (d *Driver) Maint(s Step) (string, error) {
	l := d.DB.VerifLSM()
	switch s.Op {
	case OpHotLimit:
		n := s.N
		if n <= 0 {
			n = NoHotLimit
		}
		d.opt.WriteHotKeyLimit = int32(n) // read by DB.maybeThrottleWrite on every write
		if n == NoHotLimit {
			return "hotlimit:off", nil
		}
		return "hotlimit:on", nil
	case OpRotate:
		l.Rotate()
		return "rotate", nil
	case OpFlush:
		l.Rotate()
		if !l.VerifWaitFlush(20 * time.Second) {
			return "", fmt.Errorf("flush did not finish in 20s")
		}
		d.Flushes++
		return "flush", nil
	case OpCompact:
		if !l.VerifWaitFlush(20 * time.Second) {
			return "", fmt.Errorf("flush did not finish in 20s")
		}
		err := l.VerifCompact(s.Level, s.Mode)
		if err == nil {
			return fmt.Sprintf("compact-L%d-m%d:ran", s.Level, s.Mode), nil
		}
		if err == utils.ErrFillTables {
			return fmt.Sprintf("compact-L%d-m%d:noplan", s.Level, s.Mode), nil
		}
		return fmt.Sprintf("compact-L%d-m%d:err", s.Level, s.Mode), nil
	case OpCompact1:
		if !l.VerifWaitFlush(20 * time.Second) {
			return "", fmt.Errorf("flush did not finish in 20s")
		}
		if l.VerifCompactOnce() {
			return "compactonce:ran", nil
		}
		return "compactonce:idle", nil
	case OpL0L0:
		if !l.VerifWaitFlush(20 * time.Second) {
			return "", fmt.Errorf("flush did not finish in 20s")
		}
		l.VerifAgeTables(time.Minute)
		err := l.VerifCompactL0ToL0()
		if err == nil {
			return "l0tol0:ran", nil
		}
		return "l0tol0:noplan", nil
	}
	return "", fmt.Errorf("unknown maintenance op %q", s.Op)
}

// Settle waits for pending flushes (used before closing).
func (d *Driver) Settle() { d.DB.VerifLSM().VerifWaitFlush(20 * time.Second) }

// Lock returns Reader.GetLock of key k in model form.
func (d *Driver) Lock(k int) (*MLock, error) {
	l, err := d.reader.GetLock(d.keys[k])
	if err != nil || l == nil {
		return nil, err
	}
	return &MLock{Ts: l.Ts, TTL: l.TTL, MinCommit: l.MinCommitTs, Primary: d.keyIndex(l.Primary), Kind: int(l.Kind)}, nil
}

// Layout summarises the tables per level, e.g. "L0:2 L6:1+2i" (2i: two tables in
// the level's ingest buffer); per[level] counts main+ingest tables.
func (d *Driver) Layout() (string, map[int]int) {
	per := map[int]int{}
	ing := map[int]int{}
	for _, t := range d.DB.VerifLSM().VerifLayout() {
		per[t.Level]++
		if t.Ingest {
			ing[t.Level]++
		}
	}
	lv := make([]int, 0, len(per))
	for l := range per {
		lv = append(lv, l)
	}
	sort.Ints(lv)
	s := ""
	for _, l := range lv {
		if ing[l] > 0 {
			s += fmt.Sprintf("L%d:%d+%di ", l, per[l]-ing[l], ing[l])
		} else {
			s += fmt.Sprintf("L%d:%d ", l, per[l])
		}
	}
	return s, per
}

// Dump reads the whole DB through the internal iterator and renders the logical
// contents: for each internal key the first (newest-source) entry, tombstones
// dropped.  Lock CF -> locks, write CF -> write records, default CF -> data.
type Dump struct {
	Snap
	Recs []MWriteK // every write record (incl. rollbacks), structured
	MinC []string  // "k0 ts=5 minc=7"
	Data []string  // "k0@5 len=3 hash"
	Raw  []string
}

func (d *Driver) Dump() (Dump, error) {
	var out Dump
	it := d.DB.NewInternalIterator(&utils.Options{IsAsc: true})
	if it == nil {
		return out, fmt.Errorf("nil internal iterator")
	}
	defer func() { _ = it.Close() }()
	seen := map[string]bool{}
	for it.Rewind(); it.Valid(); it.Next() {
		item := it.Item()
		if item == nil || item.Entry() == nil {
			continue
		}
		e := item.Entry()
		ik := string(e.Key)
		if seen[ik] {
			continue
		}
		seen[ik] = true
		cf, uk, ts := nkv.SplitInternalKey(e.Key)
		k := d.keyIndex(uk)
		if k < 0 {
			continue // engine-internal keys (e.g. !NoKV!discard)
		}
		if e.Meta&nkv.BitDelete > 0 {
			continue
		}
		switch cf {
		case nkv.CFLock:
			l, err := percolator.DecodeLock(e.Value)
			if err != nil {
				return out, fmt.Errorf("dump: lock of key %d: %v", k, err)
			}
			ml := &MLock{Ts: l.Ts, TTL: l.TTL, MinCommit: l.MinCommitTs, Primary: d.keyIndex(l.Primary), Kind: int(l.Kind)}
			out.Locks = append(out.Locks, lockString(k, ml))
			out.MinC = append(out.MinC, fmt.Sprintf("k%d ts=%d minc=%d", k, l.Ts, l.MinCommitTs))
		case nkv.CFWrite:
			w, err := percolator.DecodeWrite(e.Value)
			if err != nil {
				return out, fmt.Errorf("dump: write record of key %d@%d: %v", k, ts, err)
			}
			out.Recs = append(out.Recs, MWriteK{K: k, W: MWrite{Commit: ts, Start: w.StartTs, Kind: int(w.Kind)}})
			if int(w.Kind) == KRoll {
				out.Rolls = append(out.Rolls, fmt.Sprintf("k%d rollback@%d", k, w.StartTs))
				if ts != w.StartTs {
					out.Rolls[len(out.Rolls)-1] += fmt.Sprintf("(stored@%d)", ts)
				}
			} else {
				out.Writes = append(out.Writes, fmt.Sprintf("k%d kind=%d start=%d commit=%d", k, int(w.Kind), w.StartTs, ts))
			}
		case nkv.CFDefault:
			out.Data = append(out.Data, fmt.Sprintf("k%d@%d len=%d %x", k, ts, len(e.Value), fnv32(e.Value)))
		}
	}
	sort.Strings(out.Locks)
	sort.Strings(out.Writes)
	sort.Strings(out.Rolls)
	sort.Strings(out.MinC)
	sort.Strings(out.Data)
	return out, nil
}

// MWriteK is a write record with its key.
type MWriteK struct {
	K int
	W MWrite
}

func fnv32(b []byte) uint32 {
	h := uint32(2166136261)
	for _, c := range b {
		h ^= uint32(c)
		h *= 16777619
	}
	return h
}
