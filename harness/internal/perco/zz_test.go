//go:build verif

package perco

import (
	"encoding/json"
	"fmt"
	"os"
	"testing"

	nkv "github.com/feichai0017/NoKV/kv"
	"github.com/feichai0017/NoKV/utils"
)

func lay(d *Driver) string {
	s := ""
	for _, t := range d.DB.VerifLSM().VerifLayout() {
		s += fmt.Sprintf("L%d", t.Level)
		if t.Ingest {
			s += "i"
		}
		c1, k1, t1 := nkv.SplitInternalKey(t.Min)
		c2, k2, t2 := nkv.SplitInternalKey(t.Max)
		s += fmt.Sprintf("#%d[%v/%s/%d .. %v/%s/%d] ", t.FID, c1, k1, t1, c2, k2, t2)
	}
	return s
}

func TestLay(t *testing.T) {
	b, _ := os.ReadFile(os.Getenv("PERCO_CASE"))
	var rf struct{ Case GCase }
	if err := json.Unmarshal(b, &rf); err != nil {
		t.Fatal(err)
	}
	d := Open(rf.Case.Keys)
	defer d.Close()
	for i, s := range rf.Case.Steps {
		if s.IsMaint() {
			w, _ := d.Maint(s)
			t.Logf("%d %s -> %s\n      %s", i, s, w, lay(d))
		} else {
			r, _ := d.Do(s)
			t.Logf("%d %s -> %s", i, s, respString(r))
		}
		dump, _ := d.Dump()
		t.Logf("      locks %v writes %v rolls %v", dump.Locks, dump.Writes, dump.Rolls)
	}
}

func TestOrder(t *testing.T) {
	b, _ := os.ReadFile(os.Getenv("PERCO_CASE"))
	var rf struct{ Case GCase }
	if err := json.Unmarshal(b, &rf); err != nil {
		t.Fatal(err)
	}
	d := Open(rf.Case.Keys)
	defer d.Close()
	for _, s := range rf.Case.Steps {
		if s.IsMaint() {
			_, _ = d.Maint(s)
		} else {
			_, _ = d.Do(s)
		}
	}
	it := d.DB.NewInternalIterator(nil)
	_ = it
	it2 := d.DB.NewInternalIterator(&utilsOptions)
	for it2.Rewind(); it2.Valid(); it2.Next() {
		e := it2.Item().Entry()
		cf, k, ts := nkv.SplitInternalKey(e.Key)
		t.Logf("%v/%s/%d meta=%d len=%d", cf, k, ts, e.Meta, len(e.Value))
	}
	it2.Close()
	for k := range rf.Case.Keys {
		l, err := d.Lock(k)
		t.Logf("GetLock(%d) = %v %v", k, l, err)
	}
}

var utilsOptions = utils.Options{IsAsc: true}
