//go:build verif

package perco

import (
	"encoding/json"
	"os"
	"strconv"
	"testing"

	"nokvverif/internal/pbt"
)

// TestShrinkFile is a developer tool: PERCO_SHRINK=<replay file> PERCO_PROP=19 greedily
// removes steps (and simplifies fields) while the case still fails with the same
// signature, then prints the reduced case.
func TestShrinkFile(t *testing.T) {
	path := os.Getenv("PERCO_SHRINK")
	if path == "" {
		t.Skip("PERCO_SHRINK not set")
	}
	prop, _ := strconv.Atoi(os.Getenv("PERCO_PROP"))
	b, err := os.ReadFile(path)
	if err != nil {
		t.Fatal(err)
	}
	var rf struct {
		Property, Spec string
		Case           GCase
	}
	if err := json.Unmarshal(b, &rf); err != nil {
		t.Fatal(err)
	}
	sigOf := func(c Case) string {
		err := Execute(c, &pbt.Rec{}, prop)
		if f, ok := err.(*pbt.Fail); ok {
			return f.Sig
		}
		return ""
	}
	c := rf.Case.Case
	want := sigOf(c)
	if want == "" {
		t.Fatalf("case does not fail")
	}
	t.Logf("signature %s, %d steps", want, len(c.Steps))
	for changed := true; changed; {
		changed = false
		for i := len(c.Steps) - 1; i >= 0; i-- {
			n := Case{Keys: c.Keys, Steps: append(append([]Step(nil), c.Steps[:i]...), c.Steps[i+1:]...)}
			if sigOf(n) == want {
				c = n
				changed = true
			}
		}
		// shrink mutation / key lists
		for i := range c.Steps {
			s := c.Steps[i]
			for j := range s.Muts {
				if len(s.Muts) > 1 {
					n := cloneCase(c)
					n.Steps[i].Muts = append(append([]Mut(nil), s.Muts[:j]...), s.Muts[j+1:]...)
					if sigOf(n) == want {
						c = n
						changed = true
						break
					}
				}
			}
			s = c.Steps[i]
			for j := range s.Keys {
				if len(s.Keys) > 1 {
					n := cloneCase(c)
					n.Steps[i].Keys = append(append([]int(nil), s.Keys[:j]...), s.Keys[j+1:]...)
					if sigOf(n) == want {
						c = n
						changed = true
						break
					}
				}
			}
		}
	}
	out, _ := json.MarshalIndent(map[string]any{"property": rf.Property, "spec": rf.Spec, "msg": want, "case": GCase{Case: c}}, "", " ")
	t.Logf("reduced to %d steps:\n%s", len(c.Steps), out)
	if dst := os.Getenv("PERCO_SHRINK_OUT"); dst != "" {
		_ = os.WriteFile(dst, append(out, '\n'), 0o644)
	}
}

func cloneCase(c Case) Case {
	n := Case{Keys: c.Keys, Steps: append([]Step(nil), c.Steps...)}
	return n
}
