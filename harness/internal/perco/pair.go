//go:build verif

package perco

import (
	"fmt"
	"runtime"
	"strings"
	"time"

	"github.com/feichai0017/NoKV/percolator/latch"
	"nokvverif/internal/pbt"
)

// ExecutePair runs the sequential prefix like Execute and then the concurrent
// pair: the harness holds the latches of A's keys on the shared manager M, starts A
// (a correct A parks in latch.Manager.Acquire before reading anything), waits until A
// is parked there (or has returned), runs B to completion on a separate manager (B
// behaves exactly as the latch holder would while A waits), releases the latches
// and joins A.  Oracle: linearizability at request granularity — responses of A and B
// and the final lock / write records must equal the reference model's result for
// order A;B or for order B;A.
func ExecutePair(c PCase, r *pbt.Rec, prop int) error {
	if err := validate(c.Case); err != nil {
		return pbt.Failf("harness", "malformed case: %v", err)
	}
	if c.HasPair {
		if err := validate(Case{Keys: c.Keys, Steps: []Step{c.A, c.B}}); err != nil || !c.A.IsWrite() || !c.B.IsWrite() {
			return pbt.Failf("harness", "malformed pair")
		}
	}
	x := newExec(c.Case, r, prop)
	x.pairMode = true
	defer x.d.Close()
	err, done := x.runSteps()
	if err != nil || !done {
		return err
	}
	if !c.HasPair {
		r.Label("pair:none")
		return nil
	}
	return x.pair(c)
}

type pairRes struct {
	resp Resp
	pan  any
}

// pairRunA is the goroutine of the parked request (its name is looked for in stack dumps).
func (x *exec) pairRunA(s Step, m *latch.Manager, out chan<- pairRes) {
	var res pairRes
	defer func() {
		if p := recover(); p != nil {
			res.pan = p
		}
		out <- res
	}()
	res.resp = x.d.Direct(s, m)
}

// aParked reports whether the goroutine running pairRunA currently sits in
// latch.(*Manager).Acquire.
func aParked(buf []byte) bool {
	n := runtime.Stack(buf, true)
	for _, g := range strings.Split(string(buf[:n]), "\n\n") {
		if strings.Contains(g, ".pairRunA") && strings.Contains(g, "latch.(*Manager).Acquire") {
			return true
		}
	}
	return false
}

func (x *exec) pair(c PCase) error {
	r, d := x.r, x.d
	A, B := c.A, c.B
	r.Label("pair:A-" + A.Op)
	r.Label("pair:B-" + B.Op)
	if c.Disjoint {
		r.Label("pair:disjoint-keys")
	}
	shared, separate := latch.NewManager(64), latch.NewManager(64)
	guard := shared.Acquire(d.KeyBytes(StepKeys(A)))
	released := false
	release := func() {
		if !released {
			guard.Release()
			released = true
		}
	}
	defer release()
	ch := make(chan pairRes, 1)
	go x.pairRunA(A, shared, ch)

	var ra pairRes
	state := ""
	buf := make([]byte, 1<<20)
	deadline := time.Now().Add(3 * time.Second)
	for state == "" {
		select {
		case ra = <-ch:
			state = "returned"
			continue
		default:
		}
		if aParked(buf) {
			state = "parked"
			break
		}
		if time.Now().After(deadline) {
			state = "timeout"
			break
		}
		runtime.Gosched()
		time.Sleep(100 * time.Microsecond)
	}
	join := func() error {
		if state == "returned" {
			return nil
		}
		select {
		case ra = <-ch:
			return nil
		case <-time.After(30 * time.Second):
			return pbt.Failf("harness", "request A (%s) did not return within 30s after the latches were released\n%s", A, x.trace())
		}
	}
	if state == "timeout" {
		// A neither parked at the latch nor returned: no statement possible
		release()
		if err := join(); err != nil {
			return err
		}
		r.Label("pair:inconclusive-not-parked")
		return nil
	}
	r.Label("pair:A-" + state)
	rb := d.Direct(B, separate)
	release()
	if err := join(); err != nil {
		return err
	}
	if ra.pan != nil {
		return pbt.Failf("panic", "request A (%s) panicked: %v\n%s", A, ra.pan, x.trace())
	}
	x.log = append(x.log, fmt.Sprintf("pair A (%s, %s) -> %s", state, A, respString(ra.resp)))
	x.log = append(x.log, fmt.Sprintf("pair B (ran while A waited, %s) -> %s", B, respString(rb)))
	if retryable(ra.resp) || retryable(rb) {
		r.Label("pair:retryable-unjudged")
		return nil
	}

	// model: which lock records does B change under A's feet?
	mb := x.m.Clone()
	mb.Apply(B, &rb)
	changed := false
	for _, k := range StepKeys(A) {
		l0, l1 := x.m.Keys[k].Lock, mb.Keys[k].Lock
		if (l0 == nil) != (l1 == nil) || (l0 != nil && *l0 != *l1) {
			changed = true
		}
	}
	if changed {
		r.Label("pair:B-changes-lock-of-A")
	}

	ab, mAB := x.tryOrder(A, B, ra.resp, rb)
	ba, mBA := x.tryOrder(B, A, rb, ra.resp)
	switch {
	case ab == "" && ba == "":
		r.Label("pair:consistent-with-both-orders")
		x.m = mAB
	case ab == "":
		r.Label("pair:consistent-with-A;B")
		x.m = mAB
	case ba == "":
		r.Label("pair:consistent-with-B;A")
		x.m = mBA
	default:
		dump, _ := d.Dump()
		return pbt.Failf("pair-not-linearizable",
			"concurrent pair is not equivalent to any sequential order.\n  A (%s, %s) -> %s\n  B (ran while A waited, %s) -> %s\n  store afterwards: locks %v min-commit %v writes %v rollbacks %v\n  order A;B impossible: %s\n  order B;A impossible: %s\n%s",
			state, A, respString(ra.resp), B, respString(rb), dump.Locks, dump.MinC, dump.Writes, dump.Rolls, ab, ba, x.trace())
	}
	if state == "parked" && changed {
		r.NT()
	}
	return nil
}

// tryOrder applies first;second to a copy of the model with the observed responses
// and compares responses and final store state; "" means the order explains the
// observation.
func (x *exec) tryOrder(first, second Step, r1, r2 Resp) (string, *Model) {
	m := x.m.Clone()
	for i, s := range []Step{first, second} {
		obs := r1
		if i == 1 {
			obs = r2
		}
		exp := m.Apply(s, &obs)
		if f := x.compareWriteResp(s, obs, exp); f != nil {
			return fmt.Sprintf("response of %s: [%s] %s", s.Op, f.sig, f.msg), nil
		}
	}
	if fs := x.compareStateWith(m, second); len(fs) > 0 {
		return fmt.Sprintf("final state: [%s] %s", fs[0].sig, fs[0].msg), nil
	}
	return "", m
}
