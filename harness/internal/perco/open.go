package perco

import "nokvverif/internal/pbt"

// OpenExclusions reads the known-findings list: every finding of the Percolator
// family that is still open (under whichever of C17-C19 it is listed) is steered
// around by construction; once an entry is fixed or removed the generator covers
// the area again.
func OpenExclusions() Excl {
	open := func(tag string) bool {
		return pbt.Open("C17-"+tag) || pbt.Open("C18-"+tag) || pbt.Open("C19-"+tag)
	}
	return Excl{
		R1: open("R1"), R3: open("R3"), R4: open("R4"), R5: open("R5"), R6: open("R6"),
		R7: open("R7"), R8: open("R8"), R20: open("R20"), R21: open("R21"), F1: open("F1"), F2: open("F2"),
	}
}
