package perco

import (
	"fmt"
	"sort"

	"pgregory.net/rapid"
)

// Excl says which open findings the generator must steer around (by
// construction, using the reference model while generating).
type Excl struct {
	R1  bool // rollback of (key,start) below the start ts of existing data of the key
	R4  bool // reads whose newest record <= t is a rollback / lock-only record
	R5  bool // Commit naming a key the transaction already rolled back
	R6  bool // BatchRollback of a key locked by another transaction
	R7  bool // duplicate prewrite after a min-commit-ts push
	R8  bool // scan over a locked key that has no write record yet
	F1  bool // one user key in two L0 tables
	R3  bool // one user key in two ingest-buffer tables of a level
	R21 bool // commit re-sent at the recorded version while lock and commit record coexist
	R20 bool // draining the ingest buffer into a non-empty base level
	F2  bool // multi-block tables (large values)
}

// Profile tunes the step mix for one property.
type Profile struct {
	MaxSteps            int
	WRead, WMaint, WDup int // weights relative to 10 for the transactional mix
	WCheck              int
	WPartial            int  // weight of a commit made to fail between its two engine writes
	HotKey              bool // C19: concentrate on few keys
	Excl                Excl
}

// GCase is a generated case plus the number of draws steered away from open findings.
type GCase struct {
	Case
	Excl int `json:"excl,omitempty"`
}

type gtxn struct {
	start     uint64
	muts      []Mut
	primary   int
	ttl       uint64
	minCommit uint64
	commits   []uint64 // commit versions allocated so far
	sent      bool     // a prewrite was issued
}

type gen struct {
	t     *rapid.T
	p     Profile
	nk    int
	m     *Model
	next  uint64 // next transaction timestamp (odd)
	txns  []*gtxn
	steps []Step
	excl  int
	// F1 tracking: user keys possibly present in the memtable / in L0 tables
	dirty     map[int]bool
	l0tabs    []map[int]bool // L0 tables, oldest first
	ing       []map[int]bool // ingest-buffer tables of the base level
	mainUsed  bool           // the base level's main tables are non-empty
	overlapL0 bool           // this case may keep one user key in several L0 tables (then L0 is never moved while R3 is open)
	commitTs  map[uint64]bool
	// per-key counters of engine writes to the lock / write CF (what the hot-key write
	// throttle counts), tracked to place a WriteHotKeyLimit exactly between the two
	// engine writes of a commit
	lockW, wrW map[int]int
	partial    *gtxn // transaction left with lock + commit record by the last partial commit
	partialKey int
}

// Most key sets contain byte-prefix-related user keys: record scans that decide
// "same key" by prefix instead of equality only show with such neighbours.
var keySets = [][]string{
	{"a", "ab", "abc", "b"},
	{"k", "k1", "k12", "m"},
	{"key-1", "key-10", "key-2", "key-20"},
	{"a", "b", "c", "d"},
}

// Generate draws a history.  The reference model is run while generating so that
// steps can aim at interesting states and avoid open findings by construction.
func Generate(t *rapid.T, p Profile) GCase {
	nk := rapid.IntRange(1, 4).Draw(t, "nkeys")
	if p.HotKey {
		nk = rapid.IntRange(1, 2).Draw(t, "nkeys-hot")
	}
	ks := rapid.SampledFrom(keySets).Draw(t, "keyset")[:nk]
	g := &gen{t: t, p: p, nk: nk, m: NewModel(nk), next: 1, dirty: map[int]bool{}, commitTs: map[uint64]bool{}, lockW: map[int]int{}, wrW: map[int]int{}}
	g.overlapL0 = rapid.Bool().Draw(t, "overlap-l0")
	n := rapid.IntRange(3, p.MaxSteps).Draw(t, "nsteps")
	for i := 0; i < n; i++ {
		g.one()
	}
	// closing reads
	if rapid.IntRange(0, 3).Draw(t, "tail") > 0 {
		for k := 0; k < nk; k++ {
			g.read(true)
		}
		g.read(false)
	}
	return GCase{Case: Case{Keys: append([]string(nil), ks...), Steps: g.steps}, Excl: g.excl}
}

func (g *gen) alloc() uint64 {
	v := g.next
	g.next += 2
	return v
}

func (g *gen) one() {
	w := []int{0, 0, 0, 0, 0, 0, 0, 0, 0, 0, 0}
	// 0 new txn, 1 prewrite existing, 2 commit, 3 rollback, 4 resolve, 5 check, 6 dup, 7 read, 8 maint,
	// 9 commit failing between its two engine writes, 10 follow-up on such a partial commit
	if len(g.txns) < 5 {
		w[0] = 4
		if len(g.txns) == 0 {
			w[0] = 30
		}
	}
	if len(g.txns) > 0 {
		w[1], w[2], w[3], w[4], w[5] = 2, 5, 3, 2, g.p.WCheck
	}
	if g.lastWrite() >= 0 {
		w[6] = g.p.WDup
	}
	w[7] = g.p.WRead
	w[8] = g.p.WMaint
	if len(g.txns) > 0 {
		w[9] = g.p.WPartial
	}
	if g.partial != nil {
		w[10] = 6
	}
	switch g.weighted(w, "kind") {
	case 0:
		g.newTxn()
	case 1:
		g.prewrite(g.pickTxn(pickPending), rapid.IntRange(0, 2).Draw(g.t, "batch"))
	case 2:
		g.commit(g.pickTxn(pickHolder))
	case 3:
		g.rollback(g.pickTxn(pickAny))
	case 4:
		g.resolve(g.pickTxn(pickHolder))
	case 5:
		g.check(g.pickTxn(pickPrimaryHolder))
	case 6:
		g.dup()
	case 7:
		g.read(rapid.Bool().Draw(g.t, "isget"))
	case 8:
		g.maint()
	case 9:
		if !g.partialCommit(g.pickTxn(pickHolder)) {
			g.commit(g.pickTxn(pickHolder))
		}
	case 10:
		g.followPartial()
	}
}

func (g *gen) weighted(w []int, label string) int {
	tot := 0
	for _, x := range w {
		tot += x
	}
	v := rapid.IntRange(0, tot-1).Draw(g.t, label)
	for i, x := range w {
		if v < x {
			return i
		}
		v -= x
	}
	return len(w) - 1
}

func (g *gen) lastWrite() int {
	for i := len(g.steps) - 1; i >= 0; i-- {
		if g.steps[i].IsWrite() {
			return i
		}
	}
	return -1
}

const (
	pickAny = iota
	pickPending
	pickHolder
	pickPrimaryHolder
)

func (g *gen) holds(tx *gtxn, primaryOnly bool) bool {
	for _, mu := range tx.muts {
		if primaryOnly && mu.K != tx.primary {
			continue
		}
		if l := g.m.Keys[mu.K].Lock; l != nil && l.Ts == tx.start {
			return true
		}
	}
	return false
}

// pickTxn draws a transaction, usually one for which the request is productive
// (holds locks / not yet prewritten), sometimes any.
func (g *gen) pickTxn(mode int) *gtxn {
	var pref []*gtxn
	for _, tx := range g.txns {
		switch mode {
		case pickPending:
			if !tx.sent {
				pref = append(pref, tx)
			}
		case pickHolder:
			if g.holds(tx, false) {
				pref = append(pref, tx)
			}
		case pickPrimaryHolder:
			if g.holds(tx, true) {
				pref = append(pref, tx)
			}
		}
	}
	if len(pref) > 0 && rapid.IntRange(0, 9).Draw(g.t, "productive") < 7 {
		return pref[rapid.IntRange(0, len(pref)-1).Draw(g.t, "txn-pref")]
	}
	return g.txns[rapid.IntRange(0, len(g.txns)-1).Draw(g.t, "txn")]
}

func minI(a, b int) int {
	if a < b {
		return a
	}
	return b
}

// emit applies a write step to the generation-time model and records it.
func (g *gen) emit(s Step) Expect {
	for _, mu := range s.Muts {
		g.dirty[mu.K] = true
	}
	for _, k := range s.Keys {
		g.dirty[k] = true
	}
	if s.Op == OpCheck {
		g.dirty[s.Primary] = true
	}
	type snap struct {
		has    bool
		l      MLock
		writes int
	}
	before := make([]snap, g.nk)
	for k := range before {
		if l := g.m.Keys[k].Lock; l != nil {
			before[k].has, before[k].l = true, *l
		}
		before[k].writes = len(g.m.Keys[k].Writes)
	}
	e := g.m.Apply(s, nil)
	for k := range before {
		l := g.m.Keys[k].Lock
		if (l != nil) != before[k].has || (l != nil && *l != before[k].l) {
			g.lockW[k]++ // one engine write to the lock CF of k
		}
		if len(g.m.Keys[k].Writes) > before[k].writes {
			g.wrW[k]++
		}
	}
	g.steps = append(g.steps, s)
	return e
}

// r21bad: committing (k,start) at version cv would hit the leftover state "lock and
// commit record coexist" with the recorded commit version.
func (g *gen) r21bad(k int, start, cv uint64) bool {
	l := g.m.Keys[k].Lock
	w := g.m.WriteByStart(k, start)
	return l != nil && l.Ts == start && w != nil && w.Kind != KRoll && w.Commit == cv
}

// partialCommit makes a Commit fail between its two engine writes: the hot-key
// limit is set so that the write record of key k is still accepted and the removal
// of the lock is refused; afterwards the limit is lifted again.
func (g *gen) partialCommit(tx *gtxn) bool {
	var cand []int
	for _, mu := range tx.muts {
		k := mu.K
		l := g.m.Keys[k].Lock
		if l == nil || l.Ts != tx.start || g.m.WriteByStart(k, tx.start) != nil {
			continue
		}
		if g.wrW[k]+1 < g.lockW[k]+1 && g.lockW[k]+1 >= 2 {
			cand = append(cand, k)
		}
	}
	if len(cand) == 0 {
		return false
	}
	k := cand[rapid.IntRange(0, len(cand)-1).Draw(g.t, "partial-key")]
	cv := g.commitVersion(tx)
	l := g.m.Keys[k].Lock
	if l.MinCommit > cv {
		return false
	}
	g.add(Step{Op: OpHotLimit, N: g.lockW[k] + 1})
	// not through emit: the generation-time model must end up in the partial state
	g.dirty[k] = true
	g.steps = append(g.steps, Step{Op: OpCommit, Start: tx.start, Commit: cv, Keys: []int{k}})
	g.m.Keys[k].Writes = append(g.m.Keys[k].Writes, MWrite{Commit: cv, Start: tx.start, Kind: l.Kind})
	g.wrW[k]++
	g.lockW[k]++ // the refused touch is counted as well
	g.add(Step{Op: OpHotLimit, N: 0})
	g.partial, g.partialKey = tx, k
	return true
}

// followPartial sends a request that must respect the commit record left behind by
// a partial commit: rollback-type requests must not undo it, a commit completes it.
func (g *gen) followPartial() {
	tx, k := g.partial, g.partialKey
	l := g.m.Keys[k].Lock
	if l == nil || l.Ts != tx.start {
		g.partial = nil
		g.rollback(tx)
		return
	}
	switch rapid.IntRange(0, 5).Draw(g.t, "follow-partial") {
	case 0:
		g.emit(Step{Op: OpRollback, Start: tx.start, Keys: []int{k}})
	case 1:
		g.emit(Step{Op: OpResolve, Start: tx.start, Keys: []int{k}})
	case 2:
		if k == tx.primary {
			g.emit(Step{Op: OpCheck, Start: tx.start, Primary: k, Cur: tx.start + tx.ttl + 1, RBNE: rapid.Bool().Draw(g.t, "rbne")})
			return
		}
		g.emit(Step{Op: OpRollback, Start: tx.start, Keys: tx.keys(true)})
	case 3:
		g.commit(tx)
	case 4:
		g.read(true)
	default:
		g.resolve(tx)
	}
}

func (g *gen) newTxn() {
	t := g.t
	tx := &gtxn{start: g.alloc()}
	nm := rapid.IntRange(1, minI(3, g.nk)).Draw(t, "nmuts")
	perm := rapid.Permutation(seq(g.nk)).Draw(t, "keys")
	if rapid.IntRange(0, 9).Draw(t, "prefer-unlocked") < 7 {
		sort.SliceStable(perm, func(i, j int) bool {
			return g.m.Keys[perm[i]].Lock == nil && g.m.Keys[perm[j]].Lock != nil
		})
	}
	perm = perm[:nm]
	for _, k := range perm {
		op := []int{KPut, KPut, KPut, KDel, KLock}[rapid.IntRange(0, 4).Draw(t, "mop")]
		mu := Mut{K: k, Op: op}
		if op == KPut {
			mu.V = fmt.Sprintf("v%d.%d", tx.start, k)
			if !g.p.Excl.F2 {
				mu.Sz = []int{0, 0, 0, 0, 2500, 4000, 7000, 8120}[rapid.IntRange(0, 7).Draw(t, "vsz")]
			}
		}
		tx.muts = append(tx.muts, mu)
	}
	tx.primary = tx.muts[rapid.IntRange(0, nm-1).Draw(t, "primary")].K
	tx.ttl = []uint64{0, 1, 2, 3, 4, 6, 40}[rapid.IntRange(0, 6).Draw(t, "ttl")]
	tx.minCommit = []uint64{0, 0, 0, tx.start + 1, tx.start + 2, tx.start + 3, tx.start + 4}[rapid.IntRange(0, 6).Draw(t, "minc")]
	g.txns = append(g.txns, tx)
	// usually prewrite right away; otherwise the prewrite is late (other steps in between)
	if rapid.IntRange(0, 9).Draw(t, "late") < 7 {
		g.prewrite(tx, rapid.IntRange(0, 2).Draw(t, "batch"))
	}
}

func seq(n int) []int {
	s := make([]int, n)
	for i := range s {
		s[i] = i
	}
	return s
}

// prewrite sends all mutations (batch 0), the primary's batch (1) or the secondaries (2).
func (g *gen) prewrite(tx *gtxn, batch int) {
	var muts []Mut
	for _, mu := range tx.muts {
		switch {
		case batch == 0, batch == 1 && mu.K == tx.primary, batch == 2 && mu.K != tx.primary:
			muts = append(muts, mu)
		}
	}
	if len(muts) == 0 {
		muts = append(muts, tx.muts...)
	}
	if g.p.Excl.R7 {
		// a duplicate prewrite of a held lock whose min commit ts was pushed resets it
		var keep []Mut
		for _, mu := range muts {
			if l := g.m.Keys[mu.K].Lock; l != nil && l.Ts == tx.start && l.MinCommit != tx.minCommit {
				g.excl++
				continue
			}
			keep = append(keep, mu)
		}
		muts = keep
		if len(muts) == 0 {
			return
		}
	}
	tx.sent = true
	g.emit(Step{Op: OpPrewrite, Start: tx.start, Primary: tx.primary, Muts: muts, TTL: tx.ttl, MinCommit: tx.minCommit})
}

func (tx *gtxn) keys(primaryFirst bool) []int {
	var ks []int
	if primaryFirst {
		ks = append(ks, tx.primary)
	}
	for _, mu := range tx.muts {
		if primaryFirst && mu.K == tx.primary {
			continue
		}
		ks = append(ks, mu.K)
	}
	return ks
}

func (g *gen) subset(tx *gtxn, label string) []int {
	all := tx.keys(true)
	switch rapid.IntRange(0, 3).Draw(g.t, label) {
	case 0:
		return all[:1] // primary only
	case 1:
		if len(all) > 1 {
			return all[1:] // secondaries only
		}
	case 2:
		if len(all) > 1 {
			i := rapid.IntRange(0, len(all)-1).Draw(g.t, label+"-one")
			return []int{all[i]}
		}
	}
	return all
}

func (g *gen) committedAny(tx *gtxn) bool {
	for _, mu := range tx.muts {
		if w := g.m.WriteByStart(mu.K, tx.start); w != nil && w.Kind != KRoll {
			return true
		}
	}
	return false
}

// commitVersion returns the transaction's commit version, allocating one when
// none exists, or a fresh one when the last attempt can only have been refused
// for being below the min commit ts.
func (g *gen) commitVersion(tx *gtxn) uint64 {
	if len(tx.commits) > 0 {
		cur := tx.commits[len(tx.commits)-1]
		stale := false
		for _, mu := range tx.muts {
			if l := g.m.Keys[mu.K].Lock; l != nil && l.Ts == tx.start && l.MinCommit > cur {
				stale = true
			}
		}
		if !(stale && !g.committedAny(tx) && rapid.Bool().Draw(g.t, "fresh-commit-ts")) {
			return cur
		}
	}
	c := g.alloc()
	tx.commits = append(tx.commits, c)
	g.commitTs[c] = true
	return c
}

func (g *gen) commit(tx *gtxn) {
	keys := g.subset(tx, "ckeys")
	if g.p.Excl.R5 {
		var keep []int
		for _, k := range keys {
			if w := g.m.WriteByStart(k, tx.start); w != nil && w.Kind == KRoll {
				g.excl++
				continue
			}
			keep = append(keep, k)
		}
		keys = keep
		if len(keys) == 0 {
			return
		}
	}
	cv := g.commitVersion(tx)
	if g.p.Excl.R21 {
		var keep []int
		for _, k := range keys {
			if g.r21bad(k, tx.start, cv) {
				g.excl++
				continue
			}
			keep = append(keep, k)
		}
		keys = keep
		if len(keys) == 0 {
			return
		}
	}
	g.emit(Step{Op: OpCommit, Start: tx.start, Commit: cv, Keys: keys})
}

// r1bad: rolling back (k,start) would write a tombstone default@start below the
// start ts of data the key already has.
func (g *gen) r1bad(k int, start uint64) bool {
	if g.m.WriteByStart(k, start) != nil {
		return false // rollbackKey returns early
	}
	for s := range g.m.Keys[k].Data {
		if s > start {
			return true
		}
	}
	return false
}

func (g *gen) rollback(tx *gtxn) {
	keys := g.subset(tx, "rkeys")
	if g.p.Excl.R6 {
		var keep []int
		for _, k := range keys {
			if l := g.m.Keys[k].Lock; l != nil && l.Ts != tx.start && g.m.WriteByStart(k, tx.start) == nil {
				g.excl++
				continue
			}
			keep = append(keep, k)
		}
		keys = keep
	}
	if g.p.Excl.R1 {
		var keep []int
		for _, k := range keys {
			if g.r1bad(k, tx.start) {
				g.excl++
				continue
			}
			keep = append(keep, k)
		}
		keys = keep
	}
	if len(keys) == 0 {
		return
	}
	g.emit(Step{Op: OpRollback, Start: tx.start, Keys: keys})
}

func (g *gen) resolve(tx *gtxn) {
	keys := g.subset(tx, "skeys")
	var cv uint64
	// a resolver commits with the version the primary was committed at; otherwise it rolls back
	if w := g.m.WriteByStart(tx.primary, tx.start); w != nil && w.Kind != KRoll {
		cv = w.Commit
	} else if len(tx.commits) > 0 && rapid.IntRange(0, 4).Draw(g.t, "rogue-resolve") == 0 {
		cv = tx.commits[len(tx.commits)-1]
	}
	if g.p.Excl.R21 && cv != 0 {
		var keep []int
		for _, k := range keys {
			if g.r21bad(k, tx.start, cv) {
				g.excl++
				continue
			}
			keep = append(keep, k)
		}
		keys = keep
		if len(keys) == 0 {
			return
		}
	}
	g.emit(Step{Op: OpResolve, Start: tx.start, Commit: cv, Keys: keys})
}

func (g *gen) check(tx *gtxn) {
	t := g.t
	s := Step{Op: OpCheck, Start: tx.start, Primary: tx.primary, RBNE: rapid.Bool().Draw(t, "rbne")}
	exp := tx.start + tx.ttl
	curs := []uint64{exp, exp + 1, g.next, 0, tx.start}
	if exp > 0 {
		curs = append(curs, exp-1)
	}
	s.Cur = curs[rapid.IntRange(0, len(curs)-1).Draw(t, "cur")]
	callers := []uint64{0, 0, g.next + 1, tx.start + 1}
	if n := len(tx.commits); n > 0 {
		c := tx.commits[n-1]
		callers = append(callers, c-3, c-2, c-1, c, c+1)
	}
	s.Caller = callers[rapid.IntRange(0, len(callers)-1).Draw(t, "caller")]
	if g.p.Excl.R1 && s.RBNE && g.m.Keys[s.Primary].Lock == nil && g.r1bad(s.Primary, s.Start) {
		g.excl++
		s.RBNE = false
	}
	g.emit(s)
}

func (g *gen) dup() {
	var ix []int
	for i, s := range g.steps {
		if s.IsWrite() {
			ix = append(ix, i)
		}
	}
	i := ix[rapid.IntRange(0, len(ix)-1).Draw(g.t, "dup-of")]
	if rapid.Bool().Draw(g.t, "dup-last") {
		i = ix[len(ix)-1]
	}
	s := g.steps[i]
	s.Dup = i + 1
	s.Muts = append([]Mut(nil), s.Muts...)
	s.Keys = append([]int(nil), s.Keys...)
	// the same exclusions apply to a re-sent request
	switch s.Op {
	case OpCommit, OpResolve:
		for _, k := range s.Keys {
			if w := g.m.WriteByStart(k, s.Start); s.Op == OpCommit && g.p.Excl.R5 && w != nil && w.Kind == KRoll {
				g.excl++
				return
			}
			if g.p.Excl.R21 && s.Commit != 0 && g.r21bad(k, s.Start, s.Commit) {
				g.excl++
				return
			}
		}
	case OpRollback:
		for _, k := range s.Keys {
			if l := g.m.Keys[k].Lock; g.p.Excl.R6 && l != nil && l.Ts != s.Start && g.m.WriteByStart(k, s.Start) == nil {
				g.excl++
				return
			}
			if g.p.Excl.R1 && g.r1bad(k, s.Start) {
				g.excl++
				return
			}
		}
	case OpCheck:
		if g.p.Excl.R1 && s.RBNE && g.m.Keys[s.Primary].Lock == nil && g.r1bad(s.Primary, s.Start) {
			g.excl++
			return
		}
	case OpPrewrite:
		if g.p.Excl.R7 {
			for _, mu := range s.Muts {
				if l := g.m.Keys[mu.K].Lock; l != nil && l.Ts == s.Start && l.MinCommit != s.MinCommit {
					g.excl++
					return
				}
			}
		}
	}
	g.emit(s)
}

// readTimestamps lists the timestamps a read may use: even numbers (never handed
// to a transaction) and start timestamps of transactions (a transaction reading
// at its own start ts); never a commit timestamp, so all timestamps stay unique.
func (g *gen) readTimestamps() []uint64 {
	var ts []uint64
	for v := uint64(2); v <= g.next+1; v += 2 {
		ts = append(ts, v)
	}
	for _, tx := range g.txns {
		ts = append(ts, tx.start)
	}
	sort.Slice(ts, func(i, j int) bool { return ts[i] < ts[j] })
	return ts
}

// r4bad reports whether read(k,t) would look at a rollback / lock-only record first.
func (g *gen) r4bad(k int, t uint64) bool {
	if l := g.m.Keys[k].Lock; l != nil && l.Ts <= t {
		return false // blocked before any write record is inspected
	}
	w := g.m.Newest(k, t)
	return w != nil && (w.Kind == KRoll || w.Kind == KLock)
}

// r8bad: the key is locked at or below t and has no write record at all.
func (g *gen) r8bad(k int, t uint64) bool {
	l := g.m.Keys[k].Lock
	return l != nil && l.Ts <= t && len(g.m.Keys[k].Writes) == 0
}

func (g *gen) scanTouched(s Step) []int {
	var keys []int
	n := 0
	for k := 0; k < g.nk; k++ {
		if s.From >= 0 && (k < s.From || (k == s.From && !s.Incl)) {
			continue
		}
		if n >= int(s.Limit) {
			break
		}
		keys = append(keys, k)
		rr := g.m.Read(k, s.TS)
		if rr.Locked != nil {
			break
		}
		if rr.Found {
			n++
		}
	}
	return keys
}

func (g *gen) read(get bool) {
	t := g.t
	tss := g.readTimestamps()
	// bias to the newest timestamps
	var ts uint64
	switch rapid.IntRange(0, 2).Draw(t, "ts-mode") {
	case 0:
		ts = tss[len(tss)-1]
	case 1:
		ts = tss[len(tss)-1-rapid.IntRange(0, minI(3, len(tss)-1)).Draw(t, "ts-recent")]
	default:
		ts = tss[rapid.IntRange(0, len(tss)-1).Draw(t, "ts-any")]
	}
	if get {
		var ok []int
		for k := 0; k < g.nk; k++ {
			if g.p.Excl.R4 && g.r4bad(k, ts) {
				continue
			}
			ok = append(ok, k)
		}
		if len(ok) < g.nk {
			g.excl++
		}
		if len(ok) == 0 {
			return
		}
		g.steps = append(g.steps, Step{Op: OpGet, K: ok[rapid.IntRange(0, len(ok)-1).Draw(t, "getkey")], TS: ts})
		return
	}
	var cands []Step
	skipped := false
	for from := -1; from < g.nk; from++ {
		for _, incl := range []bool{true, false} {
			if from < 0 && !incl {
				continue
			}
			for _, lim := range []uint32{1, 2, uint32(g.nk), 10} {
				s := Step{Op: OpScan, From: from, Incl: incl, Limit: lim, TS: ts}
				bad := false
				for _, k := range g.scanTouched(s) {
					if (g.p.Excl.R4 && g.r4bad(k, ts)) || (g.p.Excl.R8 && g.r8bad(k, ts)) {
						bad = true
					}
				}
				if bad {
					skipped = true
					continue
				}
				cands = append(cands, s)
			}
		}
	}
	if skipped {
		g.excl++
	}
	if len(cands) == 0 {
		return
	}
	g.steps = append(g.steps, cands[rapid.IntRange(0, len(cands)-1).Draw(t, "scan")])
}

// ---- maintenance.  The generator tracks which user keys each L0 table and each
// ingest-buffer table of the base level may contain (conservatively: every key a
// request touched since the previous flush) to keep equal internal keys (the lock
// record lives at one fixed version) out of the constellations of open findings.

func shares(a, b map[int]bool) bool {
	for k := range a {
		if b[k] {
			return true
		}
	}
	return false
}

func (g *gen) l0Overlap() bool {
	for i := range g.l0tabs {
		for j := i + 1; j < len(g.l0tabs); j++ {
			if shares(g.l0tabs[i], g.l0tabs[j]) {
				return true
			}
		}
	}
	return false
}

func (g *gen) l0SharesIngest() bool {
	for _, a := range g.l0tabs {
		for _, b := range g.ing {
			if shares(a, b) {
				return true
			}
		}
	}
	return false
}

func (g *gen) add(s Step) { g.steps = append(g.steps, s) }

// moveL0 emits compact(level 0): every L0 table moves into the ingest buffer of L6.
// Returns false when the step had to be dropped.
func (g *gen) moveL0() bool {
	if g.p.Excl.R3 {
		if g.l0Overlap() {
			g.excl++
			return false
		}
		if g.l0SharesIngest() {
			g.excl++
			if !g.drain() {
				return false
			}
		}
	}
	g.add(Step{Op: OpCompact, Level: 0, Mode: 0})
	g.ing = append(g.ing, g.l0tabs...)
	g.l0tabs = nil
	return true
}

// drain emits compact(level 6, drain): the ingest buffer is merged into the main
// tables.  Returns false when the step had to be dropped.
func (g *gen) drain() bool {
	if g.p.Excl.R20 && g.mainUsed && len(g.ing) > 0 {
		g.excl++
		return false
	}
	g.add(Step{Op: OpCompact, Level: 6, Mode: 1})
	if len(g.ing) > 0 {
		g.mainUsed = true
	}
	g.ing = nil
	return true
}

func (g *gen) maint() {
	t := g.t
	switch rapid.IntRange(0, 11).Draw(t, "maint") {
	case 0, 1, 2, 3, 4:
		g.flush()
	case 5, 6:
		g.moveL0()
	case 7:
		g.drain()
	case 8:
		// merge the ingest tables into one ingest table (keep mode)
		g.add(Step{Op: OpCompact, Level: 6, Mode: 2})
		if len(g.ing) > 1 {
			u := map[int]bool{}
			for _, m := range g.ing {
				for k := range m {
					u[k] = true
				}
			}
			g.ing = []map[int]bool{u}
		}
	case 9:
		g.add(Step{Op: OpCompact1})
	case 10:
		// L0->L0 needs at least four L0 tables; below that keep accumulating
		if len(g.l0tabs) < 4 {
			g.flush()
			return
		}
		if g.p.Excl.F1 && g.l0Overlap() {
			g.excl++
			return
		}
		g.add(Step{Op: OpL0L0})
		u := map[int]bool{}
		for _, m := range g.l0tabs {
			for k := range m {
				u[k] = true
			}
		}
		g.l0tabs = []map[int]bool{u}
	default:
		lvl := rapid.IntRange(0, 6).Draw(t, "level")
		mode := rapid.IntRange(0, 2).Draw(t, "mode")
		if lvl == 0 && mode == 0 {
			g.moveL0()
			return
		}
		if lvl == 6 && mode == 1 {
			g.drain()
			return
		}
		if lvl == 6 && mode == 2 {
			g.flush()
			return
		}
		g.add(Step{Op: OpCompact, Level: lvl, Mode: mode})
	}
}

func (g *gen) flush() {
	nt := map[int]bool{}
	for k := range g.dirty {
		nt[k] = true
	}
	clash := false
	for _, tb := range g.l0tabs {
		if shares(tb, nt) {
			clash = true
		}
	}
	if clash && (g.p.Excl.F1 || (g.p.Excl.R3 && !g.overlapL0)) {
		// keep a user key out of two L0 tables: empty L0 first
		g.excl++
		if !g.moveL0() {
			return
		}
	}
	g.add(Step{Op: OpFlush})
	if len(nt) > 0 { // flushing an empty memtable creates no table
		g.l0tabs = append(g.l0tabs, nt)
	}
	g.dirty = map[int]bool{}
}
