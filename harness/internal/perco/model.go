package perco

import (
	"fmt"
	"sort"
)

// ---- normalised responses (produced by the driver from pb responses and by the
// model for reads)

// KErr is a normalised pb.KeyError.
type KErr struct {
	Kind   string `json:"kind"` // locked | conflict | expired | abort | retryable | other
	Key    int    `json:"key"`  // key index, -1 when the error does not name a key
	LockTs uint64 `json:"lockts,omitempty"`
	MinC   uint64 `json:"minc,omitempty"`
	Msg    string `json:"msg,omitempty"`
}

// KVOut is one scan result.
type KVOut struct {
	K int
	V string
}

// Resp is a normalised response of one request.
type Resp struct {
	Errs          []KErr // prewrite: any number; others: 0 or 1
	Resolved      uint64
	Action        int
	LockTTL       uint64
	CommitVersion uint64
	NotFound      bool
	Value         string
	KVs           []KVOut
}

func (r Resp) Err() *KErr {
	if len(r.Errs) == 0 {
		return nil
	}
	return &r.Errs[0]
}

// CheckTxnStatus actions (pb.CheckTxnStatusAction).
const (
	ActNone        = 0
	ActTTLRollback = 1
	ActNoLockRB    = 2
	ActPushed      = 3
)

// ---- model state

// MLock is the lock of one key.
type MLock struct {
	Ts, TTL, MinCommit uint64
	Primary            int
	Kind               int
}

// MWrite is a write record of one key.
type MWrite struct {
	Commit, Start uint64
	Kind          int // KPut, KDel, KLock, KRoll
}

// MKey is the model state of one key.
type MKey struct {
	Lock   *MLock
	Writes []MWrite          // any order
	Data   map[uint64]string // start ts -> prewritten value (puts)
}

// Model is the Percolator reference model written from the texts of C17-C19:
// per key a lock and a list of write records.
type Model struct {
	Keys []MKey
}

// NewModel builds an empty model over n keys.
func NewModel(n int) *Model {
	m := &Model{Keys: make([]MKey, n)}
	for i := range m.Keys {
		m.Keys[i].Data = map[uint64]string{}
	}
	return m
}

// Clone deep-copies the model.
func (m *Model) Clone() *Model {
	c := NewModel(len(m.Keys))
	for i, k := range m.Keys {
		if k.Lock != nil {
			l := *k.Lock
			c.Keys[i].Lock = &l
		}
		c.Keys[i].Writes = append([]MWrite(nil), k.Writes...)
		for s, v := range k.Data {
			c.Keys[i].Data[s] = v
		}
	}
	return c
}

// WriteByStart returns the write record of transaction start on key k.
func (m *Model) WriteByStart(k int, start uint64) *MWrite {
	for i := range m.Keys[k].Writes {
		if m.Keys[k].Writes[i].Start == start {
			return &m.Keys[k].Writes[i]
		}
	}
	return nil
}

// Newest returns the newest write record of k with commit <= t (any kind).
func (m *Model) Newest(k int, t uint64) *MWrite {
	var best *MWrite
	for i := range m.Keys[k].Writes {
		w := &m.Keys[k].Writes[i]
		if w.Commit <= t && (best == nil || w.Commit > best.Commit) {
			best = w
		}
	}
	return best
}

// NewestData returns the newest put/delete write record of k with commit <= t.
func (m *Model) NewestData(k int, t uint64) *MWrite {
	var best *MWrite
	for i := range m.Keys[k].Writes {
		w := &m.Keys[k].Writes[i]
		if (w.Kind == KPut || w.Kind == KDel) && w.Commit <= t && (best == nil || w.Commit > best.Commit) {
			best = w
		}
	}
	return best
}

// ReadRes is the model's answer to read(k,t).
type ReadRes struct {
	Locked *MLock
	Found  bool
	Value  string
}

// Read is the read rule of C17: blocked by a lock with start <= t, otherwise the
// value of the newest committed put/delete with commit <= t, skipping rollback
// and lock-only records.
func (m *Model) Read(k int, t uint64) ReadRes {
	if l := m.Keys[k].Lock; l != nil && l.Ts <= t {
		return ReadRes{Locked: l}
	}
	w := m.NewestData(k, t)
	if w == nil || w.Kind == KDel {
		return ReadRes{}
	}
	return ReadRes{Found: true, Value: m.Keys[k].Data[w.Start]}
}

// ---- expectations for write requests

// Verdict of one outcome.
const (
	Free     = 0 // the properties do not fix the response
	MustOK   = 1
	MustFail = 2
)

// PWExp is the expectation for one prewrite mutation.
type PWExp struct {
	K       int
	Verdict int
	Why     string
	Applied bool // model applied the mutation
}

// Expect is what the model says about a write request.
type Expect struct {
	PW         []PWExp
	Verdict    int    // commit / rollback / resolve / check response as a whole
	Why        string // reason for MustFail
	Expired    bool   // the failure must be CommitTsExpired (C19)
	ExpiredKey int
	TTLRule    int  // check: +1 response must be TTL rollback, -1 must not be, 0 n/a
	Pushed     bool // check: min commit ts pushed in the model
	// check, no lock on the primary: the transaction's write record of the primary decides the
	// answer.  Committed != 0: the response must carry this commit version and no rollback action
	// (the outcome of a transaction is final).  RolledBack: the response must not carry a commit version.
	Committed  uint64
	RolledBack bool
	Changed    bool // model state changed
	Adversary  []string
}

func (m *Model) rollbackKey(k int, start uint64) bool {
	if m.WriteByStart(k, start) != nil {
		return false
	}
	mk := &m.Keys[k]
	if mk.Lock != nil && mk.Lock.Ts == start {
		mk.Lock = nil
	}
	delete(mk.Data, start)
	mk.Writes = append(mk.Writes, MWrite{Commit: start, Start: start, Kind: KRoll})
	return true
}

func (m *Model) commitKey(k int, l *MLock, cv uint64) {
	mk := &m.Keys[k]
	mk.Writes = append(mk.Writes, MWrite{Commit: cv, Start: l.Ts, Kind: l.Kind})
	mk.Lock = nil
}

// errKeys lists the keys named by observed errors (nil obs: none).
func failedKey(obs *Resp, k int) (failed, known bool) {
	if obs == nil {
		return false, false
	}
	for _, e := range obs.Errs {
		if e.Key == k {
			return true, true
		}
	}
	return false, true
}

// Apply executes a write step on the model.  obs is the observed response (nil
// while generating); it is consulted only where the properties leave the outcome
// open, so the model can follow the implementation there.
func (m *Model) Apply(s Step, obs *Resp) Expect {
	var e Expect
	switch s.Op {
	case OpPrewrite:
		for _, mu := range s.Muts {
			mk := &m.Keys[mu.K]
			x := PWExp{K: mu.K}
			switch {
			case mk.Lock != nil && mk.Lock.Ts != s.Start:
				x.Verdict, x.Why = MustFail, "key locked by another transaction"
			case mk.Lock != nil && mk.Lock.Ts == s.Start:
				// duplicate prewrite: re-applied request changes nothing
				x.Verdict, x.Why = MustOK, "duplicate prewrite of a held lock"
				e.Adversary = append(e.Adversary, "dup-prewrite-locked")
			default:
				own := m.WriteByStart(mu.K, s.Start)
				newerData := false // committed put/delete of another transaction above start
				newerAny := false  // any foreign record above start (rollback, lock-only, ...)
				for _, w := range mk.Writes {
					if w.Commit > s.Start && w.Start != s.Start {
						newerAny = true
						if w.Kind == KPut || w.Kind == KDel {
							newerData = true
						}
					}
				}
				switch {
				case own != nil && own.Kind == KRoll:
					x.Verdict, x.Why = MustFail, "transaction already rolled back on this key"
					e.Adversary = append(e.Adversary, "prewrite-after-rollback")
				case own != nil:
					x.Verdict, x.Why = MustFail, "transaction already committed on this key"
					e.Adversary = append(e.Adversary, "prewrite-after-commit")
				case newerData && (mu.Op == KPut || mu.Op == KDel):
					x.Verdict, x.Why = MustFail, "write conflict: a newer committed write of the key overlaps [start, commit]"
					e.Adversary = append(e.Adversary, "prewrite-conflict")
				case newerAny:
					// Only rollback / lock-only records above start, or this mutation is lock-only:
					// the properties do not fix the outcome; follow the implementation (default
					// while generating: refuse, as TiKV does).
					x.Verdict = Free
					failed, known := failedKey(obs, mu.K)
					if !known {
						failed = true
					}
					if !failed {
						x.Applied = true
					}
				default:
					x.Verdict = MustOK
					x.Applied = true
				}
				if x.Applied {
					mk.Lock = &MLock{Ts: s.Start, TTL: s.TTL, MinCommit: s.MinCommit, Primary: s.Primary, Kind: mu.Op}
					if mu.Op == KPut {
						mk.Data[s.Start] = string(mu.Value())
					} else {
						delete(mk.Data, s.Start)
					}
					e.Changed = true
				}
			}
			e.PW = append(e.PW, x)
		}
	case OpCommit:
		e.Verdict = MustOK
		for _, k := range s.Keys {
			mk := &m.Keys[k]
			l := mk.Lock
			w := m.WriteByStart(k, s.Start)
			if l != nil && l.Ts == s.Start {
				if l.MinCommit > s.Commit {
					e.Verdict, e.Why, e.Expired, e.ExpiredKey = MustFail, "commit version below the lock's min commit ts", true, k
					e.Adversary = append(e.Adversary, "commit-below-mincommit")
					return e
				}
				if w != nil && w.Kind != KRoll {
					// The commit record exists and the lock is still there (an earlier commit
					// failed between its two engine writes): committing completes it, the lock
					// goes away, no second record.
					m.Keys[k].Lock = nil
					e.Changed = true
					e.Adversary = append(e.Adversary, "commit-completes-partial-commit")
					continue
				}
				m.commitKey(k, l, s.Commit)
				e.Changed = true
				continue
			}
			switch {
			case w != nil && w.Kind == KRoll:
				e.Verdict, e.Why = MustFail, "key already rolled back"
				e.Adversary = append(e.Adversary, "commit-after-rollback")
				return e
			case w != nil:
				e.Adversary = append(e.Adversary, "dup-commit")
				if l != nil { // foreign lock above an already committed key: response open, stop like the code
					e.Verdict = Free
					if obs == nil || obs.Err() != nil {
						return e
					}
				}
				continue
			default:
				// never prewritten (or prewrite failed) and not rolled back: nothing to commit.
				e.Verdict = Free
				e.Adversary = append(e.Adversary, "commit-without-lock")
				if obs == nil || obs.Err() != nil {
					return e
				}
				continue
			}
		}
	case OpRollback:
		e.Verdict = Free
		for _, k := range s.Keys {
			w := m.WriteByStart(k, s.Start)
			if w != nil {
				if w.Kind == KRoll {
					e.Adversary = append(e.Adversary, "dup-rollback")
				} else {
					e.Adversary = append(e.Adversary, "rollback-after-commit")
					if l := m.Keys[k].Lock; l != nil && l.Ts == s.Start {
						e.Adversary = append(e.Adversary, "rollback-on-partial-commit")
					}
				}
				continue
			}
			if l := m.Keys[k].Lock; l != nil && l.Ts != s.Start {
				e.Adversary = append(e.Adversary, "rollback-under-foreign-lock")
			}
			if m.rollbackKey(k, s.Start) {
				e.Changed = true
			}
		}
	case OpResolve:
		e.Verdict = Free
		for _, k := range s.Keys {
			l := m.Keys[k].Lock
			if l == nil || l.Ts != s.Start {
				continue
			}
			if s.Commit == 0 {
				if w := m.WriteByStart(k, s.Start); w != nil && w.Kind != KRoll {
					e.Adversary = append(e.Adversary, "rollback-after-commit", "rollback-on-partial-commit")
				}
				if m.rollbackKey(k, s.Start) {
					e.Changed = true
				}
			} else {
				if l.MinCommit > s.Commit {
					e.Verdict, e.Why, e.Expired, e.ExpiredKey = MustFail, "resolve-commit below the lock's min commit ts", true, k
					e.Adversary = append(e.Adversary, "commit-below-mincommit")
					return e
				}
				if w := m.WriteByStart(k, s.Start); w != nil && w.Kind != KRoll {
					m.Keys[k].Lock = nil // completes a partial commit
					e.Changed = true
					e.Adversary = append(e.Adversary, "commit-completes-partial-commit")
				} else {
					m.commitKey(k, l, s.Commit)
					e.Changed = true
				}
			}
			e.Verdict = maxInt(e.Verdict, Free)
		}
	case OpCheck:
		e.Verdict = Free
		k := s.Primary
		l := m.Keys[k].Lock
		switch {
		case l != nil && l.Ts == s.Start && m.WriteByStart(k, s.Start) != nil:
			// leftover lock of a transaction already decided on the key: nothing may be
			// rolled back; the reported action is not judged.  An unexpired lock still takes
			// the min-commit-ts push like any other lock.
			e.Adversary = append(e.Adversary, "check-on-partial-commit")
			if !(l.TTL != 0 && s.Cur >= l.Ts+l.TTL) && s.Caller > 0 && l.MinCommit < s.Caller+1 {
				l.MinCommit = s.Caller + 1
				e.Pushed = true
				e.Changed = true
			}
		case l != nil && l.Ts == s.Start:
			if l.TTL != 0 && s.Cur >= l.Ts+l.TTL {
				e.TTLRule = 1
				m.rollbackKey(k, s.Start)
				e.Changed = true
				e.Adversary = append(e.Adversary, "ttl-expired-rollback")
			} else {
				e.TTLRule = -1
				if s.Caller > 0 && l.MinCommit < s.Caller+1 {
					l.MinCommit = s.Caller + 1
					e.Pushed = true
					e.Changed = true
				}
			}
		case l != nil:
			e.TTLRule = -1
		default:
			e.TTLRule = -1
			w := m.WriteByStart(k, s.Start)
			if w != nil && w.Kind == KRoll {
				e.RolledBack = true
			} else if w != nil {
				e.Committed = w.Commit
			}
			if w == nil && s.RBNE {
				if m.rollbackKey(k, s.Start) {
					e.Changed = true
					e.Adversary = append(e.Adversary, "rollback-if-not-exist")
				}
			}
		}
	default:
		panic("perco: Apply on a non-write step " + s.Op)
	}
	return e
}

func maxInt(a, b int) int {
	if a > b {
		return a
	}
	return b
}

// ExpectGet is the model's GET response.
func (m *Model) ExpectGet(s Step) Resp {
	r := m.Read(s.K, s.TS)
	switch {
	case r.Locked != nil:
		return Resp{Errs: []KErr{{Kind: "locked", Key: s.K, LockTs: r.Locked.Ts}}}
	case r.Found:
		return Resp{Value: r.Value}
	}
	return Resp{NotFound: true}
}

// ExpectScan is the model's SCAN response: keys in order from the start key, each
// read by the read rule, until limit pairs are collected; the first blocked key
// ends the scan with a lock error (pairs collected so far are kept).
func (m *Model) ExpectScan(s Step) Resp {
	var out Resp
	limit := int(s.Limit)
	if limit <= 0 {
		limit = 1
	}
	for k := range m.Keys {
		if s.From >= 0 && (k < s.From || (k == s.From && !s.Incl)) {
			continue
		}
		if len(out.KVs) >= limit {
			break
		}
		r := m.Read(k, s.TS)
		if r.Locked != nil {
			out.Errs = []KErr{{Kind: "locked", Key: k, LockTs: r.Locked.Ts}}
			break
		}
		if r.Found {
			out.KVs = append(out.KVs, KVOut{K: k, V: r.Value})
		}
	}
	return out
}

// ---- snapshots for state comparison

// Snap is a canonical rendering of the logical contents: locks, data-carrying
// write records (put/delete/lock-only) and rollback records.
type Snap struct {
	Locks  []string
	Writes []string
	Rolls  []string
}

func (m *Model) Snap() Snap {
	var s Snap
	for k, mk := range m.Keys {
		if l := mk.Lock; l != nil {
			s.Locks = append(s.Locks, lockString(k, l))
		}
		for _, w := range mk.Writes {
			if w.Kind == KRoll {
				s.Rolls = append(s.Rolls, fmt.Sprintf("k%d rollback@%d", k, w.Start))
			} else {
				s.Writes = append(s.Writes, fmt.Sprintf("k%d kind=%d start=%d commit=%d", k, w.Kind, w.Start, w.Commit))
			}
		}
	}
	sort.Strings(s.Locks)
	sort.Strings(s.Writes)
	sort.Strings(s.Rolls)
	return s
}

func lockString(k int, l *MLock) string {
	return fmt.Sprintf("k%d ts=%d primary=%d ttl=%d kind=%d", k, l.Ts, l.Primary, l.TTL, l.Kind)
}
