//go:build verif

package perco

import (
	"fmt"
	"reflect"
	"strings"

	"nokvverif/internal/pbt"
)

// failure is an oracle failure owned by one or more of the properties 17/18/19.
type failure struct {
	owners []int
	sig    string
	msg    string
}

func owns(f *failure, prop int) bool {
	for _, o := range f.owners {
		if o == prop {
			return true
		}
	}
	return false
}

// Execute runs the history against a real DB and the reference model and applies
// the oracles.  prop selects whose oracles are reported (17, 18 or 19); a
// divergence that belongs only to another property's oracle ends the case
// quietly (label "foreign:<sig>") because the model and the DB no longer agree
// and that property's own check reports it.
func Execute(c Case, r *pbt.Rec, prop int) error {
	if err := validate(c); err != nil {
		return pbt.Failf("harness", "malformed case: %v", err)
	}
	x := newExec(c, r, prop)
	defer x.d.Close()
	if err, _ := x.runSteps(); err != nil {
		return err
	}
	return nil
}

func newExec(c Case, r *pbt.Rec, prop int) *exec {
	d := Open(c.Keys)
	x := &exec{c: c, r: r, d: d, m: NewModel(len(c.Keys)), prop: prop,
		setGen: make([]int, len(c.Keys)), remGen: make([]int, len(c.Keys)), lockState: make([]int, len(c.Keys))}
	for i := range x.setGen {
		x.setGen[i], x.remGen[i] = -1, -1
	}
	return x
}

// runSteps executes the sequential history; done reports that every step ran and
// the model still agrees with the store.
func (x *exec) runSteps() (err error, done bool) {
	c, r, prop, d := x.c, x.r, x.prop, x.d
	for i, s := range c.Steps {
		fs, err := x.step(i, s)
		if err != nil {
			return pbt.Failf("harness", "step %d (%s): %v\n%s", i, s, err, x.trace()), false
		}
		fs = append(fs, x.compareState(i, s)...)
		if len(fs) == 0 {
			continue
		}
		// report this property's own oracle first; a divergence owned only by other
		// properties ends the case quietly
		for _, f := range fs {
			if owns(f, prop) {
				return pbt.Failf(f.sig, "step %d (%s): %s\n%s", i, s, f.msg, x.trace()), false
			}
		}
		r.Label("foreign:" + fs[0].sig)
		return nil, false
	}
	d.Settle()
	x.finish()
	return nil, true
}

func validate(c Case) error {
	if len(c.Keys) == 0 || len(c.Keys) > 8 {
		return fmt.Errorf("need 1..8 keys")
	}
	for i := 1; i < len(c.Keys); i++ {
		if c.Keys[i-1] >= c.Keys[i] {
			return fmt.Errorf("keys must be strictly increasing")
		}
	}
	okKey := func(k int) bool { return k >= 0 && k < len(c.Keys) }
	for i, s := range c.Steps {
		bad := false
		for _, k := range s.Keys {
			bad = bad || !okKey(k)
		}
		for _, mu := range s.Muts {
			bad = bad || !okKey(mu.K) || mu.Op < KPut || mu.Op > KLock
		}
		switch s.Op {
		case OpPrewrite, OpCheck:
			bad = bad || !okKey(s.Primary)
		case OpGet:
			bad = bad || !okKey(s.K)
		case OpScan:
			bad = bad || s.From < -1 || s.From >= len(c.Keys)
		}
		if bad {
			return fmt.Errorf("step %d refers to an unknown key or op", i)
		}
	}
	return nil
}

type exec struct {
	c    Case
	r    *pbt.Rec
	d    *Driver
	m    *Model
	prop int
	log  []string

	adversarial int
	partial     int
	pairMode    bool
	throttled   bool
	ntRead      bool
	ntLock      bool
	// C19 non-trivial rule: per key, flush generation in which the lock was set /
	// removed (-1: n/a); lockState 0 none, 1 set (unflushed or flushed), 2 removed-unflushed
	setGen, remGen, lockState []int
}

func (x *exec) trace() string {
	const max = 60
	l := x.log
	if len(l) > max {
		l = l[len(l)-max:]
	}
	return "history:\n  " + strings.Join(l, "\n  ")
}

func (x *exec) step(i int, s Step) ([]*failure, error) {
	r := x.r
	r.Label("op:" + s.Op)
	switch {
	case s.IsMaint():
		what, err := x.d.Maint(s)
		if err != nil {
			return nil, err
		}
		lay, _ := x.d.Layout()
		x.log = append(x.log, fmt.Sprintf("%d %s -> %s [%s]", i, s, what, strings.TrimSpace(lay)))
		r.Label("maint:" + what)
		if s.Op == OpFlush || s.Op == OpRotate {
			x.noteFlush()
		}
		if s.Op == OpHotLimit {
			x.throttled = s.N > 0 && s.N < NoHotLimit
		}
		return nil, nil
	case s.IsRead():
		obs, err := x.d.Do(s)
		if err != nil {
			return nil, err
		}
		var exp Resp
		if s.Op == OpGet {
			exp = x.m.ExpectGet(s)
		} else {
			exp = x.m.ExpectScan(s)
		}
		x.log = append(x.log, fmt.Sprintf("%d %s -> %s (model %s)", i, s, respString(obs), respString(exp)))
		x.classifyRead(s, exp)
		if f := x.compareRead(s, obs, exp); f != nil {
			return []*failure{f}, nil
		}
		return nil, nil
	}
	// transactional write request
	var pre Dump
	var err error
	pre, err = x.d.Dump()
	if err != nil {
		return nil, err
	}
	before := make([]*MLock, len(x.m.Keys))
	for k := range x.m.Keys {
		before[k] = x.m.Keys[k].Lock
	}
	obs, err := x.d.Do(s)
	if err != nil {
		return nil, err
	}
	if retryable(obs) {
		// The engine refused one of the request's writes (hot-key throttle): the request
		// took effect as a prefix of its engine writes.  The properties say nothing about
		// such a response, so the model re-reads the touched keys from the store (lock via
		// Reader.GetLock, write records via the iterator) and goes on from there; every
		// later request is judged against that state.
		x.log = append(x.log, fmt.Sprintf("%d %s -> %s (partial: model resynchronised)", i, s, respString(obs)))
		r.Label("partial:" + s.Op)
		if err := x.adopt(s); err != nil {
			return nil, err
		}
		return nil, nil
	}
	exp := x.m.Apply(s, &obs)
	x.log = append(x.log, fmt.Sprintf("%d %s -> %s", i, s, respString(obs)))
	for _, a := range exp.Adversary {
		r.Label("adv:" + a)
		x.adversarial++
	}
	if s.Dup > 0 {
		r.Label("adv:resend")
		x.adversarial++
	}
	for k := range x.m.Keys {
		after := x.m.Keys[k].Lock
		switch {
		case before[k] == nil && after != nil:
			x.lockState[k], x.setGen[k], x.remGen[k] = 1, x.d.Flushes, -1
			r.Label("lock:set")
		case before[k] != nil && after == nil:
			x.lockState[k], x.remGen[k] = 2, x.d.Flushes
			r.Label("lock:removed")
		}
	}
	var fs []*failure
	if f := x.compareWriteResp(s, obs, exp); f != nil {
		fs = append(fs, f)
	}
	if !exp.Changed {
		post, err := x.d.Dump()
		if err != nil {
			return nil, err
		}
		if d := diffDump(pre, post, s.Dup > 0); d != "" {
			sig, what := "noop-request-changed-contents", "the model says this request changes nothing"
			if s.Dup > 0 {
				sig, what = "reapplied-request-changed-contents", "re-applied request (verbatim re-send of step "+fmt.Sprint(s.Dup-1)+")"
			}
			for _, a := range exp.Adversary {
				if strings.HasPrefix(a, "dup-") {
					sig = "reapplied-request-changed-contents"
				}
				if a == "rollback-after-commit" {
					sig = "rollback-after-commit-changed-contents"
				}
				if a == "commit-after-rollback" {
					sig = "commit-after-rollback-changed-contents"
				}
			}
			fs = append(fs, &failure{owners: []int{18}, sig: sig, msg: what + ", but the database contents changed: " + d})
		} else {
			r.Label("noop-verified-unchanged")
		}
	}
	return fs, nil
}

func retryable(r Resp) bool {
	for _, e := range r.Errs {
		if e.Kind == "retryable" {
			return true
		}
	}
	return false
}

// adopt re-reads lock and write records of the keys a request touched.
func (x *exec) adopt(s Step) error {
	keys := append([]int(nil), s.Keys...)
	for _, mu := range s.Muts {
		keys = append(keys, mu.K)
	}
	if s.Op == OpCheck {
		keys = append(keys, s.Primary)
	}
	dump, err := x.d.Dump()
	if err != nil {
		return err
	}
	for _, k := range keys {
		l, err := x.d.Lock(k)
		if err != nil {
			return err
		}
		mk := &x.m.Keys[k]
		hadLock := mk.Lock != nil
		mk.Lock = l
		mk.Writes = nil
		for _, rec := range dump.Recs {
			if rec.K == k {
				mk.Writes = append(mk.Writes, rec.W)
			}
		}
		if l != nil && x.m.WriteByStart(k, l.Ts) != nil {
			x.r.Label("partial:lock-and-decision-record-coexist")
			x.partial++
		}
		if s.Op == OpPrewrite && l != nil && l.Ts == s.Start {
			for _, mu := range s.Muts {
				if mu.K == k && mu.Op == KPut {
					mk.Data[s.Start] = string(mu.Value())
				}
			}
		}
		switch {
		case !hadLock && l != nil:
			x.lockState[k], x.setGen[k], x.remGen[k] = 1, x.d.Flushes, -1
		case hadLock && l == nil:
			x.lockState[k], x.remGen[k] = 2, x.d.Flushes
		}
	}
	return nil
}

func (x *exec) noteFlush() {
	for k := range x.lockState {
		if x.lockState[k] == 2 {
			// removal is being flushed now; the lock itself was flushed earlier iff a flush
			// happened between set and removal
			if x.setGen[k] >= 0 && x.setGen[k] < x.remGen[k] {
				x.ntLock = true
				x.r.Label("lock:removal-flushed-into-other-sst")
			} else {
				x.r.Label("lock:set-and-removal-in-one-memtable")
			}
			x.lockState[k] = 0
		}
	}
}

func (x *exec) finish() {
	r := x.r
	prop := x.prop
	if x.pairMode {
		prop = 0 // the pair spec has its own non-trivial rule
	}
	switch prop {
	case 17:
		if x.ntRead {
			r.NT()
		}
	case 18:
		if x.adversarial > 0 {
			r.NT()
		}
	case 19:
		if x.ntLock {
			r.NT()
		}
	}
	if x.d.Flushes > 0 {
		r.Label("case:with-flush")
	}
	_, per := x.d.Layout()
	if len(per) > 1 {
		r.Label("case:multi-level")
	}
	if per[0] > 1 {
		r.Label("case:multi-L0")
	}
}

// classifyRead labels the read classes and evaluates C17's non-trivial rule.
func (x *exec) classifyRead(s Step, exp Resp) {
	r := x.r
	keys := []int{s.K}
	if s.Op == OpScan {
		keys = keys[:0]
		limit := int(s.Limit)
		n := 0
		for k := range x.m.Keys {
			if s.From >= 0 && (k < s.From || (k == s.From && !s.Incl)) {
				continue
			}
			if n >= limit {
				break
			}
			keys = append(keys, k)
			rr := x.m.Read(k, s.TS)
			if rr.Locked != nil {
				break
			}
			if rr.Found {
				n++
			}
		}
		r.Label(fmt.Sprintf("scan:touched-%d", len(keys)))
	}
	for _, k := range keys {
		rr := x.m.Read(k, s.TS)
		mk := x.m.Keys[k]
		switch {
		case rr.Locked != nil:
			r.Label("read:blocked")
			if rr.Locked.Ts == s.TS {
				r.Label("read:blocked-at-lock-ts")
			}
			continue
		case rr.Found:
			r.Label("read:value")
		default:
			r.Label("read:notfound")
		}
		nw := x.m.Newest(k, s.TS)
		nd := x.m.NewestData(k, s.TS)
		if nw != nil && (nw.Kind == KRoll || nw.Kind == KLock) {
			r.Label("read:newest-is-rollback-or-lockonly")
			if nd != nil && nd.Kind == KPut {
				r.Label("read:skips-to-older-put")
				x.ntRead = true
			}
		}
		if mk.Lock != nil && mk.Lock.Ts > s.TS {
			r.Label("read:below-newer-lock")
			if rr.Found {
				x.ntRead = true
			}
		}
		newer := false
		for _, w := range mk.Writes {
			if w.Commit > s.TS && (w.Kind == KPut || w.Kind == KDel) {
				newer = true
			}
		}
		if newer {
			r.Label("read:below-newer-commit")
			if rr.Found {
				x.ntRead = true
			}
		}
		if nd != nil && nd.Kind == KDel {
			r.Label("read:deleted")
		}
	}
}

func (x *exec) compareRead(s Step, obs, exp Resp) *failure {
	lockRelated := false
	oe, ee := obs.Err(), exp.Err()
	if (oe == nil) != (ee == nil) {
		lockRelated = true
	}
	if oe != nil && oe.Kind != "locked" {
		return &failure{owners: []int{17}, sig: s.Op + "-unexpected-error", msg: fmt.Sprintf("read returned %s", respString(obs))}
	}
	same := (oe == nil) == (ee == nil)
	if same && oe != nil {
		same = oe.Key == ee.Key && oe.LockTs == ee.LockTs
	}
	if same && s.Op == OpGet && oe == nil {
		same = obs.NotFound == exp.NotFound && (obs.NotFound || obs.Value == exp.Value)
	}
	if same && s.Op == OpScan {
		same = len(obs.KVs) == len(exp.KVs)
		for i := 0; same && i < len(obs.KVs); i++ {
			same = obs.KVs[i] == exp.KVs[i]
		}
	}
	if same {
		return nil
	}
	f := &failure{owners: []int{17}, msg: fmt.Sprintf("read differs from the reference model: got %s, model says %s", respString(obs), respString(exp))}
	switch {
	case ee != nil && oe == nil:
		f.sig = s.Op + "-not-blocked-by-lock"
	case ee == nil && oe != nil:
		f.sig = s.Op + "-blocked-without-lock"
	case oe != nil:
		f.sig = s.Op + "-wrong-lock-reported"
	case s.Op == OpGet && obs.NotFound && !exp.NotFound:
		f.sig = "get-misses-committed-value"
	case s.Op == OpGet && !obs.NotFound && exp.NotFound:
		f.sig = "get-returns-value-for-absent-key"
	case s.Op == OpGet:
		f.sig = "get-wrong-version"
	default:
		f.sig = "scan-differs-from-model"
	}
	if lockRelated {
		f.owners = []int{17, 19}
	}
	return f
}

func (x *exec) compareWriteResp(s Step, obs Resp, exp Expect) *failure {
	switch s.Op {
	case OpPrewrite:
		for _, e := range obs.Errs {
			if e.Key < 0 {
				return &failure{owners: []int{17, 18, 19}, sig: "prewrite-unattributable-error", msg: fmt.Sprintf("prewrite returned %s", respString(obs))}
			}
		}
		for _, p := range exp.PW {
			failed, _ := failedKey(&obs, p.K)
			switch {
			case p.Verdict == MustFail && !failed:
				f := &failure{sig: "prewrite-accepted", msg: fmt.Sprintf("prewrite of key %d succeeded although: %s", p.K, p.Why)}
				switch {
				case strings.Contains(p.Why, "locked"):
					f.owners, f.sig = []int{18, 19}, "prewrite-overwrites-foreign-lock"
				case strings.Contains(p.Why, "conflict"):
					f.owners, f.sig = []int{18}, "prewrite-ignores-write-conflict"
				default:
					f.owners, f.sig = []int{18, 19}, "prewrite-after-decision-accepted"
				}
				return f
			case p.Verdict == MustOK && failed:
				f := &failure{owners: []int{19}, sig: "prewrite-refused", msg: fmt.Sprintf("prewrite of key %d refused (%s) although the model has no lock of another transaction, no newer write and no decision for this transaction on the key", p.K, respString(obs))}
				for _, e := range obs.Errs {
					if e.Key == p.K && e.Kind == "conflict" {
						f.owners = []int{18}
						f.sig = "prewrite-reports-phantom-conflict"
					} else if e.Key == p.K && e.Kind == "locked" {
						f.sig = "prewrite-reports-phantom-lock"
					}
				}
				return f
			}
		}
	case OpCommit, OpResolve:
		oe := obs.Err()
		switch {
		case exp.Verdict == MustFail && oe == nil:
			if exp.Expired {
				return &failure{owners: []int{19}, sig: "commit-below-min-commit-ts-accepted", msg: fmt.Sprintf("%s succeeded although: %s (key %d)", s.Op, exp.Why, exp.ExpiredKey)}
			}
			return &failure{owners: []int{18}, sig: "commit-after-rollback-succeeds", msg: fmt.Sprintf("%s returned success although: %s", s.Op, exp.Why)}
		case exp.Verdict == MustFail && exp.Expired && oe.Kind != "expired":
			return &failure{owners: []int{19}, sig: "commit-below-min-commit-ts-wrong-error", msg: fmt.Sprintf("%s must be refused with CommitTsExpired, got %s", s.Op, respString(obs))}
		case exp.Verdict == MustOK && oe != nil:
			return &failure{owners: []int{19}, sig: "commit-of-held-lock-refused", msg: fmt.Sprintf("commit refused (%s) although every key holds this transaction's lock with min commit ts <= commit version or is already committed", respString(obs))}
		}
	case OpCheck:
		if exp.TTLRule == 1 && obs.Action != ActTTLRollback {
			return &failure{owners: []int{19}, sig: "expired-lock-not-rolled-back", msg: fmt.Sprintf("primary lock expired at the caller's timestamp (cur >= ts+ttl) but CheckTxnStatus answered %s", respString(obs))}
		}
		if exp.Committed != 0 && obs.Err() == nil && (obs.CommitVersion != exp.Committed || obs.Action == ActNoLockRB || obs.Action == ActTTLRollback) {
			return &failure{owners: []int{18}, sig: "status-of-committed-txn-wrong", msg: fmt.Sprintf("the primary's lock is gone and its commit record (commit version %d) exists, but CheckTxnStatus answered %s: the outcome of a transaction is final and must be reported as committed at that version", exp.Committed, respString(obs))}
		}
		if exp.RolledBack && obs.Err() == nil && obs.CommitVersion != 0 {
			return &failure{owners: []int{18}, sig: "status-of-rolled-back-txn-wrong", msg: fmt.Sprintf("the primary carries a rollback record of this transaction, but CheckTxnStatus answered %s", respString(obs))}
		}
		if exp.TTLRule == -1 && obs.Action == ActTTLRollback {
			return &failure{owners: []int{19}, sig: "unexpired-lock-rolled-back", msg: fmt.Sprintf("CheckTxnStatus reported a TTL rollback although the primary lock has not expired (or ttl=0 / no such lock): %s", respString(obs))}
		}
	}
	return nil
}

// compareState compares the DB with the model after a step.
func (x *exec) compareState(i int, s Step) []*failure { return x.compareStateWith(x.m, s) }

func (x *exec) compareStateWith(xm *Model, s Step) []*failure {
	var fs []*failure
	for k := range xm.Keys {
		got, err := x.d.Lock(k)
		if err != nil {
			fs = append(fs, &failure{owners: []int{19}, sig: "getlock-error", msg: fmt.Sprintf("GetLock(key %d): %v", k, err)})
			continue
		}
		want := xm.Keys[k].Lock
		gs, ws := "none", "none"
		if got != nil {
			gs = lockString(k, got)
		}
		if want != nil {
			ws = lockString(k, want)
		}
		if gs != ws {
			f := &failure{owners: []int{19}, msg: fmt.Sprintf("Reader.GetLock(key %d) = %s, model lock = %s", k, gs, ws)}
			switch {
			case got != nil && want == nil && s.IsMaint():
				f.sig = "removed-lock-reappears-after-maintenance"
			case got != nil && want == nil:
				f.sig = "lock-present-but-should-be-gone"
			case got == nil && s.IsMaint():
				f.sig = "lock-lost-after-maintenance"
			case got == nil:
				f.sig = "lock-missing"
			default:
				f.sig = "wrong-lock"
			}
			fs = append(fs, f)
			continue
		}
		if got != nil && got.MinCommit != want.MinCommit {
			fs = append(fs, &failure{owners: []int{19}, sig: "lock-min-commit-ts-mismatch", msg: fmt.Sprintf("lock of key %d has min commit ts %d, model %d", k, got.MinCommit, want.MinCommit)})
		}
	}
	dump, err := x.d.Dump()
	if err != nil {
		return append(fs, &failure{owners: []int{17, 18, 19}, sig: "dump-error", msg: err.Error()})
	}
	ms := xm.Snap()
	if !reflect.DeepEqual(nz(dump.Writes), nz(ms.Writes)) {
		sig := "write-records-differ"
		if s.IsMaint() {
			sig = "write-records-differ-after-maintenance"
		}
		fs = append(fs, &failure{owners: []int{18}, sig: sig, msg: fmt.Sprintf("committed write records in the DB %v, model %v", dump.Writes, ms.Writes)})
	}
	if !reflect.DeepEqual(nz(dump.Locks), nz(ms.Locks)) {
		fs = append(fs, &failure{owners: []int{19}, sig: "lock-cf-differs", msg: fmt.Sprintf("lock CF (iterator view) %v, model %v", dump.Locks, ms.Locks)})
	}
	// two writers of one key with overlapping [start, commit] must not both be committed
	for k, mk := range xm.Keys {
		_ = mk
		type iv struct{ s, c uint64 }
		var ivs []iv
		for _, w := range dump.Writes {
			var kk, kind int
			var st, cm uint64
			if _, err := fmt.Sscanf(w, "k%d kind=%d start=%d commit=%d", &kk, &kind, &st, &cm); err == nil && kk == k && (kind == KPut || kind == KDel) {
				ivs = append(ivs, iv{st, cm})
			}
		}
		for a := 0; a < len(ivs); a++ {
			for b := a + 1; b < len(ivs); b++ {
				if ivs[a].s <= ivs[b].c && ivs[b].s <= ivs[a].c {
					fs = append(fs, &failure{owners: []int{18}, sig: "overlapping-writers-both-committed", msg: fmt.Sprintf("key %d has committed writes [%d,%d] and [%d,%d]", k, ivs[a].s, ivs[a].c, ivs[b].s, ivs[b].c)})
				}
			}
		}
	}
	return fs
}

func nz(s []string) []string {
	if s == nil {
		return []string{}
	}
	return s
}

func diffDump(a, b Dump, withData bool) string {
	var d []string
	cmp := func(name string, x, y []string) {
		if !reflect.DeepEqual(nz(x), nz(y)) {
			d = append(d, fmt.Sprintf("%s before %v after %v", name, x, y))
		}
	}
	cmp("locks", a.Locks, b.Locks)
	cmp("lock min-commit", a.MinC, b.MinC)
	cmp("writes", a.Writes, b.Writes)
	cmp("rollbacks", a.Rolls, b.Rolls)
	if withData {
		cmp("data", a.Data, b.Data)
	}
	return strings.Join(d, "; ")
}

func respString(r Resp) string {
	var b strings.Builder
	for _, e := range r.Errs {
		fmt.Fprintf(&b, "err{%s key=%d", e.Kind, e.Key)
		if e.LockTs != 0 {
			fmt.Fprintf(&b, " ts=%d", e.LockTs)
		}
		if e.MinC != 0 {
			fmt.Fprintf(&b, " minc=%d", e.MinC)
		}
		if e.Msg != "" {
			fmt.Fprintf(&b, " %q", e.Msg)
		}
		b.WriteString("} ")
	}
	if r.NotFound {
		b.WriteString("notfound ")
	}
	if r.Value != "" {
		fmt.Fprintf(&b, "value=%s ", short(r.Value))
	}
	for _, kv := range r.KVs {
		fmt.Fprintf(&b, "k%d=%s ", kv.K, short(kv.V))
	}
	if r.Action != 0 || r.LockTTL != 0 || r.CommitVersion != 0 {
		fmt.Fprintf(&b, "action=%d ttl=%d commit=%d ", r.Action, r.LockTTL, r.CommitVersion)
	}
	if r.Resolved != 0 {
		fmt.Fprintf(&b, "resolved=%d ", r.Resolved)
	}
	if b.Len() == 0 {
		return "ok"
	}
	return strings.TrimSpace(b.String())
}

func short(s string) string {
	if len(s) > 12 {
		return fmt.Sprintf("%q..(%d)", s[:12], len(s))
	}
	return fmt.Sprintf("%q", s)
}
