// Package perco is the shared machinery of the Percolator checks C17, C18, C19:
// a plain-data history format, a reference model written from the property
// texts, a driver that executes a history against a real NoKV DB through
// raftstore/kv.Apply (the raft apply entry point), a model-in-the-loop
// generator and the oracles of the three properties.
package perco

import "fmt"

// Operation names of a Step.
const (
	OpPrewrite = "prewrite"
	OpCommit   = "commit"
	OpRollback = "rollback" // BatchRollback
	OpResolve  = "resolve"  // ResolveLock (Commit==0: rollback)
	OpCheck    = "check"    // CheckTxnStatus
	OpGet      = "get"
	OpScan     = "scan"
	OpFlush    = "flush"   // rotate the memtable and wait for the flush (new L0 table)
	OpRotate   = "rotate"  // rotate only; the flush is awaited by the next maintenance step or at the end
	OpCompact  = "compact" // VerifCompact(Level, Mode)
	OpCompact1 = "compactonce"
	OpL0L0     = "l0tol0"
	// OpHotLimit sets Options.WriteHotKeyLimit (the DB keeps the caller's *Options): the
	// N-th and later writes of one (cf,key) are refused with ErrHotKeyWriteThrottle until the
	// limit is raised again.  It stands for the production throttle window opening and
	// closing and lets a request fail between two of its engine writes.
	OpHotLimit = "hotlimit"
)

// Mutation kinds (same numbering as pb.Mutation_Op).
const (
	KPut  = 0
	KDel  = 1
	KLock = 2
	KRoll = 3
)

// Mut is one mutation of a prewrite.
type Mut struct {
	K  int    `json:"k"`            // key index
	Op int    `json:"op"`           // KPut / KDel / KLock
	V  string `json:"v,omitempty"`  // value tag for puts
	Sz int    `json:"sz,omitempty"` // value is V padded to Sz bytes (0: just V)
}

// Step is one request or maintenance action.  Every field is explicit so a
// case file is self-contained.
type Step struct {
	Op string `json:"op"`
	// transactional requests
	Start     uint64 `json:"start,omitempty"`
	Commit    uint64 `json:"commit,omitempty"` // commit version (commit / resolve; 0 = rollback for resolve)
	Primary   int    `json:"primary,omitempty"`
	Muts      []Mut  `json:"muts,omitempty"`
	Keys      []int  `json:"keys,omitempty"`
	TTL       uint64 `json:"ttl,omitempty"`
	MinCommit uint64 `json:"mincommit,omitempty"`
	// CheckTxnStatus
	Cur    uint64 `json:"cur,omitempty"`
	Caller uint64 `json:"caller,omitempty"`
	RBNE   bool   `json:"rbne,omitempty"`
	// reads
	TS    uint64 `json:"ts,omitempty"`
	K     int    `json:"key,omitempty"`
	From  int    `json:"from,omitempty"` // scan start key index; -1 = empty start key
	Incl  bool   `json:"incl,omitempty"`
	Limit uint32 `json:"limit,omitempty"`
	// maintenance
	Level int `json:"level,omitempty"`
	Mode  int `json:"mode,omitempty"`
	N     int `json:"n,omitempty"` // hotlimit: new WriteHotKeyLimit
	// Dup marks a verbatim re-send of an earlier step (index+1), for labels and the
	// "re-applied request changes nothing" oracle.
	Dup int `json:"dup,omitempty"`
}

// Case is a whole history.
type Case struct {
	Keys  []string `json:"keys"` // user keys, strictly increasing
	Steps []Step   `json:"steps"`
}

// IsWrite reports whether the step is a transactional request that may change state.
func (s Step) IsWrite() bool {
	switch s.Op {
	case OpPrewrite, OpCommit, OpRollback, OpResolve, OpCheck:
		return true
	}
	return false
}

// IsRead reports whether the step is a Get or Scan.
func (s Step) IsRead() bool { return s.Op == OpGet || s.Op == OpScan }

// IsMaint reports whether the step is a maintenance action.
func (s Step) IsMaint() bool { return !s.IsWrite() && !s.IsRead() }

// Value materialises the value of a put mutation.
func (m Mut) Value() []byte {
	b := []byte(m.V)
	for len(b) < m.Sz {
		b = append(b, byte('a'+len(b)%23))
	}
	return b
}

func (s Step) String() string {
	switch s.Op {
	case OpPrewrite:
		return fmt.Sprintf("prewrite start=%d primary=%d muts=%v ttl=%d mincommit=%d", s.Start, s.Primary, s.Muts, s.TTL, s.MinCommit)
	case OpCommit:
		return fmt.Sprintf("commit start=%d commit=%d keys=%v", s.Start, s.Commit, s.Keys)
	case OpRollback:
		return fmt.Sprintf("rollback start=%d keys=%v", s.Start, s.Keys)
	case OpResolve:
		return fmt.Sprintf("resolve start=%d commit=%d keys=%v", s.Start, s.Commit, s.Keys)
	case OpCheck:
		return fmt.Sprintf("check primary=%d lockts=%d cur=%d caller=%d rbne=%v", s.Primary, s.Start, s.Cur, s.Caller, s.RBNE)
	case OpGet:
		return fmt.Sprintf("get key=%d ts=%d", s.K, s.TS)
	case OpScan:
		return fmt.Sprintf("scan from=%d incl=%v limit=%d ts=%d", s.From, s.Incl, s.Limit, s.TS)
	case OpCompact:
		return fmt.Sprintf("compact level=%d mode=%d", s.Level, s.Mode)
	case OpHotLimit:
		return fmt.Sprintf("hotlimit n=%d", s.N)
	}
	return s.Op
}
