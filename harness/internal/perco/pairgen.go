package perco

import "pgregory.net/rapid"

// PCase is a sequential prefix followed by a concurrent pair: request A is started
// while the harness holds the latches of A's keys (a correct A parks before it
// reads anything), request B then runs to completion, the latches are released
// and A finishes.
type PCase struct {
	GCase
	A        Step `json:"a"`
	B        Step `json:"b"`
	HasPair  bool `json:"haspair,omitempty"`
	Disjoint bool `json:"disjoint,omitempty"`
}

// StepKeys lists the keys a transactional request touches.
func StepKeys(s Step) []int {
	var ks []int
	add := func(k int) {
		for _, x := range ks {
			if x == k {
				return
			}
		}
		ks = append(ks, k)
	}
	for _, k := range s.Keys {
		add(k)
	}
	for _, mu := range s.Muts {
		add(mu.K)
	}
	if s.Op == OpCheck {
		add(s.Primary)
	}
	return ks
}

func commonKeys(a, b Step) []int {
	var out []int
	for _, k := range StepKeys(a) {
		for _, j := range StepKeys(b) {
			if k == j {
				out = append(out, k)
			}
		}
	}
	return out
}

// bad evaluates the request-level exclusions of open findings for step s on the
// current generation-time model.
func (g *gen) bad(s Step) bool {
	switch s.Op {
	case OpCommit, OpResolve:
		for _, k := range s.Keys {
			if w := g.m.WriteByStart(k, s.Start); s.Op == OpCommit && g.p.Excl.R5 && w != nil && w.Kind == KRoll {
				return true
			}
			if g.p.Excl.R21 && s.Commit != 0 && g.r21bad(k, s.Start, s.Commit) {
				return true
			}
		}
	case OpRollback:
		for _, k := range s.Keys {
			if l := g.m.Keys[k].Lock; g.p.Excl.R6 && l != nil && l.Ts != s.Start && g.m.WriteByStart(k, s.Start) == nil {
				return true
			}
			if g.p.Excl.R1 && g.r1bad(k, s.Start) {
				return true
			}
		}
	case OpCheck:
		if g.p.Excl.R1 && s.RBNE && g.m.Keys[s.Primary].Lock == nil && g.r1bad(s.Primary, s.Start) {
			return true
		}
	case OpPrewrite:
		if g.p.Excl.R7 {
			for _, mu := range s.Muts {
				if l := g.m.Keys[mu.K].Lock; l != nil && l.Ts == s.Start && l.MinCommit != s.MinCommit {
					return true
				}
			}
		}
	}
	return false
}

// capture runs a step builder against the current state without keeping its effect:
// the built request is returned, model and history are restored.
func (g *gen) capture(f func()) (Step, bool) {
	n := len(g.steps)
	snap := g.m.Clone()
	lw, ww := cloneCount(g.lockW), cloneCount(g.wrW)
	dirty := cloneSet(g.dirty)
	partial, pk := g.partial, g.partialKey
	f()
	out := append([]Step(nil), g.steps[n:]...)
	g.steps = g.steps[:n]
	g.m, g.lockW, g.wrW, g.dirty, g.partial, g.partialKey = snap, lw, ww, dirty, partial, pk
	if len(out) != 1 || !out[0].IsWrite() {
		return Step{}, false
	}
	s := out[0]
	s.Dup = 0
	return s, true
}

func cloneCount(m map[int]int) map[int]int {
	c := make(map[int]int, len(m))
	for k, v := range m {
		c[k] = v
	}
	return c
}

func cloneSet(m map[int]bool) map[int]bool {
	c := make(map[int]bool, len(m))
	for k, v := range m {
		c[k] = v
	}
	return c
}

// pairRequest builds one request of the pair, preferring transaction tx.
func (g *gen) pairRequest(tx *gtxn, label string, runner bool) (Step, bool) {
	t := g.t
	pick := func() *gtxn {
		if tx != nil && rapid.IntRange(0, 9).Draw(t, label+"-same-txn") < 8 {
			return tx
		}
		return g.txns[rapid.IntRange(0, len(g.txns)-1).Draw(t, label+"-txn")]
	}
	// 0 check (push-biased), 1 commit, 2 resolve, 3 rollback, 4 prewrite, 5 check (any)
	w := []int{4, 2, 2, 2, 2, 1}
	if runner {
		w = []int{2, 4, 3, 3, 1, 1}
	}
	switch g.weighted(w, label+"-kind") {
	case 0:
		x := pick()
		return g.capture(func() {
			// not expired at Cur, caller above every timestamp so far: the push applies
			g.emit(Step{Op: OpCheck, Start: x.start, Primary: x.primary, Cur: x.start, Caller: g.next + 1,
				RBNE: rapid.Bool().Draw(t, label+"-rbne")})
		})
	case 1:
		x := pick()
		return g.capture(func() { g.commit(x) })
	case 2:
		x := pick()
		return g.capture(func() { g.resolve(x) })
	case 3:
		x := pick()
		return g.capture(func() { g.rollback(x) })
	case 4:
		x := pick()
		return g.capture(func() { g.prewrite(x, rapid.IntRange(0, 2).Draw(t, label+"-batch")) })
	default:
		x := pick()
		return g.capture(func() { g.check(x) })
	}
}

// GeneratePair draws a sequential prefix and a concurrent pair on a common key
// (a small fraction on disjoint keys, which must commute).
func GeneratePair(t *rapid.T, p Profile) PCase {
	nk := rapid.IntRange(1, 3).Draw(t, "nkeys")
	ks := rapid.SampledFrom(keySets).Draw(t, "keyset")[:nk]
	g := &gen{t: t, p: p, nk: nk, m: NewModel(nk), next: 1, dirty: map[int]bool{}, commitTs: map[uint64]bool{}, lockW: map[int]int{}, wrW: map[int]int{}}
	g.overlapL0 = rapid.Bool().Draw(t, "overlap-l0")
	n := rapid.IntRange(1, p.MaxSteps).Draw(t, "nsteps")
	for i := 0; i < n; i++ {
		g.one()
	}
	if len(g.txns) == 0 {
		g.newTxn()
	}
	out := PCase{}
	wantDisjoint := nk > 1 && rapid.IntRange(0, 9).Draw(t, "disjoint") == 0
	var holder *gtxn
	var holders []*gtxn
	for _, tx := range g.txns {
		if g.holds(tx, false) {
			holders = append(holders, tx)
		}
	}
	if len(holders) > 0 {
		holder = holders[rapid.IntRange(0, len(holders)-1).Draw(t, "holder")]
	}
	for try := 0; try < 4 && !out.HasPair; try++ {
		a, okA := g.pairRequest(holder, "A", false)
		b, okB := g.pairRequest(holder, "B", true)
		if !okA || !okB {
			continue
		}
		common := commonKeys(a, b)
		if (len(common) == 0) != wantDisjoint {
			continue
		}
		// exclusions of open findings must hold in both orders
		bad := g.bad(a) || g.bad(b)
		if !bad {
			snap := g.m.Clone()
			g.m.Apply(a, nil)
			bad = g.bad(b)
			g.m = snap.Clone()
			g.m.Apply(b, nil)
			bad = bad || g.bad(a)
			g.m = snap
		}
		if bad {
			g.excl++
			continue
		}
		out.A, out.B, out.HasPair, out.Disjoint = a, b, true, len(common) == 0
	}
	out.GCase = GCase{Case: Case{Keys: append([]string(nil), ks...), Steps: g.steps}, Excl: g.excl}
	return out
}
