//go:build verif

// C23 — only the current leader serves reads and proposals, and reads are
// linearizable.
//
// Same fixture as C22 (internal/sim.World: three real stores, one or two
// three-voter regions, harness network and virtual clock inside a
// testing/synctest bubble).  Clients write single keys with the two-phase
// protocol through Store.ProposeCommand (prewrite, then commit, retried at other
// stores when rejected or lost) and read them through Store.ReadCommand, at ANY
// store, while the script partitions the leader away, elects and transfers
// leaders, drops/reorders messages and restarts stores.
//
// Oracle:
//
//	(i)  per key, the history of acknowledged writes (interval: first commit
//	     attempt invoked .. first commit acknowledged; never acknowledged but
//	     possibly proposed = open interval) and of answered reads is checked
//	     with porcupine against a register: a read must reflect every write
//	     acknowledged before it was issued;
//	(ii) a call made at a store whose peer is not leader before and after the
//	     call (sampled by the single-threaded driver; nothing else runs in
//	     between) must return at once with a NotLeader region error and must
//	     not reach the applier.
package c23

import (
	"fmt"
	"math"
	"sort"
	"strings"
	"testing"
	"time"

	"github.com/anishathalye/porcupine"
	"nokvverif/internal/pbt"
	"nokvverif/internal/sim"
	"pgregory.net/rapid"
)

func TestMain(m *testing.M) { pbt.RunMain(m) }

var theT *testing.T

// Findings of C22 that would make acknowledgements themselves unreliable.
var r7IDs = []string{"C22-R7-request-id-collision", "C22-R7-request-id-collision-across-regions"}

type Case struct {
	sim.Script
	Excluded int `json:"excluded,omitempty"`
}

// ---------------------------------------------------------------- generator

func st(op string, a ...int) sim.Step {
	s := sim.Step{Op: op}
	if len(a) > 0 {
		s.A = a[0]
	}
	if len(a) > 1 {
		s.B = a[1]
	}
	if len(a) > 2 {
		s.C = a[2]
	}
	return s
}

func genStep(t *rapid.T, persistent bool) sim.Step {
	kinds := []string{
		"pump", "pump", "pump", "pump",
		"deliver", "deliver", "deliver",
		"tick", "tick",
		"drop", "dup", "defer",
		"prewrite", "prewrite", "commit", "commit", "commit",
		"read", "read", "read", "read",
		"isolate", "heal", "campaign", "transfer", "sleep",
		"hold", "holdto", "release",
	}
	if persistent {
		kinds = append(kinds, "restart")
	}
	k := rapid.SampledFrom(kinds).Draw(t, "op")
	tgt := func() int {
		if rapid.IntRange(0, 2).Draw(t, "any") == 0 {
			return rapid.IntRange(0, 6).Draw(t, "tgt")
		}
		return 3
	}
	switch k {
	case "pump":
		return st(k, rapid.IntRange(0, 60).Draw(t, "n"))
	case "deliver", "drop", "dup", "defer", "hold":
		return st(k, rapid.IntRange(0, 11).Draw(t, "k"))
	case "holdto":
		return st(k, rapid.IntRange(0, 6).Draw(t, "s"), rapid.IntRange(0, 1).Draw(t, "r"))
	case "tick":
		return st(k, rapid.IntRange(0, 3).Draw(t, "s"), rapid.IntRange(0, 5).Draw(t, "n"))
	case "prewrite", "read":
		return st(k, tgt(), rapid.IntRange(0, 1).Draw(t, "r"), rapid.IntRange(0, 1).Draw(t, "key"))
	case "commit":
		return st(k, tgt(), rapid.IntRange(0, 3).Draw(t, "k"))
	case "isolate", "campaign", "restart":
		return st(k, rapid.IntRange(0, 6).Draw(t, "s"), rapid.IntRange(0, 1).Draw(t, "r"))
	case "transfer":
		return st(k, rapid.IntRange(0, 1).Draw(t, "r"), rapid.IntRange(0, 6).Draw(t, "s"))
	case "sleep":
		return st(k, rapid.IntRange(0, 4).Draw(t, "sec"))
	}
	return st(k)
}

func write(r, key int) []sim.Step {
	return []sim.Step{st("prewrite", 3, r, key), st("pump", 60), st("commit", 3, 0), st("pump", 60)}
}

// noise draws a few network faults to sprinkle into a fragment.
func noise(t *rapid.T) []sim.Step {
	var out []sim.Step
	for i := rapid.IntRange(0, 3).Draw(t, "noise"); i > 0; i-- {
		k := rapid.SampledFrom([]string{"deliver", "deliver", "drop", "dup", "defer", "defer", "tick", "hold"}).Draw(t, "nop")
		out = append(out, st(k, rapid.IntRange(0, 7).Draw(t, "nk"), rapid.IntRange(0, 3).Draw(t, "nb")))
	}
	return out
}

func fragment(t *rapid.T, regions int) []sim.Step {
	r := rapid.IntRange(0, regions-1).Draw(t, "fr")
	key := rapid.IntRange(0, 1).Draw(t, "fkey")
	switch rapid.IntRange(0, 7).Draw(t, "frag") {
	case 6, 7:
		// overlapping reads at a leader whose heartbeat acknowledgements are slow: read R1 is
		// issued, its heartbeats reach the followers but the acknowledgements are held back;
		// the leader is partitioned away, a new leader acknowledges a write; R2 is issued at the
		// old leader while R1 is still waiting; then the old acknowledgements arrive.
		out := write(r, key)
		out = append(out, st("read", 3, r, key))
		if rapid.IntRange(0, 3).Draw(t, "early") == 0 {
			out = append(out, st("read", 3, r, key)) // a second reader right away
		}
		out = append(out, st("pump", rapid.IntRange(1, 3).Draw(t, "hb")), st("holdto", 3, r))
		out = append(out, st("isolate", 3, r), st("campaign", 5+rapid.IntRange(0, 1).Draw(t, "who"), r), st("pump", 80))
		out = append(out, write(r, key)...)
		out = append(out, st("read", 4, r, key))
		out = append(out, noise(t)...)
		if rapid.IntRange(0, 1).Draw(t, "healfirst") == 0 {
			out = append(out, st("heal"))
		}
		out = append(out, st("release"), st("pump", rapid.IntRange(1, 6).Draw(t, "acks")), st("heal"), st("read", 3, r, key), st("pump", 80))
		return out
	case 0, 1: // the leader is partitioned away, a new leader acknowledges a write, the old one is asked to read
		out := write(r, key)
		out = append(out, st("isolate", 3, r), st("campaign", 5+rapid.IntRange(0, 1).Draw(t, "who"), r), st("pump", 80))
		out = append(out, st("prewrite", 3, r, key))
		out = append(out, noise(t)...)
		out = append(out, st("pump", 60), st("commit", 3, 0))
		out = append(out, noise(t)...)
		out = append(out, st("pump", 60), st("read", 4, r, key), st("read", 3, r, key))
		out = append(out, noise(t)...)
		out = append(out, st("pump", 40))
		if rapid.IntRange(0, 1).Draw(t, "prop") == 0 {
			out = append(out, st("prewrite", 4, r, key))
		}
		out = append(out, st("sleep", 3), st("heal"), st("tick", 3, 3), st("pump", 80), st("read", 3, r, key), st("pump", 40))
		return out
	case 2: // leader transfer between a write and reads at the old and the new leader
		out := write(r, key)
		who := 5 + rapid.IntRange(0, 1).Draw(t, "who")
		out = append(out, st("transfer", r, who), st("read", 3, r, key))
		out = append(out, st("pump", rapid.IntRange(0, 60).Draw(t, "p")), st("read", 3, r, key), st("read", who, r, key), st("pump", 60))
		return out
	case 3: // calls at followers
		return []sim.Step{st("read", 5, r, key), st("prewrite", 6, r, key), st("commit", 5, 0), st("read", 6, r, key)}
	case 4: // read racing with a write
		out := []sim.Step{st("prewrite", 3, r, key), st("pump", 60), st("commit", 3, 0), st("read", 3, r, key)}
		out = append(out, noise(t)...)
		return append(out, st("pump", rapid.IntRange(0, 8).Draw(t, "p")), st("read", 3, r, key), st("pump", 60))
	default:
		return append(write(r, key), st("read", 3, r, key), st("pump", 40))
	}
}

func gen(t *rapid.T) Case {
	var c Case
	c.Regions = rapid.SampledFrom([]int{1, 1, 2}).Draw(t, "regions")
	switch rapid.IntRange(0, 9).Draw(t, "storage") {
	case 0, 1, 2, 3:
		c.Storage, c.Applier = sim.StorageMemory, "model"
	case 4, 5:
		c.Storage, c.Applier = sim.StorageWAL, "model"
	default:
		c.Storage, c.Applier = sim.StorageDB, "kv"
	}
	persistent := c.Storage != sim.StorageMemory
	for r := 0; r < c.Regions; r++ {
		c.Leaders = append(c.Leaders, rapid.IntRange(0, 2).Draw(t, "leader"))
	}
	for _, id := range r7IDs {
		if pbt.Open(id) {
			// acknowledgements can belong to another command while that is listed
			// (C22): the client supplies unique request ids itself.
			c.UniqueIDs = true
		}
	}
	if c.UniqueIDs {
		c.Excluded++
	}
	n := rapid.IntRange(2, 24).Draw(t, "blocks")
	for i := 0; i < n; i++ {
		if rapid.IntRange(0, 1).Draw(t, "kind") != 0 {
			c.Steps = append(c.Steps, fragment(t, c.Regions)...)
		} else {
			k := rapid.IntRange(1, 12).Draw(t, "run")
			for j := 0; j < k; j++ {
				c.Steps = append(c.Steps, genStep(t, persistent))
			}
		}
	}
	return c
}

// ---------------------------------------------------------------- oracle

type regIn struct {
	write bool
	value string
}

var registerModel = porcupine.Model{
	Init: func() interface{} { return "" },
	Step: func(state, input, output interface{}) (bool, interface{}) {
		in := input.(regIn)
		if in.write {
			return true, in.value
		}
		return output.(string) == state.(string), state
	},
	DescribeOperation: func(input, output interface{}) string {
		in := input.(regIn)
		if in.write {
			return "write " + in.value
		}
		return fmt.Sprintf("read -> %q", output)
	},
}

const inf = math.MaxInt64 / 4

type histOp struct {
	call, ret int64
	desc      string
	op        porcupine.Operation
}

// histories builds the per-key register histories of a trace.
func histories(tr *sim.Trace, r *pbt.Rec) map[string][]histOp {
	out := map[string][]histOp{}
	for _, tx := range tr.Txns {
		if !tx.Prewrite.OK() || tx.Prewrite.KeyErr() != nil || len(tx.Commits) == 0 {
			continue // never committed by the client: the value cannot become visible
		}
		call := int64(tx.Commits[0].Invoke)
		ret := int64(-1)
		maybe := false
		for _, c := range tx.Commits {
			switch {
			case c.OK() && c.KeyErr() == nil:
				if ret < 0 || int64(c.Return) < ret {
					ret = int64(c.Return)
				}
			case c.Rejected():
				// refused before being proposed: no effect
			case c.OK():
				r.Label("commit-answered-with-key-error")
			default:
				maybe = true // Go error, timeout: the commit may still be applied at any later time
			}
		}
		if ret < 0 {
			if !maybe {
				continue
			}
			ret = inf
			r.Label("history:write-outcome-unknown")
		} else {
			r.Label("history:write-acknowledged")
		}
		k := fmt.Sprintf("%d/%s", tx.Region, tx.Key)
		out[k] = append(out[k], histOp{call, ret, fmt.Sprintf("txn %d write %s=%s start=%d commit=%d", tx.ID, tx.Key, tx.Value, tx.StartTs, tx.CommitTs),
			porcupine.Operation{ClientId: tx.ID, Input: regIn{true, tx.Value}, Call: call, Output: "", Return: ret}})
	}
	for _, o := range tr.Ops {
		if o.Kind != "read" {
			continue
		}
		switch {
		case !o.Done() || o.Err != nil || o.Panic != "":
			r.Label("read:no-result")
			continue
		case o.Rejected():
			r.Label("read:region-error")
			continue
		case o.KeyErr() != nil:
			r.Label("read:locked")
			continue
		}
		g := o.Resp.GetResponses()[0].GetGet()
		val := string(g.GetValue())
		if g.GetNotFound() {
			val = ""
		}
		r.Label("history:read-answered")
		k := fmt.Sprintf("%d/%s", o.Region, o.Key)
		out[k] = append(out[k], histOp{int64(o.Invoke), int64(o.Return),
			fmt.Sprintf("op#%d read %s@%d at store %d (leader-before=%v isolated=%v deposed=%v) -> %q", o.ID, o.Key, o.Ts, o.Store, o.LeaderBefore, o.Isolated, o.Deposed, val),
			porcupine.Operation{ClientId: 1000 + o.ID, Input: regIn{false, ""}, Call: int64(o.Invoke), Output: val, Return: int64(o.Return)}})
	}
	return out
}

func checkLinearizable(tr *sim.Trace, r *pbt.Rec) error {
	hs := histories(tr, r)
	keys := make([]string, 0, len(hs))
	for k := range hs {
		keys = append(keys, k)
	}
	sort.Strings(keys)
	for _, k := range keys {
		h := hs[k]
		ops := make([]porcupine.Operation, len(h))
		for i := range h {
			ops[i] = h[i].op
		}
		switch porcupine.CheckOperationsTimeout(registerModel, ops, 20*time.Second) {
		case porcupine.Ok:
		case porcupine.Unknown:
			r.Label("porcupine:gave-up")
		default:
			sort.Slice(h, func(i, j int) bool { return h[i].call < h[j].call })
			var b strings.Builder
			for _, x := range h {
				ret := fmt.Sprint(x.ret)
				if x.ret == inf {
					ret = "never"
				}
				fmt.Fprintf(&b, "  [%d, %s] %s\n", x.call, ret, x.desc)
			}
			return pbt.Failf("not-linearizable", "history of key %s is not linearizable as a register (times: 2*step at invoke, 2*step+1 at return):\n%s", k, b.String())
		}
	}
	return nil
}

func checkRejection(tr *sim.Trace, r *pbt.Rec) error {
	for _, o := range tr.Ops {
		if !o.HadPeer || o.LeaderBefore || o.LeaderAfter {
			continue
		}
		what := fmt.Sprintf("%s op#%d (key %s) at store %d, whose region-%d peer was not leader before and after the call", o.Kind, o.ID, o.Key, o.Store, o.Region)
		r.Label("call-at-stable-non-leader")
		if o.Panic != "" {
			continue // reported by the caller
		}
		if !o.Done() || o.Return != o.Invoke+1 {
			return pbt.Failf("non-leader-did-not-reject", "%s did not return at once (invoke %d return %d)", what, o.Invoke, o.Return)
		}
		if o.AppliesAfter != o.AppliesBefore {
			return pbt.Failf("non-leader-served", "%s invoked the applier (%d invocations during the call); answer: %v err=%v", what, o.AppliesAfter-o.AppliesBefore, o.Resp, o.Err)
		}
		if o.Err != nil || o.Resp.GetRegionError().GetNotLeader() == nil {
			return pbt.Failf("non-leader-wrong-answer", "%s was answered %v err=%v instead of a NotLeader region error", what, o.Resp, o.Err)
		}
		if len(o.Resp.GetResponses()) != 0 {
			return pbt.Failf("non-leader-served", "%s carries command responses next to the region error: %v", what, o.Resp)
		}
	}
	return nil
}

func run(c Case, r *pbt.Rec) error {
	if c.Applier == "kv" && c.Storage != sim.StorageDB {
		r.Label("skip:invalid-case")
		return nil
	}
	r.Excluded(c.Excluded)
	tr, err := sim.RunWorld(theT, c.Script, pbt.TempDir)
	for k, v := range tr.Labels {
		r.LabelN(k, v)
	}
	r.Label(fmt.Sprintf("cluster:%dregions/%s/%s", c.Regions, c.Storage, c.Applier))
	if err != nil {
		return pbt.Failf("panic", "%v", err)
	}
	for _, o := range tr.Ops {
		switch {
		case o.Rejected() && o.Resp.GetRegionError().GetNotLeader() != nil:
			r.Label(o.Kind + ":not-leader")
		case o.Rejected():
			r.Label(o.Kind + ":other-region-error")
		case o.OK():
			r.Label(o.Kind + ":answered")
		default:
			r.Label(o.Kind + ":error-or-timeout")
		}
		if o.Kind == "read" && o.Deposed && o.Isolated && o.OK() {
			r.Label("deposed-leader-answered-a-read")
		}
	}
	if tr.DeposedReads > 0 {
		r.NT()
	}
	if err := checkRejection(tr, r); err != nil {
		return err
	}
	return checkLinearizable(tr, r)
}

func TestCheck(t *testing.T) {
	theT = t
	s := &pbt.Suite{ID: "C23", Level: "exploration",
		Rule: "history containing a read issued to a store that still claims leadership while it is partitioned away and another store leads the region with a higher term",
		Assumptions: []string{
			"3 stores x 1-2 three-voter regions in one process (internal/sim.World), harness transport and virtual clock (testing/synctest); no membership change, split or merge",
			"writes are single-key two-phase transactions with timestamps from a harness counter drawn at invoke; a write counts as acknowledged when a commit attempt is answered without error; reads use a fresh timestamp, so snapshot reads coincide with register reads",
			"a commit attempt that ended with a Go error or timeout may take effect at any later time (open interval); attempts answered with a region error never do",
			"'not the current leader' is judged only for stores whose peer is a non-leader before and after the call; for a deposed leader that still believes it leads, the outcome is judged by linearizability",
			"ReadCommand's 3 s context runs on the virtual clock; a read without result is no observation",
		}}
	pbt.Add(s, &pbt.Spec[Case]{Name: "script", Gen: gen, Run: run, Quick: 1500, Thorough: 30000, Shards: 8})
	s.Main(t)
}
