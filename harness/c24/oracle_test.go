//go:build verif

package c24

import (
	"fmt"
	"reflect"
	"sort"
	"strings"

	"github.com/feichai0017/NoKV/manifest"
	"nokvverif/internal/pbt"
)

// iv is a half-open key interval; hiInf means unbounded above.  lo=="" is the
// smallest key, so an unbounded start needs no flag.
type iv struct {
	lo, hi string
	hiInf  bool
}

func (a iv) empty() bool { return !a.hiInf && a.hi <= a.lo }

func (a iv) String() string {
	if a.hiInf {
		return fmt.Sprintf("[%q,+inf)", a.lo)
	}
	return fmt.Sprintf("[%q,%q)", a.lo, a.hi)
}

func rangeOf(g region) iv { return iv{lo: g.Start, hi: g.End, hiInf: g.End == ""} }

// checkPartition reports the first pair of overlapping live ranges.
func checkPartition(rs []region) error {
	var ne []region
	for _, g := range rs {
		if !rangeOf(g).empty() {
			ne = append(ne, g)
		}
	}
	sortRegions(ne)
	for i := 0; i+1 < len(ne); i++ {
		a, b := rangeOf(ne[i]), rangeOf(ne[i+1])
		if a.hiInf || a.hi > b.lo {
			return fmt.Errorf("%v overlaps %v", ne[i], ne[i+1])
		}
	}
	return nil
}

// cover returns the union of the ranges as a minimal sorted list of disjoint,
// non-adjacent intervals.
func cover(rs []region) []iv {
	var in []iv
	for _, g := range rs {
		if a := rangeOf(g); !a.empty() {
			in = append(in, a)
		}
	}
	sort.Slice(in, func(i, j int) bool { return in[i].lo < in[j].lo })
	var out []iv
	for _, a := range in {
		if len(out) == 0 {
			out = append(out, a)
			continue
		}
		last := &out[len(out)-1]
		if last.hiInf {
			continue
		}
		if a.lo <= last.hi { // overlapping or adjacent
			if a.hiInf {
				last.hiInf, last.hi = true, ""
			} else if a.hi > last.hi {
				last.hi = a.hi
			}
			continue
		}
		out = append(out, a)
	}
	return out
}

func coverString(c []iv) string {
	var s []string
	for _, a := range c {
		s = append(s, a.String())
	}
	if len(s) == 0 {
		return "(nothing)"
	}
	return strings.Join(s, " ∪ ")
}

func strictlyLarger(a, b region) bool { // b's epoch strictly larger than a's
	return b.Ver >= a.Ver && b.Conf >= a.Conf && (b.Ver > a.Ver || b.Conf > a.Conf)
}

func list(rs []region) string {
	var s []string
	for _, g := range rs {
		s = append(s, g.String())
	}
	return "{" + strings.Join(s, ", ") + "}"
}

// observeStates folds the region-hook events and the current catalog into the
// per-region state history and reports a backward move.
func (f *fixture) observeStates(now []region) error {
	see := func(id uint64, st manifest.RegionState, src string) error {
		if f.removed[id] {
			return pbt.Failf("state-backward", "region %d was removed from the catalog and re-appears in state %d (%s)", id, st, src)
		}
		if last, ok := f.hist[id]; ok && st < last {
			return pbt.Failf("state-backward", "region %d moved backward from state %d to %d (%s)", id, last, st, src)
		}
		f.hist[id] = st
		return nil
	}
	for _, ev := range f.n.TakeEvents() {
		if ev.Removed {
			f.removed[ev.ID] = true
			continue
		}
		if err := see(ev.ID, ev.Meta.State, "region hook"); err != nil {
			return err
		}
	}
	for _, g := range now {
		if err := see(g.ID, g.State, "catalog"); err != nil {
			return err
		}
	}
	return nil
}

func (f *fixture) oracle(i int, s Step, info stepInfo, before, after []region) error {
	ctx := func() string {
		return fmt.Sprintf("step %d (%s)\n  before: %s\n  after:  %s", i, info.desc, list(before), list(after))
	}
	if err := checkPartition(after); err != nil {
		return pbt.Failf("overlap", "live regions are not pairwise disjoint: %v\n%s", err, ctx())
	}
	want := cover(before)
	if info.removed != nil {
		var rest []region
		for _, g := range before {
			if g.ID != info.removed.ID {
				rest = append(rest, g)
			}
		}
		want = cover(rest)
	}
	if got := cover(after); !reflect.DeepEqual(got, want) {
		sig := "coverage"
		return pbt.Failf(sig, "key space covered by the live regions changed: covered %s, expected %s\n%s", coverString(got), coverString(want), ctx())
	}
	prev := map[uint64]region{}
	for _, g := range before {
		prev[g.ID] = g
	}
	for _, g := range after {
		p, ok := prev[g.ID]
		if !ok {
			continue
		}
		changed := p.Start != g.Start || p.End != g.End || p.Ver != g.Ver || p.Conf != g.Conf || !reflect.DeepEqual(p.Peers, g.Peers)
		if changed && !strictlyLarger(p, g) {
			return pbt.Failf("epoch", "region %d changed from %v to %v without a strictly larger epoch\n%s", g.ID, p, g, ctx())
		}
		if g.State < p.State {
			return pbt.Failf("state-backward", "region %d moved backward from state %d to %d\n%s", g.ID, p.State, g.State, ctx())
		}
	}
	if err := f.observeStates(after); err != nil {
		if fl, ok := err.(*pbt.Fail); ok {
			fl.Msg += "\n" + ctx()
		}
		return err
	}
	return nil
}

// diffCatalog compares two catalogs field by field ("" = equal).
func diffCatalog(a, b []manifest.RegionMeta) string {
	norm := func(ms []manifest.RegionMeta) []region {
		var out []region
		for _, m := range ms {
			out = append(out, fromMeta(m))
		}
		sort.Slice(out, func(i, j int) bool { return out[i].ID < out[j].ID })
		return out
	}
	x, y := norm(a), norm(b)
	if len(x) == 0 && len(y) == 0 {
		return ""
	}
	if len(x) == len(y) {
		same := true
		for i := range x {
			if x[i].ID != y[i].ID || x[i].Start != y[i].Start || x[i].End != y[i].End || x[i].Ver != y[i].Ver ||
				x[i].Conf != y[i].Conf || x[i].State != y[i].State || !peersEqual(x[i].Peers, y[i].Peers) {
				same = false
			}
		}
		if same {
			return ""
		}
	}
	return fmt.Sprintf("before %s, after %s", list(x), list(y))
}

func peersEqual(a, b []manifest.PeerMeta) bool {
	if len(a) != len(b) {
		return false
	}
	for i := range a {
		if a[i] != b[i] {
			return false
		}
	}
	return true
}
