//go:build verif

// C24 — splits and merges keep regions a partition with increasing epochs.
//
// A case is a starting partition of (part of) the key space into 1–5 regions on
// one real store.Store (manifest-backed catalog, real peers on a harness
// transport) plus a sequence of splits, merges, peer stops, removals and store
// restarts.  Steps name regions by their position in the *current* catalog, so a
// case stays meaningful whatever the store did before.  After every step the
// catalog is compared with the catalog before the step (see oracle.go).
package c24

import (
	"fmt"
	"os"
	"sort"
	"testing"

	"github.com/feichai0017/NoKV/manifest"
	"github.com/feichai0017/NoKV/pb"
	"nokvverif/internal/pbt"
	"nokvverif/internal/sim"
	"pgregory.net/rapid"
)

func TestMain(m *testing.M) { pbt.RunMain(m) }

// Case is the replayable input.
type Case struct {
	// Bounds are the region boundaries in increasing order; region i is
	// [Bounds[i], Bounds[i+1]).  Bounds[0]=="" means the first region has an
	// unbounded start, a final "" means the last region has an unbounded end.
	Bounds []string
	// Mode: "direct" applies admin commands with (*Store).VerifApplyAdmin (the
	// apply handler of a committed entry); "raft" goes through
	// ProposeSplit/ProposeMerge on the single-voter raft group of the region.
	Mode string
	// Storage of the raft logs: "mem", "wal" or "db" (see sim.Storage).
	Storage string
	Steps   []Step
	// Excluded counts generator draws steered away from open known findings.
	Excluded int `json:",omitempty"`
}

// Step is one operation.  R selects the region (position in the catalog sorted
// by start key, modulo its size).
type Step struct {
	Op string // split | merge | stop | remove | restart
	R  int
	// split: where the split key lies relative to the region: in | start | end | below | above | empty
	Key  string `json:",omitempty"`
	Salt int    `json:",omitempty"`
	// split: "key" passes the key in child.StartKey and SplitKey, "splitkey" only in SplitKey
	Child string `json:",omitempty"`
	// merge: which region is merged INTO region R:
	// right | left (adjacent neighbours), far (a non-neighbour chosen by Far), self, missing (unknown source id),
	// notarget (unknown target id)
	Rel string `json:",omitempty"`
	Far int    `json:",omitempty"`
}

const storeID = 1

type region struct {
	ID         uint64
	Start, End string // End=="" unbounded; Start=="" unbounded
	Ver, Conf  uint64
	State      manifest.RegionState
	Peers      []manifest.PeerMeta
}

func (g region) String() string {
	return fmt.Sprintf("r%d[%q,%q)v%d.%d/%d", g.ID, g.Start, g.End, g.Ver, g.Conf, g.State)
}

// catalog reads the store's live regions sorted by (start, id).
func catalog(n *sim.Node) []region {
	var out []region
	for _, m := range n.Catalog() {
		out = append(out, fromMeta(m))
	}
	sortRegions(out)
	return out
}

func fromMeta(m manifest.RegionMeta) region {
	return region{ID: m.ID, Start: string(m.StartKey), End: string(m.EndKey), Ver: m.Epoch.Version,
		Conf: m.Epoch.ConfVersion, State: m.State, Peers: append([]manifest.PeerMeta(nil), m.Peers...)}
}

func sortRegions(rs []region) {
	sort.Slice(rs, func(i, j int) bool {
		if rs[i].Start != rs[j].Start {
			return rs[i].Start < rs[j].Start
		}
		return rs[i].ID < rs[j].ID
	})
}

// fixture is the running store of one case.
type fixture struct {
	c       Case
	cl      *sim.Cluster
	n       *sim.Node
	nextID  uint64
	hist    map[uint64]manifest.RegionState // last state seen per region id (hooks + catalog)
	removed map[uint64]bool
	// wedged: regions whose peer returned an error from the apply of a proposed admin
	// command.  peer.processReady then leaves the RawNode with an accepted but
	// un-Advanced Ready and the next call into that peer panics ("two accepted Ready
	// structs without call to Advance").  That is a robustness defect outside C24
	// (see FINDINGS.md); the driver keeps away from such peers until the next restart
	// and applies later commands for the region directly.
	wedged map[uint64]bool
}

// viaRaft reports whether an admin command for region id goes through the raft log.
func (f *fixture) viaRaft(id uint64, r *pbt.Rec) bool {
	if f.c.Mode != "raft" {
		return false
	}
	if f.wedged[id] && os.Getenv("C24_NO_WEDGE_GUARD") == "" {
		r.Label("raft:wedged-peer-bypassed")
		return false
	}
	return true
}

// proposed records the outcome of a raft-mode proposal on region id.
func (f *fixture) proposed(id uint64, ready bool, err error, r *pbt.Rec) {
	if err != nil && ready {
		f.wedged[id] = true
		r.Label("raft:apply-error-wedges-peer")
	}
}

func (f *fixture) freshID() uint64 { f.nextID++; return f.nextID }

func sortedIDs(m map[uint64]bool) []uint64 {
	var out []uint64
	for id := range m {
		out = append(out, id)
	}
	sort.Slice(out, func(i, j int) bool { return out[i] < out[j] })
	return out
}

func toPB(m manifest.RegionMeta) *pb.RegionMeta {
	out := &pb.RegionMeta{Id: m.ID, StartKey: m.StartKey, EndKey: m.EndKey,
		EpochVersion: m.Epoch.Version, EpochConfVersion: m.Epoch.ConfVersion}
	for _, p := range m.Peers {
		out.Peers = append(out.Peers, &pb.RegionPeer{StoreId: p.StoreID, PeerId: p.PeerID})
	}
	return out
}

// between returns a key strictly inside (s,e) (e=="" unbounded), or false.
func between(s, e string, salt int) (string, bool) {
	var cands []string
	for _, k := range grid {
		if k > s && (e == "" || k < e) {
			cands = append(cands, k)
		}
	}
	if len(cands) > 0 {
		return cands[((salt%len(cands))+len(cands))%len(cands)], true
	}
	for _, k := range []string{s + "5", s + "0", s + "\x01", s + "\x00"} {
		if k > s && (e == "" || k < e) {
			return k, true
		}
	}
	return "", false
}

// below returns a non-empty key < s, above a key > e.
func below(s string, salt int) (string, bool) {
	if s == "" {
		return "", false
	}
	var cands []string
	for _, k := range grid {
		if k < s {
			cands = append(cands, k)
		}
	}
	if len(cands) > 0 {
		return cands[((salt%len(cands))+len(cands))%len(cands)], true
	}
	if len(s) > 1 {
		return s[:len(s)-1], true
	}
	if s[0] > 1 {
		return string([]byte{s[0] - 1}), true
	}
	return "", false
}

func above(e string, salt int) (string, bool) {
	if e == "" {
		return "", false
	}
	var cands []string
	for _, k := range grid {
		if k > e {
			cands = append(cands, k)
		}
	}
	if len(cands) > 0 {
		return cands[((salt%len(cands))+len(cands))%len(cands)], true
	}
	return e + "z", true
}

// grid is the key alphabet of boundaries and split keys (ASCII so that a case
// survives JSON unchanged).
var grid = func() []string {
	var g []string
	for c := 'b'; c <= 'y'; c++ {
		g = append(g, string(c))
		if (c-'b')%4 == 0 {
			g = append(g, string(c)+"m", string(c)+"\x01")
		}
	}
	sort.Strings(g)
	return g
}()

func validBounds(b []string) bool {
	if len(b) < 2 || len(b) > 6 {
		return false
	}
	for i := 0; i+1 < len(b); i++ {
		last := i+1 == len(b)-1
		if last && b[i+1] == "" {
			continue
		}
		if b[i+1] == "" || b[i] >= b[i+1] {
			return false
		}
	}
	return true
}

func run(c Case, r *pbt.Rec) (err error) {
	if !validBounds(c.Bounds) {
		r.Label("skip:invalid-bounds")
		return nil
	}
	r.Excluded(c.Excluded)
	dir, cleanup := pbt.TempDir("c24")
	defer cleanup()
	st := sim.StorageMemory
	switch c.Storage {
	case "wal":
		st = sim.StorageWAL
	case "db": // manifest and WAL of a full NoKV DB, exactly the wiring of raftstore/server.New
		st = sim.StorageDB
	}
	f := &fixture{c: c, cl: sim.NewCluster(), hist: map[uint64]manifest.RegionState{}, removed: map[uint64]bool{}, wedged: map[uint64]bool{}}
	defer f.cl.Close()
	n, e := f.cl.AddNode(sim.NodeConfig{StoreID: storeID, Dir: dir, Storage: st})
	if e != nil {
		return pbt.Failf("harness", "open node: %v", e)
	}
	f.n = n
	for i := 0; i+1 < len(c.Bounds); i++ {
		id := f.freshID()
		meta := sim.SingleVoter(id, []byte(c.Bounds[i]), []byte(c.Bounds[i+1]),
			manifest.RegionEpoch{Version: uint64(1 + i), ConfVersion: 1}, storeID, 100+id)
		if _, e := n.StartRegion(meta); e != nil {
			return pbt.Failf("harness", "start region %d: %v", id, e)
		}
		if e := n.Campaign(id); e != nil {
			return pbt.Failf("harness", "campaign region %d: %v", id, e)
		}
	}
	r.Label(fmt.Sprintf("regions:%d", len(c.Bounds)-1))
	r.Label("mode:" + c.Mode + "/" + string(st))
	if c.Bounds[0] == "" {
		r.Label("start-unbounded")
	}
	if c.Bounds[len(c.Bounds)-1] == "" {
		r.Label("end-unbounded")
	}
	before := catalog(n)
	if e := checkPartition(before); e != nil {
		return pbt.Failf("harness", "initial catalog is not a partition: %v", e)
	}
	if e := f.observeStates(before); e != nil {
		return e
	}
	var st8 stats
	for i, s := range c.Steps {
		info, e := f.apply(s, before, r, &st8)
		if e != nil {
			return e
		}
		after := catalog(f.n)
		if e := f.oracle(i, s, info, before, after); e != nil {
			return e
		}
		before = after
	}
	if st8.splitUnbounded > 0 && st8.merges > 0 {
		r.NT()
	}
	return nil
}

type stats struct{ splitUnbounded, merges int }

// stepInfo is what the oracle needs to know about the step beyond the two catalogs.
type stepInfo struct {
	desc    string
	removed *region // region a removal step took out of the catalog (allowed shrink)
	skipped bool
}

func (f *fixture) apply(s Step, live []region, r *pbt.Rec, st *stats) (stepInfo, error) {
	info := stepInfo{desc: s.Op}
	skip := func(why string) (stepInfo, error) {
		r.Label("skip:" + s.Op + ":" + why)
		info.skipped = true
		return info, nil
	}
	if s.Op == "restart" {
		return f.restart(r)
	}
	if len(live) == 0 {
		return skip("empty-catalog")
	}
	t := live[((s.R%len(live))+len(live))%len(live)]
	switch s.Op {
	case "split":
		var key string
		ok := true
		switch s.Key {
		case "in":
			key, ok = between(t.Start, t.End, s.Salt)
		case "start":
			key = t.Start
		case "end":
			key, ok = t.End, t.End != ""
		case "below":
			key, ok = below(t.Start, s.Salt)
		case "above":
			key, ok = above(t.End, s.Salt)
		case "empty":
			key = ""
		default:
			return skip("unknown-key-kind")
		}
		if !ok {
			return skip("no-such-key")
		}
		valid := key != "" && key > t.Start && (t.End == "" || key < t.End)
		cid := f.freshID()
		child := sim.SingleVoter(cid, []byte(key), []byte(t.End), manifest.RegionEpoch{Version: 1, ConfVersion: 1}, storeID, 100+cid)
		switch s.Child {
		case "splitkey":
			child.StartKey = nil
		case "nostore":
			// the child's peer list does not name this store: its peer cannot be started here
			child.Peers[0].StoreID = storeID + 7
		case "peerdup":
			// the child's peer id is the parent's: the router already hosts that peer, so the child
			// cannot start.  Only while the parent's peer is really hosted - two regions sharing a
			// peer id is not something the id allocator ever produces.
			if f.n.RegionPeer(t.ID) != nil {
				child.Peers[0].PeerID = 100 + t.ID
			} else {
				child.Peers[0].StoreID = storeID + 7
			}
		}
		if s.Child == "nostore" || s.Child == "peerdup" {
			r.Label("split:child-cannot-start(" + s.Child + ")")
		}
		info.desc = fmt.Sprintf("split %v at %q (child r%d, %s, valid=%v)", t, key, cid, s.Child, valid)
		var e error
		if f.viaRaft(t.ID, r) {
			ready := f.n.IsLeader(t.ID)
			e = f.n.Store.ProposeSplit(t.ID, child, []byte(key))
			f.proposed(t.ID, ready, e, r)
			r.Label("raft:propose-split")
		} else {
			e = f.n.Store.VerifApplyAdmin(&pb.AdminCommand{Type: pb.AdminCommand_SPLIT,
				Split: &pb.SplitCommand{ParentRegionId: t.ID, SplitKey: []byte(key), Child: toPB(child)}})
		}
		cls := "invalid"
		if valid {
			cls = "valid"
		}
		if e == nil {
			r.Label("split:" + cls + ":accepted")
			if valid {
				if t.End == "" || t.Start == "" {
					r.Label("split:unbounded-region")
					st.splitUnbounded++
				}
				// the child needs a leader for later raft-mode steps
				if ce := f.n.Campaign(cid); ce != nil {
					r.Label("split:child-campaign-error")
					f.wedged[cid] = true
				}
			}
		} else {
			r.Label("split:" + cls + ":rejected")
		}
		info.desc += fmt.Sprintf(" -> err=%v", e)
	case "merge":
		var src *region
		targetID := t.ID
		switch s.Rel {
		case "right", "left":
			// first region at or after position R (cyclically) that has such a neighbour
			for k := 0; k < len(live) && src == nil; k++ {
				cand := live[(((s.R+k)%len(live))+len(live))%len(live)]
				for i := range live {
					if live[i].ID == cand.ID {
						continue
					}
					if (s.Rel == "right" && cand.End != "" && live[i].Start == cand.End) ||
						(s.Rel == "left" && cand.Start != "" && live[i].End == cand.Start) {
						t, targetID, src = cand, cand.ID, &live[i]
					}
				}
			}
		case "far":
			if len(live) > 1 {
				cand := live[(((s.R+1+s.Far)%len(live))+len(live))%len(live)]
				adjacent := (t.End != "" && cand.Start == t.End) || (t.Start != "" && cand.End == t.Start)
				if cand.ID != t.ID && !adjacent {
					src = &cand
				}
			}
		case "self":
			src = &t
		case "missing":
			src = &region{ID: 1 << 40}
		case "notarget":
			src = &t
			targetID = 1 << 40
		default:
			return skip("unknown-rel")
		}
		if src == nil {
			return skip("no-" + s.Rel)
		}
		info.desc = fmt.Sprintf("merge %s: source %v into target %v (id %d)", s.Rel, *src, t, targetID)
		var e error
		if f.viaRaft(targetID, r) {
			ready := f.n.IsLeader(targetID)
			e = f.n.Store.ProposeMerge(targetID, src.ID)
			f.proposed(targetID, ready, e, r)
			r.Label("raft:propose-merge")
		} else {
			e = f.n.Store.VerifApplyAdmin(&pb.AdminCommand{Type: pb.AdminCommand_MERGE,
				Merge: &pb.MergeCommand{TargetRegionId: targetID, SourceRegionId: src.ID}})
		}
		if e == nil {
			r.Label("merge:" + s.Rel + ":accepted")
			if s.Rel == "right" || s.Rel == "left" {
				st.merges++
				if t.End == "" || t.Start == "" || src.End == "" || src.Start == "" {
					r.Label("merge:unbounded-involved")
				}
			}
		} else {
			r.Label("merge:" + s.Rel + ":rejected")
		}
		info.desc += fmt.Sprintf(" -> err=%v", e)
	case "stop":
		p := f.n.RegionPeer(t.ID)
		if p == nil {
			return skip("no-peer")
		}
		f.n.Store.StopPeer(p.ID())
		r.Label("stop")
		info.desc = fmt.Sprintf("stop peer of %v", t)
	case "remove":
		if p := f.n.RegionPeer(t.ID); p != nil {
			f.n.Store.StopPeer(p.ID())
		}
		e := f.n.Store.RemoveRegion(t.ID)
		info.desc = fmt.Sprintf("remove %v -> err=%v", t, e)
		if e == nil {
			r.Label("remove")
			tt := t
			info.removed = &tt
		} else {
			r.Label("remove:rejected")
		}
	default:
		return skip("unknown-op")
	}
	return info, nil
}

// restart closes the node, reopens it from its directory, compares the reloaded
// catalog with the one before, then starts the peers again the way cmd/nokv
// serve does and compares once more.
func (f *fixture) restart(r *pbt.Rec) (stepInfo, error) {
	info := stepInfo{desc: "restart"}
	pre := f.n.Catalog()
	f.n.Close()
	if e := f.n.Open(); e != nil {
		return info, pbt.Failf("restart-open", "store does not reopen: %v", e)
	}
	if d := diffCatalog(pre, f.n.Catalog()); d != "" {
		return info, pbt.Failf("restart-diff", "catalog reloaded after restart differs from the catalog before: %s", d)
	}
	if d := diffCatalog(pre, f.n.ManifestCatalog()); d != "" {
		return info, pbt.Failf("restart-diff", "manifest RegionSnapshot after restart differs from the catalog before: %s", d)
	}
	f.wedged = map[uint64]bool{}
	started, e := f.n.StartAll()
	if e != nil {
		return info, pbt.Failf("restart-start", "peers do not start after restart: %v", e)
	}
	var campaignErr error
	for _, id := range started {
		if e := f.n.Campaign(id); e != nil {
			f.wedged[id] = true
			if campaignErr == nil {
				campaignErr = fmt.Errorf("region %d: %w", id, e)
			}
		}
	}
	if d := diffCatalog(pre, f.n.Catalog()); d != "" {
		return info, pbt.Failf("restart-replay-diff", "catalog changed while the peers were restarted (no new command was issued): %s (campaign error: %v)", d, campaignErr)
	}
	if campaignErr != nil {
		r.Label("restart:campaign-error")
		info.desc += fmt.Sprintf(" (campaign: %v)", campaignErr)
	}
	r.Label("restart")
	r.Label(fmt.Sprintf("restart:regions:%d", len(pre)))
	return info, nil
}

// ---------------------------------------------------------------- generator

func gen(t *rapid.T) Case { return genWith(t, false) }

// genDB draws histories for the exact wiring of raftstore/server (full NoKV DB);
// opening and closing a DB costs seconds, so these run in the thorough tier only.
func genDB(t *rapid.T) Case { return genWith(t, true) }

func genWith(t *rapid.T, db bool) Case {
	nb := rapid.IntRange(2, 6).Draw(t, "nbounds")
	keys := rapid.SliceOfNDistinct(rapid.SampledFrom(grid), nb, nb, rapid.ID[string]).Draw(t, "bounds")
	sort.Strings(keys)
	if rapid.Bool().Draw(t, "startUnbounded") {
		keys[0] = ""
	}
	if rapid.Bool().Draw(t, "endUnbounded") {
		keys[len(keys)-1] = ""
	}
	c := Case{Bounds: keys, Mode: "direct", Storage: "mem"}
	if db {
		c.Mode = rapid.SampledFrom([]string{"direct", "raft"}).Draw(t, "mode")
		c.Storage = "db"
	} else if pbt.Tier() == "thorough" {
		c.Mode = rapid.SampledFrom([]string{"direct", "raft", "raft"}).Draw(t, "mode")
		c.Storage = rapid.SampledFrom([]string{"mem", "wal", "wal"}).Draw(t, "storage")
	} else if rapid.IntRange(0, 3).Draw(t, "raftmode") == 0 {
		c.Mode = "raft"
	}
	if pbt.Open("C24-restart-replays-admin") && c.Mode == "raft" && c.Storage != "mem" {
		// a persistent raft log is replayed from index 1 after a restart: keep the
		// log volatile while that finding is open
		if db {
			c.Mode = "direct"
		} else {
			c.Storage = "mem"
		}
		c.Excluded++
	}
	leftOpen := pbt.Open("C24-R10-left-merge") || pbt.Open("C24-R10-left-merge-unbounded")
	farOpen := pbt.Open("C24-merge-not-adjacent")
	selfOpen := pbt.Open("C24-merge-self")
	maxSteps := 14
	if db {
		maxSteps = 8
	}
	ns := rapid.IntRange(1, maxSteps).Draw(t, "nsteps")
	for i := 0; i < ns; i++ {
		s := Step{R: rapid.IntRange(0, 7).Draw(t, "r")}
		s.Op = rapid.SampledFrom([]string{"split", "split", "split", "split", "merge", "merge", "merge", "merge", "stop", "remove", "restart", "restart"}).Draw(t, "op")
		switch s.Op {
		case "split":
			s.Key = rapid.SampledFrom([]string{"in", "in", "in", "in", "start", "end", "below", "above", "empty"}).Draw(t, "key")
			s.Salt = rapid.IntRange(0, 63).Draw(t, "salt")
			s.Child = rapid.SampledFrom([]string{"key", "key", "key", "splitkey", "splitkey", "nostore", "peerdup"}).Draw(t, "child")
		case "merge":
			s.Rel = rapid.SampledFrom([]string{"right", "right", "right", "left", "left", "left", "far", "self", "missing", "notarget"}).Draw(t, "rel")
			s.Far = rapid.IntRange(0, 4).Draw(t, "far")
			if (leftOpen && s.Rel == "left") || (farOpen && s.Rel == "far") || (selfOpen && s.Rel == "self") {
				s.Rel = "right"
				c.Excluded++
			}
		}
		c.Steps = append(c.Steps, s)
	}
	return c
}

func TestCheck(t *testing.T) {
	s := &pbt.Suite{ID: "C24", Level: "exploration",
		Rule: "A case = random partition into 1-5 regions (bounded/unbounded ends) on one real store.Store with a manifest-backed catalog, then 1-14 steps drawn from split (key inside / at start / at end / below / above / empty; child descriptor as callers build it, or one whose peer cannot be started on this store: foreign store id, peer id already hosted; region ids are always fresh, as the id allocator guarantees), merge (right or left adjacent neighbour, non-neighbour, self, unknown source, unknown target), peer stop, removal, store restart; admin commands applied with VerifApplyAdmin (direct) or ProposeSplit/ProposeMerge on the single-voter raft group (raft). Oracle after every step on the store's catalog: ranges pairwise disjoint; union of ranges equal to the union before (a removal shrinks it by exactly the removed range); a region whose range/epoch/peers changed has a strictly larger epoch; states only move forward (hooks and catalog); after restart RegionMetas and the manifest RegionSnapshot equal the pre-restart catalog, also after the peers were started again. Non-trivial = case with >=1 accepted valid split of a region with an unbounded side and >=1 accepted merge of an adjacent neighbour; distinct by case content. Merge relations listed in open known findings are not generated (counted as excluded).",
		Assumptions: []string{
			"live region = entry of the store's region catalog (states new/running/removing); a stopped peer's region (removing) still owns its range until RemoveRegion",
			"a split's child is described as callers in the repository's tests do: child.EndKey = parent's end key, fresh region and peer ids",
			"'every change strictly increases the epoch' is judged for changes of range, epoch or peer list, not for state-only transitions; strictly larger = no component smaller and at least one larger",
			"whether a valid split/merge must be accepted is not judged (only the resulting catalog is)",
		},
	}
	pbt.Add(s, &pbt.Spec[Case]{Name: "history", Gen: gen, Run: run, Quick: 6000, Thorough: 300000, Shards: 8})
	if pbt.Tier() == "thorough" || os.Getenv("VERIF_SPEC") == "serverwiring" {
		pbt.Add(s, &pbt.Spec[Case]{Name: "serverwiring", Gen: genDB, Run: run, Quick: 16, Thorough: 400, Shards: 8})
	}
	s.Main(t)
}
