// C38 — topology validation accepts exactly the well-formed configurations.
// Oracle: a reference predicate transcribed from the property statement;
// Validate()==nil must hold iff the predicate finds no defect.
package c38

import (
	"fmt"
	"strings"
	"testing"

	"github.com/feichai0017/NoKV/config"
	"nokvverif/internal/pbt"
	"pgregory.net/rapid"
)

func TestMain(m *testing.M) { pbt.RunMain(m) }

type Case struct {
	Tmpl, DockerTmpl string
	Stores           []uint64
	Regions          []Region
}
type Region struct {
	ID, Leader uint64
	Peers      [][2]uint64 // store, peer
}

func (c Case) file() *config.File {
	f := &config.File{StoreWorkDirTemplate: c.Tmpl, StoreDockerWorkDirTemplate: c.DockerTmpl}
	for _, s := range c.Stores {
		f.Stores = append(f.Stores, config.Store{StoreID: s, Addr: "a"})
	}
	for _, r := range c.Regions {
		cr := config.Region{ID: r.ID, LeaderStoreID: r.Leader}
		for _, p := range r.Peers {
			cr.Peers = append(cr.Peers, config.Peer{StoreID: p[0], PeerID: p[1]})
		}
		f.Regions = append(f.Regions, cr)
	}
	return f
}

// defects lists every defect class of the statement present in c.
func defects(c Case) []string {
	var d []string
	bad := func(t string) bool { t = strings.TrimSpace(t); return t != "" && !strings.Contains(t, "{id}") }
	if bad(c.Tmpl) || bad(c.DockerTmpl) {
		d = append(d, "template")
	}
	known := map[uint64]bool{}
	for _, s := range c.Stores {
		if s == 0 {
			d = append(d, "zero-store")
		} else if known[s] {
			d = append(d, "dup-store")
		}
		known[s] = true
	}
	for _, r := range c.Regions {
		if r.ID == 0 {
			d = append(d, "zero-region")
		}
		if r.Leader != 0 && !known[r.Leader] {
			d = append(d, "unknown-leader")
		}
		for _, p := range r.Peers {
			if p[0] == 0 || p[1] == 0 {
				d = append(d, "zero-peer")
			} else if !known[p[0]] {
				d = append(d, "unknown-peer-store")
			}
		}
	}
	return d
}

func run(c Case, r *pbt.Rec) error {
	d := defects(c)
	err := c.file().Validate()
	if len(d) == 0 {
		r.Label("wellformed")
		if len(c.Regions) > 0 && len(c.Regions[0].Peers) > 0 {
			r.NT()
		}
		if err != nil {
			return pbt.Failf("rejects-wellformed", "Validate rejected a well-formed topology: %v", err)
		}
		return nil
	}
	uniq := map[string]bool{}
	for _, x := range d {
		uniq[x] = true
	}
	for x := range uniq {
		r.Label("defect:" + x)
	}
	if len(uniq) == 1 {
		r.NT() // exactly one defect class present: nothing else can be the reason for rejection
	}
	if err == nil {
		return pbt.Failf("accepts-defect", "Validate accepted a topology with defects %v", d)
	}
	return nil
}

func enumerate() []Case {
	tmpls := []string{"", " ", "x", "x{id}"}
	ids := []uint64{0, 1, 2}
	var storeSets [][]uint64
	storeSets = append(storeSets, nil)
	for _, a := range ids {
		storeSets = append(storeSets, []uint64{a})
		for _, b := range ids {
			storeSets = append(storeSets, []uint64{a, b})
		}
	}
	var peerSets [][][2]uint64
	peerSets = append(peerSets, nil)
	var single [][2]uint64
	for _, s := range ids {
		for _, p := range ids {
			single = append(single, [2]uint64{s, p})
		}
	}
	for _, a := range single {
		peerSets = append(peerSets, [][2]uint64{a})
	}
	for i, a := range single {
		for _, b := range single[i:] {
			peerSets = append(peerSets, [][2]uint64{a, b})
		}
	}
	var regions []Region
	for _, id := range ids {
		for _, l := range []uint64{0, 1, 2, 3} {
			for _, ps := range peerSets {
				regions = append(regions, Region{ID: id, Leader: l, Peers: ps})
			}
		}
	}
	var out []Case
	// all single-region topologies × all store sets × both templates from the grid
	for _, t := range tmpls {
		for _, dt := range tmpls {
			for _, ss := range storeSets {
				out = append(out, Case{Tmpl: t, DockerTmpl: dt, Stores: ss})
				if t != "" && dt != "" && t != "x{id}" {
					continue // template × region product only for representative template pairs
				}
				for _, rg := range regions {
					out = append(out, Case{Tmpl: t, DockerTmpl: dt, Stores: ss, Regions: []Region{rg}})
				}
			}
		}
	}
	// two-region topologies (templates fixed to valid): second region drawn from a reduced set
	var small []Region
	for _, rg := range regions {
		if len(rg.Peers) <= 1 {
			small = append(small, rg)
		}
	}
	for _, ss := range storeSets {
		for _, a := range small {
			for _, b := range small {
				out = append(out, Case{Tmpl: "x{id}", Stores: ss, Regions: []Region{a, b}})
			}
		}
	}
	return out
}

func gen(t *rapid.T) Case {
	id := rapid.Uint64Range(0, 5)
	tm := rapid.SampledFrom([]string{"", " ", "\t", "x", "/data/{id}", " {id} ", "{ id }", "{ID}", "a{id}b{id}"})
	c := Case{Tmpl: tm.Draw(t, "tmpl"), DockerTmpl: tm.Draw(t, "dtmpl")}
	c.Stores = rapid.SliceOfN(rapid.Uint64Range(0, 6), 0, 6).Draw(t, "stores")
	nr := rapid.IntRange(0, 4).Draw(t, "nr")
	for i := 0; i < nr; i++ {
		rg := Region{ID: id.Draw(t, "rid"), Leader: rapid.Uint64Range(0, 7).Draw(t, "leader")}
		np := rapid.IntRange(0, 4).Draw(t, "np")
		for j := 0; j < np; j++ {
			rg.Peers = append(rg.Peers, [2]uint64{rapid.Uint64Range(0, 7).Draw(t, "ps"), rapid.Uint64Range(0, 9).Draw(t, "pp")})
		}
		c.Regions = append(c.Regions, rg)
	}
	return c
}

func TestCheck(t *testing.T) {
	s := &pbt.Suite{ID: "C38", Level: "exploration", Exhaustive: false,
		Rule: "static: every topology with <=2 stores, 1 region (<=2 peers) over ids {0,1,2}, leader in {0..3}, templates {\"\",\" \",\"x\",\"x{id}\"} plus all 2-region topologies with <=1 peer per region, enumerated completely; gen: rapid draws of larger shapes (<=6 stores, <=4 regions, <=4 peers, more template spellings). Oracle: Validate()==nil iff the reference predicate from the statement finds no defect. Non-trivial = topology with exactly one defect class (so only that defect can justify rejection) or a defect-free topology with >=1 region having >=1 peer; distinct by case content.",
		Assumptions: []string{"duplicate region ids / duplicate peer ids are not listed as defects by the property, so acceptance of them is not judged", "a template that is empty or only whitespace counts as 'no template'"},
	}
	pbt.Add(s, &pbt.Spec[Case]{Name: "validate", Gen: gen, Run: run, Static: enumerate, Quick: 20000, Thorough: 1000000})
	s.Extra("static_domain_enumerated_completely", true)
	s.Main(t)
	_ = fmt.Sprint
}
