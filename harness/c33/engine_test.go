package c33

// The contender engine: runs one acquire or release operation of one contender in a
// goroutine and parks it at the yield points the harness owns.  The same engine runs
// inside the test process (local contender) and inside a child process (remote contender,
// see child_test.go).
//
// Yield points are implemented in a vfs.FS wrapper handed to the code under test
// (utils.AcquireDirLock(dir, fs) / NoKV.Options.FS); nothing in the repository is patched:
//
//	open    after the LOCK file was opened (O_CREATE), before flock          [ParkOpen]
//	locked  at the first Truncate of the LOCK handle, which AcquireDirLock issues right
//	        after flock succeeded: always reported, the harness judges the oracle here and
//	        may abort the acquisition (the handle is closed again by AcquireDirLock's defer)
//	close   in Release after flock(LOCK_UN), before the handle is closed     [ParkClose]
//	remove  in Release before the LOCK file is unlinked                      [ParkRemove]

import (
	"fmt"
	"os"
	"path/filepath"
	"runtime/debug"
	"time"

	NoKV "github.com/feichai0017/NoKV"
	"github.com/feichai0017/NoKV/utils"
	"github.com/feichai0017/NoKV/vfs"
	"nokvverif/internal/eng"
)

// Cycle is one acquire+release of a contender with its yield points.
type Cycle struct {
	ParkOpen, ParkClose, ParkRemove bool
}

// Event is what the engine reports when the running operation parks or finishes.
type Event struct {
	Kind     string // parked | done | timeout
	At       string // parked: open | locked | close | remove
	OK       bool   // done: acquire obtained the directory / release returned nil
	Err      string
	Unlocked bool // since the previous event the release path touched LOCK (unlock+close or unlink): the hold is over
	Removed  bool // since the previous event an unlink of LOCK succeeded
}

type driver interface {
	Start(op string, cyc Cycle) Event
	Resume(abort bool) Event
}

const abortMsg = "c33: acquisition aborted by the harness"

const opTimeout = 60 * time.Second

type engine struct {
	kind, dir string
	fs        *gateFS
	lock      *utils.DirLock
	db        *NoKV.DB

	// written by the harness before an operation starts / by the operation goroutine while
	// it runs; the two never run at the same time (channel hand-off)
	phase    string
	cyc      Cycle
	unlocked bool
	removed  bool
	held     *gateFile

	ev   chan Event
	goCh chan bool
}

func newEngine(kind, dir string) *engine {
	e := &engine{kind: kind, dir: dir, ev: make(chan Event, 1), goCh: make(chan bool)}
	e.fs = &gateFS{FS: vfs.OSFS{}, e: e}
	return e
}

func (e *engine) flags(ev Event) Event {
	ev.Unlocked, ev.Removed = e.unlocked, e.removed
	e.unlocked, e.removed = false, false
	return ev
}

// park is called on the operation goroutine; it returns true when the harness wants the
// acquisition aborted.
func (e *engine) park(at string) bool {
	e.ev <- e.flags(Event{Kind: "parked", At: at})
	return <-e.goCh
}

func (e *engine) wait() Event {
	select {
	case ev := <-e.ev:
		return ev
	case <-time.After(opTimeout):
		return Event{Kind: "timeout"}
	}
}

func (e *engine) Start(op string, cyc Cycle) Event {
	e.phase, e.cyc = op, cyc
	go func() {
		ok, msg := false, ""
		defer func() {
			if p := recover(); p != nil {
				ok, msg = false, fmt.Sprint(p)
			}
			e.ev <- e.flags(Event{Kind: "done", OK: ok, Err: msg})
		}()
		switch {
		case op == "acq" && e.kind == "lock":
			l, err := utils.AcquireDirLock(e.dir, e.fs)
			if err != nil {
				msg = err.Error()
				return
			}
			e.lock, ok = l, true
		case op == "rel" && e.kind == "lock":
			err := e.lock.Release()
			e.lock = nil
			if err != nil {
				msg = err.Error()
				return
			}
			ok = true
		case op == "acq" && e.kind == "db":
			db, err := eng.Open(eng.Cfg{}, e.dir, e.fs)
			if err != nil {
				msg = err.Error()
				return
			}
			e.db, ok = db, true
		case op == "rel" && e.kind == "db":
			err := eng.Close(e.db)
			e.db = nil
			debug.FreeOSMemory() // every Open allocates a 128 MiB memtable arena: hand it back
			if err != nil {
				msg = err.Error()
				return
			}
			ok = true
		default:
			msg = "c33: bad operation " + op + "/" + e.kind
		}
	}()
	return e.wait()
}

func (e *engine) Resume(abort bool) Event {
	select {
	case e.goCh <- abort:
	case <-time.After(opTimeout):
		return Event{Kind: "timeout"}
	}
	return e.wait()
}

// ---- the gating file system

type gateFS struct {
	vfs.FS
	e *engine
}

func isLock(name string) bool { return filepath.Base(name) == "LOCK" }

func (g *gateFS) OpenFileHandle(name string, flag int, perm os.FileMode) (vfs.File, error) {
	f, err := g.FS.OpenFileHandle(name, flag, perm)
	if err != nil || !isLock(name) {
		return f, err
	}
	gf := &gateFile{File: f, e: g.e}
	if g.e.phase == "acq" && g.e.cyc.ParkOpen {
		if g.e.park("open") {
			_ = f.Close()
			panic(abortMsg)
		}
	}
	return gf, nil
}

func (g *gateFS) Remove(name string) error {
	if !isLock(name) {
		return g.FS.Remove(name)
	}
	if g.e.phase == "rel" {
		g.e.unlocked = true
		if g.e.cyc.ParkRemove {
			g.e.park("remove")
		}
	}
	err := g.FS.Remove(name)
	if err == nil {
		g.e.removed = true
	}
	return err
}

type gateFile struct {
	vfs.File
	e      *engine
	locked bool
}

// Fd keeps vfs.FileFD working on the wrapper (flock needs the descriptor).
func (f *gateFile) Fd() uintptr {
	fd, _ := vfs.FileFD(f.File)
	return fd
}

func (f *gateFile) Truncate(n int64) error {
	if f.e.phase == "acq" && !f.locked {
		f.locked = true
		f.e.held = f
		if f.e.park("locked") {
			panic(abortMsg)
		}
	}
	return f.File.Truncate(n)
}

func (f *gateFile) Close() error {
	if f.locked && f.e.held == f {
		f.e.held = nil
		f.e.unlocked = true
		if f.e.phase == "rel" && f.e.cyc.ParkClose {
			f.e.park("close")
		}
	}
	return f.File.Close()
}
