// C33 — at most one database holds a working directory at a time.
//
// Real code: utils.AcquireDirLock / (*DirLock).Release (utils/dirlock.go) and the full
// NoKV.Open / (*DB).Close which call them.
//
// Specs
//   - dirlock: 2-3 contenders in one process run acquire/release cycles of the directory
//     lock; the harness owns the interleaving at the yield points open | flock | unlock |
//     close | unlink (see engine_test.go: a vfs.FS wrapper parks the operation, nothing in
//     the repository is patched).  A drawn list says which contender moves next.
//   - opendb: the same with NoKV.Open / DB.Close as the operations.
//   - procs: the same with some or all contenders living in child processes.
//   - free: 2-3 contenders (goroutines and/or child processes) loop acquire/release on
//     real threads without any gating.
//
// Oracle: a contender holds the directory from the moment its flock succeeded (observed at
// the Truncate AcquireDirLock issues right after flock, or at the successful return) until
// its release path first touches the LOCK file (unlock+close or unlink) or returns.  At no
// step may two contenders hold.  Acquire failing is never judged (the property states an
// upper bound only).
package c33

import (
	"fmt"
	"os"
	"path/filepath"
	"runtime"
	"strings"
	"sync"
	"testing"

	"github.com/feichai0017/NoKV/utils"
	"nokvverif/internal/pbt"
	"pgregory.net/rapid"
)

func TestMain(m *testing.M) {
	if os.Getenv("C33_CHILD") != "" {
		childMain()
		os.Exit(0)
	}
	code := m.Run()
	poolClose()
	pbt.CleanupScratch()
	os.Exit(code)
}

// Case of the scheduled specs.
type Case struct {
	Kind   string    // lock | db
	Remote []bool    // contender i lives in a child process (nil = all local)
	Progs  [][]Cycle // per contender: its acquire/release cycles with their yield points
	Sched  []int     // which contender moves next (one segment: up to its next yield point)
	Excl   int       // generator: draws steered away from open known findings
}

const (
	stIdle = iota
	stAcqParked
	stHolding
	stRelParked
)

type cont struct {
	drv   driver
	prog  []Cycle
	cyc   int
	st    int
	holds bool   // oracle state
	at    string // where it is parked
}

type harness struct {
	cs    []*cont
	r     *pbt.Rec
	trace []string
	viol  string
	infra string
	nt    bool
}

func name(i int) string { return string(rune('A' + i)) }

func (h *harness) tr(f string, a ...any) { h.trace = append(h.trace, fmt.Sprintf(f, a...)) }

func (h *harness) label(s string) { h.r.Label(s); h.nt = true }

// holders lists contenders other than i that hold right now.
func (h *harness) holders(i int) []int {
	var out []int
	for j, c := range h.cs {
		if j != i && c.holds {
			out = append(out, j)
		}
	}
	return out
}

func (h *harness) finished(i int) bool { c := h.cs[i]; return c.st == stIdle && c.cyc >= len(c.prog) }

// advance moves contender i by one segment.
func (h *harness) advance(i int) {
	c := h.cs[i]
	var ev Event
	switch c.st {
	case stIdle:
		if c.cyc >= len(c.prog) {
			return
		}
		for j, o := range h.cs {
			if j == i {
				continue
			}
			switch {
			case o.holds:
				h.label("attempt-while-another-holds")
			case o.st == stRelParked:
				h.label("attempt-inside-unlock-unlink-window")
			case o.st == stAcqParked:
				h.label("attempt-while-another-is-between-open-and-flock")
			}
		}
		h.tr("%s: acquire…", name(i))
		ev = c.drv.Start("acq", c.prog[c.cyc])
	case stHolding:
		for j, o := range h.cs {
			if j != i && o.st == stAcqParked {
				h.label("release-while-another-is-between-open-and-flock")
			}
		}
		h.tr("%s: release…", name(i))
		ev = c.drv.Start("rel", c.prog[c.cyc])
	default:
		if c.st == stRelParked && c.at == "remove" && len(h.holders(i)) > 0 {
			h.label("unlink-while-another-holds")
		}
		if c.st == stAcqParked && c.at == "open" {
			for j, o := range h.cs {
				if j != i && o.st == stRelParked {
					h.label("flock-inside-unlock-unlink-window")
				}
			}
		}
		h.tr("%s: resume from %s…", name(i), c.at)
		ev = c.drv.Resume(false)
	}
	h.handle(i, ev)
}

func (h *harness) handle(i int, ev Event) {
	c := h.cs[i]
	for {
		if ev.Unlocked {
			c.holds = false
		}
		if ev.Removed {
			h.tr("%s: unlinked LOCK", name(i))
		}
		switch ev.Kind {
		case "timeout":
			h.infra = fmt.Sprintf("contender %s did not answer within %v (%s)", name(i), opTimeout, ev.Err)
			return
		case "parked":
			if ev.At == "locked" {
				if o := h.holders(i); len(o) > 0 && h.viol == "" {
					h.viol = fmt.Sprintf("%s obtained the directory lock while %s still holds it", name(i), name(o[0]))
					h.tr("%s: flock SUCCEEDED although %s holds", name(i), name(o[0]))
					ev = c.drv.Resume(true) // abort: do not let a second database loose on the directory
					continue
				}
				c.holds = true
				h.tr("%s: flock succeeded", name(i))
				ev = c.drv.Resume(false)
				continue
			}
			c.at = ev.At
			if ev.At == "open" {
				c.st = stAcqParked
				h.tr("%s: parked after open(LOCK)", name(i))
			} else {
				c.st = stRelParked
				h.tr("%s: parked before %s(LOCK), hold over=%v", name(i), ev.At, !c.holds)
			}
			return
		case "done":
			wasRel := c.st == stHolding || c.st == stRelParked
			if wasRel {
				c.holds = false
				c.st = stIdle
				c.cyc++
				h.tr("%s: released (ok=%v %s)", name(i), ev.OK, ev.Err)
				return
			}
			if ev.OK {
				if !c.holds {
					// the Truncate marker was not seen: judge at the successful return
					if o := h.holders(i); len(o) > 0 && h.viol == "" {
						h.viol = fmt.Sprintf("%s acquired the directory while %s still holds it", name(i), name(o[0]))
					}
					c.holds = true
				}
				c.st = stHolding
				h.tr("%s: acquired", name(i))
				return
			}
			c.holds = false
			c.st = stIdle
			c.cyc++
			if strings.Contains(ev.Err, "already in use") {
				h.r.Label("acquire-refused")
				h.tr("%s: refused (in use)", name(i))
			} else if strings.Contains(ev.Err, abortMsg) {
				h.tr("%s: acquisition aborted by the harness", name(i))
			} else {
				h.r.Label("acquire-other-error")
				h.tr("%s: acquire failed: %s", name(i), firstLine(ev.Err))
			}
			return
		default:
			h.infra = fmt.Sprintf("contender %s: unexpected event %+v", name(i), ev)
			return
		}
	}
}

func firstLine(s string) string {
	if i := strings.IndexByte(s, '\n'); i >= 0 {
		return s[:i]
	}
	return s
}

// drain finishes everything: first every parked operation, then each contender runs the
// rest of its program alone.  With stop set the remaining cycles are skipped.
func (h *harness) drain(stop bool) {
	for pass := 0; pass < 64; pass++ {
		moved := false
		for i, c := range h.cs {
			for (c.st == stAcqParked || c.st == stRelParked) && h.infra == "" {
				h.advance(i)
				moved = true
			}
		}
		if !moved || h.infra != "" {
			break
		}
	}
	for i, c := range h.cs {
		if stop && c.st == stIdle {
			c.cyc = len(c.prog)
		}
		for !h.finished(i) && h.infra == "" {
			if stop && c.st == stIdle {
				c.cyc = len(c.prog)
				break
			}
			if stop && c.st == stHolding {
				c.prog[c.cyc] = Cycle{}
			}
			h.advance(i)
		}
	}
}

func run(c Case, r *pbt.Rec) error {
	r.Excluded(c.Excl)
	if len(c.Progs) == 0 {
		return nil
	}
	kind := c.Kind
	if kind == "" {
		kind = "lock"
	}
	base, cleanup := pbt.TempDir("c33")
	defer cleanup()
	dir := filepath.Join(base, "db")
	h := &harness{r: r}
	nRemote := 0
	for i, p := range c.Progs {
		ct := &cont{prog: append([]Cycle(nil), p...)}
		if i < len(c.Remote) && c.Remote[i] {
			rm, err := newRemote(i, kind, dir)
			if err != nil {
				return pbt.Failf("harness", "cannot start child contender: %v", err)
			}
			ct.drv = rm
			nRemote++
		} else {
			ct.drv = newEngine(kind, dir)
		}
		h.cs = append(h.cs, ct)
	}
	r.Label("kind=" + kind)
	r.Label(fmt.Sprintf("contenders=%d", len(c.Progs)))
	r.Label(fmt.Sprintf("child-processes=%d", nRemote))
	for _, i := range c.Sched {
		if i < 0 || i >= len(h.cs) {
			continue
		}
		h.advance(i)
		if h.viol != "" || h.infra != "" {
			break
		}
	}
	h.drain(h.viol != "" || h.infra != "")
	if h.infra != "" {
		if nRemote > 0 {
			poolClose()
		}
		return pbt.Failf("harness", "%s\ntrace:\n  %s", h.infra, strings.Join(h.trace, "\n  "))
	}
	if h.nt {
		r.NT()
	}
	if h.viol != "" {
		return pbt.Failf("two-holders", "%s\ntrace:\n  %s", h.viol, strings.Join(h.trace, "\n  "))
	}
	return nil
}

// ---- generators

// constrained reports whether the lock-file unlink defect is still listed as open; while
// it is, schedules are constructed so that no contender opens LOCK while another one is
// inside its release, and no contender starts its release while another one sits between
// open and flock.  Every other interleaving stays in.
func constrained() bool { return pbt.Open("C33-R12") || pbt.Open("C33-R12b") }

// model mirrors the segment structure of the engine for schedule construction only.
type model struct {
	progs [][]Cycle
	st    []int
	cyc   []int
	left  []int // remaining parks of a release in progress
}

func (m *model) finished(i int) bool { return m.st[i] == stIdle && m.cyc[i] >= len(m.progs[i]) }

func (m *model) allowed(i int) bool {
	switch m.st[i] {
	case stIdle:
		for j := range m.st {
			if j != i && m.st[j] == stRelParked {
				return false
			}
		}
	case stHolding:
		for j := range m.st {
			if j != i && m.st[j] == stAcqParked {
				return false
			}
		}
	}
	return true
}

func (m *model) attempt(i int) {
	for j := range m.st {
		if j != i && (m.st[j] == stHolding) {
			m.st[i] = stIdle
			m.cyc[i]++
			return
		}
	}
	m.st[i] = stHolding
}

func (m *model) advance(i int) {
	cy := Cycle{}
	if m.cyc[i] < len(m.progs[i]) {
		cy = m.progs[i][m.cyc[i]]
	}
	switch m.st[i] {
	case stIdle:
		if cy.ParkOpen {
			m.st[i] = stAcqParked
		} else {
			m.attempt(i)
		}
	case stAcqParked:
		m.attempt(i)
	case stHolding:
		n := 0
		if cy.ParkClose {
			n++
		}
		if cy.ParkRemove {
			n++
		}
		if n == 0 {
			m.st[i] = stIdle
			m.cyc[i]++
		} else {
			m.st[i], m.left[i] = stRelParked, n
		}
	case stRelParked:
		m.left[i]--
		if m.left[i] == 0 {
			m.st[i] = stIdle
			m.cyc[i]++
		}
	}
}

func genProgs(t *rapid.T, maxCycles int) [][]Cycle {
	n := rapid.IntRange(2, 3).Draw(t, "contenders")
	progs := make([][]Cycle, n)
	for i := range progs {
		nc := rapid.IntRange(1, maxCycles).Draw(t, "cycles")
		for k := 0; k < nc; k++ {
			progs[i] = append(progs[i], Cycle{
				ParkOpen:   rapid.IntRange(0, 2).Draw(t, "parkOpen") == 0,
				ParkClose:  rapid.IntRange(0, 2).Draw(t, "parkClose") == 0,
				ParkRemove: rapid.IntRange(0, 1).Draw(t, "parkRemove") == 0,
			})
		}
	}
	return progs
}

func genSched(t *rapid.T, c *Case) {
	n := len(c.Progs)
	segs := 0
	for _, p := range c.Progs {
		segs += 5 * len(p)
	}
	steps := rapid.IntRange(0, segs).Draw(t, "steps")
	if !constrained() {
		for s := 0; s < steps; s++ {
			c.Sched = append(c.Sched, rapid.IntRange(0, n-1).Draw(t, "who"))
		}
		return
	}
	m := &model{progs: c.Progs, st: make([]int, n), cyc: make([]int, n), left: make([]int, n)}
	for s := 0; s < steps; s++ {
		var cand []int
		restricted := false
		for i := 0; i < n; i++ {
			if m.finished(i) {
				continue
			}
			if m.allowed(i) {
				cand = append(cand, i)
			} else {
				restricted = true
			}
		}
		if len(cand) == 0 {
			break
		}
		if restricted {
			c.Excl++
		}
		i := cand[rapid.IntRange(0, len(cand)-1).Draw(t, "who")]
		c.Sched = append(c.Sched, i)
		m.advance(i)
	}
}

func genLock(t *rapid.T) Case {
	c := Case{Kind: "lock", Progs: genProgs(t, 3)}
	genSched(t, &c)
	return c
}

func genDB(t *rapid.T) Case {
	c := Case{Kind: "db", Progs: genProgs(t, 2)}
	genSched(t, &c)
	return c
}

func genProcs(t *rapid.T) Case {
	c := Case{Kind: "lock", Progs: genProgs(t, 3)}
	if rapid.IntRange(0, 19).Draw(t, "db") == 0 {
		c.Kind = "db"
		for i := range c.Progs {
			if len(c.Progs[i]) > 2 {
				c.Progs[i] = c.Progs[i][:2]
			}
		}
	}
	c.Remote = make([]bool, len(c.Progs))
	any := false
	for i := range c.Remote {
		c.Remote[i] = rapid.IntRange(0, 2).Draw(t, "remote") != 0
		any = any || c.Remote[i]
	}
	if !any {
		c.Remote[rapid.IntRange(0, len(c.Remote)-1).Draw(t, "whichRemote")] = true
	}
	genSched(t, &c)
	return c
}

// ---- free-running spec

type FreeCase struct {
	Remote []bool // one entry per contender (2-3)
	Iters  int
	Hold   int  // Gosched calls while holding
	Skip   bool // set by the generator while the unlink defect is listed as open
}

type freeJob struct {
	ID          int
	Dir, Marks  string
	Iters, Hold int
}

type freeRes struct {
	Acquired, Busy, Overlaps int
	First, OtherErr          string
}

// runFreeJob loops acquire/release.  A holder drops a marker file after it acquired and
// removes it before it releases, so a foreign marker seen while the own one exists proves
// two simultaneous holders.
func runFreeJob(j freeJob) freeRes {
	var res freeRes
	mine := fmt.Sprintf("h%d", j.ID)
	for it := 0; it < j.Iters; it++ {
		l, err := utils.AcquireDirLock(j.Dir, nil)
		if err != nil {
			res.Busy++
			if !strings.Contains(err.Error(), "already in use") && res.OtherErr == "" {
				res.OtherErr = err.Error()
			}
			runtime.Gosched()
			continue
		}
		res.Acquired++
		_ = os.WriteFile(filepath.Join(j.Marks, mine), nil, 0o600)
		ents, _ := os.ReadDir(j.Marks)
		for _, e := range ents {
			if e.Name() != mine {
				res.Overlaps++
				if res.First == "" {
					res.First = fmt.Sprintf("contender %d holds the directory (iteration %d) while %s is marked as holder", j.ID, it, e.Name())
				}
			}
		}
		for y := 0; y < j.Hold; y++ {
			runtime.Gosched()
		}
		_ = os.Remove(filepath.Join(j.Marks, mine))
		_ = l.Release()
	}
	return res
}

func runFree(c FreeCase, r *pbt.Rec) error {
	if c.Skip {
		r.Excluded(1)
		r.Label("skipped-while-finding-open")
		return nil
	}
	if len(c.Remote) < 2 {
		return nil
	}
	base, cleanup := pbt.TempDir("c33f")
	defer cleanup()
	dir, marks := filepath.Join(base, "db"), filepath.Join(base, "holders")
	if err := os.MkdirAll(marks, 0o755); err != nil {
		return pbt.Failf("harness", "%v", err)
	}
	results := make([]freeRes, len(c.Remote))
	infra := make([]string, len(c.Remote))
	var wg sync.WaitGroup
	nRemote := 0
	for i, rem := range c.Remote {
		job := freeJob{ID: i, Dir: dir, Marks: marks, Iters: c.Iters, Hold: c.Hold}
		wg.Add(1)
		if rem {
			nRemote++
			k, err := poolGet(i)
			if err != nil {
				return pbt.Failf("harness", "cannot start child contender: %v", err)
			}
			go func(i int) {
				defer wg.Done()
				ev := k.call(command{Cmd: "free", Free: &job}, opTimeout)
				if ev.Kind != "done" {
					infra[i] = fmt.Sprintf("child %d: %+v", i, ev)
					return
				}
				if err := jsonUnmarshal(ev.Err, &results[i]); err != nil {
					infra[i] = err.Error()
				}
			}(i)
		} else {
			go func(i int) {
				defer wg.Done()
				results[i] = runFreeJob(job)
			}(i)
		}
	}
	wg.Wait()
	r.Label(fmt.Sprintf("child-processes=%d", nRemote))
	acq, busy := 0, 0
	for i, res := range results {
		if infra[i] != "" {
			poolClose()
			return pbt.Failf("harness", "%s", infra[i])
		}
		acq += res.Acquired
		busy += res.Busy
		if res.OtherErr != "" {
			r.Label("acquire-other-error")
		}
	}
	r.LabelN("free-acquisitions", acq)
	r.LabelN("free-refusals", busy)
	if busy > 0 && acq > 0 {
		r.NT() // real contention happened: at least one attempt met a holder
	}
	for _, res := range results {
		if res.Overlaps > 0 {
			return pbt.Failf("two-holders", "free-running contenders: %s (%d overlapping observations)", res.First, res.Overlaps)
		}
	}
	return nil
}

func genFree(t *rapid.T) FreeCase {
	n := rapid.IntRange(2, 3).Draw(t, "contenders")
	c := FreeCase{Remote: make([]bool, n), Iters: rapid.IntRange(20, 300).Draw(t, "iters"), Hold: rapid.IntRange(0, 3).Draw(t, "hold")}
	for i := range c.Remote {
		c.Remote[i] = rapid.IntRange(0, 3).Draw(t, "remote") == 0
	}
	if constrained() {
		c.Skip = true
	}
	return c
}

func TestCheck(t *testing.T) {
	s := &pbt.Suite{ID: "C33", Level: "exploration",
		Rule: "2-3 contenders, each 1-3 acquire/release cycles (1-2 for NoKV.Open/Close) with drawn yield points: after open(LOCK) before flock, after flock(LOCK_UN) before close, before unlink(LOCK); a drawn list names the contender that runs its next segment, then everything is drained. " +
			"Yield points come from a vfs.FS wrapper passed to AcquireDirLock / Options.FS; spec procs places contenders in child processes; spec free loops acquire/release on real threads (goroutines and child processes) with marker files as holder registry. " +
			"Oracle: from flock success (Truncate marker right after flock, or successful return) until the release path first touches LOCK no other contender's flock may succeed. " +
			"Non-trivial = during the run an acquire attempt, flock or release started while another contender was holding, parked between open and flock, or parked inside its release (for free: at least one attempt was refused and one succeeded); distinct by case content.",
		Assumptions: []string{
			"Linux flock semantics on tmpfs (/dev/shm); two opens of the LOCK file in one process conflict like two processes do",
			"the first Truncate on the LOCK handle happens only after flock succeeded (true for utils/dirlock.go; otherwise the successful return is judged)",
			"a contender whose release path has started (first touch of LOCK) no longer counts as holder, although its Close/Release has not returned yet",
		},
	}
	pbt.Add(s, &pbt.Spec[Case]{Name: "dirlock", Gen: genLock, Run: run, Quick: 60000, Thorough: 3000000, Shards: 6})
	pbt.Add(s, &pbt.Spec[Case]{Name: "opendb", Gen: genDB, Run: run, Quick: 200, Thorough: 4000, Shards: 4})
	pbt.Add(s, &pbt.Spec[Case]{Name: "procs", Gen: genProcs, Run: run, Quick: 2000, Thorough: 60000, Shards: 4})
	pbt.Add(s, &pbt.Spec[FreeCase]{Name: "free", Gen: genFree, Run: runFree, Quick: 200, Thorough: 5000, Shards: 4, Nondet: true})
	s.Main(t)
}
