package c33

// Remote contenders: the test binary re-executed with C33_CHILD=1 runs a contender
// engine in its own process (flock conflicts between processes instead of between two open
// file descriptions of one process).  Commands arrive as JSON lines on stdin, events leave
// as JSON lines on fd 3.  Children are pooled per test process and reused between cases.

import (
	"bufio"
	"encoding/json"
	"fmt"
	"os"
	"os/exec"
	"sync"
	"time"
)

type command struct {
	Cmd   string // new | start | resume | free
	Kind  string
	Dir   string
	Op    string
	Cyc   Cycle
	Abort bool
	Free  *freeJob
}

func childMain() {
	in := bufio.NewReaderSize(os.Stdin, 1<<16)
	out := os.NewFile(3, "events")
	enc := json.NewEncoder(out)
	var e *engine
	for {
		line, err := in.ReadBytes('\n')
		if err != nil {
			return // parent went away
		}
		var c command
		if err := json.Unmarshal(line, &c); err != nil {
			_ = enc.Encode(Event{Kind: "done", Err: "child: bad command: " + err.Error()})
			continue
		}
		switch c.Cmd {
		case "new":
			e = newEngine(c.Kind, c.Dir)
			_ = enc.Encode(Event{Kind: "done", OK: true})
		case "start":
			_ = enc.Encode(e.Start(c.Op, c.Cyc))
		case "resume":
			_ = enc.Encode(e.Resume(c.Abort))
		case "free":
			res := runFreeJob(*c.Free)
			b, _ := json.Marshal(res)
			_ = enc.Encode(Event{Kind: "done", OK: true, Err: string(b)})
		}
	}
}

type child struct {
	cmd  *exec.Cmd
	in   *json.Encoder
	inW  *os.File
	out  *bufio.Reader
	outR *os.File
	dead bool
}

func spawnChild() (*child, error) {
	exe, err := os.Executable()
	if err != nil {
		return nil, err
	}
	inR, inW, err := os.Pipe()
	if err != nil {
		return nil, err
	}
	outR, outW, err := os.Pipe()
	if err != nil {
		return nil, err
	}
	cmd := exec.Command(exe, "-test.run=^TestCheck$", "-test.count=1", "-test.timeout=0")
	cmd.Env = append(os.Environ(), "C33_CHILD=1")
	cmd.Stdin = inR
	cmd.Stdout, cmd.Stderr = nil, nil
	cmd.ExtraFiles = []*os.File{outW}
	if err := cmd.Start(); err != nil {
		return nil, err
	}
	_ = inR.Close()
	_ = outW.Close()
	return &child{cmd: cmd, in: json.NewEncoder(inW), inW: inW, out: bufio.NewReaderSize(outR, 1<<16), outR: outR}, nil
}

func (c *child) call(cm command, timeout time.Duration) Event {
	if c.dead {
		return Event{Kind: "timeout", Err: "child is dead"}
	}
	if err := c.in.Encode(cm); err != nil {
		c.kill()
		return Event{Kind: "timeout", Err: "child write: " + err.Error()}
	}
	type res struct {
		ev  Event
		err error
	}
	ch := make(chan res, 1)
	go func() {
		line, err := c.out.ReadBytes('\n')
		var ev Event
		if err == nil {
			err = json.Unmarshal(line, &ev)
		}
		ch <- res{ev, err}
	}()
	select {
	case r := <-ch:
		if r.err != nil {
			c.kill()
			return Event{Kind: "timeout", Err: "child read: " + r.err.Error()}
		}
		return r.ev
	case <-time.After(timeout):
		c.kill()
		return Event{Kind: "timeout", Err: "child did not answer"}
	}
}

func (c *child) kill() {
	if c.dead {
		return
	}
	c.dead = true
	_ = c.inW.Close()
	_ = c.cmd.Process.Kill()
	_, _ = c.cmd.Process.Wait()
	_ = c.outR.Close()
}

// pool of children, slot i serves contender i.
var pool struct {
	sync.Mutex
	kids []*child
}

func poolGet(i int) (*child, error) {
	pool.Lock()
	defer pool.Unlock()
	for len(pool.kids) <= i {
		pool.kids = append(pool.kids, nil)
	}
	if pool.kids[i] == nil || pool.kids[i].dead {
		k, err := spawnChild()
		if err != nil {
			return nil, err
		}
		pool.kids[i] = k
	}
	return pool.kids[i], nil
}

func poolClose() {
	pool.Lock()
	defer pool.Unlock()
	for _, k := range pool.kids {
		if k != nil {
			k.kill()
		}
	}
	pool.kids = nil
}

// remote is the driver of a contender living in a child process.
type remote struct{ c *child }

func newRemote(i int, kind, dir string) (*remote, error) {
	c, err := poolGet(i)
	if err != nil {
		return nil, err
	}
	if ev := c.call(command{Cmd: "new", Kind: kind, Dir: dir}, opTimeout); ev.Kind != "done" || !ev.OK {
		return nil, fmt.Errorf("child new: %+v", ev)
	}
	return &remote{c}, nil
}

func (r *remote) Start(op string, cyc Cycle) Event {
	return r.c.call(command{Cmd: "start", Op: op, Cyc: cyc}, opTimeout+5*time.Second)
}

func (r *remote) Resume(abort bool) Event {
	return r.c.call(command{Cmd: "resume", Abort: abort}, opTimeout+5*time.Second)
}

func jsonUnmarshal(s string, v any) error { return json.Unmarshal([]byte(s), v) }
