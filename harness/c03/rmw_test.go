package c03

// Spec "rmw": read-modify-write transactions under a harness-owned schedule.
//
// The history spec drives all transactions from one goroutine, so nothing is ever
// preempted INSIDE Begin (between choosing the read timestamp and registering it with the
// read watermark) or inside Commit (between the conflict check and the write).  Here 2-4
// workers run scripts of read-modify-write transactions on 1-2 counters, read-only
// transactions that begin and end, and writes to unrelated keys; the cooperative scheduler
// (internal/sched) parks them at the engine's verif yield points (orc.readTs.*,
// orc.commitTs.afterAlloc, txn.commit.beforeSend, orc.doneCommit) and releases one at a
// time following a generated choice sequence.
//
// Oracle (conservation, the serializability consequence the property names): every
// successful read-modify-write commit adds exactly its delta to the value it READ, so at
// the end counter = sum of the deltas of the transactions whose Commit returned nil.  A
// smaller or larger value means two transactions that read the same version both
// committed (a conflict was missed).  ErrConflict answers are fine (not counted).

import (
	"encoding/binary"
	"errors"
	"fmt"
	"strings"
	"time"

	NoKV "github.com/feichai0017/NoKV"
	"github.com/feichai0017/NoKV/utils"
	"nokvverif/internal/eng"
	"nokvverif/internal/pbt"
	"nokvverif/internal/sched"
	"pgregory.net/rapid"
)

type rmwOp struct {
	K     string // rmw | ro (read-only begin+get+discard) | other (write an unrelated key) | edge (write whose size is at the batch limit)
	Ctr   int
	Delta int
	Size  int `json:",omitempty"` // edge: value size
}

type rmwCase struct {
	Engine  string
	Ctrs    int
	Workers [][]rmwOp
	Sched   []int
	// SmallBatch: MaxBatchSize 4096, and "edge" operations write values of 3900..4100 bytes: some
	// pass the transaction's own size check and are refused when the batch is handed to the write
	// pipeline, i.e. AFTER their commit timestamp was assigned.
	SmallBatch bool `json:",omitempty"`
}

func genRMW(t *rapid.T) rmwCase {
	c := rmwCase{Engine: rapid.SampledFrom([]string{"skiplist", "art"}).Draw(t, "engine"), Ctrs: rapid.IntRange(1, 2).Draw(t, "ctrs")}
	nw := rapid.IntRange(2, 4).Draw(t, "workers")
	c.SmallBatch = rapid.Bool().Draw(t, "smallBatch")
	kinds := []string{"rmw", "rmw", "rmw", "ro", "other"}
	if c.SmallBatch {
		kinds = []string{"rmw", "rmw", "rmw", "ro", "other", "edge", "edge"}
	}
	for w := 0; w < nw; w++ {
		n := rapid.IntRange(1, 4).Draw(t, "nops")
		var ops []rmwOp
		for i := 0; i < n; i++ {
			k := rapid.SampledFrom(kinds).Draw(t, "k")
			op := rmwOp{K: k, Ctr: rapid.IntRange(0, c.Ctrs-1).Draw(t, "ctr"), Delta: rapid.IntRange(1, 9).Draw(t, "delta")}
			if k == "edge" {
				op.Size = rapid.IntRange(3900, 4100).Draw(t, "edgeSize")
			}
			ops = append(ops, op)
		}
		c.Workers = append(c.Workers, ops)
	}
	// long runs of one worker with switches in between: a worker is parked for a long time while others finish whole transactions
	nb := rapid.IntRange(1, 12).Draw(t, "bursts")
	for b := 0; b < nb; b++ {
		who := rapid.IntRange(0, 3).Draw(t, "who")
		ln := rapid.IntRange(1, 14).Draw(t, "len")
		for i := 0; i < ln; i++ {
			c.Sched = append(c.Sched, who)
		}
	}
	return c
}

func rmwKey(i int) []byte { return []byte(fmt.Sprintf("ctr-%d", i)) }

// runRMW retries a case whose scheduler run ended in a harness problem (overloaded machine);
// only a problem that shows in three executions from scratch is reported (as inconclusive).
func runRMW(c rmwCase, r *pbt.Rec) error {
	var err error
	for attempt := 0; attempt < 3; attempt++ {
		err = runRMWOnce(c, r)
		var f *pbt.Fail
		if err == nil || !errors.As(err, &f) || f.Sig != "harness" {
			return err
		}
		r.Label("harness-retry")
	}
	return err
}

func runRMWOnce(c rmwCase, r *pbt.Rec) error {
	if len(c.Workers) == 0 || c.Ctrs <= 0 {
		return nil
	}
	cfg := eng.Cfg{Engine: c.Engine, ValueThreshold: 1 << 20, Buckets: 1, MemTableSize: 8 << 20, L0Tables: 1000, DetectConflicts: true}
	if c.SmallBatch {
		cfg.MaxBatchSize = 4096
	}
	dir, cleanup := pbt.TempDir("c03rmw")
	defer cleanup()
	db, err := eng.Open(cfg, dir, nil)
	if err != nil {
		return fmt.Errorf("harness: open: %v", err)
	}
	defer func() { _ = eng.Close(db) }()
	for i := 0; i < c.Ctrs; i++ {
		if e := db.Update(func(tx *NoKV.Txn) error { return tx.Set(rmwKey(i), enc(0)) }); e != nil {
			return fmt.Errorf("harness: init: %v", e)
		}
	}
	sums := make([]int64, c.Ctrs)
	oks := make([]int, c.Ctrs)
	conflicts := 0
	var werr error
	script := func(id int, ops []rmwOp) func(w *sched.Worker) {
		return func(w *sched.Worker) {
			for j, op := range ops {
				w.Yield("op")
				switch op.K {
				case "ro":
					tx := db.NewTransaction(false)
					_, _ = tx.Get(rmwKey(op.Ctr))
					w.Yield("ro.open")
					tx.Discard()
				case "edge":
					// any error is fine here (too big at Set, or refused at send); it must not disturb the others
					tx := db.NewTransaction(true)
					if e := tx.Set([]byte(fmt.Sprintf("edge-%d-%d", id, j)), make([]byte, op.Size)); e != nil {
						tx.Discard()
						r.Label("edge:refused-at-set")
						continue
					}
					if e := tx.Commit(); e != nil {
						r.Label("edge:refused-at-commit")
					} else {
						r.Label("edge:committed")
					}
				case "other":
					e := db.Update(func(tx *NoKV.Txn) error { return tx.Set([]byte(fmt.Sprintf("other-%d-%d", id, j)), enc(int64(j))) })
					if e != nil && !errors.Is(e, utils.ErrConflict) && werr == nil {
						werr = fmt.Errorf("worker %d op %d (other): %v", id, j, e)
					}
				case "rmw":
					tx := db.NewTransaction(true)
					it, e := tx.Get(rmwKey(op.Ctr))
					if e != nil {
						tx.Discard()
						if werr == nil {
							werr = fmt.Errorf("worker %d op %d: Get: %v", id, j, e)
						}
						continue
					}
					v, _ := it.ValueCopy(nil)
					cur := dec(v)
					w.Yield("rmw.read")
					if e := tx.Set(rmwKey(op.Ctr), enc(cur+int64(op.Delta))); e != nil {
						tx.Discard()
						if werr == nil {
							werr = fmt.Errorf("worker %d op %d: Set: %v", id, j, e)
						}
						continue
					}
					switch e := tx.Commit(); {
					case e == nil:
						sums[op.Ctr] += int64(op.Delta)
						oks[op.Ctr]++
					case errors.Is(e, utils.ErrConflict):
						conflicts++
					default:
						if werr == nil {
							werr = fmt.Errorf("worker %d op %d: Commit: %v", id, j, e)
						}
					}
				}
			}
		}
	}
	parkedInBegin := false
	s := sched.New(sched.Config{
		Choices: c.Sched,
		Filter: func(label string) bool {
			return strings.HasPrefix(label, "orc.") || label == "txn.commit.beforeSend"
		},
		AfterStep: func(st sched.Step) error {
			if strings.HasPrefix(st.To, "orc.readTs") {
				parkedInBegin = true
			}
			if strings.HasPrefix(st.To, "orc.") || strings.HasPrefix(st.To, "txn.") {
				r.Label("park:" + st.To)
			}
			return nil
		},
		MaxSteps:    5000,
		HangTimeout: 15 * time.Second,
	})
	for i, ops := range c.Workers {
		s.Go(fmt.Sprintf("w%d", i), script(i, ops))
	}
	utils.SetVerifYield(s.Yield)
	res := s.Run()
	utils.SetVerifYield(nil)
	if res.Err != nil {
		return pbt.Failf("harness", "scheduler: %v (trace %s)", res.Err, res.TraceString())
	}
	if len(res.Panics) > 0 {
		return pbt.Failf("panic", "worker panicked: %s", res.Panics[0])
	}
	if res.Hung {
		return pbt.Failf("hang", "workers never finished: %v (trace %s)", res.HungAt, res.TraceString())
	}
	if werr != nil {
		return pbt.Failf("unexpected-error", "%v", werr)
	}
	for i := 0; i < c.Ctrs; i++ {
		var got int64
		e := db.View(func(tx *NoKV.Txn) error {
			it, ge := tx.Get(rmwKey(i))
			if ge != nil {
				return ge
			}
			v, _ := it.ValueCopy(nil)
			got = dec(v)
			return nil
		})
		if e != nil {
			return pbt.Failf("unreadable", "final read of counter %d: %v", i, e)
		}
		if got != sums[i] {
			return pbt.Failf("lost-update", "counter %d = %d after %d successful read-modify-write commits whose deltas add up to %d (difference %+d): two transactions that read the same version both committed, i.e. a conflict was missed; schedule: %s",
				i, got, oks[i], sums[i], got-sums[i], res.TraceString())
		}
	}
	if conflicts > 0 {
		r.Label("rmw:conflict-reported")
	}
	total := 0
	for _, n := range oks {
		total += n
	}
	if parkedInBegin && total >= 2 {
		r.NT() // somebody was parked inside Begin while at least two read-modify-writes committed
	}
	return nil
}

func enc(v int64) []byte { return binary.BigEndian.AppendUint64(nil, uint64(v)) }
func dec(b []byte) int64 {
	if len(b) != 8 {
		return -1
	}
	return int64(binary.BigEndian.Uint64(b))
}
