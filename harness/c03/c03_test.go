// C03 — committed transactions are serializable and read their snapshot.
// Shared transactional state machine (internal/txm) with conflict detection on:
// up to 4 interleaved transactions driven by one goroutine over <=5 keys.
package c03

import (
	"testing"

	"nokvverif/internal/pbt"
	"nokvverif/internal/txm"
	"pgregory.net/rapid"
)

func TestMain(m *testing.M) { pbt.RunMain(m) }

var profile = txm.Profile{
	Name:       "c03",
	OpKinds:    []string{"begin", "get", "get", "get", "get", "set", "set", "set", "del", "iter", "commit", "commit", "commit", "commit", "discard", "maint"},
	MaintKinds: []string{"rotate", "rotate", "drain", "drain", "once", "rewrite"},
	ValueSizes: []int{0, 1, 8, 33, 100, 1000},
	MaxOps:     60,
	MaxKeys:    5,
	Conflicts:  true,
}

func gen(t *rapid.T) txm.Case { return txm.Gen(t, profile) }

func TestCheck(t *testing.T) {
	s := &pbt.Suite{ID: "C03", Level: "exploration",
		Rule: "rapid-generated histories (5..60 steps) interleaving up to 4 open transactions (begin update/read-only, Get, Set with optional expiry, Delete, iterator scripts, Commit, Discard) over <=5 keys with DetectConflicts=true, with maintenance steps (flush, compaction, value-log rewrite) in between; one goroutine drives all transactions so commit order = order of successful Commit returns. Oracle: MVCC model (list of committed write sets); every Get/iterator result must equal model@begin ⊕ own pending writes, also re-read after every maintenance step (repeatable read); Commit must return ErrConflict when a key the transaction read from the database (Get hit or miss, iterator yield, seek target) was written by a transaction that committed after its snapshot — which is exactly the condition under which the serial replay in commit order would not reproduce its reads. Spurious conflicts are allowed and counted. Second spec (rmw): 2-4 workers run read-modify-write transactions on 1-2 counters, read-only transactions and unrelated writes under the cooperative scheduler, parked at the engine's yield points inside Begin (orc.readTs.*) and Commit (orc.commitTs.afterAlloc, txn.commit.beforeSend, orc.doneCommit); the final counter must equal the sum of the deltas of the commits that returned nil. Non-trivial = history with at least one required conflict that was reported and at least one successful commit that overlapped another commit; distinct by case content.",
		Assumptions: []string{"single driver goroutine: thread interleavings of begin/commit are the subject of C05",
			"range phantoms (a key not yielded because it did not exist) are outside the stated rule and not part of the read set",
			"while C32-atmark is open, transactions that begin at or below the read watermark are exempt from the must-conflict rule (counted as excluded)"},
	}
	pbt.Add(s, &pbt.Spec[txm.Case]{Name: "history", Gen: gen, Run: txm.Run, Quick: 400, Thorough: 30000, Shards: 16})
	// read-modify-write transactions preempted inside Begin/Commit by a harness-owned schedule (rmw_test.go)
	pbt.Add(s, &pbt.Spec[rmwCase]{Name: "rmw", Gen: genRMW, Run: runRMW, Quick: 1500, Thorough: 60000, Shards: 8})
	s.Main(t)
}
