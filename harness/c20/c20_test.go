// C20 — key latches exclude overlapping requests without deadlock.
//
// Real code: percolator/latch.Manager.Acquire / Guard.Release.
//
// Two specs share one oracle:
//   - sched: the harness owns the order in which workers call Acquire and the moment
//     each holder releases (a drawn step list); Acquire runs in a goroutine because it
//     may block, Release is called by the harness itself.
//   - free:  2-6 workers run their request lists for several rounds behind a start
//     barrier on real threads.
//
// Oracle (harness log under a harness mutex): a worker logs "enter" AFTER Acquire
// returned and "exit" BEFORE it calls Release, so a logged interval lies inside the
// real hold interval.  Two logged intervals of different workers whose key sets share a
// NON-EMPTY key must never overlap.  Every worker finishes within a bounded wait (a
// timeout is re-run once; only a reproduced timeout is a violation).  Releasing a guard
// twice - immediately, or later while somebody else holds the same key - neither panics
// nor lets a third request in.
//
// Key bytes are not part of a case: kv.MemHash is seeded per process, so a case stores
// key ROLES (stripe class, variant inside the class, empty) and concrete bytes with the
// wanted stripe are searched at run time.
package c20

import (
	"encoding/json"
	"fmt"
	"os"
	"runtime"
	"sort"
	"strings"
	"sync"
	"testing"
	"time"

	"github.com/feichai0017/NoKV/kv"
	"github.com/feichai0017/NoKV/percolator/latch"
	"nokvverif/internal/pbt"
	"pgregory.net/rapid"
)

func TestMain(m *testing.M) { pbt.RunMain(m) }

// KeySpec is the role of one key of a request.
type KeySpec struct {
	Class int  // keys of one class hash to one stripe; different classes (< stripes) to different stripes
	Var   int  // same (Class,Var) = same bytes; another Var = a different key colliding on the stripe
	Empty bool // zero-length key (Var even: nil, odd: empty non-nil slice); skipped by the latch by design
}

type Request struct {
	Keys   []KeySpec
	Twice  bool // Release is called twice back to back
	Again  bool // free mode: while holding this request, Release the previous (already released) guard again
	Yields int  // free mode: runtime.Gosched calls inside the critical section
}

// Step of the sched mode.  Act 0: advance worker W (idle -> call Acquire; holding ->
// Release; still blocked -> nothing).  Act 1: call Release once more on the guard W
// released last (late double release).
type Step struct {
	W   int
	Act int
}

type Case struct {
	Stripes int // argument of latch.NewManager (<= 0 selects the default 256)
	Workers [][]Request
	Steps   []Step // sched mode
	Rounds  int    // free mode: each worker runs its request list this many times (0 = sched mode)
}

func effStripes(n int) int {
	if n <= 0 {
		return 256
	}
	return n
}

// ---- key resolution (per process: MemHash seed is per process)

var keyCache sync.Map // "S/class/var" -> []byte

func stripeOf(b []byte, s int) int { return int(kv.MemHash(b) % uint64(s)) }

func resolve(k KeySpec, s int) []byte {
	if k.Empty {
		if k.Var%2 == 0 {
			return nil
		}
		return []byte{}
	}
	id := fmt.Sprintf("%d/%d/%d", s, k.Class, k.Var)
	if v, ok := keyCache.Load(id); ok {
		return v.([]byte)
	}
	target := k.Class % s
	for n := 0; ; n++ {
		var b []byte
		switch k.Var % 3 { // a few byte shapes: text, binary with NUL, long
		case 0:
			b = []byte(fmt.Sprintf("k%d.%d.%d", k.Class, k.Var, n))
		case 1:
			b = []byte(fmt.Sprintf("\x00%d\xff%d\x00%d", k.Class, k.Var, n))
		default:
			b = []byte(strings.Repeat("x", 40) + fmt.Sprintf("%d.%d.%d", k.Class, k.Var, n))
		}
		if stripeOf(b, s) == target {
			keyCache.Store(id, b)
			return b
		}
		if n > 1<<22 {
			panic("c20: no key found for stripe class (harness)")
		}
	}
}

type resolved struct {
	keys    [][]byte        // what is passed to Acquire
	set     map[string]bool // non-empty keys
	stripes map[int]bool    // stripes of the non-empty keys (scheduling aid only, never an oracle)
}

func resolveReq(rq Request, s int) resolved {
	out := resolved{set: map[string]bool{}, stripes: map[int]bool{}}
	for _, k := range rq.Keys {
		b := resolve(k, s)
		out.keys = append(out.keys, b)
		if len(b) > 0 {
			out.set[string(b)] = true
			out.stripes[stripeOf(b, s)] = true
		}
	}
	return out
}

// ---- harness log

type section struct {
	w, req int
	set    map[string]bool
}

type hlog struct {
	mu     sync.Mutex
	inside []*section
	viol   string
	enters int
}

func (h *hlog) enter(s *section) {
	h.mu.Lock()
	defer h.mu.Unlock()
	h.enters++
	for _, o := range h.inside {
		if o.w == s.w {
			continue
		}
		for k := range s.set {
			if o.set[k] && h.viol == "" {
				h.viol = fmt.Sprintf("worker %d request %d entered its critical section while worker %d request %d was still inside; shared key %q",
					s.w, s.req, o.w, o.req, k)
			}
		}
	}
	h.inside = append(h.inside, s)
}

func (h *hlog) exit(s *section) {
	h.mu.Lock()
	defer h.mu.Unlock()
	for i, o := range h.inside {
		if o == s {
			h.inside = append(h.inside[:i], h.inside[i+1:]...)
			return
		}
	}
}

func (h *hlog) violation() string {
	h.mu.Lock()
	defer h.mu.Unlock()
	return h.viol
}

// boundedWait is how long a worker may stay blocked although nothing should block it.
func boundedWait() time.Duration {
	if pbt.Tier() == "thorough" {
		return 30 * time.Second
	}
	return 5 * time.Second
}

// grace lets goroutines that are expected to block inside Acquire reach the mutex they
// will wait on before the harness takes its next step (their progress cannot be observed).
func grace() {
	for i := 0; i < 12; i++ {
		runtime.Gosched()
	}
}

// ---- sched mode

const (
	stIdle = iota
	stPending
	stHolding
)

type arrival struct {
	w     int
	g     *latch.Guard
	sec   *section
	panic string
}

type sworker struct {
	reqs     []resolved
	spec     []Request
	next     int
	state    int
	guard    *latch.Guard
	sec      *section
	released *latch.Guard
}

type schedRun struct {
	mgr   *latch.Manager
	ws    []*sworker
	log   *hlog
	arr   chan arrival
	fail  string // panic text
	stuck string
	r     *pbt.Rec
}

func (s *schedRun) launch(wi int) {
	w := s.ws[wi]
	rq := w.reqs[w.next]
	sec := &section{w: wi, req: w.next, set: rq.set}
	w.state = stPending
	go func() {
		defer func() {
			if p := recover(); p != nil {
				s.arr <- arrival{w: wi, panic: fmt.Sprint(p)}
			}
		}()
		g := s.mgr.Acquire(rq.keys)
		s.log.enter(sec)
		s.arr <- arrival{w: wi, g: g, sec: sec}
	}()
}

func (s *schedRun) take(a arrival) {
	w := s.ws[a.w]
	if a.panic != "" {
		if s.fail == "" {
			s.fail = fmt.Sprintf("Acquire of worker %d panicked: %s", a.w, a.panic)
		}
		w.state = stIdle
		w.next = len(w.reqs) // give up on this worker
		return
	}
	w.state, w.guard, w.sec = stHolding, a.g, a.sec
}

func (s *schedRun) release(wi int) {
	w := s.ws[wi]
	s.log.exit(w.sec)
	func() {
		defer func() {
			if p := recover(); p != nil && s.fail == "" {
				s.fail = fmt.Sprintf("Release of worker %d panicked: %v", wi, p)
			}
		}()
		w.guard.Release()
		if w.spec[w.next].Twice {
			w.guard.Release()
		}
	}()
	w.released = w.guard
	w.guard, w.sec = nil, nil
	w.state = stIdle
	w.next++
}

// blockers returns whether pending worker wi shares a stripe with a holder (surely
// blocked), or with another pending worker (maybe blocked: that one may own part of its
// stripes already).  Scheduling aid only.
func (s *schedRun) blockers(wi int) (sure, maybe bool) {
	want := s.ws[wi].reqs[s.ws[wi].next].stripes
	for j, o := range s.ws {
		if j == wi || o.next >= len(o.reqs) {
			continue
		}
		if o.state == stIdle {
			continue
		}
		for st := range o.reqs[o.next].stripes {
			if want[st] {
				if o.state == stHolding {
					sure = true
				} else {
					maybe = true
				}
			}
		}
	}
	return
}

// settle waits for the arrivals that must or may happen now.
func (s *schedRun) settle() {
	soft := time.Now().Add(2 * time.Millisecond)
	hard := time.Now().Add(boundedWait())
	for {
		for more := true; more; {
			select {
			case a := <-s.arr:
				s.take(a)
			default:
				more = false
			}
		}
		free, maybe := -1, false
		for i, w := range s.ws {
			if w.state != stPending {
				continue
			}
			sure, mb := s.blockers(i)
			switch {
			case sure:
			case mb:
				maybe = true
			default:
				free = i
			}
		}
		var wait time.Duration
		switch {
		case free >= 0:
			wait = time.Until(hard)
		case maybe:
			wait = time.Until(soft)
		default:
			for _, w := range s.ws {
				if w.state == stPending {
					grace()
					break
				}
			}
			return
		}
		if wait <= 0 {
			if free >= 0 {
				s.stuck = fmt.Sprintf("worker %d: Acquire did not return within %v although no holder or waiter shares a stripe with it", free, boundedWait())
			}
			return
		}
		select {
		case a := <-s.arr:
			s.take(a)
		case <-time.After(wait):
		}
	}
}

func runSched(c Case, r *pbt.Rec) (fail *pbt.Fail, timedOut bool) {
	S := effStripes(c.Stripes)
	s := &schedRun{mgr: latch.NewManager(c.Stripes), log: &hlog{}, arr: make(chan arrival, len(c.Workers)+1), r: r}
	for _, reqs := range c.Workers {
		w := &sworker{spec: reqs}
		for _, rq := range reqs {
			w.reqs = append(w.reqs, resolveReq(rq, S))
		}
		s.ws = append(s.ws, w)
	}
	for _, st := range c.Steps {
		if st.W < 0 || st.W >= len(s.ws) {
			continue
		}
		w := s.ws[st.W]
		if st.Act == 1 {
			if w.released != nil {
				r.Label("late-rerelease")
				for _, o := range s.ws {
					if o.state == stHolding {
						r.Label("late-rerelease-while-other-holds")
						break
					}
				}
				func() {
					defer func() {
						if p := recover(); p != nil && s.fail == "" {
							s.fail = fmt.Sprintf("second Release of worker %d panicked: %v", st.W, p)
						}
					}()
					w.released.Release()
				}()
			}
			continue
		}
		switch {
		case w.state == stIdle && w.next < len(w.reqs):
			s.launch(st.W)
			if sure, _ := s.blockers(st.W); sure {
				r.Label("acquire-while-conflicting-holder")
			}
		case w.state == stHolding:
			s.release(st.W)
		}
		s.settle()
		if s.stuck != "" {
			return nil, true
		}
	}
	// drain: release holders as they arrive until every worker has run all its requests
	for {
		s.settle()
		if s.stuck != "" {
			return nil, true
		}
		progressed, remaining := false, false
		for i, w := range s.ws {
			if w.state == stHolding {
				s.release(i)
				progressed = true
			}
		}
		for i, w := range s.ws {
			if w.state == stIdle && w.next < len(w.reqs) {
				s.launch(i)
				progressed = true
			}
			if w.state != stIdle || w.next < len(w.reqs) {
				remaining = true
			}
		}
		if !remaining {
			break
		}
		if !progressed {
			// only waiters and no holder: somebody must get through
			select {
			case a := <-s.arr:
				s.take(a)
			case <-time.After(boundedWait()):
				var p []string
				for i, w := range s.ws {
					if w.state == stPending {
						p = append(p, fmt.Sprint(i))
					}
				}
				s.stuck = fmt.Sprintf("workers %s still blocked in Acquire %v after every holder released", strings.Join(p, ","), boundedWait())
				return nil, true
			}
		}
	}
	r.LabelN("sections", s.log.enters)
	if s.fail != "" {
		return &pbt.Fail{Sig: "panic", Msg: s.fail}, false
	}
	if v := s.log.violation(); v != "" {
		return &pbt.Fail{Sig: "overlap", Msg: v}, false
	}
	return nil, false
}

// ---- free mode

func runFree(c Case, r *pbt.Rec) (fail *pbt.Fail, timedOut bool) {
	S := effStripes(c.Stripes)
	mgr := latch.NewManager(c.Stripes)
	log := &hlog{}
	var wg sync.WaitGroup
	start := make(chan struct{})
	var pmu sync.Mutex
	var pmsg string
	for wi, reqs := range c.Workers {
		var rs []resolved
		for _, rq := range reqs {
			rs = append(rs, resolveReq(rq, S))
		}
		wg.Add(1)
		go func(wi int, reqs []Request, rs []resolved) {
			defer wg.Done()
			defer func() {
				if p := recover(); p != nil {
					pmu.Lock()
					if pmsg == "" {
						pmsg = fmt.Sprintf("worker %d panicked: %v", wi, p)
					}
					pmu.Unlock()
				}
			}()
			<-start
			var prev *latch.Guard
			for round := 0; round < c.Rounds; round++ {
				for ri, rq := range reqs {
					sec := &section{w: wi, req: ri, set: rs[ri].set}
					g := mgr.Acquire(rs[ri].keys)
					log.enter(sec)
					if rq.Again && prev != nil {
						prev.Release()
					}
					for y := 0; y < rq.Yields; y++ {
						runtime.Gosched()
					}
					log.exit(sec)
					g.Release()
					if rq.Twice {
						g.Release()
					}
					prev = g
				}
			}
		}(wi, reqs, rs)
	}
	done := make(chan struct{})
	go func() { wg.Wait(); close(done) }()
	close(start)
	select {
	case <-done:
	case <-time.After(boundedWait()):
		return nil, true
	}
	r.LabelN("sections", log.enters)
	if pmsg != "" {
		return &pbt.Fail{Sig: "panic", Msg: pmsg}, false
	}
	if v := log.violation(); v != "" {
		return &pbt.Fail{Sig: "overlap", Msg: v}, false
	}
	return nil, false
}

// ---- classification (labels / non-trivial rule), static on the case

func classify(c Case, r *pbt.Rec) {
	S := effStripes(c.Stripes)
	r.Label(fmt.Sprintf("stripes=%d", S))
	r.Label(fmt.Sprintf("workers=%d", len(c.Workers)))
	type flat struct {
		w    int
		keys []KeySpec
	}
	var all []flat
	for wi, reqs := range c.Workers {
		for _, rq := range reqs {
			all = append(all, flat{wi, rq.Keys})
			seen := map[[2]int]bool{}
			classes := map[int]int{}
			nonEmpty, empty, dup := 0, 0, false
			for _, k := range rq.Keys {
				if k.Empty {
					empty++
					continue
				}
				nonEmpty++
				id := [2]int{k.Class, k.Var}
				if seen[id] {
					dup = true
				} else {
					classes[k.Class%S]++
				}
				seen[id] = true
			}
			for _, n := range classes {
				if n > 1 {
					r.Label("request-with-colliding-keys")
					break
				}
			}
			if dup {
				r.Label("request-with-duplicate-key")
			}
			if empty > 0 {
				r.Label("request-with-empty-key")
			}
			if nonEmpty == 0 {
				r.Label("request-locking-nothing")
			}
			if rq.Twice {
				r.Label("double-release")
			}
			if rq.Again && c.Rounds > 0 {
				r.Label("rerelease-while-holding-next")
			}
		}
	}
	shared, collideAcross, opposite := false, false, false
	for i, a := range all {
		for _, b := range all[i+1:] {
			if a.w == b.w {
				continue
			}
			pos := func(ks []KeySpec) map[[2]int]int {
				m := map[[2]int]int{}
				for i, k := range ks {
					if !k.Empty {
						if _, ok := m[[2]int{k.Class, k.Var}]; !ok {
							m[[2]int{k.Class, k.Var}] = i
						}
					}
				}
				return m
			}
			pa, pb := pos(a.keys), pos(b.keys)
			var common [][2]int
			for k := range pa {
				if _, ok := pb[k]; ok {
					common = append(common, k)
				}
			}
			sort.Slice(common, func(i, j int) bool {
				if common[i][0] != common[j][0] {
					return common[i][0] < common[j][0]
				}
				return common[i][1] < common[j][1]
			})
			if len(common) > 0 {
				shared = true
			}
			for ka := range pa {
				for kb := range pb {
					if ka != kb && ka[0]%S == kb[0]%S {
						collideAcross = true
					}
				}
			}
			for x := 0; x < len(common); x++ {
				for y := x + 1; y < len(common); y++ {
					kx, ky := common[x], common[y]
					if kx[0]%S == ky[0]%S {
						continue // same stripe: order is irrelevant
					}
					if (pa[kx] < pa[ky]) != (pb[kx] < pb[ky]) {
						opposite = true
					}
				}
			}
		}
	}
	if shared {
		r.Label("workers-share-a-key")
	}
	if collideAcross {
		r.Label("different-keys-collide-across-workers")
	}
	if opposite {
		r.Label("opposite-key-order")
		r.NT()
	}
}

func run(c Case, r *pbt.Rec) error {
	if len(c.Workers) == 0 {
		return nil
	}
	classify(c, r)
	if isHand(c) {
		r.Label("hand-written-schedule")
	}
	once := func() (*pbt.Fail, bool) {
		if c.Rounds > 0 {
			return runFree(c, r)
		}
		return runSched(c, r)
	}
	f, to := once()
	if to {
		// A bounded wait expired.  One timeout alone is not a verdict: execute the same case
		// again (fresh manager, up to 20 times) and report only a second timeout.
		r.Label("timeout")
		for i := 0; i < 20; i++ {
			f2, to2 := once()
			if to2 {
				return pbt.Failf("stuck", "workers did not finish within %v in two executions of the case (%d re-runs): deadlock or lost wake-up", boundedWait(), i+1)
			}
			if f2 != nil {
				return f2
			}
		}
		fmt.Fprintln(os.Stderr, "c20: a bounded wait expired once and 20 re-runs of the case finished: inconclusive")
		return pbt.Failf("harness", "bounded wait of %v expired once, not reproduced in 20 re-runs (inconclusive)", boundedWait())
	}
	if f != nil {
		return f
	}
	return nil
}

// ---- generators

func genKey(t *rapid.T, S int) KeySpec {
	maxClass := S
	if maxClass > 4 {
		maxClass = 4
	}
	if rapid.IntRange(0, 9).Draw(t, "empty") == 0 {
		return KeySpec{Empty: true, Var: rapid.IntRange(0, 1).Draw(t, "ev")}
	}
	class := rapid.IntRange(0, maxClass-1).Draw(t, "class")
	if S > 64 {
		// stripe numbers that agree modulo a power of two (8, 32, 64, 128) but differ: any
		// shortcut that identifies stripes by fewer bits than the table has confuses them
		class += rapid.SampledFrom([]int{0, 0, 8, 32, 64, 64, 128, 192}).Draw(t, "classHi")
		class %= S
	}
	return KeySpec{Class: class, Var: rapid.IntRange(0, 2).Draw(t, "var")}
}

func genWorkers(t *rapid.T, S int, free bool) [][]Request {
	nw := rapid.IntRange(2, 6).Draw(t, "workers")
	// a small universe of keys so that requests overlap
	nu := rapid.IntRange(1, 5).Draw(t, "universe")
	uni := make([]KeySpec, nu)
	for i := range uni {
		uni[i] = genKey(t, S)
	}
	ws := make([][]Request, nw)
	for w := range ws {
		nr := rapid.IntRange(1, 3).Draw(t, "requests")
		for i := 0; i < nr; i++ {
			nk := rapid.IntRange(0, 5).Draw(t, "nkeys")
			rq := Request{}
			for k := 0; k < nk; k++ {
				rq.Keys = append(rq.Keys, uni[rapid.IntRange(0, nu-1).Draw(t, "pick")])
			}
			rq.Twice = rapid.IntRange(0, 3).Draw(t, "twice") == 0
			if free {
				rq.Again = rapid.IntRange(0, 3).Draw(t, "again") == 0
				rq.Yields = rapid.IntRange(0, 3).Draw(t, "yields")
			}
			ws[w] = append(ws[w], rq)
		}
	}
	return ws
}

var stripeChoices = []int{1, 2, 7, 3, 0, -5, 64, 0, 512, 512} // 512 = what raftstore/kv configures

// The hand-written schedules are mixed into the generated stream (about 1 case in 16)
// instead of being run by the parent process: a double unlock of a sync.Mutex is a fatal
// error that cannot be recovered, and only the sharded search survives a dying worker
// process and reports the case that killed it.
func genSched(t *rapid.T) Case {
	if rapid.IntRange(0, 15).Draw(t, "hand") == 0 {
		h := staticSched()
		return h[rapid.IntRange(0, len(h)-1).Draw(t, "handidx")]
	}
	c := Case{Stripes: rapid.SampledFrom(stripeChoices).Draw(t, "stripes")}
	c.Workers = genWorkers(t, effStripes(c.Stripes), false)
	total := 0
	for _, w := range c.Workers {
		total += len(w)
	}
	ns := rapid.IntRange(0, 3*total).Draw(t, "nsteps")
	for i := 0; i < ns; i++ {
		st := Step{W: rapid.IntRange(0, len(c.Workers)-1).Draw(t, "w")}
		if rapid.IntRange(0, 5).Draw(t, "act") == 0 {
			st.Act = 1
		}
		c.Steps = append(c.Steps, st)
	}
	return c
}

func genFree(t *rapid.T) Case {
	if rapid.IntRange(0, 15).Draw(t, "hand") == 0 {
		h := staticFree()
		return h[rapid.IntRange(0, len(h)-1).Draw(t, "handidx")]
	}
	c := Case{Stripes: rapid.SampledFrom(stripeChoices).Draw(t, "stripes")}
	c.Workers = genWorkers(t, effStripes(c.Stripes), true)
	c.Rounds = rapid.IntRange(1, 40).Draw(t, "rounds")
	return c
}

// ---- hand-written schedules (drawn by the generators, see genSched)

func k(class, v int) KeySpec { return KeySpec{Class: class, Var: v} }

func staticSched() []Case {
	a, a2, b, cc := k(0, 0), k(0, 1), k(1, 0), k(2, 0)
	e := KeySpec{Empty: true}
	adv := func(ws ...int) []Step {
		var s []Step
		for _, w := range ws {
			s = append(s, Step{W: w})
		}
		return s
	}
	var out []Case
	for _, S := range []int{1, 2, 7, 0} {
		// crossing orders behind two single-key holders: without ordered stripe locking
		// w2 and w3 each take one stripe and wait for the other
		out = append(out, Case{Stripes: S, Workers: [][]Request{
			{{Keys: []KeySpec{a}}}, {{Keys: []KeySpec{b}}},
			{{Keys: []KeySpec{b, a}}}, {{Keys: []KeySpec{a, b}}},
		}, Steps: adv(0, 1, 2, 3, 0, 1)})
		out = append(out, Case{Stripes: S, Workers: [][]Request{
			{{Keys: []KeySpec{a}}}, {{Keys: []KeySpec{b}}},
			{{Keys: []KeySpec{b, cc, a}}}, {{Keys: []KeySpec{a, cc, b}}},
		}, Steps: adv(0, 1, 2, 3, 1, 0)})
		// duplicates, colliding keys and empty keys inside one request
		out = append(out, Case{Stripes: S, Workers: [][]Request{
			{{Keys: []KeySpec{a, a, a2, e, a}}}, {{Keys: []KeySpec{a2, e, a2}}},
		}, Steps: adv(0, 1, 0)})
		// late second Release while another worker holds the same key; a third must wait
		out = append(out, Case{Stripes: S, Workers: [][]Request{
			{{Keys: []KeySpec{a, b}}}, {{Keys: []KeySpec{b, a}}}, {{Keys: []KeySpec{a}}, {Keys: []KeySpec{b}}},
		}, Steps: append(adv(0, 0, 1), Step{W: 0, Act: 1}, Step{W: 2}, Step{W: 0, Act: 1}, Step{W: 1}, Step{W: 2}, Step{W: 2})})
		// immediate double release, then reuse
		out = append(out, Case{Stripes: S, Workers: [][]Request{
			{{Keys: []KeySpec{a, b}, Twice: true}, {Keys: []KeySpec{b, a}, Twice: true}}, {{Keys: []KeySpec{b, a}, Twice: true}},
		}, Steps: adv(0, 1, 0, 0, 1, 0)})
		// requests that lock nothing
		out = append(out, Case{Stripes: S, Workers: [][]Request{
			{{Keys: nil, Twice: true}}, {{Keys: []KeySpec{e, {Empty: true, Var: 1}}, Twice: true}},
		}, Steps: append(adv(0, 1, 0, 1), Step{W: 0, Act: 1}, Step{W: 1, Act: 1})})
	}
	return out
}

func staticFree() []Case {
	a, b, cc, d := k(0, 0), k(1, 0), k(2, 0), k(3, 0)
	var out []Case
	for _, S := range []int{2, 7, 0} {
		out = append(out, Case{Stripes: S, Rounds: 200, Workers: [][]Request{
			{{Keys: []KeySpec{a, b, cc, d}}}, {{Keys: []KeySpec{d, cc, b, a}}},
			{{Keys: []KeySpec{b, d, a, cc}, Yields: 1}}, {{Keys: []KeySpec{cc, a, d, b}, Twice: true}},
		}})
	}
	return out
}

func isHand(c Case) bool {
	js, _ := json.Marshal(c)
	handOnce.Do(func() {
		for _, h := range append(staticSched(), staticFree()...) {
			b, _ := json.Marshal(h)
			handSet[string(b)] = true
		}
	})
	return handSet[string(js)]
}

var (
	handOnce sync.Once
	handSet  = map[string]bool{}
)

func TestCheck(t *testing.T) {
	s := &pbt.Suite{ID: "C20", Level: "exploration",
		Rule: "Cases store key ROLES (stripe class, variant, empty); concrete bytes with the wanted stripe are found by search over kv.MemHash at run time. " +
			"gen: stripes from {1,2,3,7,64,default 256 (0 and negative),512}; with more than 64 stripes key classes also land on stripes that agree modulo 8/32/64/128, 2-6 workers with 1-3 requests of 0-5 keys drawn from a 1-5 key universe (duplicates, empty keys, different keys colliding on one stripe), Release once or twice. " +
			"About 1 case in 16 is one of the hand-written schedules (crossing key orders behind two holders, duplicate/colliding/empty keys in one request, late second Release with a third waiter, requests locking nothing). " +
			"spec sched: a drawn step list decides who calls Acquire / Release / a late second Release next (Acquire in a goroutine, the harness waits until it returned or is known to wait), then drains. " +
			"spec free: the workers run their lists for 1-40 rounds on real threads behind a start barrier, optionally re-releasing the previous guard while holding the next. " +
			"Oracle: logged critical sections (enter after Acquire returned, exit before Release) of different workers sharing a non-empty key never overlap; every worker finishes within a bounded wait (5 s quick / 30 s thorough; a timeout counts only when one of up to 20 further executions of the same case times out as well); no panic. " +
			"Non-trivial = two requests of different workers share two keys lying on different stripes and list them in opposite order (the shape that deadlocks without ordered stripe locking); distinct by case content.",
		Assumptions: []string{
			"empty keys are skipped by the latch by design and no caller passes them as lockable keys: exclusion is asserted on non-empty keys only",
			"a Guard is used by one goroutine at a time (Release is documented safe to call repeatedly, not concurrently)",
			"real thread schedules: the free spec and the waiting points of the sched spec depend on the Go scheduler; a logged overlap is a definite violation, absence of one is evidence for the schedules that happened",
		},
	}
	pbt.Add(s, &pbt.Spec[Case]{Name: "sched", Gen: genSched, Run: run, Quick: 120000, Thorough: 3000000, Shards: 6, Nondet: true})
	pbt.Add(s, &pbt.Spec[Case]{Name: "free", Gen: genFree, Run: run, Quick: 60000, Thorough: 1200000, Shards: 6, Nondet: true})
	s.Main(t)
}
