package c34

import (
	"bytes"
	"fmt"
	"os"
	"os/exec"
	"path/filepath"
	"regexp"
	"strings"

	"nokvverif/internal/pbt"
)

// RaceCase re-runs the search phase of this check in a child `go test -race` process
// (thorough tier only).
type RaceCase struct {
	Cases int   `json:"cases"`
	Seed  int64 `json:"seed"`
}

func raceCases() []RaceCase {
	return []RaceCase{{Cases: 1200, Seed: pbt.Seed()*7 + 1}, {Cases: 1200, Seed: pbt.Seed()*7 + 2}}
}

var childViolation = regexp.MustCompile(`(?m)^VIOLATION property=\S+ replay=(\S+)`)

// runRace runs the quick search of this check once more, built with -race.
func runRace(c RaceCase, r *pbt.Rec) error {
	tmp, clean := pbt.TempDir("c34race")
	defer clean()
	args := []string{"test"}
	if mf := os.Getenv("VERIF_MODFLAG"); mf != "" {
		args = append(args, strings.Fields(mf)...)
	}
	args = append(args, "-race", "-tags", "verif", "-count=1", "-timeout", "25m", "-run", "^TestCheck$", "-v", ".")
	cmd := exec.Command("go", args...)
	cmd.Dir = "."
	env := []string{}
	for _, e := range os.Environ() {
		if strings.HasPrefix(e, "VERIF_CHILD=") || strings.HasPrefix(e, "VERIF_REPLAY=") || strings.HasPrefix(e, "VERIF_TIER=") ||
			strings.HasPrefix(e, "VERIF_CASES=") || strings.HasPrefix(e, "VERIF_SEED=") || strings.HasPrefix(e, "VERIF_SPEC=") || strings.HasPrefix(e, "VERIF_EVIDENCE=") {
			continue
		}
		env = append(env, e)
	}
	env = append(env, "VERIF_TIER=quick", fmt.Sprintf("VERIF_CASES=%d", c.Cases), fmt.Sprintf("VERIF_SEED=%d", c.Seed),
		"VERIF_SPEC=hist", "VERIF_EVIDENCE="+tmp+"/evidence.json", "VERIF_MAXSHARDS=4", "GORACE=halt_on_error=0 log_path="+tmp+"/race")
	cmd.Env = env
	var buf bytes.Buffer
	cmd.Stdout, cmd.Stderr = &buf, &buf
	err := cmd.Run()
	out := buf.String()
	r.Label("race-child")
	if logs, _ := filepath.Glob(tmp + "/race.*"); len(logs) > 0 {
		for _, lf := range logs {
			if b, rerr := os.ReadFile(lf); rerr == nil {
				out += "\n" + string(b)
			}
		}
	}
	if i := strings.Index(out, "WARNING: DATA RACE"); i >= 0 {
		end := i + 6000
		if end > len(out) {
			end = len(out)
		}
		return pbt.Failf("data-race", "race detector report while running %d C34 histories under -race:\n%s", c.Cases, out[i:end])
	}
	if m := childViolation.FindStringSubmatch(out); m != nil {
		return pbt.Failf("race-child-violation", "the -race run of the check reported a violation (replay %s):\n%s", m[1], tail(out, 60))
	}
	if !strings.Contains(out, "SUMMARY property=C34") {
		return pbt.Failf("harness", "race child did not complete (%v):\n%s", err, tail(out, 40))
	}
	r.NT()
	return nil
}

func tail(s string, n int) string {
	l := strings.Split(strings.TrimRight(s, "\n"), "\n")
	if len(l) > n {
		l = l[len(l)-n:]
	}
	return strings.Join(l, "\n")
}
