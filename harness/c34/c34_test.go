// C34 — concurrent plain writes and reads are linearizable.
//
// 3–6 free-running goroutines issue SetCF/DelCF/GetCF on 2–3 registers (cf,key) of
// a real DB with batch coalescing, hot-key throttling, L0 write throttling toggled,
// memtable rotation/flush, value-log traffic (and optionally value-log GC and a
// racing Close).  Every call is recorded as (call, return, op, result) with a
// monotonic clock; the oracle is porcupine's register model per key where a write
// that returned an error is a no-op whose unique value must never be observed.
// See FINDINGS.md.
package c34

import (
	"fmt"
	"testing"
	"time"

	"nokvverif/internal/pbt"
	"pgregory.net/rapid"
)

func TestMain(m *testing.M) { pbt.RunMain(m) }

// Cfg is the generated engine configuration (plain data).
type Cfg struct {
	Engine        string // skiplist | art
	Threshold     int64  // ValueThreshold: values >= Threshold go to the value log
	MemKB         int    // MemTableSize in KiB (small => rotations/flushes during the history)
	L0            int    // NumLevelZeroTables (small => real L0 throttling when compaction runs)
	HotLimit      int32  // WriteHotKeyLimit (0 = off)
	HotBurst      int32  // HotWriteBurstThreshold
	BG            bool   // real background compaction on (VerifPause=false) after a warm-up
	BatchWaitUS   int    // WriteBatchWait in µs (engine default 200)
	BatchMaxCount int    // WriteBatchMaxCount
	MaxBatchSize  int64  // MaxBatchSize (small => ErrTxnTooBig for large values)
	VlogKB        int    // ValueLogFileSize in KiB
	Buckets       int    // ValueLogBucketCount
	Sync          bool   // SyncWrites
}

// Reg is one register: a user key in a column family.
type Reg struct {
	CF  int    // 0 default, 1 lock, 2 write
	Key string // prefix-free keys (k1,k2,k3)
}

// Op is one client call.
type Op struct {
	K       string // set | del | get | setnil (SetCF with nil value = delete) | setempty (empty non-nil value)
	R       int    // register index
	Sz      int    // value size for set
	PauseUS int    // think time before the call
}

// MOp is one step of the maintenance goroutine.
type MOp struct {
	K string // rotate | flushwait | fill | rewrite | gc | once | compact | sleep
	A int
	B int
}

// Case is one generated history script.  The schedule is left to the Go runtime.
type Case struct {
	Cfg        Cfg
	Regs       []Reg
	Prefill    []Op   // sequential writes before the concurrent phase
	Fill       int    // filler writes (other keys, vlog-sized) after the prefill: seals value-log files
	Workers    [][]Op // 3–6 scripts
	Throttle   []int  // delays in µs between L0-throttle toggles (on, off, on, ...); empty = never throttled
	Maint      []MOp  // maintenance goroutine script
	CloseAfter int    // >0: Close is called as soon as this many worker calls have returned
	Repeat     int    // execute the script up to Repeat times (replays of schedule-dependent findings)
}

var sizes = []int{8, 24, 48, 100, 300, 700}

func genOp(t *rapid.T, nreg int, kinds []string) Op {
	op := Op{K: rapid.SampledFrom(kinds).Draw(t, "k")}
	// register 0 is the hot one
	if rapid.IntRange(0, 9).Draw(t, "hot") < 5 {
		op.R = 0
	} else {
		op.R = rapid.IntRange(0, nreg-1).Draw(t, "r")
	}
	if op.K == "set" {
		op.Sz = rapid.SampledFrom(sizes).Draw(t, "sz")
	}
	if rapid.IntRange(0, 3).Draw(t, "pause?") == 0 {
		op.PauseUS = rapid.SampledFrom([]int{20, 100, 300, 800}).Draw(t, "pause")
	}
	return op
}

func gen(t *rapid.T) Case {
	c := Case{Repeat: 1}
	c.Cfg = Cfg{
		Engine:        rapid.SampledFrom([]string{"skiplist", "art"}).Draw(t, "engine"),
		Threshold:     rapid.SampledFrom([]int64{64, 64, 64, 1024}).Draw(t, "threshold"), // 1024: every value inline (and > MaxBatchSize 512 possible)
		MemKB:         rapid.SampledFrom([]int{8, 32, 1024, 1024}).Draw(t, "memkb"),      // every memtable costs a 64MiB arena: keep rotations few
		L0:            rapid.SampledFrom([]int{2, 4, 1000}).Draw(t, "l0"),
		HotLimit:      rapid.SampledFrom([]int32{0, 0, 0, 6, 15, 40}).Draw(t, "hotlimit"),
		HotBurst:      rapid.SampledFrom([]int32{0, 8}).Draw(t, "hotburst"),
		BG:            rapid.IntRange(0, 9).Draw(t, "bg") == 0,
		BatchWaitUS:   rapid.SampledFrom([]int{200, 200, 200, 0, 1000}).Draw(t, "batchwait"),
		BatchMaxCount: rapid.SampledFrom([]int{64, 64, 1, 2}).Draw(t, "batchmax"),
		MaxBatchSize:  rapid.SampledFrom([]int64{16 << 20, 16 << 20, 16 << 20, 512}).Draw(t, "maxbatch"),
		VlogKB:        rapid.SampledFrom([]int{8, 16, 1024}).Draw(t, "vlogkb"),
		Buckets:       rapid.SampledFrom([]int{1, 1, 2}).Draw(t, "buckets"),
		Sync:          rapid.IntRange(0, 7).Draw(t, "sync") == 0,
	}
	gcFlavor := rapid.IntRange(0, 9).Draw(t, "flavor") < 3
	if gcFlavor {
		c.Cfg.VlogKB = 8
		c.Cfg.Threshold = 64
		c.Cfg.Buckets = 1
		c.Cfg.MaxBatchSize = 16 << 20
	}
	nreg := rapid.IntRange(2, 3).Draw(t, "nreg")
	// keys of one CF have equal length and differ in the last byte: prefix-free (ART findings C07-F7*)
	pool := []Reg{{0, "k1"}, {0, "k2"}, {0, "k3"}, {2, "k1"}, {1, "k2"}}
	perm := rapid.Permutation(pool).Draw(t, "regs")
	// always at least one default-CF register first
	c.Regs = append(c.Regs, Reg{0, "k1"})
	for _, rg := range perm {
		if len(c.Regs) >= nreg {
			break
		}
		if rg != c.Regs[0] {
			c.Regs = append(c.Regs, rg)
		}
	}
	npre := rapid.IntRange(0, 4).Draw(t, "npre")
	if gcFlavor {
		npre = rapid.IntRange(nreg, 5).Draw(t, "npregc")
	}
	for i := 0; i < npre; i++ {
		op := genOp(t, nreg, []string{"set", "set", "set", "del"})
		op.PauseUS = 0
		if gcFlavor {
			op.K = "set"
			if i < nreg {
				op.R = i
			}
		}
		if op.K == "set" && (gcFlavor || rapid.Bool().Draw(t, "prebig")) {
			op.Sz = rapid.SampledFrom([]int{300, 700}).Draw(t, "presz") // value-log resident start values
		}
		c.Prefill = append(c.Prefill, op)
	}
	if gcFlavor {
		c.Fill = rapid.IntRange(16, 60).Draw(t, "fillgc") // >= 8KiB of filler: the prefill values end up in sealed value-log files
	} else if rapid.Bool().Draw(t, "fill?") {
		c.Fill = rapid.IntRange(5, 40).Draw(t, "fill")
	}
	nw := rapid.IntRange(3, 6).Draw(t, "workers")
	kinds := []string{"set", "set", "set", "set", "set", "del", "setnil", "setempty", "get", "get", "get", "get", "get"}
	total := 0
	for w := 0; w < nw; w++ {
		n := rapid.IntRange(3, 22).Draw(t, "nops")
		var ops []Op
		for i := 0; i < n; i++ {
			ops = append(ops, genOp(t, nreg, kinds))
		}
		total += n
		c.Workers = append(c.Workers, ops)
	}
	if gcFlavor || rapid.Bool().Draw(t, "throttle?") {
		n := rapid.IntRange(2, 8).Draw(t, "ntoggle")
		for i := 0; i < n; i++ {
			c.Throttle = append(c.Throttle, rapid.SampledFrom([]int{50, 200, 500, 1500, 3000}).Draw(t, "tdelay"))
		}
	}
	nm := rapid.IntRange(0, 6).Draw(t, "nmaint")
	mk := []string{"rotate", "flushwait", "fill", "rewrite", "rewrite", "gc", "once", "compact", "sleep"}
	if gcFlavor {
		// value-log GC racing with client overwrites (DESIGN §6 R16): sealed files hold the registers' current values
		nm = rapid.IntRange(3, 8).Draw(t, "nmaintgc")
		mk = []string{"rewrite", "rewrite", "rewrite", "fill", "gc", "sleep", "rotate"}
	}
	for i := 0; i < nm; i++ {
		c.Maint = append(c.Maint, MOp{
			K: rapid.SampledFrom(mk).Draw(t, "mk"),
			A: rapid.IntRange(0, 7).Draw(t, "ma"),
			B: rapid.IntRange(0, 7).Draw(t, "mb"),
		})
	}
	if rapid.IntRange(0, 9).Draw(t, "close?") < 3 {
		c.CloseAfter = rapid.IntRange(1, total).Draw(t, "closeafter")
	}
	return c
}

func run(c Case, r *pbt.Rec) error {
	n := c.Repeat
	if n < 1 {
		n = 1
	}
	for i := 0; i < n; i++ {
		if err := runOnce(c, r); err != nil {
			if n > 1 {
				if f, ok := err.(*pbt.Fail); ok {
					f.Msg = fmt.Sprintf("(repetition %d of %d) %s", i+1, n, f.Msg)
				}
			}
			return err
		}
	}
	return nil
}

func TestCheck(t *testing.T) {
	s := &pbt.Suite{ID: "C34", Level: "exploration",
		Rule: "A case = 3-6 worker scripts (3-22 calls each) of SetCF/DelCF/SetCF(nil)/GetCF on 2-3 registers (cf,key) with unique values on both sides of ValueThreshold, run by free goroutines against a real DB (skiplist|art memtable of 8KiB..1MiB so rotations+flushes happen, WriteBatchWait 0/200us/1ms, WriteBatchMaxCount 1/2/64, WriteHotKeyLimit 0/6/15/40, MaxBatchSize 512B|16MiB) while a toggler flips the L0 write throttle, a maintenance goroutine rotates/flushes/fills/compacts/runs value-log GC, and optionally Close races. Every call is recorded (call,return,op,result) with a monotonic clock. Oracle: per register, porcupine register model (write ok => value, delete ok => absent, failed write => no-op, read returns the value); additionally no read may return a value that was never successfully written to that register (failed writes' unique values included) or a damaged value; final sequential reads (and reads after reopen when Close raced) are part of the history. Non-trivial = some register has two successful writes whose call/return intervals overlap and a read overlapping both; distinct by case content.",
		Assumptions: []string{
			"register identity is (column family, user key); plain API only (no transactional writes on these keys)",
			"a Get that returns utils.ErrKeyNotFound is a read of 'absent'; a Get failing with any other error before Close began is reported separately (signature read-error)",
			"a write that returned any error is modelled as a no-op; a write whose call panicked after Close began with the engine's refcount-underflow panic is treated as failed here (the panic itself is judged by C37)",
			"schedules are produced by the Go runtime (free-running): a failing history is reported with its full event list; re-running the case need not fail again",
			"background compaction is kept off while C01-F1c (equal internal keys in one ingest buffer) is listed open, because every L0 compaction of a 2-3 key workload creates exactly that layout",
		},
	}
	pbt.Add(s, &pbt.Spec[Case]{Name: "hist", Gen: gen, Run: run, Quick: 400, Thorough: 6000, Shards: 8, Nondet: true, Timeout: 15 * time.Minute})
	if pbt.Tier() == "thorough" {
		pbt.Add(s, &pbt.Spec[RaceCase]{Name: "race", Gen: genRace, Run: runRace, Static: raceCases, Nondet: true})
	}
	s.Main(t)
}
