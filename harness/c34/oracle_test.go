package c34

import (
	"encoding/json"
	"fmt"
	"sort"
	"strings"
	"time"

	"github.com/anishathalye/porcupine"
	"nokvverif/internal/pbt"
)

type regIn struct {
	op  uint8 // 0 read, 1 write, 2 delete
	val string
}
type regOut struct {
	val string // read: "" = absent
}

var regModel = porcupine.Model{
	Init: func() interface{} { return "" },
	Step: func(state, input, output interface{}) (bool, interface{}) {
		st := state.(string)
		in := input.(regIn)
		switch in.op {
		case 1:
			return true, in.val
		case 2:
			return true, ""
		default:
			return output.(regOut).val == st, st
		}
	},
	Equal: func(a, b interface{}) bool { return a.(string) == b.(string) },
	DescribeOperation: func(input, output interface{}) string {
		in := input.(regIn)
		switch in.op {
		case 1:
			return "set(" + in.val + ")"
		case 2:
			return "del"
		}
		if v := output.(regOut).val; v != "" {
			return "get->" + v
		}
		return "get->absent"
	},
}

func phase(e Ev, closeCall, closeRet int64) string {
	switch {
	case closeCall == 0 || e.Ret < closeCall:
		return ""
	case e.Call > closeRet && closeRet > 0:
		return " [after Close returned]"
	default:
		return " [overlaps Close]"
	}
}

func describe(c Case, e Ev, closeCall, closeRet int64) string {
	rg := c.Regs[e.R]
	who := fmt.Sprintf("g%d#%d", e.G, e.I)
	switch e.G {
	case -1:
		who = fmt.Sprintf("prefill#%d", e.I)
	case -2:
		who = "final-read"
	case -3:
		who = fmt.Sprintf("post-close#%d", e.I)
	case -4:
		who = "after-reopen"
	}
	var what string
	switch e.Op {
	case "set":
		what = fmt.Sprintf("SetCF(cf%d,%s, %s len=%d)", rg.CF, rg.Key, e.ID, e.Sz)
	case "setempty":
		what = fmt.Sprintf("SetCF(cf%d,%s, []byte{})", rg.CF, rg.Key)
	case "setnil":
		what = fmt.Sprintf("SetCF(cf%d,%s, nil)", rg.CF, rg.Key)
	case "del":
		what = fmt.Sprintf("DelCF(cf%d,%s)", rg.CF, rg.Key)
	default:
		what = fmt.Sprintf("GetCF(cf%d,%s)", rg.CF, rg.Key)
	}
	res := "ok"
	switch {
	case e.Panic != "":
		res = "PANIC " + strings.SplitN(e.Panic, "\n", 2)[0]
	case e.Err != "":
		res = "error " + e.Err
	case e.Op == "get" && e.Found:
		res = "-> " + e.Out
	case e.Op == "get":
		res = "-> not found"
	}
	return fmt.Sprintf("%-14s %-34s [%8.1fus, %8.1fus] %s%s", who, what, float64(e.Call)/1e3, float64(e.Ret)/1e3, res, phase(e, closeCall, closeRet))
}

func histMsg(c Case, evs []Ev, closeCall, closeRet int64) string {
	sorted := append([]Ev(nil), evs...)
	sort.SliceStable(sorted, func(i, j int) bool { return sorted[i].Call < sorted[j].Call })
	var b strings.Builder
	n := len(sorted)
	for i, e := range sorted {
		if n > 44 && i >= 20 && i < n-24 {
			if i == 20 {
				fmt.Fprintf(&b, "  … %d more calls (complete list in the JSON line below) …\n", n-44)
			}
			continue
		}
		b.WriteString("  " + describe(c, e, closeCall, closeRet) + "\n")
	}
	if closeCall > 0 {
		fmt.Fprintf(&b, "  Close: [%.1fus, %.1fus]\n", float64(closeCall)/1e3, float64(closeRet)/1e3)
	}
	js, _ := json.Marshal(sorted)
	b.WriteString("HISTORY-JSON " + string(js))
	return b.String()
}

// judge applies the oracle to a recorded history.
func judge(c Case, r *pbt.Rec, hist []Ev, closeCall, closeRet int64) error {
	perReg := make([][]Ev, len(c.Regs))
	for _, e := range hist {
		perReg[e.R] = append(perReg[e.R], e)
	}
	afterCloseBegan := func(e Ev) bool { return closeCall > 0 && e.Ret >= closeCall }
	nt := false
	for ri, evs := range perReg {
		okWrite := map[string]bool{} // id -> written successfully to this register
		failWrite := map[string]Ev{} // id -> failed write
		var ops []porcupine.Operation
		var judged []Ev
		for _, e := range evs {
			if e.isWrite() {
				switch {
				case e.Panic != "":
					if afterCloseBegan(e) && strings.Contains(e.Panic, "refcount underflow") {
						r.Label("write:panic-refcount-after-close(C37)")
						if e.ID != "" {
							failWrite[e.ID] = e
						}
						continue
					}
					return pbt.Failf("panic", "a write panicked: %s\n%s", e.Panic, histMsg(c, evs, closeCall, closeRet))
				case e.Err != "":
					r.Label("write-failed:" + strings.SplitN(e.Err, ":", 2)[0])
					if e.ID != "" {
						failWrite[e.ID] = e
					}
					continue
				}
				r.Label("write-ok")
				in := regIn{op: 2}
				if e.Op == "set" || e.Op == "setempty" {
					in = regIn{op: 1, val: e.ID}
					okWrite[e.ID] = true
					if int64(e.Sz) >= c.Cfg.Threshold {
						r.Label("write-ok:vlog")
					} else {
						r.Label("write-ok:inline")
					}
				}
				ops = append(ops, porcupine.Operation{ClientId: clientID(e.G, len(c.Workers)), Input: in, Call: e.Call, Output: regOut{}, Return: e.Ret})
				judged = append(judged, e)
				if e.G == -3 {
					r.Label("write-after-close-succeeded")
				}
				continue
			}
			// reads
			switch {
			case e.Panic != "":
				sig := "panic"
				if afterCloseBegan(e) {
					sig = "read-panic-close"
				}
				return pbt.Failf(sig, "a read panicked%s: %s\n%s", phase(e, closeCall, closeRet), e.Panic, histMsg(c, evs, closeCall, closeRet))
			case e.Err != "":
				if afterCloseBegan(e) {
					r.Label("read-error-during/after-close(accepted)")
					continue
				}
				return pbt.Failf("read-error", "GetCF failed on an open DB: %s\n%s", e.Err, histMsg(c, evs, closeCall, closeRet))
			case e.Bad != "":
				return pbt.Failf("damaged-value", "GetCF returned a damaged entry%s: %s\n%s", phase(e, closeCall, closeRet), e.Bad, histMsg(c, evs, closeCall, closeRet))
			}
			r.Label("read-ok")
			if afterCloseBegan(e) && e.G >= 0 {
				r.Label("read-ok:overlapping-or-after-close")
			}
			ops = append(ops, porcupine.Operation{ClientId: clientID(e.G, len(c.Workers)), Input: regIn{op: 0}, Call: e.Call, Output: regOut{val: e.Out}, Return: e.Ret})
			judged = append(judged, e)
		}
		if okWrite[emptyID] {
			delete(failWrite, emptyID) // not unique: some other write of the empty value succeeded
		}
		// values that must never be visible
		for _, e := range judged {
			if e.isWrite() || !e.Found {
				continue
			}
			if fw, bad := failWrite[e.Out]; bad {
				return pbt.Failf("failed-write-visible", "register %d: a read returned %s, the value of a write that returned an error (%s%s)\n%s", ri, e.Out, fw.Err, fw.Panic, histMsg(c, evs, closeCall, closeRet))
			}
			if !okWrite[e.Out] {
				return pbt.Failf("foreign-value", "register %d: a read returned %s, which was never written to this register\n%s", ri, e.Out, histMsg(c, evs, closeCall, closeRet))
			}
		}
		res, _ := porcupine.CheckOperationsVerbose(regModel, ops, 20*time.Second)
		switch res {
		case porcupine.Unknown:
			r.Label("porcupine-timeout")
		case porcupine.Illegal:
			sig := "not-linearizable"
			hint := explain(judged)
			if closeCall > 0 {
				for _, e := range judged {
					if !e.isWrite() && afterCloseBegan(e) && e.G != -4 {
						sig = "not-linearizable-close"
					}
				}
				if sig == "not-linearizable" {
					for _, e := range judged {
						if e.G == -4 {
							sig = "not-linearizable-reopen"
						}
					}
				}
			}
			return pbt.Failf(sig, "register %d (cf%d,%q): the recorded history is not linearizable as a register%s\n%s", ri, c.Regs[ri].CF, c.Regs[ri].Key, hint, histMsg(c, evs, closeCall, closeRet))
		}
		if nonTrivial(judged) {
			nt = true
		}
	}
	if nt {
		r.NT()
	}
	return nil
}

func clientID(g, nw int) int {
	if g >= 0 {
		return g
	}
	return nw + (-g) - 1
}

func overlap(a, b Ev) bool { return a.Call <= b.Ret && b.Call <= a.Ret }

// nonTrivial: two successful writes with overlapping intervals and a read overlapping both.
func nonTrivial(evs []Ev) bool {
	var ws, rs []Ev
	for _, e := range evs {
		if e.isWrite() {
			ws = append(ws, e)
		} else {
			rs = append(rs, e)
		}
	}
	for i := range ws {
		for j := i + 1; j < len(ws); j++ {
			if !overlap(ws[i], ws[j]) {
				continue
			}
			for _, rd := range rs {
				if overlap(rd, ws[i]) && overlap(rd, ws[j]) {
					return true
				}
			}
		}
	}
	return false
}

// explain looks for the simplest witness of an illegal history (best effort, for the message only).
func explain(evs []Ev) string {
	byID := map[string]Ev{}
	for _, e := range evs {
		if e.Op == "set" {
			byID[e.ID] = e
		}
	}
	for _, rd := range evs {
		if rd.isWrite() {
			continue
		}
		if rd.Found {
			w := byID[rd.Out]
			if w.Call > rd.Ret {
				return fmt.Sprintf(": read at %.1fus returned %s whose write was only called at %.1fus", float64(rd.Call)/1e3, rd.Out, float64(w.Call)/1e3)
			}
			// stale: another write lies completely between the source write and the read
			for _, w2 := range evs {
				if w2.isWrite() && w2.ID != rd.Out && w2.Call > w.Ret && w2.Ret < rd.Call {
					return fmt.Sprintf(": stale/resurrected value: read at %.1fus returned %s (write returned at %.1fus) although %s(%s) ran completely in between [%.1fus,%.1fus]",
						float64(rd.Call)/1e3, rd.Out, float64(w.Ret)/1e3, w2.Op, w2.ID, float64(w2.Call)/1e3, float64(w2.Ret)/1e3)
				}
			}
			continue
		}
		// not found: some set completed before the read and no delete could follow it
		var last *Ev
		for i := range evs {
			w := evs[i]
			if w.Op == "set" && w.Ret < rd.Call && (last == nil || w.Call > last.Call) {
				last = &evs[i]
			}
		}
		if last != nil {
			delPossible := false
			for _, d := range evs {
				if d.isWrite() && d.Op != "set" && d.Ret > last.Call && d.Call < rd.Ret {
					delPossible = true
				}
			}
			if !delPossible {
				return fmt.Sprintf(": lost value: read at %.1fus found nothing although set(%s) returned at %.1fus and no delete can be ordered after it", float64(rd.Call)/1e3, last.ID, float64(last.Ret)/1e3)
			}
		}
	}
	return ""
}
