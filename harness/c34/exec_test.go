package c34

import (
	"bytes"
	"errors"
	"fmt"
	"runtime"
	"runtime/debug"
	"strings"
	"sync"
	"sync/atomic"
	"time"

	NoKV "github.com/feichai0017/NoKV"
	"github.com/feichai0017/NoKV/kv"
	"github.com/feichai0017/NoKV/lsm/compact"
	"github.com/feichai0017/NoKV/utils"
	"nokvverif/internal/eng"
	"nokvverif/internal/pbt"
)

// Ev is one recorded call.
type Ev struct {
	G     int    `json:"g"` // worker index; -1 prefill, -2 final reads, -3 calls after Close returned, -4 reads after reopen
	I     int    `json:"i"`
	Op    string `json:"op"`
	R     int    `json:"r"`
	ID    string `json:"id,omitempty"` // unique id of the value written
	Sz    int    `json:"sz,omitempty"`
	Call  int64  `json:"c"` // ns since start (monotonic)
	Ret   int64  `json:"t"`
	Out   string `json:"out,omitempty"` // get: id of the value read
	Found bool   `json:"found,omitempty"`
	Err   string `json:"err,omitempty"`
	Panic string `json:"panic,omitempty"`
	Bad   string `json:"bad,omitempty"` // get: value damaged (description)
}

func (e Ev) isWrite() bool { return e.Op != "get" }

const (
	hangBound = 60 * time.Second
)

func (c Cfg) options(dir string) *NoKV.Options {
	ec := eng.Cfg{
		Engine:         c.Engine,
		ValueThreshold: c.Threshold,
		Buckets:        c.Buckets,
		VlogFileSize:   c.VlogKB << 10,
		SyncWrites:     c.Sync,
		MemTableSize:   int64(c.MemKB) << 10,
		MaxBatchCount:  10000,
		MaxBatchSize:   c.MaxBatchSize,
		HotKeyLimit:    c.HotLimit,
		L0Tables:       c.L0,
	}
	o := ec.Options(dir, nil)
	// the features under test that eng switches off by default
	o.HotRingEnabled = c.HotLimit > 0 || c.HotBurst > 0
	o.WriteHotKeyLimit = c.HotLimit
	o.HotWriteBurstThreshold = c.HotBurst
	o.WriteBatchWait = time.Duration(c.BatchWaitUS) * time.Microsecond
	o.WriteBatchMaxCount = c.BatchMaxCount
	o.WriteBatchMaxSize = 1 << 20
	return o
}

func openDB(o *NoKV.Options) (db *NoKV.DB, err error) {
	defer func() {
		if p := recover(); p != nil {
			db, err = nil, fmt.Errorf("Open panicked: %v", p)
		}
	}()
	return NoKV.Open(o), nil
}

func value(id string, sz int) []byte {
	b := make([]byte, 0, sz+len(id)+1)
	b = append(b, id...)
	b = append(b, '|')
	for len(b) < sz {
		b = append(b, byte('a'+len(b)%23))
	}
	return b
}

const emptyID = "EMPTY"

func valueID(v []byte) string {
	if i := bytes.IndexByte(v, '|'); i >= 0 {
		return string(v[:i])
	}
	return "?" + clip(string(v), 24)
}

func clip(s string, n int) string {
	if len(s) > n {
		return s[:n] + "…"
	}
	return s
}

func errClass(err error) string {
	switch {
	case err == nil:
		return "ok"
	case errors.Is(err, utils.ErrHotKeyWriteThrottle):
		return "hot-throttled"
	case errors.Is(err, utils.ErrTxnTooBig):
		return "too-big"
	case errors.Is(err, utils.ErrBlockedWrites):
		return "blocked(closed)"
	case errors.Is(err, utils.ErrDBClosed):
		return "db-closed"
	case errors.Is(err, utils.ErrKeyNotFound):
		return "not-found"
	}
	return "other"
}

type runner struct {
	c    Case
	r    *pbt.Rec
	db   *NoKV.DB
	t0   time.Time
	regs []Reg

	gate            sync.RWMutex // readers (when reads are fenced from Close) and maintenance steps hold it shared; the closer takes it exclusively before Close
	closing         bool         // under gate
	fenceGet        bool         // open finding C34-read-during-close: no Get may overlap or follow the start of Close
	noGetAfterClose bool         // open finding C34-read-after-close: no Get is issued once Close has returned

	done       atomic.Int64
	closeOnce  sync.Once
	closeCh    chan struct{}
	closeCall  atomic.Int64
	closeRet   atomic.Int64
	closeErr   error
	skippedGet atomic.Int64
}

func (x *runner) now() int64 { return int64(time.Since(x.t0)) + 1 }

// call executes one client call and records it.
func (x *runner) call(g, i int, op Op) (ev Ev) {
	rg := x.regs[op.R]
	ev = Ev{G: g, I: i, Op: op.K, R: op.R}
	key := []byte(rg.Key)
	cf := kv.ColumnFamily(rg.CF)
	var val []byte
	if op.K == "set" {
		ev.ID = fmt.Sprintf("w%d.%d", g, i)
		if g < 0 {
			ev.ID = fmt.Sprintf("p%d.%d", -g, i)
		}
		val = value(ev.ID, op.Sz)
		ev.Sz = len(val)
	}
	defer func() {
		if p := recover(); p != nil {
			ev.Ret = x.now()
			ev.Panic = fmt.Sprintf("%v", p)
			if !strings.Contains(ev.Panic, "refcount underflow") {
				ev.Panic += "\n" + repoFrames(debug.Stack(), 8)
			}
		}
	}()
	ev.Call = x.now()
	switch op.K {
	case "set":
		err := x.db.SetCF(cf, key, val)
		ev.Ret = x.now()
		if err != nil {
			ev.Err = errClass(err) + ": " + clip(err.Error(), 80)
		}
	case "setempty":
		// an empty, non-nil value is a value (not a delete); all empty values are the same value
		ev.ID = emptyID
		err := x.db.SetCF(cf, key, []byte{})
		ev.Ret = x.now()
		if err != nil {
			ev.Err = errClass(err) + ": " + clip(err.Error(), 80)
		}
	case "setnil":
		err := x.db.SetCF(cf, key, nil)
		ev.Ret = x.now()
		if err != nil {
			ev.Err = errClass(err) + ": " + clip(err.Error(), 80)
		}
	case "del":
		err := x.db.DelCF(cf, key)
		ev.Ret = x.now()
		if err != nil {
			ev.Err = errClass(err) + ": " + clip(err.Error(), 80)
		}
	case "get":
		e, err := x.db.GetCF(cf, key)
		ev.Ret = x.now()
		switch {
		case err == nil && e != nil:
			ev.Found = true
			ev.Out = valueID(e.Value)
			if len(e.Value) == 0 {
				ev.Out = emptyID
				if !bytes.Equal(e.Key, key) {
					ev.Bad = fmt.Sprintf("entry key %q != requested %q", e.Key, key)
				}
			} else if !bytes.Equal(e.Key, key) {
				ev.Bad = fmt.Sprintf("entry key %q != requested %q", e.Key, key)
			} else if want := value(ev.Out, len(e.Value)); !bytes.Equal(want, e.Value) {
				ev.Bad = fmt.Sprintf("value bytes damaged (len %d): %q", len(e.Value), clip(string(e.Value), 60))
			}
		case err == nil:
			ev.Err = "other: nil entry and nil error"
		case errors.Is(err, utils.ErrKeyNotFound):
			// read of "absent"
		default:
			ev.Err = errClass(err) + ": " + clip(err.Error(), 80)
		}
	}
	return ev
}

func repoFrames(st []byte, n int) string {
	var out []string
	for _, l := range strings.Split(string(st), "\n") {
		if strings.HasPrefix(l, "\t") && !strings.Contains(l, "/verif/") && !strings.Contains(l, "/runtime/") && !strings.Contains(l, "testing") {
			out = append(out, strings.TrimSpace(l))
		}
	}
	if len(out) > n {
		out = out[:n]
	}
	return strings.Join(out, "\n")
}

func allStacks() string {
	buf := make([]byte, 1<<20)
	n := runtime.Stack(buf, true)
	s := string(buf[:n])
	// keep goroutines that are inside the engine
	var keep []string
	for _, g := range strings.Split(s, "\n\n") {
		if strings.Contains(g, "feichai0017/NoKV") {
			l := strings.Split(g, "\n")
			if len(l) > 14 {
				l = l[:14]
			}
			keep = append(keep, strings.Join(l, "\n"))
		}
		if len(keep) >= 12 {
			break
		}
	}
	return strings.Join(keep, "\n\n")
}

func (x *runner) triggerClose() {
	x.closeOnce.Do(func() { close(x.closeCh) })
}

func (x *runner) worker(g int, ops []Op, out *[]Ev, start <-chan struct{}, wg *sync.WaitGroup) {
	defer wg.Done()
	debug.SetPanicOnFault(true)
	<-start
	for i, op := range ops {
		if op.PauseUS > 0 {
			pause(op.PauseUS)
		}
		if op.K == "get" && x.fenceGet {
			x.gate.RLock()
			if x.closing {
				x.gate.RUnlock()
				x.skippedGet.Add(1)
				x.bump()
				continue
			}
			ev := x.call(g, i, op)
			x.gate.RUnlock()
			*out = append(*out, ev)
		} else if op.K == "get" && x.noGetAfterClose && x.closeRet.Load() > 0 {
			x.skippedGet.Add(1)
		} else {
			*out = append(*out, x.call(g, i, op))
		}
		x.bump()
	}
}

func (x *runner) bump() {
	if n := x.done.Add(1); x.c.CloseAfter > 0 && n == int64(x.c.CloseAfter) {
		x.triggerClose()
	}
}

func pause(us int) {
	if us >= 500 {
		time.Sleep(time.Duration(us) * time.Microsecond)
		return
	}
	end := time.Now().Add(time.Duration(us) * time.Microsecond)
	for time.Now().Before(end) {
		runtime.Gosched()
	}
}

// maintStep runs one maintenance step; it is fenced from Close by the gate.
func (x *runner) maintStep(m MOp, allowCompact, allowGC bool, fillSeq *int) {
	x.gate.RLock()
	defer x.gate.RUnlock()
	if x.closing {
		return
	}
	defer func() {
		if p := recover(); p != nil {
			x.r.Label("maint-panic:" + m.K)
			panic(p) // a panicking maintenance entry point on an open DB is unexpected: surface it
		}
	}()
	db, l, r := x.db, x.db.VerifLSM(), x.r
	switch m.K {
	case "rotate":
		l.Rotate()
		r.Label("maint:rotate")
	case "flushwait":
		l.VerifWaitFlush(5 * time.Second)
	case "fill":
		n := 4 + 4*m.A
		for j := 0; j < n; j++ {
			*fillSeq++
			_ = db.Set([]byte(fmt.Sprintf("f%03d", *fillSeq%50)), value(fmt.Sprintf("fill.%d", *fillSeq), 400+37*(m.B%5)))
		}
		r.Label("maint:fill")
	case "rewrite":
		if !allowGC {
			return
		}
		files, active := db.VerifVlogFiles()
		if len(files) == 0 {
			return
		}
		b := uint32(m.A % len(files))
		// every sealed file of the bucket, oldest first
		for _, fid := range files[b] {
			if fid >= active[b] {
				continue
			}
			err := db.VerifRewriteVlog(b, fid)
			switch {
			case err == nil:
				r.Label("maint:vlog-rewrite")
			case errors.Is(err, utils.ErrEmptyKey):
				r.Label("maint:vlog-rewrite(moved,file-kept)")
			case errors.Is(err, utils.ErrNoRewrite), errors.Is(err, utils.ErrRejected):
			default:
				r.Label("maint:vlog-rewrite-error")
			}
		}
	case "gc":
		if !allowGC {
			return
		}
		if err := db.RunValueLogGC([]float64{0.01, 0.5, 0.99}[m.A%3]); err == nil {
			r.Label("maint:vlog-gc")
		}
	case "once":
		if allowCompact && l.VerifCompactOnce() {
			r.Label("maint:compact-natural")
		}
	case "compact":
		if allowCompact {
			level := m.A % 7
			mode := m.B % 3
			if level == 0 {
				mode = 0
			}
			if err := l.VerifCompact(level, mode); err == nil {
				r.Label("maint:compact")
			}
		}
	case "sleep":
		pause(100 * (m.A + 1))
	}
}

func runOnce(c Case, r *pbt.Rec) (err error) {
	exR16 := pbt.Open("C34-R16")
	exDuring := pbt.Open("C34-read-during-close")
	exAfter := pbt.Open("C34-read-after-close")
	exF1c := pbt.Open("C01-F1c")
	allowGC := !exR16
	allowCompact := !exF1c
	for _, m := range c.Maint {
		switch m.K {
		case "rewrite", "gc":
			if !allowGC {
				r.Excluded(1)
			}
		case "once", "compact":
			if !allowCompact {
				r.Excluded(1)
			}
		}
	}
	bg := c.Cfg.BG
	if bg && !allowCompact {
		bg = false
		r.Excluded(1)
	}
	cfg := c.Cfg
	if !bg && !allowCompact {
		// without any compaction a small L0 limit has no effect (AdjustThrottle only runs in the
		// background cycle); the throttle is exercised through the toggler
	}
	if len(c.Regs) == 0 || len(c.Workers) == 0 {
		return nil
	}
	for _, w := range append([][]Op{c.Prefill}, c.Workers...) {
		for _, op := range w {
			if op.R < 0 || op.R >= len(c.Regs) {
				return pbt.Failf("harness", "register index %d out of range", op.R)
			}
		}
	}

	dir, clean := pbt.TempDir("c34")
	defer clean()
	compact.VerifPause.Store(!bg)
	defer compact.VerifPause.Store(true)
	opts := cfg.options(dir)
	db, oerr := openDB(opts)
	if oerr != nil {
		return pbt.Failf("open", "%v", oerr)
	}
	x := &runner{c: c, r: r, db: db, t0: time.Now(), regs: c.Regs, closeCh: make(chan struct{}), fenceGet: exDuring && c.CloseAfter > 0, noGetAfterClose: exAfter}
	r.Label("engine:" + cfg.Engine)
	if bg {
		r.Label("bg-compaction")
		time.Sleep(520 * time.Millisecond) // compactor goroutines start after a random delay of up to 500ms
	}

	var hist []Ev
	// ---- sequential prefill
	for i, op := range c.Prefill {
		hist = append(hist, x.call(-1, i, op))
	}
	fillSeq := 0
	for j := 0; j < c.Fill; j++ {
		fillSeq++
		_ = db.Set([]byte(fmt.Sprintf("f%03d", fillSeq%50)), value(fmt.Sprintf("fill.%d", fillSeq), 500))
	}

	// ---- concurrent phase
	start := make(chan struct{})
	var wg sync.WaitGroup
	outs := make([][]Ev, len(c.Workers))
	for g, ops := range c.Workers {
		wg.Add(1)
		go x.worker(g, ops, &outs[g], start, &wg)
	}
	stop := make(chan struct{})
	var aux sync.WaitGroup
	var auxPanic atomic.Value
	guard := func(f func()) {
		aux.Add(1)
		go func() {
			defer aux.Done()
			defer func() {
				if p := recover(); p != nil {
					auxPanic.Store(fmt.Sprintf("%v\n%s", p, repoFrames(debug.Stack(), 8)))
				}
			}()
			debug.SetPanicOnFault(true)
			f()
		}()
	}
	toggles := 0
	if len(c.Throttle) > 0 {
		guard(func() {
			<-start
			on := false
			defer func() { db.VerifLSM().VerifThrottle(false) }()
			for _, d := range c.Throttle {
				select {
				case <-stop:
					return
				default:
				}
				on = !on
				db.VerifLSM().VerifThrottle(on)
				toggles++
				pause(d)
			}
		})
	}
	if len(c.Maint) > 0 {
		guard(func() {
			<-start
			for _, m := range c.Maint {
				select {
				case <-stop:
					return
				default:
				}
				x.maintStep(m, allowCompact, allowGC, &fillSeq)
			}
		})
	}
	closerDone := make(chan struct{})
	go func() {
		defer close(closerDone)
		select {
		case <-x.closeCh:
		case <-stop:
			return
		}
		x.gate.Lock()
		x.closing = true
		x.gate.Unlock()
		x.closeCall.Store(x.now())
		x.closeErr = eng.Close(db)
		x.closeRet.Store(x.now())
	}()
	close(start)

	waitFor := func(what string, ch <-chan struct{}) error {
		select {
		case <-ch:
			return nil
		case <-time.After(hangBound):
			return pbt.Failf("hang", "%s did not finish within %v (liveness is judged by C37; the history cannot be completed)\n%s", what, hangBound, allStacks())
		}
	}
	wdone := make(chan struct{})
	go func() { wg.Wait(); close(wdone) }()
	if err := waitFor("worker calls", wdone); err != nil {
		return err // goroutines and the directory are leaked on purpose: the process is wedged
	}
	close(stop)
	adone := make(chan struct{})
	go func() { aux.Wait(); close(adone) }()
	if err := waitFor("throttle toggler / maintenance step", adone); err != nil {
		return err
	}
	if err := waitFor("Close", closerDone); err != nil {
		return err
	}
	db.VerifLSM().VerifThrottle(false)
	for _, o := range outs {
		hist = append(hist, o...)
	}
	if p := auxPanic.Load(); p != nil {
		return pbt.Failf("maint-panic", "a maintenance/throttle step panicked on an open DB: %v", p)
	}
	r.LabelN("throttle-toggles", toggles)
	if n := int(x.skippedGet.Load()); n > 0 {
		r.Excluded(n)
		r.LabelN("reads-fenced-from-close(open finding)", n)
	}

	closed := x.closeCall.Load() > 0
	if !closed {
		// ---- final sequential reads, then Close
		for i := range c.Regs {
			hist = append(hist, x.call(-2, i, Op{K: "get", R: i}))
		}
		x.closeCall.Store(0)
		cdone := make(chan struct{})
		var cerr error
		go func() { cerr = eng.Close(db); close(cdone) }()
		if err := waitFor("final Close", cdone); err != nil {
			return err
		}
		if cerr != nil {
			return pbt.Failf("close", "Close failed after the history: %v", cerr)
		}
	} else {
		r.Label("close-raced")
		if x.closeErr != nil {
			// Close itself failing/panicking is C37's subject; the history up to here is still judged.
			r.Label("close-raced:close-error")
		}
		// ---- calls after Close returned: writes must fail (and have no effect, see the reopen reads)
		pdone := make(chan struct{})
		var post []Ev
		go func() {
			defer close(pdone)
			debug.SetPanicOnFault(true)
			for i := range c.Regs {
				post = append(post, x.call(-3, 2*i, Op{K: "set", R: i, Sz: 16}))
				if !exAfter {
					post = append(post, x.call(-3, 2*i+1, Op{K: "get", R: i}))
				} else {
					r.Excluded(1)
				}
			}
		}()
		if err := waitFor("a call after Close", pdone); err != nil {
			return err
		}
		hist = append(hist, post...)
		// ---- reopen (nothing in the background) and read every register
		if x.closeErr == nil {
			compact.VerifPause.Store(true)
			o2 := cfg.options(dir)
			db2, oerr := openDB(o2)
			if oerr != nil {
				return pbt.Failf("reopen", "reopen after the racing Close failed: %v", oerr)
			}
			x.db = db2
			for i := range c.Regs {
				hist = append(hist, x.call(-4, i, Op{K: "get", R: i}))
			}
			if cerr := eng.Close(db2); cerr != nil {
				return pbt.Failf("close", "Close after reopen failed: %v", cerr)
			}
		}
	}
	return judge(c, r, hist, x.closeCall.Load(), x.closeRet.Load())
}
