package c14

import (
	"bytes"
	"encoding/binary"
	"fmt"
	"os"
	"runtime"
	"sort"

	"github.com/feichai0017/NoKV/kv"
	"github.com/feichai0017/NoKV/lsm"
	"github.com/feichai0017/NoKV/manifest"
	"github.com/feichai0017/NoKV/pb"
	"github.com/feichai0017/NoKV/utils"
	"github.com/feichai0017/NoKV/wal"
	"google.golang.org/protobuf/proto"
	"nokvverif/internal/pbt"
	"pgregory.net/rapid"
)

type SEnt struct {
	Key  []byte `json:"key"` // user key
	Ver  uint64 `json:"ver"` // >= 1
	VN   int    `json:"vn"`
	Seed uint32 `json:"s"`
	Meta byte   `json:"meta"`
	Exp  uint64 `json:"exp"`
}

type SstCase struct {
	BlockSize int      `json:"block"`
	Bloom     bool     `json:"bloom"`
	Ents      []SEnt   `json:"ents"`  // any order; sorted and de-duplicated by run
	Limit     int      `json:"limit"` // flip every bit of every data block when the data region is <= Limit bytes
	Pick      []uint32 `json:"pick"`  // otherwise: blocks (mod count) whose bits are all flipped
	// IndexBytes bounds how many bytes of the index+footer region are flipped (evenly spaced; 0 = all).
	IndexBytes int `json:"indexbytes,omitempty"`
	// Excl: open known findings the generator steered away from.
	// "chklen": flips of a block's trailing checksum-length field that make it point before the block start.
	Excl []string `json:"excl,omitempty"`
}

type sent struct {
	ikey, val []byte
	meta      byte
	exp       uint64
}

func debug3() string {
	b := make([]byte, 1<<14)
	n := runtime.Stack(b, false)
	// keep the frames between the panic and the harness
	lines := bytes.Split(b[:n], []byte("\n"))
	var out [][]byte
	for i, l := range lines {
		if bytes.HasPrefix(l, []byte("panic(")) {
			for j := i + 2; j < len(lines) && j < i+14; j++ {
				out = append(out, lines[j])
			}
			break
		}
	}
	if out == nil {
		out = lines
		if len(out) > 16 {
			out = out[:16]
		}
	}
	return string(bytes.Join(out, []byte("\n")))
}

func newLSM(dir string) (*lsm.LSM, *wal.Manager, error) {
	ch := make(chan map[manifest.ValueLogID]int64, 16)
	wlog, err := wal.Open(wal.Config{Dir: dir, BufferSize: 4096})
	if err != nil {
		return nil, nil, err
	}
	opt := &lsm.Options{
		WorkDir: dir, MemTableSize: 1 << 20, SSTableMaxSz: 64 << 20, BlockSize: 4096,
		BloomFalsePositive: 0.01, DiscardStatsCh: &ch, MaxLevelNum: utils.MaxLevelNum,
		BaseLevelSize: 32 << 20, LevelSizeMultiplier: 8, BaseTableSize: 8 << 20, TableSizeMultiplier: 2,
		NumLevelZeroTables: 100, NumCompactors: 1,
		BlockCacheSize: 0, BloomCacheSize: 0, // no cached block may hide a corrupted one
	}
	return lsm.NewLSM(opt, wlog), wlog, nil
}

// One LSM per process hosts the tables of all cases: creating an LSM allocates a 128 MiB
// memtable arena, and the tables built through VerifBuildTable are not registered in its
// levels, so cases do not see each other (each uses a fresh file id; no block/bloom cache;
// the index cache entry is dropped by Reopen).
var (
	sharedL   *lsm.LSM
	sharedFID uint64 = 100
)

func sharedLSM() (*lsm.LSM, error) {
	if sharedL != nil {
		return sharedL, nil
	}
	dir, _ := pbt.TempDir("c14s") // removed with the process scratch root
	var err error
	quiet(func() { sharedL, _, err = newLSM(dir) })
	return sharedL, err
}

// blockLayout is the harness' own reading of the file written by the builder, used only to
// choose flip positions and to label them.
type blockLayout struct {
	off, length int
	entries     [][2]int // [start,end) of each entry, relative to the file
	keyEnd      []int    // end of header+diff key of each entry (file offset)
	offsStart   int      // entry-offset list start (file offset)
	cntStart    int      // entry count field
	sumStart    int      // checksum
	lenStart    int      // checksum length field
}

func parseLayout(b []byte) (blocks []blockLayout, idxStart int, err error) {
	n := len(b)
	if n < 16 {
		return nil, 0, fmt.Errorf("file too short")
	}
	ckLen := int(binary.BigEndian.Uint32(b[n-4:]))
	p := n - 4 - ckLen - 4
	if ckLen != 8 || p < 0 {
		return nil, 0, fmt.Errorf("unexpected footer")
	}
	idxLen := int(binary.BigEndian.Uint32(b[p:]))
	idxStart = p - idxLen
	if idxStart < 0 {
		return nil, 0, fmt.Errorf("unexpected index length")
	}
	var ti pb.TableIndex
	if err := proto.Unmarshal(b[idxStart:p], &ti); err != nil {
		return nil, 0, err
	}
	for _, o := range ti.GetOffsets() {
		bl := blockLayout{off: int(o.GetOffset()), length: int(o.GetLen())}
		end := bl.off + bl.length
		if end > idxStart || bl.length < 20 {
			return nil, 0, fmt.Errorf("unexpected block extent")
		}
		bl.lenStart = end - 4
		bl.sumStart = end - 12
		bl.cntStart = end - 16
		cnt := int(binary.BigEndian.Uint32(b[bl.cntStart:]))
		bl.offsStart = bl.cntStart - 4*cnt
		if bl.offsStart < bl.off {
			return nil, 0, fmt.Errorf("unexpected entry count")
		}
		for i := 0; i < cnt; i++ {
			s := bl.off + int(binary.LittleEndian.Uint32(b[bl.offsStart+4*i:])) // native-endian slice cast in the builder
			e := bl.offsStart
			if i+1 < cnt {
				e = bl.off + int(binary.LittleEndian.Uint32(b[bl.offsStart+4*(i+1):]))
			}
			if s+4 > e || e > bl.offsStart {
				return nil, 0, fmt.Errorf("unexpected entry extent")
			}
			diff := int(binary.LittleEndian.Uint16(b[s+2:]))
			bl.entries = append(bl.entries, [2]int{s, e})
			bl.keyEnd = append(bl.keyEnd, s+4+diff)
		}
		blocks = append(blocks, bl)
	}
	return blocks, idxStart, nil
}

func (bl blockLayout) field(off int) string {
	switch {
	case off >= bl.lenStart:
		return "chklen"
	case off >= bl.sumStart:
		return "checksum"
	case off >= bl.cntStart:
		return "count"
	case off >= bl.offsStart:
		return "offsets"
	}
	for i, e := range bl.entries {
		if off >= e[0] && off < e[1] {
			switch {
			case off < e[0]+4:
				return "entryhdr"
			case off < bl.keyEnd[i]:
				return "key"
			case off == bl.keyEnd[i]:
				return "meta"
			default:
				return "value" // expiry varint + value bytes
			}
		}
	}
	return "slack"
}

func runSst(c SstCase, r *pbt.Rec) (err error) {
	// normalise
	var ents []sent
	for _, e := range c.Ents {
		ver := e.Ver
		if ver == 0 {
			ver = 1
		}
		vn := e.VN
		if vn < 0 {
			vn = 0
		}
		if vn > 2000 {
			vn = 2000
		}
		if len(e.Key) == 0 {
			continue
		}
		ents = append(ents, sent{ikey: kv.InternalKey(kv.CFDefault, e.Key, ver), val: fill(vn, e.Seed), meta: e.Meta, exp: e.Exp})
	}
	sort.SliceStable(ents, func(i, j int) bool { return utils.CompareKeys(ents[i].ikey, ents[j].ikey) < 0 })
	var ded []sent
	for _, e := range ents {
		if n := len(ded); n > 0 && bytes.Equal(ded[n-1].ikey, e.ikey) {
			continue
		}
		ded = append(ded, e)
	}
	ents = ded
	if len(ents) == 0 {
		return nil
	}
	byKey := map[string]int{}
	for i, e := range ents {
		byKey[string(e.ikey)] = i
	}

	l, err := sharedLSM()
	if err != nil {
		return fmt.Errorf("harness: %v", err)
	}
	sharedFID++
	fid := sharedFID

	var kvEnts []*kv.Entry
	for _, e := range ents {
		ke := kv.NewEntry(e.ikey, e.val)
		ke.Meta, ke.ExpiresAt = e.meta, e.exp
		kvEnts = append(kvEnts, ke)
	}
	bs := c.BlockSize
	if bs < 16 {
		bs = 16
	}
	fp := 0.0
	if c.Bloom {
		fp = 0.01
	}
	vt, err := l.VerifBuildTable(fid, bs, fp, kvEnts, nil)
	if err != nil {
		return pbt.Failf("baseline", "building the table failed: %v", err)
	}
	path := vt.Path()
	defer func() { _ = os.Remove(path) }()

	// judge reads everything through the given table handle.
	judge := func(vt *lsm.VerifTable, where string) (outcome string, fail error) {
		defer func() {
			if p := recover(); p != nil {
				fail = pbt.Failf("sst-panic", "%s: panic in a table read path after a successful open: %v\n%s", where, firstLine(fmt.Sprint(p)), debug3())
			}
		}()
		missing := 0
		for i, e := range ents {
			var got *kv.Entry
			var serr error
			quiet(func() { got, serr = vt.Search(e.ikey, 0) })
			if serr != nil || got == nil {
				missing++
				continue
			}
			if !bytes.Equal(got.Key, e.ikey) || !bytes.Equal(got.Value, e.val) || got.Meta != e.meta || got.ExpiresAt != e.exp {
				return "", pbt.Failf("sst-altered-search", "%s: Search(entry %d key=%x) returns key=%x value=%x meta=%d expires=%d, written value=%x meta=%d expires=%d", where, i, e.ikey, got.Key, got.Value, got.Meta, got.ExpiresAt, e.val, e.meta, e.exp)
			}
		}
		for _, asc := range []bool{true, false} {
			it := vt.NewIterator(asc)
			n := 0
			var bad error
			quiet(func() {
				for it.Rewind(); it.Valid(); it.Next() {
					ge := it.Item().Entry()
					i, ok := byKey[string(ge.Key)]
					if !ok {
						bad = pbt.Failf("sst-invented", "%s: iteration asc=%v yields key=%x (value %x) which was never written", where, asc, ge.Key, ge.Value)
						return
					}
					e := ents[i]
					if !bytes.Equal(ge.Value, e.val) || ge.Meta != e.meta || ge.ExpiresAt != e.exp {
						bad = pbt.Failf("sst-altered-iter", "%s: iteration asc=%v yields entry %d key=%x as value=%x meta=%d expires=%d, written value=%x meta=%d expires=%d", where, asc, i, ge.Key, ge.Value, ge.Meta, ge.ExpiresAt, e.val, e.meta, e.exp)
						return
					}
					n++
					if n > 4*len(ents)+4 {
						bad = pbt.Failf("sst-iter-loop", "%s: iteration asc=%v does not terminate", where, asc)
						return
					}
				}
			})
			_ = it.Close()
			if bad != nil {
				return "", bad
			}
			if n < len(ents) {
				missing++
			}
		}
		if missing > 0 {
			return "error-or-absent", nil
		}
		return "identical", nil
	}
	if out, fail := judge(vt, "intact table"); fail != nil || out != "identical" {
		return pbt.Failf("baseline", "intact table reads as %q: %v", out, fail)
	}

	fl, err := openFlipper(path)
	if err != nil {
		return fmt.Errorf("harness: %v", err)
	}
	defer fl.close()
	blocks, idxStart, err := parseLayout(fl.orig)
	if err != nil {
		return pbt.Failf("baseline", "harness cannot parse the table it built: %v", err)
	}
	r.Label(fmt.Sprintf("blocks:%s", bucket(len(blocks))))
	if c.Bloom {
		r.Label("bloom")
	}

	cur := vt
	failedOpens := 0
	// reopen opens the (corrupted) file again; ok=false means the opening call reported an
	// error (returned one or panicked).
	reopen := func() (nvt *lsm.VerifTable, ok bool) {
		defer func() {
			if p := recover(); p != nil {
				nvt, ok = nil, false
			}
		}()
		var rerr error
		quiet(func() { nvt, rerr = cur.Reopen() })
		if rerr != nil || nvt == nil {
			return nil, false
		}
		return nvt, true
	}
	trial := func(off int, bit uint, where string, dataBlock bool) (string, error) {
		if err := fl.flip(off, bit); err != nil {
			return "", fmt.Errorf("harness: %v", err)
		}
		defer func() { _ = fl.restore(off) }()
		nvt, ok := reopen()
		if !ok {
			failedOpens++
			if failedOpens%400 == 0 {
				runtime.GC() // failed opens leave their descriptor to the finalizer
			}
			return "open-fails", nil
		}
		cur = nvt
		out, fail := judge(nvt, where)
		if fail != nil {
			return "", fail
		}
		return out, nil
	}

	// which blocks
	var targets []int
	if idxStart <= c.Limit {
		for i := range blocks {
			targets = append(targets, i)
		}
		r.Label("flips:exhaustive")
	} else {
		seen := map[int]bool{}
		for _, p := range c.Pick {
			i := int(p % uint32(len(blocks)))
			if !seen[i] {
				seen[i] = true
				targets = append(targets, i)
			}
			if len(targets) == 2 {
				break
			}
		}
		if len(targets) == 0 {
			targets = append(targets, 0)
		}
		r.Label("flips:picked")
	}
	ntFlip, ntCaught := false, false
	for _, bi := range targets {
		bl := blocks[bi]
		for off := bl.off; off < bl.off+bl.length; off++ {
			field := bl.field(off)
			for bit := uint(0); bit < 8; bit++ {
				if field == "chklen" && has(c.Excl, "chklen") {
					v := binary.BigEndian.Uint32(fl.orig[bl.lenStart:]) ^ (1 << (uint(3-(off-bl.lenStart))*8 + bit))
					if int64(v) > int64(bl.length-4) && int64(v) <= int64(bl.length) {
						r.Excluded(1)
						continue
					}
				}
				where := fmt.Sprintf("bit %d of byte %d (%s of data block %d/%d, block at %d len %d, table of %d entries, block size %d)", bit, off, field, bi, len(blocks), bl.off, bl.length, len(ents), bs)
				out, err := trial(off, bit, where, true)
				if err != nil {
					return err
				}
				r.Label("flips")
				r.Label("flip:" + field)
				r.Label("block-flip:" + out)
				if field == "key" || field == "value" || field == "meta" {
					ntFlip = true
					if out != "identical" {
						ntCaught = true
					}
				}
			}
		}
	}
	// index + footer: open must fail, or everything must read identically
	tail := len(fl.orig) - idxStart
	step := 1
	if max := c.IndexBytes; max > 0 && tail > max {
		step = (tail + max - 1) / max
	}
	for off := idxStart; off < len(fl.orig); off += step {
		for bit := uint(0); bit < 8; bit++ {
			where := fmt.Sprintf("bit %d of byte %d (index/footer region starting at %d, file of %d bytes)", bit, off, idxStart, len(fl.orig))
			out, err := trial(off, bit, where, false)
			if err != nil {
				return err
			}
			r.Label("index-flips")
			r.Label("index-flip:" + out)
			if out == "error-or-absent" {
				return pbt.Failf("sst-index-served", "%s: the table opens but some data is no longer readable", where)
			}
		}
	}
	if ntFlip && ntCaught {
		r.NT()
	}
	if b, _ := os.ReadFile(path); !bytes.Equal(b, fl.orig) {
		return fmt.Errorf("harness: table file not restored")
	}
	return nil
}

func firstLine(s string) string {
	for i := 0; i < len(s); i++ {
		if s[i] == '\n' {
			return s[:i]
		}
	}
	return s
}

func bucket(n int) string {
	switch {
	case n <= 1:
		return "1"
	case n <= 3:
		return "2-3"
	case n <= 8:
		return "4-8"
	default:
		return ">8"
	}
}

var sstKeys = [][]byte{[]byte("a"), []byte("ab"), []byte("abc"), []byte("abd"), []byte("b"), []byte("key-000001"), []byte("key-000002"), []byte("key-000010"), {0}, {0xff, 0xff}, []byte("zz")}

func genSEnt(t *rapid.T) SEnt {
	e := SEnt{
		Ver:  rapid.SampledFrom([]uint64{1, 2, 3, 9, 1 << 33}).Draw(t, "ver"),
		Seed: rapid.Uint32().Draw(t, "seed"),
		Meta: rapid.SampledFrom([]byte{0, 0, 0, kv.BitDelete, kv.BitValuePointer, 0xff}).Draw(t, "meta"),
		Exp:  rapid.SampledFrom([]uint64{0, 0, 0, 100, 4102444800}).Draw(t, "exp"),
	}
	if rapid.IntRange(0, 3).Draw(t, "poolKey") > 0 {
		e.Key = sstKeys[rapid.IntRange(0, len(sstKeys)-1).Draw(t, "k")]
	} else {
		e.Key = rapid.SliceOfN(rapid.Byte(), 1, 16).Draw(t, "kbytes")
	}
	switch k := rapid.IntRange(0, 9).Draw(t, "vs"); {
	case k == 0:
		e.VN = 0
	case k < 9:
		e.VN = rapid.IntRange(1, 32).Draw(t, "vn")
	default:
		e.VN = rapid.IntRange(60, 160).Draw(t, "vn2")
		if pbt.Tier() != "thorough" {
			e.VN = rapid.IntRange(33, 64).Draw(t, "vnmid")
		}
	}
	return e
}

func genSst(t *rapid.T) SstCase {
	c := SstCase{
		BlockSize:  rapid.SampledFrom([]int{48, 64, 64, 96, 128, 128, 200, 4096}).Draw(t, "block"),
		Bloom:      rapid.Bool().Draw(t, "bloom"),
		Limit:      900,
		IndexBytes: 80,
	}
	if pbt.Tier() == "thorough" {
		c.Limit = 4096
		c.IndexBytes = 1000
	}
	if pbt.Open("C14-F1") {
		c.Excl = append(c.Excl, "chklen")
	}
	n := rapid.IntRange(1, 7).Draw(t, "n")
	if pbt.Tier() == "thorough" {
		n = rapid.IntRange(1, 24).Draw(t, "nT")
	}
	for i := 0; i < n; i++ {
		c.Ents = append(c.Ents, genSEnt(t))
	}
	c.Pick = rapid.SliceOfN(rapid.Uint32(), 2, 2).Draw(t, "pick")
	return c
}

func staticSst() []SstCase {
	var excl []string
	if pbt.Open("C14-F1") {
		excl = []string{"chklen"}
	}
	mk := func(n int, vn int) []SEnt {
		var out []SEnt
		for i := 0; i < n; i++ {
			out = append(out, SEnt{Key: []byte(fmt.Sprintf("key-%03d", i)), Ver: uint64(1 + i%3), VN: vn + i%5, Seed: uint32(i)})
		}
		return out
	}
	out := []SstCase{
		{BlockSize: 4096, Limit: 1 << 20, Ents: []SEnt{{Key: []byte("a"), Ver: 1, VN: 3, Seed: 1}}, Excl: excl},
		{BlockSize: 64, Bloom: true, Limit: 1 << 20, Ents: append(mk(3, 4), SEnt{Key: []byte("key-001"), Ver: 7, VN: 9, Meta: kv.BitDelete, Exp: 100}), Excl: excl},
	}
	if pbt.Tier() == "thorough" {
		out = append(out,
			SstCase{BlockSize: 96, Bloom: true, Limit: 1 << 20, Ents: mk(9, 10), Excl: excl},
			SstCase{BlockSize: 4096, Limit: 1 << 20, Ents: mk(12, 0), Excl: excl})
	}
	return out
}
