// C14 — corrupted log and table bytes are never served as valid data.
//
// Three specs, each building a small real file from generated content and then flipping
// single bits of it (every bit of every record / data block when the file is small,
// every bit of drawn records / blocks otherwise):
//
//	wal  — wal.Manager segments; read paths: Manager.Replay, and wal.VerifyDir + Replay
//	vlog — vlog.Manager files;  read paths: ReadValue / Read+DecodeEntry of every pointer,
//	       Iterate of every file, and (sampled) vlog.VerifyDir + the same
//	sst  — one table built by the production builder; read paths after re-opening the
//	       corrupted file: Search of every key, forward and reverse iteration
//
// Oracle: after the flip every read path either reports an error, or treats a record as
// absent, or returns data identical to what was written at that position.  It must never
// return a different key / value / type / meta for an existing record, never invent a
// record, and never panic (for the SST a panic inside the opening call counts as "reports
// an error" because openTable signals errors with utils.Panic).
package c14

import (
	"fmt"
	"os"
	"runtime/debug"
	"testing"

	"nokvverif/internal/pbt"
)

func TestMain(m *testing.M) {
	debug.SetGCPercent(400)
	pbt.RunMain(m)
}

var devNull *os.File

// quiet runs f with os.Stdout pointing at /dev/null: utils.Err prints one line per failed
// open, which would bury the runner's own output under tens of thousands of lines.
func quiet(f func()) {
	if devNull == nil {
		devNull, _ = os.OpenFile(os.DevNull, os.O_WRONLY, 0)
	}
	if devNull == nil {
		f()
		return
	}
	old := os.Stdout
	os.Stdout = devNull
	defer func() { os.Stdout = old }()
	f()
}

func has(l []string, s string) bool {
	for _, e := range l {
		if e == s {
			return true
		}
	}
	return false
}

// pseudo-random bytes identified by a seed
func fill(n int, seed uint32) []byte {
	if n <= 0 {
		return []byte{}
	}
	b := make([]byte, n)
	x := seed*2654435761 + 0x9e3779b9
	for i := range b {
		x ^= x << 13
		x ^= x >> 17
		x ^= x << 5
		b[i] = byte(x)
	}
	return b
}

// flipper flips one bit of a file in place and restores it.
type flipper struct {
	path string
	f    *os.File
	orig []byte
}

func openFlipper(path string) (*flipper, error) {
	b, err := os.ReadFile(path)
	if err != nil {
		return nil, err
	}
	f, err := os.OpenFile(path, os.O_RDWR, 0)
	if err != nil {
		return nil, err
	}
	return &flipper{path: path, f: f, orig: b}, nil
}

func (fl *flipper) flip(off int, bit uint) error {
	_, err := fl.f.WriteAt([]byte{fl.orig[off] ^ (1 << bit)}, int64(off))
	return err
}

// restore puts the original content back (the whole file when a recovery pass changed its size).
func (fl *flipper) restore(off int) error {
	st, err := os.Stat(fl.path)
	if err != nil || st.Size() != int64(len(fl.orig)) {
		if err := fl.f.Truncate(int64(len(fl.orig))); err != nil {
			return err
		}
		_, err := fl.f.WriteAt(fl.orig, 0)
		return err
	}
	_, err = fl.f.WriteAt([]byte{fl.orig[off]}, int64(off))
	return err
}

func (fl *flipper) close() { _ = fl.f.Close() }

func TestCheck(t *testing.T) {
	s := &pbt.Suite{ID: "C14", Level: "fault_enumeration",
		Rule: "three specs (wal, vlog, sst). gen: rapid-drawn record/entry sets, small in the quick tier so that whole files are enumerated (WAL: 1-2 segments of 1-4 typed records, payload 0..24, some 40..70; vlog: 1-2 files of 1-3 entries with internal keys, values 0..24, some 25..60 and 126..131 (varint boundary), arbitrary meta, 0/small/large expiry, AppendEntry or batched AppendEntries; SST: 1..7 sorted internal-key entries, block size 48..4096 so tables have 1..7 blocks, with/without bloom; the thorough tier draws 2-4x larger files). For each built file EVERY bit of every record / data block is flipped (one at a time) when the flippable region is <= the case's limit (label flips:exhaustive), otherwise every bit of the drawn records/blocks (label flips:picked); the 8 most significant bits of a WAL length field are skipped (label flip:length-top8-skipped; they make the decoder allocate 16 MiB..2 GiB) except in one static case of the thorough tier; SST index+footer bytes (evenly spaced, at most IndexBytes) are flipped too with the weaker requirement 'open fails or data identical'. static: fixed small files per spec, all bits. Oracle per flip and read path (wal: Replay, VerifyDir+Replay; vlog: ReadValue, Read+DecodeEntry, Iterate, VerifyDir+same for one bit per byte; sst: reopen from the corrupted file with no block/bloom cache and the index cache entry dropped, Search of every key, forward+reverse iteration): error, or record absent, or data identical to what was written at that position; never different data for an existing record, never an invented record, never a panic outside the SST opening call. Fourth spec (dbflip): a real database with block and bloom caches on writes 4..60 keys into 1..3 flushed SSTs (optionally one compaction), is closed, one generated bit of a data block is flipped per trial, the database is reopened and a generated script of Get / LSM.Prefetch (the call of the hot-key prefetcher) / forward and reverse iteration runs (also the sweep: prefetch every key, then get every key); same oracle, i.e. a cache warmed from the corrupted block must not turn it into valid data. Non-trivial = the case flipped bits inside key/value/payload/type/meta bytes (not only length fields, checksums or slack) and at least one such flip was detected (error/absent) rather than read back identical; distinct by case content.",
		Assumptions: []string{
			"a single flipped bit per trial; the rest of the directory is intact",
			"only record bytes of WAL segments, record bytes of value-log files (not the 20-byte zero header) and SST data blocks are in the scope of the property; SST index/footer flips are only required to fail the open or leave data identical",
			"a panic inside openTable (reopen) counts as 'reports an error' because the engine signals SST open errors with utils.Panic; a panic in Search/iteration/Replay/Read is a violation",
			"vlog.Manager.Read returns raw bytes by design; its callers decode them with kv.DecodeValueSlice / kv.DecodeEntry, so the judged read path is Read+decode (ReadValue)",
			"the SST is re-opened on an LSM with BlockCacheSize=0/BloomCacheSize=0 and the index cache entry dropped, so no cached block can hide the corruption",
		},
	}
	pbt.Add(s, &pbt.Spec[WalCase]{Name: "wal", Gen: genWal, Run: runWal, Static: staticWal, Quick: 24, Thorough: 240, Shards: 8})
	pbt.Add(s, &pbt.Spec[VlogCase]{Name: "vlog", Gen: genVlog, Run: runVlog, Static: staticVlog, Quick: 16, Thorough: 240, Shards: 8})
	pbt.Add(s, &pbt.Spec[SstCase]{Name: "sst", Gen: genSst, Run: runSst, Static: staticSst, Quick: 16, Thorough: 160, Shards: 8})
	// database-level: caches on, prefetch/get/iterate scripts over a reopened database (dbflip_test.go)
	pbt.Add(s, &pbt.Spec[DbFlipCase]{Name: "dbflip", Gen: genDbFlip, Run: runDbFlip, Static: staticDbFlip, Quick: 30, Thorough: 600, Shards: 8})
	s.Extra("flip_enumeration", "within a case labelled flips:exhaustive every bit of every record/data block of the built file was flipped; the evidence labels 'flips' count the trials")
	s.Extra("static_domain_enumerated_completely", true)
	s.Main(t)
	_ = fmt.Sprint
}
