package c14

import (
	"bytes"
	"encoding/binary"
	"fmt"
	"os"
	"path/filepath"

	"github.com/feichai0017/NoKV/kv"
	"github.com/feichai0017/NoKV/vlog"
	"nokvverif/internal/pbt"
	"pgregory.net/rapid"
)

type VEnt struct {
	Key  []byte `json:"key"` // user key
	Ver  uint64 `json:"ver"`
	VN   int    `json:"vn"`
	Seed uint32 `json:"s"`
	Meta byte   `json:"meta"`
	Exp  uint64 `json:"exp"`
}

type VlogCase struct {
	Files [][]VEnt `json:"files"` // entries per value-log file (Rotate between)
	Batch bool     `json:"batch"` // AppendEntries (one reservation) instead of AppendEntry per entry
	Limit int      `json:"limit"`
	Pick  []uint32 `json:"pick"`
	Salt  uint32   `json:"salt"` // selects which bit of each byte also goes through VerifyDir
}

type vrec struct {
	ptr                      kv.ValuePtr
	key, val                 []byte
	meta                     byte
	exp                      uint64
	hlen                     int // header bytes
	klenBytes, vlenBytes     int
	metaBytes, expBytesCount int
}

func uvarintLen(x uint64) int {
	var b [binary.MaxVarintLen64]byte
	return binary.PutUvarint(b[:], x)
}

func runVlog(c VlogCase, r *pbt.Rec) (err error) {
	dir, cleanup := pbt.TempDir("c14v")
	defer cleanup()
	cfg := vlog.Config{Dir: dir, MaxSize: 1 << 20}
	m, err := vlog.Open(cfg)
	if err != nil {
		return fmt.Errorf("harness: %v", err)
	}
	var recs []vrec
	for fi, f := range c.Files {
		if fi > 0 {
			if err := m.Rotate(); err != nil {
				return fmt.Errorf("harness: rotate: %v", err)
			}
		}
		var ents []*kv.Entry
		for _, e := range f {
			vn := e.VN
			if vn < 0 {
				vn = 0
			}
			if vn > 2000 {
				vn = 2000
			}
			ver := e.Ver
			ke := kv.NewEntry(kv.InternalKey(kv.CFDefault, e.Key, ver), fill(vn, e.Seed))
			ke.Meta, ke.ExpiresAt = e.Meta, e.Exp
			ents = append(ents, ke)
		}
		var ptrs []kv.ValuePtr
		if c.Batch {
			ptrs, err = m.AppendEntries(ents, nil)
			if err != nil {
				return fmt.Errorf("harness: append: %v", err)
			}
		} else {
			for _, ke := range ents {
				p, err := m.AppendEntry(ke)
				if err != nil {
					return fmt.Errorf("harness: append: %v", err)
				}
				ptrs = append(ptrs, *p)
			}
		}
		for i, ke := range ents {
			rc := vrec{ptr: ptrs[i], key: ke.Key, val: ke.Value, meta: ke.Meta, exp: ke.ExpiresAt}
			rc.klenBytes, rc.vlenBytes = uvarintLen(uint64(len(ke.Key))), uvarintLen(uint64(len(ke.Value)))
			rc.metaBytes, rc.expBytesCount = uvarintLen(uint64(ke.Meta)), uvarintLen(ke.ExpiresAt)
			rc.hlen = rc.klenBytes + rc.vlenBytes + rc.metaBytes + rc.expBytesCount
			if int(rc.ptr.Len) != rc.hlen+len(ke.Key)+len(ke.Value)+4 {
				return pbt.Failf("baseline", "pointer length %d for an entry of %d+%d+%d+4 bytes", rc.ptr.Len, rc.hlen, len(ke.Key), len(ke.Value))
			}
			recs = append(recs, rc)
		}
	}
	if err := m.Close(); err != nil {
		return fmt.Errorf("harness: close: %v", err)
	}
	if len(recs) == 0 {
		return nil
	}
	// DB.Open runs the recovery check before opening the value log; it trims the preallocated tail.
	if err := vlog.VerifyDir(cfg); err != nil {
		return pbt.Failf("baseline", "VerifyDir on an intact value log: %v", err)
	}
	type pos struct{ fid, off uint32 }
	byPos := map[pos]int{}
	fids := map[uint32]bool{}
	for i, rc := range recs {
		byPos[pos{rc.ptr.Fid, rc.ptr.Offset}] = i
		fids[rc.ptr.Fid] = true
	}
	for fi := range c.Files {
		fids[uint32(fi)] = true
	}

	// judge opens the value log and exercises every read path.
	judge := func(where string) (outcome string, fail error) {
		defer func() {
			if p := recover(); p != nil {
				fail = pbt.Failf("vlog-panic", "%s: panic in a value-log read path: %v\n%s", where, p, debug3())
			}
		}()
		var m *vlog.Manager
		var oerr error
		quiet(func() { m, oerr = vlog.Open(cfg) })
		if oerr != nil {
			return "open-error", nil
		}
		defer func() { _ = m.Close() }()
		errs, absent := 0, 0
		for i, rc := range recs {
			p := rc.ptr
			val, cb, err := m.ReadValue(&p, vlog.ReadOptions{Mode: vlog.ReadModeCopy})
			if cb != nil {
				cb()
			}
			if err != nil {
				errs++
			} else if !bytes.Equal(val, rc.val) {
				return "", pbt.Failf("vlog-altered-value", "%s: ReadValue(record %d, fid %d offset %d) = %x, written %x", where, i, p.Fid, p.Offset, val, rc.val)
			}
			raw, cb, err := m.Read(&p)
			if err != nil {
				if cb != nil {
					cb()
				}
				errs++
				continue
			}
			e, derr := kv.DecodeEntry(raw)
			if derr != nil {
				cb()
				errs++
				continue
			}
			bad := !bytes.Equal(e.Key, rc.key) || !bytes.Equal(e.Value, rc.val) || e.Meta != rc.meta || e.ExpiresAt != rc.exp
			desc := fmt.Sprintf("key=%x value=%x meta=%d expires=%d", e.Key, e.Value, e.Meta, e.ExpiresAt)
			e.DecrRef()
			cb()
			if bad {
				return "", pbt.Failf("vlog-altered-entry", "%s: Read+DecodeEntry(record %d) = %s, written key=%x value=%x meta=%d expires=%d", where, i, desc, rc.key, rc.val, rc.meta, rc.exp)
			}
		}
		for fid := range fids {
			seen := 0
			_, ierr := m.Iterate(fid, 0, func(e *kv.Entry, vp *kv.ValuePtr) error {
				if fail != nil {
					return nil
				}
				i, ok := byPos[pos{fid, vp.Offset}]
				if !ok {
					fail = pbt.Failf("vlog-invented", "%s: Iterate(fid %d) yields a record at offset %d (key=%x, %d value bytes) where none was written", where, fid, vp.Offset, e.Key, len(e.Value))
					return nil
				}
				rc := recs[i]
				if !bytes.Equal(e.Key, rc.key) || !bytes.Equal(e.Value, rc.val) || e.Meta != rc.meta || e.ExpiresAt != rc.exp || vp.Len != rc.ptr.Len {
					fail = pbt.Failf("vlog-altered-iter", "%s: Iterate(fid %d) yields record %d as key=%x value=%x meta=%d expires=%d len=%d, written key=%x value=%x meta=%d expires=%d len=%d", where, fid, i, e.Key, e.Value, e.Meta, e.ExpiresAt, vp.Len, rc.key, rc.val, rc.meta, rc.exp, rc.ptr.Len)
				}
				seen++
				return nil
			})
			if fail != nil {
				return "", fail
			}
			if ierr != nil {
				errs++
			}
			want := 0
			for _, rc := range recs {
				if rc.ptr.Fid == fid {
					want++
				}
			}
			if seen < want {
				absent++
			}
		}
		switch {
		case errs > 0:
			return "error", nil
		case absent > 0:
			return "absent", nil
		}
		return "identical", nil
	}
	if out, fail := judge("intact value log"); fail != nil || out != "identical" {
		return pbt.Failf("baseline", "intact value log reads as %q: %v", out, fail)
	}

	var total int
	for _, rc := range recs {
		total += int(rc.ptr.Len)
	}
	var targets []int
	if total <= c.Limit {
		for i := range recs {
			targets = append(targets, i)
		}
		r.Label("flips:exhaustive")
	} else {
		seen := map[int]bool{}
		for _, p := range c.Pick {
			i := int(p % uint32(len(recs)))
			if !seen[i] {
				seen[i] = true
				targets = append(targets, i)
			}
			if len(targets) == 2 {
				break
			}
		}
		if len(targets) == 0 {
			targets = append(targets, len(recs)-1)
		}
		r.Label("flips:picked")
	}
	if len(c.Files) > 1 {
		r.Label("multi-file")
	}

	flippers := map[uint32]*flipper{}
	defer func() {
		for _, fl := range flippers {
			fl.close()
		}
	}()
	ntFlip, ntCaught := false, false
	for _, ti := range targets {
		rc := recs[ti]
		fl := flippers[rc.ptr.Fid]
		if fl == nil {
			path := filepath.Join(dir, fmt.Sprintf("%05d.vlog", rc.ptr.Fid))
			fl, err = openFlipper(path)
			if err != nil {
				return fmt.Errorf("harness: %v", err)
			}
			flippers[rc.ptr.Fid] = fl
		}
		start, end := int(rc.ptr.Offset), int(rc.ptr.Offset+rc.ptr.Len)
		if len(fl.orig) < end {
			return pbt.Failf("baseline", "value log file %d is %d bytes after VerifyDir, record %d should end at %d", rc.ptr.Fid, len(fl.orig), ti, end)
		}
		for off := start; off < end; off++ {
			field := "value"
			switch d := off - start; {
			case d < rc.klenBytes:
				field = "keylen"
			case d < rc.klenBytes+rc.vlenBytes:
				field = "valuelen"
			case d < rc.klenBytes+rc.vlenBytes+rc.metaBytes:
				field = "meta"
			case d < rc.hlen:
				field = "expires"
			case d < rc.hlen+len(rc.key):
				field = "key"
			case off >= end-4:
				field = "crc"
			}
			for bit := uint(0); bit < 8; bit++ {
				where := fmt.Sprintf("bit %d of byte %d (%s of record %d at fid %d offset %d: %d key bytes, %d value bytes)", bit, off, field, ti, rc.ptr.Fid, rc.ptr.Offset, len(rc.key), len(rc.val))
				if err := fl.flip(off, bit); err != nil {
					return fmt.Errorf("harness: %v", err)
				}
				r.Label("flips")
				r.Label("flip:" + field)
				out, fail := judge(where)
				if fail != nil {
					_ = fl.restore(off)
					return fail
				}
				r.Label("read:" + out)
				if field == "key" || field == "value" || field == "meta" || field == "expires" {
					ntFlip = true
					if out != "identical" {
						ntCaught = true
					}
				}
				// recovery check first (sampled: one bit per byte; VerifyDir allocates 1 MiB per file)
				if uint(uint32(off)*5+c.Salt)%8 == bit {
					var verr error
					quiet(func() { verr = vlog.VerifyDir(cfg) })
					outB := "verifydir-error"
					if verr == nil {
						outB, fail = judge(where + " after VerifyDir")
						if fail != nil {
							_ = fl.restore(off)
							return fail
						}
					}
					r.Label("verify+read:" + outB)
				}
				if err := fl.restore(off); err != nil {
					return fmt.Errorf("harness: %v", err)
				}
			}
		}
	}
	if ntFlip && ntCaught {
		r.NT()
	}
	// the files must be back to their original content
	for fid, fl := range flippers {
		b, _ := os.ReadFile(fl.path)
		if !bytes.Equal(b, fl.orig) {
			return fmt.Errorf("harness: value log file %d not restored", fid)
		}
	}
	return nil
}

func genVEnt(t *rapid.T) VEnt {
	e := VEnt{
		Key:  rapid.SliceOfN(rapid.Byte(), 1, 8).Draw(t, "key"),
		Ver:  rapid.SampledFrom([]uint64{1, 2, 3, 77, 1 << 40}).Draw(t, "ver"),
		Seed: rapid.Uint32().Draw(t, "seed"),
		Meta: rapid.SampledFrom([]byte{0, 0, kv.BitDelete, kv.BitValuePointer, 0x7f, 0x80, 0xff}).Draw(t, "meta"),
		Exp:  rapid.SampledFrom([]uint64{0, 0, 1, 127, 128, 4102444800, 1<<63 + 5}).Draw(t, "exp"),
	}
	switch k := rapid.IntRange(0, 11).Draw(t, "vs"); {
	case k == 0:
		e.VN = 0
	case k < 10:
		e.VN = rapid.IntRange(1, 24).Draw(t, "vn")
	case k == 10:
		e.VN = rapid.IntRange(126, 131).Draw(t, "vn2") // around the 1-/2-byte varint boundary of the value length
	default:
		e.VN = rapid.IntRange(136, 400).Draw(t, "vn3")
		if pbt.Tier() != "thorough" {
			e.VN = rapid.IntRange(25, 60).Draw(t, "vnmid")
		}
	}
	return e
}

func genVlog(t *rapid.T) VlogCase {
	c := VlogCase{Limit: 700, Batch: rapid.Bool().Draw(t, "batch"), Salt: rapid.Uint32().Draw(t, "salt")}
	if pbt.Tier() == "thorough" {
		c.Limit = 3000
	}
	nf := rapid.SampledFrom([]int{1, 1, 2}).Draw(t, "nfiles")
	for i := 0; i < nf; i++ {
		n := rapid.IntRange(1, 3).Draw(t, "nent")
		if pbt.Tier() == "thorough" {
			n = rapid.IntRange(1, 7).Draw(t, "nentT")
		}
		var f []VEnt
		for j := 0; j < n; j++ {
			f = append(f, genVEnt(t))
		}
		c.Files = append(c.Files, f)
	}
	c.Pick = rapid.SliceOfN(rapid.Uint32(), 2, 2).Draw(t, "pick")
	return c
}

func staticVlog() []VlogCase {
	return []VlogCase{
		{Limit: 1 << 20, Files: [][]VEnt{{{Key: []byte("a"), Ver: 1, VN: 0}}}},
		{Limit: 1 << 20, Batch: true, Salt: 3, Files: [][]VEnt{{{Key: []byte("k1"), Ver: 2, VN: 5, Seed: 1}, {Key: []byte("k2"), Ver: 3, VN: 17, Seed: 2, Meta: kv.BitValuePointer, Exp: 4102444800}}}},
		{Limit: 1 << 20, Salt: 5, Files: [][]VEnt{{{Key: []byte("x"), Ver: 9, VN: 12, Seed: 3, Meta: 0xff, Exp: 1<<63 + 5}}, {{Key: []byte("yy"), Ver: 1, VN: 3, Seed: 4, Meta: kv.BitDelete}, {Key: []byte("z"), Ver: 1 << 40, VN: 20, Seed: 5, Exp: 127}}}},
	}
}
