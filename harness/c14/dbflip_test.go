package c14

// dbflip: the same oracle one level up.  A real database (block cache and bloom cache ON,
// as in the default options) writes keys, flushes them into SSTs and is closed; one bit of
// an SST data block is flipped; the database is reopened and a generated script of reads
// runs: point gets, cache-warming prefetches (LSM.Prefetch, the call the hot-key prefetcher
// makes) and full iterations, in any order.  A read may fail or report the key absent, but
// must never return different bytes for a written key or a key that was never written -
// also when an earlier prefetch / read has put the corrupted block into a cache.

import (
	"bytes"
	"errors"
	"fmt"
	"os"
	"path/filepath"
	"sort"

	NoKV "github.com/feichai0017/NoKV"
	"github.com/feichai0017/NoKV/kv"
	"github.com/feichai0017/NoKV/utils"
	"nokvverif/internal/eng"
	"nokvverif/internal/pbt"
	"pgregory.net/rapid"
)

type DbFlip struct {
	File  uint32 `json:"file"`  // SST (mod count, sorted by name)
	Block uint32 `json:"block"` // data block (mod count)
	Off   uint32 `json:"off"`   // byte inside the block (mod length)
	Bit   uint8  `json:"bit"`
}

type DbStep struct {
	Op  string `json:"op"` // get | prefetch | iter | riter
	Key int    `json:"key"`
}

type DbFlipCase struct {
	Engine  string   `json:"engine"`
	Keys    int      `json:"keys"`
	VSizes  []int    `json:"vsizes"`  // value size of key i = VSizes[i % len]
	Batches int      `json:"batches"` // keys are spread over this many flushed tables
	Compact bool     `json:"compact"` // run one compaction step before closing (tables leave L0)
	Flips   []DbFlip `json:"flips"`
	Script  []DbStep `json:"script"`
}

func dbKey(i int) []byte { return []byte(fmt.Sprintf("key-%04d", i)) }

func genDbFlip(t *rapid.T) DbFlipCase {
	c := DbFlipCase{
		Engine:  rapid.SampledFrom([]string{"skiplist", "art"}).Draw(t, "engine"),
		Keys:    rapid.IntRange(4, 60).Draw(t, "keys"),
		Batches: rapid.IntRange(1, 3).Draw(t, "batches"),
		Compact: rapid.IntRange(0, 3).Draw(t, "compact") == 0,
	}
	n := rapid.IntRange(1, 4).Draw(t, "nsizes")
	for i := 0; i < n; i++ {
		c.VSizes = append(c.VSizes, rapid.SampledFrom([]int{1, 8, 40, 200, 900, 3000}).Draw(t, "vsize"))
	}
	nf := rapid.IntRange(2, 6).Draw(t, "nflips")
	for i := 0; i < nf; i++ {
		c.Flips = append(c.Flips, DbFlip{File: rapid.Uint32().Draw(t, "file"), Block: rapid.Uint32().Draw(t, "block"),
			Off: rapid.Uint32().Draw(t, "off"), Bit: uint8(rapid.IntRange(0, 7).Draw(t, "bit"))})
	}
	ns := rapid.IntRange(3, 40).Draw(t, "nsteps")
	for i := 0; i < ns; i++ {
		op := rapid.SampledFrom([]string{"get", "get", "get", "prefetch", "prefetch", "iter", "riter"}).Draw(t, "op")
		c.Script = append(c.Script, DbStep{Op: op, Key: rapid.IntRange(0, c.Keys-1).Draw(t, "key")})
	}
	if rapid.Bool().Draw(t, "sweep") {
		// prefetch every key, then read every key: whatever block is corrupted has been warmed first
		c.Script = nil
		for i := 0; i < c.Keys; i++ {
			c.Script = append(c.Script, DbStep{Op: "prefetch", Key: i})
		}
		for i := 0; i < c.Keys; i++ {
			c.Script = append(c.Script, DbStep{Op: "get", Key: i})
		}
		c.Script = append(c.Script, DbStep{Op: "iter"})
	}
	return c
}

func staticDbFlip() []DbFlipCase {
	var sweep []DbStep
	for i := 0; i < 12; i++ {
		sweep = append(sweep, DbStep{Op: "prefetch", Key: i})
	}
	for i := 0; i < 12; i++ {
		sweep = append(sweep, DbStep{Op: "get", Key: i})
	}
	sweep = append(sweep, DbStep{Op: "iter"}, DbStep{Op: "riter"})
	var flips []DbFlip
	for o := uint32(0); o < 400; o += 7 {
		flips = append(flips, DbFlip{Off: o, Bit: uint8(o % 8)})
	}
	return []DbFlipCase{{Engine: "skiplist", Keys: 12, VSizes: []int{40}, Batches: 1, Flips: flips, Script: sweep}}
}

func runDbFlip(c DbFlipCase, r *pbt.Rec) error {
	if c.Keys <= 0 || len(c.VSizes) == 0 || len(c.Flips) == 0 {
		return nil
	}
	cfg := eng.Cfg{Engine: c.Engine, ValueThreshold: 1 << 20, Buckets: 1, MemTableSize: 1 << 20, L0Tables: 1000}
	dir, cleanup := pbt.TempDir("c14db")
	defer cleanup()
	var db *NoKV.DB
	var err error
	quiet(func() { db, err = eng.Open(cfg, dir, nil) })
	if err != nil {
		return fmt.Errorf("harness: open: %v", err)
	}
	model := map[string][]byte{}
	batches := c.Batches
	if batches < 1 {
		batches = 1
	}
	for b := 0; b < batches; b++ {
		for i := b; i < c.Keys; i += batches {
			v := fill(c.VSizes[i%len(c.VSizes)], uint32(i)+1)
			if serr := db.Set(dbKey(i), v); serr != nil {
				_ = eng.Close(db)
				return fmt.Errorf("harness: set: %v", serr)
			}
			model[string(dbKey(i))] = v
		}
		if _, merr := eng.DoMaint(db, eng.Maint{Kind: "rotate"}, r); merr != nil {
			_ = eng.Close(db)
			return fmt.Errorf("harness: flush: %v", merr)
		}
	}
	if c.Compact {
		_, _ = eng.DoMaint(db, eng.Maint{Kind: "drain"}, r)
	}
	if cerr := eng.Close(db); cerr != nil {
		return fmt.Errorf("harness: close: %v", cerr)
	}
	ssts, _ := filepath.Glob(filepath.Join(dir, "*.sst"))
	sort.Strings(ssts)
	if len(ssts) == 0 {
		return fmt.Errorf("harness: no SST after flush")
	}

	nt := false
	for fi, f := range c.Flips {
		path := ssts[int(f.File%uint32(len(ssts)))]
		fl, ferr := openFlipper(path)
		if ferr != nil {
			return fmt.Errorf("harness: %v", ferr)
		}
		blocks, _, lerr := parseLayout(fl.orig)
		if lerr != nil || len(blocks) == 0 {
			fl.close()
			return fmt.Errorf("harness: layout of %s: %v", filepath.Base(path), lerr)
		}
		bl := blocks[int(f.Block%uint32(len(blocks)))]
		off := bl.off + int(f.Off%uint32(bl.length))
		field := bl.field(off)
		if ferr := fl.flip(off, uint(f.Bit%8)); ferr != nil {
			fl.close()
			return fmt.Errorf("harness: %v", ferr)
		}
		where := fmt.Sprintf("flip %d: bit %d of byte %d (%s) of %s", fi, f.Bit%8, off, field, filepath.Base(path))
		verdict, detected, warmedThenRead := judgeDb(cfg, dir, c, model, where, r)
		rerr := fl.restore(off)
		fl.close()
		if verdict != nil {
			return verdict
		}
		if rerr != nil {
			return fmt.Errorf("harness: restore: %v", rerr)
		}
		r.Label("dbflip:" + field)
		if detected {
			r.Label("dbflip:detected")
		}
		if (field == "value" || field == "key" || field == "meta" || field == "entryhdr") && detected && warmedThenRead {
			nt = true
		}
	}
	if nt {
		r.NT()
	}
	return nil
}

// judgeDb reopens the database over the corrupted file and runs the script.
func judgeDb(cfg eng.Cfg, dir string, c DbFlipCase, model map[string][]byte, where string, r *pbt.Rec) (fail error, detected, warmedThenRead bool) {
	var db *NoKV.DB
	var err error
	quiet(func() { db, err = eng.Open(cfg, dir, nil) })
	if err != nil {
		r.Label("dbflip:open-fails")
		return nil, true, false
	}
	defer func() {
		quiet(func() { _ = eng.Close(db) })
		// files the reopened database created (new WAL segment, manifest edits) do not matter for the next flip
	}()
	defer func() {
		if p := recover(); p != nil {
			fail = pbt.Failf("db-panic", "%s: panic in a read path of the reopened database: %v\n%s", where, firstLine(fmt.Sprint(p)), debug3())
		}
	}()
	warmed := false
	for si, s := range c.Script {
		key := dbKey(s.Key % c.Keys)
		switch s.Op {
		case "prefetch":
			quiet(func() { db.VerifLSM().Prefetch(kv.InternalKey(kv.CFDefault, key, ^uint64(0))) })
			warmed = true
		case "get":
			var e *kv.Entry
			var gerr error
			quiet(func() { e, gerr = db.Get(key) })
			if warmed {
				warmedThenRead = true
			}
			if gerr != nil {
				detected = true
				if !errors.Is(gerr, utils.ErrKeyNotFound) {
					r.Label("dbflip:get-error")
				} else {
					r.Label("dbflip:get-absent")
				}
				continue
			}
			if want := model[string(key)]; !bytes.Equal(e.Value, want) {
				return pbt.Failf("db-altered-get", "%s: script step %d Get(%q) returns %d bytes %s, written %d bytes %s (steps before it: %s)",
					where, si, key, len(e.Value), briefBytes(e.Value), len(want), briefBytes(want), scriptPrefix(c.Script, si)), detected, warmedThenRead
			}
		case "iter", "riter":
			if warmed {
				warmedThenRead = true
			}
			var bad error
			quiet(func() {
				it := db.NewIterator(&utils.Options{IsAsc: s.Op == "iter"})
				defer func() { _ = it.Close() }()
				n := 0
				for it.Rewind(); it.Valid(); it.Next() {
					ge := it.Item().Entry()
					want, ok := model[string(ge.Key)]
					if !ok {
						bad = pbt.Failf("db-invented", "%s: script step %d iteration (%s) yields key %q (%d-byte value) which was never written", where, si, s.Op, ge.Key, len(ge.Value))
						return
					}
					if !bytes.Equal(ge.Value, want) {
						bad = pbt.Failf("db-altered-iter", "%s: script step %d iteration (%s) yields key %q with %d bytes %s, written %d bytes %s (steps before it: %s)",
							where, si, s.Op, ge.Key, len(ge.Value), briefBytes(ge.Value), len(want), briefBytes(want), scriptPrefix(c.Script, si))
						return
					}
					n++
					if n > 4*len(model)+4 {
						bad = pbt.Failf("db-iter-loop", "%s: iteration does not terminate", where)
						return
					}
				}
				if n < len(model) {
					detected = true
				}
			})
			if bad != nil {
				return bad, detected, warmedThenRead
			}
		}
	}
	return nil, detected, warmedThenRead
}

func briefBytes(b []byte) string {
	if len(b) > 12 {
		return fmt.Sprintf("%x…", b[:12])
	}
	return fmt.Sprintf("%x", b)
}

func scriptPrefix(s []DbStep, n int) string {
	var buf bytes.Buffer
	lo := 0
	if n > 8 {
		lo = n - 8
		buf.WriteString("… ")
	}
	for i := lo; i < n; i++ {
		fmt.Fprintf(&buf, "%s(%d) ", s[i].Op, s[i].Key)
	}
	return buf.String()
}

var _ = os.Remove
