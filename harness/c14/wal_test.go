package c14

import (
	"bytes"
	"fmt"
	"path/filepath"

	"github.com/feichai0017/NoKV/wal"
	"nokvverif/internal/pbt"
	"pgregory.net/rapid"
)

type WRec struct {
	T    uint8  `json:"t"`
	N    int    `json:"n"`
	Seed uint32 `json:"s"`
}

type WalCase struct {
	Segs  [][]WRec `json:"segs"`  // records per segment (Rotate between)
	Limit int      `json:"limit"` // flip every bit of every record when the record bytes total <= Limit
	Pick  []uint32 `json:"pick"`  // otherwise: records (mod count) whose bits are all flipped
	// TopBits: also flip the 8 most significant bits of the 4-byte length field.  Such a flip makes
	// DecodeRecord allocate 16 MiB..2 GiB (make([]byte, length) before the file size is known), so it
	// is only done by one static case of the thorough tier, in a single process.
	TopBits bool     `json:"topbits,omitempty"`
	// Buf is wal.Config.BufferSize (0 = 4096): with 16 or 64 most records are larger than the
	// reader's buffer and take the large-frame path of the record iterator.
	Buf int `json:"buf,omitempty"`
	Excl    []string `json:"excl,omitempty"`
}

type wrec struct {
	seg      uint32
	off, end int64
	typ      wal.RecordType
	pay      []byte
}

func runWal(c WalCase, r *pbt.Rec) error {
	dir, cleanup := pbt.TempDir("c14w")
	defer cleanup()
	cfg := wal.Config{Dir: dir, BufferSize: 4096}
	if c.Buf > 0 {
		cfg.BufferSize = c.Buf
		r.Label(fmt.Sprintf("wal:buffer=%d", c.Buf))
	}
	m, err := wal.Open(cfg)
	if err != nil {
		return fmt.Errorf("harness: %v", err)
	}
	var recs []wrec
	for si, seg := range c.Segs {
		if si > 0 {
			if err := m.Rotate(); err != nil {
				return fmt.Errorf("harness: rotate: %v", err)
			}
		}
		for _, w := range seg {
			n := w.N
			if n < 0 {
				n = 0
			}
			if n > 4096 {
				n = 4096
			}
			rec := wal.Record{Type: wal.RecordType(w.T % 4), Payload: fill(n, w.Seed)}
			infos, err := m.AppendRecords(rec)
			if err != nil || len(infos) != 1 {
				return fmt.Errorf("harness: append: %v", err)
			}
			recs = append(recs, wrec{seg: infos[0].SegmentID, off: infos[0].Offset, end: infos[0].Offset + int64(n) + 9, typ: rec.Type, pay: rec.Payload})
		}
	}
	if err := m.Close(); err != nil {
		return fmt.Errorf("harness: close: %v", err)
	}
	if len(recs) == 0 {
		return nil
	}
	type pos struct {
		seg uint32
		off int64
	}
	byPos := map[pos]int{}
	for i, rc := range recs {
		byPos[pos{rc.seg, rc.off}] = i
	}

	// one manager stays open for the direct path: Replay re-reads the files every time
	m, err = wal.Open(cfg)
	if err != nil {
		return fmt.Errorf("harness: reopen: %v", err)
	}
	defer func() { _ = m.Close() }()

	// judge replays the log and compares every yielded record with what was written there.
	judge := func(m *wal.Manager, where string) (yielded int, rerr error, fail error) {
		last := pos{}
		rerr = m.Replay(func(info wal.EntryInfo, p []byte) error {
			if fail != nil {
				return nil
			}
			yielded++
			at := pos{info.SegmentID, info.Offset}
			i, ok := byPos[at]
			if !ok {
				fail = pbt.Failf("wal-invented", "%s: Replay yields a record at segment %d offset %d (type %d, %d bytes) where none was written", where, at.seg, at.off, info.Type, len(p))
				return nil
			}
			if info.Type != recs[i].typ || !bytes.Equal(p, recs[i].pay) {
				fail = pbt.Failf("wal-altered", "%s: Replay yields record %d (segment %d offset %d) as type=%d payload=%x, written type=%d payload=%x", where, i, at.seg, at.off, info.Type, p, recs[i].typ, recs[i].pay)
				return nil
			}
			if yielded > 1 && (at.seg < last.seg || (at.seg == last.seg && at.off <= last.off)) {
				fail = pbt.Failf("wal-order", "%s: Replay yields segment %d offset %d after segment %d offset %d", where, at.seg, at.off, last.seg, last.off)
			}
			last = at
			return nil
		})
		return
	}
	if n, rerr, fail := judge(m, "intact log"); fail != nil || rerr != nil || n != len(recs) {
		return pbt.Failf("baseline", "intact log: Replay yields %d of %d records, err=%v, %v", n, len(recs), rerr, fail)
	}

	var total int64
	for _, rc := range recs {
		total += rc.end - rc.off
	}
	targets := make([]int, 0, len(recs))
	if total <= int64(c.Limit) {
		for i := range recs {
			targets = append(targets, i)
		}
		r.Label("flips:exhaustive")
	} else {
		seen := map[int]bool{}
		for _, p := range c.Pick {
			i := int(p % uint32(len(recs)))
			if !seen[i] {
				seen[i] = true
				targets = append(targets, i)
			}
			if len(targets) == 3 {
				break
			}
		}
		if len(targets) == 0 {
			targets = append(targets, len(recs)-1)
		}
		r.Label("flips:picked")
	}
	if len(c.Segs) > 1 {
		r.Label("multi-segment")
	}

	flippers := map[uint32]*flipper{}
	defer func() {
		for _, fl := range flippers {
			fl.close()
		}
	}()
	ntFlip, ntCaught := false, false
	for _, ti := range targets {
		rc := recs[ti]
		fl := flippers[rc.seg]
		if fl == nil {
			fl, err = openFlipper(filepath.Join(dir, fmt.Sprintf("%05d.wal", rc.seg)))
			if err != nil {
				return fmt.Errorf("harness: %v", err)
			}
			flippers[rc.seg] = fl
		}
		if int64(len(fl.orig)) < rc.end {
			return pbt.Failf("baseline", "segment %d is %d bytes, record %d should end at %d", rc.seg, len(fl.orig), ti, rc.end)
		}
		for off := rc.off; off < rc.end; off++ {
			field := "payload"
			switch d := off - rc.off; {
			case d < 4:
				field = "length"
			case d == 4:
				field = "type"
			case off >= rc.end-4:
				field = "crc"
			}
			for bit := uint(0); bit < 8; bit++ {
				if off == rc.off && !c.TopBits {
					r.Label("flip:length-top8-skipped")
					continue
				}
				where := fmt.Sprintf("bit %d of byte %d (%s of record %d at segment %d offset %d, %d payload bytes)", bit, off, field, ti, rc.seg, rc.off, len(rc.pay))
				if err := fl.flip(int(off), bit); err != nil {
					return fmt.Errorf("harness: %v", err)
				}
				r.Label("flips")
				r.Label("flip:" + field)
				// path A: replay directly
				n, rerr, fail := judge(m, where)
				if fail != nil {
					_ = fl.restore(int(off))
					return fail
				}
				out := "identical"
				switch {
				case rerr != nil:
					out = "error"
				case n < len(recs):
					out = "absent"
				}
				r.Label("replay:" + out)
				// path B: recovery check first, as DB.Open does
				var verr error
				verr = wal.VerifyDir(dir, nil)
				outB := "verifydir-error"
				if verr == nil {
					nB, rerrB, failB := judge(m, where+" after VerifyDir")
					if failB != nil {
						_ = fl.restore(int(off))
						return failB
					}
					switch {
					case rerrB != nil:
						outB = "error"
					case nB < len(recs):
						outB = "absent"
					default:
						outB = "identical"
					}
				}
				r.Label("verify+replay:" + outB)
				if field == "payload" || field == "type" {
					ntFlip = true
					if out != "identical" && outB != "identical" {
						ntCaught = true
					}
				}
				if err := fl.restore(int(off)); err != nil {
					return fmt.Errorf("harness: %v", err)
				}
			}
		}
	}
	if ntFlip && ntCaught {
		r.NT()
	}
	return nil
}

func genWRec(t *rapid.T) WRec {
	w := WRec{T: uint8(rapid.IntRange(0, 3).Draw(t, "type")), Seed: rapid.Uint32().Draw(t, "seed")}
	switch k := rapid.IntRange(0, 9).Draw(t, "sz"); {
	case k == 0:
		w.N = 0
	case k == 1:
		w.N = 1
	case k < 9:
		w.N = rapid.IntRange(2, 24).Draw(t, "n")
	default:
		w.N = rapid.IntRange(100, 300).Draw(t, "nbig")
		if pbt.Tier() != "thorough" {
			w.N = rapid.IntRange(40, 70).Draw(t, "nmid")
		}
	}
	return w
}

func genWal(t *rapid.T) WalCase {
	c := WalCase{Limit: 1200}
	if pbt.Tier() == "thorough" {
		c.Limit = 4096
	}
	nseg := rapid.SampledFrom([]int{1, 1, 2}).Draw(t, "nseg")
	for i := 0; i < nseg; i++ {
		n := rapid.IntRange(1, 4).Draw(t, "nrec")
		if pbt.Tier() == "thorough" {
			n = rapid.IntRange(1, 8).Draw(t, "nrecT")
		}
		var seg []WRec
		for j := 0; j < n; j++ {
			seg = append(seg, genWRec(t))
		}
		c.Segs = append(c.Segs, seg)
	}
	c.Pick = rapid.SliceOfN(rapid.Uint32(), 3, 3).Draw(t, "pick")
	c.Buf = rapid.SampledFrom([]int{0, 0, 16, 64}).Draw(t, "buf")
	return c
}

func staticWal() []WalCase {
	return []WalCase{
		{Limit: 1 << 20, Segs: [][]WRec{{{T: 0, N: 0}}}, TopBits: pbt.Tier() == "thorough"},
		{Limit: 1 << 20, Segs: [][]WRec{{{T: 1, N: 1, Seed: 1}, {T: 2, N: 7, Seed: 2}, {T: 3, N: 0}}}},
		{Limit: 1 << 20, Segs: [][]WRec{{{T: 0, N: 16, Seed: 3}, {T: 0, N: 3, Seed: 4}}, {{T: 3, N: 9, Seed: 5}, {T: 1, N: 2, Seed: 6}}}},
		{Limit: 1 << 20, Buf: 16, Segs: [][]WRec{{{T: 1, N: 40, Seed: 7}, {T: 2, N: 3, Seed: 8}, {T: 0, N: 70, Seed: 9}}}},
	}
}
