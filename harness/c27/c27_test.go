// C27 — PD timestamps and IDs are unique and increasing across restarts.
//
// The real pd/server.Service with real tso/ID allocators and a real
// pd/storage.LocalStore is driven by a schedule that the harness owns:
//
//   - "start"   : client c issues Tso/AllocID(count) in its own goroutine.  The call
//     reserves its values and reads both counters inside the service, then
//     reaches Store.SaveAllocatorState — a harness wrapper (pdstorage.Store is an
//     interface) that PARKS the goroutine.  The harness waits until the call is
//     parked (or finished, or provably blocked on a lock) before the next step.
//   - "release" : the pick-th parked checkpoint write is let through to the real
//     LocalStore; the call returns and its response is recorded.
//   - "restart" : the process dies: parked writes never reach the file, their
//     calls return nothing; PD is booted again exactly as cmd/nokv/pd.go does
//     (OpenLocalStore, Load, ResolveAllocatorStarts, new allocators, SetStorage).
//
// Oracle (statement of C27, only over values actually RETURNED to a client):
// all returned ranges [first, first+count) of one kind are pairwise disjoint; if
// call X returned before call Y was started then max(X) < min(Y) — this covers
// "per client increasing" (a client issues calls one after the other) and
// "everything handed out after a restart is greater than everything returned
// before it".
package c27

import (
	"context"
	"errors"
	"fmt"
	"runtime"
	"strconv"
	"strings"
	"sync/atomic"
	"testing"
	"time"

	"github.com/feichai0017/NoKV/manifest"
	"github.com/feichai0017/NoKV/pb"
	"github.com/feichai0017/NoKV/pd/core"
	pdserver "github.com/feichai0017/NoKV/pd/server"
	pdstorage "github.com/feichai0017/NoKV/pd/storage"
	"github.com/feichai0017/NoKV/pd/tso"
	"nokvverif/internal/pbt"
	"pgregory.net/rapid"
)

// The schedule is owned by the harness, so parallelism buys nothing; two Ps keep
// goroutine hand-offs cheap (16 Ps spend most of the time in futex wake-ups).
func TestMain(m *testing.M) { runtime.GOMAXPROCS(2); pbt.RunMain(m) }

// findingR11: checkpoint writes of racing calls may land in the opposite order of
// their reservations; the later (smaller) write wins and a restart re-issues values.
const findingR11 = "C27-R11-checkpoint-regress"

// ---------------------------------------------------------------- case

type Step struct {
	Op      string `json:"op"`             // start | release | restart
	Client  int    `json:"cl,omitempty"`   // start: which client
	Kind    string `json:"kind,omitempty"` // start: tso | id
	Count   uint64 `json:"n,omitempty"`    // start: requested count (0 is served as 1)
	Pick    int    `json:"pick,omitempty"` // release: index into the parked writes, oldest first (mod len)
	Kill    bool   `json:"kill,omitempty"` // restart: reopen before the old store handle is closed
	IDStart uint64 `json:"ids,omitempty"`  // restart: --id-start flag of the new process
	TSStart uint64 `json:"tss,omitempty"`  // restart: --ts-start flag of the new process
}

type Case struct {
	IDStart uint64 `json:"ids,omitempty"` // --id-start of the first process
	TSStart uint64 `json:"tss,omitempty"` // --ts-start of the first process
	Steps   []Step `json:"steps"`
	Excl    int    `json:"excl,omitempty"` // draws steered away from an open known finding
}

// ---------------------------------------------------------------- parking store

var errCrashed = errors.New("c27: process crashed before the checkpoint write")

type ticket struct {
	gid     uint64
	id, ts  uint64
	release chan bool
}

type evKind int

const (
	evStarted evKind = iota
	evPark
	evDone
)

type event struct {
	kind evKind
	gid  uint64
	call *call
	tk   *ticket
}

// parkStore wraps the real store; SaveAllocatorState parks until the harness decides.
type parkStore struct {
	inner  pdstorage.Store
	events chan event
	dead   atomic.Bool
}

func (p *parkStore) Load() (pdstorage.Snapshot, error)      { return p.inner.Load() }
func (p *parkStore) SaveRegion(m manifest.RegionMeta) error { return p.inner.SaveRegion(m) }
func (p *parkStore) DeleteRegion(id uint64) error           { return p.inner.DeleteRegion(id) }
func (p *parkStore) Close() error                           { return p.inner.Close() }
func (p *parkStore) SaveAllocatorState(id, ts uint64) error {
	if p.dead.Load() {
		return errCrashed
	}
	tk := &ticket{gid: goid(), id: id, ts: ts, release: make(chan bool, 1)}
	p.events <- event{kind: evPark, gid: tk.gid, tk: tk}
	if ok := <-tk.release; !ok {
		return errCrashed
	}
	return p.inner.SaveAllocatorState(id, ts)
}

func goid() uint64 {
	var buf [64]byte
	n := runtime.Stack(buf[:], false)
	s := strings.TrimPrefix(string(buf[:n]), "goroutine ")
	if i := strings.IndexByte(s, ' '); i > 0 {
		if id, err := strconv.ParseUint(s[:i], 10, 64); err == nil {
			return id
		}
	}
	return 0
}

// goroutineStates parses a full stack dump into gid -> wait state.
func goroutineStates() map[uint64]string {
	buf := make([]byte, 1<<16)
	for {
		n := runtime.Stack(buf, true)
		if n < len(buf) {
			buf = buf[:n]
			break
		}
		buf = make([]byte, 2*len(buf))
	}
	out := map[uint64]string{}
	for _, ln := range strings.Split(string(buf), "\n") {
		if !strings.HasPrefix(ln, "goroutine ") {
			continue
		}
		rest := ln[len("goroutine "):]
		i := strings.IndexByte(rest, ' ')
		if i < 0 {
			continue
		}
		id, err := strconv.ParseUint(rest[:i], 10, 64)
		if err != nil {
			continue
		}
		st := rest[i+1:]
		st = strings.TrimPrefix(st, "[")
		if j := strings.IndexAny(st, ",]"); j >= 0 {
			st = st[:j]
		}
		out[id] = st
	}
	return out
}

func blockedState(st string) bool {
	switch {
	case strings.HasPrefix(st, "sync."), st == "semacquire", st == "chan receive", st == "chan send", st == "select",
		strings.HasPrefix(st, "chan receive"), strings.HasPrefix(st, "chan send"), strings.HasPrefix(st, "select"):
		return true
	}
	return false
}

// ---------------------------------------------------------------- harness

type call struct {
	client    int
	kind      string
	count     uint64
	inc       int // incarnation (number of restarts before the call started)
	startTick int
	doneTick  int
	gid       uint64
	tk        *ticket // non-nil while parked
	landed    bool
	blocked   bool // observed blocked on a lock before reaching the store
	overlap   bool // was in flight together with another call of the same process
	finished  bool
	first, n  uint64
	err       error
}

type ret struct {
	kind           string
	client, inc    int
	first, last    uint64
	startTick, end int
}

type harness struct {
	dir    string
	local  *pdstorage.LocalStore
	ps     *parkStore
	svc    *pdserver.Service
	events chan event

	inflight map[uint64]*call // by goroutine id
	busy     map[int]*call    // by client
	parked   []*call          // FIFO by park time
	done     []*call          // finished, not yet judged (in completion order)
	tick     int
	inc      int
	rets     []ret
	r        *pbt.Rec

	// bookkeeping for labels / non-trivial rule
	landedMaxStart, lastLandedStart int
	inversionThisInc                bool
	inversionBeforeRestart          bool
	overlapReturnThisInc            bool
	overlapBeforeRestart            bool
	unhealedRestart                 bool
}

const hardWait = 20 * time.Second

// boot is the start-up sequence of cmd/nokv/pd.go:runPDCmd with --workdir.
func (h *harness) boot(idStart, tsStart uint64) error {
	localStore, err := pdstorage.OpenLocalStore(h.dir, nil)
	if err != nil {
		return fmt.Errorf("pd open storage workdir: %w", err)
	}
	snapshot, err := localStore.Load()
	if err != nil {
		_ = localStore.Close()
		return fmt.Errorf("pd load snapshot: %w", err)
	}
	idStart, tsStart = pdstorage.ResolveAllocatorStarts(idStart, tsStart, snapshot.Allocator)
	cluster := core.NewCluster() // no regions in this check (restorePDRegions of an empty snapshot is a no-op)
	ids := core.NewIDAllocator(idStart)
	tsAlloc := tso.NewAllocator(tsStart)
	svc := pdserver.NewService(cluster, ids, tsAlloc)
	h.local = localStore
	h.ps = &parkStore{inner: localStore, events: h.events}
	svc.SetStorage(h.ps)
	h.svc = svc
	return nil
}

func (h *harness) handle(ev event) {
	switch ev.kind {
	case evStarted:
		ev.call.gid = ev.gid
		h.inflight[ev.gid] = ev.call
	case evPark:
		c := h.inflight[ev.gid]
		if c == nil {
			// a SaveAllocatorState from a goroutine the harness did not start: let it through
			ev.tk.release <- true
			return
		}
		c.tk = ev.tk
		c.blocked = false
		h.parked = append(h.parked, c)
	case evDone:
		c := ev.call
		c.finished = true
		h.tick++
		c.doneTick = h.tick
		delete(h.inflight, c.gid)
		if h.busy[c.client] == c {
			delete(h.busy, c.client)
		}
		h.done = append(h.done, c)
	}
}

// next waits for one event.
func (h *harness) next(d time.Duration) (event, bool) {
	select {
	case ev := <-h.events:
		return ev, true
	default:
	}
	tm := time.NewTimer(d)
	defer tm.Stop()
	select {
	case ev := <-h.events:
		return ev, true
	case <-tm.C:
		return event{}, false
	}
}

// settle returns when every in-flight call is parked, finished, or durably
// blocked on a synchronisation primitive (which only another step can resolve).
// Decisions depend on goroutine states, never on elapsed time: a call that is
// merely slow (runnable / running / in a syscall) is waited for.
func (h *harness) settle() error {
	deadline := time.Now().Add(hardWait)
	confirm := 0
	for iter := 0; ; iter++ {
		h.drain()
		var open []*call
		for _, c := range h.inflight {
			if c.tk == nil && !c.finished && !c.blocked {
				open = append(open, c)
			}
		}
		if len(open) == 0 {
			return nil
		}
		// cooperative wait: on the unchanged tree the call parks within microseconds
		for i := 0; i < 200 && len(h.events) == 0; i++ {
			runtime.Gosched()
		}
		if len(h.events) > 0 {
			confirm = 0
			continue
		}
		states := goroutineStates()
		all := true
		for _, c := range open {
			if !blockedState(states[c.gid]) {
				all = false
			}
		}
		if all && len(h.events) == 0 {
			confirm++
			if confirm >= 2 {
				// two consecutive observations of "blocked" with no event in between
				for _, c := range open {
					c.blocked = true
					h.r.Label("call-blocked-before-checkpoint")
				}
				return nil
			}
			continue
		}
		confirm = 0
		if iter > 20 {
			time.Sleep(50 * time.Microsecond)
		}
		if time.Now().After(deadline) {
			return pbt.Failf("hang", "a PD call neither reached the checkpoint write nor returned within %v (states %v)", hardWait, states)
		}
	}
}

func (h *harness) drain() {
	for {
		select {
		case ev := <-h.events:
			h.handle(ev)
		default:
			return
		}
	}
}

// unblock: after a write was let through, calls seen blocked may make progress again.
func (h *harness) unblock() {
	for _, c := range h.inflight {
		c.blocked = false
	}
}

func (h *harness) start(st Step) error {
	if h.busy[st.Client] != nil {
		h.r.Label("skip-start-client-busy")
		return nil
	}
	h.tick++
	c := &call{client: st.Client, kind: st.Kind, count: st.Count, inc: h.inc, startTick: h.tick}
	h.busy[st.Client] = c
	for _, o := range h.inflight {
		o.overlap, c.overlap = true, true
	}
	svc, events := h.svc, h.events
	go func() {
		events <- event{kind: evStarted, gid: goid(), call: c}
		ctx := context.Background()
		if c.kind == "tso" {
			resp, err := svc.Tso(ctx, &pb.TsoRequest{Count: c.count})
			c.err = err
			if err == nil {
				c.first, c.n = resp.GetTimestamp(), resp.GetCount()
			}
		} else {
			resp, err := svc.AllocID(ctx, &pb.AllocIDRequest{Count: c.count})
			c.err = err
			if err == nil {
				c.first, c.n = resp.GetFirstId(), resp.GetCount()
			}
		}
		events <- event{kind: evDone, call: c}
	}()
	// the started event always arrives
	for c.gid == 0 {
		ev, ok := h.next(hardWait)
		if !ok {
			return pbt.Failf("hang", "call goroutine did not start")
		}
		h.handle(ev)
	}
	h.r.Label("start-" + c.kind)
	if err := h.settle(); err != nil {
		return err
	}
	return h.judgeDone()
}

// judgeDone applies the oracle to every call that finished since the last step.
func (h *harness) judgeDone() error {
	for len(h.done) > 0 {
		c := h.done[0]
		h.done = h.done[1:]
		if err := h.judge(c); err != nil {
			return err
		}
	}
	return nil
}

func (h *harness) release(st Step) error {
	if len(h.parked) == 0 {
		h.r.Label("skip-release-nothing-parked")
		return nil
	}
	i := st.Pick
	if i < 0 {
		i = -i
	}
	i %= len(h.parked)
	c := h.parked[i]
	h.parked = append(h.parked[:i:i], h.parked[i+1:]...)
	if c.startTick < h.landedMaxStart {
		h.inversionThisInc = true
		h.r.Label("release-after-later-reservation-landed")
	} else {
		h.r.Label("release-in-order")
	}
	tk := c.tk
	c.landed = true
	tk.release <- true
	for !c.finished {
		ev, ok := h.next(hardWait)
		if !ok {
			return pbt.Failf("hang", "released checkpoint write did not complete within %v", hardWait)
		}
		h.handle(ev)
	}
	h.lastLandedStart = c.startTick
	if c.startTick > h.landedMaxStart {
		h.landedMaxStart = c.startTick
	}
	if err := h.judgeDone(); err != nil {
		return err
	}
	h.unblock()
	if err := h.settle(); err != nil {
		return err
	}
	return h.judgeDone()
}

// judge records a finished call and applies the oracle to its response.
func (h *harness) judge(c *call) error {
	if c.err != nil && strings.Contains(c.err.Error(), errCrashed.Error()) {
		h.r.Label("call-lost-in-crash") // never returned to the client
		return nil
	}
	if !c.landed {
		h.r.Label("returned-without-own-checkpoint-write")
	}
	if c.err != nil {
		return pbt.Failf("call-error", "%s by client %d failed although its checkpoint write was let through: %v", c.kind, c.client, c.err)
	}
	if c.n == 0 {
		h.r.Label("returned-empty-range")
		return nil
	}
	cur := ret{kind: c.kind, client: c.client, inc: c.inc, first: c.first, last: c.first + c.n - 1, startTick: c.startTick, end: c.doneTick}
	if cur.last < cur.first {
		return pbt.Failf("overflow", "returned range wraps: first=%d count=%d", c.first, c.n)
	}
	for _, p := range h.rets {
		if p.kind != cur.kind {
			continue
		}
		if p.first <= cur.last && cur.first <= p.last {
			sig := "duplicate"
			if p.inc != cur.inc {
				sig = "duplicate-across-restart"
			}
			return pbt.Failf(sig, "%s values handed out twice: client %d got [%d,%d] (process #%d), client %d got [%d,%d] (process #%d)",
				cur.kind, p.client, p.first, p.last, p.inc, cur.client, cur.first, cur.last, cur.inc)
		}
		if p.end < cur.startTick && p.last >= cur.first {
			sig := "order"
			switch {
			case p.inc != cur.inc:
				sig = "restart-not-greater"
			case p.client == cur.client:
				sig = "client-not-increasing"
			}
			return pbt.Failf(sig, "%s [%d,%d] was returned to client %d (process #%d) before client %d (process #%d) asked, which then received the smaller [%d,%d]",
				cur.kind, p.first, p.last, p.client, p.inc, cur.client, cur.inc, cur.first, cur.last)
		}
	}
	if cur.inc > 0 {
		h.r.Label("returned-after-restart")
	}
	if c.overlap && c.inc == h.inc {
		h.overlapReturnThisInc = true
	}
	h.rets = append(h.rets, cur)
	return nil
}

// crash ends the current process: nothing parked reaches the file, every in-flight call fails.
func (h *harness) crash() (int, error) {
	h.ps.dead.Store(true)
	dropped := 0
	for _, c := range h.parked {
		c.tk.release <- false
		c.tk = nil
		dropped++
	}
	h.parked = nil
	deadline := time.Now().Add(hardWait)
	for len(h.inflight) > 0 {
		ev, ok := h.next(100 * time.Millisecond)
		if ok {
			if ev.kind == evPark {
				// raced past the dead flag: never written
				if c := h.inflight[ev.gid]; c != nil {
					dropped++
				}
				ev.tk.release <- false
				continue
			}
			h.handle(ev)
			continue
		}
		if time.Now().After(deadline) {
			return dropped, pbt.Failf("hang", "in-flight calls did not finish after the crash")
		}
	}
	return dropped, nil
}

func (h *harness) restart(st Step) error {
	dropped, err := h.crash()
	if err != nil {
		return err
	}
	if err := h.judgeDone(); err != nil {
		return err
	}
	if dropped > 0 {
		h.r.Label("restart-with-parked-writes")
	} else {
		h.r.Label("restart-quiescent")
	}
	if h.lastLandedStart != h.landedMaxStart {
		h.unhealedRestart = true
		h.r.Label("restart-while-last-write-is-not-newest")
	}
	if h.inversionThisInc {
		h.inversionBeforeRestart = true
		h.r.Label("restart-after-out-of-order-writes")
	}
	if h.overlapReturnThisInc {
		h.overlapBeforeRestart = true
		h.r.Label("restart-after-concurrent-calls")
	}
	old := h.local
	if !st.Kill {
		_ = old.Close()
	}
	h.inc++
	h.busy = map[int]*call{}
	h.landedMaxStart, h.lastLandedStart, h.inversionThisInc, h.overlapReturnThisInc = 0, 0, false, false
	err = h.boot(st.IDStart, st.TSStart)
	if st.Kill {
		_ = old.Close()
	}
	if err != nil {
		return pbt.Failf("restart-failed", "PD does not come back: %v", err)
	}
	return nil
}

func run(c Case, r *pbt.Rec) (err error) {
	r.Excluded(c.Excl)
	dir, cleanup := pbt.TempDir("c27")
	defer cleanup()
	h := &harness{dir: dir, events: make(chan event, 4096), inflight: map[uint64]*call{}, busy: map[int]*call{}, r: r}
	if err := h.boot(c.IDStart, c.TSStart); err != nil {
		return pbt.Failf("harness", "first boot: %v", err)
	}
	defer func() {
		if _, cerr := h.crash(); cerr != nil && err == nil {
			err = cerr
		}
		_ = h.local.Close()
	}()
	kinds := map[string]bool{}
	for i, st := range c.Steps {
		var e error
		switch st.Op {
		case "start":
			if st.Kind != "tso" && st.Kind != "id" {
				return pbt.Failf("harness", "step %d: bad kind %q", i, st.Kind)
			}
			kinds[st.Kind] = true
			e = h.start(st)
		case "release":
			e = h.release(st)
		case "restart":
			e = h.restart(st)
		default:
			return pbt.Failf("harness", "step %d: unknown op %q", i, st.Op)
		}
		if e != nil {
			if f, ok := e.(*pbt.Fail); ok {
				f.Msg = fmt.Sprintf("step %d (%s): %s\nreturned so far: %s", i, st.Op, f.Msg, h.history())
			}
			return e
		}
	}
	if len(kinds) == 2 {
		r.Label("mixed-tso-and-id")
	}
	after := false
	for _, x := range h.rets {
		if x.inc > 0 {
			after = true
		}
	}
	if h.overlapBeforeRestart && after {
		r.NT()
	}
	if h.inversionBeforeRestart && after {
		r.Label("R11-shape:out-of-order-writes,restart,return")
	}
	return nil
}

func (h *harness) history() string {
	var b strings.Builder
	for _, x := range h.rets {
		fmt.Fprintf(&b, "{%s client=%d proc=%d [%d,%d]} ", x.kind, x.client, x.inc, x.first, x.last)
	}
	return b.String()
}

// ---------------------------------------------------------------- generator

func gen(t *rapid.T) Case {
	starts := rapid.SampledFrom([]uint64{0, 1, 1, 1, 2, 40})
	c := Case{IDStart: starts.Draw(t, "ids"), TSStart: starts.Draw(t, "tss")}
	open := pbt.Open(findingR11) || pbt.Open(findingR11+"-id")
	nClients := rapid.IntRange(2, 4).Draw(t, "clients")
	n := rapid.IntRange(3, 28).Draw(t, "n")
	// nominal bookkeeping (what happens when every call reaches the checkpoint write)
	busy := map[int]bool{}
	var parked []int // start sequence numbers, FIFO
	seq, landedMax, lastLanded := 0, 0, 0
	emitStart := func() bool {
		var free []int
		for cl := 0; cl < nClients; cl++ {
			if !busy[cl] {
				free = append(free, cl)
			}
		}
		if len(free) == 0 {
			return false
		}
		cl := rapid.SampledFrom(free).Draw(t, "client")
		kind := rapid.SampledFrom([]string{"tso", "tso", "id"}).Draw(t, "kind")
		cnt := rapid.SampledFrom([]uint64{0, 1, 1, 2, 3}).Draw(t, "count")
		seq++
		busy[cl] = true
		parked = append(parked, seq<<8|cl)
		c.Steps = append(c.Steps, Step{Op: "start", Client: cl, Kind: kind, Count: cnt})
		return true
	}
	emitRelease := func() bool {
		if len(parked) == 0 {
			return false
		}
		i := rapid.IntRange(0, len(parked)-1).Draw(t, "pick")
		v := parked[i]
		parked = append(parked[:i:i], parked[i+1:]...)
		busy[v&0xff] = false
		s := v >> 8
		lastLanded = s
		if s > landedMax {
			landedMax = s
		}
		c.Steps = append(c.Steps, Step{Op: "release", Pick: i})
		return true
	}
	for i := 0; i < n; i++ {
		k := rapid.IntRange(0, 9).Draw(t, "op")
		switch {
		case k < 4:
			if !emitStart() {
				emitRelease()
			}
		case k < 8:
			if !emitRelease() {
				emitStart()
			}
		default:
			if open && lastLanded != landedMax {
				// R11 precondition: the write that landed last is not the newest one.
				// Steered away while the finding is open: no restart here.
				c.Excl++
				if !emitRelease() {
					emitStart()
				}
				continue
			}
			c.Steps = append(c.Steps, Step{Op: "restart", Kill: rapid.Bool().Draw(t, "kill"),
				IDStart: starts.Draw(t, "ids"), TSStart: starts.Draw(t, "tss")})
			busy = map[int]bool{}
			parked = nil
			landedMax, lastLanded = 0, 0
		}
	}
	return c
}

func TestCheck(t *testing.T) {
	s := &pbt.Suite{ID: "C27", Level: "exploration",
		Rule: "Two specs. ckptcrash: 1-8 sequential Tso/AllocID calls (counts 0-3) on the real LocalStore over the vfsx shim; a directory image is taken before and after every mutating file operation (temp file write torn at 0 and len/2 bytes, rename, anything else the store does); every image is booted like cmd/nokv/pd.go and must hand out an id and a timestamp greater than everything returned before the capture (non-trivial = image inside a checkpoint write after at least one value was returned). sched: " +
			"Non-trivial = a schedule in which, within one PD process, at least two calls were in flight at the same time (the second was started before the first returned) " +
			"and at least one of them returned, a restart follows, and at least one call returns a value after that restart. The label 'R11-shape:out-of-order-writes,restart,return' counts the " +
			"stricter class of the design (a checkpoint write let through after the write of a LATER reservation had landed, then restart, then a returned value); it is reported separately because an " +
			"implementation that serialises reserve+persist makes that class unreachable by construction. Distinct by case content. " +
			"Oracle over returned values only: ranges of one kind pairwise disjoint; X returned before Y was started => max(X) < min(Y) (covers per-client order and 'greater after restart').",
		Assumptions: []string{
			"a value counts as handed out only when the RPC returned it; a call whose checkpoint write is still parked when the process dies returns nothing",
			"restart = process death on an intact file system followed by the start-up sequence of cmd/nokv/pd.go (OpenLocalStore, Load, ResolveAllocatorStarts, new allocators); the --id-start/--ts-start flags of each process are drawn from {0,1,2,40}",
			"the yield point is Store.SaveAllocatorState (after the counters were read, before the file is written); reservations themselves are serialised by the harness in step order, finer interleavings between Reserve and Current() only make the persisted counters larger",
			"counts 0..3 (0 is served as 1); counters stay far from 2^64",
		},
	}
	pbt.Add(s, &pbt.Spec[Case]{Name: "sched", Gen: gen, Run: run, Quick: 64000, Thorough: 2400000, Shards: 8})
	// crash points inside the checkpoint's own file operations (ckpt_test.go)
	pbt.Add(s, &pbt.Spec[CkCase]{Name: "ckptcrash", Gen: genCk, Run: runCk, Quick: 400, Thorough: 20000, Shards: 8})
	s.Main(t)
}
