package c27

// Spec "ckptcrash": crash points INSIDE the checkpoint write.  The sched spec crashes the
// process between whole SaveAllocatorState calls; here the real LocalStore runs on the
// vfsx shim and a directory image (= state after kill -9) is taken before and after every
// mutating file operation of the checkpoint (and with the temp file's content torn), while
// a generated sequence of Tso / AllocID calls runs one after the other.  Every image is
// booted the way cmd/nokv/pd.go boots (OpenLocalStore, Load, ResolveAllocatorStarts, new
// allocators) and asked for one id and one timestamp: both must be greater than everything
// that had been RETURNED to a client when the image was taken.

import (
	"context"
	"fmt"
	"path/filepath"

	"github.com/feichai0017/NoKV/pb"
	"github.com/feichai0017/NoKV/pd/core"
	pdserver "github.com/feichai0017/NoKV/pd/server"
	pdstorage "github.com/feichai0017/NoKV/pd/storage"
	"github.com/feichai0017/NoKV/pd/tso"
	"github.com/feichai0017/NoKV/vfs"
	"nokvverif/internal/pbt"
	"nokvverif/internal/vfsx"
	"pgregory.net/rapid"
)

type CkCall struct {
	Kind  string `json:"k"` // tso | id
	Count uint64 `json:"n,omitempty"`
}

type CkCase struct {
	IDStart uint64   `json:"ids,omitempty"`
	TSStart uint64   `json:"tss,omitempty"`
	Calls   []CkCall `json:"calls"`
	// flags of the process booted from an image
	RIDStart uint64 `json:"rids,omitempty"`
	RTSStart uint64 `json:"rtss,omitempty"`
}

func genCk(t *rapid.T) CkCase {
	starts := []uint64{0, 1, 2, 40}
	c := CkCase{IDStart: rapid.SampledFrom(starts).Draw(t, "ids"), TSStart: rapid.SampledFrom(starts).Draw(t, "tss"),
		RIDStart: rapid.SampledFrom(starts).Draw(t, "rids"), RTSStart: rapid.SampledFrom(starts).Draw(t, "rtss")}
	n := rapid.IntRange(1, 8).Draw(t, "ncalls")
	for i := 0; i < n; i++ {
		c.Calls = append(c.Calls, CkCall{Kind: rapid.SampledFrom([]string{"tso", "id"}).Draw(t, "kind"), Count: uint64(rapid.IntRange(0, 3).Draw(t, "count"))})
	}
	return c
}

type ckProc struct {
	store *pdstorage.LocalStore
	svc   *pdserver.Service
}

func ckBoot(dir string, fs vfs.FS, idStart, tsStart uint64) (*ckProc, error) {
	ls, err := pdstorage.OpenLocalStore(dir, fs)
	if err != nil {
		return nil, fmt.Errorf("pd open storage workdir: %w", err)
	}
	snap, err := ls.Load()
	if err != nil {
		_ = ls.Close()
		return nil, fmt.Errorf("pd load snapshot: %w", err)
	}
	idStart, tsStart = pdstorage.ResolveAllocatorStarts(idStart, tsStart, snap.Allocator)
	svc := pdserver.NewService(core.NewCluster(), core.NewIDAllocator(idStart), tso.NewAllocator(tsStart))
	svc.SetStorage(ls)
	return &ckProc{store: ls, svc: svc}, nil
}

func (p *ckProc) call(k CkCall) (first, n uint64, err error) {
	ctx := context.Background()
	if k.Kind == "tso" {
		resp, e := p.svc.Tso(ctx, &pb.TsoRequest{Count: k.Count})
		if e != nil {
			return 0, 0, e
		}
		return resp.GetTimestamp(), resp.GetCount(), nil
	}
	resp, e := p.svc.AllocID(ctx, &pb.AllocIDRequest{Count: k.Count})
	if e != nil {
		return 0, 0, e
	}
	return resp.GetFirstId(), resp.GetCount(), nil
}

type ckImage struct {
	dir    string
	where  string
	maxID  uint64 // greatest id / timestamp returned to a client before the capture
	maxTS  uint64
	inCkpt bool
}

func runCk(c CkCase, r *pbt.Rec) error {
	if len(c.Calls) == 0 {
		return nil
	}
	dir, cleanup := pbt.TempDir("c27ck")
	defer cleanup()
	imgRoot, cleanup2 := pbt.TempDir("c27ckimg")
	defer cleanup2()

	shim := vfsx.New(nil)
	shim.KeepLog(false)
	var maxID, maxTS uint64
	var images []ckImage
	var capErr error
	plan := func(rec vfsx.Rec, data []byte) vfsx.Action {
		if !rec.Mut {
			return vfsx.Action{}
		}
		a := vfsx.Action{Before: true, After: true}
		if rec.Op == vfs.OpWriteFile && len(data) > 1 {
			a.Torn = []int{0, len(data) / 2}
		}
		return a
	}
	capture := func(pt vfsx.Point) {
		if capErr != nil || len(images) >= 300 {
			return
		}
		img := filepath.Join(imgRoot, fmt.Sprintf("img-%04d", len(images)))
		if e := vfsx.CopyDir(dir, img); e != nil {
			capErr = e
			return
		}
		base := filepath.Base(pt.Rec.Path)
		images = append(images, ckImage{dir: img, maxID: maxID, maxTS: maxTS,
			where:  fmt.Sprintf("fs op #%d %s %s (%s)", pt.Rec.Index, pt.Rec.Op, base, pt.Phase),
			inCkpt: len(base) >= 8 && base[:8] == "PD_STATE"})
	}
	shim.SetPlan(plan, capture)

	p, err := ckBoot(dir, shim, c.IDStart, c.TSStart)
	if err != nil {
		return fmt.Errorf("harness: %v", err)
	}
	for i, k := range c.Calls {
		first, n, cerr := p.call(k)
		if cerr != nil {
			_ = p.store.Close()
			return fmt.Errorf("harness: call %d (%s): %v", i, k.Kind, cerr)
		}
		if n == 0 {
			continue
		}
		last := first + n - 1
		if k.Kind == "tso" {
			if first <= maxTS {
				_ = p.store.Close()
				return pbt.Failf("not-increasing", "call %d: timestamp range [%d,%d] is not above the earlier maximum %d", i, first, last, maxTS)
			}
			maxTS = last
		} else {
			if first <= maxID {
				_ = p.store.Close()
				return pbt.Failf("not-increasing", "call %d: id range [%d,%d] is not above the earlier maximum %d", i, first, last, maxID)
			}
			maxID = last
		}
	}
	shim.SetPlan(nil, nil)
	_ = p.store.Close()
	if capErr != nil {
		return fmt.Errorf("harness: capture: %v", capErr)
	}
	r.LabelN("ck:images", len(images))
	nt := false
	for _, im := range images {
		q, berr := ckBoot(im.dir, nil, c.RIDStart, c.RTSStart)
		if berr != nil {
			return pbt.Failf("restart-fails", "crash image at %s does not boot: %v", im.where, berr)
		}
		id, _, e1 := q.call(CkCall{Kind: "id", Count: 1})
		ts, _, e2 := q.call(CkCall{Kind: "tso", Count: 1})
		_ = q.store.Close()
		if e1 != nil || e2 != nil {
			return pbt.Failf("restart-fails", "crash image at %s: first calls after the restart fail: %v %v", im.where, e1, e2)
		}
		if id <= im.maxID {
			return pbt.Failf("restart-not-greater", "crash image at %s: the restarted PD hands out id %d although id %d had already been returned to a client before the crash", im.where, id, im.maxID)
		}
		if ts <= im.maxTS {
			return pbt.Failf("restart-not-greater", "crash image at %s: the restarted PD hands out timestamp %d although %d had already been returned to a client before the crash", im.where, ts, im.maxTS)
		}
		if im.inCkpt && (im.maxID > 0 || im.maxTS > 0) {
			nt = true
			r.Label("ck:image-inside-checkpoint-after-returns")
		}
	}
	if nt {
		r.NT()
	}
	return nil
}
