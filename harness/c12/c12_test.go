// C12 — clean close and reopen preserve contents and timestamp monotonicity.
package c12

import (
	"testing"

	"nokvverif/internal/pbt"
	"nokvverif/internal/plain"
	"nokvverif/internal/txm"
	"pgregory.net/rapid"
)

func TestMain(m *testing.M) { pbt.RunMain(m) }

var txProfile = txm.Profile{
	Name:        "c12",
	OpKinds:     []string{"begin", "set", "set", "set", "set", "del", "commit", "commit", "commit", "get", "maint", "reopen", "reopen", "reopen"},
	MaintKinds:  []string{"rotate", "rotate", "drain", "drain", "once", "rewrite"},
	ValueSizes:  []int{0, 1, 33, 100, 1000, 9000},
	MaxOps:      70,
	MaxKeys:     6,
	ExpiredTail: true,
}

var plainProfile = plain.Profile{
	Name:       "c12",
	OpKinds:    []string{"set", "set", "set", "del", "get", "maint", "maint", "reopen", "reopen", "reopen"},
	MaintKinds: []string{"rotate", "rotate", "drain", "drain", "once", "rewrite"},
	ValueSizes: []int{0, 1, 33, 100, 1000, 9000},
	MaxOps:     60,
}

func TestCheck(t *testing.T) {
	s := &pbt.Suite{ID: "C12", Level: "exploration",
		Rule:        "txn: rapid-generated transactional histories with frequent clean Close/Open cycles (1..many per case) and writes, deletes, expiry metadata, flushes, compactions and value-log rewrites in between; after every reopen all keys are read back, a forward scan and an all-versions scan are compared with the MVCC model (every key, every stored version, ExpiresAt), and the oracle's next commit timestamp must exceed every version stored before; plain: the same for a database used through Set/Del. Non-trivial = a reopen with >=2 commits and >=1 flushed SST before it; distinct by case content.",
		Assumptions: []string{"transactional and plain data are kept in separate databases (the API forbids mixing)"},
	}
	pbt.Add(s, &pbt.Spec[txm.Case]{Name: "txn", Gen: func(t *rapid.T) txm.Case { return txm.Gen(t, txProfile) }, Run: txm.Run, Quick: 200, Thorough: 20000, Shards: 16})
	pbt.Add(s, &pbt.Spec[plain.Case]{Name: "plain", Gen: func(t *rapid.T) plain.Case { return plain.Gen(t, plainProfile) }, Run: plain.Run, Quick: 120, Thorough: 10000, Shards: 16})
	s.Main(t)
}
