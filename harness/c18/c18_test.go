//go:build verif

// C18 — a distributed transaction's outcome is unique, final and conflict-free.
// Adversarial orderings (duplicates, late requests, commit-after-rollback,
// rollback-after-commit, CheckTxnStatus after expiry, overlapping writers) are
// executed through raftstore/kv.Apply and compared with the Percolator reference
// model in internal/perco.
package c18

import (
	"testing"

	"nokvverif/internal/pbt"
	"nokvverif/internal/perco"
	"pgregory.net/rapid"
)

func TestMain(m *testing.M) { pbt.RunMain(m) }

func gen(t *rapid.T) perco.GCase {
	return perco.Generate(t, perco.Profile{MaxSteps: 26, WRead: 2, WMaint: 2, WDup: 5, WCheck: 3, WPartial: 2, Excl: perco.OpenExclusions()})
}

func run(c perco.GCase, r *pbt.Rec) error {
	r.Excluded(c.Excl)
	return perco.Execute(c.Case, r, 18)
}

func genPair(t *rapid.T) perco.PCase {
	return perco.GeneratePair(t, perco.Profile{MaxSteps: 14, WRead: 1, WMaint: 2, WDup: 1, WCheck: 3, WPartial: 1, Excl: perco.OpenExclusions()})
}

func runPair(c perco.PCase, r *pbt.Rec) error {
	r.Excluded(c.Excl)
	return perco.ExecutePair(c, r, 18)
}

func TestCheck(t *testing.T) {
	s := &pbt.Suite{ID: "C18", Level: "exploration",
		Rule: "Same history machine as C17 with an adversarial mix (verbatim re-sends of earlier requests, late prewrites, commits/rollbacks/resolves of arbitrary key subsets in any order, CheckTxnStatus around expiry with and without rollback-if-not-exist, up to 5 transactions contending for 1-4 keys). Oracles: (1) a Commit/ResolveLock-commit that names a key the transaction already rolled back returns a key error; (2) any request the model classifies as changing nothing (repeat of an applied request, rollback after commit, commit after rollback, commit without lock, status check without effect) leaves locks, min-commit-ts, write records and rollback records of the whole DB unchanged (full internal-iterator dump before/after; plus prewritten data for verbatim re-sends); (3) after every step the set of committed write records (key,kind,start,commit) read from the DB equals the model's, so a refused/rolled-back transaction leaves no write and a committed one is never undone; (4) no key ever has two committed put/delete records with overlapping [start,commit]; (5) a prewrite must be refused when the key is locked by another transaction, when a newer committed put/delete overlaps, or when the transaction is already decided on the key. Partial requests: a hotlimit step sets Options.WriteHotKeyLimit so that a Commit is refused between its two engine writes (commit record written, lock removal refused with ErrHotKeyWriteThrottle, response Retryable) and lifts it again; after a Retryable response the model re-reads lock and write records of the touched keys from the store and every later request (rollback / resolve / check-txn-status / re-applied commit on the leftover lock) is judged against that state. Non-trivial = the history contains at least one adversarial ordering whose second request reached the engine (labels adv:*); Spec parked (concurrent pair): after a sequential prefix two requests A,B (CheckTxnStatus with a min-commit-ts push, Prewrite, Commit, ResolveLock, BatchRollback; usually on a currently locked common key, 10% on disjoint keys) are run through the percolator package functions: the harness holds the latches of the keys of A on the shared latch.Manager, starts A (a correct A parks in Acquire before reading anything; observed through its goroutine stack), runs B to completion on a separate manager, releases, joins A. Oracle: responses of A and B and the final lock (owner, min commit ts) and committed write records must be explained by the reference model for order A;B or for order B;A. Non-trivial for this spec = A was observed parked and B changed the lock record of a key of A. distinct by case content.",
		Assumptions: []string{
			"parked spec: a request blocked in latch.Manager.Acquire has not read anything yet iff the implementation takes its latches before reading; the harness never judges by wall clock — if A neither parks nor returns within 3 s the pair is skipped (label pair:inconclusive-not-parked)",
			"a request answered with a Retryable key error took effect as a prefix of its engine writes; its response and partial effect are not judged (the model resynchronises from the store), all later requests are",
			"'once any key is rolled back, committing fails' is judged per key: a Commit fails iff it names a rolled-back key; cross-key atomicity is the client protocol's job (primary first), no single-key state machine can refuse Commit(a) because b was rolled back",
			"batch requests are applied key by key in request order up to the first key error (what kv.Apply does and its callers observe)",
			"where the properties do not fix a response (prewrite above a foreign rollback/lock-only record, commit of a never-prewritten key, BatchRollback/CheckTxnStatus error details) the model follows the observed response and only the resulting state is compared",
		},
	}
	pbt.Add(s, &pbt.Spec[perco.GCase]{Name: "outcomes", Gen: gen, Run: run, Quick: 1000, Thorough: 36000, Shards: 16})
	pbt.Add(s, &pbt.Spec[perco.PCase]{Name: "parked", Gen: genPair, Run: runPair, Quick: 400, Thorough: 8000, Shards: 16})
	s.Main(t)
}
