// C06 — iterators return exactly the live snapshot in order, honouring options.
// Spec "txn": shared transactional state machine (internal/txm) with an
// iterator-heavy profile. Spec "db": DB.NewIterator over plain-API data.
package c06

import (
	"testing"

	"nokvverif/internal/pbt"
	"nokvverif/internal/txm"
	"pgregory.net/rapid"
)

func TestMain(m *testing.M) { pbt.RunMain(m) }

var profile = txm.Profile{
	Name:       "c06",
	OpKinds:    []string{"begin", "set", "set", "set", "set", "del", "del", "commit", "commit", "commit", "iter", "iter", "iter", "iter", "maint", "maint", "discard"},
	MaintKinds: []string{"rotate", "rotate", "drain", "drain", "drain", "once"},
	ValueSizes: []int{0, 1, 8, 33, 100, 9000},
	MaxOps:     70,
	MaxKeys:    8,
	IterHeavy:  true,
}

func gen(t *rapid.T) txm.Case { return txm.Gen(t, profile) }

func TestCheck(t *testing.T) {
	s := &pbt.Suite{ID: "C06", Level: "exploration",
		Rule: "txn: rapid-generated transactional histories (<=8 user keys from a prefix-heavy alphabet with 0x00/0xFF bytes, several versions per key, deletes, expired and far-future expiry, pending writes in the iterating transaction, flush/compaction placed between commits) with iterators whose options (Reverse, AllVersions, KeyOnly, Prefix, LowerBound/UpperBound, key iterator) and call scripts (Rewind/Seek(target)/Next; targets = existing keys, gaps, bounds, empty) are drawn; db: plain-API data iterated through DB.NewIterator with drawn bounds and scripts. Oracle: the model's visible keys sorted in the engine-independent order with the options applied give the exact expected sequence for the script; key, version and value (through ValueCopy) are compared at every step. Non-trivial = iterator whose expected sequence has >=3 entries and involves a proper-prefix key pair or a deleted key, with data in an SST or pending writes; distinct by case content.",
		Assumptions: []string{"under AllVersions the property does not settle whether older versions of a key whose newest visible version is a tombstone are 'live': such keys are left out of the comparison",
			"SinceTs and Next on an exhausted iterator are not part of the stated property and are not generated"},
	}
	pbt.Add(s, &pbt.Spec[txm.Case]{Name: "txn", Gen: gen, Run: txm.Run, Quick: 560, Thorough: 40000, Shards: 16})
	pbt.Add(s, &pbt.Spec[dbCase]{Name: "db", Gen: genDB, Run: runDB, Quick: 400, Thorough: 20000, Shards: 16})
	s.Main(t)
}
