package c06

import (
	"bytes"
	"fmt"
	"sort"

	"github.com/feichai0017/NoKV/kv"
	"github.com/feichai0017/NoKV/utils"
	"nokvverif/internal/eng"
	"nokvverif/internal/pbt"
	"pgregory.net/rapid"
)

// Spec "db": DB.NewIterator over plain-API data (default column family only: the DB
// iterator deliberately walks every column family and seeks in the default one, so
// multi-CF expectations would be a property the code does not claim).

type dbOp struct {
	K     string // set | del | maint | reopen | iter
	Key   int
	VSize int
	M     eng.Maint
	It    dbIter
}

type dbStep struct {
	K      string // rewind | seek | next
	Target []byte
}

type dbIter struct {
	Reverse bool
	KeyOnly bool
	Lower   []byte
	Upper   []byte
	Script  []dbStep
}

type dbCase struct {
	Cfg  eng.Cfg
	Keys [][]byte
	Ops  []dbOp
}

func genDB(t *rapid.T) dbCase {
	c := dbCase{Cfg: eng.GenCfg(t)}
	c.Cfg.MemTableSize = 8 << 20
	c.Keys = eng.KeyPool(t, 2, 8)
	art := c.Cfg.Engine == "art" && (pbt.Open("C07-F7") || pbt.Open("C07-F7pad"))
	if art {
		c.Keys = prefixFreeKeys(c.Keys)
	}
	bound := func(label string) []byte {
		kind := rapid.IntRange(0, 5).Draw(t, label)
		if art && kind >= 4 {
			kind = 2
		}
		switch kind {
		case 0, 1:
			return nil
		case 2, 3:
			return c.Keys[rapid.IntRange(0, len(c.Keys)-1).Draw(t, label+"k")]
		case 4:
			k := c.Keys[rapid.IntRange(0, len(c.Keys)-1).Draw(t, label+"k")]
			return append(append([]byte(nil), k...), 0)
		}
		return eng.GenUserKey(t)
	}
	maint := []string{"rotate", "rotate", "rewrite", "gc"}
	if !pbt.Open("C01-F1c") {
		maint = append(maint, "drain", "drain", "once")
	}
	// write-once flavour: every key is written at most once and never deleted, so no two
	// copies of one internal key exist and tables may be compacted into deeper levels even
	// while C01-F1c is open; large inline values on small table sizes give several tables
	// per level (concatenating iterators, table-boundary seeks)
	uniq := rapid.IntRange(0, 2).Draw(t, "uniq") == 0
	written := map[int]bool{}
	if uniq {
		c.Keys = eng.KeyPool(t, 6, 14)
		if art {
			c.Keys = prefixFreeKeys(c.Keys)
		}
		c.Cfg.SmallLevels = true
		c.Cfg.ValueThreshold = 1 << 20
		maint = []string{"rotate", "rotate", "drain", "drain", "drain", "once"}
	}
	n := rapid.IntRange(4, 50).Draw(t, "nops")
	for i := 0; i < n; i++ {
		op := dbOp{K: rapid.SampledFrom([]string{"set", "set", "set", "set", "del", "maint", "iter", "iter", "reopen"}).Draw(t, "op")}
		if uniq && op.K == "del" {
			op.K = "set"
		}
		if uniq && op.K == "set" {
			k := -1
			for j := range c.Keys {
				if !written[j] {
					k = j
					break
				}
			}
			if k < 0 {
				op.K = "iter"
			} else {
				written[k] = true
				op.Key = k
				op.VSize = rapid.SampledFrom([]int{1000, 4000, 9000}).Draw(t, "vsizeU")
				c.Ops = append(c.Ops, op)
				continue
			}
		}
		switch op.K {
		case "set":
			op.Key = rapid.IntRange(0, len(c.Keys)-1).Draw(t, "key")
			op.VSize = rapid.SampledFrom([]int{1, 1, 8, 33, 100, 9000}).Draw(t, "vsize")
			if rapid.IntRange(0, 9).Draw(t, "empty") == 0 && !pbt.Open("C06-dbiter-emptyval") {
				op.VSize = 0
			}
		case "del":
			op.Key = rapid.IntRange(0, len(c.Keys)-1).Draw(t, "key")
		case "maint":
			op.M = eng.GenMaint(t)
			op.M.Kind = rapid.SampledFrom(maint).Draw(t, "mk")
		case "iter":
			op.It = dbIter{Reverse: rapid.IntRange(0, 2).Draw(t, "rev") == 0, KeyOnly: rapid.IntRange(0, 3).Draw(t, "ko") == 0}
			if rapid.IntRange(0, 1).Draw(t, "bounded") == 1 {
				op.It.Lower, op.It.Upper = bound("lo"), bound("hi")
			}
			m := rapid.IntRange(1, 12).Draw(t, "nsteps")
			for j := 0; j < m; j++ {
				st := dbStep{K: rapid.SampledFrom([]string{"rewind", "seek", "seek", "next", "next", "next"}).Draw(t, "st")}
				if j == 0 && st.K == "next" {
					st.K = "rewind"
				}
				if st.K == "seek" {
					st.Target = bound("tg")
					if len(st.Target) == 0 {
						st.Target = c.Keys[0] // Seek(empty) is not defined for the DB iterator; use a key
					}
				}
				op.It.Script = append(op.It.Script, st)
			}
		}
		c.Ops = append(c.Ops, op)
	}
	return c
}

func prefixFreeKeys(keys [][]byte) [][]byte {
	var out [][]byte
	for _, k := range keys {
		ok := true
		for _, o := range out {
			if bytes.HasPrefix(k, o) || bytes.HasPrefix(o, k) {
				ok = false
			}
		}
		if ok {
			out = append(out, k)
		}
	}
	return out
}

func runDB(c dbCase, r *pbt.Rec) (err error) {
	if len(c.Keys) == 0 {
		return nil
	}
	dir, cleanup := pbt.TempDir("c06db")
	defer cleanup()
	db, err := eng.Open(c.Cfg, dir, nil)
	if err != nil {
		return pbt.Failf("open", "%v", err)
	}
	defer func() {
		if db != nil {
			_ = eng.Close(db)
		}
	}()
	model := map[string][]byte{} // live keys
	flushes, dels := 0, 0
	nt := false
	for i, op := range c.Ops {
		switch op.K {
		case "set":
			k := c.Keys[op.Key%len(c.Keys)]
			v := eng.Value(i, op.VSize)
			if e := db.Set(k, v); e != nil {
				return pbt.Failf("write-error", "step %d: %v", i, e)
			}
			model[string(k)] = v
		case "del":
			k := c.Keys[op.Key%len(c.Keys)]
			if e := db.Del(k); e != nil {
				return pbt.Failf("write-error", "step %d: %v", i, e)
			}
			delete(model, string(k))
			dels++
		case "maint":
			what, merr := eng.DoMaint(db, op.M, r)
			if merr != nil {
				return pbt.Failf("maint-error", "step %d: %v", i, merr)
			}
			if what == "flush" {
				flushes++
			}
		case "reopen":
			if e := eng.Close(db); e != nil {
				db = nil
				return pbt.Failf("close", "step %d: %v", i, e)
			}
			if db, err = eng.Open(c.Cfg, dir, nil); err != nil {
				db = nil
				return pbt.Failf("reopen", "step %d: %v", i, err)
			}
		case "iter":
			var exp [][]byte
			for k := range model {
				kb := []byte(k)
				if len(op.It.Lower) > 0 && bytes.Compare(kb, op.It.Lower) < 0 {
					continue
				}
				if len(op.It.Upper) > 0 && bytes.Compare(kb, op.It.Upper) >= 0 {
					continue
				}
				exp = append(exp, kb)
			}
			sort.Slice(exp, func(a, b int) bool {
				if op.It.Reverse {
					return bytes.Compare(exp[a], exp[b]) > 0
				}
				return bytes.Compare(exp[a], exp[b]) < 0
			})
			it := db.NewIterator(&utils.Options{IsAsc: !op.It.Reverse, OnlyUseKey: op.It.KeyOnly, LowerBound: op.It.Lower, UpperBound: op.It.Upper})
			desc := fmt.Sprintf("DB iterator{reverse=%v keyOnly=%v lower=%q upper=%q}", op.It.Reverse, op.It.KeyOnly, op.It.Lower, op.It.Upper)
			pos, positioned := 0, false
			fail := error(nil)
			for si, st := range op.It.Script {
				switch st.K {
				case "rewind":
					it.Rewind()
					pos, positioned = 0, true
				case "seek":
					it.Seek(st.Target)
					positioned = true
					if !op.It.Reverse {
						if len(op.It.Upper) > 0 && bytes.Compare(st.Target, op.It.Upper) >= 0 {
							pos = len(exp)
						} else {
							pos = sort.Search(len(exp), func(j int) bool { return bytes.Compare(exp[j], st.Target) >= 0 })
						}
					} else {
						if len(op.It.Lower) > 0 && bytes.Compare(st.Target, op.It.Lower) < 0 {
							pos = len(exp)
						} else {
							pos = sort.Search(len(exp), func(j int) bool { return bytes.Compare(exp[j], st.Target) <= 0 })
						}
					}
				case "next":
					if !positioned || pos >= len(exp) {
						continue
					}
					it.Next()
					pos++
				}
				// entries of the engine's reserved namespace and of other column families are skipped
				for it.Valid() && (eng.IsReserved(it.Item().Entry().Key) || it.Item().Entry().CF != kv.CFDefault) {
					it.Next()
				}
				want := pos < len(exp)
				if it.Valid() != want {
					if want {
						fail = pbt.Failf("dbiter-missing", "step %d: %s: after script step %d (%s %q) the iterator is exhausted, want key %q (expected %d live keys)", i, desc, si, st.K, st.Target, exp[pos], len(exp))
					} else {
						e := it.Item().Entry()
						fail = pbt.Failf("dbiter-extra", "step %d: %s: after script step %d (%s %q) the iterator yields key %q (meta=%d, %d value bytes), want exhausted (expected %d live keys)", i, desc, si, st.K, st.Target, e.Key, e.Meta, len(e.Value), len(exp))
					}
					break
				}
				if !want {
					continue
				}
				e := it.Item().Entry()
				if !bytes.Equal(e.Key, exp[pos]) {
					fail = pbt.Failf("dbiter-order", "step %d: %s: after script step %d (%s %q) the iterator yields key %q, want %q", i, desc, si, st.K, st.Target, e.Key, exp[pos])
					break
				}
				if item, ok := it.Item().(interface {
					ValueCopy([]byte) ([]byte, error)
				}); ok {
					v, verr := item.ValueCopy(nil)
					if verr != nil || !bytes.Equal(v, model[string(exp[pos])]) {
						fail = pbt.Failf("dbiter-value", "step %d: %s: key %q has value of %d bytes (err %v), want %d bytes equal to the point read", i, desc, e.Key, len(v), verr, len(model[string(exp[pos])]))
						break
					}
				}
			}
			_ = it.Close()
			if fail != nil {
				return fail
			}
			if len(exp) >= 3 && flushes > 0 && dels > 0 {
				nt = true
			}
		}
	}
	if nt {
		r.NT()
	}
	return nil
}
