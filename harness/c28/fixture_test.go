package c28

// Fixture: per store a real store.Store (sim.Node, full-DB storage, applier =
// raftstore/kv.NewApplier) hosting single-voter raft groups, the real
// raftstore/kv.Service registered on two grpc.Servers over bufconn listeners:
//
//	faulty  – unary interceptor = fault injector (the writer and the recovering client dial this one)
//	clean   – no interceptor (seeding, mid-flight readers and the oracle's Get/Scan dial this one)
//
// Single-voter groups commit and apply inside ProposeCommand (peer.processReady
// runs synchronously), so no tick/pump goroutine is needed.

import (
	"context"
	"fmt"
	"net"
	"strings"
	"sync"

	"github.com/feichai0017/NoKV/manifest"
	"github.com/feichai0017/NoKV/pb"
	"github.com/feichai0017/NoKV/percolator"
	"github.com/feichai0017/NoKV/raftstore/client"
	"github.com/feichai0017/NoKV/raftstore/kv"
	"google.golang.org/grpc"
	"google.golang.org/grpc/codes"
	"google.golang.org/grpc/credentials/insecure"
	"google.golang.org/grpc/status"
	"google.golang.org/grpc/test/bufconn"

	"nokvverif/internal/pbt"
	"nokvverif/internal/sim"
)

// Fault actions of the script.
const (
	ActOK            = 0
	ActFail          = 1 // fail before the handler runs (codes.Unavailable)
	ActDrop          = 2 // run the handler, drop its response (codes.Unavailable)
	ActNotLeader     = 3 // synthesised NotLeader, no leader hint (handler not run)
	ActNotLeaderHint = 4 // synthesised NotLeader naming the region's only peer as leader
	ActEpoch         = 5 // synthesised EpochNotMatch carrying the current region meta (what validateRegionEpoch sends)
	ActEpochEmpty    = 6 // synthesised EpochNotMatch without regions (what a store that does not know the region sends)
	numActs          = 7
)

var actNames = [...]string{"ok", "fail-before", "drop-response", "not-leader", "not-leader-hint", "epoch-not-match", "epoch-not-match-empty"}

const numRegions = 3

var (
	regionStart = [numRegions]string{"", "h", "p"}
	regionEnd   = [numRegions]string{"h", "p", ""}
	keyPrefix   = [numRegions]string{"c", "k", "t"}
)

func regionID(r int) uint64 { return uint64(r + 1) }
func peerID(r int) uint64   { return uint64(101 + r) }
func storeID(s int) uint64  { return uint64(s + 1) }

type event struct {
	Who    string // writer | recover
	Method string
	Region int
	Occ    int
	Act    int
	Note   string
}

func (e event) String() string {
	s := fmt.Sprintf("%s %s@r%d#%d %s", e.Who, e.Method, e.Region, e.Occ, actNames[e.Act])
	if e.Note != "" {
		s += " (" + e.Note + ")"
	}
	return s
}

type fixture struct {
	c         Case
	cluster   *sim.Cluster
	nodes     []*sim.Node
	listeners map[string]*bufconn.Listener
	servers   []*grpc.Server
	cleanup   []func()

	mu         sync.Mutex
	who        string
	occ        map[string]int
	events     []event
	secOrder   map[string][]int // phase -> secondary regions in the order the writer first contacted them
	readerHook func(method string, region, occ int)
}

func slotKey(m string, r int) string { return fmt.Sprintf("%s@%d", m, r) }

func methodOf(full string) string {
	switch full[strings.LastIndex(full, "/")+1:] {
	case "KvPrewrite":
		return "prewrite"
	case "KvCommit":
		return "commit"
	case "KvCheckTxnStatus":
		return "check"
	case "KvResolveLock":
		return "resolve"
	case "KvGet":
		return "get"
	case "KvBatchGet":
		return "batchget"
	case "KvScan":
		return "scan"
	case "KvBatchRollback":
		return "rollback"
	}
	return full
}

func (f *fixture) regionMetaPB(r int) *pb.RegionMeta {
	return &pb.RegionMeta{
		Id: regionID(r), StartKey: []byte(regionStart[r]), EndKey: []byte(regionEnd[r]),
		EpochVersion: 1, EpochConfVersion: 1,
		Peers: []*pb.RegionPeer{{StoreId: storeID(f.c.RegionStore[r]), PeerId: peerID(r)}},
	}
}

func regionErrorResponse(method string, e *pb.RegionError) any {
	switch method {
	case "prewrite":
		return &pb.KvPrewriteResponse{RegionError: e}
	case "commit":
		return &pb.KvCommitResponse{RegionError: e}
	case "check":
		return &pb.KvCheckTxnStatusResponse{RegionError: e}
	case "resolve":
		return &pb.KvResolveLockResponse{RegionError: e}
	}
	return nil
}

// intercept is the fault injector: the action for the n-th RPC of a given
// (method, region) is script[(method,region)][n], "ok" beyond the script.
func (f *fixture) intercept(ctx context.Context, req any, info *grpc.UnaryServerInfo, handler grpc.UnaryHandler) (any, error) {
	method := methodOf(info.FullMethod)
	rc, ok := req.(interface{ GetContext() *pb.Context })
	if !ok || rc.GetContext() == nil {
		return handler(ctx, req)
	}
	region := int(rc.GetContext().GetRegionId()) - 1
	if region < 0 || region >= numRegions {
		return handler(ctx, req)
	}
	f.mu.Lock()
	who := f.who
	// remember in which order the writer visits the secondary regions of a phase
	if who == "writer" && (method == "prewrite" || method == "commit") && region != f.c.Keys[f.c.Primary].Region {
		seen := false
		for _, r := range f.secOrder[method] {
			seen = seen || r == region
		}
		if !seen {
			f.secOrder[method] = append(f.secOrder[method], region)
		}
	}
	k := slotKey(method, region)
	occ := f.occ[who+"/"+k]
	f.occ[who+"/"+k] = occ + 1
	act := ActOK
	if who == "writer" || who == "recover" {
		act = f.c.action(who, method, region, occ)
	}
	hook := f.readerHook
	f.mu.Unlock()

	if who == "writer" && hook != nil {
		hook(method, region, occ)
	}
	ev := event{Who: who, Method: method, Region: region, Occ: occ, Act: act}
	defer func() {
		f.mu.Lock()
		f.events = append(f.events, ev)
		f.mu.Unlock()
	}()
	switch act {
	case ActFail:
		return nil, status.Error(codes.Unavailable, "c28: injected failure before handler")
	case ActDrop:
		resp, err := handler(ctx, req)
		ev.Note = describe(resp, err)
		return nil, status.Error(codes.Unavailable, "c28: injected response loss")
	case ActNotLeader:
		return regionErrorResponse(method, &pb.RegionError{NotLeader: &pb.NotLeader{RegionId: regionID(region)}}), nil
	case ActNotLeaderHint:
		return regionErrorResponse(method, &pb.RegionError{NotLeader: &pb.NotLeader{RegionId: regionID(region),
			Leader: &pb.RegionPeer{StoreId: storeID(f.c.RegionStore[region]), PeerId: peerID(region)}}}), nil
	case ActEpoch:
		return regionErrorResponse(method, &pb.RegionError{EpochNotMatch: &pb.EpochNotMatch{
			CurrentEpoch: &pb.RegionEpoch{Version: 1, ConfVer: 1}, Regions: []*pb.RegionMeta{f.regionMetaPB(region)}}}), nil
	case ActEpochEmpty:
		return regionErrorResponse(method, &pb.RegionError{EpochNotMatch: &pb.EpochNotMatch{}}), nil
	}
	resp, err := handler(ctx, req)
	ev.Note = describe(resp, err)
	return resp, err
}

func describe(resp any, err error) string {
	if err != nil {
		return "handler error: " + err.Error()
	}
	switch v := resp.(type) {
	case *pb.KvPrewriteResponse:
		if v.GetRegionError() != nil {
			return "region error " + v.GetRegionError().String()
		}
		if len(v.GetResponse().GetErrors()) > 0 {
			return fmt.Sprintf("key errors %v", v.GetResponse().GetErrors())
		}
	case *pb.KvCommitResponse:
		if v.GetRegionError() != nil {
			return "region error " + v.GetRegionError().String()
		}
		if v.GetResponse().GetError() != nil {
			return "key error " + v.GetResponse().GetError().String()
		}
	case *pb.KvCheckTxnStatusResponse:
		if v.GetRegionError() != nil {
			return "region error " + v.GetRegionError().String()
		}
		return "status " + v.GetResponse().String()
	case *pb.KvResolveLockResponse:
		if v.GetRegionError() != nil {
			return "region error " + v.GetRegionError().String()
		}
		return "resolved " + v.GetResponse().String()
	}
	return ""
}

// resolver is the harness RegionResolver (static routes of the case).
type resolver struct{ f *fixture }

func (r resolver) GetRegionByKey(_ context.Context, req *pb.GetRegionByKeyRequest) (*pb.GetRegionByKeyResponse, error) {
	key := string(req.GetKey())
	for i := 0; i < numRegions; i++ {
		if key >= regionStart[i] && (regionEnd[i] == "" || key < regionEnd[i]) {
			return &pb.GetRegionByKeyResponse{Region: r.f.regionMetaPB(i)}, nil
		}
	}
	return &pb.GetRegionByKeyResponse{NotFound: true}, nil
}
func (r resolver) Close() error { return nil }

func newFixture(c Case) (f *fixture, err error) {
	f = &fixture{c: c, listeners: map[string]*bufconn.Listener{}, occ: map[string]int{}, secOrder: map[string][]int{}, who: "seed"}
	defer func() {
		if p := recover(); p != nil {
			err = fmt.Errorf("fixture panic: %v", p)
		}
		if err != nil {
			f.close()
		}
	}()
	f.cluster = sim.NewCluster()
	f.cleanup = append(f.cleanup, f.cluster.Close)
	for s := 0; s < c.Stores; s++ {
		dir, rm := pbt.TempDir("c28")
		f.cleanup = append(f.cleanup, rm)
		n, err := f.cluster.AddNode(sim.NodeConfig{StoreID: storeID(s), Dir: dir, Storage: sim.StorageDB})
		if err != nil {
			return f, err
		}
		f.nodes = append(f.nodes, n)
	}
	for r := 0; r < numRegions; r++ {
		n := f.nodes[c.RegionStore[r]]
		meta := sim.SingleVoter(regionID(r), []byte(regionStart[r]), []byte(regionEnd[r]),
			manifest.RegionEpoch{Version: 1, ConfVersion: 1}, n.Cfg.StoreID, peerID(r))
		if _, err := n.StartRegion(meta); err != nil {
			return f, err
		}
		if err := n.Campaign(regionID(r)); err != nil {
			return f, err
		}
		if !n.IsLeader(regionID(r)) {
			return f, fmt.Errorf("region %d not leader after campaign", r)
		}
	}
	for s, n := range f.nodes {
		svc := kv.NewService(n.Store)
		for _, kind := range []string{"faulty", "clean"} {
			lis := bufconn.Listen(1 << 16)
			var srv *grpc.Server
			if kind == "faulty" {
				srv = grpc.NewServer(grpc.UnaryInterceptor(f.intercept))
			} else {
				srv = grpc.NewServer()
			}
			pb.RegisterTinyKvServer(srv, svc)
			f.listeners[fmt.Sprintf("%s-%d", kind, s)] = lis
			f.servers = append(f.servers, srv)
			go func() { _ = srv.Serve(lis) }()
		}
	}
	return f, nil
}

func (f *fixture) close() {
	for _, s := range f.servers {
		s.Stop()
	}
	for _, l := range f.listeners {
		_ = l.Close()
	}
	for i := len(f.cleanup) - 1; i >= 0; i-- {
		f.cleanup[i]()
	}
}

// newClient builds a real raftstore/client.Client dialling the faulty or the clean servers.
func (f *fixture) newClient(kind string, maxRetries int) (*client.Client, error) {
	var eps []client.StoreEndpoint
	for s := range f.nodes {
		eps = append(eps, client.StoreEndpoint{StoreID: storeID(s), Addr: fmt.Sprintf("passthrough:///%s-%d", kind, s)})
	}
	return client.New(client.Config{
		Stores:         eps,
		RegionResolver: resolver{f},
		MaxRetries:     maxRetries,
		DialOptions: []grpc.DialOption{
			grpc.WithTransportCredentials(insecure.NewCredentials()),
			grpc.WithContextDialer(func(ctx context.Context, addr string) (net.Conn, error) {
				l := f.listeners[addr]
				if l == nil {
					return nil, fmt.Errorf("c28: unknown address %q", addr)
				}
				return l.DialContext(ctx)
			}),
		},
	})
}

func (f *fixture) setWho(w string) { f.mu.Lock(); f.who = w; f.mu.Unlock() }

func (f *fixture) lastWriterEvent() event {
	f.mu.Lock()
	defer f.mu.Unlock()
	for i := len(f.events) - 1; i >= 0; i-- {
		if f.events[i].Who == "writer" {
			return f.events[i]
		}
	}
	return event{}
}

func (f *fixture) trace() string {
	f.mu.Lock()
	defer f.mu.Unlock()
	var b strings.Builder
	for _, e := range f.events {
		b.WriteString("  " + e.String() + "\n")
	}
	return b.String()
}

// keyState is what the store's DB holds for (key, start), read through the percolator reader.
type keyState struct {
	Lock      *percolator.Lock // any lock on the key
	Write     *percolator.Write
	CommitTs  uint64
	Committed bool // a non-rollback write record with StartTs == start exists
	Rollback  bool
}

func (f *fixture) inspect(k Key, start uint64) (keyState, error) {
	db := f.nodes[f.c.RegionStore[k.Region]].DB
	rd := percolator.NewReader(db)
	var st keyState
	l, err := rd.GetLock(k.bytes())
	if err != nil {
		return st, err
	}
	st.Lock = l
	w, cts, err := rd.GetWriteByStartTs(k.bytes(), start)
	if err != nil {
		return st, err
	}
	if w != nil {
		st.Write, st.CommitTs = w, cts
		if w.Kind == pb.Mutation_Rollback {
			st.Rollback = true
		} else {
			st.Committed = true
		}
	}
	return st, nil
}
