// C28 — client two-phase commit is atomic across regions.
//
// The REAL raftstore/client.Client runs Mutate over gRPC (bufconn) against the
// REAL raftstore/kv.Service on real single-voter store.Store instances; the
// servers' unary interceptor injects one fault per RPC from a script stored in
// the case.  Afterwards a recovering client follows the documented reader
// protocol (CheckTxnStatus(primary) then ResolveLocks with the decided outcome).
// Oracle: primary commit record present  => every key committed at the commit
// version and visible through client Get/Scan; absent => no key of the
// mutation committed/visible and no lock of the transaction left; Mutate == nil
// => primary applied and everything visible already before recovery.
package c28

import (
	"bytes"
	"context"
	"fmt"
	"os"
	"runtime"
	"strings"
	"testing"
	"time"

	"github.com/feichai0017/NoKV/pb"
	"github.com/feichai0017/NoKV/percolator"
	"github.com/feichai0017/NoKV/percolator/latch"
	"github.com/feichai0017/NoKV/raftstore/client"
	"nokvverif/internal/pbt"
	"pgregory.net/rapid"
)

// Every NoKV.Open allocates a 64 MiB memtable arena.  With a tiny live heap the collector frees
// it at once, the scavenger returns the span to the OS and the next Open pays 16k page faults
// while the runtime clears the recycled span (~100 ms per store, 80 % of the CPU of a case).
// An untouched (hence memory-free) 256 MiB ballast raises the heap goal and run() collects
// after every attempt, so freed arenas are recycled while still resident.
var ballast []byte

func TestMain(m *testing.M) {
	ballast = make([]byte, 256<<20)
	if os.Getenv("VERIF_CHILD") != "" {
		// a shard executes its cases one after the other; more Ps only add GC workers and
		// spinning threads that compete with the other shards
		runtime.GOMAXPROCS(2)
	}
	pbt.RunMain(m)
}

// ---------------------------------------------------------------- case

type Key struct {
	Region int  `json:"r"`              // 0..2
	N      int  `json:"n"`              // key = prefix(region) + digit
	Del    bool `json:"del,omitempty"`  // Delete mutation instead of Put
	Seed   bool `json:"seed,omitempty"` // an older value was committed (start 1, commit 2) before the transaction
	// Block makes the prewrite of this key fail for a natural reason: 1 = the key holds the lock of
	// another (dead) transaction (start 5, ttl 1, primary = the key itself), 2 = a newer write
	// (start 20, commit 21) is committed on the key.
	Block int `json:"block,omitempty"`
}

const (
	foreignStart  = 5
	blockerStart  = 20
	blockerCommit = 21
	blockNone     = 0
	blockForeign  = 1
	blockNewer    = 2
)

func (k Key) blockerValue() []byte { return []byte("blk-" + string(k.bytes())) }

func (k Key) bytes() []byte    { return []byte(fmt.Sprintf("%s%d", keyPrefix[k.Region], k.N)) }
func (k Key) newValue() []byte { return []byte("new-" + string(k.bytes())) }
func (k Key) oldValue() []byte { return []byte("old-" + string(k.bytes())) }

// Slot scripts the RPCs of one (who, method, region): A[n] is the action for the n-th such RPC.
type Slot struct {
	Who string `json:"who"` // writer | recover
	M   string `json:"m"`   // prewrite | commit | check | resolve
	R   int    `json:"r"`
	A   []int  `json:"a"`
}

// Reader is a concurrent reader that, just before the Occ-th writer RPC (M,R)
// reaches the server, reads key Keys[Key] at Start+TsDelta and resolves the lock
// it meets exactly as cmd/nokv-redis does (CheckTxnStatus on the lock's primary,
// ResolveLocks on the key).
type Reader struct {
	M       string `json:"m"`
	R       int    `json:"r"`
	Occ     int    `json:"occ"`
	Key     int    `json:"key"`
	TsDelta uint64 `json:"ts"`
}

type Case struct {
	Stores       int             `json:"stores"`
	RegionStore  [numRegions]int `json:"region_store"`
	Keys         []Key           `json:"keys"` // mutation order as handed to Mutate
	Primary      int             `json:"primary"`
	Start        uint64          `json:"start"`
	CommitDelta  uint64          `json:"commit_delta"`
	TTL          uint64          `json:"ttl"`
	MaxRetries   int             `json:"max_retries"`
	Script       []Slot          `json:"script"`
	Readers      []Reader        `json:"readers,omitempty"`
	RecoverDelta uint64          `json:"recover_ts"`     // first recovery CheckTxnStatus uses currentTs = Start+RecoverDelta
	PreFirst     int             `json:"pre_first"`      // which of the two secondary regions (ascending) is prewritten first
	ComFirst     int             `json:"com_first"`      // ... committed first
	Excl         int             `json:"excl,omitempty"` // draws steered away from open findings by the generator
}

func (c Case) commit() uint64 { return c.Start + c.CommitDelta }

func (c Case) action(who, m string, r, occ int) int {
	for _, s := range c.Script {
		if s.Who == who && s.M == m && s.R == r {
			if occ < len(s.A) {
				return s.A[occ]
			}
			return ActOK
		}
	}
	return ActOK
}

func (c Case) regions() []int { // regions touched, ascending
	seen := map[int]bool{}
	for _, k := range c.Keys {
		seen[k.Region] = true
	}
	var out []int
	for r := 0; r < numRegions; r++ {
		if seen[r] {
			out = append(out, r)
		}
	}
	return out
}

func (c Case) secondaries() []int {
	var out []int
	for _, r := range c.regions() {
		if r != c.Keys[c.Primary].Region {
			out = append(out, r)
		}
	}
	return out
}

// The client walks its region groups in Go map order, so with two secondary
// regions the order of their prewrites (and commits) is random.  The order is
// observable only when the phase ends early at a secondary region or a
// concurrent reader fires at a secondary RPC of the phase; in those runs the
// order must be the one stored in the case (PreFirst/ComFirst), otherwise the
// attempt is discarded and repeated on a fresh cluster.
func (c Case) wantFirst(phase string) (int, bool) {
	sec := c.secondaries()
	if len(sec) != 2 {
		return 0, false
	}
	pick := c.PreFirst
	if phase == "commit" {
		pick = c.ComFirst
	}
	return sec[pick&1], true
}

func validate(c Case) error {
	if c.Stores < 1 || c.Stores > 3 || len(c.Keys) == 0 || len(c.Keys) > 6 || c.Primary < 0 || c.Primary >= len(c.Keys) {
		return fmt.Errorf("bad shape")
	}
	seen := map[string]bool{}
	for _, k := range c.Keys {
		if k.Region < 0 || k.Region >= numRegions || k.N < 0 || k.N > 9 || seen[string(k.bytes())] || k.Block < 0 || k.Block > 2 {
			return fmt.Errorf("bad key %+v", k)
		}
		seen[string(k.bytes())] = true
	}
	for _, s := range c.RegionStore {
		if s < 0 || s >= c.Stores {
			return fmt.Errorf("bad region store")
		}
	}
	if c.Start < 10 || c.commit() >= blockerStart || c.CommitDelta == 0 || c.TTL == 0 || c.MaxRetries < 1 || c.MaxRetries > 5 {
		return fmt.Errorf("bad numbers")
	}
	for _, s := range c.Script {
		if s.R < 0 || s.R >= numRegions || len(s.A) > 16 {
			return fmt.Errorf("bad slot")
		}
		for _, a := range s.A {
			if a < 0 || a >= numActs {
				return fmt.Errorf("bad action")
			}
		}
	}
	for _, rd := range c.Readers {
		if rd.Key < 0 || rd.Key >= len(c.Keys) || rd.R < 0 || rd.R >= numRegions {
			return fmt.Errorf("bad reader")
		}
	}
	return nil
}

// ---------------------------------------------------------------- execution

type result struct {
	labels   []string
	nt       bool
	excluded int
}

func (x *result) label(s string) { x.labels = append(x.labels, s) }

func ctxT() (context.Context, context.CancelFunc) {
	return context.WithTimeout(context.Background(), 20*time.Second)
}

func run(c Case, r *pbt.Rec) error {
	if err := validate(c); err != nil {
		return pbt.Failf("harness", "invalid case: %v", err)
	}
	for attempt := 0; attempt < 200; attempt++ {
		res, retry, err := runOnce(c)
		runtime.GC() // free the closed stores' arenas now, so the next Open recycles them while resident (see ballast)
		if retry {
			continue
		}
		for _, l := range res.labels {
			r.Label(l)
		}
		r.Excluded(res.excluded)
		if res.nt {
			r.NT()
		}
		if attempt > 0 {
			r.Label("order-retries")
			r.LabelN("order-retry-attempts", attempt)
		}
		return err
	}
	r.Label("order-not-obtained")
	return nil
}

func runOnce(c Case) (res *result, retry bool, err error) {
	res = &result{excluded: c.Excl}
	f, err := newFixture(c)
	if err != nil {
		return res, false, pbt.Failf("harness", "fixture: %v", err)
	}
	defer f.close()
	clean, err := f.newClient("clean", 5)
	if err != nil {
		return res, false, pbt.Failf("harness", "clean client: %v", err)
	}
	defer clean.Close()
	ctx, cancel := ctxT()
	defer cancel()

	// ---- seed older committed values through the clean path
	var seeds []*pb.Mutation
	for _, k := range c.Keys {
		if k.Seed {
			seeds = append(seeds, &pb.Mutation{Op: pb.Mutation_Put, Key: k.bytes(), Value: k.oldValue()})
		}
	}
	if len(seeds) > 0 {
		if err := clean.Mutate(ctx, seeds[0].Key, seeds, 1, 2, 3000); err != nil {
			return res, false, pbt.Failf("harness", "seeding failed: %v", err)
		}
	}

	for _, k := range c.Keys {
		switch k.Block {
		case blockForeign:
			db := f.nodes[c.RegionStore[k.Region]].DB
			if errs := percolator.Prewrite(db, latch.NewManager(8), &pb.PrewriteRequest{
				Mutations:   []*pb.Mutation{{Op: pb.Mutation_Put, Key: k.bytes(), Value: []byte("frn-" + string(k.bytes()))}},
				PrimaryLock: k.bytes(), StartVersion: foreignStart, LockTtl: 1}); len(errs) > 0 {
				return res, false, pbt.Failf("harness", "foreign lock: %v", errs)
			}
		case blockNewer:
			if err := clean.Mutate(ctx, k.bytes(), []*pb.Mutation{{Op: pb.Mutation_Put, Key: k.bytes(), Value: k.blockerValue()}}, blockerStart, blockerCommit, 3000); err != nil {
				return res, false, pbt.Failf("harness", "blocker write: %v", err)
			}
		}
	}

	// ---- the transaction under test
	writer, err := f.newClient("faulty", c.MaxRetries)
	if err != nil {
		return res, false, pbt.Failf("harness", "writer client: %v", err)
	}
	defer writer.Close()
	var muts []*pb.Mutation
	var allKeys [][]byte
	for _, k := range c.Keys {
		if k.Del {
			muts = append(muts, &pb.Mutation{Op: pb.Mutation_Delete, Key: k.bytes()})
		} else {
			muts = append(muts, &pb.Mutation{Op: pb.Mutation_Put, Key: k.bytes(), Value: k.newValue()})
		}
		allKeys = append(allKeys, k.bytes())
	}
	primary := c.Keys[c.Primary]
	var readerLog []string
	readerAtSecondary := map[string]bool{}
	if len(c.Readers) > 0 {
		f.readerHook = func(m string, region, occ int) {
			for _, rd := range c.Readers {
				if rd.M == m && rd.R == region && rd.Occ == occ {
					if region != primary.Region {
						readerAtSecondary[m] = true
					}
					readerLog = append(readerLog, fmt.Sprintf("before writer %s@r%d#%d: %s", m, region, occ,
						readerResolve(ctx, clean, c.Keys[rd.Key].bytes(), c.Start+rd.TsDelta)))
				}
			}
		}
	}
	f.setWho("writer")
	mutErr := writer.Mutate(ctx, primary.bytes(), muts, c.Start, c.commit(), c.TTL)
	f.setWho("idle")
	for _, phase := range []string{"prewrite", "commit"} {
		want, two := c.wantFirst(phase)
		seen := f.secOrder[phase]
		if !two || len(seen) == 0 {
			continue
		}
		matters := readerAtSecondary[phase]
		if mutErr != nil && len(f.events) > 0 {
			if last := f.lastWriterEvent(); last.Method == phase && last.Region != primary.Region {
				matters = true // the phase ended at a secondary region
			}
		}
		if matters && seen[0] != want {
			return res, true, nil
		}
	}
	fail := func(sig, format string, a ...any) error {
		msg := fmt.Sprintf(format, a...)
		return pbt.Failf(sig, "%s\nMutate returned: %v\nkeys=%s primary=%s start=%d commit=%d ttl=%d\nRPC trace:\n%s%s",
			msg, mutErr, keyList(c), primary.bytes(), c.Start, c.commit(), c.TTL, f.trace(), strings.Join(readerLog, "\n"))
	}

	// classify what was injected during Mutate
	primaryCommitFault, secondaryCommitFault := false, false
	reachedCommit := false
	for _, e := range f.events {
		if e.Who != "writer" {
			continue
		}
		if e.Method == "commit" {
			reachedCommit = true
		}
		if e.Act != ActOK {
			res.label("writer-fault:" + e.Method + ":" + actNames[e.Act])
			if e.Method == "commit" {
				if e.Region == primary.Region {
					primaryCommitFault = true
				} else {
					secondaryCommitFault = true
				}
			}
		}
	}
	res.label(fmt.Sprintf("regions:%d", len(c.regions())))
	res.label(fmt.Sprintf("stores:%d", c.Stores))
	if primaryCommitFault {
		res.label("fault-on-primary-commit")
	}
	if secondaryCommitFault {
		res.label("fault-between-primary-and-secondary-commit")
	}
	if len(readerLog) > 0 {
		res.label("reader-fired")
	}
	if primaryCommitFault || secondaryCommitFault || (len(readerLog) > 0 && reachedCommit) {
		res.nt = true
	}

	// ---- was the primary commit applied?
	pst, err := f.inspect(primary, c.Start)
	if err != nil {
		return res, false, fail("harness", "inspect primary: %v", err)
	}
	applied := pst.Committed
	switch {
	case mutErr == nil:
		res.label("mutate:nil")
	case applied:
		res.label("mutate:error/primary-applied")
	default:
		res.label("mutate:error/primary-not-applied")
	}
	if mutErr == nil {
		if !applied {
			return res, false, fail("nil-but-primary-not-committed", "Mutate returned nil but the primary key has no commit record (state %s)", stateString(pst))
		}
		// success must not need any resolution
		if err := f.checkFinal(c, clean, true, "before recovery", res); err != nil {
			return res, false, fail(err.(*pbt.Fail).Sig, "%s", err.(*pbt.Fail).Msg)
		}
	}
	if applied && pst.CommitTs != c.commit() {
		return res, false, fail("primary-commit-version", "primary committed at %d, want %d", pst.CommitTs, c.commit())
	}

	// ---- recovery: CheckTxnStatus(primary) then ResolveLocks for every key with the decided outcome
	rec, err := f.newClient("faulty", c.MaxRetries)
	if err != nil {
		return res, false, pbt.Failf("harness", "recover client: %v", err)
	}
	defer rec.Close()
	f.setWho("recover")
	cur := c.Start + c.RecoverDelta
	decided, outcome := false, uint64(0)
	var lastErr error
	for i := 0; i < 40 && !decided; i++ {
		resp, err := rec.CheckTxnStatus(ctx, primary.bytes(), c.Start, cur)
		if err != nil {
			lastErr = err
			continue
		}
		if resp == nil {
			lastErr = fmt.Errorf("nil status response")
			continue
		}
		if ke := resp.GetError(); ke != nil {
			lastErr = fmt.Errorf("status key error %v", ke)
			if l := ke.GetLocked(); l != nil && l.GetLockVersion() != c.Start {
				// the primary key holds another transaction's lock: resolve that one first, as a reader would
				res.label("recover:foreign-lock-on-primary")
				if cur < l.GetLockVersion()+l.GetLockTtl() {
					cur = l.GetLockVersion() + l.GetLockTtl()
				}
				if st, err := rec.CheckTxnStatus(ctx, l.GetPrimaryLock(), l.GetLockVersion(), cur); err == nil && st != nil && st.GetError() == nil {
					if cv := st.GetCommitVersion(); cv > 0 {
						_, _ = rec.ResolveLocks(ctx, l.GetLockVersion(), cv, [][]byte{l.GetKey()})
					} else if a := st.GetAction(); a == pb.CheckTxnStatusAction_CheckTxnStatusTTLExpireRollback || a == pb.CheckTxnStatusAction_CheckTxnStatusLockNotExistRollback {
						_, _ = rec.ResolveLocks(ctx, l.GetLockVersion(), 0, [][]byte{l.GetKey()})
					}
				}
			}
			continue
		}
		if cv := resp.GetCommitVersion(); cv > 0 {
			decided, outcome = true, cv
			res.label("recover:committed")
			break
		}
		switch resp.GetAction() {
		case pb.CheckTxnStatusAction_CheckTxnStatusTTLExpireRollback:
			decided = true
			res.label("recover:ttl-expire-rollback")
		case pb.CheckTxnStatusAction_CheckTxnStatusLockNotExistRollback:
			decided = true
			res.label("recover:lock-not-exist-rollback")
		default: // alive: wait until the lock has expired
			res.label("recover:saw-live-lock")
			if cur < c.Start+c.TTL {
				cur = c.Start + c.TTL
			} else {
				cur++
			}
		}
	}
	if !decided {
		f.setWho("idle")
		return res, false, fail("recovery-stuck", "CheckTxnStatus(primary) did not reach a decision in 40 attempts (last error: %v)", lastErr)
	}
	resolved := false
	for i := 0; i < 40; i++ {
		if _, err := rec.ResolveLocks(ctx, c.Start, outcome, allKeys); err != nil {
			lastErr = err
			continue
		}
		resolved = true
		break
	}
	f.setWho("idle")
	if !resolved {
		return res, false, fail("recovery-stuck", "ResolveLocks did not succeed in 40 attempts (last error: %v)", lastErr)
	}
	for _, e := range f.events {
		if e.Who == "recover" && e.Act != ActOK {
			res.label("recover-fault:" + e.Method + ":" + actNames[e.Act])
		}
	}
	if applied && outcome != c.commit() {
		return res, false, fail("status-disagrees", "primary commit record exists at %d but CheckTxnStatus decided %d", pst.CommitTs, outcome)
	}
	if !applied && outcome != 0 {
		return res, false, fail("status-disagrees", "primary has no commit record but CheckTxnStatus reported commit version %d", outcome)
	}

	if os.Getenv("C28_TRACE") != "" {
		fmt.Printf("TRACE keys=%s mutate=%v applied=%v outcome=%d\n%s%s\n", keyList(c), mutErr, applied, outcome, f.trace(), strings.Join(readerLog, "\n"))
	}
	for _, k := range c.Keys {
		if k.Block == blockForeign { // a reader of the key resolves the dead transaction's lock
			_ = readerResolve(ctx, clean, k.bytes(), c.Start+5000)
		}
	}
	hasBlock := false
	for _, k := range c.Keys {
		hasBlock = hasBlock || k.Block != blockNone
	}
	if hasBlock {
		res.label("prewrite-blocked-by-other-txn")
	}
	// ---- final oracle
	if err := f.checkFinal(c, clean, applied, "after resolution", res); err != nil {
		return res, false, fail(err.(*pbt.Fail).Sig, "%s", err.(*pbt.Fail).Msg)
	}
	return res, false, nil
}

// readerResolve is cmd/nokv-redis' resolveSingleLock driven by a Get.
func readerResolve(ctx context.Context, cl *client.Client, key []byte, ts uint64) string {
	resp, err := cl.Get(ctx, key, ts)
	if err != nil {
		return fmt.Sprintf("reader Get(%s@%d) error %v", key, ts, err)
	}
	lock := resp.GetError().GetLocked()
	if lock == nil {
		return fmt.Sprintf("reader Get(%s@%d) met no lock", key, ts)
	}
	st, err := cl.CheckTxnStatus(ctx, lock.GetPrimaryLock(), lock.GetLockVersion(), ts)
	if err != nil || st == nil {
		return fmt.Sprintf("reader Get(%s@%d) locked; CheckTxnStatus error %v", key, ts, err)
	}
	out := fmt.Sprintf("reader Get(%s@%d) locked by %d; status{commit=%d action=%v err=%v}", key, ts, lock.GetLockVersion(), st.GetCommitVersion(), st.GetAction(), st.GetError())
	if st.GetError() != nil {
		return out
	}
	if cv := st.GetCommitVersion(); cv > 0 {
		_, err := cl.ResolveLocks(ctx, lock.GetLockVersion(), cv, [][]byte{lock.GetKey()})
		return out + fmt.Sprintf("; ResolveLocks(commit %d) err=%v", cv, err)
	}
	switch st.GetAction() {
	case pb.CheckTxnStatusAction_CheckTxnStatusTTLExpireRollback, pb.CheckTxnStatusAction_CheckTxnStatusLockNotExistRollback:
		_, err := cl.ResolveLocks(ctx, lock.GetLockVersion(), 0, [][]byte{lock.GetKey()})
		return out + fmt.Sprintf("; ResolveLocks(rollback) err=%v", err)
	}
	return out + "; lock alive, reader backs off"
}

func r4Open() bool { return pbt.Open("C17-R4") || pbt.Open("C28-R4") }

// checkFinal is the atomicity oracle.
func (f *fixture) checkFinal(c Case, clean *client.Client, applied bool, when string, res *result) error {
	ctx, cancel := ctxT()
	defer cancel()
	commit := c.commit()
	latest := c.Start + 1000
	scanned := map[string][]byte{}
	for _, ts := range []uint64{commit, latest} {
		kvs, err := clean.Scan(ctx, []byte(""), 64, ts)
		if err != nil {
			return pbt.Failf("scan-error", "%s: client Scan@%d failed: %v", when, ts, err)
		}
		if ts == commit {
			for _, kv := range kvs {
				scanned[string(kv.GetKey())] = kv.GetValue()
			}
		}
	}
	for _, k := range c.Keys {
		st, err := f.inspect(k, c.Start)
		if err != nil {
			return pbt.Failf("harness", "inspect %s: %v", k.bytes(), err)
		}
		if st.Lock != nil && st.Lock.Ts == c.Start {
			return pbt.Failf("lock-remains", "%s: key %s still holds the transaction's lock (primary applied=%v)", when, k.bytes(), applied)
		}
		get := func(ts uint64) (*pb.GetResponse, error) {
			resp, err := clean.Get(ctx, k.bytes(), ts)
			if err != nil {
				return nil, pbt.Failf("get-error", "%s: client Get(%s@%d) failed: %v", when, k.bytes(), ts, err)
			}
			if resp.GetError() != nil {
				return nil, pbt.Failf("get-error", "%s: client Get(%s@%d) key error %v", when, k.bytes(), ts, resp.GetError())
			}
			return resp, nil
		}
		if applied {
			if !st.Committed {
				return pbt.Failf("committed-key-missing", "%s: primary is committed but key %s has no commit record (%s)", when, k.bytes(), stateString(st))
			}
			if st.CommitTs != commit {
				return pbt.Failf("commit-version", "%s: key %s committed at %d, want %d", when, k.bytes(), st.CommitTs, commit)
			}
			for _, ts := range []uint64{commit, latest} {
				resp, err := get(ts)
				if err != nil {
					return err
				}
				if k.Block == blockNewer && ts >= blockerCommit {
					continue // only reachable if the store accepted a prewrite below a newer commit
				}
				if k.Del {
					if !resp.GetNotFound() {
						return pbt.Failf("not-visible", "%s: primary is committed but Get(%s@%d) still returns %q after the delete", when, k.bytes(), ts, resp.GetValue())
					}
				} else if resp.GetNotFound() || !bytes.Equal(resp.GetValue(), k.newValue()) {
					return pbt.Failf("not-visible", "%s: primary is committed but Get(%s@%d) = {notfound=%v value=%q}, want %q", when, k.bytes(), ts, resp.GetNotFound(), resp.GetValue(), k.newValue())
				}
			}
			// not visible below the commit version
			resp, err := get(commit - 1)
			if err == nil && !k.Del && bytes.Equal(resp.GetValue(), k.newValue()) {
				return pbt.Failf("visible-early", "%s: Get(%s@%d) already returns the new value (commit version %d)", when, k.bytes(), commit-1, commit)
			}
			v, in := scanned[string(k.bytes())]
			if k.Del && in {
				return pbt.Failf("scan-not-visible", "%s: Scan@%d still returns deleted key %s", when, commit, k.bytes())
			}
			if !k.Del && (!in || !bytes.Equal(v, k.newValue())) {
				return pbt.Failf("scan-not-visible", "%s: Scan@%d returns %q (present=%v) for %s, want %q", when, commit, v, in, k.bytes(), k.newValue())
			}
			continue
		}
		// primary never committed: nothing of the mutation may be visible
		if st.Committed {
			return pbt.Failf("visible-without-primary", "%s: primary has no commit record but key %s is committed at %d (%s)", when, k.bytes(), st.CommitTs, stateString(st))
		}
		for _, ts := range []uint64{commit, latest} {
			resp, err := get(ts)
			if err != nil {
				return err
			}
			if !k.Del && bytes.Equal(resp.GetValue(), k.newValue()) {
				return pbt.Failf("visible-without-primary", "%s: primary has no commit record but Get(%s@%d) returns the new value", when, k.bytes(), ts)
			}
			// what the key held without the transaction must still be there (for a Delete this is
			// the only client-visible difference between aborted and committed)
			var want []byte
			switch {
			case k.Block == blockNewer && ts >= blockerCommit:
				want = k.blockerValue()
			case k.Seed:
				want = k.oldValue()
			}
			if want != nil && (resp.GetNotFound() || !bytes.Equal(resp.GetValue(), want)) {
				if r4Open() {
					res.excluded++
					res.label("excluded:old-value-hidden-by-rollback-record")
				} else {
					return pbt.Failf("old-value-lost", "%s: transaction rolled back but Get(%s@%d) = {notfound=%v value=%q}, want the value committed by another transaction %q (%s)",
						when, k.bytes(), ts, resp.GetNotFound(), resp.GetValue(), want, stateString(st))
				}
			}
			if want == nil && !resp.GetNotFound() {
				return pbt.Failf("phantom-value", "%s: Get(%s@%d) returns %q, the key was never committed", when, k.bytes(), ts, resp.GetValue())
			}
		}
		if v, in := scanned[string(k.bytes())]; in && !k.Del && bytes.Equal(v, k.newValue()) {
			return pbt.Failf("visible-without-primary", "%s: primary has no commit record but Scan@%d returns the new value of %s", when, commit, k.bytes())
		}
	}
	return nil
}

func stateString(st keyState) string {
	var p []string
	if st.Lock != nil {
		p = append(p, fmt.Sprintf("lock{ts=%d primary=%s minCommit=%d}", st.Lock.Ts, st.Lock.Primary, st.Lock.MinCommitTs))
	} else {
		p = append(p, "no lock")
	}
	switch {
	case st.Committed:
		p = append(p, fmt.Sprintf("commit record@%d kind=%v", st.CommitTs, st.Write.Kind))
	case st.Rollback:
		p = append(p, fmt.Sprintf("rollback record@%d", st.CommitTs))
	default:
		p = append(p, "no write record")
	}
	return strings.Join(p, ", ")
}

func keyList(c Case) string {
	var p []string
	for i, k := range c.Keys {
		s := string(k.bytes())
		if k.Del {
			s += "(del)"
		}
		if k.Seed {
			s += "(seeded)"
		}
		if k.Block == blockForeign {
			s += "(foreign-lock)"
		}
		if k.Block == blockNewer {
			s += "(newer-write)"
		}
		if i == c.Primary {
			s += "*"
		}
		p = append(p, s)
	}
	return "[" + strings.Join(p, " ") + "]"
}

// ---------------------------------------------------------------- generators

func genKeys(t *rapid.T, c *Case) {
	span := rapid.SampledFrom([]int{1, 2, 2, 3, 3}).Draw(t, "span")
	regs := rapid.Permutation([]int{0, 1, 2}).Draw(t, "regs")[:span]
	var keys []Key
	for _, rg := range regs {
		n := rapid.SampledFrom([]int{1, 1, 2, 3}).Draw(t, "nkeys")
		for i := 0; i < n && len(keys) < 6; i++ {
			keys = append(keys, Key{Region: rg, N: i,
				Del:  rapid.IntRange(0, 3).Draw(t, "del") == 0,
				Seed: rapid.IntRange(0, 2).Draw(t, "seed") == 0})
		}
	}
	if rapid.IntRange(0, 7).Draw(t, "blocked") == 0 {
		keys[rapid.IntRange(0, len(keys)-1).Draw(t, "bk")].Block = rapid.IntRange(1, 2).Draw(t, "bt")
	}
	c.Keys = rapid.Permutation(keys).Draw(t, "order")
	c.Primary = rapid.IntRange(0, len(c.Keys)-1).Draw(t, "primary")
}

func genBase(t *rapid.T) Case {
	var c Case
	c.Stores = rapid.SampledFrom([]int{1, 1, 1, 1, 1, 1, 1, 2, 2, 3}).Draw(t, "stores")
	for i := range c.RegionStore {
		c.RegionStore[i] = rapid.IntRange(0, c.Stores-1).Draw(t, "rs")
	}
	genKeys(t, &c)
	c.Start = rapid.Uint64Range(10, 14).Draw(t, "start")
	c.CommitDelta = rapid.Uint64Range(1, 3).Draw(t, "cd")
	c.TTL = rapid.SampledFrom([]uint64{1, 4, 50, 3000}).Draw(t, "ttl")
	c.MaxRetries = rapid.IntRange(1, 4).Draw(t, "retries")
	c.RecoverDelta = rapid.SampledFrom([]uint64{1, 3, 5, 60, 4000}).Draw(t, "rdelta")
	c.PreFirst = rapid.IntRange(0, 1).Draw(t, "prefirst")
	c.ComFirst = rapid.IntRange(0, 1).Draw(t, "comfirst")
	return c
}

var retryable = []int{ActNotLeader, ActNotLeaderHint, ActEpoch}
var terminal = []int{ActFail, ActDrop, ActDrop, ActEpochEmpty}

// genSlot draws the actions of one slot: some retryable region errors (fewer
// than the retry budget unless exhaust is drawn), optionally ended by a terminal fault.
func genSlot(t *rapid.T, maxRetries int, term bool) []int {
	var a []int
	nre := 0
	switch rapid.IntRange(0, 5).Draw(t, "re") {
	case 0, 1:
		nre = rapid.IntRange(1, maxRetries).Draw(t, "nre") // == maxRetries exhausts the budget
		if nre == maxRetries && rapid.IntRange(0, 2).Draw(t, "exh") != 0 {
			nre--
		}
	}
	for i := 0; i < nre; i++ {
		a = append(a, rapid.SampledFrom(retryable).Draw(t, "ra"))
	}
	if term {
		a = append(a, rapid.SampledFrom(terminal).Draw(t, "ta"))
	}
	return a
}

func genScript(t *rapid.T, c *Case) {
	pr := c.Keys[c.Primary].Region
	sec := c.secondaries()
	// where the terminal fault goes (if any): aimed at the commit phase half of the time
	type tgt struct {
		m string
		r int
	}
	targets := []tgt{{"prewrite", pr}, {"commit", pr}, {"commit", pr}}
	for _, s := range sec {
		targets = append(targets, tgt{"prewrite", s}, tgt{"commit", s}, tgt{"commit", s})
	}
	var term *tgt
	if rapid.IntRange(0, 9).Draw(t, "hasterm") < 8 {
		x := rapid.SampledFrom(targets).Draw(t, "target")
		term = &x
	}
	for _, m := range []string{"prewrite", "commit"} {
		for _, rg := range c.regions() {
			isT := term != nil && term.m == m && term.r == rg
			a := genSlot(t, c.MaxRetries, isT)
			if len(a) > 0 {
				c.Script = append(c.Script, Slot{Who: "writer", M: m, R: rg, A: a})
			}
		}
	}
	// recovery faults: any action, the recovering client retries until the script is used up
	any := rapid.SliceOfN(rapid.IntRange(0, numActs-1), 0, 4)
	if rapid.IntRange(0, 2).Draw(t, "recfault") == 0 {
		if a := any.Draw(t, "check"); len(a) > 0 {
			c.Script = append(c.Script, Slot{Who: "recover", M: "check", R: pr, A: a})
		}
		for _, rg := range c.regions() {
			if a := any.Draw(t, "resolve"); len(a) > 0 {
				c.Script = append(c.Script, Slot{Who: "recover", M: "resolve", R: rg, A: a})
			}
		}
	}
}

// genFaults: the spec of the brief — faults only, recovery after Mutate returned.
func genFaults(t *rapid.T) Case {
	c := genBase(t)
	genScript(t, &c)
	return c
}

// genFree: unconstrained scripts (any action anywhere).
func genFree(t *rapid.T) Case {
	c := genBase(t)
	any := rapid.SliceOfN(rapid.SampledFrom([]int{0, 0, 0, 1, 2, 3, 4, 5, 6}), 0, 5)
	for _, m := range []string{"prewrite", "commit"} {
		for _, rg := range c.regions() {
			if a := any.Draw(t, "a"); len(a) > 0 {
				c.Script = append(c.Script, Slot{Who: "writer", M: m, R: rg, A: a})
			}
		}
	}
	for _, rg := range c.regions() {
		if a := any.Draw(t, "ra"); len(a) > 0 {
			c.Script = append(c.Script, Slot{Who: "recover", M: "resolve", R: rg, A: a})
		}
	}
	if a := any.Draw(t, "ca"); len(a) > 0 {
		c.Script = append(c.Script, Slot{Who: "recover", M: "check", R: c.Keys[c.Primary].Region, A: a})
	}
	return c
}

// genReaders: faults plus one or two concurrent readers that meet the transaction's
// locks while Mutate is running (what any other client of the cluster does).
func genReaders(t *rapid.T) Case {
	c := genBase(t)
	if rapid.IntRange(0, 1).Draw(t, "withfaults") == 0 {
		genScript(t, &c)
	}
	n := rapid.IntRange(1, 2).Draw(t, "nreaders")
	for i := 0; i < n; i++ {
		c.Readers = append(c.Readers, Reader{
			M:       rapid.SampledFrom([]string{"prewrite", "commit", "commit"}).Draw(t, "rm"),
			R:       rapid.SampledFrom(c.regions()).Draw(t, "rr"),
			Occ:     rapid.SampledFrom([]int{0, 0, 0, 1}).Draw(t, "rocc"),
			Key:     rapid.IntRange(0, len(c.Keys)-1).Draw(t, "rkey"),
			TsDelta: rapid.SampledFrom([]uint64{1, 2, 3, 5, 60, 4000}).Draw(t, "rts"),
		})
	}
	steer(&c)
	return c
}

func batchOrderOpen() bool { return pbt.Open("C28-commit-batch-order") }
func r5Open() bool         { return pbt.Open("C18-R5") || pbt.Open("C28-R5") }

// steer moves a drawn case away from open findings (exclusion by construction).
func steer(c *Case) {
	pr := c.Keys[c.Primary].Region
	if batchOrderOpen() && len(c.Readers) > 0 {
		// C28-commit-batch-order: the primary must not follow another key of its region in the mutation list
		for i, k := range c.Keys {
			if k.Region == pr {
				if i != c.Primary {
					c.Keys[i], c.Keys[c.Primary] = c.Keys[c.Primary], c.Keys[i]
					for j := range c.Readers {
						switch c.Readers[j].Key {
						case i:
							c.Readers[j].Key = c.Primary
						case c.Primary:
							c.Readers[j].Key = i
						}
					}
					c.Primary = i
					c.Excl++
				}
				break
			}
		}
	}
	if r5Open() {
		// R5 (Commit succeeds after a rollback): no reader may find the lock expired while the
		// writer can still send the primary commit
		for j := range c.Readers {
			rd := &c.Readers[j]
			afterPrimaryCommit := rd.M == "commit" && rd.R != pr
			if rd.TsDelta >= c.TTL && !afterPrimaryCommit {
				c.TTL = 3000
				if rd.TsDelta >= c.TTL {
					rd.TsDelta = 60
				}
				c.Excl++
			}
		}
	}
}

func TestCheck(t *testing.T) {
	s := &pbt.Suite{ID: "C28", Level: "fault_enumeration",
		Rule: "non-trivial = a case in which an injected fault (fail-before-handler, response loss, NotLeader, EpochNotMatch) actually hit the primary-commit RPC or a secondary-commit RPC (i.e. between primary and secondary commit) of the running Mutate; distinct by case content",
		Assumptions: []string{
			"regions are single-voter raft groups; leader changes are represented by synthesised NotLeader / EpochNotMatch answers of the shapes store.validateCommand produces",
			"lock TTL > 0 (TTL 0 never expires, cmd/nokv-redis uses 3000); timestamps are small integers handed in by the harness as a TSO would",
			"the order in which the client visits two secondary regions (Go map order) is fixed by the case when it can matter; attempts showing the other order are discarded",
			"'visible' is judged through client Get and Scan on fault-free connections and through the commit record of (key, start version) read with percolator.Reader",
		},
	}
	pbt.Add(s, &pbt.Spec[Case]{Name: "faults", Gen: genFaults, Run: run, Quick: 1800, Thorough: 30000, Shards: 12})
	pbt.Add(s, &pbt.Spec[Case]{Name: "free", Gen: genFree, Run: run, Quick: 600, Thorough: 10000, Shards: 12})
	pbt.Add(s, &pbt.Spec[Case]{Name: "readers", Gen: genReaders, Run: run, Quick: 1000, Thorough: 20000, Shards: 12})
	s.Main(t)
}
