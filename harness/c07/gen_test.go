package c07

import (
	"math"

	"nokvverif/internal/pbt"
	"pgregory.net/rapid"
)

// Finding ids (see FINDINGS.md).  While one is listed as open the generator
// removes, by construction, every key whose pairing with an already chosen key
// is in the finding's class (model_test.go:f7Class) and counts it in Case.Excl.
const (
	kfOrder = "C07-F7"    // ART orders prefix-related user keys by raw bytes
	kfPad   = "C07-F7pad" // ART treats a key and its zero-extension as the same radix path
	kfRace  = "C07-ARTrace"
)

var segments = [][]byte{
	[]byte("a"), []byte("b"), []byte("ab"), []byte("abc"),
	{'a', 0x00}, {'a', 0xff}, {0xff}, {0x00},
}

// Versions that matter for the encoding: 0/1 (suffix ff…ff / ff…fe), the two
// largest (suffix 00…01 / 00…00: what every non-transactional write uses),
// byte-boundary values, and versions whose inverted top byte is 'a'/'b'/'c'
// (0x9e/0x9d/0x9c) so the suffix collides with the key alphabet.
var specialVersions = []uint64{
	0, 1, 2, 3, 5, 0xff, 0x100, 0xffff, 1 << 32, 1 << 56, 1 << 63,
	0x9e00000000000000, 0x9effffffffffffff, 0x9d00000000000000, 0x9d9d9d9d9d9d9d9d, 0x9c00000000000001,
	0xff00000000000000, 0xfeffffffffffffff,
	math.MaxUint64 - 2, math.MaxUint64 - 1, math.MaxUint64,
}

func genVersion(t *rapid.T) uint64 {
	if rapid.IntRange(0, 9).Draw(t, "vkind") < 7 {
		return rapid.SampledFrom(specialVersions).Draw(t, "vspecial")
	}
	return rapid.Uint64().Draw(t, "varb")
}

func inv(v uint64) []byte {
	x := ^v
	return []byte{byte(x >> 56), byte(x >> 48), byte(x >> 40), byte(x >> 32), byte(x >> 24), byte(x >> 16), byte(x >> 8), byte(x)}
}

func genSegKey(t *rapid.T) []byte {
	n := rapid.IntRange(1, 3).Draw(t, "nseg")
	var k []byte
	for i := 0; i < n; i++ {
		k = append(k, rapid.SampledFrom(segments).Draw(t, "seg")...)
	}
	return k
}

// genExt: an extension making the new key prefix-related to an existing one.
func genExt(t *rapid.T, vers []uint64) []byte {
	switch rapid.IntRange(0, 5).Draw(t, "extkind") {
	case 0:
		return []byte{0x00}
	case 1:
		return []byte{0xff}
	case 2:
		return rapid.SampledFrom(segments).Draw(t, "extseg")
	case 3: // a prefix of some version suffix: the bytes an extension must beat in raw order
		v := rapid.SampledFrom(vers).Draw(t, "extver")
		n := rapid.IntRange(1, 8).Draw(t, "extn")
		e := append([]byte{}, inv(v)[:n]...)
		if rapid.Bool().Draw(t, "extbump") {
			e[n-1] += byte(rapid.IntRange(-1, 1).Draw(t, "extd"))
		}
		return e
	case 4:
		return make([]byte, rapid.IntRange(1, 9).Draw(t, "extzeros"))
	default:
		return rapid.SliceOfN(rapid.Byte(), 1, 4).Draw(t, "extarb")
	}
}

func genLongKey(t *rapid.T) []byte {
	var n int
	switch rapid.IntRange(0, 59).Draw(t, "longkind") {
	case 0:
		n = rapid.SampledFrom([]int{30000, 65000}).Draw(t, "hugelen") // txn.go: maxKeySize = 65000
	case 1, 2, 3, 4, 5, 6, 7, 8, 9:
		n = rapid.IntRange(300, 3000).Draw(t, "longlen")
	default:
		n = rapid.IntRange(13, 300).Draw(t, "midlen")
	}
	seg := rapid.SampledFrom(segments).Draw(t, "longseg")
	k := make([]byte, 0, n+4)
	for len(k) < n {
		k = append(k, seg...)
	}
	k = k[:n]
	if rapid.Bool().Draw(t, "longtail") {
		k = append(k, rapid.SliceOfN(rapid.Byte(), 1, 3).Draw(t, "tail")...)
	}
	return k
}

type material struct {
	keys [][]byte
	vers []uint64
}

func genMaterial(t *rapid.T) material {
	var m material
	nv := rapid.IntRange(1, 6).Draw(t, "nvers")
	for i := 0; i < nv; i++ {
		m.vers = append(m.vers, genVersion(t))
	}
	nk := rapid.IntRange(1, 10).Draw(t, "nkeys")
	for i := 0; i < nk; i++ {
		kind := rapid.IntRange(0, 19).Draw(t, "kkind")
		var k []byte
		switch {
		case kind < 9 || (len(m.keys) == 0 && kind < 15):
			k = genSegKey(t)
		case kind < 15:
			base := rapid.SampledFrom(m.keys).Draw(t, "base")
			k = append(append([]byte{}, base...), genExt(t, m.vers)...)
		case kind < 18:
			k = rapid.SliceOfN(rapid.Byte(), 1, 40).Draw(t, "arbkey")
		default:
			k = genLongKey(t)
		}
		m.keys = append(m.keys, k)
	}
	return m
}

func genCF(t *rapid.T) uint8 {
	if rapid.IntRange(0, 4).Draw(t, "cfkind") == 0 {
		return uint8(rapid.IntRange(1, 2).Draw(t, "cf"))
	}
	return 0
}

func genValueShape(t *rapid.T, e *Ent, bulk bool) {
	e.Meta = rapid.SampledFrom([]uint8{0, 0, 0, 1, 2, 4, 0x40}).Draw(t, "meta")
	e.Exp = rapid.SampledFrom([]uint64{0, 0, 0, 1, 1 << 40, math.MaxUint64}).Draw(t, "exp")
	if bulk {
		e.VLen = rapid.IntRange(30000, 65000).Draw(t, "bulklen")
		return
	}
	e.VLen = rapid.SampledFrom([]int{0, 1, 1, 3, 8, 8, 100, 1000}).Draw(t, "vlen")
}

// genEnts draws the insertion sequence (a multiset: repeats are overwrites).
func genEnts(t *rapid.T, m material) (ents []Ent, flavour string) {
	// weights out of 40: fan 2, verfan 2, bulk 1, mixed 35.  rapid's integer draws are biased
	// towards small values, so the draw is scrambled first (0 still maps to "mixed" for shrinking).
	fl := 39 - int((rapid.Uint64().Draw(t, "flavour")*0x9e3779b97f4a7c15)>>33)%40
	switch {
	case fl == 0 || fl == 1: // child fan-out at one byte position: Node16/48/256 growth
		flavour = "fan"
		base := rapid.SampledFrom(m.keys).Draw(t, "fanbase")
		if len(base) > 300 {
			base = base[:300]
		}
		bs := rapid.SliceOfNDistinct(rapid.Byte(), 5, 200, func(b byte) byte { return b }).Draw(t, "fanbytes")
		v := rapid.SampledFrom(m.vers).Draw(t, "fanver")
		cf := genCF(t)
		for _, b := range bs {
			e := Ent{CF: cf, K: append(append(HB{}, base...), b), V: v}
			genValueShape(t, &e, false)
			ents = append(ents, e)
		}
	case fl == 2 || fl == 3: // many versions of one user key: fan-out inside the version suffix
		flavour = "verfan"
		k := rapid.SampledFrom(m.keys).Draw(t, "vfkey")
		v0 := rapid.SampledFrom(m.vers).Draw(t, "vfver")
		n := rapid.IntRange(5, 300).Draw(t, "vfn")
		step := rapid.SampledFrom([]uint64{1, 1, 3, 256, 1 << 56}).Draw(t, "vfstep")
		cf := genCF(t)
		for i := 0; i < n; i++ {
			e := Ent{CF: cf, K: HB(k), V: v0 + uint64(i)*step}
			genValueShape(t, &e, false)
			ents = append(ents, e)
		}
		ents = rapid.Permutation(ents).Draw(t, "vforder")
	case fl == 4: // > 1 MiB of values: the arena grows by a second chunk
		flavour = "bulk"
	default:
		flavour = "mixed"
	}
	n := rapid.IntRange(1, 40).Draw(t, "nents")
	if flavour == "bulk" {
		n = rapid.IntRange(20, 40).Draw(t, "nbulk")
	}
	for i := 0; i < n; i++ {
		e := Ent{CF: genCF(t), K: HB(rapid.SampledFrom(m.keys).Draw(t, "ekey")), V: rapid.SampledFrom(m.vers).Draw(t, "ever")}
		genValueShape(t, &e, flavour == "bulk")
		ents = append(ents, e)
	}
	for i := range ents {
		ents[i].Tag = byte(i*37 + 1) // repeated inserts of one key carry different content
	}
	return ents, flavour
}

type openSet struct{ order, pad bool }

func openFindings() openSet { return openSet{pbt.Open(kfOrder), pbt.Open(kfPad)} }

func (o openSet) hits(a, b Tgt, ka, kb []byte) bool {
	if !o.order && !o.pad {
		return false
	}
	switch f7ClassK(a, b, ka, kb) {
	case "order":
		return o.order
	case "pad":
		return o.pad
	}
	return false
}

// sanitize drops entries (in insertion order, first one stays) whose internal
// key pairs with an already kept key in the class of an open finding.
func sanitize(ents []Ent, o openSet) (kept []Ent, uniq []Tgt, ukeys [][]byte, excluded int) {
	seen := map[string]bool{}
	for _, e := range ents {
		t := e.tgt()
		k := ikey(t)
		id := string(k)
		if seen[id] {
			kept = append(kept, e)
			continue
		}
		bad := false
		for i, u := range uniq {
			if o.hits(t, u, k, ukeys[i]) {
				bad = true
				break
			}
		}
		if bad {
			excluded++
			continue
		}
		seen[id] = true
		uniq = append(uniq, t)
		ukeys = append(ukeys, k)
		kept = append(kept, e)
	}
	return
}

func mutateKey(k []byte) [][]byte {
	var out [][]byte
	out = append(out, append(append([]byte{}, k...), 0x00)) // successor in user-key order
	out = append(out, append(append([]byte{}, k...), 0xff))
	if len(k) > 1 {
		out = append(out, append([]byte{}, k[:len(k)-1]...)) // proper prefix
	}
	if l := k[len(k)-1]; l != 0xff {
		m := append([]byte{}, k...)
		m[len(m)-1] = l + 1
		out = append(out, m)
	}
	if l := k[len(k)-1]; l != 0 {
		m := append([]byte{}, k...)
		m[len(m)-1] = l - 1
		out = append(out, m)
	}
	return out
}

// genTargets: every stored key, its neighbours (version ±1, extreme versions, user key ± one byte)
// and a few drawn targets; targets in the class of an open finding relative to a stored key are dropped.
func genTargets(t *rapid.T, m material, uniq []Tgt, ukeys [][]byte, o openSet) (tgts []Tgt, excluded int) {
	seen := map[string]bool{}
	add := func(x Tgt) {
		if len(x.K) == 0 {
			return
		}
		k := ikey(x)
		id := string(k)
		if seen[id] {
			return
		}
		seen[id] = true
		for i, u := range uniq {
			if o.hits(x, u, k, ukeys[i]) {
				excluded++
				return
			}
		}
		tgts = append(tgts, x)
	}
	stride := 1
	if len(uniq) > 48 {
		stride = (len(uniq) + 47) / 48
	}
	for i, u := range uniq {
		add(u)
		if i%stride != 0 {
			continue
		}
		if u.V != math.MaxUint64 {
			add(Tgt{u.CF, u.K, u.V + 1})
		}
		if u.V != 0 {
			add(Tgt{u.CF, u.K, u.V - 1})
		}
		add(Tgt{u.CF, u.K, math.MaxUint64}) // "latest version" read: what DB.Get / iterator Seek use
		if len(u.K) > 4096 { // huge keys: keep the case small
			add(Tgt{u.CF, append(append(HB{}, u.K...), 0x00), u.V})
			continue
		}
		add(Tgt{u.CF, u.K, 0})
		for _, k := range mutateKey(u.K) {
			add(Tgt{u.CF, HB(k), u.V})
			add(Tgt{u.CF, HB(k), math.MaxUint64})
		}
		if u.CF < 2 {
			add(Tgt{u.CF + 1, u.K, u.V})
		}
	}
	n := rapid.IntRange(0, 8).Draw(t, "ntgt")
	for i := 0; i < n; i++ {
		var k []byte
		switch rapid.IntRange(0, 3).Draw(t, "tkind") {
		case 0:
			k = rapid.SampledFrom(m.keys).Draw(t, "tkey")
		case 1:
			k = append(append([]byte{}, rapid.SampledFrom(m.keys).Draw(t, "tbase")...), genExt(t, m.vers)...)
		case 2:
			k = genSegKey(t)
		default:
			k = rapid.SliceOfN(rapid.Byte(), 1, 12).Draw(t, "tarb")
		}
		add(Tgt{genCF(t), HB(k), genVersion(t)})
	}
	return
}

func genArena(t *rapid.T) int64 {
	// utils.NewSkiplist / utils.NewART take the arena size in bytes; newArena clamps the
	// chunk size to [1 MiB, 64 MiB] and grows chunk-wise, so both sizes are accepted.
	return rapid.SampledFrom([]int64{64 << 10, 1 << 20}).Draw(t, "arena")
}

// Case is the sequential differential check input.
type Case struct {
	Arena   int64  `json:"arena"`
	Flavour string `json:"flavour,omitempty"`
	Ents    []Ent  `json:"ents"`
	Tgts    []Tgt  `json:"tgts"`
	Excl    int    `json:"excl,omitempty"`
}

func gen(t *rapid.T) Case {
	o := openFindings()
	m := genMaterial(t)
	c := Case{Arena: genArena(t)}
	var ents []Ent
	ents, c.Flavour = genEnts(t, m)
	var uniq []Tgt
	var ukeys [][]byte
	var x1, x2 int
	c.Ents, uniq, ukeys, x1 = sanitize(ents, o)
	c.Tgts, x2 = genTargets(t, m, uniq, ukeys, o)
	c.Excl = x1 + x2
	return c
}

// CCase is the concurrent variant: Parts[i] is inserted by goroutine i.
type CCase struct {
	Arena   int64   `json:"arena"`
	Overlap bool    `json:"overlap"`
	Parts   [][]Ent `json:"parts"`
	Tgts    []Tgt   `json:"tgts"`
	Excl    int     `json:"excl,omitempty"`
	// SerialART: inserts into the ART are serialised by a mutex (set by the generator while
	// C07-ARTrace is open, so the rest of the concurrent check stays usable).
	SerialART bool `json:"serial_art,omitempty"`
	// Rounds > 1 repeats the whole experiment on fresh engines (hand-written replay files use
	// it so a schedule-dependent failure reproduces reliably); generated cases use 1.
	Rounds int `json:"rounds,omitempty"`
}

const writers = 4

func genConc(t *rapid.T) CCase {
	o := openFindings()
	m := genMaterial(t)
	c := CCase{Arena: genArena(t), Overlap: rapid.Bool().Draw(t, "overlap"), SerialART: pbt.Open(kfRace)}
	ents, _ := genEnts(t, m)
	for len(ents) < 24 { // enough work per goroutine to overlap in time
		more, _ := genEnts(t, m)
		ents = append(ents, more...)
	}
	var uniq []Tgt
	var ukeys [][]byte
	var x1, x2 int
	ents, uniq, ukeys, x1 = sanitize(ents, o)
	c.Parts = make([][]Ent, writers)
	if c.Overlap {
		// every entry goes to a drawn non-empty subset of the goroutines
		for _, e := range ents {
			mask := rapid.IntRange(1, 1<<writers-1).Draw(t, "mask")
			for g := 0; g < writers; g++ {
				if mask&(1<<g) != 0 {
					c.Parts[g] = append(c.Parts[g], e)
				}
			}
		}
	} else {
		// all inserts of one internal key stay in one goroutine
		owner := map[string]int{}
		for _, e := range ents {
			id := string(ikey(e.tgt()))
			g, ok := owner[id]
			if !ok {
				g = rapid.IntRange(0, writers-1).Draw(t, "owner")
				owner[id] = g
			}
			c.Parts[g] = append(c.Parts[g], e)
		}
	}
	c.Tgts, x2 = genTargets(t, m, uniq, ukeys, o)
	c.Excl = x1 + x2
	return c
}
