// C07 — both memtable engines behave as the same ordered map.
//
// Differential check of utils.Skiplist and utils.ART (the two lsm.memIndex
// implementations) against each other and against a sorted-slice reference
// whose comparator is written from the property text (column family and user
// key ascending, version descending): Search, full forward/reverse iteration,
// Seek in both directions.  See FINDINGS.md.
package c07

import (
	"bytes"
	"flag"
	"fmt"
	"math"
	"os"
	"os/exec"
	"runtime"
	"sort"
	"strings"
	"sync"
	"testing"
	"time"

	"github.com/feichai0017/NoKV/kv"
	"github.com/feichai0017/NoKV/utils"
	"nokvverif/internal/pbt"
	"pgregory.net/rapid"
)

func TestMain(m *testing.M) { pbt.RunMain(m) }

// classify labels the stored set and applies the non-trivial rule.
func classify(ref refMap, flavour string, arena int64, nAdds int, r *pbt.Rec) {
	if flavour != "" {
		r.Label("flavour:" + flavour)
	}
	r.Label(fmt.Sprintf("arena:%dKiB", arena>>10))
	if nAdds > len(ref) {
		r.Label("overwrite")
	}
	multi, prefix := false, false
	var has00, hasFF, vmax, v0, long, huge, cfs bool
	total := 0
	for i, s := range ref {
		total += len(s.K) + 12
		for _, e := range s.vals {
			total += e.VLen
		}
		if i > 0 && sameUser(ref[i-1].Tgt, s.Tgt) {
			multi = true
		}
		if bytes.IndexByte(s.K, 0x00) >= 0 {
			has00 = true
		}
		if bytes.IndexByte(s.K, 0xff) >= 0 {
			hasFF = true
		}
		vmax = vmax || s.V == math.MaxUint64
		v0 = v0 || s.V == 0
		long = long || len(s.K) > 16
		huge = huge || len(s.K) >= 30000
		cfs = cfs || s.CF != 0
	}
	// prefix-related pair: in sorted order a proper prefix is followed (not necessarily
	// immediately) by its extensions; walk forward while the prefix relation can still hold.
	for i := 0; i < len(ref) && !prefix; i++ {
		for j := i + 1; j < len(ref); j++ {
			if ref[j].CF != ref[i].CF || !bytes.HasPrefix(ref[j].K, ref[i].K) {
				break
			}
			if len(ref[j].K) > len(ref[i].K) {
				prefix = true
				break
			}
		}
	}
	flag := func(b bool, l string) {
		if b {
			r.Label(l)
		}
	}
	flag(multi, "multi-version-user-key")
	flag(prefix, "prefix-related-user-keys")
	flag(has00, "key-has-0x00")
	flag(hasFF, "key-has-0xff")
	flag(vmax, "version-MaxUint64")
	flag(v0, "version-0")
	flag(long, "key>16B")
	flag(huge, "key>=30000B")
	flag(cfs, "non-default-cf")
	_ = total
	flag(len(ref) > 48, "stored>48")
	if multi && prefix {
		r.NT()
	}
}

func run(c Case, r *pbt.Rec) error {
	r.Excluded(c.Excl)
	engs := newEngines(c.Arena)
	defer func() {
		for _, en := range engs {
			en.idx.DecrRef()
		}
	}()
	for _, e := range c.Ents {
		for _, en := range engs {
			en.idx.Add(entryOf(e))
		}
	}
	ref := buildRef(c.Ents)
	classify(ref, c.Flavour, c.Arena, len(c.Ents), r)
	alloc := 0
	for _, e := range c.Ents {
		alloc += e.VLen + 12
	}
	if alloc > 1<<20 {
		r.Label("arena-second-chunk") // values alone exceed the first 1 MiB chunk
	}
	return checkAll(engs, ref, c.Tgts, r)
}

// buildConcRef: the final map after concurrent inserts.  An internal key written by several
// goroutines ends with the last value of one of them (Add is an atomic upsert per key).
func buildConcRef(parts [][]Ent) refMap {
	type acc struct {
		t    Tgt
		last map[int]Ent
	}
	m := map[string]*acc{}
	var order []string
	for g, p := range parts {
		for _, e := range p {
			id := string(ikey(e.tgt()))
			a := m[id]
			if a == nil {
				a = &acc{t: e.tgt(), last: map[int]Ent{}}
				m[id] = a
				order = append(order, id)
			}
			a.last[g] = e
		}
	}
	out := make(refMap, 0, len(order))
	for _, id := range order {
		a := m[id]
		s := stored{Tgt: a.t, key: ikey(a.t)}
		for g := 0; g < len(parts); g++ {
			if e, ok := a.last[g]; ok {
				s.vals = append(s.vals, e)
			}
		}
		out = append(out, s)
	}
	sort.SliceStable(out, func(i, j int) bool { return cmpRef(out[i].Tgt, out[j].Tgt) < 0 })
	return out
}

func runConc(c CCase, r *pbt.Rec) error {
	r.Excluded(c.Excl)
	if c.SerialART {
		r.Label("art-inserts-serialised(" + kfRace + " open)")
		r.Excluded(1)
	}
	for round := 1; round < c.Rounds; round++ {
		if err := runConcOnce(c, &pbt.Rec{}); err != nil {
			return err
		}
	}
	return runConcOnce(c, r)
}

func runConcOnce(c CCase, r *pbt.Rec) error {
	engs := newEngines(c.Arena)
	defer func() {
		for _, en := range engs {
			en.idx.DecrRef()
		}
	}()
	nAdds := 0
	for _, p := range c.Parts {
		nAdds += len(p)
	}
	// A concurrent scanner per engine: whatever it sees must be strictly increasing in
	// internal-key order (a snapshot-free iterator may miss fresh keys, it may not reorder).
	scanErr := make([]error, len(engs))
	for ei, en := range engs {
		var mu sync.Mutex
		serial := c.SerialART && en.name == "art"
		start := make(chan struct{})
		var wg sync.WaitGroup
		for g := range c.Parts {
			wg.Add(1)
			go func(p []Ent) {
				defer wg.Done()
				<-start
				for _, e := range p {
					ent := entryOf(e)
					if serial {
						mu.Lock()
						en.idx.Add(ent)
						mu.Unlock()
					} else {
						en.idx.Add(ent)
					}
				}
			}(c.Parts[g])
		}
		stop := make(chan struct{})
		scanDone := make(chan struct{})
		go func() {
			defer close(scanDone)
			<-start
			for {
				select {
				case <-stop:
					return
				default:
				}
				if err := scanMonotone(en); err != nil {
					scanErr[ei] = err
					return
				}
				runtime.Gosched()
			}
		}()
		close(start)
		wg.Wait()
		close(stop)
		<-scanDone
	}
	for _, err := range scanErr {
		if err != nil {
			return err
		}
	}
	ref := buildConcRef(c.Parts)
	fl := "disjoint"
	if c.Overlap {
		fl = "overlap"
	}
	classify(ref, fl, c.Arena, nAdds, r)
	multiWriter := 0
	for _, s := range ref {
		if len(s.vals) > 1 {
			multiWriter++
		}
	}
	r.LabelN("keys-with-several-writers", multiWriter)
	return checkAll(engs, ref, c.Tgts, r)
}

func splitT(ik []byte) Tgt {
	cf, uk, ts := kv.SplitInternalKey(ik)
	return Tgt{uint8(cf), HB(uk), ts}
}

func scanMonotone(en engine) error {
	for _, asc := range []bool{true, false} {
		it := en.idx.NewIterator(&utils.Options{IsAsc: asc})
		it.Rewind()
		var prev []byte
		for n := 0; it.Valid(); n++ {
			e, ok := itemAt(it)
			if !ok {
				break
			}
			cur := append([]byte{}, e.Key...)
			if prev != nil {
				a, b := splitT(prev), splitT(cur)
				c := cmpRef(a, b)
				if (asc && c >= 0) || (!asc && c <= 0) {
					it.Close()
					return pbt.Failf("concurrent-scan-order:"+en.name, "%s iterator (asc=%v) running beside inserts yielded %v after %v", en.name, asc, b, a)
				}
			}
			prev = cur
			it.Next()
		}
		it.Close()
	}
	return nil
}

// ---- thorough tier: the concurrent spec once more under the race detector, and native fuzzing

type ExtCase struct {
	Kind  string `json:"kind"` // "race" | "fuzz"
	Cases int    `json:"cases,omitempty"`
	Secs  int    `json:"secs,omitempty"`
	Seed  int64  `json:"seed"`
}

func extStatic() []ExtCase {
	if pbt.Tier() != "thorough" || os.Getenv("VERIF_C07_CHILD") != "" {
		return nil
	}
	race, secs := 1500, 180
	fmt.Sscan(os.Getenv("VERIF_C07_RACE_CASES"), &race) // overrides for trying the tier out
	fmt.Sscan(os.Getenv("VERIF_C07_FUZZ_SECS"), &secs)
	return []ExtCase{
		{Kind: "race", Cases: race, Seed: pbt.Seed()},
		{Kind: "fuzz", Secs: secs, Seed: pbt.Seed()},
	}
}

func goTest(env []string, timeout time.Duration, args ...string) (string, error) {
	full := []string{"test"}
	if mf := os.Getenv("VERIF_MODFLAG"); mf != "" {
		full = append(full, strings.Fields(mf)...)
	}
	full = append(full, args...)
	cmd := exec.Command("go", full...)
	cmd.Dir = "." // package directory (go test runs the binary there)
	cmd.Env = append(os.Environ(), env...)
	var buf bytes.Buffer
	cmd.Stdout, cmd.Stderr = &buf, &buf
	if err := cmd.Start(); err != nil {
		return "", err
	}
	done := make(chan error, 1)
	go func() { done <- cmd.Wait() }()
	select {
	case err := <-done:
		return buf.String(), err
	case <-time.After(timeout):
		_ = cmd.Process.Kill()
		<-done
		return buf.String(), fmt.Errorf("timeout after %v", timeout)
	}
}

func tail(s string, n int) string {
	l := strings.Split(strings.TrimRight(s, "\n"), "\n")
	if len(l) > n {
		l = l[len(l)-n:]
	}
	return strings.Join(l, "\n")
}

func runExt(c ExtCase, r *pbt.Rec) error {
	switch c.Kind {
	case "noop":
		return nil
	case "race":
		out, err := goTest([]string{
			"VERIF_C07_CHILD=race", fmt.Sprintf("VERIF_C07_CASES=%d", c.Cases), fmt.Sprintf("VERIF_SEED=%d", c.Seed),
		}, 25*time.Minute, "-race", "-v", "-tags", "verif", "-count=1", "-timeout", "24m", "-run", "^TestRaceChild$", ".")
		r.Label("race-detector-run")
		if strings.Contains(out, "C07-RACE-CHILD-OK") && err == nil {
			r.NTKey("race")
			return nil
		}
		if strings.Contains(out, "WARNING: DATA RACE") {
			rep := out[strings.Index(out, "WARNING: DATA RACE"):]
			if l := strings.Split(rep, "\n"); len(l) > 28 {
				rep = strings.Join(l[:28], "\n")
			}
			return pbt.Failf("data-race", "go test -race on the concurrent spec reported a data race:\n%s", rep)
		}
		if strings.Contains(out, "C07-RACE-CHILD-FAIL") {
			return pbt.Failf("race-child", "concurrent spec failed under -race:\n%s", tail(out, 60))
		}
		return pbt.Failf("harness", "race child did not complete: %v\n%s", err, tail(out, 40))
	case "fuzz":
		dir, cleanup := pbt.TempDir("fuzzcache")
		defer cleanup()
		out, err := goTest([]string{"VERIF_C07_CHILD=fuzz"}, time.Duration(c.Secs+600)*time.Second,
			"-tags", "verif", "-count=1", "-run", "^$", "-fuzz", "^FuzzC07$", "-fuzztime", fmt.Sprintf("%ds", c.Secs),
			".", "-test.fuzzcachedir", dir)
		r.Label("native-fuzz-run")
		// a crasher is written to testdata/fuzz/FuzzC07/<id>; move its content into the message and remove it
		crash, _ := os.ReadDir("testdata/fuzz/FuzzC07")
		if len(crash) > 0 {
			var files []string
			for _, f := range crash {
				b, _ := os.ReadFile("testdata/fuzz/FuzzC07/" + f.Name())
				files = append(files, f.Name()+":\n"+string(b))
			}
			_ = os.RemoveAll("testdata")
			return pbt.Failf("fuzz", "native fuzzing found a failing input:\n%s\n%s", tail(out, 40), strings.Join(files, "\n"))
		}
		if err != nil {
			return pbt.Failf("harness", "fuzz child: %v\n%s", err, tail(out, 40))
		}
		r.NTKey("fuzz")
		return nil
	}
	return pbt.Failf("harness", "unknown ext kind %q", c.Kind)
}

// TestRaceChild is run by the thorough tier as `go test -race`; it is a no-op otherwise.
func TestRaceChild(t *testing.T) {
	if os.Getenv("VERIF_C07_CHILD") != "race" {
		t.Skip("child of the thorough tier")
	}
	n := 1000
	fmt.Sscan(os.Getenv("VERIF_C07_CASES"), &n)
	_ = flag.Set("rapid.checks", fmt.Sprint(n))
	_ = flag.Set("rapid.seed", fmt.Sprint(pbt.Seed()+1000))
	_ = flag.Set("rapid.nofailfile", "true")
	defer func() {
		if t.Failed() {
			fmt.Println("C07-RACE-CHILD-FAIL")
		} else {
			fmt.Println("C07-RACE-CHILD-OK")
		}
	}()
	rapid.Check(t, func(rt *rapid.T) {
		c := genConc(rt)
		if err := runConc(c, &pbt.Rec{}); err != nil {
			rt.Fatalf("%v", err)
		}
	})
}

// FuzzC07 feeds rapid's generator from the native fuzzer's byte stream (thorough tier only).
func FuzzC07(f *testing.F) {
	if os.Getenv("VERIF_C07_CHILD") != "fuzz" {
		f.Skip("child of the thorough tier")
	}
	f.Fuzz(rapid.MakeFuzz(func(rt *rapid.T) {
		c := gen(rt)
		if err := run(c, &pbt.Rec{}); err != nil {
			rt.Fatalf("%v", err)
		}
	}))
}

func TestCheck(t *testing.T) {
	s := &pbt.Suite{ID: "C07", Level: "exploration",
		Rule: "a case is non-trivial when the stored set holds >= 2 versions of one user key AND >= 1 pair of user keys in the same column family where one is a proper byte-prefix of the other (the situation in which radix order and internal-key order can diverge); distinct by case content. Every case checks, for utils.Skiplist and utils.ART built from the same insertion sequence: Search for every stored key and its neighbours (version +-1, versions 0/MaxUint64, user key +-one byte, next CF) and drawn targets against a sorted-slice reference (CF asc, user key asc, version desc; Search = newest version <= the asked one of the same user key, as memTable.Get/lsm.Get consume it); full forward and reverse iteration equal to the reference sequence; Seek to every target in both directions (first >= / last <=) followed by 2 Next steps. The concurrent spec inserts with 4 goroutines (disjoint or overlapping slices) beside a scanner and compares the final state the same way.",
		Assumptions: []string{
			"user keys are non-empty and at most 65000 bytes (txn.go maxKeySize); column family in {0,1,2}; values at most 64 KiB so one allocation fits the 1 MiB minimum arena chunk",
			"reverse Seek means 'last element <= target' (utils/skiplist.go comment on Seek; both engines implement it that way)",
			"ValueStruct.Version is not stored by either engine (kv/value.go: not serialised) and is not compared",
			"a stored entry with Meta=0, ExpiresAt=0 and empty value is only compared through the engines agreeing with each other (lsm.Get cannot tell it from a miss)",
			"under concurrent overlapping writers the final value of a key may be the last value written by any of its writers",
			"while C07-F7 / C07-F7pad are open, keys whose encoded form sorts differently (or collides when zero-padded) against an already chosen key are removed by the generator (count in excluded_by_known_findings)",
		},
	}
	pbt.Add(s, &pbt.Spec[Case]{Name: "seq", Gen: gen, Run: run, Quick: 10000, Thorough: 300000, Shards: 8})
	pbt.Add(s, &pbt.Spec[CCase]{Name: "conc", Gen: genConc, Run: runConc, Quick: 2500, Thorough: 60000, Shards: 4, Nondet: true})
	pbt.Add(s, &pbt.Spec[ExtCase]{Name: "ext", Static: extStatic, Run: runExt,
		Gen: func(*rapid.T) ExtCase { return ExtCase{Kind: "noop"} }}) // Gen only absorbs a VERIF_CASES override
	s.Main(t)
}
