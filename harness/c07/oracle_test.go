package c07

import (
	"bytes"
	"fmt"

	"github.com/feichai0017/NoKV/kv"
	"github.com/feichai0017/NoKV/utils"
	"nokvverif/internal/pbt"
)

// index is lsm.memIndex (lsm/memtable.go) restricted to what the check needs.
type index interface {
	Add(*kv.Entry)
	Search([]byte) kv.ValueStruct
	NewIterator(*utils.Options) utils.Iterator
	DecrRef()
}

type engine struct {
	name string
	idx  index
}

func newEngines(arena int64) []engine {
	return []engine{
		{"skiplist", utils.NewSkiplist(arena)},
		{"art", utils.NewART(arena)},
	}
}

func entryOf(e Ent) *kv.Entry {
	return &kv.Entry{
		Key: ikey(e.tgt()), Value: value(e), Meta: e.Meta, ExpiresAt: e.Exp,
		Version: e.V, CF: kv.ColumnFamily(e.CF),
	}
}

// isMemHit is the predicate lsm.Get applies to what memTable.Get builds from Search.
func isMemHit(vs kv.ValueStruct) bool { return vs.Value != nil || vs.Meta != 0 || vs.ExpiresAt != 0 }

func valueEquals(val []byte, e Ent) bool {
	if len(val) != e.VLen {
		return false
	}
	for i, b := range val {
		if b != e.Tag+byte(i*7)+byte(i>>8) {
			return false
		}
	}
	return true
}

func valueMatches(meta byte, exp uint64, val []byte, s stored) bool {
	for _, e := range s.vals {
		if meta == e.Meta && exp == e.Exp && valueEquals(val, e) {
			return true
		}
	}
	return false
}

func descVal(meta byte, exp uint64, val []byte) string {
	if len(val) > 12 {
		return fmt.Sprintf("{meta=%d exp=%d val[%d]=%x…}", meta, exp, len(val), val[:12])
	}
	return fmt.Sprintf("{meta=%d exp=%d val[%d]=%x}", meta, exp, len(val), val)
}

func descStored(s stored) string {
	out := s.Tgt.String() + "="
	for i, e := range s.vals {
		if i > 0 {
			out += "|"
		}
		out += descVal(e.Meta, e.Exp, value(e))
	}
	return out
}

// allZero: a stored value lsm.Get cannot tell from a miss except through Value!=nil.
func allZero(s stored) bool {
	for _, e := range s.vals {
		if e.Meta != 0 || e.Exp != 0 || e.VLen != 0 {
			return false
		}
	}
	return true
}

// checkSearch compares Search of every engine with the reference for target t.
func checkSearch(engs []engine, ref refMap, t Tgt, key []byte, r *pbt.Rec) error {
	want, hit := ref.search(t)
	var hits []bool
	for _, en := range engs {
		vs := en.idx.Search(key)
		hits = append(hits, isMemHit(vs))
		switch {
		case !hit:
			if isMemHit(vs) {
				return pbt.Failf("search:"+en.name, "%s.Search%v returned %s but the reference map has no version <= %d of that user key",
					en.name, t, descVal(vs.Meta, vs.ExpiresAt, vs.Value), t.V)
			}
		case allZero(want):
			if vs.Meta != 0 || vs.ExpiresAt != 0 || len(vs.Value) != 0 {
				return pbt.Failf("search:"+en.name, "%s.Search%v returned %s, reference says %s",
					en.name, t, descVal(vs.Meta, vs.ExpiresAt, vs.Value), descStored(want))
			}
		default:
			if !isMemHit(vs) {
				return pbt.Failf("search:"+en.name, "%s.Search%v found nothing, reference says %s",
					en.name, t, descStored(want))
			}
			if !valueMatches(vs.Meta, vs.ExpiresAt, vs.Value, want) {
				return pbt.Failf("search:"+en.name, "%s.Search%v returned %s, reference says %s",
					en.name, t, descVal(vs.Meta, vs.ExpiresAt, vs.Value), descStored(want))
			}
		}
	}
	for i := 1; i < len(hits); i++ {
		if hits[i] != hits[0] {
			return pbt.Failf("search:diff", "Search%v: %s hit=%v but %s hit=%v", t, engs[0].name, hits[0], engs[i].name, hits[i])
		}
	}
	if hit {
		if want.V == t.V {
			r.Label("search:exact-hit")
		} else {
			r.Label("search:older-version-hit")
		}
	} else {
		r.Label("search:miss")
	}
	return nil
}

func itemAt(it utils.Iterator) (*kv.Entry, bool) {
	if !it.Valid() {
		return nil, false
	}
	item := it.Item()
	if item == nil {
		return nil, false
	}
	e := item.Entry()
	return e, e != nil
}

func descPos(ref refMap, i int) string {
	if i < 0 || i >= len(ref) {
		return "<end>"
	}
	return fmt.Sprintf("#%d %s", i, descStored(ref[i]))
}

func descGot(e *kv.Entry, ok bool) string {
	if !ok {
		return "<invalid>"
	}
	cf, uk, ts := kv.SplitInternalKey(e.Key)
	return fmt.Sprintf("(cf=%d key=%s ver=%d)=%s", cf, keyStr(uk), ts, descVal(e.Meta, e.ExpiresAt, e.Value))
}

// expectAt checks that the iterator is positioned on ref[i] (or invalid if i is out of range).
func expectAt(it utils.Iterator, ref refMap, i int) (string, bool) {
	e, ok := itemAt(it)
	if i < 0 || i >= len(ref) {
		if ok {
			return fmt.Sprintf("want %s, got %s", descPos(ref, i), descGot(e, ok)), false
		}
		return "", true
	}
	if !ok {
		return fmt.Sprintf("want %s, got %s", descPos(ref, i), descGot(e, ok)), false
	}
	if !bytes.Equal(e.Key, ref[i].key) || !valueMatches(e.Meta, e.ExpiresAt, e.Value, ref[i]) {
		return fmt.Sprintf("want %s, got %s", descPos(ref, i), descGot(e, ok)), false
	}
	return "", true
}

// checkScan: a full Rewind/Next pass yields exactly the reference sequence (asc) or its reverse (desc).
func checkScan(en engine, ref refMap, asc bool) error {
	dir, step, start := "fwd", 1, 0
	if !asc {
		dir, step, start = "rev", -1, len(ref)-1
	}
	it := en.idx.NewIterator(&utils.Options{IsAsc: asc})
	defer it.Close()
	it.Rewind()
	i := start
	for n := 0; n <= len(ref); n++ {
		if msg, ok := expectAt(it, ref, i); !ok {
			return pbt.Failf("iter-"+dir+":"+en.name, "%s %s iteration, step %d: %s", en.name, dir, n, msg)
		}
		if i < 0 || i >= len(ref) {
			return nil
		}
		it.Next()
		i += step
	}
	return nil
}

const seekFollow = 2

// checkSeeks: Seek(t) lands on the first element >= t (asc) / the last element <= t (desc),
// and the following Next calls continue from there in order.
func checkSeeks(en engine, ref refMap, tgts []Tgt, keys [][]byte, asc bool, r *pbt.Rec) error {
	dir, step := "fwd", 1
	if !asc {
		dir, step = "rev", -1
	}
	it := en.idx.NewIterator(&utils.Options{IsAsc: asc})
	defer it.Close()
	for ti, t := range tgts {
		var i int
		if asc {
			i = ref.lowerBound(t)
		} else {
			i = ref.lastLE(t)
		}
		it.Seek(keys[ti])
		if msg, ok := expectAt(it, ref, i); !ok {
			return pbt.Failf("seek-"+dir+":"+en.name, "%s %s Seek%v: %s", en.name, dir, t, msg)
		}
		if en.name == "art" {
			switch {
			case i < 0 || i >= len(ref):
				r.Label("seek-" + dir + ":past-end")
			case cmpRef(ref[i].Tgt, t) == 0:
				r.Label("seek-" + dir + ":exact")
			default:
				r.Label("seek-" + dir + ":between")
			}
		}
		for k := 1; k <= seekFollow && i >= 0 && i < len(ref); k++ {
			it.Next()
			i += step
			if msg, ok := expectAt(it, ref, i); !ok {
				return pbt.Failf("seek-"+dir+"-next:"+en.name, "%s %s Seek%v then %d×Next: %s", en.name, dir, t, k, msg)
			}
		}
	}
	return nil
}

// checkAll runs the three oracles of the property on every engine.
func checkAll(engs []engine, ref refMap, tgts []Tgt, r *pbt.Rec) error {
	keys := make([][]byte, len(tgts))
	for i, t := range tgts {
		keys[i] = ikey(t)
	}
	for i, t := range tgts {
		if err := checkSearch(engs, ref, t, keys[i], r); err != nil {
			return err
		}
	}
	for _, en := range engs {
		for _, asc := range []bool{true, false} {
			if err := checkScan(en, ref, asc); err != nil {
				return err
			}
		}
	}
	for _, en := range engs {
		for _, asc := range []bool{true, false} {
			if err := checkSeeks(en, ref, tgts, keys, asc, r); err != nil {
				return err
			}
		}
	}
	return nil
}
