package c07

import (
	"bytes"
	"encoding/hex"
	"encoding/json"
	"fmt"
	"sort"
	"strconv"
	"strings"

	"github.com/feichai0017/NoKV/kv"
)

// HB is a byte string rendered as hex in replay files (user keys contain 0x00/0xFF).
// Long keys (the generator builds them by repeating a short segment) are written
// as "~<period hex>*<n>~<rest hex>": n bytes of the repeated period, then the rest.
type HB []byte

func (h HB) MarshalJSON() ([]byte, error) {
	if len(h) > 64 {
		for p := 1; p <= 3; p++ {
			m := p
			for m < len(h) && h[m] == h[m-p] {
				m++
			}
			if m >= len(h)-8 {
				return json.Marshal(fmt.Sprintf("~%s*%d~%s", hex.EncodeToString(h[:p]), m, hex.EncodeToString(h[m:])))
			}
		}
	}
	return json.Marshal(hex.EncodeToString(h))
}

func (h *HB) UnmarshalJSON(b []byte) error {
	var s string
	if err := json.Unmarshal(b, &s); err != nil {
		return err
	}
	var out []byte
	if strings.HasPrefix(s, "~") {
		parts := strings.SplitN(s[1:], "~", 2)
		if len(parts) != 2 {
			return fmt.Errorf("bad key %q", s)
		}
		pn := strings.SplitN(parts[0], "*", 2)
		if len(pn) != 2 {
			return fmt.Errorf("bad key %q", s)
		}
		per, err := hex.DecodeString(pn[0])
		if err != nil || len(per) == 0 {
			return fmt.Errorf("bad key %q", s)
		}
		n, err := strconv.Atoi(pn[1])
		if err != nil || n < 0 || n > 1<<20 {
			return fmt.Errorf("bad key %q", s)
		}
		for i := 0; i < n; i++ {
			out = append(out, per[i%len(per)])
		}
		s = parts[1]
	}
	d, err := hex.DecodeString(s)
	if err != nil {
		return err
	}
	*h = append(out, d...)
	return nil
}

// Ent is one Add: internal key (CF, user key K, version V) plus the stored value
// (Meta, ExpiresAt, VLen bytes of content derived from Tag).
type Ent struct {
	CF   uint8  `json:"cf"`
	K    HB     `json:"k"`
	V    uint64 `json:"v"`
	Meta uint8  `json:"m,omitempty"`
	Exp  uint64 `json:"x,omitempty"`
	VLen int    `json:"n"`
	Tag  uint8  `json:"t"`
}

// Tgt is a lookup / seek target.
type Tgt struct {
	CF uint8  `json:"cf"`
	K  HB     `json:"k"`
	V  uint64 `json:"v"`
}

func (e Ent) tgt() Tgt { return Tgt{e.CF, e.K, e.V} }

func (t Tgt) String() string { return fmt.Sprintf("(cf=%d key=%s ver=%d)", t.CF, keyStr(t.K), t.V) }

func keyStr(k []byte) string {
	if len(k) > 48 {
		return fmt.Sprintf("%x…%x[%dB]", k[:16], k[len(k)-16:], len(k))
	}
	return hex.EncodeToString(k)
}

// ikey encodes with the repository's encoder: this defines the input domain
// (what callers hand to the memtable), it is not part of the oracle.
func ikey(t Tgt) []byte { return kv.InternalKey(kv.ColumnFamily(t.CF), t.K, t.V) }

func value(e Ent) []byte {
	if e.VLen == 0 {
		return nil
	}
	v := make([]byte, e.VLen)
	for i := range v {
		v[i] = e.Tag + byte(i*7) + byte(i>>8)
	}
	return v
}

// cmpRef is the engine-independent order of the property text:
// column family ascending, user key ascending (bytewise), version descending.
func cmpRef(a, b Tgt) int {
	if a.CF != b.CF {
		if a.CF < b.CF {
			return -1
		}
		return 1
	}
	if c := bytes.Compare(a.K, b.K); c != 0 {
		return c
	}
	switch {
	case a.V > b.V:
		return -1
	case a.V < b.V:
		return 1
	}
	return 0
}

func sameUser(a, b Tgt) bool { return a.CF == b.CF && bytes.Equal(a.K, b.K) }

// stored is one element of the reference ordered map.
type stored struct {
	Tgt
	key  []byte // encoded internal key
	vals []Ent  // acceptable stored values (exactly one for sequential inserts)
}

// refMap is the sorted-slice reference.
type refMap []stored

// buildRef: sequential semantics, the last Add of an internal key wins.
func buildRef(ents []Ent) refMap {
	last := map[string]int{}
	keys := make([][]byte, len(ents))
	for i, e := range ents {
		keys[i] = ikey(e.tgt())
		last[string(keys[i])] = i
	}
	idx := make([]int, 0, len(last))
	for _, i := range last {
		idx = append(idx, i)
	}
	sort.Ints(idx) // determinism before the real sort
	out := make(refMap, 0, len(idx))
	for _, i := range idx {
		out = append(out, stored{Tgt: ents[i].tgt(), key: keys[i], vals: []Ent{ents[i]}})
	}
	sort.SliceStable(out, func(i, j int) bool { return cmpRef(out[i].Tgt, out[j].Tgt) < 0 })
	return out
}

// lowerBound: index of the first element >= t (len if none).
func (m refMap) lowerBound(t Tgt) int {
	return sort.Search(len(m), func(i int) bool { return cmpRef(m[i].Tgt, t) >= 0 })
}

// upperBoundLE: index of the last element <= t (-1 if none).
func (m refMap) lastLE(t Tgt) int {
	return sort.Search(len(m), func(i int) bool { return cmpRef(m[i].Tgt, t) > 0 }) - 1
}

// search models memIndex.Search as lsm.Get/memTable.Get use it: the entry with
// the same column family and user key and the largest version <= t.V; nothing
// when only newer versions (or no versions) of that user key exist.
func (m refMap) search(t Tgt) (stored, bool) {
	i := m.lowerBound(t)
	if i < len(m) && sameUser(m[i].Tgt, t) {
		return m[i], true
	}
	return stored{}, false
}

// ---- description of the open finding C07-F7 used for exclusion by construction

// paddedRaw compares two byte strings the way a byte-wise radix tree that reads
// 0x00 past the end of a key sees them.
func paddedRaw(a, b []byte) int {
	n := max(len(a), len(b))
	for i := 0; i < n; i++ {
		var x, y byte
		if i < len(a) {
			x = a[i]
		}
		if i < len(b) {
			y = b[i]
		}
		if x != y {
			if x < y {
				return -1
			}
			return 1
		}
	}
	return 0
}

func sign(x int) int {
	switch {
	case x < 0:
		return -1
	case x > 0:
		return 1
	}
	return 0
}

// prefixRelated: same CF and one user key is a proper prefix of the other.
func prefixRelated(a, b Tgt) bool {
	if a.CF != b.CF || len(a.K) == len(b.K) {
		return false
	}
	s, l := a.K, b.K
	if len(s) > len(l) {
		s, l = l, s
	}
	return bytes.Equal(s, l[:len(s)])
}

// f7Class classifies a pair of internal keys with respect to the open finding:
// "" (raw radix order agrees with internal-key order), "order" (raw byte order
// of the encoded keys is the opposite of internal-key order) or "pad" (one
// encoded key is a proper byte-prefix of the other and the next byte of the
// longer one is 0x00, which is also what the radix tree reads past the end of
// the shorter one: both keys want the same child slot).
// Only pairs with prefix-related user keys can be in a non-empty class.
func f7Class(a, b Tgt) string { return f7ClassK(a, b, nil, nil) }

// f7ClassK is f7Class with optionally pre-encoded keys.
func f7ClassK(a, b Tgt, ka, kb []byte) string {
	if !prefixRelated(a, b) {
		return ""
	}
	if ka == nil {
		ka = ikey(a)
	}
	if kb == nil {
		kb = ikey(b)
	}
	s, l := ka, kb
	if len(s) > len(l) {
		s, l = l, s
	}
	if bytes.Equal(s, l[:len(s)]) && l[len(s)] == 0 {
		return "pad"
	}
	if sign(paddedRaw(ka, kb)) != sign(cmpRef(a, b)) {
		return "order"
	}
	return ""
}
