//go:build verifinpkg

// C31 — the RESP parser is total and allocation-bounded.
//
// Injected into package main of cmd/nokv-redis by ../run.sh (go -overlay).
// Unexported identifiers used: parseRESP, newServer, newEmbeddedBackend.
//
// Oracles (from the property statement):
//   - parseRESP never panics, for any byte string;
//   - the memory allocated by one parseRESP call is proportional to the bytes
//     the client actually sent: TotalAlloc delta <= 64*len(input) + 64 KiB;
//   - a well-formed RESP array / inline command parses to exactly its argv, and
//     consumes exactly its own bytes (a stream of frames parses frame by frame);
//   - the same holds at connection level: arbitrary bytes never kill the
//     server, and ECHO frames come back byte-exact.
package main

import (
	"bufio"
	"bytes"
	"fmt"
	"io"
	"net"
	"path/filepath"
	"runtime"
	"runtime/debug"
	"strconv"
	"strings"
	"sync"
	"testing"
	"time"

	NoKV "github.com/feichai0017/NoKV"
	pbt "github.com/feichai0017/NoKV/cmd/nokv-redis/zzverifpbt"
	"pgregory.net/rapid"
)

func TestMain(m *testing.M) {
	debug.SetMemoryLimit(6 << 30) // soft limit: keeps the GC eager if a huge make() succeeds
	pbt.RunMain(m)
}

// ---------------------------------------------------------------- case ----

// vfFrame is one unit of client input.
type vfFrame struct {
	// Kind: "array" (RESP multibulk), "inline", "raw" (arbitrary bytes).
	Kind string
	Args [][]byte `json:",omitempty"` // array / inline arguments
	Sep  []string `json:",omitempty"` // inline: Sep[0] leading blanks, Sep[i+1] after Args[i] (blanks; at least one between args)
	Raw  []byte   `json:",omitempty"`
	// Mutations of an array frame (all optional).  When any is set the frame is
	// no longer "well-formed" and only totality + allocation are judged.
	ArrayLen string         `json:",omitempty"` // replaces the decimal after '*'
	BulkLen  map[int]string `json:",omitempty"` // replaces the decimal after '$' of argument i
	Cut      int            `json:",omitempty"` // >0: keep only the first Cut bytes of the encoding
}

type vfCase31 struct {
	Frames []vfFrame
	// Literal: present the declared lengths as written, without the probe ladder
	// (only used by committed regression inputs whose literal value is harmless,
	// e.g. lengths make() rejects outright).
	Literal bool `json:",omitempty"`
}

func (f vfFrame) mutated() bool {
	return f.ArrayLen != "" || len(f.BulkLen) > 0 || f.Cut > 0
}

// encode renders the frame.  lenOverride (if >= 0) substitutes every oversized
// declared length (used by the probe ladder, see vfRunParse).
func (f vfFrame) encode(clamp int64) []byte {
	var b bytes.Buffer
	switch f.Kind {
	case "raw":
		b.Write(f.Raw)
	case "inline":
		for i, a := range f.Args {
			if i < len(f.Sep) {
				b.WriteString(f.Sep[i])
			} else if i > 0 {
				b.WriteByte(' ')
			}
			b.Write(a)
		}
		if len(f.Sep) > len(f.Args) {
			b.WriteString(f.Sep[len(f.Args)])
		}
		b.WriteString("\r\n")
	case "array":
		al := strconv.Itoa(len(f.Args))
		if f.ArrayLen != "" {
			al = vfClamp(f.ArrayLen, clamp)
		}
		b.WriteString("*" + al + "\r\n")
		for i, a := range f.Args {
			bl := strconv.Itoa(len(a))
			if v, ok := f.BulkLen[i]; ok {
				bl = vfClamp(v, clamp)
			}
			b.WriteString("$" + bl + "\r\n")
			b.Write(a)
			b.WriteString("\r\n")
		}
	}
	out := b.Bytes()
	if f.Cut > 0 && f.Cut < len(out) {
		out = out[:f.Cut]
	}
	return out
}

// vfClamp lowers a declared decimal length to at most clamp (clamp < 0: unchanged).
func vfClamp(s string, clamp int64) string {
	if clamp < 0 {
		return s
	}
	n, err := strconv.ParseInt(s, 10, 64)
	if err != nil || n <= clamp {
		if err != nil && len(s) > 0 && s[0] != '-' && vfAllDigits(s) {
			return strconv.FormatInt(clamp, 10) // beyond int64: still "huge"
		}
		return s
	}
	return strconv.FormatInt(clamp, 10)
}

func vfAllDigits(s string) bool {
	for i := 0; i < len(s); i++ {
		if s[i] < '0' || s[i] > '9' {
			return false
		}
	}
	return len(s) > 0
}

// declaredMax is the largest declared length in the case (0 when none is mutated).
func (c vfCase31) declaredMax() int64 {
	var m int64
	see := func(s string) {
		if s == "" {
			return
		}
		n, err := strconv.ParseInt(s, 10, 64)
		if err != nil {
			if vfAllDigits(s) {
				n = 1<<63 - 1
			} else {
				return
			}
		}
		if n > m {
			m = n
		}
	}
	for _, f := range c.Frames {
		see(f.ArrayLen)
		for _, v := range f.BulkLen {
			see(v)
		}
	}
	return m
}

// ------------------------------------------------------------- oracles ----

const (
	vfAllocSlope = 64
	vfAllocConst = 64 << 10
)

type vfParseOut struct {
	argv [][][]byte
	errs []error
}

// vfParseAll drives parseRESP over the whole input the way handleConn does:
// one call per command until an error (handleConn closes the connection on any
// parse error).  Returns the argv of every successful call.
func vfParseAll(input []byte, maxCalls int) (out vfParseOut, panicked any, stack string) {
	defer func() {
		if p := recover(); p != nil {
			panicked = p
			stack = string(debug.Stack())
		}
	}()
	rd := bufio.NewReader(bytes.NewReader(input))
	for i := 0; i < maxCalls; i++ {
		args, err := parseRESP(rd)
		if err != nil {
			out.errs = append(out.errs, err)
			return
		}
		out.argv = append(out.argv, args)
	}
	return
}

var vfMemMu sync.Mutex

// vfMeasure runs vfParseAll and reports the bytes allocated meanwhile (minimum of
// up to 3 attempts when the bound is exceeded, to shed allocations of unrelated
// runtime goroutines).
func vfMeasure(input []byte, maxCalls int) (out vfParseOut, alloc uint64, panicked any, stack string) {
	vfMemMu.Lock()
	defer vfMemMu.Unlock()
	bound := uint64(vfAllocSlope*len(input) + vfAllocConst)
	var ms0, ms1 runtime.MemStats
	for attempt := 0; attempt < 3; attempt++ {
		runtime.ReadMemStats(&ms0)
		out, panicked, stack = vfParseAll(input, maxCalls)
		runtime.ReadMemStats(&ms1)
		d := ms1.TotalAlloc - ms0.TotalAlloc
		if attempt == 0 || d < alloc {
			alloc = d
		}
		if panicked != nil || alloc <= bound {
			break
		}
	}
	if alloc > 32<<20 {
		debug.FreeOSMemory()
	}
	return
}

// vfLadder lists the clamps applied to oversized declared lengths, smallest
// first: a parser that allocates from the declared length is caught at the
// first rung with a harmless allocation; only a parser that passes the small
// rungs is shown the literal value.
func vfLadder(declMax int64) []int64 {
	var l []int64
	for _, c := range []int64{1 << 16, 1 << 22, 1 << 28} {
		if declMax > c {
			l = append(l, c)
		}
	}
	return append(l, -1)
}

func vfRunParse(c vfCase31, r *pbt.Rec) error {
	wellFormed := true
	nArgs := 0
	for _, f := range c.Frames {
		if f.Kind == "raw" || f.mutated() {
			wellFormed = false
		}
		r.Label("frame:" + f.Kind)
		if f.ArrayLen != "" {
			r.Label("mut:arraylen")
		}
		if len(f.BulkLen) > 0 {
			r.Label("mut:bulklen")
		}
		if f.Cut > 0 {
			r.Label("mut:truncated")
		}
		nArgs += len(f.Args)
	}
	declMax := c.declaredMax()
	switch {
	case declMax >= 1<<31:
		r.Label("declared>=2^31")
	case declMax >= 1<<20:
		r.Label("declared>=2^20")
	case declMax > 0:
		r.Label("declared-small")
	}
	ladder := vfLadder(declMax)
	if c.Literal {
		ladder = []int64{-1}
	}
	for _, clamp := range ladder {
		var input []byte
		for _, f := range c.Frames {
			input = append(input, f.encode(clamp)...)
		}
		out, alloc, p, stack := vfMeasure(input, len(c.Frames)+2)
		if p != nil {
			return pbt.Failf("panic", "parseRESP panicked on %d input bytes %s: %v\n%s", len(input), vfQuote(input), p, vfTrim(stack))
		}
		bound := uint64(vfAllocSlope*len(input) + vfAllocConst)
		if alloc > bound {
			return pbt.Failf("alloc", "parseRESP allocated %d bytes for %d input bytes %s (bound 64*len+64KiB = %d; declared lengths clamped to %d)",
				alloc, len(input), vfQuote(input), bound, clamp)
		}
		if clamp != -1 {
			continue
		}
		if !wellFormed {
			if !wellFormedPrefix(c) {
				r.Label("robustness-only")
				if len(out.errs) > 0 {
					r.Label("rejected")
				}
				if len(input) > 0 {
					r.NTKey("robust/" + string(input))
				}
				return nil
			}
		}
		// well-formed stream (or well-formed prefix followed by junk): every
		// well-formed frame before the first other frame parses to exactly its argv.
		k := 0
		for _, f := range c.Frames {
			if f.Kind == "raw" || f.mutated() {
				break
			}
			if k >= len(out.argv) {
				return pbt.Failf("wellformed-rejected", "frame %d (%s %s) of a well-formed stream was not parsed: calls=%d errs=%v input=%s",
					k, f.Kind, vfArgs(f.Args), len(out.argv), out.errs, vfQuote(input))
			}
			got := out.argv[k]
			if len(got) != len(f.Args) {
				return pbt.Failf("argv-mismatch", "frame %d (%s): want %d args %s, got %d args %s; input=%s",
					k, f.Kind, len(f.Args), vfArgs(f.Args), len(got), vfArgs(got), vfQuote(input))
			}
			for i := range got {
				if !bytes.Equal(got[i], f.Args[i]) {
					return pbt.Failf("argv-mismatch", "frame %d (%s) arg %d: want %q got %q; input=%s", k, f.Kind, i, f.Args[i], got[i], vfQuote(input))
				}
			}
			k++
		}
		if wellFormed {
			if len(out.argv) != len(c.Frames) {
				return pbt.Failf("stream-desync", "well-formed stream of %d frames produced %d commands; input=%s", len(c.Frames), len(out.argv), vfQuote(input))
			}
			if len(out.errs) != 1 || out.errs[0] != io.EOF {
				return pbt.Failf("stream-desync", "after the last frame parseRESP must report io.EOF, got %v; input=%s", out.errs, vfQuote(input))
			}
			r.Label("wellformed")
			if nArgs > 0 {
				r.NTKey("wf/" + string(input))
			}
		} else {
			r.Label("wellformed-prefix")
			if k > 0 && nArgs > 0 {
				r.NTKey("wfp/" + string(input))
			}
		}
	}
	return nil
}

// wellFormedPrefix: the first frame is well-formed (so it has a defined argv).
func wellFormedPrefix(c vfCase31) bool {
	return len(c.Frames) > 0 && c.Frames[0].Kind != "raw" && !c.Frames[0].mutated()
}

func vfQuote(b []byte) string {
	if len(b) > 300 {
		return fmt.Sprintf("%q…(+%d bytes)", b[:300], len(b)-300)
	}
	return fmt.Sprintf("%q", b)
}

func vfArgs(a [][]byte) string {
	s := make([]string, len(a))
	for i, x := range a {
		if len(x) > 40 {
			s[i] = fmt.Sprintf("%q…(%d)", x[:40], len(x))
		} else {
			s[i] = fmt.Sprintf("%q", x)
		}
	}
	return "[" + strings.Join(s, " ") + "]"
}

func vfTrim(s string) string {
	l := strings.Split(s, "\n")
	if len(l) > 24 {
		l = l[:24]
	}
	return strings.Join(l, "\n")
}

// ---------------------------------------------------------- generators ----

var vfHugeLens = []string{"2147483647", "2147483648", "4294967296", "9999999999", "9223372036854775807",
	"99999999999999999999", "1073741824", "268435456", "16777216", "1048577", "100000", "65537"}

var vfOddLens = []string{"-1", "-2", "-2147483648", "-9223372036854775808", "", " ", "+1", "0x10", "1e3", "1 ", "١", "00", "-0", "\x00"}

func vfGenArg(t *rapid.T, label string) []byte {
	switch rapid.IntRange(0, 9).Draw(t, label+"-class") {
	case 0:
		return []byte{}
	case 1:
		return []byte(rapid.SampledFrom([]string{"\r\n", "\r", "\n", "$3\r\nabc\r\n", "*1\r\n", " ", "\x00", "a b"}).Draw(t, label+"-crlf"))
	case 2:
		n := rapid.IntRange(200, 9000).Draw(t, label+"-biglen") // crosses bufio's 4096-byte buffer
		b := bytes.Repeat([]byte{byte('a' + n%26)}, n)
		return b
	default:
		return rapid.SliceOfN(rapid.Byte(), 0, 24).Draw(t, label)
	}
}

var vfInlineWords = []string{"PING", "GET", "SET", "k", "key:1", "v", "0", "-1", "a.b", "ECHO", "x_y", "Z"}

func vfGenInlineArg(t *rapid.T, label string) []byte {
	if rapid.Bool().Draw(t, label+"-word") {
		return []byte(rapid.SampledFrom(vfInlineWords).Draw(t, label))
	}
	return []byte(rapid.StringMatching(`[A-Za-z0-9_:.\-]{1,12}`).Draw(t, label))
}

func vfGenWellFormed(t *rapid.T, label string) vfFrame {
	if rapid.IntRange(0, 3).Draw(t, label+"-inline") == 0 {
		n := rapid.IntRange(1, 5).Draw(t, label+"-n")
		f := vfFrame{Kind: "inline"}
		blank := rapid.SampledFrom([]string{" ", " ", " ", "  ", "   "})
		edge := rapid.SampledFrom([]string{"", "", "", " ", "  "})
		f.Sep = append(f.Sep, "") // the first byte decides array vs inline: no leading blank before a possible '*'
		for i := 0; i < n; i++ {
			f.Args = append(f.Args, vfGenInlineArg(t, label+"-arg"))
			if i < n-1 {
				f.Sep = append(f.Sep, blank.Draw(t, label+"-sep"))
			} else {
				f.Sep = append(f.Sep, edge.Draw(t, label+"-trail"))
			}
		}
		if rapid.IntRange(0, 4).Draw(t, label+"-stretch") == 0 {
			// long inline lines: total length at and around multiples of the reader's 4096-byte buffer
			target := rapid.SampledFrom([]int{4093, 4094, 4095, 4096, 4097, 8190, 8191, 8192, 8193, 12287, 0}).Draw(t, label+"-linelen")
			if target == 0 {
				target = rapid.IntRange(200, 13000).Draw(t, label+"-linelen-any")
			}
			cur := 0
			for i, a := range f.Args {
				cur += len(f.Sep[i]) + len(a)
			}
			cur += len(f.Sep[len(f.Args)])
			if extra := target - cur; extra > 0 {
				i := rapid.IntRange(0, len(f.Args)-1).Draw(t, label+"-stretch-arg")
				f.Args[i] = append(append([]byte(nil), f.Args[i]...), bytes.Repeat([]byte{'a'}, extra)...)
			}
		}
		return f
	}
	n := rapid.IntRange(0, 6).Draw(t, label+"-n")
	f := vfFrame{Kind: "array", Args: [][]byte{}}
	for i := 0; i < n; i++ {
		f.Args = append(f.Args, vfGenArg(t, label+"-arg"))
	}
	return f
}

// vfGenLen draws a replacement for a declared length.  While finding C31-alloc is
// open, lengths whose make() alone would break the bound are not drawn.
func vfGenLen(t *rapid.T, label string, unit int, excluded *int) string {
	allocOpen := vfAllocOpen()
	switch rapid.IntRange(0, 3).Draw(t, label+"-class") {
	case 0:
		return rapid.SampledFrom(vfOddLens).Draw(t, label+"-odd")
	case 1:
		if allocOpen {
			*excluded++
			return strconv.Itoa(rapid.IntRange(0, (16<<10)/unit).Draw(t, label+"-capped"))
		}
		return rapid.SampledFrom(vfHugeLens).Draw(t, label+"-huge")
	case 2:
		return strconv.Itoa(rapid.IntRange(0, 40).Draw(t, label+"-near"))
	default:
		if allocOpen {
			*excluded++
			return strconv.Itoa(rapid.IntRange(0, (16<<10)/unit).Draw(t, label+"-capped"))
		}
		return strconv.FormatInt(rapid.Int64Range(1, 1<<40).Draw(t, label+"-any"), 10)
	}
}

// vfAllocOpen: parseRESP sizing its buffers from the declared lengths is listed as open
// (either as over-allocation or as the makeslice panic it causes for lengths >= 2^47).
func vfAllocOpen() bool {
	return pbt.Open("C31-alloc") || pbt.Open("C31-alloc-bulk") || pbt.Open("C31-panic")
}

// vfTameRaw: while the allocation findings are open, raw byte strings must not smuggle in a
// declared length either: a digit run after '*' or '$' is cut to 2 digits ('*' : <= 99
// elements) resp. 4 digits ('$' : <= 9999 bytes).
func vfTameRaw(raw []byte, excluded *int) []byte {
	if !vfAllocOpen() {
		return raw
	}
	out := make([]byte, 0, len(raw))
	for i := 0; i < len(raw); i++ {
		out = append(out, raw[i])
		if raw[i] != '*' && raw[i] != '$' {
			continue
		}
		keep := 2
		if raw[i] == '$' {
			keep = 4
		}
		j := i + 1
		if j < len(raw) && raw[j] == '+' {
			out = append(out, '+')
			j++
		}
		n := 0
		for j < len(raw) && raw[j] >= '0' && raw[j] <= '9' {
			if n < keep {
				out = append(out, raw[j])
			} else if n == keep {
				*excluded++
			}
			n++
			j++
		}
		i = j - 1
	}
	return out
}

type vfGenCase31 struct {
	C        vfCase31
	Excluded int
}

func vfGenParse(t *rapid.T) vfGenCase31 {
	var g vfGenCase31
	mode := rapid.SampledFrom([]string{"wf", "wf", "mut", "mut", "mut", "raw", "mix"}).Draw(t, "mode")
	switch mode {
	case "wf":
		n := rapid.IntRange(1, 4).Draw(t, "frames")
		for i := 0; i < n; i++ {
			g.C.Frames = append(g.C.Frames, vfGenWellFormed(t, "f"))
		}
	case "raw":
		var raw []byte
		if rapid.Bool().Draw(t, "resp-alphabet") {
			raw = []byte(rapid.StringMatching(`[*$\r\n0-9\-+a: ]{0,40}`).Draw(t, "raw"))
		} else {
			raw = rapid.SliceOfN(rapid.Byte(), 0, 64).Draw(t, "raw")
		}
		g.C.Frames = []vfFrame{{Kind: "raw", Raw: vfTameRaw(raw, &g.Excluded)}}
	case "mut", "mix":
		if mode == "mix" && rapid.Bool().Draw(t, "lead") {
			g.C.Frames = append(g.C.Frames, vfGenWellFormed(t, "lead"))
		}
		f := vfFrame{Kind: "array", Args: [][]byte{}}
		n := rapid.IntRange(0, 4).Draw(t, "n")
		if rapid.IntRange(0, 5).Draw(t, "many") == 0 {
			// many tiny elements actually delivered under a (possibly huge) declared count: a parser may
			// start trusting the declared length once "enough" elements have arrived
			n = rapid.IntRange(15, 70).Draw(t, "n-many")
			for i := 0; i < n; i++ {
				f.Args = append(f.Args, []byte(rapid.SampledFrom([]string{"", "a", "k1", "v"}).Draw(t, "tiny")))
			}
			n = 0
		}
		for i := 0; i < n; i++ {
			f.Args = append(f.Args, vfGenArg(t, "arg"))
		}
		n = len(f.Args)
		what := rapid.IntRange(0, 5).Draw(t, "what")
		if what == 0 || what == 3 || what == 5 {
			f.ArrayLen = vfGenLen(t, "alen", 24, &g.Excluded)
		}
		if (what == 1 || what == 3 || what == 4) && n > 0 {
			i := rapid.IntRange(0, n-1).Draw(t, "bulk-idx")
			f.BulkLen = map[int]string{i: vfGenLen(t, "blen", 1, &g.Excluded)}
		}
		if what == 2 || what == 4 || what == 5 || !f.mutated() {
			full := len(f.encode(-1))
			if full > 1 {
				f.Cut = rapid.IntRange(1, full-1).Draw(t, "cut")
			} else {
				f.ArrayLen = "-1"
			}
		}
		g.C.Frames = append(g.C.Frames, f)
		if mode == "mix" && rapid.Bool().Draw(t, "tail") {
			g.C.Frames = append(g.C.Frames, vfFrame{Kind: "raw", Raw: vfTameRaw(rapid.SliceOfN(rapid.Byte(), 0, 16).Draw(t, "tail-raw"), &g.Excluded)})
		}
	}
	return g
}

func vfRunParseGen(g vfGenCase31, r *pbt.Rec) error {
	r.Excluded(g.Excluded)
	return vfRunParse(g.C, r)
}

// vfStaticParse: the inputs named in the property / design, always run.
func vfStaticParse() []vfGenCase31 {
	mk := func(f ...vfFrame) vfGenCase31 { return vfGenCase31{C: vfCase31{Frames: f}} }
	arr := func(args ...string) vfFrame {
		f := vfFrame{Kind: "array", Args: [][]byte{}}
		for _, a := range args {
			f.Args = append(f.Args, []byte(a))
		}
		return f
	}
	out := []vfGenCase31{
		mk(arr()),
		mk(arr("PING")),
		mk(arr("SET", "k", "")),
		mk(arr("ECHO", "a\r\nb")),
		mk(vfFrame{Kind: "inline", Args: [][]byte{[]byte("PING")}}),
		mk(vfFrame{Kind: "inline", Args: [][]byte{[]byte("SET"), []byte("k"), []byte("v")}, Sep: []string{"", "  ", " ", " "}}),
		mk(arr("GET", "k"), vfFrame{Kind: "inline", Args: [][]byte{[]byte("PING")}}, arr("GET", "k2")),
		mk(vfFrame{Kind: "raw", Raw: []byte{}}),
		mk(vfFrame{Kind: "raw", Raw: []byte("*")}),
		mk(vfFrame{Kind: "raw", Raw: []byte("*1\r\n$")}),
		mk(vfFrame{Kind: "raw", Raw: []byte("\r\n")}),
		mk(vfFrame{Kind: "raw", Raw: []byte("\n")}),
		mk(vfFrame{Kind: "raw", Raw: []byte("*-1\r\n")}),
		mk(func() vfFrame { f := arr("GET", "k"); f.BulkLen = map[int]string{1: "-2"}; return f }()),
		mk(func() vfFrame { f := arr("GET", "k"); f.BulkLen = map[int]string{0: "-1"}; return f }()),
	}
	if !vfAllocOpen() {
		for _, h := range vfHugeLens {
			a := arr("GET", "k")
			a.ArrayLen = h
			b := arr("GET", "k")
			b.BulkLen = map[int]string{1: h}
			out = append(out, mk(a), mk(b))
		}
	} else {
		out[0].Excluded = 2 * len(vfHugeLens)
	}
	return out
}

// ------------------------------------------------ connection-level spec ----

// vfConnCase: bytes written to a live connection of the real server.
type vfConnCase struct {
	Pre      [][]byte // ECHO payloads sent as well-formed frames first
	Junk     []byte   // then arbitrary bytes
	Close    bool     // half-close after writing (otherwise the server must have closed or be waiting)
	Excluded int      `json:",omitempty"`
}

var vfSrv struct {
	once sync.Once
	dir  string
	path string
	err  error
}

// vfServer starts one real gateway (embedded backend, main()'s option
// construction) per process, listening on a unix socket in tmpfs.
func vfServer() (string, error) {
	vfSrv.once.Do(func() {
		dir, _ := pbt.TempDir("c31srv")
		vfSrv.dir = dir
		opt := NoKV.NewDefaultOptions()
		opt.WorkDir = filepath.Join(dir, "db")
		if opt.MaxBatchCount <= 0 {
			opt.MaxBatchCount = int64(opt.WriteBatchMaxCount)
		}
		if opt.MaxBatchSize <= 0 {
			opt.MaxBatchSize = opt.WriteBatchMaxSize
		}
		db := NoKV.Open(opt)
		_ = db
		ln, err := net.Listen("unix", filepath.Join(dir, "s"))
		if err != nil {
			vfSrv.err = err
			return
		}
		vfSrv.path = ln.Addr().String()
		srv := newServer(newEmbeddedBackend(db))
		go func() { _ = srv.Serve(ln) }()
	})
	return vfSrv.path, vfSrv.err
}

func vfRunConn(c vfConnCase, r *pbt.Rec) error {
	r.Excluded(c.Excluded)
	path, err := vfServer()
	if err != nil {
		return fmt.Errorf("harness: %v", err)
	}
	conn, err := net.Dial("unix", path)
	if err != nil {
		return pbt.Failf("server-dead", "cannot connect to the gateway any more: %v", err)
	}
	defer conn.Close()
	_ = conn.SetDeadline(time.Now().Add(10 * time.Second))
	// phase 1: the well-formed ECHO frames, pipelined in one write; their replies are
	// read before any junk is sent (the gateway flushes once its input buffer is empty).
	var w bytes.Buffer
	for _, p := range c.Pre {
		fmt.Fprintf(&w, "*2\r\n$4\r\nECHO\r\n$%d\r\n", len(p))
		w.Write(p)
		w.WriteString("\r\n")
	}
	if w.Len() > 0 {
		pre := append([]byte(nil), w.Bytes()...)
		go func() { _, _ = conn.Write(pre) }()
	}
	rd := bufio.NewReader(conn)
	for i, p := range c.Pre {
		line, err := rd.ReadString('\n')
		if err != nil {
			return pbt.Failf("echo-lost", "reply %d to a well-formed ECHO frame missing: %v", i, err)
		}
		want := fmt.Sprintf("$%d\r\n", len(p))
		if line != want {
			return pbt.Failf("echo-mismatch", "reply %d header: want %q got %q", i, want, line)
		}
		buf := make([]byte, len(p)+2)
		if _, err := io.ReadFull(rd, buf); err != nil {
			return pbt.Failf("echo-lost", "reply %d body: %v", i, err)
		}
		if !bytes.Equal(buf[:len(p)], p) || string(buf[len(p):]) != "\r\n" {
			return pbt.Failf("echo-mismatch", "reply %d body: want %q got %q", i, p, buf)
		}
	}
	if len(c.Pre) > 0 {
		r.Label("echo-roundtrip")
	}
	// phase 2: junk, optionally followed by a half-close
	if _, err := conn.Write(c.Junk); err != nil {
		// the server may already have closed on a malformed prefix of the junk
		r.Label("closed-during-junk")
	}
	if c.Close {
		if uc, ok := conn.(*net.UnixConn); ok {
			_ = uc.CloseWrite()
		}
	}
	if c.Close {
		// after EOF the server must finish the connection (it may first answer the junk)
		if _, err := io.Copy(io.Discard, rd); err != nil {
			return pbt.Failf("conn-hang", "server did not close the connection after client EOF: %v", err)
		}
		r.Label("closed-after-eof")
	}
	// the server must still be alive for the next client
	c2, err := net.Dial("unix", path)
	if err != nil {
		return pbt.Failf("server-dead", "gateway unreachable after junk %s: %v", vfQuote(c.Junk), err)
	}
	defer c2.Close()
	_ = c2.SetDeadline(time.Now().Add(10 * time.Second))
	if _, err := c2.Write([]byte("*1\r\n$4\r\nPING\r\n")); err != nil {
		return pbt.Failf("server-dead", "write: %v", err)
	}
	line, err := bufio.NewReader(c2).ReadString('\n')
	if err != nil || line != "+PONG\r\n" {
		return pbt.Failf("server-dead", "PING on a fresh connection after junk %s: %q %v", vfQuote(c.Junk), line, err)
	}
	if len(c.Junk) > 0 && len(c.Pre) > 0 {
		r.NT()
	}
	return nil
}

func vfGenConn(t *rapid.T) vfConnCase {
	var c vfConnCase
	n := rapid.IntRange(0, 3).Draw(t, "pre")
	for i := 0; i < n; i++ {
		c.Pre = append(c.Pre, vfGenArg(t, "echo"))
	}
	// junk: bounded declared lengths only (this spec is about totality at connection
	// level; the allocation bound is judged by the parse spec)
	switch rapid.IntRange(0, 3).Draw(t, "junk-class") {
	case 0:
		c.Junk = rapid.SliceOfN(rapid.Byte(), 0, 48).Draw(t, "junk")
	case 1:
		c.Junk = []byte(rapid.StringMatching(`[*$\r\n0-9\-a ]{0,32}`).Draw(t, "junk"))
	case 2:
		f := vfFrame{Kind: "array", Args: [][]byte{}}
		words := []string{"GET", "SET", "DEL", "MGET", "MSET", "INCR", "INCRBY", "DECRBY", "EXISTS", "PING", "ECHO", "k", "v", "", "1", "NX", "EX"}
		m := rapid.IntRange(0, 5).Draw(t, "cmd-n")
		for i := 0; i < m; i++ {
			f.Args = append(f.Args, []byte(rapid.SampledFrom(words).Draw(t, "cmd-arg")))
		}
		if m > 0 && rapid.Bool().Draw(t, "null-bulk") {
			f.BulkLen = map[int]string{rapid.IntRange(0, m-1).Draw(t, "null-idx"): "-1"}
			// a null bulk carries no payload: re-encode by hand
			var b bytes.Buffer
			fmt.Fprintf(&b, "*%d\r\n", m)
			for i, a := range f.Args {
				if _, ok := f.BulkLen[i]; ok {
					b.WriteString("$-1\r\n")
					continue
				}
				fmt.Fprintf(&b, "$%d\r\n%s\r\n", len(a), a)
			}
			c.Junk = b.Bytes()
		} else {
			c.Junk = f.encode(-1)
		}
	default:
		f := vfGenWellFormed(t, "wf")
		enc := f.encode(-1)
		c.Junk = enc[:rapid.IntRange(0, len(enc)).Draw(t, "cut")]
	}
	c.Junk = vfTameRaw(c.Junk, &c.Excluded)
	c.Close = rapid.IntRange(0, 3).Draw(t, "close") > 0
	if !c.Close {
		// without EOF the server legitimately keeps waiting for the rest of a partial
		// frame; nothing more to observe than liveness
	}
	return c
}

// ---------------------------------------------------------------- main ----

func TestCheck(t *testing.T) {
	s := &pbt.Suite{ID: "C31", Level: "exploration",
		Rule: "parse: inputs are (a) streams of 1-4 well-formed frames (RESP arrays with binary/empty/CRLF-containing/8 KiB arguments, inline commands with blanks, one in five stretched to a line length at or around a multiple of 4096), " +
			"(b) array frames (0-4 arbitrary or 15-70 tiny delivered elements) with mutated declared lengths (negative, non-numeric, up to 99999999999999999999), truncations, (c) arbitrary bytes. " +
			"Oracle: parseRESP never panics; TotalAlloc delta of the calls <= 64*len(input)+64KiB (declared lengths are first probed clamped to 2^16, 2^22, 2^28, then literal); " +
			"each well-formed frame yields exactly its argv and the stream ends with io.EOF. Non-trivial = a well-formed stream with >= 1 argument (distinct by bytes), " +
			"or a malformed/mutated non-empty input (distinct by bytes). conn: the same classes written to a live gateway connection; ECHO payloads must come back byte-exact, " +
			"the server must survive and answer PING on a fresh connection; non-trivial = junk after >= 1 echoed frame.",
		Assumptions: []string{
			"well-formed inline command = arguments over [A-Za-z0-9_:.-] separated by blanks and terminated by CRLF (no quoting; a bare LF terminator is not judged)",
			"well-formed RESP request = '*<n>' with n >= 0 followed by n bulk strings with exact lengths; null bulks and '*-1' are treated as malformed-but-harmless (no argv claim)",
			"allocation is measured with runtime.MemStats.TotalAlloc around the parse calls in an otherwise idle test process (minimum of 3 attempts)",
		},
	}
	pbt.Add(s, &pbt.Spec[vfGenCase31]{Name: "parse", Gen: vfGenParse, Run: vfRunParseGen, Static: vfStaticParse,
		Quick: 200000, Thorough: 8000000, Shards: 8, Timeout: 10 * time.Minute})
	pbt.Add(s, &pbt.Spec[vfConnCase]{Name: "conn", Gen: vfGenConn, Run: vfRunConn,
		Quick: 10000, Thorough: 300000, Shards: 4, Timeout: 10 * time.Minute})
	s.Main(t)
}
