#!/usr/bin/env bash
# run.sh <go-test-timeout>
# Runner for a check whose test sources are injected into package main of
# $VERIF_REPO/cmd/nokv-redis at build time (go -overlay); nothing is written
# below $VERIF_REPO.  Called by /verif/vcheck; the property id is the name of
# the directory this script lives in.  The same file is used for c29/c30/c31.
set -u
TO="${1:-40m}"
HERE="$(cd "$(dirname "$0")" && pwd)"
pkg="$(basename "$HERE")"
ROOT="${VERIF_ROOT:-/verif}"
REPO="${VERIF_REPO:-/repo}"
REPO="$(readlink -f "$REPO")"
export VERIF_ROOT="$ROOT" VERIF_REPO="$REPO"
export GOFLAGS=-mod=mod GOPROXY=off GOTOOLCHAIN=auto
unset GOSUMDB GONOSUMDB GONOSUMCHECK 2>/dev/null || true

TARGET="$REPO/cmd/nokv-redis"
if [ ! -d "$TARGET" ]; then echo "run.sh: $TARGET not found"; exit 2; fi

W="$(mktemp -d /dev/shm/verif-ovl-$pkg-XXXXXX 2>/dev/null || mktemp -d)"
trap 'rm -rf "$W"' EXIT

# module file: the repository's own go.mod + rapid (the only extra module)
cp "$REPO/go.mod" "$W/go.mod"
printf '\nrequire pgregory.net/rapid v1.3.0\n' >> "$W/go.mod"
cat "$REPO/go.sum" "$ROOT/harness/go.sum" 2>/dev/null | sort -u > "$W/go.sum"

# overlay: every inpkg/*.go becomes zz_verif_<pkg>_<name> in package main; the
# shared runner (internal/pbt, which package main may not import because of the
# internal rule) is exposed unchanged as an extra package that only exists in the overlay.
{
  printf '{"Replace":{\n'
  for f in "$HERE"/inpkg/*.go; do
    printf '  "%s/zz_verif_%s_%s": "%s",\n' "$TARGET" "$pkg" "$(basename "$f")" "$f"
  done
  printf '  "%s/zzverifpbt/pbt.go": "%s"\n' "$TARGET" "$ROOT/harness/internal/pbt/pbt.go"
  printf '}}\n'
} > "$W/overlay.json"

RACE=""
[ "${VERIF_RACE:-}" = "1" ] && RACE="-race"

cd "$REPO" || exit 2
# Build the test binary.  Preferred: with tag verifmainseam (launcher that drives the real
# main(), see inpkg/gw_mainseam_test.go); if that does not compile (main()'s test seams were
# renamed) fall back to the launcher that replicates main()'s option construction.
BIN="$W/check.test"
build() { go test -c -o "$BIN" -modfile="$W/go.mod" -overlay="$W/overlay.json" $RACE -vet=off -tags "$1" ./cmd/nokv-redis; }
if build "verif verifinpkg verifmainseam" > "$W/build1.log" 2>&1; then
  :
elif build "verif verifinpkg" > "$W/build2.log" 2>&1; then
  echo "note: launcher with tag verifmainseam does not build, using the replica launcher:"; head -5 "$W/build1.log"
else
  cat "$W/build2.log"; echo "run.sh: build failed"; exit 2
fi
cd "$TARGET" || exit 2
"$BIN" -test.v -test.count=1 -test.timeout "$TO" -test.run '^TestCheck$'
rc=$?
# thorough tier of a check may define extra phases (native fuzzing, -race) in post.sh
if [ $rc -eq 0 ] && [ -x "$HERE/post.sh" ] && [ -z "${VERIF_REPLAY:-}" ]; then
  W="$W" TARGET="$TARGET" "$HERE/post.sh" "$TO" || rc=$?
fi
exit $rc
