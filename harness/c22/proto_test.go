//go:build verif

package c22

import (
	"fmt"
	"testing"
	"testing/synctest"
	"time"

	"github.com/feichai0017/NoKV/manifest"
	"github.com/feichai0017/NoKV/pb"
	"nokvverif/internal/pbt"
	"nokvverif/internal/sim"
)

func TestProto(t *testing.T) {
	for _, st := range []sim.Storage{sim.StorageMemory, sim.StorageWAL, sim.StorageDB} {
		t0 := time.Now()
		synctest.Test(t, func(t *testing.T) {
			c := sim.NewCluster()
			var cleanups []func()
			defer func() {
				for _, f := range cleanups {
					f()
				}
			}()
			for s := uint64(1); s <= 3; s++ {
				dir, cl := pbt.TempDir("proto")
				cleanups = append(cleanups, cl)
				if _, err := c.AddNode(sim.NodeConfig{StoreID: s, Dir: dir, Storage: st}); err != nil {
					t.Fatal(err)
				}
			}
			metas := []manifest.RegionMeta{}
			for r := uint64(1); r <= 2; r++ {
				m := manifest.RegionMeta{ID: r, Epoch: manifest.RegionEpoch{Version: 1, ConfVersion: 1}, State: manifest.RegionStateRunning}
				if r == 1 {
					m.StartKey, m.EndKey = []byte("a"), []byte("m")
				} else {
					m.StartKey, m.EndKey = []byte("m"), []byte("z")
				}
				for s := uint64(1); s <= 3; s++ {
					m.Peers = append(m.Peers, manifest.PeerMeta{StoreID: s, PeerID: r*100 + s})
				}
				metas = append(metas, m)
			}
			for _, n := range c.Nodes {
				for _, m := range metas {
					if _, err := n.StartRegion(m); err != nil {
						t.Fatal(err)
					}
				}
			}
			if err := c.Node(1).Campaign(1); err != nil {
				t.Fatal(err)
			}
			c.Settle(1000)
			if err := c.Node(2).Campaign(2); err != nil {
				t.Fatal(err)
			}
			c.Settle(1000)
			fmt.Println(st, "leaders", c.Node(1).IsLeader(1), c.Node(2).IsLeader(2))
			type res struct {
				resp *pb.RaftCmdResponse
				err  error
			}
			prop := func(n *sim.Node, region uint64, key string) chan res {
				ch := make(chan res, 1)
				go func() {
					resp, err := n.Store.ProposeCommand(&pb.RaftCmdRequest{
						Header: &pb.CmdHeader{RegionId: region, RegionEpoch: &pb.RegionEpoch{Version: 1, ConfVer: 1}},
						Requests: []*pb.Request{{CmdType: pb.CmdType_CMD_PREWRITE, Cmd: &pb.Request_Prewrite{Prewrite: &pb.PrewriteRequest{
							Mutations:   []*pb.Mutation{{Op: pb.Mutation_Put, Key: []byte(key), Value: []byte("v" + key)}},
							PrimaryLock: []byte(key), StartVersion: 5, LockTtl: 1000,
						}}}}})
					ch <- res{resp, err}
				}()
				return ch
			}
			c1 := prop(c.Node(1), 1, "b")
			synctest.Wait()
			fmt.Println("pending after propose 1:", c.Net.Pending())
			c2 := prop(c.Node(2), 2, "n")
			synctest.Wait()
			fmt.Println("pending after propose 2:", c.Net.Pending())
			// deliver region 2's messages first
			for i := 0; i < c.Net.Pending(); {
				m, _ := c.Net.Peek(i)
				if m.To/100 == 2 || m.From/100 == 2 {
					c.Net.Deliver(i)
					i = 0
					continue
				}
				i++
			}
			synctest.Wait()
			select {
			case r := <-c1:
				fmt.Printf("proposal 1 (region 1) answered early: hdr=%v err=%v\n", r.resp.GetHeader(), r.err)
			default:
				fmt.Println("proposal 1 still pending")
			}
			c.Settle(1000)
			time.Sleep(10 * time.Second)
			synctest.Wait()
			select {
			case r := <-c2:
				fmt.Printf("proposal 2: hdr=%v err=%v\n", r.resp.GetHeader(), r.err)
			default:
				fmt.Println("proposal 2 still pending")
			}
			for _, n := range c.Nodes {
				fmt.Println("store", n.Cfg.StoreID, "applies", len(n.Applies()))
			}
			c.Close()
		})
		fmt.Println(st, "wall", time.Since(t0))
	}
}
