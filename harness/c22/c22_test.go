//go:build verif

// C22 — replicas apply identical command sequences and answer each proposal once.
//
// Three real store.Store images host one or two three-voter regions (real
// peer.Peer / etcd-raft, raft log in memory, in engine.WALStorage or in a full
// NoKV DB; commands executed by a harness mini-percolator or by the real
// raftstore/kv.Apply).  The harness is the network and the clock
// (internal/sim.World): a rapid-drawn script of deliveries, drops, duplicates,
// reorderings, partitions, campaigns, leader transfers, restarts, leader ticks
// and client proposals (prewrite / commit, every command content proposed once)
// runs inside a testing/synctest bubble, so the schedule is a function of the
// script and proposal timeouts are virtual.
//
// Oracle (the statement, literally):
//   - per region, the sequences of commands handed to the applier on the three
//     stores are prefixes of one another (commands compared by content hash,
//     header ids ignored);
//   - a proposal answered without Go error and without region error appears
//     exactly once in the applied sequence of the store that answered it (and at
//     most once anywhere), and the answer equals the response the applier
//     produced for that very command.
package c22

import (
	"fmt"
	"os"
	"testing"

	proto "google.golang.org/protobuf/proto"
	"nokvverif/internal/pbt"
	"nokvverif/internal/sim"
	"pgregory.net/rapid"
)

func TestMain(m *testing.M) { pbt.RunMain(m) }

var theT *testing.T

const (
	kfR7      = "C22-R7-request-id-collision"
	kfR7b     = "C22-R7-request-id-collision-across-regions"
	kfRestart = "C22-restart-reapplies-log"
)

// Case is the replayable input: the script plus the two oracle/driver switches
// the generator sets while a finding is listed as open.
type Case struct {
	sim.Script
	// TolerateReplay: applied sequences are compared per store incarnation (a
	// restarted store may start again from the first log entry).  Set only while
	// C22-restart-reapplies-log is open.
	TolerateReplay bool `json:"tolerate_replay,omitempty"`
	Excluded       int  `json:"excluded,omitempty"`
}

// ---------------------------------------------------------------- generator

func st(op string, a ...int) sim.Step {
	s := sim.Step{Op: op}
	if len(a) > 0 {
		s.A = a[0]
	}
	if len(a) > 1 {
		s.B = a[1]
	}
	if len(a) > 2 {
		s.C = a[2]
	}
	return s
}

// noise draws a few network faults (loss, reordering, delay) to put between
// the proposals of a fragment.
func noise(t *rapid.T) []sim.Step {
	var out []sim.Step
	for i := rapid.IntRange(0, 4).Draw(t, "noise"); i > 0; i-- {
		k := rapid.SampledFrom([]string{"deliver", "deliver", "deliver", "drop", "drop", "dup", "defer", "hold", "hold", "tick"}).Draw(t, "nop")
		out = append(out, st(k, rapid.IntRange(0, 7).Draw(t, "nk"), rapid.IntRange(0, 3).Draw(t, "nb")))
	}
	return out
}

func genStep(t *rapid.T, persistent, admin bool) sim.Step {
	kinds := []string{
		"pump", "pump", "pump",
		"deliver", "deliver", "deliver", "deliver", "deliver",
		"tick", "tick",
		"drop", "dup", "defer", "defer",
		"prewrite", "prewrite", "prewrite", "commit", "commit", "commit",
		"isolate", "heal", "campaign", "transfer", "sleep",
		"hold", "hold", "release",
	}
	if persistent && !admin {
		kinds = append(kinds, "restart")
	}
	if admin {
		kinds = append(kinds, "split")
	}
	k := rapid.SampledFrom(kinds).Draw(t, "op")
	switch k {
	case "pump":
		return st(k, rapid.IntRange(0, 60).Draw(t, "n"))
	case "deliver", "drop", "dup", "defer", "hold":
		return st(k, rapid.IntRange(0, 11).Draw(t, "k"))
	case "split":
		return st(k, rapid.IntRange(0, 1).Draw(t, "r"))
	case "tick":
		return st(k, rapid.IntRange(0, 3).Draw(t, "s"), rapid.IntRange(0, 5).Draw(t, "n"))
	case "prewrite":
		key := -1
		if rapid.IntRange(0, 4).Draw(t, "shared") == 0 {
			key = rapid.IntRange(0, 2).Draw(t, "key")
		}
		tgt := 3
		if rapid.IntRange(0, 5).Draw(t, "any") == 0 {
			tgt = rapid.IntRange(0, 6).Draw(t, "tgt")
		}
		return st(k, tgt, rapid.IntRange(0, 1).Draw(t, "r"), key)
	case "commit":
		tgt := 3
		if rapid.IntRange(0, 5).Draw(t, "any") == 0 {
			tgt = rapid.IntRange(0, 6).Draw(t, "tgt")
		}
		return st(k, tgt, rapid.IntRange(0, 5).Draw(t, "k"))
	case "isolate", "campaign", "restart":
		return st(k, rapid.IntRange(0, 6).Draw(t, "s"), rapid.IntRange(0, 1).Draw(t, "r"))
	case "transfer":
		return st(k, rapid.IntRange(0, 1).Draw(t, "r"), rapid.IntRange(0, 6).Draw(t, "s"))
	case "sleep":
		return st(k, rapid.IntRange(0, 4).Draw(t, "sec"))
	}
	return st(k)
}

// fragment draws one of the scenario skeletons the property's quantifier names
// ("proposals arriving at different leaders over time", leader change while a
// proposal is in flight, restart with entries in flight).
func fragment(t *rapid.T, regions int, persistent, admin bool) []sim.Step {
	r := rapid.IntRange(0, regions-1).Draw(t, "fr")
	some := rapid.IntRange(0, 3).Draw(t, "some")
	pick := rapid.IntRange(0, 5).Draw(t, "frag")
	if admin && rapid.IntRange(0, 1).Draw(t, "adm") == 0 {
		pick = 6 + rapid.IntRange(0, 1).Draw(t, "admfrag")
	}
	if pick == 3 && (admin || !persistent) {
		pick = 9 // no restarts in this case
	}
	switch pick {
	case 6: // a write and a range change travel through the log together while the network misbehaves:
		// replicas may learn about the two commits in one Ready or in two
		out := []sim.Step{st("prewrite", 3, r, -1)}
		if some == 0 {
			out = append(out, st("prewrite", 3, r, -1))
		}
		out = append(out, st("split", r))
		out = append(out, noise(t)...)
		out = append(out, st("pump", rapid.IntRange(0, 12).Draw(t, "p1")))
		out = append(out, noise(t)...)
		out = append(out, st("pump", 80), st("release"), st("tick", 3, 2), st("pump", 80))
		return out
	case 7: // the range change first, then a write that still carries the old epoch
		out := []sim.Step{st("split", r), st("prewrite", 3, r, -1)}
		out = append(out, noise(t)...)
		out = append(out, st("pump", rapid.IntRange(0, 12).Draw(t, "p1")))
		out = append(out, noise(t)...)
		return append(out, st("pump", 80), st("release"), st("tick", 3, 2), st("pump", 80), st("prewrite", 3, r, -1), st("pump", 60))
	case 9:
		return []sim.Step{st("prewrite", 3, r, -1), st("campaign", 5, r), st("pump", 60)}
	case 0: // the leader is cut off with an un-replicated proposal, a new leader takes proposals
		out := []sim.Step{st("prewrite", 3, r, -1)}
		for i := 0; i < some; i++ {
			out = append(out, st("deliver", rapid.IntRange(0, 5).Draw(t, "k")))
		}
		out = append(out, st("isolate", 3, r), st("campaign", 5, r), st("pump", 60),
			st("prewrite", 3, r, -1), st("pump", rapid.IntRange(0, 40).Draw(t, "p")),
			st("heal"), st("tick", 3, 3), st("pump", 80))
		return out
	case 1: // both regions take proposals at (possibly) different leaders before anything is delivered
		out := []sim.Step{st("prewrite", 3, 0, -1), st("prewrite", 3, 1, -1)}
		if some > 0 {
			out = append(out, st("defer", rapid.IntRange(0, 5).Draw(t, "k")))
		}
		return append(out, st("pump", rapid.IntRange(1, 60).Draw(t, "p")))
	case 2: // leader transfer with a proposal in flight
		return []sim.Step{st("prewrite", 3, r, -1), st("transfer", r, 5+some%2), st("pump", 60), st("prewrite", 3, r, -1), st("pump", 60)}
	case 3: // restart of the leader with a proposal in flight, then a new proposal
		return []sim.Step{st("prewrite", 3, r, -1), st("restart", 3, r), st("campaign", 3+some, r), st("pump", 60),
			st("prewrite", 3, r, -1), st("pump", 60)}
	case 4: // plain progress: write and commit
		return []sim.Step{st("prewrite", 3, r, -1), st("pump", 40), st("commit", 3, 0), st("pump", 40)}
	default: // election noise
		return []sim.Step{st("campaign", rapid.IntRange(0, 6).Draw(t, "s"), r), st("pump", rapid.IntRange(0, 30).Draw(t, "p"))}
	}
}

func gen(t *rapid.T) Case {
	var c Case
	c.Regions = rapid.SampledFrom([]int{1, 2, 2}).Draw(t, "regions")
	switch rapid.IntRange(0, 9).Draw(t, "storage") {
	case 0, 1, 2, 3:
		c.Storage, c.Applier = sim.StorageMemory, "model"
	case 4, 5, 6:
		c.Storage, c.Applier = sim.StorageWAL, "model"
	case 7:
		c.Storage, c.Applier = sim.StorageDB, "model"
	default:
		c.Storage, c.Applier = sim.StorageDB, "kv"
	}
	persistent := c.Storage != sim.StorageMemory
	for r := 0; r < c.Regions; r++ {
		c.Leaders = append(c.Leaders, rapid.IntRange(0, 2).Draw(t, "leader"))
	}
	c.NoRetry = true
	if pbt.Open(kfR7) || pbt.Open(kfR7b) {
		// the store-assigned request ids collide across stores and incarnations:
		// while that is listed the client supplies unique ids itself.
		c.UniqueIDs = true
		c.Excluded++
	}
	if pbt.Open(kfRestart) && persistent {
		c.TolerateReplay = true
		c.Excluded++
	}
	// Range changes (splits through the raft log) and restarts are not mixed: a
	// restarted peer re-applies its log (C22-restart-reapplies-log /
	// C24-restart-replays-admin) and a re-applied split fails, which wedges the peer.
	admin := !persistent || rapid.IntRange(0, 1).Draw(t, "admin") == 0
	n := rapid.IntRange(3, 40).Draw(t, "blocks")
	for i := 0; i < n; i++ {
		if rapid.IntRange(0, 2).Draw(t, "kind") == 0 {
			c.Steps = append(c.Steps, fragment(t, c.Regions, persistent, admin)...)
		} else {
			k := rapid.IntRange(1, 8).Draw(t, "run")
			for j := 0; j < k; j++ {
				c.Steps = append(c.Steps, genStep(t, persistent, admin))
			}
		}
	}
	return c
}

// ---------------------------------------------------------------- oracle

type seqRef struct {
	store, inc int // inc = -1: whole lifetime
	cmds       []sim.AppliedCmd
}

func (s seqRef) String() string {
	if s.inc < 0 {
		return fmt.Sprintf("store %d", s.store+1)
	}
	return fmt.Sprintf("store %d (incarnation %d)", s.store+1, s.inc)
}

func hashes(cs []sim.AppliedCmd, from int) []string {
	var out []string
	for i := from; i < len(cs) && i < from+6; i++ {
		out = append(out, cs[i].Hash)
	}
	return out
}

func check(c Case, tr *sim.Trace) error {
	describe := map[string]string{}
	for _, o := range tr.Ops {
		describe[o.Hash] = fmt.Sprintf("%s(key=%s ts=%d) op#%d at store %d", o.Kind, o.Key, o.Ts, o.ID, o.Store)
	}
	for region := uint64(1); region <= uint64(c.Regions); region++ {
		// a restarted store must not hand a command to the applier again
		if !c.TolerateReplay {
			for s := 0; s < 3; s++ {
				seen := map[string]int{}
				for inc, m := range tr.Applied[s] {
					for i, a := range m[region] {
						if prev, ok := seen[a.Hash]; ok && prev != inc {
							return pbt.Failf("reapplied-after-restart",
								"region %d: store %d applied %s in incarnation %d and again (position %d) in incarnation %d after its restart",
								region, s+1, describe[a.Hash], prev, i, inc)
						}
						seen[a.Hash] = inc
					}
				}
			}
		}
		var seqs []seqRef
		for s := 0; s < 3; s++ {
			if c.TolerateReplay {
				for inc, m := range tr.Applied[s] {
					seqs = append(seqs, seqRef{s, inc, m[region]})
				}
				continue
			}
			var all []sim.AppliedCmd
			for _, m := range tr.Applied[s] {
				all = append(all, m[region]...)
			}
			seqs = append(seqs, seqRef{s, -1, all})
		}
		for i := 0; i < len(seqs); i++ {
			for j := i + 1; j < len(seqs); j++ {
				a, b := seqs[i].cmds, seqs[j].cmds
				for k := 0; k < len(a) && k < len(b); k++ {
					if a[k].Hash != b[k].Hash {
						return pbt.Failf("diverge", "region %d: applied sequences differ at position %d: %s applied %v…, %s applied %v… (%s vs %s)",
							region, k, seqs[i], hashes(a, k), seqs[j], hashes(b, k), describe[a[k].Hash], describe[b[k].Hash])
					}
				}
			}
		}
		for _, o := range tr.Ops {
			if o.Region != region || o.Kind == "read" || !o.OK() {
				continue
			}
			s := int(o.Store - 1)
			var own []sim.AppliedCmd
			if c.TolerateReplay {
				own = tr.Applied[s][o.Inc][region]
			} else {
				for _, m := range tr.Applied[s] {
					own = append(own, m[region]...)
				}
			}
			var hit []sim.AppliedCmd
			for _, a := range own {
				if a.Hash == o.Hash {
					hit = append(hit, a)
				}
			}
			what := fmt.Sprintf("proposal #%d %s(key=%s ts=%d) answered OK by store %d with request id %d (response header %v)",
				o.ID, o.Kind, o.Key, o.Ts, o.Store, o.ReqID, o.Resp.GetHeader())
			if len(hit) == 0 {
				return pbt.Failf("acked-not-applied", "region %d: %s, but store %d never applied that command", region, what, o.Store)
			}
			if len(hit) > 1 {
				return pbt.Failf("applied-twice", "region %d: %s was applied %d times by store %d", region, what, len(hit), o.Store)
			}
			for _, sq := range seqs {
				n := 0
				for _, a := range sq.cmds {
					if a.Hash == o.Hash {
						n++
					}
				}
				if n > 1 {
					return pbt.Failf("applied-twice", "region %d: %s was applied %d times by %s", region, what, n, sq)
				}
			}
			if hit[0].Err != nil || !proto.Equal(hit[0].Resp, o.Resp) {
				return pbt.Failf("wrong-response", "region %d: %s, but the applier's result for that command was %v (err %v); the answer is the result of another command",
					region, what, hit[0].Resp, hit[0].Err)
			}
		}
	}
	return nil
}

func run(c Case, r *pbt.Rec) error {
	if c.Applier == "kv" && c.Storage != sim.StorageDB {
		r.Label("skip:invalid-case")
		return nil
	}
	r.Excluded(c.Excluded)
	tr, err := sim.RunWorld(theT, c.Script, pbt.TempDir)
	for k, v := range tr.Labels {
		r.LabelN(k, v)
	}
	r.Label(fmt.Sprintf("cluster:%dregions/%s/%s", c.Regions, c.Storage, c.Applier))
	if err != nil {
		return pbt.Failf("panic", "%v", err)
	}
	okN, toN, rejN := 0, 0, 0
	for _, o := range tr.Ops {
		switch {
		case o.OK():
			okN++
		case o.Rejected():
			rejN++
		default:
			toN++
		}
	}
	r.LabelN("proposal:answered-ok", okN)
	r.LabelN("proposal:region-error", rejN)
	r.LabelN("proposal:error-or-timeout", toN)
	if tr.Restarts > 0 {
		r.Label("run-with-restart")
	}
	if c.Applier == "kv" {
		// diagnostic only: do replicas that applied the same number of commands hold the same data?
		for a := 0; a < 3; a++ {
			for b := a + 1; b < 3; b++ {
				same := true
				for region := uint64(1); region <= uint64(c.Regions); region++ {
					la := tr.Applied[a][len(tr.Applied[a])-1][region]
					lb := tr.Applied[b][len(tr.Applied[b])-1][region]
					if len(la) != len(lb) {
						same = false
					}
				}
				if !same {
					continue
				}
				for k, v := range tr.KVState[a] {
					if tr.KVState[b][k] != v {
						r.Label("observation:kv-state-differs-between-replicas")
						if os.Getenv("C22_VERBOSE") != "" {
							fmt.Printf("kv state differs: key %s store %d=%q store %d=%q\n", k, a+1, v, b+1, tr.KVState[b][k])
						}
					}
				}
				r.Label("kv-state-compared")
				if tr.Restarts > 0 {
					r.Label("kv-state-compared-after-restarts")
				}
			}
		}
	}
	if tr.LeaderChangeInFlight > 0 || tr.SameIDPending > 0 {
		r.NT()
	}
	return check(c, tr)
}

func TestCheck(t *testing.T) {
	theT = t
	s := &pbt.Suite{ID: "C22", Level: "exploration",
		Rule: "run in which a region's leader (store, term) changed while one of its proposals was in flight, or two stores held pending proposals with the same numeric request id",
		Assumptions: []string{
			"3 stores x 1-2 three-voter regions in one process; the harness transport delivers, drops, duplicates, reorders and partitions ({A|BC}); no membership change, split or merge during a run",
			"election timeouts are script steps (campaign) because etcd-raft draws them from crypto/rand; only leaders are ticked",
			"store restart is a clean close/reopen with a persistent raft log (WAL or full DB); a store losing its log is outside raft's fault model and not generated",
			"every command content (prewrite / commit of one key) is proposed once, so 'that same command' is identified by content hash",
			"virtual time (testing/synctest): ProposeCommand's timeout expires only at sleep steps",
		}}
	pbt.Add(s, &pbt.Spec[Case]{Name: "script", Gen: gen, Run: run, Quick: 1000, Thorough: 20000, Shards: 8})
	s.Main(t)
}
