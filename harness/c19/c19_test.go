//go:build verif

// C17 — transactional reads return the newest committed value visible at their
// timestamp.  Oracle: Percolator reference model (internal/perco); every Get and
// Scan issued through raftstore/kv.Apply must equal the model's read rule.
package c19

import (
	"testing"

	"nokvverif/internal/pbt"
	"nokvverif/internal/perco"
	"pgregory.net/rapid"
)

func TestMain(m *testing.M) { pbt.RunMain(m) }

func profile() perco.Profile {
	return perco.Profile{MaxSteps: 26, WRead: 2, WMaint: 7, WDup: 2, WCheck: 5, HotKey: true,
		Excl: perco.Excl{R1: pbt.Open("C17-R1"),
			R4: pbt.Open("C17-R4"), R5: pbt.Open("C18-R5"), R6: pbt.Open("C19-R6"), R7: pbt.Open("C18-R7") || pbt.Open("C19-R7"),
			R8: pbt.Open("C17-R8"), F1: pbt.Open("C19-F1"), R3: pbt.Open("C19-R3"), R20: pbt.Open("C19-R20"), F2: pbt.Open("C17-F2"),
		}}
}

func gen(t *rapid.T) perco.GCase { return perco.Generate(t, profile()) }

func run(c perco.GCase, r *pbt.Rec) error {
	r.Excluded(c.Excl)
	return perco.Execute(c.Case, r, 19)
}

func TestCheck(t *testing.T) {
	s := &pbt.Suite{ID: "C19", Level: "exploration",
		Rule: "TODO",
	}
	pbt.Add(s, &pbt.Spec[perco.GCase]{Name: "locks", Gen: gen, Run: run, Quick: 4800, Thorough: 320000, Shards: 16})
	s.Main(t)
}
