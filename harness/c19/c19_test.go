//go:build verif

// C19 — locks live exactly from prewrite until commit or rollback.  Lock set /
// remove sequences on one or two hot keys with flushes and compactions in
// between are executed through raftstore/kv.Apply; Reader.GetLock must equal the
// lock state of the Percolator reference model in internal/perco after every
// step.
package c19

import (
	"testing"

	"nokvverif/internal/pbt"
	"nokvverif/internal/perco"
	"pgregory.net/rapid"
)

func TestMain(m *testing.M) { pbt.RunMain(m) }

func gen(t *rapid.T) perco.GCase {
	return perco.Generate(t, perco.Profile{MaxSteps: 26, WRead: 2, WMaint: 7, WDup: 2, WCheck: 5, WPartial: 2, HotKey: true, Excl: perco.OpenExclusions()})
}

func run(c perco.GCase, r *pbt.Rec) error {
	r.Excluded(c.Excl)
	return perco.Execute(c.Case, r, 19)
}

func genPair(t *rapid.T) perco.PCase {
	return perco.GeneratePair(t, perco.Profile{MaxSteps: 14, WRead: 1, WMaint: 2, WDup: 1, WCheck: 3, WPartial: 1, Excl: perco.OpenExclusions()})
}

func runPair(c perco.PCase, r *pbt.Rec) error {
	r.Excluded(c.Excl)
	return perco.ExecutePair(c, r, 19)
}

func TestCheck(t *testing.T) {
	s := &pbt.Suite{ID: "C19", Level: "exploration",
		Rule: "Histories over 1-2 hot keys: locks are set (prewrite) and removed (commit, rollback, resolve, TTL expiry) repeatedly by up to 5 transactions, with flush / L0->ingest move / ingest merge / ingest drain / picker steps anywhere (about one step in four), CheckTxnStatus with CurrentTs in {ts+ttl-1, ts+ttl, ts+ttl+1, now, 0}, ttl in {0,1,2,3,4,6,40}, CallerStartTs around the pending commit version, MinCommitTs from the prewrite in {0,start+1,start+2,start+3,start+4}. Oracles after every step (including maintenance): Reader.GetLock(k) (owner, primary, ttl, kind, min commit ts) equals the model lock for every key and the lock CF seen through the internal iterator agrees; CheckTxnStatus answers TTLExpireRollback iff the primary lock belongs to the transaction, ttl!=0 and current>=ts+ttl; Commit/ResolveLock-commit below the lock's min commit ts is refused with CommitTsExpired, at/above it succeeds; prewrite on a key locked by another transaction is refused. Partial requests: a hotlimit step sets Options.WriteHotKeyLimit so that a Commit is refused between its two engine writes (commit record written, lock removal refused with ErrHotKeyWriteThrottle, response Retryable) and lifts it again; after a Retryable response the model re-reads lock and write records of the touched keys from the store and every later request (rollback / resolve / check-txn-status / re-applied commit on the leftover lock) is judged against that state. Non-trivial = a lock was set and flushed, removed later and the removal flushed into a different SST than the lock; Spec parked (concurrent pair): after a sequential prefix two requests A,B (CheckTxnStatus with a min-commit-ts push, Prewrite, Commit, ResolveLock, BatchRollback; usually on a currently locked common key, 10% on disjoint keys) are run through the percolator package functions: the harness holds the latches of the keys of A on the shared latch.Manager, starts A (a correct A parks in Acquire before reading anything; observed through its goroutine stack), runs B to completion on a separate manager, releases, joins A. Oracle: responses of A and B and the final lock (owner, min commit ts) and committed write records must be explained by the reference model for order A;B or for order B;A. Non-trivial for this spec = A was observed parked and B changed the lock record of a key of A. distinct by case content.",
		Assumptions: []string{
			"parked spec: a request blocked in latch.Manager.Acquire has not read anything yet iff the implementation takes its latches before reading; the harness never judges by wall clock — if A neither parks nor returns within 3 s the pair is skipped (label pair:inconclusive-not-parked)",
			"a request answered with a Retryable key error took effect as a prefix of its engine writes; its response and partial effect are not judged (the model resynchronises from the store), all later requests are",
			"requests are applied one at a time (sequential raft apply)",
			"the min-commit-ts push of CheckTxnStatus (caller_start_ts+1) is part of the lock state the property speaks about ('the lock's minimum commit timestamp')",
			"rotation is always followed by waiting for the flush, so a step's effect does not depend on flush timing",
		},
	}
	pbt.Add(s, &pbt.Spec[perco.GCase]{Name: "locks", Gen: gen, Run: run, Quick: 800, Thorough: 36000, Shards: 16})
	pbt.Add(s, &pbt.Spec[perco.PCase]{Name: "parked", Gen: genPair, Run: runPair, Quick: 480, Thorough: 12000, Shards: 16})
	s.Main(t)
}
