// C26 — PD routes every key to the unique region containing it.
//
// The real pd/server.Service (over the real pd/core.Cluster and a real
// pd/storage.LocalStore in a tmpfs work directory) is driven with generated
// sequences of RegionHeartbeat / RemoveRegion / GetRegionByKey / restart and
// compared, step by step, with a reference model `map id -> (range, epoch, peers)`:
//
//   - an ACCEPTED heartbeat must have been neither epoch-stale nor overlapping
//     another model region (one direction only, exactly as the statement says);
//   - a REJECTED heartbeat must leave every lookup unchanged;
//   - a lookup returns exactly the unique model region whose [start,end) contains
//     the key, or not-found;
//   - after a restart (OpenLocalStore + Load + restorePDRegions, the calls
//     cmd/nokv/pd.go makes) the loaded catalog equals the model and every lookup
//     answers as before.
//
// After every mutating step the whole probe grid (every boundary, its
// predecessor and successor, the empty key, keys outside everything) is looked
// up, so "state unchanged" and "moved boundary" are checked without relying on
// the generator to draw the right lookup.
package c26

import (
	"context"
	"fmt"
	"slices"
	"sort"
	"testing"

	"github.com/feichai0017/NoKV/manifest"
	"github.com/feichai0017/NoKV/pb"
	"github.com/feichai0017/NoKV/pd/core"
	pdserver "github.com/feichai0017/NoKV/pd/server"
	pdstorage "github.com/feichai0017/NoKV/pd/storage"
	"github.com/feichai0017/NoKV/pd/tso"
	"google.golang.org/grpc/codes"
	"google.golang.org/grpc/status"
	"nokvverif/internal/pbt"
	"pgregory.net/rapid"
)

func TestMain(m *testing.M) { pbt.RunMain(m) }

// findingDegenerate is the id of the known-findings entry for inverted / empty
// ranges (non-empty EndKey <= StartKey).  While it is listed open the generators
// only draw proper ranges (start < end, or an unbounded end).
const (
	findingDegenerate    = "C26-degenerate-range"     // inverted range hides a region
	findingDegenerateTie = "C26-degenerate-range-tie" // empty range with the same start wins the index tie-break
)

// degenerateOpen: is either manifestation still listed as open?
func degenerateOpen() bool { return pbt.Open(findingDegenerate) || pbt.Open(findingDegenerateTie) }

// ---------------------------------------------------------------- case

// Op is one step.  Keys are ASCII strings (0x00..0x7f) so that the JSON case
// file round-trips byte-exactly; "" as Start/End means unbounded.
type Op struct {
	Kind  string      `json:"k"` // hb | rm | get | restart
	ID    uint64      `json:"id,omitempty"`
	Start string      `json:"s,omitempty"`
	End   string      `json:"e,omitempty"`
	Ver   uint64      `json:"v,omitempty"`
	Conf  uint64      `json:"c,omitempty"`
	Peers [][2]uint64 `json:"p,omitempty"` // store, peer
	Key   string      `json:"key,omitempty"`
	Kill  bool        `json:"kill,omitempty"` // restart without closing the old store first
}

type Case struct {
	Ops     []Op `json:"ops"`
	NoStore bool `json:"nostore,omitempty"` // service without persistence (static enumeration); restart not allowed
	Excl    int  `json:"excl,omitempty"`    // draws steered away from an open known finding
}

// boundaries used for range ends; "" = unbounded.
var grid = []string{"", "b", "d", "d\x00", "dd", "f", "h"}

// probes: every boundary, just before it, just after it, plus keys outside.
var probes = func() []string {
	set := map[string]bool{"": true, "\x00": true, "a": true, "z": true, "\x7f\x7f": true}
	for _, b := range grid {
		if b == "" {
			continue
		}
		set[b] = true
		set[b+"\x00"] = true
		last := b[len(b)-1]
		if last > 0 {
			set[b[:len(b)-1]+string(rune(last-1))+"\x7f"] = true
		} else {
			set[b[:len(b)-1]] = true
		}
	}
	out := make([]string, 0, len(set))
	for k := range set {
		out = append(out, k)
	}
	sort.Strings(out)
	return out
}()

// ---------------------------------------------------------------- model

type region struct {
	id         uint64
	start, end string
	ver, conf  uint64
	peers      [][2]uint64
}

func (r region) String() string {
	return fmt.Sprintf("{id=%d [%q,%q) ver=%d conf=%d peers=%v}", r.id, r.start, r.end, r.ver, r.conf, r.peers)
}

// contains: start <= k and (end unbounded or k < end).
func (r region) contains(k string) bool {
	if k < r.start {
		return false
	}
	return r.end == "" || k < r.end
}

// degenerate: the range holds no key at all.
func degenerate(start, end string) bool { return end != "" && end <= start }

// overlap in the set sense: some key lies in both ranges.
func overlap(a, b region) bool {
	if degenerate(a.start, a.end) || degenerate(b.start, b.end) {
		return false
	}
	lo := a.start
	if b.start > lo {
		lo = b.start
	}
	// lo is in both iff lo < a.end and lo < b.end
	return (a.end == "" || lo < a.end) && (b.end == "" || lo < b.end)
}

// stale: the incoming epoch is older than the stored one, (Version, ConfVersion)
// compared lexicographically (pd/core/cluster.go documents this order).
func stale(inV, inC, curV, curC uint64) bool {
	return inV < curV || (inV == curV && inC < curC)
}

type model map[uint64]region

func (m model) lookup(k string) (region, int) {
	var hit region
	n := 0
	ids := make([]uint64, 0, len(m))
	for id := range m {
		ids = append(ids, id)
	}
	slices.Sort(ids)
	for _, id := range ids {
		if m[id].contains(k) {
			if n == 0 {
				hit = m[id]
			}
			n++
		}
	}
	return hit, n
}

// ---------------------------------------------------------------- system under test

type pd struct {
	dir     string
	store   *pdstorage.LocalStore
	cluster *core.Cluster
	svc     *pdserver.Service
}

// restorePDRegions is a transcription of cmd/nokv/pd.go:restorePDRegions
// (package main, cannot be imported).
func restorePDRegions(cluster *core.Cluster, snapshot map[uint64]manifest.RegionMeta) (int, error) {
	if cluster == nil || len(snapshot) == 0 {
		return 0, nil
	}
	ids := make([]uint64, 0, len(snapshot))
	for id := range snapshot {
		if id == 0 {
			continue
		}
		ids = append(ids, id)
	}
	slices.Sort(ids)
	loaded := 0
	for _, id := range ids {
		meta := snapshot[id]
		if meta.ID == 0 {
			continue
		}
		if err := cluster.UpsertRegionHeartbeat(meta); err != nil {
			return loaded, err
		}
		loaded++
	}
	return loaded, nil
}

// boot performs the start-up sequence of cmd/nokv/pd.go:runPDCmd for --workdir.
func boot(dir string) (*pd, pdstorage.Snapshot, error) {
	cluster := core.NewCluster()
	localStore, err := pdstorage.OpenLocalStore(dir, nil)
	if err != nil {
		return nil, pdstorage.Snapshot{}, fmt.Errorf("open storage: %w", err)
	}
	snapshot, err := localStore.Load()
	if err != nil {
		_ = localStore.Close()
		return nil, pdstorage.Snapshot{}, fmt.Errorf("load snapshot: %w", err)
	}
	idStart, tsStart := pdstorage.ResolveAllocatorStarts(1, 1, snapshot.Allocator)
	if _, err := restorePDRegions(cluster, snapshot.Regions); err != nil {
		_ = localStore.Close()
		return nil, snapshot, fmt.Errorf("restore regions: %w", err)
	}
	svc := pdserver.NewService(cluster, core.NewIDAllocator(idStart), tso.NewAllocator(tsStart))
	svc.SetStorage(localStore)
	return &pd{dir: dir, store: localStore, cluster: cluster, svc: svc}, snapshot, nil
}

func fromPB(m *pb.RegionMeta) region {
	r := region{id: m.GetId(), start: string(m.GetStartKey()), end: string(m.GetEndKey()),
		ver: m.GetEpochVersion(), conf: m.GetEpochConfVersion()}
	for _, p := range m.GetPeers() {
		r.peers = append(r.peers, [2]uint64{p.GetStoreId(), p.GetPeerId()})
	}
	return r
}

func fromManifest(m manifest.RegionMeta) region {
	r := region{id: m.ID, start: string(m.StartKey), end: string(m.EndKey), ver: m.Epoch.Version, conf: m.Epoch.ConfVersion}
	for _, p := range m.Peers {
		r.peers = append(r.peers, [2]uint64{p.StoreID, p.PeerID})
	}
	return r
}

func sameRegion(a, b region) bool {
	return a.id == b.id && a.start == b.start && a.end == b.end && a.ver == b.ver && a.conf == b.conf &&
		slices.Equal(a.peers, b.peers)
}

// ---------------------------------------------------------------- run

func run(c Case, r *pbt.Rec) error {
	r.Excluded(c.Excl)
	ctx := context.Background()
	var p *pd
	if c.NoStore {
		cl := core.NewCluster()
		p = &pd{cluster: cl, svc: pdserver.NewService(cl, nil, nil)}
	} else {
		dir, cleanup := pbt.TempDir("c26")
		defer cleanup()
		var err error
		p, _, err = boot(dir)
		if err != nil {
			return pbt.Failf("harness", "first boot failed: %v", err)
		}
		defer func() { _ = p.store.Close() }() // p is rebound on restart: closes the last incarnation
	}
	m := model{}

	lookup := func(k string, when string) error {
		resp, err := p.svc.GetRegionByKey(ctx, &pb.GetRegionByKeyRequest{Key: []byte(k)})
		if err != nil {
			return pbt.Failf("lookup-error", "%s: GetRegionByKey(%q) returned error %v", when, k, err)
		}
		want, n := m.lookup(k)
		if n > 1 {
			// cannot happen: an accepted overlapping heartbeat is reported when it is accepted
			return pbt.Failf("harness", "%s: model holds %d regions containing %q", when, n, k)
		}
		if n == 0 {
			if !resp.GetNotFound() || resp.GetRegion() != nil {
				return pbt.Failf("lookup-phantom", "%s: GetRegionByKey(%q) returned %v but no known region contains the key; known=%v",
					when, k, fromPB(resp.GetRegion()), m.list())
			}
			return nil
		}
		if resp.GetNotFound() || resp.GetRegion() == nil {
			return pbt.Failf("lookup-miss", "%s: GetRegionByKey(%q) = not found, but known region %v contains the key; known=%v",
				when, k, want, m.list())
		}
		if got := fromPB(resp.GetRegion()); !sameRegion(got, want) {
			return pbt.Failf("lookup-wrong", "%s: GetRegionByKey(%q) = %v, want %v; known=%v", when, k, got, want, m.list())
		}
		return nil
	}
	sweep := func(when string) error {
		for _, k := range probes {
			if err := lookup(k, when); err != nil {
				return err
			}
		}
		return nil
	}

	rangeChanged, restarts, removedLive, maxRegions := false, 0, false, 0
	for i, op := range c.Ops {
		maxRegions = max(maxRegions, len(m))
		when := fmt.Sprintf("step %d %s", i, describe(op))
		switch op.Kind {
		case "hb":
			in := region{id: op.ID, start: op.Start, end: op.End, ver: op.Ver, conf: op.Conf, peers: op.Peers}
			req := &pb.RegionHeartbeatRequest{Region: &pb.RegionMeta{Id: op.ID, StartKey: []byte(op.Start), EndKey: []byte(op.End),
				EpochVersion: op.Ver, EpochConfVersion: op.Conf}}
			for _, pr := range op.Peers {
				req.Region.Peers = append(req.Region.Peers, &pb.RegionPeer{StoreId: pr[0], PeerId: pr[1]})
			}
			resp, err := p.svc.RegionHeartbeat(ctx, req)
			cur, exists := m[op.ID]
			isStale := exists && stale(op.Ver, op.Conf, cur.ver, cur.conf)
			var overlaps []region
			for id, o := range m {
				if id != op.ID && overlap(in, o) {
					overlaps = append(overlaps, o)
				}
			}
			if degenerate(op.Start, op.End) {
				r.Label("hb-degenerate-range")
			}
			if err == nil && resp.GetAccepted() {
				switch {
				case op.ID == 0:
					return pbt.Failf("accepted-id0", "%s: heartbeat with region id 0 was accepted", when)
				case isStale:
					return pbt.Failf("accepted-stale", "%s: accepted although epoch-stale against known %v", when, cur)
				case len(overlaps) > 0:
					return pbt.Failf("accepted-overlap", "%s: accepted although it overlaps known region %v", when, overlaps[0])
				}
				if exists {
					if cur.start != in.start || cur.end != in.end {
						rangeChanged = true
						r.Label("hb-accepted-range-change")
					} else {
						r.Label("hb-accepted-refresh")
					}
				} else {
					r.Label("hb-accepted-new")
				}
				m[op.ID] = in
			} else {
				if err == nil {
					return pbt.Failf("hb-nonaccept-noerror", "%s: no error but Accepted=false", when)
				}
				code := status.Code(err)
				switch {
				case op.ID == 0 && code == codes.InvalidArgument:
					r.Label("hb-rejected-id0")
				case code == codes.FailedPrecondition && isStale:
					r.Label("hb-rejected-stale")
				case code == codes.FailedPrecondition && len(overlaps) > 0:
					r.Label("hb-rejected-overlap")
				case code == codes.FailedPrecondition || code == codes.InvalidArgument:
					// not judged: the statement only constrains acceptance
					r.Label("hb-rejected-other")
				default:
					return pbt.Failf("hb-internal-error", "%s: heartbeat failed with %v", when, err)
				}
			}
			if err := sweep("after " + when); err != nil {
				return err
			}
		case "rm":
			_, had := m[op.ID]
			_, err := p.svc.RemoveRegion(ctx, &pb.RemoveRegionRequest{RegionId: op.ID})
			if err != nil {
				if op.ID == 0 && status.Code(err) == codes.InvalidArgument {
					r.Label("rm-id0")
				} else {
					return pbt.Failf("rm-error", "%s: RemoveRegion failed: %v", when, err)
				}
			} else {
				if had {
					removedLive = true
					r.Label("rm-known")
				} else {
					r.Label("rm-unknown")
				}
				delete(m, op.ID)
			}
			if err := sweep("after " + when); err != nil {
				return err
			}
		case "get":
			if _, n := m.lookup(op.Key); n > 0 {
				r.Label("get-hit")
			} else {
				r.Label("get-miss")
			}
			if err := lookup(op.Key, when); err != nil {
				return err
			}
		case "restart":
			if c.NoStore {
				return pbt.Failf("harness", "restart in a NoStore case")
			}
			old := p.store
			if !op.Kill {
				if err := old.Close(); err != nil {
					return pbt.Failf("harness", "%s: close store: %v", when, err)
				}
			}
			np, snap, err := boot(p.dir)
			if op.Kill {
				_ = old.Close()
			}
			if err != nil {
				return pbt.Failf("restart-failed", "%s: PD does not come back: %v; known=%v", when, err, m.list())
			}
			p = np
			restarts++
			if op.Kill {
				r.Label("restart-kill")
			} else {
				r.Label("restart-clean")
			}
			// the catalog reloads identically
			if len(snap.Regions) != len(m) {
				return pbt.Failf("reload-differs", "%s: reloaded catalog has %d regions, expected %d; loaded=%v known=%v",
					when, len(snap.Regions), len(m), snapList(snap.Regions), m.list())
			}
			for id, want := range m {
				got, ok := snap.Regions[id]
				if !ok || !sameRegion(fromManifest(got), want) {
					return pbt.Failf("reload-differs", "%s: reloaded region %d = %v (present=%v), expected %v", when, id, fromManifest(got), ok, want)
				}
			}
			if err := sweep("after " + when); err != nil {
				return err
			}
		default:
			return pbt.Failf("harness", "unknown op %q", op.Kind)
		}
	}
	if len(m) >= 2 {
		r.Label("final-regions>=2")
	}
	if maxRegions >= 3 {
		r.Label("regions>=3-at-once")
	}
	if rangeChanged {
		// the sweep after the accepting step looked up the old and the new boundary
		r.NT()
	}
	if rangeChanged && restarts > 0 {
		r.Label("range-change+restart")
	}
	if removedLive && restarts > 0 {
		r.Label("remove+restart")
	}
	return nil
}

func (m model) list() []string {
	ids := make([]uint64, 0, len(m))
	for id := range m {
		ids = append(ids, id)
	}
	slices.Sort(ids)
	out := make([]string, 0, len(ids))
	for _, id := range ids {
		out = append(out, m[id].String())
	}
	return out
}

func snapList(s map[uint64]manifest.RegionMeta) []string {
	mm := model{}
	for id, v := range s {
		mm[id] = fromManifest(v)
	}
	return mm.list()
}

func describe(op Op) string {
	switch op.Kind {
	case "hb":
		return fmt.Sprintf("heartbeat{id=%d [%q,%q) ver=%d conf=%d peers=%v}", op.ID, op.Start, op.End, op.Ver, op.Conf, op.Peers)
	case "rm":
		return fmt.Sprintf("remove{id=%d}", op.ID)
	case "get":
		return fmt.Sprintf("get{%q}", op.Key)
	case "restart":
		return fmt.Sprintf("restart{kill=%v}", op.Kill)
	}
	return op.Kind
}

// ---------------------------------------------------------------- generators

func genRange(t *rapid.T, c *Case) (string, string) {
	s := rapid.SampledFrom(grid).Draw(t, "start")
	e := rapid.SampledFrom(grid).Draw(t, "end")
	if degenerate(s, e) {
		open := degenerateOpen()
		if open {
			c.Excl++
		}
		// when the finding is not listed, keep a quarter of the degenerate draws
		if open || rapid.IntRange(0, 3).Draw(t, "keep-degenerate") != 2 {
			s, e = e, s // now s < e, or s == e (still degenerate)
			if s == e {
				e = ""
			}
		}
	}
	return s, e
}

func genSeq(t *rapid.T) Case {
	var c Case
	n := rapid.IntRange(2, 24).Draw(t, "n")
	ids := rapid.Uint64Range(1, 4)
	for i := 0; i < n; i++ {
		switch k := rapid.IntRange(0, 19).Draw(t, "kind"); {
		case k < 11:
			op := Op{Kind: "hb", ID: ids.Draw(t, "id"), Ver: rapid.Uint64Range(0, 3).Draw(t, "ver"), Conf: rapid.Uint64Range(0, 3).Draw(t, "conf")}
			if rapid.IntRange(0, 39).Draw(t, "id0") == 23 {
				op.ID = 0
			}
			op.Start, op.End = genRange(t, &c)
			np := rapid.IntRange(0, 2).Draw(t, "np")
			for j := 0; j < np; j++ {
				op.Peers = append(op.Peers, [2]uint64{rapid.Uint64Range(0, 3).Draw(t, "store"), rapid.Uint64Range(0, 9).Draw(t, "peer")})
			}
			c.Ops = append(c.Ops, op)
		case k < 14:
			op := Op{Kind: "rm", ID: ids.Draw(t, "id")}
			if rapid.IntRange(0, 29).Draw(t, "id0") == 17 {
				op.ID = 0
			}
			c.Ops = append(c.Ops, op)
			if rapid.Bool().Draw(t, "re-report") {
				// the removed region is reported again with exactly the descriptor sent last
				// (a store that has not heard of the removal yet), then PD may restart
				for j := len(c.Ops) - 2; j >= 0; j-- {
					if c.Ops[j].Kind == "hb" && c.Ops[j].ID == op.ID {
						c.Ops = append(c.Ops, c.Ops[j])
						if rapid.Bool().Draw(t, "re-report-restart") {
							c.Ops = append(c.Ops, Op{Kind: "restart", Kill: rapid.Bool().Draw(t, "kill2")})
						}
						break
					}
				}
			}
		case k < 17:
			var key string
			if rapid.Bool().Draw(t, "probe") {
				key = rapid.SampledFrom(probes).Draw(t, "key")
			} else {
				key = string(rapid.SliceOfN(rapid.SampledFrom([]byte{0, 'a', 'b', 'c', 'd', 'e', 'f', 'g', 'h', 'i', 0x7f}), 0, 3).Draw(t, "rawkey"))
			}
			c.Ops = append(c.Ops, Op{Kind: "get", Key: key})
		default:
			c.Ops = append(c.Ops, Op{Kind: "restart", Kill: rapid.Bool().Draw(t, "kill")})
		}
	}
	return c
}

// enumerate: every ordered pair of heartbeats over ids {1,2}, every (start,end)
// of a reduced grid, epochs {0,1}x{0,1}, followed (implicitly) by the full probe
// sweep; service without persistence so that the whole domain runs in seconds.
func enumerate() []Case {
	small := []string{"", "b", "d", "d\x00", "f"}
	type hb struct {
		id        uint64
		s, e      string
		ver, conf uint64
	}
	var hbs []hb
	excl := 0
	for _, id := range []uint64{1, 2} {
		for _, s := range small {
			for _, e := range small {
				if degenerate(s, e) && degenerateOpen() {
					excl++
					continue
				}
				for _, v := range []uint64{0, 1} {
					for _, cf := range []uint64{0, 1} {
						hbs = append(hbs, hb{id, s, e, v, cf})
					}
				}
			}
		}
	}
	var out []Case
	for _, a := range hbs {
		if a.id != 1 {
			continue // first heartbeat wlog on id 1 (ids are symmetric up to the index tie-break, which the 2nd/3rd op covers)
		}
		for _, b := range hbs {
			c := Case{NoStore: true, Ops: []Op{
				{Kind: "hb", ID: a.id, Start: a.s, End: a.e, Ver: a.ver, Conf: a.conf},
				{Kind: "hb", ID: b.id, Start: b.s, End: b.e, Ver: b.ver, Conf: b.conf},
			}}
			out = append(out, c)
		}
	}
	// and the mirrored id assignment for the first heartbeat with a fixed epoch
	for _, a := range hbs {
		if a.id != 2 || a.ver != 0 || a.conf != 0 {
			continue
		}
		for _, b := range hbs {
			if b.ver != 0 || b.conf != 0 {
				continue
			}
			out = append(out, Case{NoStore: true, Ops: []Op{
				{Kind: "hb", ID: a.id, Start: a.s, End: a.e},
				{Kind: "hb", ID: b.id, Start: b.s, End: b.e},
			}})
		}
	}
	if len(out) > 0 {
		out[0].Excl = excl
	}
	return out
}

func TestCheck(t *testing.T) {
	s := &pbt.Suite{ID: "C26", Level: "exploration",
		Rule: "Non-trivial = a sequence in which an ACCEPTED heartbeat changes the range of an already known region " +
			"(the full probe sweep that follows every mutating step looks up the old and the new boundary, the key just before and just after each). " +
			"Distinct by case content. Oracle: reference model id->(range,epoch,peers); accepted => not stale (lexicographic (Version,ConfVersion)) and " +
			"no key shared with another known region; rejected => every probe lookup unchanged; lookup == unique model region containing the key or not-found; " +
			"after restart the loaded snapshot equals the model and all probe lookups agree.",
		Assumptions: []string{
			"epoch-stale means (Version, ConfVersion) lexicographically smaller than the stored epoch, as pd/core documents; a heartbeat with higher Version but lower ConfVersion is therefore not judged stale",
			"'overlap' is judged in the set sense (some key lies in both ranges); rejections are never judged (the statement is one-directional)",
			"restart = process restart on an intact file system (clean Close, or reopen before the old handle is closed); power-loss durability of the manifest is C09/C15 territory",
			"operations are sequential (the property quantifies over histories and inputs, not schedules)",
			"keys are ASCII (0x00..0x7f) so that case files round-trip; ranges come from a 7-point boundary grid including unbounded ends and prefix-related boundaries (d, d\\x00, dd)",
		},
	}
	// one spec: the static enumeration (heartbeat pairs) runs first, then the generated sequences
	pbt.Add(s, &pbt.Spec[Case]{Name: "seq", Gen: genSeq, Run: run, Static: enumerate, Quick: 60000, Thorough: 2000000, Shards: 8})
	s.Main(t)
}
