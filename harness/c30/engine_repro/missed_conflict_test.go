package engine_repro

import (
	"os"
	"testing"

	NoKV "github.com/feichai0017/NoKV"
	"github.com/feichai0017/NoKV/kv"
)

// Deterministic, single goroutine: a read-write transaction whose readTs equals the
// readMark's doneUntil is not protected against cleanupCommittedTransactions.
func TestMissedConflict(t *testing.T) {
	dir, _ := os.MkdirTemp("/dev/shm", "detscratch")
	defer os.RemoveAll(dir)
	opt := NoKV.NewDefaultOptions()
	opt.WorkDir = dir
	opt.DetectConflicts = true
	db := NoKV.Open(opt)
	defer db.Close()
	set := func(k, v string) {
		if err := db.Update(func(txn *NoKV.Txn) error { return txn.SetEntry(kv.NewEntry([]byte(k), []byte(v))) }); err != nil {
			t.Fatal(err)
		}
	}
	set("warm", "1") // commit ts 1
	t0 := db.NewTransaction(true)
	t0.Discard() // readMark.doneUntil reaches the current read timestamp
	b := db.NewTransaction(true)
	_, err := b.Get([]byte("k"))
	t.Logf("B readTs=%d Get(k) err=%v", b.ReadTs(), err)
	set("k", "A") // A commits k after B read it
	c := db.NewTransaction(true)
	t.Logf("C readTs=%d", c.ReadTs())
	c.Discard()
	set("other", "D") // any later commit runs cleanupCommittedTransactions
	if err := b.SetEntry(kv.NewEntry([]byte("k"), []byte("B"))); err != nil {
		t.Fatal(err)
	}
	err = b.Commit()
	t.Logf("B commit err=%v", err)
	if err == nil {
		t.Errorf("B read k (absent) at its snapshot, A committed k afterwards, yet B's commit succeeded: lost conflict")
	}
}
