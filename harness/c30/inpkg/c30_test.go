//go:build verifinpkg

// C30 — concurrent Redis clients never lose updates.
//
// Injected into package main of cmd/nokv-redis by ../run.sh (go -overlay).
// Unexported identifiers used: newServer, raftBackend{client, ts} (raft flavour);
// newEmbeddedBackend or main/listen/signalNotify (embedded flavour, see gw_*_test.go).
//
// A case is a set of per-connection scripts of INCR / DECR / INCRBY / DECRBY on one
// counter and SET k v NX on shared fresh keys.  Every connection is a real
// connection to the real gateway and runs its script free (request/response) in
// its own goroutine.  Oracle (the property statement):
//
//	final GET counter == initial + sum of the deltas of the commands that replied with an integer
//	for every NX key at most one SET .. NX replied +OK
//
// Replies that are errors (hot-key throttle, conflicts, lock timeouts) are simply
// "not successful".
package main

import (
	"bufio"
	"bytes"
	"fmt"
	"io"
	"log"
	"net"
	"sort"
	"strconv"
	"strings"
	"sync"
	"testing"
	"time"

	pbt "github.com/feichai0017/NoKV/cmd/nokv-redis/zzverifpbt"
	"pgregory.net/rapid"
)

func TestMain(m *testing.M) {
	log.SetOutput(io.Discard)
	pbt.RunMain(m)
}

// ------------------------------------------------------------ the case ----

type vfOp struct {
	Kind  string // INCR | DECR | INCRBY | DECRBY | SETNX
	Delta int64  `json:",omitempty"` // argument of INCRBY / DECRBY
	Key   int    `json:",omitempty"` // SETNX: index of the fresh key
	Ctr   int    `json:",omitempty"` // INCR family: index of the counter (0 = the shared one)
}

func vfCtrName(i int) string {
	if i == 0 {
		return "ctr"
	}
	return fmt.Sprintf("ctr%d", i)
}

type vfCase30 struct {
	Backend string // "embedded" | "raft"
	Initial string // initial counter value ("" = key absent)
	Conns   [][]vfOp
	// Rounds > 1: run the same scripts that many times (fresh database each) and fail on the
	// first failing round.  Used by committed replays, whose outcome depends on the schedule.
	Rounds int `json:",omitempty"`
	// Tomb: before the concurrent phase every counter and every NX key is written and deleted
	// again, so the keys are absent because of a tombstone, not because they never existed
	// (Initial must be ""); the expected results are the same as for fresh keys.
	Tomb bool `json:",omitempty"`
}

// effect is the change a successful op applies to the counter.
func (o vfOp) effect() int64 {
	switch o.Kind {
	case "INCR":
		return 1
	case "DECR":
		return -1
	case "INCRBY":
		return o.Delta
	case "DECRBY":
		return -o.Delta
	}
	return 0
}

// -------------------------------------------------------------- running ----

type vfOpResult struct {
	ok       bool   // reply was an integer (INCR family) / +OK (SETNX)
	reply    string // first line of the reply
	t0, t1   int64  // ns since start
	value    int64
	refused  bool // SETNX answered nil
	errReply bool
}

func vfCmdLine(o vfOp, conn, idx int) [][]byte {
	switch o.Kind {
	case "INCR", "DECR":
		return [][]byte{[]byte(o.Kind), []byte(vfCtrName(o.Ctr))}
	case "INCRBY", "DECRBY":
		return [][]byte{[]byte(o.Kind), []byte(vfCtrName(o.Ctr)), []byte(strconv.FormatInt(o.Delta, 10))}
	}
	return [][]byte{[]byte("SET"), []byte(fmt.Sprintf("nx%d", o.Key)), []byte(fmt.Sprintf("c%d-%d", conn, idx)), []byte("NX")}
}

func vfEncode(argv [][]byte) []byte {
	var b bytes.Buffer
	fmt.Fprintf(&b, "*%d\r\n", len(argv))
	for _, a := range argv {
		fmt.Fprintf(&b, "$%d\r\n", len(a))
		b.Write(a)
		b.WriteString("\r\n")
	}
	return b.Bytes()
}

// vfRoundTrip sends one command and reads a one-element reply (+, -, :, $).
func vfRoundTrip(cn net.Conn, rd *bufio.Reader, argv [][]byte) (string, []byte, error) {
	if _, err := cn.Write(vfEncode(argv)); err != nil {
		return "", nil, err
	}
	line, err := rd.ReadString('\n')
	if err != nil {
		return "", nil, err
	}
	line = strings.TrimRight(line, "\r\n")
	if strings.HasPrefix(line, "$") {
		n, err := strconv.Atoi(line[1:])
		if err != nil {
			return line, nil, fmt.Errorf("bad bulk header %q", line)
		}
		if n < 0 {
			return line, nil, nil
		}
		buf := make([]byte, n+2)
		if _, err := io.ReadFull(rd, buf); err != nil {
			return line, nil, err
		}
		return line, buf[:n], nil
	}
	return line, nil, nil
}

func vfRun30(c vfCase30, r *pbt.Rec) error {
	for round := 1; round < c.Rounds; round++ {
		if err := vfRun30Once(c, &pbt.Rec{}); err != nil {
			return err
		}
	}
	return vfRun30Once(c, r)
}

func vfRun30Once(c vfCase30, r *pbt.Rec) error {
	dir, clean := pbt.TempDir("c30")
	defer clean()
	var (
		path string
		stop func()
		herr error
	)
	flavour := c.Backend
	switch c.Backend {
	case "raft":
		path, stop, herr = vfStartRaft(dir)
	default:
		path, stop, herr = vfStartEmbedded(dir)
		flavour = "embedded/" + vfGatewayFlavour
	}
	if herr != nil {
		return fmt.Errorf("harness: %v", herr)
	}
	var (
		cmu   sync.Mutex
		conns []net.Conn
	)
	defer func() {
		for _, cn := range conns {
			_ = cn.Close()
		}
		stop()
	}()
	dial := func() (net.Conn, *bufio.Reader, error) {
		cn, err := net.Dial("unix", path)
		if err != nil {
			return nil, nil, err
		}
		cmu.Lock()
		conns = append(conns, cn)
		cmu.Unlock()
		_ = cn.SetDeadline(time.Now().Add(120 * time.Second))
		return cn, bufio.NewReader(cn), nil
	}
	r.Label("backend:" + c.Backend)

	// initial value
	var initial int64
	setup, srd, herr := dial()
	if herr != nil {
		return fmt.Errorf("harness: dial: %v", herr)
	}
	ctrs := map[int]bool{}
	for _, ops := range c.Conns {
		for _, o := range ops {
			if o.Kind != "SETNX" {
				ctrs[o.Ctr] = true
			}
		}
	}
	var ctrList []int
	for k := range ctrs {
		ctrList = append(ctrList, k)
	}
	sort.Ints(ctrList)
	if c.Initial != "" {
		n, err := strconv.ParseInt(c.Initial, 10, 64)
		if err != nil {
			return fmt.Errorf("harness: bad initial value %q", c.Initial)
		}
		initial = n
		for _, k := range ctrList {
			line, _, err := vfRoundTrip(setup, srd, [][]byte{[]byte("SET"), []byte(vfCtrName(k)), []byte(c.Initial)})
			if err != nil || line != "+OK" {
				return pbt.Failf("setup", "SET %s %s before the concurrent phase: %q %v", vfCtrName(k), c.Initial, line, err)
			}
		}
	}

	if c.Tomb && c.Initial == "" {
		var names []string
		for _, k := range ctrList {
			names = append(names, vfCtrName(k))
		}
		seenNX := map[int]bool{}
		for _, ops := range c.Conns {
			for _, o := range ops {
				if o.Kind == "SETNX" && !seenNX[o.Key] {
					seenNX[o.Key] = true
					names = append(names, fmt.Sprintf("nx%d", o.Key))
				}
			}
		}
		for _, n := range names {
			if line, _, err := vfRoundTrip(setup, srd, [][]byte{[]byte("SET"), []byte(n), []byte("7")}); err != nil || line != "+OK" {
				return pbt.Failf("setup", "SET %s 7 before the concurrent phase: %q %v", n, line, err)
			}
			if line, _, err := vfRoundTrip(setup, srd, [][]byte{[]byte("DEL"), []byte(n)}); err != nil || line != ":1" {
				return pbt.Failf("setup", "DEL %s before the concurrent phase: %q %v", n, line, err)
			}
		}
		r.Label("setup:keys-deleted-before")
	}

	// concurrent phase
	results := make([][]vfOpResult, len(c.Conns))
	type cc struct {
		cn net.Conn
		rd *bufio.Reader
	}
	ccs := make([]cc, len(c.Conns))
	for i := range c.Conns {
		cn, rd, err := dial()
		if err != nil {
			return fmt.Errorf("harness: dial: %v", err)
		}
		ccs[i] = cc{cn, rd}
		results[i] = make([]vfOpResult, len(c.Conns[i]))
	}
	start := make(chan struct{})
	t0 := time.Now()
	var wg sync.WaitGroup
	ioErr := make([]error, len(c.Conns))
	for i := range c.Conns {
		wg.Add(1)
		go func(i int) {
			defer wg.Done()
			<-start
			for j, op := range c.Conns[i] {
				res := &results[i][j]
				res.t0 = int64(time.Since(t0))
				line, _, err := vfRoundTrip(ccs[i].cn, ccs[i].rd, vfCmdLine(op, i, j))
				res.t1 = int64(time.Since(t0))
				if err != nil {
					ioErr[i] = fmt.Errorf("conn %d op %d: %v", i, j, err)
					return
				}
				res.reply = line
				switch {
				case strings.HasPrefix(line, ":") && op.Kind != "SETNX":
					if v, perr := strconv.ParseInt(line[1:], 10, 64); perr == nil {
						res.ok, res.value = true, v
					}
				case line == "+OK" && op.Kind == "SETNX":
					res.ok = true
				case line == "$-1" && op.Kind == "SETNX":
					res.refused = true
				case strings.HasPrefix(line, "-"):
					res.errReply = true
				}
			}
		}(i)
	}
	close(start)
	wg.Wait()
	for _, e := range ioErr {
		if e != nil {
			// a reply that never came: the command may or may not have taken effect, the sum is undefined
			return pbt.Failf("io", "connection failed during the concurrent phase: %v", e)
		}
	}

	// final state over a fresh connection
	fin, frd, herr := dial()
	if herr != nil {
		return pbt.Failf("server-dead", "cannot connect after the concurrent phase: %v", herr)
	}
	type finalVal struct {
		line string
		val  []byte
	}
	finals := map[int]finalVal{}
	for _, k := range ctrList {
		line, val, err := vfRoundTrip(fin, frd, [][]byte{[]byte("GET"), []byte(vfCtrName(k))})
		if err != nil {
			return pbt.Failf("io", "final GET %s: %v", vfCtrName(k), err)
		}
		finals[k] = finalVal{line, val}
	}

	// ---- oracle
	sums := map[int]int64{}
	oks := map[int]int{}
	okIncr, errIncr, otherIncr := 0, 0, 0
	perConn := make([]string, len(c.Conns))
	type iv struct {
		t0, t1 int64
		conn   int
	}
	var ivs []iv
	nxOK := map[int][]string{}
	nxTried := map[int]map[int]bool{}
	errTexts := map[string]int{}
	for i, ops := range c.Conns {
		var s int64
		n := 0
		for j, op := range ops {
			res := results[i][j]
			if op.Kind == "SETNX" {
				if nxTried[op.Key] == nil {
					nxTried[op.Key] = map[int]bool{}
				}
				nxTried[op.Key][i] = true
				if res.ok {
					nxOK[op.Key] = append(nxOK[op.Key], fmt.Sprintf("conn %d op %d [%.3f..%.3f ms]", i, j, float64(res.t0)/1e6, float64(res.t1)/1e6))
				} else if !res.refused {
					errTexts[res.reply]++
				}
				continue
			}
			switch {
			case res.ok:
				s += op.effect()
				sums[op.Ctr] += op.effect()
				oks[op.Ctr]++
				n++
				okIncr++
				ivs = append(ivs, iv{res.t0, res.t1, i})
			case res.errReply:
				errIncr++
				errTexts[res.reply]++
			default:
				otherIncr++
				errTexts[res.reply]++
			}
		}
		perConn[i] = fmt.Sprintf("conn %d: %d ops, %d successful INCR-family, delta sum %+d", i, len(ops), n, s)
	}
	r.LabelN("incr-ok", okIncr)
	r.LabelN("incr-error-reply", errIncr)
	overlap := false
	sort.Slice(ivs, func(a, b int) bool { return ivs[a].t0 < ivs[b].t0 })
	var maxEnd int64 = -1
	maxConn := -1
	for _, v := range ivs {
		if maxEnd >= 0 && v.t0 < maxEnd && v.conn != maxConn {
			overlap = true
			break
		}
		if v.t1 > maxEnd {
			maxEnd, maxConn = v.t1, v.conn
		}
	}
	var errSummary []string
	for k, v := range errTexts {
		errSummary = append(errSummary, fmt.Sprintf("%dx %q", v, k))
	}
	sort.Strings(errSummary)
	detail := func() string {
		return fmt.Sprintf("backend %s, %d connections, initial %q\n  %s\n  unsuccessful replies: %s",
			flavour, len(c.Conns), c.Initial, strings.Join(perConn, "\n  "), strings.Join(errSummary, ", "))
	}
	if otherIncr > 0 {
		return pbt.Failf("bad-reply", "%d INCR-family commands got a reply that is neither an integer nor an error\n%s", otherIncr, detail())
	}
	for k, winners := range nxOK {
		if len(winners) > 1 {
			return pbt.Failf("nx-double-ok:"+c.Backend, "SET nx%d .. NX on an absent key replied OK %d times (%s)\n%s", k, len(winners), strings.Join(winners, "; "), detail())
		}
	}
	for _, k := range ctrList {
		name, f := vfCtrName(k), finals[k]
		want := initial + sums[k]
		if oks[k] == 0 && c.Initial == "" {
			if f.line != "$-1" {
				return pbt.Failf("lost-update:"+c.Backend, "no INCR-family command on %s succeeded and it was absent, but GET %s = %q %q\n%s", name, name, f.line, f.val, detail())
			}
			continue
		}
		got, perr := strconv.ParseInt(string(f.val), 10, 64)
		if f.val == nil || perr != nil {
			return pbt.Failf("lost-update:"+c.Backend, "final GET %s = %q %q, expected %d\n%s", name, f.line, f.val, want, detail())
		}
		if got != want {
			return pbt.Failf("lost-update:"+c.Backend, "final GET %s = %d, but initial %d + deltas of the %d successful INCR-family replies on it = %d (difference %+d)\n%s",
				name, got, initial, oks[k], want, got-want, detail())
		}
	}
	if len(ctrList) > 1 {
		r.Label("several-counters")
	} else if len(ctrList) == 1 {
		r.Label("shared-counter")
	}
	for k, by := range nxTried {
		if len(by) >= 2 {
			r.Label("nx-key-contended")
		}
		if len(nxOK[k]) == 1 {
			r.Label("nx-one-winner")
		}
	}
	if overlap {
		r.Label("overlapping-successes")
		r.NT()
	}
	return nil
}

// ------------------------------------------------------------ generator ----

func vfGen30For(backend string) func(t *rapid.T) vfCase30 {
	return func(t *rapid.T) vfCase30 {
		c := vfCase30{Backend: backend}
		c.Initial = rapid.SampledFrom([]string{"", "0", "100", "-5", "1000000"}).Draw(t, "initial")
		nc := rapid.IntRange(4, 8).Draw(t, "conns")
		nkeys := rapid.IntRange(1, 4).Draw(t, "nx-keys")
		perConn := rapid.IntRange(8, 24).Draw(t, "ops-per-conn")
		// 1-3 counters shared by all connections: conflict history of one key must survive commits on the others
		nctr := rapid.SampledFrom([]int{1, 1, 2, 3}).Draw(t, "counters")
		if c.Initial == "" {
			c.Tomb = rapid.Bool().Draw(t, "tomb")
		}
		for i := 0; i < nc; i++ {
			var ops []vfOp
			for j := 0; j < perConn; j++ {
				ctr := 0
				if nctr > 1 {
					ctr = rapid.IntRange(0, nctr-1).Draw(t, "ctr")
				}
				switch rapid.IntRange(0, 5).Draw(t, "kind") {
				case 0:
					ops = append(ops, vfOp{Kind: "INCR"})
				case 1:
					ops = append(ops, vfOp{Kind: "INCRBY", Delta: rapid.Int64Range(-50, 1000).Draw(t, "delta")})
				case 2:
					ops = append(ops, vfOp{Kind: "DECRBY", Delta: rapid.Int64Range(-50, 1000).Draw(t, "delta")})
				case 3:
					ops = append(ops, vfOp{Kind: "DECR"})
				case 4:
					ops = append(ops, vfOp{Kind: "SETNX", Key: rapid.IntRange(0, nkeys-1).Draw(t, "nx-key")})
				default:
					ops = append(ops, vfOp{Kind: "INCR"})
				}
				if last := &ops[len(ops)-1]; last.Kind != "SETNX" {
					last.Ctr = ctr
				}
			}
			c.Conns = append(c.Conns, ops)
		}
		return c
	}
}

// vfStatic30: shapes that maximise contention (all connections do the same thing).
func vfStatic30For(backend string) func() []vfCase30 {
	return func() []vfCase30 {
		mk := func(nc, n int, op vfOp, initial string) vfCase30 {
			c := vfCase30{Backend: backend, Initial: initial}
			for i := 0; i < nc; i++ {
				ops := make([]vfOp, n)
				for j := range ops {
					ops[j] = op
				}
				c.Conns = append(c.Conns, ops)
			}
			return c
		}
		var out []vfCase30
		if !pbt.Open("C30-lost-update-" + backend) {
			out = append(out, mk(8, 14, vfOp{Kind: "INCR"}, ""), mk(4, 25, vfOp{Kind: "INCRBY", Delta: 7}, "100"), mk(6, 16, vfOp{Kind: "DECRBY", Delta: 3}, "0"))
			// three hot counters, every connection cycling over them from a different start
			multi := mk(9, 24, vfOp{Kind: "INCR"}, "10")
			for i, ops := range multi.Conns {
				for j := range ops {
					ops[j].Ctr = (i + j) % 3
				}
			}
			out = append(out, multi)
		}
		if !pbt.Open("C30-nx-double-ok-" + backend) {
			nx := vfCase30{Backend: backend}
			for i := 0; i < 8; i++ {
				var ops []vfOp
				for k := 0; k < 12; k++ {
					ops = append(ops, vfOp{Kind: "SETNX", Key: k})
				}
				nx.Conns = append(nx.Conns, ops)
			}
			out = append(out, nx)
		}
		return out
	}
}

// While a finding is open its command family is left out of the generated scripts of
// that backend (the committed replay keeps reproducing it).
func vfGen30Filtered(backend string) func(t *rapid.T) vfCase30 {
	g := vfGen30For(backend)
	return func(t *rapid.T) vfCase30 {
		c := g(t)
		lost, nx := pbt.Open("C30-lost-update-"+backend), pbt.Open("C30-nx-double-ok-"+backend)
		if !lost && !nx {
			return c
		}
		for i, ops := range c.Conns {
			var keep []vfOp
			for _, o := range ops {
				if o.Kind == "SETNX" {
					if nx {
						// contended NX keys are the finding: give every connection its own keys
						o.Key = o.Key*16 + i
					}
					keep = append(keep, o)
					continue
				}
				if lost {
					// concurrent read-modify-write of ONE counter is the finding: every connection gets its own counter
					o.Ctr = i + 1
				}
				keep = append(keep, o)
			}
			if len(keep) == 0 {
				keep = []vfOp{{Kind: "SETNX", Key: 1000 + i}}
			}
			c.Conns[i] = keep
		}
		return c
	}
}

func vfRun30Counted(c vfCase30, r *pbt.Rec) error {
	if pbt.Open("C30-lost-update-" + c.Backend) {
		r.Excluded(1)
	}
	if pbt.Open("C30-nx-double-ok-" + c.Backend) {
		r.Excluded(1)
	}
	return vfRun30(c, r)
}

func TestCheck(t *testing.T) {
	s := &pbt.Suite{ID: "C30", Level: "exploration",
		Rule: "4-8 real connections to the real gateway, each running its own script (8-24 commands) of INCR / DECR / INCRBY d / DECRBY d on 1-3 counters shared by all connections and SET nx<i> v NX on 1-4 shared keys that are absent (never written, or written and deleted before the concurrent phase), " +
			"free-running in parallel goroutines (the schedule is the machine's, not the generator's). Backends: embedded (database opened as main() opens it) and raft (real raftBackend over the real raftstore/kv applier on a Percolator database, real PD TSO allocator, one region). " +
			"Oracle: final GET counter = initial + sum of deltas of the INCR-family commands that replied with an integer; per NX key at most one +OK. " +
			"Non-trivial = run in which two successful INCR-family commands of different connections overlapped in time (harness timestamps around request/reply).",
		Assumptions: []string{
			"error replies (hot-key throttle, conflict, lock/timeout errors) count as not successful, whatever their reason",
			"raft flavour: single region; write commands are applied one at a time like the region's apply loop, reads run concurrently (as store.ReadCommand does); no message loss or leader change",
			"schedules are whatever 4-8 free-running goroutines produce on this machine; interleavings are sampled, not enumerated",
			"embedded gateway flavour: " + vfGatewayFlavour,
		},
	}
	for _, b := range []string{"embedded", "raft"} {
		pbt.Add(s, &pbt.Spec[vfCase30]{Name: b, Gen: vfGen30Filtered(b), Run: vfRun30Counted, Static: vfStatic30For(b),
			Quick: 150, Thorough: 4000, Shards: 4, Nondet: true, Timeout: 12 * time.Minute})
	}
	s.Extra("embedded_gateway_flavour", vfGatewayFlavour)
	s.Main(t)
}
