//go:build verifinpkg && verifmainseam

// Gateway launcher, preferred flavour: runs the program's real main() in-process,
// exactly like cmd/nokv-redis/main_test.go does, so the database is opened with
// whatever options main() really constructs (a fix that changes them is picked
// up without touching the check).  Uses main()'s own test seams `listen` and
// `signalNotify`; if they disappear run.sh falls back to gw_replica_test.go.
package main

import (
	"flag"
	"fmt"
	"io"
	"net"
	"os"
	"path/filepath"
	"sync"
	"syscall"
)

const vfGatewayFlavour = "real-main()"

var vfMainMu sync.Mutex // main() uses process-global flags: one gateway at a time

func vfStartEmbedded(dir string) (string, func(), error) {
	vfMainMu.Lock()
	ln, err := net.Listen("unix", filepath.Join(dir, "s"))
	if err != nil {
		vfMainMu.Unlock()
		return "", nil, err
	}
	origArgs, origFlags := os.Args, flag.CommandLine
	origListen, origNotify := listen, signalNotify
	flag.CommandLine = flag.NewFlagSet("nokv-redis", flag.ContinueOnError)
	flag.CommandLine.SetOutput(io.Discard)
	os.Args = []string{"nokv-redis", "-workdir", filepath.Join(dir, "db"), "-addr", "verif-unix-socket"}
	listen = func(network, address string) (net.Listener, error) { return ln, nil }
	sigReady := make(chan chan<- os.Signal, 1)
	signalNotify = func(ch chan<- os.Signal, _ ...os.Signal) { sigReady <- ch }
	done := make(chan any, 1)
	go func() {
		defer func() { done <- recover() }()
		main()
	}()
	restore := func() {
		os.Args, flag.CommandLine = origArgs, origFlags
		listen, signalNotify = origListen, origNotify
		vfMainMu.Unlock()
	}
	var sigCh chan<- os.Signal
	select {
	case sigCh = <-sigReady:
	case p := <-done:
		_ = ln.Close()
		restore()
		return "", nil, fmt.Errorf("main() returned before serving (panic=%v)", p)
	}
	stop := func() {
		devnull, _ := os.OpenFile(os.DevNull, os.O_WRONLY, 0)
		origStdout := os.Stdout
		if devnull != nil {
			os.Stdout = devnull // main() prints "bye"
		}
		sigCh <- syscall.SIGTERM
		p := <-done
		os.Stdout = origStdout
		if devnull != nil {
			_ = devnull.Close()
		}
		restore()
		if p != nil {
			panic(p)
		}
	}
	return ln.Addr().String(), stop, nil
}
