#!/usr/bin/env bash
# Thorough tier only: a second pass of the same specs under the race detector.  The
# instrumentation changes the timing of every memory access, so the connections
# interleave differently from the first pass; race reports themselves are not part of
# the property and are only counted.
[ "${VERIF_TIER:-quick}" = "thorough" ] || exit 0
[ -n "${VERIF_POST:-}" ] && exit 0
echo "--- C30 thorough: second pass under the race detector"
tag="/dev/shm/verif-c30-race.$$"
VERIF_POST=1 VERIF_RACE=1 GORACE="exitcode=0 log_path=$tag" VERIF_CASES="${VERIF_RACE_CASES:-400}" \
  VERIF_EVIDENCE="$tag.evidence.json" "$(dirname "$0")/run.sh" "$1"
rc=$?
n=$(ls "$tag".[0-9]* 2>/dev/null | wc -l)
echo "note: the race detector wrote $n report file(s) (not judged)"
rm -f "$tag"*
exit $rc
