package c37

import (
	"bytes"
	"encoding/json"
	"fmt"
	"os"
	"os/exec"
	"path/filepath"
	"regexp"
	"strconv"
	"strings"

	"nokvverif/internal/pbt"
	"pgregory.net/rapid"
)

// RaceCase re-runs the search phase of this check in a child `go test -race` process
// (thorough tier only).
type RaceCase struct {
	Cases int   `json:"cases"`
	Seed  int64 `json:"seed"`
}

func raceCases() []RaceCase {
	n := 500
	if v, err := strconv.Atoi(os.Getenv("VERIF_RACE_CASES")); err == nil && v > 0 {
		n = v // smoke tests
	}
	return []RaceCase{{Cases: n, Seed: pbt.Seed()*7 + 1}, {Cases: n, Seed: pbt.Seed()*7 + 2}}
}

// genRace only exists so that a VERIF_CASES override does not leave this static spec with
// "requested but not executed" cases; the drawn placeholder does nothing.
func genRace(t *rapid.T) RaceCase { return RaceCase{} }

var knownRaces = []struct {
	id   string
	subs []string
}{
	{"C37-write-panic-closed", []string{"kv.(*Entry).DecrRef", "kv.(*Entry).reset", "NoKV.(*request).DecrRef"}},
	{"C37-read-during-close", []string{"utils.(*Closer).Close", "lsm.(*LSM).Close", "NoKV.(*DB).closeInternal"}},
	{"C34-read-during-close", []string{"utils.(*Closer).Close", "lsm.(*LSM).Close", "NoKV.(*DB).closeInternal"}},
}

var childViolation = regexp.MustCompile(`(?m)^VIOLATION property=\S+ replay=(\S+)`)

// runRace: same construction as in c34 (each check is self-contained).
func runRace(c RaceCase, r *pbt.Rec) error {
	if c.Cases == 0 {
		return nil // placeholder drawn by genRace when VERIF_CASES overrides the (zero) case count of this spec
	}
	tmp, clean := pbt.TempDir("c37race")
	defer clean()
	args := []string{"test"}
	if mf := os.Getenv("VERIF_MODFLAG"); mf != "" {
		args = append(args, strings.Fields(mf)...)
	}
	args = append(args, "-race", "-tags", "verif", "-count=1", "-timeout", "25m", "-run", "^TestCheck$", "-v", ".")
	cmd := exec.Command("go", args...)
	cmd.Dir = "."
	env := []string{}
	for _, e := range os.Environ() {
		if strings.HasPrefix(e, "VERIF_CHILD=") || strings.HasPrefix(e, "VERIF_REPLAY=") || strings.HasPrefix(e, "VERIF_TIER=") ||
			strings.HasPrefix(e, "VERIF_CASES=") || strings.HasPrefix(e, "VERIF_SEED=") || strings.HasPrefix(e, "VERIF_SPEC=") || strings.HasPrefix(e, "VERIF_EVIDENCE=") ||
			strings.HasPrefix(e, "VERIF_ROOT=") || strings.HasPrefix(e, "VERIF_KF=") {
			continue
		}
		env = append(env, e)
	}
	// The child gets its own root: the effective known-findings list without replay files (so
	// that phase 1 does not provoke the open findings, e.g. reads racing with Close, under the
	// race detector) and no regress inputs; the search phase keeps the exclusions.
	kfPath := os.Getenv("VERIF_KF")
	if kfPath == "" {
		kfPath = filepath.Join(pbt.VerifRoot(), "known_findings.json")
	}
	stripped := []byte(`{"findings":[]}`)
	if b, rerr := os.ReadFile(kfPath); rerr == nil {
		var kf struct {
			Findings []map[string]any `json:"findings"`
		}
		if json.Unmarshal(b, &kf) == nil {
			for _, f := range kf.Findings {
				delete(f, "replay")
			}
			stripped, _ = json.Marshal(kf)
		}
	}
	if werr := os.WriteFile(filepath.Join(tmp, "kf.json"), stripped, 0o644); werr != nil {
		return pbt.Failf("harness", "%v", werr)
	}
	env = append(env, "VERIF_ROOT="+tmp, "VERIF_KF="+filepath.Join(tmp, "kf.json"))
	env = append(env, "VERIF_TIER=quick", fmt.Sprintf("VERIF_CASES=%d", c.Cases), fmt.Sprintf("VERIF_SEED=%d", c.Seed),
		"VERIF_SPEC=live", "VERIF_EVIDENCE="+tmp+"/evidence.json", "VERIF_MAXSHARDS=4", "GORACE=halt_on_error=0 log_path="+tmp+"/race")
	cmd.Env = env
	var buf bytes.Buffer
	cmd.Stdout, cmd.Stderr = &buf, &buf
	err := cmd.Run()
	out := buf.String()
	r.Label("race-child")
	if logs, _ := filepath.Glob(tmp + "/race.*"); len(logs) > 0 {
		for _, lf := range logs {
			if b, rerr := os.ReadFile(lf); rerr == nil {
				out += "\n" + string(b)
			}
		}
	}
	// Race reports caused by an open finding cannot be steered away from in a free-running
	// child (e.g. the double release of a pooled entry when a plain write fails at a closing
	// commit queue): they are counted; any other report is a failure.
	for _, blk := range strings.Split(out, "WARNING: DATA RACE")[1:] {
		if j := strings.Index(blk, "=================="); j >= 0 {
			blk = blk[:j]
		}
		known := ""
		for _, k := range knownRaces {
			if !pbt.Open(k.id) {
				continue
			}
			for _, sub := range k.subs {
				if strings.Contains(blk, sub) {
					known = k.id
				}
			}
		}
		if known != "" {
			r.Label("race-report-of-open-finding:" + known)
			r.Excluded(1)
			continue
		}
		if len(blk) > 6000 {
			blk = blk[:6000]
		}
		return pbt.Failf("data-race", "race detector report while running %d C37 cases under -race:\nWARNING: DATA RACE%s", c.Cases, blk)
	}
	// keep the replay files of the child
	if reps, _ := filepath.Glob(filepath.Join(tmp, "replays", "*.json")); len(reps) > 0 {
		dst := filepath.Join(pbt.VerifRoot(), "replays")
		_ = os.MkdirAll(dst, 0o755)
		for _, rp := range reps {
			if b, rerr := os.ReadFile(rp); rerr == nil {
				_ = os.WriteFile(filepath.Join(dst, "race-"+filepath.Base(rp)), b, 0o644)
			}
		}
	}
	if m := childViolation.FindStringSubmatch(out); m != nil {
		return pbt.Failf("race-child-violation", "the -race run of the check reported a violation (replay %s):\n%s", m[1], tail(out, 60))
	}
	if !strings.Contains(out, "SUMMARY property=C37") {
		return pbt.Failf("harness", "race child did not complete (%v):\n%s", err, tail(out, 40))
	}
	r.NT()
	return nil
}

func tail(s string, n int) string {
	l := strings.Split(strings.TrimRight(s, "\n"), "\n")
	if len(l) > n {
		l = l[len(l)-n:]
	}
	return strings.Join(l, "\n")
}
