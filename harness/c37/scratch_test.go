package c37

import (
	"fmt"
	"runtime/debug"
	"testing"

	NoKV "github.com/feichai0017/NoKV"
	"github.com/feichai0017/NoKV/utils"
	"nokvverif/internal/eng"
	"nokvverif/internal/pbt"
)

func try(name string, f func()) {
	defer func() {
		if p := recover(); p != nil {
			fmt.Printf("%s: PANIC %v\n", name, p)
		}
	}()
	debug.SetPanicOnFault(true)
	f()
}

func TestScratch(t *testing.T) {
	dir, clean := pbt.TempDir("scr")
	defer clean()
	cfg := eng.Cfg{Engine: "skiplist", ValueThreshold: 32, Buckets: 1, VlogFileSize: 64 << 10, MemTableSize: 1 << 20, L0Tables: 1000}
	db, err := eng.Open(cfg, dir, nil)
	if err != nil {
		t.Fatal(err)
	}
	for i := 0; i < 10; i++ {
		_ = db.Set([]byte(fmt.Sprintf("k%d", i)), []byte("v"))
	}
	db.VerifLSM().Rotate()
	db.VerifLSM().VerifWaitFlush(5e9)
	for i := 0; i < 10; i++ {
		_ = db.Set([]byte(fmt.Sprintf("m%d", i)), []byte("v"))
	}
	it := db.NewIterator(&utils.Options{IsAsc: true})
	it.Rewind()
	fmt.Println("valid before close", it.Valid())
	txn := db.NewTransaction(true)
	ti := txn.NewIterator(NoKV.IteratorOptions{})
	fmt.Println("txn it valid", ti.Valid())
	txn2 := db.NewTransaction(true)
	_ = txn2.Set([]byte("t1"), []byte("x"))
	fmt.Println("close:", eng.Close(db))
	try("it.Next", func() { it.Next(); fmt.Println("it.Next ok valid=", it.Valid()) })
	try("it.all", func() {
		n := 0
		for ; it.Valid(); it.Next() {
			n++
			_ = it.Item().Entry().Key
		}
		fmt.Println("it iter ok n=", n)
	})
	try("it.Rewind", func() { it.Rewind(); fmt.Println("it.Rewind ok valid=", it.Valid()) })
	try("it.Close", func() { fmt.Println("it.Close", it.Close()) })
	try("ti.Next", func() {
		n := 0
		for ; ti.Valid(); ti.Next() {
			n++
		}
		fmt.Println("ti iter ok n=", n)
	})
	try("ti.Close", func() { ti.Close(); fmt.Println("ti.Close ok") })
	try("Get", func() { e, err := db.Get([]byte("k1")); fmt.Println("Get", e, err) })
	try("Set", func() { err := db.Set([]byte("k1"), []byte("z")); fmt.Println("Set", err) })
	try("Del", func() { err := db.Del([]byte("k1")); fmt.Println("Del", err) })
	try("NewIterator", func() { it := db.NewIterator(&utils.Options{IsAsc: true}); fmt.Println("NewIterator", it != nil) })
	try("txn2.Commit", func() { fmt.Println("txn2.Commit", txn2.Commit()) })
	try("NewTransaction", func() { tx := db.NewTransaction(true); fmt.Println("NewTransaction ok"); 
		try("tx.Get", func() { _, err := tx.Get([]byte("k1")); fmt.Println("tx.Get", err) })
		try("tx.Set", func() { err := tx.Set([]byte("k1"), []byte("1")); fmt.Println("tx.Set", err) })
		try("tx.NewIterator", func() { tx.NewIterator(NoKV.IteratorOptions{}); fmt.Println("tx.NewIterator ok") })
		try("tx.Commit", func() { fmt.Println("tx.Commit", tx.Commit()) })
	})
	try("Update", func() { fmt.Println("Update", db.Update(func(tx *NoKV.Txn) error { return tx.Set([]byte("a"), []byte("b")) })) })
	try("View", func() { fmt.Println("View", db.View(func(tx *NoKV.Txn) error { _, err := tx.Get([]byte("a")); return err })) })
	try("Close2", func() { fmt.Println("Close2", db.Close()) })
	try("RunValueLogGC", func() { fmt.Println("gc", db.RunValueLogGC(0.5)) })
}
