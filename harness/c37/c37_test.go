// C37 — operations and Close always finish.
//
// C34's free-running workload (plain Set/Del/Get) extended with transactions
// (Commit, CommitWith callbacks, Update/View), DB and transaction iterators (also
// held open across Close), CommitWith floods against the commit queue, an L0
// write-throttle toggler and Close at a drawn point (optionally from two
// goroutines, optionally exactly while a writer sits in the throttle wait loop).
// Oracle: every call returns within 60 s (normal latency is < 10 ms) with success
// or an error, every CommitWith callback runs, Close returns.  Liveness can only be
// refuted: a hang is re-run from its case; only a hang that reproduces is a
// VIOLATION, a single one makes the run inconclusive.  See FINDINGS.md.
package c37

import (
	"fmt"
	"testing"
	"time"

	"nokvverif/internal/pbt"
	"pgregory.net/rapid"
)

func TestMain(m *testing.M) { pbt.RunMain(m) }

// Cfg is the generated engine configuration.
type Cfg struct {
	Engine        string
	MemKB         int
	L0            int
	HotLimit      int32
	BG            bool // real background compaction (with warm-up) => the engine's own L0 throttle
	BatchWaitUS   int
	BatchMaxCount int // WriteBatchMaxCount: 1/2 = tiny commit batches (queue capacity is max(8*count,1024))
	Conflicts     bool
	Sync          bool
}

// Op is one client call (or a short fixed sequence counted as one call).
type Op struct {
	K       string // set del get | commit commitwith update view tget | iter txniter | hold holdtx step unhold | flood | gc
	Key     int    // key index (plain keys p1..p3, txn keys t1..t3)
	N       int    // commit: number of writes; iter: steps; flood: number of CommitWith
	Sz      int
	PauseUS int
}

// Case is one generated script; the schedule is left to the Go runtime.
type Case struct {
	Cfg        Cfg
	Workers    [][]Op
	Throttle   []int  // µs between L0 throttle toggles (on, off, ...); the last state is held until Close began
	CloseMode  string // "count": after CloseAfter calls returned; "throttled": as soon as a writer is waiting in the throttle loop (falls back to count)
	CloseAfter int
	Closers    int  // 1 or 2 goroutines calling Close concurrently
	Post       []Op // calls issued after Close returned
	Repeat     int
}

var opKinds = []string{
	"set", "set", "set", "set", "del", "get", "get",
	"commit", "commit", "commitwith", "commitwith", "update", "view", "tget",
	"iter", "txniter", "hold", "holdtx", "step", "step", "unhold",
	"flood", "gc",
}

func genOp(t *rapid.T, kinds []string) Op {
	op := Op{K: rapid.SampledFrom(kinds).Draw(t, "k"), Key: rapid.IntRange(0, 2).Draw(t, "key")}
	switch op.K {
	case "set":
		op.Sz = rapid.SampledFrom([]int{8, 40, 200, 600}).Draw(t, "sz")
	case "commit", "commitwith", "update":
		op.N = rapid.IntRange(1, 3).Draw(t, "n")
		op.Sz = rapid.SampledFrom([]int{8, 200}).Draw(t, "sz")
	case "iter", "txniter", "step":
		op.N = rapid.IntRange(0, 6).Draw(t, "n")
	case "flood":
		op.N = rapid.SampledFrom([]int{50, 300, 1500}).Draw(t, "n")
		op.Sz = 8
	}
	if rapid.IntRange(0, 3).Draw(t, "pause?") == 0 {
		op.PauseUS = rapid.SampledFrom([]int{20, 100, 300, 800}).Draw(t, "pause")
	}
	return op
}

func gen(t *rapid.T) Case {
	c := Case{Repeat: 1}
	c.Cfg = Cfg{
		Engine:        rapid.SampledFrom([]string{"skiplist", "art"}).Draw(t, "engine"),
		MemKB:         rapid.SampledFrom([]int{8, 32, 1024, 1024}).Draw(t, "memkb"),
		L0:            rapid.SampledFrom([]int{1, 2, 1000}).Draw(t, "l0"),
		HotLimit:      rapid.SampledFrom([]int32{0, 0, 6, 40}).Draw(t, "hotlimit"),
		BG:            rapid.IntRange(0, 7).Draw(t, "bg") == 0,
		BatchWaitUS:   rapid.SampledFrom([]int{200, 200, 0, 1000, 5000}).Draw(t, "batchwait"),
		BatchMaxCount: rapid.SampledFrom([]int{1, 1, 2, 64}).Draw(t, "batchmax"),
		Conflicts:     rapid.Bool().Draw(t, "conflicts"),
		Sync:          rapid.IntRange(0, 7).Draw(t, "sync") == 0,
	}
	nw := rapid.IntRange(3, 6).Draw(t, "workers")
	total := 0
	for w := 0; w < nw; w++ {
		n := rapid.IntRange(3, 16).Draw(t, "nops")
		var ops []Op
		for i := 0; i < n; i++ {
			ops = append(ops, genOp(t, opKinds))
		}
		total += n
		c.Workers = append(c.Workers, ops)
	}
	if rapid.IntRange(0, 9).Draw(t, "throttle?") < 7 {
		n := rapid.IntRange(1, 7).Draw(t, "ntoggle")
		for i := 0; i < n; i++ {
			c.Throttle = append(c.Throttle, rapid.SampledFrom([]int{100, 500, 1500, 4000, 10000}).Draw(t, "tdelay"))
		}
	}
	c.CloseMode = rapid.SampledFrom([]string{"count", "throttled", "throttled"}).Draw(t, "closemode")
	if len(c.Throttle) == 0 {
		c.CloseMode = "count"
	}
	c.CloseAfter = rapid.IntRange(1, total).Draw(t, "closeafter")
	c.Closers = rapid.SampledFrom([]int{1, 1, 2}).Draw(t, "closers")
	np := rapid.IntRange(2, 8).Draw(t, "npost")
	postKinds := []string{"set", "del", "get", "commit", "commitwith", "update", "view", "tget", "iter", "txniter", "gc"}
	for i := 0; i < np; i++ {
		op := genOp(t, postKinds)
		op.PauseUS = 0
		c.Post = append(c.Post, op)
	}
	return c
}

func TestCheck(t *testing.T) {
	s := &pbt.Suite{ID: "C37", Level: "exploration",
		Rule: "A case = 3-6 worker scripts (3-16 calls each) over plain Set/Del/Get, Txn Commit / CommitWith(callback) / Update / View / Txn.Get, DB and Txn iterators (open-scan-close and held open across other calls and across Close), CommitWith floods (50..1500 un-awaited commits) and RunValueLogGC, run by free goroutines against a real DB (WriteBatchMaxCount 1/2/64, WriteBatchWait 0..5ms, WriteHotKeyLimit 0/6/40, memtable 8KiB..1MiB, optional background compaction with NumLevelZeroTables 1/2 so the engine's own L0 throttle toggles) while a toggler flips the L0 write throttle (lsm.VerifThrottle) and Close is called at a drawn point by 1-2 goroutines; then 2-8 calls are issued on the closed DB. Oracle: every call (and every CommitWith callback, and Close) returns within 60s with success or an error. A call that exceeded the bound makes the case be re-run up to 10 times: VIOLATION only if a re-run hangs as well, otherwise the run is inconclusive (exit 2). Non-trivial = Close began while a writer (Set/Del/Commit/CommitWith/Update/flood) that was called after the throttle had been switched on was still waiting (i.e. it sat in db.sendToWriteCh's blockWrites loop), throttle still on; distinct by case content.",
		Assumptions: []string{
			"bounded waiting: 60 s per call stands for 'never' (normal latency < 10 ms); the statement is a liveness claim and can only be refuted",
			"accepted outcomes: return with nil or any error; Txn.NewIterator panicking with utils.ErrDBClosed once Close has finished is accepted because the engine raises it deliberately (txn_iterator.go: panic(utils.ErrDBClosed.Error())); every other panic is reported (signatures write-panic-closed, panic-during-close, panic-after-close, close-panic), a memory fault on unmapped table memory is converted into a panic by debug.SetPanicOnFault in the calling goroutine",
			"plain keys (p1..p3) and transactional keys (t1..t3) are disjoint (the engine forbids mixing the two APIs on one key); values are not judged here (C34 does)",
			"the manual throttle is released before the run ends unless Close began while it was on (Close must release it itself)",
			"the non-trivial classification is only made without background compaction (the engine's own AdjustThrottle may release the manual throttle)",
		},
	}
	pbt.Add(s, &pbt.Spec[Case]{Name: "live", Gen: gen, Run: run, Quick: 400, Thorough: 6000, Shards: 8, Nondet: true, Timeout: 20 * time.Minute})
	// calls and Close after a write that the file system failed (iofault_test.go)
	pbt.Add(s, &pbt.Spec[ioCase]{Name: "iofault", Gen: genIOFault, Run: runIOFault, Quick: 60, Thorough: 1500, Shards: 4, Timeout: 20 * time.Minute})
	if pbt.Tier() == "thorough" {
		pbt.Add(s, &pbt.Spec[RaceCase]{Name: "race", Gen: genRace, Run: runRace, Static: raceCases, Nondet: true})
	}
	s.Main(t)
}

func run(c Case, r *pbt.Rec) error {
	n := c.Repeat
	if n < 1 {
		n = 1
	}
	for i := 0; i < n; i++ {
		err := runOnce(c, r, true)
		if err == nil {
			continue
		}
		f, ok := err.(*pbt.Fail)
		if !ok || f.Sig != "hang" {
			if ok && n > 1 {
				f.Msg = fmt.Sprintf("(repetition %d of %d) %s", i+1, n, f.Msg)
			}
			return err
		}
		// A call did not return within the bound: re-run the same case. Only a hang that
		// shows up again is a violation; otherwise the observation is inconclusive.
		for j := 0; j < 10; j++ {
			err2 := runOnce(c, &pbt.Rec{}, false)
			if f2, ok := err2.(*pbt.Fail); ok && f2.Sig == "hang" {
				return pbt.Failf("hang", "REPRODUCED on re-run %d.\nfirst observation: %s\n\nre-run: %s", j+1, f.Msg, f2.Msg)
			}
		}
		return pbt.Failf("harness", "INCONCLUSIVE (liveness can only be refuted by a reproducible hang): one run exceeded the %v bound, 10 re-runs of the same case finished in time.\n%s", hangBound, f.Msg)
	}
	return nil
}
