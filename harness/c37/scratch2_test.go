package c37

import (
	"fmt"
	"runtime/debug"
	"sync"
	"testing"
	"time"

	"github.com/feichai0017/NoKV/lsm/compact"
	"nokvverif/internal/eng"
	"nokvverif/internal/pbt"
)

func TestScratch2(t *testing.T) {
	tally := map[string]int{}
	var mu sync.Mutex
	add := func(s string) { mu.Lock(); tally[s]++; mu.Unlock() }
	for iter := 0; iter < 200; iter++ {
		dir, clean := pbt.TempDir("scr")
		cfg := eng.Cfg{Engine: []string{"skiplist", "art"}[iter%2], ValueThreshold: 32, Buckets: 1, VlogFileSize: 64 << 10, MemTableSize: 4 << 10, L0Tables: 3}
		db, err := eng.Open(cfg, dir, nil)
		if err != nil {
			t.Fatal(err)
		}
		compact.VerifPause.Store(iter%4 < 2)
		var wg sync.WaitGroup
		stop := make(chan struct{})
		for g := 0; g < 4; g++ {
			wg.Add(1)
			go func(g int) {
				defer wg.Done()
				debug.SetPanicOnFault(true)
				for i := 0; ; i++ {
					select {
					case <-stop:
						return
					default:
					}
					func() {
						defer func() {
							if p := recover(); p != nil {
								add(fmt.Sprintf("g%d panic: %.80v", g%2, p))
							}
						}()
						k := []byte(fmt.Sprintf("k%d", i%3))
						if g%2 == 0 {
							err := db.Set(k, []byte(fmt.Sprintf("value-%d-%d-%0100d", g, i, 0)))
							add(fmt.Sprintf("set: %v", err))
						} else {
							_, err := db.Get(k)
							add(fmt.Sprintf("get: %v", err))
						}
					}()
				}
			}(g)
		}
		time.Sleep(time.Duration(iter%10) * time.Millisecond)
		t0 := time.Now()
		err = eng.Close(db)
		add(fmt.Sprintf("close: %v", err))
		if d := time.Since(t0); d > time.Second {
			add("close slow")
		}
		time.Sleep(2 * time.Millisecond)
		close(stop)
		wg.Wait()
		clean()
	}
	for k, v := range tally {
		fmt.Println(v, k)
	}
}
