package c37

import (
	"errors"
	"fmt"
	"os"
	"runtime"
	"runtime/debug"
	"sort"
	"strings"
	"sync"
	"sync/atomic"
	"time"

	NoKV "github.com/feichai0017/NoKV"
	"github.com/feichai0017/NoKV/lsm/compact"
	"github.com/feichai0017/NoKV/utils"
	"nokvverif/internal/eng"
	"nokvverif/internal/pbt"
)

var hangBound = 60 * time.Second

// Ev is one finished call.
type Ev struct {
	G     int    `json:"g"` // worker; -1 = calls after Close returned; -2 = held iterators closed at the end
	I     int    `json:"i"`
	K     string `json:"k"`
	Call  int64  `json:"c"`
	Ret   int64  `json:"t"`
	Res   string `json:"res,omitempty"`
	Err   string `json:"err,omitempty"`
	Panic string `json:"panic,omitempty"`
}

var writeKinds = map[string]bool{"set": true, "del": true, "commit": true, "commitwith": true, "update": true, "flood": true}

func isRead(k string) bool { return !writeKinds[k] && k != "unhold" }

func (c Cfg) options(dir string) *NoKV.Options {
	ec := eng.Cfg{
		Engine:          c.Engine,
		ValueThreshold:  64,
		Buckets:         1,
		VlogFileSize:    64 << 10,
		SyncWrites:      c.Sync,
		MemTableSize:    int64(c.MemKB) << 10,
		MaxBatchCount:   10000,
		MaxBatchSize:    16 << 20,
		HotKeyLimit:     c.HotLimit,
		L0Tables:        c.L0,
		DetectConflicts: c.Conflicts,
	}
	o := ec.Options(dir, nil)
	o.HotRingEnabled = c.HotLimit > 0
	o.WriteHotKeyLimit = c.HotLimit
	o.WriteBatchWait = time.Duration(c.BatchWaitUS) * time.Microsecond
	o.WriteBatchMaxCount = c.BatchMaxCount
	o.WriteBatchMaxSize = 1 << 20
	return o
}

func openDB(o *NoKV.Options) (db *NoKV.DB, err error) {
	defer func() {
		if p := recover(); p != nil {
			db, err = nil, fmt.Errorf("Open panicked: %v", p)
		}
	}()
	return NoKV.Open(o), nil
}

type pending struct {
	what  string
	kind  string
	start int64
	seq   int64 // throttle toggle sequence number when the call began
}

type wstate struct {
	cur    atomic.Pointer[pending]
	evs    []Ev
	heldDB utils.Iterator
	heldTx *NoKV.TxnIterator
	heldT  *NoKV.Txn
}

type runner struct {
	c  Case
	r  *pbt.Rec
	db *NoKV.DB
	t0 time.Time

	closing          atomic.Bool  // set before Close is called
	inflightReads    atomic.Int64 // read-type calls in progress (only maintained when fenceRead)
	fenceRead        bool         // open finding: no read-type call overlaps Close
	noReadAfterClose bool

	done      atomic.Int64
	closeOnce sync.Once
	closeCh   chan struct{}
	closeCall atomic.Int64
	closeRet  atomic.Int64

	thrSeq   atomic.Int64 // odd = on
	thrSince atomic.Int64

	cbMu           sync.Mutex
	cbPending      map[int64]int64 // id -> start
	cbSeq          atomic.Int64
	cbRun          atomic.Int64
	skipped        atomic.Int64
	maxOutstanding atomic.Int64 // most CommitWith calls whose callback had not run yet (sampled during floods)
	valSeq         atomic.Int64
}

func (x *runner) now() int64 { return int64(time.Since(x.t0)) + 1 }

func clip(s string, n int) string {
	if len(s) > n {
		return s[:n] + "…"
	}
	return s
}

func repoFrames(st []byte, n int) string {
	var out []string
	for _, l := range strings.Split(string(st), "\n") {
		if strings.HasPrefix(l, "\t") && !strings.Contains(l, "/verif/") && !strings.Contains(l, "/runtime/") && !strings.Contains(l, "testing") {
			out = append(out, strings.TrimSpace(l))
		}
	}
	if len(out) > n {
		out = out[:n]
	}
	return strings.Join(out, "\n")
}

// engineStacks returns the goroutines that are inside the engine (all of them, clipped).
func engineStacks() string {
	buf := make([]byte, 4<<20)
	n := runtime.Stack(buf, true)
	var keep []string
	for _, g := range strings.Split(string(buf[:n]), "\n\n") {
		if strings.Contains(g, "feichai0017/NoKV") {
			l := strings.Split(g, "\n")
			if len(l) > 17 {
				l = l[:17]
			}
			keep = append(keep, strings.Join(l, "\n"))
		}
		if len(keep) >= 24 {
			break
		}
	}
	return strings.Join(keep, "\n\n")
}

func (x *runner) val(sz int) []byte {
	b := []byte(fmt.Sprintf("v%d|", x.valSeq.Add(1)))
	for len(b) < sz {
		b = append(b, 'x')
	}
	return b
}

var pkeys = []string{"p1", "p2", "p3"}
var tkeys = []string{"t1", "t2", "t3"}

func (x *runner) addCB() (id int64) {
	id = x.cbSeq.Add(1)
	x.cbMu.Lock()
	x.cbPending[id] = x.now()
	x.cbMu.Unlock()
	return id
}

func (x *runner) doneCB(id int64) {
	x.cbMu.Lock()
	delete(x.cbPending, id)
	x.cbMu.Unlock()
	x.cbRun.Add(1)
}

// exec performs one call in the calling goroutine. It returns a short result and the error.
func (x *runner) exec(w *wstate, op Op) (string, error) {
	db := x.db
	switch op.K {
	case "set":
		return "", db.Set([]byte(pkeys[op.Key%3]), x.val(op.Sz))
	case "del":
		return "", db.Del([]byte(pkeys[op.Key%3]))
	case "get":
		_, err := db.Get([]byte(pkeys[op.Key%3]))
		if errors.Is(err, utils.ErrKeyNotFound) {
			return "nf", nil
		}
		return "", err
	case "commit":
		txn := db.NewTransaction(true)
		for j := 0; j < op.N; j++ {
			if err := txn.Set([]byte(tkeys[(op.Key+j)%3]), x.val(op.Sz)); err != nil {
				txn.Discard()
				return "set-failed", err
			}
		}
		return "", txn.Commit()
	case "commitwith":
		txn := db.NewTransaction(true)
		for j := 0; j < op.N; j++ {
			if err := txn.Set([]byte(tkeys[(op.Key+j)%3]), x.val(op.Sz)); err != nil {
				txn.Discard()
				return "set-failed", err
			}
		}
		id := x.addCB()
		txn.CommitWith(func(error) { x.doneCB(id) })
		return "", nil
	case "flood":
		for j := 0; j < op.N; j++ {
			txn := db.NewTransaction(true)
			if err := txn.Set([]byte(tkeys[(op.Key+j)%3]), x.val(op.Sz)); err != nil {
				txn.Discard()
				return "set-failed", err
			}
			id := x.addCB()
			txn.CommitWith(func(error) { x.doneCB(id) })
			if j%64 == 63 {
				x.cbMu.Lock()
				if n := int64(len(x.cbPending)); n > x.maxOutstanding.Load() {
					x.maxOutstanding.Store(n)
				}
				x.cbMu.Unlock()
			}
		}
		return "", nil
	case "update":
		return "", db.Update(func(txn *NoKV.Txn) error {
			for j := 0; j < op.N; j++ {
				if err := txn.Set([]byte(tkeys[(op.Key+j)%3]), x.val(op.Sz)); err != nil {
					return err
				}
			}
			return nil
		})
	case "view":
		err := db.View(func(txn *NoKV.Txn) error {
			_, err := txn.Get([]byte(tkeys[op.Key%3]))
			return err
		})
		if errors.Is(err, utils.ErrKeyNotFound) {
			return "nf", nil
		}
		return "", err
	case "tget":
		txn := db.NewTransaction(false)
		defer txn.Discard()
		_, err := txn.Get([]byte(tkeys[op.Key%3]))
		if errors.Is(err, utils.ErrKeyNotFound) {
			return "nf", nil
		}
		return "", err
	case "iter":
		it := db.NewIterator(&utils.Options{IsAsc: op.Key%2 == 0})
		n := 0
		for it.Rewind(); it.Valid() && n < op.N; it.Next() {
			_ = it.Item().Entry().Key
			n++
		}
		return fmt.Sprintf("%d", n), it.Close()
	case "txniter":
		txn := db.NewTransaction(false)
		defer txn.Discard()
		it := txn.NewIterator(NoKV.IteratorOptions{Reverse: op.Key%2 == 1})
		n := 0
		for it.Rewind(); it.Valid() && n < op.N; it.Next() {
			_ = it.Item().Entry().Key
			n++
		}
		it.Close()
		return fmt.Sprintf("%d", n), nil
	case "hold":
		if w.heldDB == nil {
			w.heldDB = db.NewIterator(&utils.Options{IsAsc: true})
			w.heldDB.Rewind()
			return "opened", nil
		}
		return x.step(w, 1), nil
	case "holdtx":
		if w.heldTx == nil {
			w.heldT = db.NewTransaction(false)
			w.heldTx = w.heldT.NewIterator(NoKV.IteratorOptions{})
			w.heldTx.Rewind()
			return "opened", nil
		}
		return x.step(w, 1), nil
	case "step":
		return x.step(w, op.N), nil
	case "unhold":
		return x.unhold(w), nil
	case "gc":
		err := db.RunValueLogGC(0.5)
		if errors.Is(err, utils.ErrNoRewrite) || errors.Is(err, utils.ErrRejected) {
			return "no-rewrite", nil
		}
		return "", err
	}
	return "", fmt.Errorf("harness: unknown op %q", op.K)
}

func (x *runner) step(w *wstate, n int) string {
	s := 0
	if it := w.heldDB; it != nil {
		for j := 0; j <= n; j++ {
			if it.Valid() {
				_ = it.Item().Entry().Key
				it.Next()
			} else {
				it.Rewind()
			}
			s++
		}
	}
	if it := w.heldTx; it != nil {
		for j := 0; j <= n; j++ {
			if it.Valid() {
				_ = it.Item().Entry().Key
				it.Next()
			} else {
				it.Rewind()
			}
			s++
		}
	}
	return fmt.Sprintf("%d", s)
}

func (x *runner) unhold(w *wstate) string {
	res := ""
	if w.heldDB != nil {
		_ = w.heldDB.Close()
		w.heldDB = nil
		res += "db"
	}
	if w.heldTx != nil {
		w.heldTx.Close()
		w.heldT.Discard()
		w.heldTx, w.heldT = nil, nil
		res += "tx"
	}
	return res
}

// call wraps exec with bookkeeping and panic capture.
func (x *runner) call(w *wstate, g, i int, op Op) {
	ev := Ev{G: g, I: i, K: op.K}
	p := &pending{what: fmt.Sprintf("g%d#%d %s", g, i, op.K), kind: op.K, seq: x.thrSeq.Load()}
	defer func() {
		if pv := recover(); pv != nil {
			ev.Ret = x.now()
			ev.Panic = fmt.Sprintf("%v", pv)
			if !strings.Contains(ev.Panic, "refcount underflow") && ev.Panic != utils.ErrDBClosed.Error() {
				ev.Panic += "\n" + repoFrames(debug.Stack(), 8)
			}
		}
		w.cur.Store(nil)
		w.evs = append(w.evs, ev)
	}()
	ev.Call = x.now()
	p.start = ev.Call
	w.cur.Store(p)
	res, err := x.exec(w, op)
	ev.Ret = x.now()
	ev.Res = res
	if err != nil {
		ev.Err = clip(err.Error(), 100)
	}
}

func pause(us int) {
	if us >= 500 {
		time.Sleep(time.Duration(us) * time.Microsecond)
		return
	}
	end := time.Now().Add(time.Duration(us) * time.Microsecond)
	for time.Now().Before(end) {
		runtime.Gosched()
	}
}

func (x *runner) bump() {
	if n := x.done.Add(1); n == int64(x.c.CloseAfter) {
		x.closeOnce.Do(func() { close(x.closeCh) })
	}
}

func (x *runner) worker(g int, w *wstate, ops []Op, start <-chan struct{}, wg *sync.WaitGroup) {
	defer wg.Done()
	debug.SetPanicOnFault(true)
	<-start
	for i, op := range ops {
		if op.PauseUS > 0 {
			pause(op.PauseUS)
		}
		switch {
		case isRead(op.K) && x.fenceRead:
			x.inflightReads.Add(1)
			if x.closing.Load() {
				x.skipped.Add(1)
			} else {
				x.call(w, g, i, op)
			}
			x.inflightReads.Add(-1)
		case isRead(op.K) && x.noReadAfterClose && x.closeRet.Load() > 0:
			x.skipped.Add(1)
		default:
			x.call(w, g, i, op)
		}
		x.bump()
	}
}

func runOnce(c Case, r *pbt.Rec, first bool) (err error) {
	exWrite := pbt.Open("C37-write-panic-closed")
	exDuring := pbt.Open("C37-read-during-close")
	exAfter := pbt.Open("C37-read-after-close")
	// Exploration switch (not used by vcheck): run the read-type calls unfenced although the
	// findings are listed, and only count the panics that belong to them, so that hangs hidden
	// behind those interleavings can still be searched for.
	tolerate := os.Getenv("C37_TOLERATE_PANICS") != ""
	if tolerate {
		exDuring, exAfter = false, false
	}
	if len(c.Workers) == 0 {
		return nil
	}
	total := 0
	for _, w := range c.Workers {
		total += len(w)
	}
	if c.CloseAfter < 1 || c.CloseAfter > total {
		c.CloseAfter = total
	}
	dir, clean := pbt.TempDir("c37")
	hung := false
	defer func() {
		if !hung {
			clean()
		}
	}()
	compact.VerifPause.Store(!c.Cfg.BG)
	defer compact.VerifPause.Store(true)
	db, oerr := openDB(c.Cfg.options(dir))
	if oerr != nil {
		return pbt.Failf("open", "%v", oerr)
	}
	x := &runner{c: c, r: r, db: db, t0: time.Now(), closeCh: make(chan struct{}), cbPending: map[int64]int64{},
		fenceRead: exDuring, noReadAfterClose: exAfter}
	r.Label("engine:" + c.Cfg.Engine)
	if c.Cfg.BG {
		r.Label("bg-compaction")
		time.Sleep(520 * time.Millisecond)
	}
	// a little data so that iterators have something to walk over (one flushed table + memtable)
	for i := 0; i < 3; i++ {
		_ = db.Set([]byte(pkeys[i]), x.val(100))
		_ = db.Update(func(txn *NoKV.Txn) error { return txn.Set([]byte(tkeys[i]), x.val(100)) })
	}
	db.VerifLSM().Rotate()
	db.VerifLSM().VerifWaitFlush(5 * time.Second)
	for i := 0; i < 3; i++ {
		_ = db.Set([]byte(pkeys[i]), x.val(20))
	}

	start := make(chan struct{})
	stop := make(chan struct{})
	var wg sync.WaitGroup
	ws := make([]*wstate, len(c.Workers))
	for g, ops := range c.Workers {
		ws[g] = &wstate{}
		wg.Add(1)
		go x.worker(g, ws[g], ops, start, &wg)
	}
	// ---- throttle toggler
	var aux sync.WaitGroup
	toggles := 0
	if len(c.Throttle) > 0 {
		aux.Add(1)
		go func() {
			defer aux.Done()
			<-start
			for i, d := range c.Throttle {
				select {
				case <-stop:
					return
				case <-x.closeCh:
					if c.CloseMode == "throttled" {
						return // Close has to cope with whatever state the throttle is in
					}
				default:
				}
				if x.closeCall.Load() > 0 {
					return
				}
				on := i%2 == 0
				if on {
					x.thrSince.Store(x.now())
				}
				db.VerifLSM().VerifThrottle(on)
				x.thrSeq.Add(1)
				toggles++
				pause(d)
			}
			if x.thrSeq.Load()%2 == 1 {
				if c.CloseMode == "throttled" {
					// hold the throttle until Close began (Close has to cope with it), but never
					// longer than 50ms: the harness must not be the reason for a hang
					for k := 0; k < 500 && x.closeCall.Load() == 0; k++ {
						select {
						case <-stop:
							k = 500
						default:
							time.Sleep(100 * time.Microsecond)
						}
					}
					if x.closeCall.Load() > 0 {
						return
					}
				}
				db.VerifLSM().VerifThrottle(false)
				x.thrSeq.Add(1)
			}
		}()
	}
	// ---- closer(s)
	var ntWriter atomic.Pointer[pending]
	var fenceReleased atomic.Bool
	closeErrs := make([]string, c.Closers)
	closersDone := make(chan struct{})
	var closePending atomic.Int64
	go func() {
		defer close(closersDone)
		<-start
		if c.CloseMode == "throttled" {
			tick := time.NewTicker(100 * time.Microsecond)
		wait:
			for {
				select {
				case <-x.closeCh:
					break wait
				case <-stop:
					tick.Stop()
					return
				case <-tick.C:
					if x.waitingWriter(ws, 300_000) != nil || x.stuckWriter(ws, 2_000_000) {
						break wait
					}
				}
			}
			tick.Stop()
		} else {
			select {
			case <-x.closeCh:
			case <-stop:
				return
			}
		}
		x.closing.Store(true)
		if x.fenceRead {
			// Open finding "reads overlapping Close": wait for the read-type calls in flight. A
			// reader can be blocked behind a throttled commit (NewTransaction waits for the
			// commit watermark); then the manual throttle is released first, so that the
			// exclusion never turns into a harness-made deadlock.
			for k := 0; x.inflightReads.Load() > 0; k++ {
				if k == 50 && x.thrSeq.Load()%2 == 1 {
					db.VerifLSM().VerifThrottle(false)
					x.thrSeq.Add(1)
					fenceReleased.Store(true)
				}
				time.Sleep(100 * time.Microsecond)
				if k > 10*60*10000 {
					break // > 60s: the watchdog reports the stuck call
				}
			}
		}
		if !c.Cfg.BG {
			if p := x.waitingWriter(ws, 0); p != nil {
				ntWriter.Store(p)
			}
		}
		var cg sync.WaitGroup
		x.closeCall.Store(x.now())
		closePending.Store(x.now())
		for k := 0; k < c.Closers; k++ {
			cg.Add(1)
			go func(k int) {
				defer cg.Done()
				if e := eng.Close(db); e != nil {
					closeErrs[k] = e.Error()
				}
			}(k)
		}
		cg.Wait()
		closePending.Store(0)
		x.closeRet.Store(x.now())
	}()
	close(start)

	// ---- watchdog: every call, Close and every callback has to finish within the bound
	wdone := make(chan struct{})
	go func() { wg.Wait(); close(wdone) }()
	hang := func(what string) error {
		hung = true
		var b strings.Builder
		fmt.Fprintf(&b, "%s did not return within %v.\n", what, hangBound)
		fmt.Fprintf(&b, "state: throttle seq=%d (odd=on), Close called at %.1fus returned at %.1fus, calls returned=%d of %d\n", x.thrSeq.Load(), float64(x.closeCall.Load())/1e3, float64(x.closeRet.Load())/1e3, x.done.Load(), total)
		for g, w := range ws {
			if p := w.cur.Load(); p != nil {
				fmt.Fprintf(&b, "  worker %d is inside %s since %.1fus\n", g, p.what, float64(p.start)/1e3)
			}
		}
		b.WriteString("goroutines inside the engine:\n" + engineStacks())
		return pbt.Failf("hang", "%s", b.String())
	}
	check := func() error {
		now := x.now()
		for _, w := range ws {
			if p := w.cur.Load(); p != nil && now-p.start > int64(hangBound) {
				return hang("call " + p.what)
			}
		}
		if s := closePending.Load(); s > 0 && now-s > int64(hangBound) {
			return hang("Close")
		}
		x.cbMu.Lock()
		defer x.cbMu.Unlock()
		for id, s := range x.cbPending {
			if now-s > int64(hangBound) {
				return hang(fmt.Sprintf("the callback of CommitWith #%d (called at %.1fus)", id, float64(s)/1e3))
			}
		}
		return nil
	}
	waitAll := func(ch <-chan struct{}) error {
		tick := time.NewTicker(50 * time.Millisecond)
		defer tick.Stop()
		for {
			select {
			case <-ch:
				return nil
			case <-tick.C:
				if err := check(); err != nil {
					return err
				}
			}
		}
	}
	if err := waitAll(wdone); err != nil {
		return err
	}
	if err := waitAll(closersDone); err != nil {
		return err
	}
	close(stop)
	adone := make(chan struct{})
	go func() { aux.Wait(); close(adone) }()
	if err := waitAll(adone); err != nil {
		return err
	}
	// ---- calls on the closed DB
	post := &wstate{}
	workers := ws
	ws = append(append([]*wstate(nil), workers...), post) // the watchdog also covers the calls on the closed DB
	pdone := make(chan struct{})
	go func() {
		defer close(pdone)
		debug.SetPanicOnFault(true)
		for i, op := range c.Post {
			if isRead(op.K) && exAfter {
				x.skipped.Add(1)
				continue
			}
			x.call(post, -1, i, op)
		}
		// iterators that were opened before Close and are still open: one step, then Close
		for g, w := range workers {
			if w.heldDB == nil && w.heldTx == nil {
				continue
			}
			if !exAfter {
				x.call(w, -2, g, Op{K: "step", N: 1})
			} else {
				x.skipped.Add(1)
			}
			x.call(w, -2, g, Op{K: "unhold"})
		}
	}()
	if err := waitAll(pdone); err != nil {
		return err
	}
	// every CommitWith callback must have run
	cbdone := make(chan struct{})
	go func() {
		for {
			x.cbMu.Lock()
			n := len(x.cbPending)
			x.cbMu.Unlock()
			if n == 0 {
				close(cbdone)
				return
			}
			time.Sleep(200 * time.Microsecond)
		}
	}()
	if err := waitAll(cbdone); err != nil {
		return err
	}

	// ---- judge
	r.LabelN("throttle-toggles", toggles)
	r.LabelN("callbacks-run", int(x.cbRun.Load()))
	if n := int(x.skipped.Load()); n > 0 {
		r.Excluded(n)
		r.LabelN("reads-fenced-from-close(open finding)", n)
	}
	if c.Closers == 2 {
		r.Label("double-close")
	}
	switch n := x.maxOutstanding.Load(); {
	case n >= 1100:
		r.Label("commit-queue-full(>=1100 unfinished CommitWith, capacity 1024)")
	case n >= 256:
		r.Label("commit-queue-backlog>=256")
	}
	if fenceReleased.Load() {
		r.Label("throttle-released-for-fenced-reader(open finding)")
	}
	closeCall, closeRet := x.closeCall.Load(), x.closeRet.Load()
	var all []Ev
	for _, w := range ws {
		all = append(all, w.evs...)
	}
	sort.SliceStable(all, func(i, j int) bool { return all[i].Call < all[j].Call })
	phase := func(e Ev) string {
		switch {
		case e.Ret < closeCall:
			return "before"
		case e.Call > closeRet:
			return "after"
		}
		return "during"
	}
	maxLat := int64(0)
	for _, e := range all {
		if d := e.Ret - e.Call; d > maxLat {
			maxLat = d
		}
		if d := e.Ret - e.Call; d > int64(time.Second) {
			r.Label("slow(>1s):" + kindClass(e.K) + ":" + phase(e))
		}
		ph := phase(e)
		outcome := "ok"
		switch {
		case e.Panic != "":
			outcome = "panic"
		case e.Err != "":
			outcome = "error"
		}
		r.Label(fmt.Sprintf("%s:%s:%s", ph, kindClass(e.K), outcome))
		if e.Panic == "" {
			if ph == "after" && writeKinds[e.K] && e.Err == "" && e.K != "commitwith" && e.K != "flood" {
				r.Label("write-after-close-returned-nil")
			}
			continue
		}
		first := strings.SplitN(e.Panic, "\n", 2)[0]
		switch {
		case (e.K == "txniter" || e.K == "holdtx") && first == utils.ErrDBClosed.Error():
			r.Label("accepted-panic:Txn.NewIterator-DBClosed")
			continue
		case writeKinds[e.K] && strings.Contains(first, "refcount underflow") && ph != "before":
			if exWrite {
				r.Excluded(1)
				continue
			}
			return pbt.Failf("write-panic-closed", "%s (%s Close) panicked instead of returning an error: %s\n%s", describe(e), ph, e.Panic, histMsg(all, closeCall, closeRet, closeErrs))
		}
		sig := "panic"
		switch ph {
		case "during":
			sig = "panic-during-close"
		case "after":
			sig = "panic-after-close"
		}
		if tolerate && sig != "panic" {
			r.Label("tolerated:" + sig)
			continue
		}
		return pbt.Failf(sig, "%s (%s Close) panicked: %s\n%s", describe(e), ph, e.Panic, histMsg(all, closeCall, closeRet, closeErrs))
	}
	for k, ce := range closeErrs {
		if strings.Contains(ce, "panicked") && tolerate {
			r.Label("tolerated:close-panic")
			continue
		}
		if strings.Contains(ce, "panicked") {
			return pbt.Failf("close-panic", "Close (caller %d of %d) panicked: %s\n%s", k+1, c.Closers, ce, histMsg(all, closeCall, closeRet, closeErrs))
		}
		if ce != "" {
			r.Label("close-error")
		}
	}
	switch {
	case maxLat > int64(time.Second):
		r.Label("max-latency>1s")
	case maxLat > int64(100*time.Millisecond):
		r.Label("max-latency>100ms")
	}
	if closeRet-closeCall > int64(time.Second) {
		r.Label("close-latency>1s")
	}
	if p := ntWriter.Load(); p != nil {
		r.Label("close-while-writer-in-throttle-loop:" + p.kind)
		r.NT()
	}
	_ = first
	return nil
}

// waitingWriter returns a worker call that is a write, began after the throttle was
// switched on (and the throttle has not been toggled since) and has been pending for at
// least minNS: such a call is inside db.sendToWriteCh's wait loop.
func (x *runner) waitingWriter(ws []*wstate, minNS int64) *pending {
	seq := x.thrSeq.Load()
	if seq%2 == 0 {
		return nil
	}
	since := x.thrSince.Load()
	now := x.now()
	for _, w := range ws {
		p := w.cur.Load()
		if p != nil && writeKinds[p.kind] && p.seq == seq && p.start > since && now-p.start >= minNS {
			if x.thrSeq.Load() == seq {
				return p
			}
		}
	}
	return nil
}

// stuckWriter: the throttle is on and some write has been pending for minNS (it may have
// been called before the throttle was switched on, so it does not count for the
// non-trivial rule, but Close is due all the same).
func (x *runner) stuckWriter(ws []*wstate, minNS int64) bool {
	if x.thrSeq.Load()%2 == 0 {
		return false
	}
	now := x.now()
	for _, w := range ws {
		if p := w.cur.Load(); p != nil && writeKinds[p.kind] && now-p.start >= minNS {
			return true
		}
	}
	return false
}

func kindClass(k string) string {
	switch k {
	case "set", "del":
		return "plain-write"
	case "get":
		return "plain-read"
	case "commit", "update":
		return "commit"
	case "commitwith", "flood":
		return "commitwith"
	case "view", "tget":
		return "txn-read"
	case "iter":
		return "db-iter"
	case "txniter":
		return "txn-iter"
	case "hold", "holdtx", "step":
		return "held-iter"
	case "unhold":
		return "iter-close"
	}
	return k
}

func describe(e Ev) string {
	who := fmt.Sprintf("g%d#%d", e.G, e.I)
	switch e.G {
	case -1:
		who = fmt.Sprintf("post-close#%d", e.I)
	case -2:
		who = fmt.Sprintf("held-iterator-of-g%d", e.I)
	}
	return who + " " + e.K
}

func histMsg(all []Ev, closeCall, closeRet int64, closeErrs []string) string {
	var b strings.Builder
	fmt.Fprintf(&b, "Close: [%.1fus, %.1fus] results %q\n", float64(closeCall)/1e3, float64(closeRet)/1e3, closeErrs)
	// the calls around Close and everything that did not return cleanly
	n := 0
	for _, e := range all {
		interesting := e.Panic != "" || (e.Ret >= closeCall-200_000)
		if !interesting || n > 60 {
			continue
		}
		n++
		res := "ok " + e.Res
		switch {
		case e.Panic != "":
			res = "PANIC " + strings.SplitN(e.Panic, "\n", 2)[0]
		case e.Err != "":
			res = "error " + e.Err
		}
		fmt.Fprintf(&b, "  %-26s [%9.1fus, %9.1fus] %s\n", describe(e), float64(e.Call)/1e3, float64(e.Ret)/1e3, res)
	}
	return b.String()
}
