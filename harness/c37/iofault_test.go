package c37

// Spec "iofault": operations and Close must also finish after a write FAILED.  The file
// system hook fails the k-th write to a *.wal file once (transactions carry hundreds of
// KiB so the WAL's user-space buffer has to go to the file inside the commit); whatever the
// commits answer, every later call and Close must return.  A Close that has not returned
// within the bound is re-run from scratch once; only a hang that reproduces is reported.

import (
	"errors"
	"fmt"
	"os"
	"runtime"
	"strings"
	"sync/atomic"
	"time"

	"github.com/feichai0017/NoKV/kv"
	"github.com/feichai0017/NoKV/vfs"
	"nokvverif/internal/eng"
	"nokvverif/internal/pbt"
	"pgregory.net/rapid"
)

type ioTxn struct {
	Keys  []int
	Sizes []int
}

type ioCase struct {
	Engine  string
	Sync    bool
	FailNth int
	Txns    []ioTxn
}

func genIOFault(t *rapid.T) ioCase {
	c := ioCase{Engine: rapid.SampledFrom([]string{"skiplist", "art"}).Draw(t, "engine"), Sync: rapid.Bool().Draw(t, "sync"),
		FailNth: rapid.IntRange(1, 4).Draw(t, "failNth")}
	n := rapid.IntRange(2, 5).Draw(t, "ntxn")
	for i := 0; i < n; i++ {
		var tx ioTxn
		k := rapid.IntRange(1, 3).Draw(t, "nkeys")
		for j := 0; j < k; j++ {
			tx.Keys = append(tx.Keys, j)
			tx.Sizes = append(tx.Sizes, rapid.SampledFrom([]int{100, 60000, 150000, 300000}).Draw(t, "size"))
		}
		c.Txns = append(c.Txns, tx)
	}
	return c
}

const ioBound = 20 * time.Second

// ioOnce runs the case; hung names the call that did not return within the bound ("" = all returned).
func ioOnce(c ioCase, r *pbt.Rec) (hung string, fired bool, err error) {
	dir, cleanup := pbt.TempDir("c37io")
	var walWrites atomic.Int64
	var firedFlag atomic.Bool
	injected := errors.New("verif: injected WAL write failure")
	hook := func(op vfs.Op, path string) error {
		if op == vfs.OpFileWrite && strings.HasSuffix(path, ".wal") {
			if n := walWrites.Add(1); int(n) == c.FailNth {
				firedFlag.Store(true)
				return injected
			}
		}
		return nil
	}
	cfg := eng.Cfg{Engine: c.Engine, ValueThreshold: 1 << 20, Buckets: 1, VlogFileSize: 1 << 20, MemTableSize: 8 << 20, SyncWrites: c.Sync,
		MaxBatchCount: 1000, MaxBatchSize: 64 << 20}
	db, oerr := eng.Open(cfg, dir, vfs.NewFaultFS(vfs.OSFS{}, hook))
	if oerr != nil {
		cleanup()
		if firedFlag.Load() {
			return "", true, nil
		}
		return "", false, fmt.Errorf("harness: open: %v", oerr)
	}
	bounded := func(what string, f func()) bool {
		done := make(chan struct{})
		go func() { defer close(done); f() }()
		select {
		case <-done:
			return true
		case <-time.After(ioBound):
			hung = what
			if os.Getenv("VERIF_TRACE") != "" {
				buf := make([]byte, 1<<20)
				n := runtime.Stack(buf, true)
				fmt.Printf("TRACE goroutines at the hang of %s:\n%s\n", what, buf[:n])
			}
			return false
		}
	}
	ok := true
	for i, tx := range c.Txns {
		i, tx := i, tx
		ok = bounded(fmt.Sprintf("Commit of transaction %d", i), func() {
			t := db.NewTransaction(true)
			for j, k := range tx.Keys {
				if e := t.SetEntry(kv.NewEntry([]byte(fmt.Sprintf("io-%d", k)), eng.Value(i*8+j, tx.Sizes[j]))); e != nil {
					t.Discard()
					return
				}
			}
			if e := t.Commit(); e != nil {
				r.Label("io:commit-error")
			} else {
				r.Label("io:commit-ok")
			}
		})
		if !ok {
			break
		}
	}
	if ok {
		ok = bounded("Close", func() { _ = eng.Close(db) })
	}
	if ok {
		cleanup()
	}
	return hung, firedFlag.Load(), nil
}

func runIOFault(c ioCase, r *pbt.Rec) error {
	if len(c.Txns) == 0 {
		return nil
	}
	hung, fired, err := ioOnce(c, r)
	if err != nil {
		return err
	}
	if hung != "" {
		hung2, _, err2 := ioOnce(c, r)
		if err2 != nil {
			return err2
		}
		if hung2 == "" {
			return pbt.Failf("harness", "%s did not return within %v once, not reproduced in a second run (inconclusive)", hung, ioBound)
		}
		return pbt.Failf("hang-after-io-error", "%s did not return within %v (reproduced in a second run from scratch: %s); WAL write #%d had been failed by the file system before", hung, ioBound, hung2, c.FailNth)
	}
	if fired {
		r.Label("io:fault-fired")
		r.NT()
	}
	return nil
}
