module nokvverif

go 1.26.0

require (
	github.com/feichai0017/NoKV v0.0.0
	pgregory.net/rapid v1.3.0
	github.com/anishathalye/porcupine v1.3.0
)

replace github.com/feichai0017/NoKV => /repo
