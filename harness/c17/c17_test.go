//go:build verif

// C17 — transactional reads return the newest committed value visible at their
// timestamp.  Histories of prewrite / commit / rollback / resolve-lock /
// check-txn-status / get / scan requests plus flushes and compactions are
// executed through raftstore/kv.Apply against a real DB; every Get and Scan must
// equal the read rule of the Percolator reference model in internal/perco.
package c17

import (
	"testing"

	"nokvverif/internal/pbt"
	"nokvverif/internal/perco"
	"pgregory.net/rapid"
)

func TestMain(m *testing.M) { pbt.RunMain(m) }

func gen(t *rapid.T) perco.GCase {
	return perco.Generate(t, perco.Profile{MaxSteps: 28, WRead: 9, WMaint: 4, WDup: 1, WCheck: 1, WPartial: 1, Excl: perco.OpenExclusions()})
}

func run(c perco.GCase, r *pbt.Rec) error {
	r.Excluded(c.Excl)
	return perco.Execute(c.Case, r, 17)
}

func TestCheck(t *testing.T) {
	s := &pbt.Suite{ID: "C17", Level: "exploration",
		Rule: "Generated histories: 1-4 keys, <=5 transactions with put/delete/lock-only mutations (values up to one SST block), start and commit timestamps from one strictly increasing counter (unique, reads use unused even timestamps or a transaction's own start ts), aborted transactions, duplicate/late requests, CheckTxnStatus/ResolveLock, flush / L0->ingest move / ingest merge / ingest drain / compaction picker anywhere; <=28 steps plus closing reads. Oracle: each Get(k,t) and Scan(start,limit,t) answered by kv.Apply equals the reference model: lock error iff a lock with start<=t is on the (first blocked) key, else the value of the newest committed put/delete with commit<=t skipping rollback and lock-only records; Scan must equal the per-key reads, hence Get. Partial requests: a hotlimit step sets Options.WriteHotKeyLimit so that a Commit is refused between its two engine writes (commit record written, lock removal refused with ErrHotKeyWriteThrottle, response Retryable) and lifts it again; after a Retryable response the model re-reads lock and write records of the touched keys from the store and every later request (rollback / resolve / check-txn-status / re-applied commit on the leftover lock) is judged against that state. Non-trivial = the case contains a read that (a) has a rollback or lock-only record as newest record <=t above an older committed put, or (b) returns a value although a lock with start>t or a commit>t exists on the key (an older snapshot is served); distinct by case content.",
		Assumptions: []string{
			"a request answered with a Retryable key error took effect as a prefix of its engine writes; its response and partial effect are not judged (the model resynchronises from the store), all later requests are",
			"requests are applied one at a time (the raft apply path is sequential); concurrency of apply is C20's subject",
			"a Scan stops at the first key whose lock blocks it and keeps the pairs collected before it (what handleScan documents by construction); keys after the limit-th pair are not read",
			"reads never use a commit timestamp as read timestamp (timestamps are unique)",
			"empty put values are not generated (O-2 in DESIGN)",
		},
	}
	pbt.Add(s, &pbt.Spec[perco.GCase]{Name: "reads", Gen: gen, Run: run, Quick: 2000, Thorough: 36000, Shards: 16})
	s.Main(t)
}
