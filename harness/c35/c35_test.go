// C35 — SST tables serve exactly the entries they were built from.
//
// Generator: sorted sets of internal-key entries (prefix-related user keys, many
// versions, value sizes from 0 to larger than a block), block size and bloom setting.
// Oracle: a sorted slice in the engine-independent order (cf, user key ascending,
// version descending): every stored key is found by Search (no bloom false negative),
// forward Seek lands on the first entry >= target, reverse Seek on the last entry <=
// target, full iteration both ways equals the input — before and after reopening the file.
package c35

import (
	"bytes"
	"fmt"
	"math"
	"sort"
	"testing"

	"github.com/feichai0017/NoKV/kv"
	"github.com/feichai0017/NoKV/lsm"
	"github.com/feichai0017/NoKV/manifest"
	"github.com/feichai0017/NoKV/utils"
	"github.com/feichai0017/NoKV/wal"
	"nokvverif/internal/eng"
	"nokvverif/internal/pbt"
	"pgregory.net/rapid"
)

func TestMain(m *testing.M) { pbt.RunMain(m) }

type Ent struct {
	CF    byte
	Key   []byte
	Ver   uint64
	VSize int
	Meta  byte
	Exp   uint64
	Stale bool
}

type Case struct {
	BlockSize int
	Bloom     bool
	Ents      []Ent // any order, duplicates allowed: normalised (sorted, de-duplicated) by run
}

func (e Ent) ikey() []byte { return kv.InternalKey(kv.ColumnFamily(e.CF), e.Key, e.Ver) }

func less(a, b Ent) bool {
	return eng.CompareInternal(a.CF, a.Key, a.Ver, b.CF, b.Key, b.Ver) < 0
}

func normalise(in []Ent) []Ent {
	out := append([]Ent(nil), in...)
	sort.SliceStable(out, func(i, j int) bool { return less(out[i], out[j]) })
	var ded []Ent
	for _, e := range out {
		if n := len(ded); n > 0 && !less(ded[n-1], e) {
			continue
		}
		ded = append(ded, e)
	}
	return ded
}

func gen(t *rapid.T) Case {
	c := Case{
		BlockSize: rapid.SampledFrom([]int{128, 1024, 8192}).Draw(t, "block"),
		Bloom:     rapid.Bool().Draw(t, "bloom"),
	}
	keys := eng.KeyPool(t, 1, 12)
	n := rapid.IntRange(1, 120).Draw(t, "n")
	big := rapid.IntRange(0, 9).Draw(t, "bigClass") == 0
	for i := 0; i < n; i++ {
		e := Ent{
			CF:  byte(rapid.SampledFrom([]int{0, 0, 0, 1, 2}).Draw(t, "cf")),
			Key: keys[rapid.IntRange(0, len(keys)-1).Draw(t, "k")],
			Ver: rapid.SampledFrom(eng.Versions).Draw(t, "ver"),
		}
		if rapid.IntRange(0, 3).Draw(t, "wideVer") == 0 {
			e.Ver = rapid.Uint64Range(0, 400).Draw(t, "ver2")
		}
		e.VSize = rapid.SampledFrom([]int{0, 1, 8, 8, 40, 40, 200, 1500}).Draw(t, "vs")
		if big && rapid.IntRange(0, 9).Draw(t, "big") == 0 {
			e.VSize = rapid.SampledFrom([]int{9000, 20000}).Draw(t, "vbig")
		}
		switch rapid.IntRange(0, 9).Draw(t, "metaClass") {
		case 0:
			e.Meta = kv.BitDelete
			e.VSize = 0
		case 1:
			e.Exp = 4102444800
		case 2:
			e.Stale = true
		}
		c.Ents = append(c.Ents, e)
	}
	return c
}

func newLSM(dir string) (*lsm.LSM, error) {
	ch := make(chan map[manifest.ValueLogID]int64, 16)
	wlog, err := wal.Open(wal.Config{Dir: dir})
	if err != nil {
		return nil, err
	}
	opt := &lsm.Options{
		WorkDir: dir, MemTableSize: 1 << 20, SSTableMaxSz: 64 << 20, BlockSize: 4096,
		BloomFalsePositive: 0.01, DiscardStatsCh: &ch, MaxLevelNum: utils.MaxLevelNum,
		BaseLevelSize: 32 << 20, LevelSizeMultiplier: 8, BaseTableSize: 8 << 20, TableSizeMultiplier: 2,
		NumLevelZeroTables: 100, NumCompactors: 1, BlockCacheSize: 16, BloomCacheSize: 16,
	}
	return lsm.NewLSM(opt, wlog), nil
}

func describe(e Ent) string { return fmt.Sprintf("(cf=%d key=%q ver=%d)", e.CF, e.Key, e.Ver) }

func run(c Case, r *pbt.Rec) (err error) {
	ents := normalise(c.Ents)
	if len(ents) == 0 {
		return nil
	}
	dir, cleanup := pbt.TempDir("c35")
	defer cleanup()
	l, err := newLSM(dir)
	if err != nil {
		return fmt.Errorf("harness: %v", err)
	}
	defer func() { _ = l.Close() }()

	var kvEnts []*kv.Entry
	var stale []bool
	vals := make([][]byte, len(ents))
	for i, e := range ents {
		vals[i] = eng.Value(i, e.VSize)
		ke := kv.NewEntryWithCF(kv.ColumnFamily(e.CF), e.ikey(), vals[i])
		ke.Meta = e.Meta
		ke.ExpiresAt = e.Exp
		kvEnts = append(kvEnts, ke)
		stale = append(stale, e.Stale)
	}
	fp := 0.0
	if c.Bloom {
		fp = 0.01
	}
	vt, err := l.VerifBuildTable(7, c.BlockSize, fp, kvEnts, stale)
	if err != nil {
		return pbt.Failf("build", "building/opening the table failed: %v", err)
	}
	blocks := vt.Blocks()
	r.Label(fmt.Sprintf("blocks:%s", bucket(blocks)))
	if c.Bloom {
		r.Label("bloom")
	}
	gapSeek := false

	check := func(vt *lsm.VerifTable, phase string) error {
		// (1) point lookups: every stored key must be found with its own value/meta.
		for i, e := range ents {
			got, err := vt.Search(e.ikey(), 0)
			// Search reports a hit only for versions above maxVs (0 here), so version 0 is
			// never returned by design of its contract (maxVs < version); skip it.
			if e.Ver == 0 {
				continue
			}
			if err != nil || got == nil {
				return pbt.Failf("search-miss", "%s: Search(%s) = %v, want the stored entry (table has %d blocks, bloom=%v)", phase, describe(e), err, blocks, c.Bloom)
			}
			if !bytes.Equal(got.Key, e.ikey()) || !bytes.Equal(got.Value, vals[i]) || got.Meta != e.Meta || got.ExpiresAt != e.Exp {
				return pbt.Failf("search-wrong", "%s: Search(%s) returned key=%x meta=%d exp=%d len(value)=%d, want meta=%d exp=%d len(value)=%d", phase, describe(e), got.Key, got.Meta, got.ExpiresAt, len(got.Value), e.Meta, e.Exp, len(vals[i]))
			}
		}
		// (2) full iteration both ways
		for _, asc := range []bool{true, false} {
			it := vt.NewIterator(asc)
			it.Rewind()
			n := 0
			for ; it.Valid(); it.Next() {
				idx := n
				if !asc {
					idx = len(ents) - 1 - n
				}
				if idx < 0 || idx >= len(ents) {
					_ = it.Close()
					return pbt.Failf("iter-extra", "%s: iteration asc=%v yields more than the %d stored entries", phase, asc, len(ents))
				}
				ge := it.Item().Entry()
				if !bytes.Equal(ge.Key, ents[idx].ikey()) || !bytes.Equal(ge.Value, vals[idx]) || ge.Meta != ents[idx].Meta {
					_ = it.Close()
					return pbt.Failf("iter-order", "%s: iteration asc=%v position %d yields key=%x, want %s", phase, asc, n, ge.Key, describe(ents[idx]))
				}
				n++
			}
			_ = it.Close()
			if n != len(ents) {
				return pbt.Failf("iter-short", "%s: iteration asc=%v yields %d entries, want %d", phase, asc, n, len(ents))
			}
		}
		// (3) seeks: targets = every stored key and neighbours, before-first, after-last
		var targets []Ent
		add := func(e Ent) { targets = append(targets, e) }
		for _, e := range ents {
			add(e)
			if e.Ver < math.MaxUint64 {
				add(Ent{CF: e.CF, Key: e.Key, Ver: e.Ver + 1})
			}
			if e.Ver > 0 {
				add(Ent{CF: e.CF, Key: e.Key, Ver: e.Ver - 1})
			}
			add(Ent{CF: e.CF, Key: append(append([]byte(nil), e.Key...), 0), Ver: math.MaxUint64})
			add(Ent{CF: e.CF, Key: append(append([]byte(nil), e.Key...), 0), Ver: 0})
			if len(e.Key) > 1 {
				add(Ent{CF: e.CF, Key: e.Key[:len(e.Key)-1], Ver: 0})
			}
		}
		add(Ent{CF: 0, Key: []byte{0}, Ver: math.MaxUint64})
		add(Ent{CF: 2, Key: bytes.Repeat([]byte{0xff}, 50), Ver: 0})
		for _, tg := range targets {
			// reference positions
			fwd := sort.Search(len(ents), func(i int) bool { return !less(ents[i], tg) }) // first >= tg
			rev := sort.Search(len(ents), func(i int) bool { return less(tg, ents[i]) }) - 1 // last <= tg
			for _, asc := range []bool{true, false} {
				want := fwd
				if !asc {
					want = rev
				}
				it := vt.NewIterator(asc)
				it.Seek(tg.ikey())
				valid := it.Valid()
				var gk []byte
				if valid {
					gk = append([]byte(nil), it.Item().Entry().Key...)
				}
				_ = it.Close()
				wantValid := want >= 0 && want < len(ents)
				if valid != wantValid || (valid && !bytes.Equal(gk, ents[want].ikey())) {
					wd := "invalid"
					if wantValid {
						wd = describe(ents[want])
					}
					gd := "invalid"
					if valid {
						cf, uk, ver := kv.SplitInternalKey(gk)
						gd = fmt.Sprintf("(cf=%d key=%q ver=%d)", cf, uk, ver)
					}
					return pbt.Failf(fmt.Sprintf("seek-%s", dir2(asc)), "%s: Seek(%s) asc=%v lands on %s, want %s (table: %d entries, %d blocks)", phase, describe(tg), asc, gd, wd, len(ents), blocks)
				}
			}
			if blocks >= 2 && fwd > 0 && fwd < len(ents) && !(eng.CompareInternal(tg.CF, tg.Key, tg.Ver, ents[fwd].CF, ents[fwd].Key, ents[fwd].Ver) == 0) {
				gapSeek = true
			}
		}
		return nil
	}
	if err := check(vt, "fresh"); err != nil {
		return err
	}
	vt2, err := vt.Reopen()
	if err != nil {
		return pbt.Failf("reopen", "reopening the table file failed: %v", err)
	}
	if err := check(vt2, "reopened"); err != nil {
		return err
	}
	if blocks >= 2 && gapSeek {
		r.NT()
	}
	return nil
}

func dir2(asc bool) string {
	if asc {
		return "fwd"
	}
	return "rev"
}

func bucket(n int) string {
	switch {
	case n <= 1:
		return "1"
	case n <= 3:
		return "2-3"
	case n <= 10:
		return "4-10"
	}
	return ">10"
}

func TestCheck(t *testing.T) {
	s := &pbt.Suite{ID: "C35", Level: "exploration",
		Rule: "rapid-generated entry sets (1..120 entries over <=12 user keys from a prefix-heavy alphabet, 3 column families, versions from an edge domain, values 0..20000 bytes, tombstones/expiry/stale routing), block size in {128,1024,8192}, bloom on/off; built with the production tableBuilder/openTable; oracle = sorted reference slice. For each table: Search of every stored key, forward+reverse full iteration, forward+reverse Seek to every stored key and 5 neighbours each, before and after reopening the file. Non-trivial = table with >=2 blocks and at least one seek target that is not a stored key and lies strictly inside the table; distinct by case content.",
		Assumptions: []string{"Search(key,maxVs) is only required to report versions strictly above maxVs (its documented contract), so version 0 entries are checked through iteration and Seek only",
			"entries handed to the builder are strictly sorted and unique (what flush and compaction produce)"},
	}
	pbt.Add(s, &pbt.Spec[Case]{Name: "table", Gen: gen, Run: run, Quick: 1600, Thorough: 60000, Shards: 16})
	s.Main(t)
}
