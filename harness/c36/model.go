package c36

// Case format, reference model and generator.

import (
	"fmt"

	myraft "github.com/feichai0017/NoKV/raft"
	"nokvverif/internal/pbt"
	"pgregory.net/rapid"
)

// Case is one generated history (plain data: it is the replay file).
type Case struct {
	Engine string `json:"engine"` // memtable engine: skiplist | art
	Groups int    `json:"groups"` // raft groups on the shared WAL (0..2)
	Steps  []Step `json:"steps"`
	Excl   int    `json:"excl,omitempty"` // raft steps dropped because of open findings
}

// Step is one driver step.
//
//	put      N plain writes (SyncWrites on: acknowledged = in the WAL file)
//	raft     one Ready of group G: SetHardState + Append(N entries), then wal.Sync
//	compact  MaybeCompact(commit, Retain) of group G (what peer.maybeCompact does after apply)
//	snap     ApplySnapshot of group G at last+Ahead (a snapshot received from the leader)
//	rotate   seal the active memtable (lsm.Rotate: the path a full memtable takes); the flush runs
//	         to completion unless a hold is active
//	hold     park every SST creation from now on (flushes stay half-done)
//	release  let parked flushes finish
//	watchdog one pass of the WAL watchdog (wal.Watchdog.RunOnce, wired as in DB.Open)
//	reopen   clean close + open (recovery-time cleanup)
type Step struct {
	K      string `json:"k"`
	G      int    `json:"g,omitempty"`
	N      int    `json:"n,omitempty"`
	Keys   []int  `json:"keys,omitempty"`
	Bump   bool   `json:"bump,omitempty"` // raft: new term
	Retain uint64 `json:"retain,omitempty"`
	Ahead  uint64 `json:"ahead,omitempty"`
}

func groupID(g int) uint64 { return []uint64{1, 7}[g] }

// gm is the reference state of one raft group.
type gm struct {
	term, vote, commit uint64
	snapIdx, snapTerm  uint64
	trunc              uint64
	first              uint64 // index of terms[0]
	terms              []uint64
}

func newGM() *gm { return &gm{first: 1} }

func (m *gm) last() uint64  { return m.first + uint64(len(m.terms)) - 1 }
func (m *gm) floor() uint64 { return max(m.snapIdx, m.trunc) }

func entryData(g int, index, term uint64) []byte {
	return []byte(fmt.Sprintf("c36/g%d/i%d/t%d/................................", g, index, term))
}

// ready builds the storage calls of a raft step and advances the model.
func (m *gm) ready(g int, s Step) (myraft.HardState, []myraft.Entry) {
	if s.Bump || m.term == 0 {
		m.term++
		m.vote = uint64(1 + int(m.term)%3)
	}
	var ents []myraft.Entry
	for i := 0; i < s.N; i++ {
		idx := m.last() + 1
		m.terms = append(m.terms, m.term)
		ents = append(ents, myraft.Entry{Index: idx, Term: m.term, Data: entryData(g, idx, m.term)})
	}
	m.commit = m.last() // single-voter style: everything appended is committed with the same Ready
	return myraft.HardState{Term: m.term, Vote: m.vote, Commit: m.commit}, ents
}

func (m *gm) compact(retain uint64) (applied uint64) {
	applied = m.commit
	if retain == 0 || applied == 0 || applied <= retain {
		return applied
	}
	if t := applied - retain; t > m.floor() {
		m.trunc = t
	}
	return applied
}

func (m *gm) snapshot(ahead uint64) myraft.Snapshot {
	if m.term == 0 {
		m.term = 1
	}
	idx := m.last() + ahead
	m.snapIdx, m.snapTerm = idx, m.term
	m.first, m.terms = idx+1, nil
	m.commit = idx
	var sn myraft.Snapshot
	sn.Metadata.Index, sn.Metadata.Term = idx, m.term
	sn.Metadata.ConfState.Voters = []uint64{1, 2, 3}
	sn.Data = []byte("c36-snapshot")
	return sn
}

func validate(c Case) error {
	if c.Engine != "skiplist" && c.Engine != "art" {
		return fmt.Errorf("harness: engine %q", c.Engine)
	}
	if c.Groups < 0 || c.Groups > 2 {
		return fmt.Errorf("harness: groups %d", c.Groups)
	}
	for i, s := range c.Steps {
		switch s.K {
		case "put":
			if len(s.Keys) == 0 {
				return fmt.Errorf("harness: step %d: put without keys", i)
			}
		case "raft", "compact", "snap":
			if s.G < 0 || s.G >= c.Groups {
				return fmt.Errorf("harness: step %d: group %d of %d", i, s.G, c.Groups)
			}
			if s.K == "raft" && s.N <= 0 {
				return fmt.Errorf("harness: step %d: raft without entries", i)
			}
			if s.K == "snap" && s.Ahead == 0 {
				return fmt.Errorf("harness: step %d: snapshot not beyond the log", i)
			}
		case "rotate", "hold", "release", "watchdog", "reopen":
		default:
			return fmt.Errorf("harness: step %d: unknown kind %q", i, s.K)
		}
	}
	return nil
}

// raftOpen: the findings that make every removal of a raft-bearing segment fail are listed as open.
func raftOpen() bool {
	for _, id := range []string{"C36-R9", "C36-R9-watchdog", "C36-R9-flush", "C36-R9b", "C36-F2"} {
		if pbt.Open(id) {
			return true
		}
	}
	return false
}

func genCase(t *rapid.T) Case {
	c := Case{
		Engine: rapid.SampledFrom([]string{"skiplist", "art"}).Draw(t, "engine"),
		Groups: rapid.SampledFrom([]int{0, 1, 1, 2, 2}).Draw(t, "groups"),
	}
	n := rapid.IntRange(2, 14).Draw(t, "nsteps")
	if rapid.IntRange(0, 3).Draw(t, "holdfirst") == 0 {
		c.Steps = append(c.Steps, Step{K: "hold"})
	}
	for i := 0; i < n; i++ {
		k := rapid.IntRange(0, 19).Draw(t, "kind")
		g := 0
		if c.Groups > 1 {
			g = rapid.IntRange(0, 1).Draw(t, "g")
		}
		switch {
		case k <= 4:
			nk := rapid.IntRange(1, 3).Draw(t, "nkeys")
			s := Step{K: "put"}
			for j := 0; j < nk; j++ {
				s.Keys = append(s.Keys, rapid.IntRange(0, 5).Draw(t, "key"))
			}
			c.Steps = append(c.Steps, s)
		case k <= 7 && c.Groups > 0:
			c.Steps = append(c.Steps, Step{K: "raft", G: g, N: rapid.IntRange(1, 4).Draw(t, "n"), Bump: rapid.IntRange(0, 3).Draw(t, "bump") == 0})
		case k <= 9 && c.Groups > 0:
			c.Steps = append(c.Steps, Step{K: "compact", G: g, Retain: uint64(rapid.IntRange(1, 2).Draw(t, "retain"))})
		case k == 10 && c.Groups > 0:
			c.Steps = append(c.Steps, Step{K: "snap", G: g, Ahead: uint64(rapid.IntRange(1, 3).Draw(t, "ahead"))})
		case k <= 13:
			c.Steps = append(c.Steps, Step{K: "rotate"})
		case k == 14:
			c.Steps = append(c.Steps, Step{K: "hold"})
		case k == 15:
			c.Steps = append(c.Steps, Step{K: "release"})
		case k <= 17:
			c.Steps = append(c.Steps, Step{K: "watchdog"})
		case k == 18:
			c.Steps = append(c.Steps, Step{K: "reopen"})
		default:
			c.Steps = append(c.Steps, Step{K: "rotate"})
		}
	}
	if raftOpen() {
		// Exclusion by construction while the C36-R9* / C36-F2 findings are open: on the current
		// tree every removal of (or next to) a segment that a group has written and moved away
		// from fails.  So each group may write raft records into one WAL segment only: the raft
		// steps of a group that come after the first rotation/reopen following its first step
		// are dropped.  The segment guard is still exercised (that one segment must survive
		// later flushes, watchdog passes and recoveries), nothing is removed that holds raft data.
		window, home := 0, map[int]int{}
		kept := c.Steps[:0:0]
		for _, s := range c.Steps {
			switch s.K {
			case "rotate", "reopen":
				window++
			case "raft", "compact", "snap":
				if w, ok := home[s.G]; !ok {
					home[s.G] = window
				} else if w != window {
					c.Excl++
					continue
				}
			}
			kept = append(kept, s)
		}
		c.Steps = kept
	}
	return c
}
