package c36

import (
	"bytes"
	"errors"
	"fmt"
	"math"
	"os"
	"path/filepath"
	"strings"
	"sync"
	"time"

	NoKV "github.com/feichai0017/NoKV"
	"github.com/feichai0017/NoKV/lsm/compact"
	myraft "github.com/feichai0017/NoKV/raft"
	"github.com/feichai0017/NoKV/raftstore/engine"
	"github.com/feichai0017/NoKV/utils"
	"github.com/feichai0017/NoKV/vfs"
	"nokvverif/internal/eng"
	"nokvverif/internal/pbt"
	"nokvverif/internal/vfsx"
)

func dbCfg(c Case) eng.Cfg {
	return eng.Cfg{Engine: c.Engine, ValueThreshold: 1 << 20, Buckets: 1, VlogFileSize: 1 << 20,
		SyncWrites: true, MemTableSize: 1 << 20, L0Tables: 1000}
}

// sys is an opened DB with one WALStorage per raft group on DB.WAL()/DB.Manifest()
// (raftstore/server wiring); the DB runs its own WAL watchdog.
type sys struct {
	db *NoKV.DB
	ws []*engine.WALStorage
}

func openDB(c Case, dir string, fs vfs.FS) (s *sys, err error) {
	defer func() {
		if p := recover(); p != nil {
			s, err = nil, fmt.Errorf("Open panicked: %v", p)
		}
	}()
	compact.VerifPause.Store(true) // compactions are not part of this property
	o := dbCfg(c).Options(dir, fs)
	// the watchdog as DB.Open wires it; its ticker is stopped right after the pass that
	// Start runs immediately, further passes are driver steps (VerifWatchdogRunOnce)
	o.EnableWALWatchdog = true
	o.WALAutoGCInterval = time.Hour
	db := NoKV.Open(o)
	db.VerifWatchdogStopLoop()
	return &sys{db: db}, nil
}

// openRaft opens the groups' storages (panics of the replay path become errors).
func (s *sys) openRaft(c Case) (err error) {
	defer func() {
		if p := recover(); p != nil {
			err = fmt.Errorf("OpenWALStorage panicked: %v", p)
		}
	}()
	s.ws = nil
	for g := 0; g < c.Groups; g++ {
		w, werr := engine.OpenWALStorage(engine.WALStorageConfig{GroupID: groupID(g), WAL: s.db.WAL(), Manifest: s.db.Manifest()})
		if werr != nil {
			return fmt.Errorf("OpenWALStorage(group %d): %w", groupID(g), werr)
		}
		s.ws = append(s.ws, w)
	}
	return nil
}

func (s *sys) close() error {
	if s == nil || s.db == nil {
		return nil
	}
	db := s.db
	s.db = nil
	return eng.Close(db)
}

const fillerKey = 6

// flushWait bounds waits for background flushes.  Images are judged inside the capture
// callback on the flush worker's goroutine, so the wait includes the judging of every image
// those flushes produce.
const flushWait = 10 * time.Minute

func keyName(k int) []byte { return []byte(fmt.Sprintf("c36-key-%d", k)) }
func valueOf(k, seq int) []byte {
	return []byte(fmt.Sprintf("value-of-key-%d-write-%d-%s", k, seq, strings.Repeat("x", 40)))
}

// state is everything the oracle needs at an image: acknowledged LSM writes and the
// reference state of every group.
type state struct {
	kv     map[int]int // key -> sequence number of the last acknowledged write
	groups []*gm
}

// checkLSM: every acknowledged write is readable.
func checkLSM(db *NoKV.DB, st *state) (string, string) {
	for k := 0; k <= fillerKey; k++ {
		seq, ok := st.kv[k]
		if !ok {
			continue
		}
		e, err := db.Get(keyName(k))
		if err != nil {
			if errors.Is(err, utils.ErrKeyNotFound) {
				return "lsm-write-lost", fmt.Sprintf("acknowledged write of %s (write #%d) is gone: key not found", keyName(k), seq)
			}
			return "lsm-read-fails", fmt.Sprintf("Get(%s): %v", keyName(k), err)
		}
		if !bytes.Equal(e.Value, valueOf(k, seq)) {
			return "lsm-write-lost", fmt.Sprintf("Get(%s) = %q, acknowledged value is write #%d", keyName(k), clip(e.Value), seq)
		}
	}
	return "", ""
}

func clip(b []byte) string {
	if len(b) > 40 {
		return string(b[:40]) + "…"
	}
	return string(b)
}

// checkRaft: every entry above the group's truncation point is present and unchanged.
// hsLost reports (without judging) a hard state below the persisted one.
func checkRaft(ws *engine.WALStorage, m *gm, g int) (sig, msg string, hsLost bool) {
	defer func() {
		if p := recover(); p != nil {
			sig, msg = "raft-storage-unreadable", fmt.Sprintf("storage panicked while being read: %v", p)
		}
	}()
	hs, _, err := ws.InitialState()
	if err != nil {
		return "raft-storage-unreadable", fmt.Sprintf("InitialState: %v", err), false
	}
	hsLost = hs.Term < m.term || hs.Commit < m.commit || (hs.Term == m.term && hs.Vote != m.vote)
	last, err := ws.LastIndex()
	if err != nil {
		return "raft-storage-unreadable", fmt.Sprintf("LastIndex: %v", err), hsLost
	}
	fl := m.floor()
	if last < m.last() {
		return "raft-entries-lost", fmt.Sprintf("last index %d, log persisted up to %d (truncated up to %d)", last, m.last(), fl), hsLost
	}
	if last > m.last() {
		return "raft-entries-invented", fmt.Sprintf("last index %d beyond the persisted log end %d", last, m.last()), hsLost
	}
	first, err := ws.FirstIndex()
	if err != nil {
		return "raft-storage-unreadable", fmt.Sprintf("FirstIndex: %v", err), hsLost
	}
	if first > fl+1 {
		return "raft-entries-lost", fmt.Sprintf("first index %d, but the group has only truncated up to %d: entries %d..%d are gone", first, fl, fl+1, first-1), hsLost
	}
	if last > fl {
		got, err := ws.Entries(fl+1, last+1, math.MaxUint64)
		if err != nil {
			return "raft-entries-lost", fmt.Sprintf("Entries(%d,%d): %v", fl+1, last+1, err), hsLost
		}
		if uint64(len(got)) != last-fl {
			return "raft-entries-lost", fmt.Sprintf("Entries(%d,%d) returned %d entries", fl+1, last+1, len(got)), hsLost
		}
		for i, e := range got {
			idx := fl + 1 + uint64(i)
			term := m.terms[idx-m.first]
			if e.Index != idx || e.Term != term || !bytes.Equal(e.Data, entryData(g, idx, term)) {
				return "raft-entries-differ", fmt.Sprintf("entry %d: recovered {index %d term %d %q}, persisted term %d", idx, e.Index, e.Term, clip(e.Data), term), hsLost
			}
		}
	}
	return "", "", hsLost
}

// judgeDir opens dir like a restarted process and applies the oracle.
func judgeDir(c Case, dir string, st *state, where string, r *pbt.Rec, then func(s *sys) error) error {
	s, err := openDB(c, dir, nil)
	if err != nil {
		return pbt.Failf("image-reopen-fails", "%s: the DB does not reopen: %v", where, err)
	}
	defer s.close()
	// Let the restarted process finish flushing what it recovered before the raft groups
	// are opened: wal.Manager.Replay lists the segments and then opens them one by one, and
	// fails with ENOENT when a background flush removes one in between (a start-up race of
	// the engine that is not C36's subject; see FINDINGS.md, observations).
	if !s.db.VerifLSM().VerifWaitFlush(flushWait) {
		return fmt.Errorf("harness: recovered DB did not finish flushing within 10 min")
	}
	if sig, msg := checkLSM(s.db, st); sig != "" {
		return pbt.Failf(sig, "%s: %s", where, msg)
	}
	if err := s.openRaft(c); err != nil {
		return pbt.Failf("raft-reopen-fails", "%s: %v", where, err)
	}
	for g := 0; g < c.Groups; g++ {
		sig, msg, hsLost := checkRaft(s.ws[g], st.groups[g], g)
		if sig != "" {
			return pbt.Failf(sig, "%s: group %d: %s", where, groupID(g), msg)
		}
		if hsLost {
			// The HardState record went with a removed segment.  C36's statement names log
			// entries only, so this is counted, not judged (see FINDINGS.md).
			r.Label("obs:hardstate-regressed-after-segment-removal")
		}
	}
	if then != nil {
		return then(s)
	}
	return nil
}

type imgCtx struct {
	Seq     int
	Step    int
	Why     string // removal | installed | end
	Removed string
	By      string // flush | watchdog | recovery
	Held    int    // flushes parked on the hold gate
}

func (ic imgCtx) where() string {
	if ic.Why == "end" {
		return fmt.Sprintf("image #%d (end of history, %d flush(es) held half-done)", ic.Seq, ic.Held)
	}
	if ic.Why == "installed" {
		return fmt.Sprintf("image #%d (a flush has just logged its table in the manifest and not yet removed its WAL segment, step %d)", ic.Seq, ic.Step)
	}
	return fmt.Sprintf("image #%d (right after %s removed WAL segment %s during step %d, %d flush(es) held half-done)", ic.Seq, ic.By, ic.Removed, ic.Step, ic.Held)
}

type driveStats struct {
	images   int
	removals map[string]int
	ctr      vfsx.Counters
	ntRemove bool
	rotSkips int
}

// drive runs the history.  onImage is called while the filesystem is quiescent.
func drive(c Case, dir string, r *pbt.Rec, onImage func(ic imgCtx, st *state) error) (driveStats, error) {
	var (
		ds   = driveStats{removals: map[string]int{}}
		fail error
		mu   sync.Mutex // guards st against the flush worker's capture callback
		st   = &state{kv: map[int]int{}}
		step = -1
		by   = "recovery"
		gate *vfsx.Gate
		seq  = map[int]int{}
	)
	for g := 0; g < c.Groups; g++ {
		st.groups = append(st.groups, newGM())
	}
	fs := vfsx.New(nil)
	fs.KeepLog(false)
	snapshot := func() *state {
		cp := &state{kv: map[int]int{}}
		for k, v := range st.kv {
			cp.kv[k] = v
		}
		for _, m := range st.groups {
			mm := *m
			mm.terms = append([]uint64(nil), m.terms...)
			cp.groups = append(cp.groups, &mm)
		}
		return cp
	}
	held := func() int {
		mu.Lock()
		g := gate
		mu.Unlock()
		if g == nil {
			return 0
		}
		return g.Waiting()
	}
	getFail := func() error { mu.Lock(); defer mu.Unlock(); return fail }
	setGate := func(g *vfsx.Gate) { mu.Lock(); gate = g; mu.Unlock() }
	fs.SetPlan(func(rec vfsx.Rec, _ []byte) vfsx.Action {
		if rec.Op == vfs.OpRemove && strings.HasSuffix(rec.Path, ".wal") {
			return vfsx.Action{After: true}
		}
		// a flush has logged its table + log pointer and has not removed its segment yet:
		// after a crash here recovery does the cleanup
		mu.Lock()
		flushing := by == "flush"
		mu.Unlock()
		if flushing && rec.Op == vfs.OpFileWrite && strings.HasPrefix(filepath.Base(rec.Path), "MANIFEST") {
			return vfsx.Action{After: true}
		}
		return vfsx.Action{}
	}, func(pt vfsx.Point) {
		if getFail() != nil || pt.Rec.Err != "" {
			return
		}
		mu.Lock()
		cp := snapshot()
		who, stp := by, step
		mu.Unlock()
		ic := imgCtx{Seq: ds.images, Step: stp, Why: "removal", Removed: filepath.Base(pt.Rec.Path), By: who, Held: held()}
		if pt.Rec.Op != vfs.OpRemove {
			ic.Why = "installed"
		} else {
			ds.removals[who]++
		}
		ds.images++
		if ic.Held > 0 {
			ds.ntRemove = true
		}
		for _, m := range cp.groups {
			if m.last() > 0 && m.floor() == 0 {
				ds.ntRemove = true // a group that never truncated
			}
		}
		err := onImage(ic, cp)
		mu.Lock()
		fail = err
		mu.Unlock()
	})
	setBy := func(s string, i int) { mu.Lock(); by, step = s, i; mu.Unlock() }
	done := func(err error) (driveStats, error) {
		fs.SetPlan(nil, nil) // no images of the shutdown
		if gate != nil {
			gate.Release()
			setGate(nil)
		}
		ds.ctr = fs.Counters()
		if f := getFail(); f != nil {
			return ds, f
		}
		return ds, err
	}

	s, err := openDB(c, dir, fs)
	if err != nil {
		return done(pbt.Failf("open-fails", "fresh directory: %v", err))
	}
	defer func() { s.close() }()
	if err := s.openRaft(c); err != nil {
		return done(pbt.Failf("open-fails", "fresh directory: %v", err))
	}
	memHasData := false // the active memtable holds at least one LSM entry written in this process
	waitFlush := func(at string) error {
		if gate != nil {
			return nil
		}
		if !s.db.VerifLSM().VerifWaitFlush(flushWait) {
			return fmt.Errorf("harness: %s: flush did not finish within 10 min", at)
		}
		return nil
	}
	for i, sp := range c.Steps {
		if getFail() != nil {
			break
		}
		at := fmt.Sprintf("step %d (%s)", i, sp.K)
		switch sp.K {
		case "put":
			setBy("put", i)
			for _, k := range sp.Keys {
				seq[k]++
				if err := s.db.Set(keyName(k), valueOf(k, seq[k])); err != nil {
					return done(pbt.Failf("call-fails", "%s: Set: %v", at, err))
				}
				mu.Lock()
				st.kv[k] = seq[k]
				mu.Unlock()
			}
			memHasData = true
		case "raft":
			setBy("raft", i)
			mu.Lock()
			m := st.groups[sp.G]
			mm := *m
			mm.terms = append([]uint64(nil), m.terms...)
			mu.Unlock()
			hs, ents := mm.ready(sp.G, sp)
			if err := s.ws[sp.G].SetHardState(hs); err != nil {
				return done(pbt.Failf("call-fails", "%s: SetHardState: %v", at, err))
			}
			if err := s.ws[sp.G].Append(ents); err != nil {
				return done(pbt.Failf("call-fails", "%s: Append: %v", at, err))
			}
			if err := s.db.WAL().Sync(); err != nil { // flushing raft records is C21's subject, not C36's
				return done(pbt.Failf("call-fails", "%s: wal.Sync: %v", at, err))
			}
			mu.Lock()
			st.groups[sp.G] = &mm
			mu.Unlock()
		case "compact":
			setBy("compact", i)
			mu.Lock()
			m := st.groups[sp.G]
			mm := *m
			mu.Unlock()
			applied := mm.compact(sp.Retain)
			if applied == 0 {
				r.Label("compact:nothing-applied")
				break
			}
			if err := s.ws[sp.G].MaybeCompact(applied, sp.Retain); err != nil {
				return done(pbt.Failf("call-fails", "%s: MaybeCompact(%d,%d): %v", at, applied, sp.Retain, err))
			}
			if mm.trunc != m.trunc {
				r.Label("compact:effective")
			}
			mu.Lock()
			st.groups[sp.G] = &mm
			mu.Unlock()
		case "snap":
			setBy("snap", i)
			mu.Lock()
			m := st.groups[sp.G]
			mm := *m
			mm.terms = append([]uint64(nil), m.terms...)
			mu.Unlock()
			sn := mm.snapshot(sp.Ahead)
			if err := s.ws[sp.G].SetHardState(myraft.HardState{Term: mm.term, Vote: mm.vote, Commit: mm.commit}); err != nil {
				return done(pbt.Failf("call-fails", "%s: SetHardState: %v", at, err))
			}
			if err := s.ws[sp.G].ApplySnapshot(sn); err != nil {
				return done(pbt.Failf("call-fails", "%s: ApplySnapshot: %v", at, err))
			}
			if err := s.db.WAL().Sync(); err != nil {
				return done(pbt.Failf("call-fails", "%s: wal.Sync: %v", at, err))
			}
			mu.Lock()
			st.groups[sp.G] = &mm
			mu.Unlock()
		case "rotate":
			if !memHasData {
				// the engine rotates a memtable only when it is full, never an empty one:
				// give it one entry first
				ds.rotSkips++
				seq[fillerKey]++
				if err := s.db.Set(keyName(fillerKey), valueOf(fillerKey, seq[fillerKey])); err != nil {
					return done(pbt.Failf("call-fails", "%s: Set: %v", at, err))
				}
				mu.Lock()
				st.kv[fillerKey] = seq[fillerKey]
				mu.Unlock()
			}
			setBy("flush", i)
			s.db.VerifLSM().Rotate()
			memHasData = false
			if gate != nil {
				// wait until the flush worker is parked (or the flush found nothing to build)
				gate.WaitBlocked(1, 200*time.Millisecond)
				r.Label("rotate:flush-held")
			} else {
				r.Label("rotate:flush-completes")
			}
			if err := waitFlush(at); err != nil {
				return done(err)
			}
		case "hold":
			if gate == nil {
				setGate(fs.Gate(func(op vfs.Op, path, _ string) bool {
					return op == vfs.OpOpenFile && strings.HasSuffix(path, ".sst")
				}))
			}
		case "release":
			if gate != nil {
				setBy("flush", i)
				gate.Release()
				setGate(nil)
				if err := waitFlush(at); err != nil {
					return done(err)
				}
			}
		case "watchdog":
			setBy("watchdog", i)
			s.db.VerifWatchdogRunOnce()
		case "reopen":
			if gate != nil {
				setBy("flush", i)
				gate.Release()
				setGate(nil)
			}
			if err := waitFlush(at); err != nil {
				return done(err)
			}
			setBy("flush", i) // Close drains queued flushes
			if err := s.close(); err != nil {
				return done(pbt.Failf("close-fails", "%s: %v", at, err))
			}
			setBy("recovery", i)
			s2, err := openDB(c, dir, fs)
			if err != nil {
				if getFail() != nil {
					return done(nil)
				}
				return done(pbt.Failf("clean-reopen-fails", "%s: DB reopen after a clean close: %v", at, err))
			}
			s = s2
			memHasData = false
			if getFail() != nil {
				return done(nil)
			}
			// recovered immutables are flushed in the background by the new process
			if err := waitFlush(at); err != nil {
				return done(err)
			}
			if err := s.openRaft(c); err != nil {
				return done(pbt.Failf("clean-reopen-raft-fails", "%s: after a clean close: %v", at, err))
			}
			setBy("flush", i)
			if sig, msg := checkLSM(s.db, st); sig != "" {
				return done(pbt.Failf("clean-reopen-"+sig, "%s: after a clean close and reopen: %s", at, msg))
			}
			for g := 0; g < c.Groups; g++ {
				if sig, msg, _ := checkRaft(s.ws[g], st.groups[g], g); sig != "" {
					return done(pbt.Failf("clean-reopen-"+sig, "%s: group %d after a clean close and reopen: %s", at, groupID(g), msg))
				}
			}
		}
	}
	if getFail() != nil {
		return done(nil)
	}
	// end of history: one more image (with whatever is still held half-done)
	fs.Quiesce(func() {
		ic := imgCtx{Seq: ds.images, Step: len(c.Steps), Why: "end", Held: held()}
		ds.images++
		mu.Lock()
		cp := snapshot()
		mu.Unlock()
		err := onImage(ic, cp)
		mu.Lock()
		fail = err
		mu.Unlock()
	})
	return done(nil)
}

// walFiles lists the WAL segments of dir.
func walFiles(dir string) string {
	m, _ := filepath.Glob(filepath.Join(dir, "*.wal"))
	return strings.Join(m, ",")
}

func runCase(c Case, r *pbt.Rec) error {
	if err := validate(c); err != nil {
		return err
	}
	r.Label("engine:" + c.Engine)
	r.Label(fmt.Sprintf("groups:%d", c.Groups))
	for _, s := range c.Steps {
		r.Label("step:" + s.K)
	}
	r.Excluded(c.Excl)
	dir, cleanup := pbt.TempDir("c36")
	defer cleanup()
	img, img2 := dir+"-img", dir+"-img2"
	defer os.RemoveAll(img)
	defer os.RemoveAll(img2)
	ds, err := drive(c, dir, r, func(ic imgCtx, st *state) error {
		_ = os.RemoveAll(img)
		if err := vfsx.CopyDir(dir, img); err != nil {
			return fmt.Errorf("harness: copy: %v", err)
		}
		// first restart: recovery (its own WAL cleanup included) must bring everything back;
		// then the restarted process flushes what it recovered and crashes again.
		before := walFiles(img)
		second := false
		err := judgeDir(c, img, st, ic.where(), r, func(s *sys) error {
			if !s.db.VerifLSM().VerifWaitFlush(flushWait) {
				return fmt.Errorf("harness: recovered DB did not finish flushing within 10 min")
			}
			if walFiles(img) == before {
				return nil // the restart removed no WAL segment: a second crash shows nothing new
			}
			second = true
			_ = os.RemoveAll(img2)
			return vfsx.CopyDir(img, img2)
		})
		if err != nil {
			return err
		}
		if second {
			r.Label("img:restart-removed-segments")
			if err := judgeDir(c, img2, st, ic.where()+", second crash after the restarted process finished recovery", r, nil); err != nil {
				return err
			}
		}
		r.Label("img:" + ic.Why)
		if ic.Why == "removal" {
			r.Label("img:removal-by-" + ic.By)
			if ic.Held > 0 {
				r.Label("img:removal-while-flush-held")
			}
		} else if ic.Held > 0 {
			r.Label("img:end-with-flush-held")
		}
		return nil
	})
	r.LabelN("images", ds.images)
	r.LabelN("rotate:filler-put-into-empty-memtable", ds.rotSkips)
	for k, v := range ds.removals {
		r.LabelN("removal:"+k, v)
	}
	if err != nil {
		return err
	}
	if ds.ntRemove {
		r.NT()
	}
	return nil
}
