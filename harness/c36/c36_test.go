// C36 — WAL segment cleanup never removes data still needed.
//
// Generated histories on one NoKV DB (SyncWrites on) with 0–2 raft groups whose
// engine.WALStorage share DB.WAL()/DB.Manifest(): plain writes, raft Readies,
// MaybeCompact, snapshots, memtable rotations whose flush completes or is held
// half-done (SST creation gated in the vfsx shim), WAL watchdog passes, clean
// reopen.  A crash image is taken right after every removal of a *.wal file and at
// the end; each image is restarted twice (restart, let recovery finish, crash again,
// restart).  Oracle: every acknowledged plain write is readable and every raft
// entry above the group's truncation point is recovered unchanged.
package c36

import (
	"testing"

	"nokvverif/internal/pbt"
)

func TestMain(m *testing.M) { pbt.RunMain(m) }

func TestCheck(t *testing.T) {
	s := &pbt.Suite{
		ID:    "C36",
		Level: "fault_enumeration",
		Rule:  "history in which a WAL segment was removed while a flush was held half-done or while a raft group with entries had never truncated its log, and the image taken right after that removal was restarted and compared",
		Assumptions: []string{
			"process-crash model: an image is a copy of the work directory taken while every vfs operation is blocked, right after the Remove of a *.wal file returned (and once at the end of the history)",
			"plain writes run with SyncWrites=true, raft steps are followed by wal.Manager.Sync(): whether records reach the file at all is C09/C21, not C36",
			"memtables are rotated through lsm.Rotate (the path a full memtable takes) and only when they hold at least one entry; compactions are paused; the DB's own WAL watchdog is enabled; its ticker is stopped after the pass it runs at start (hook VerifWatchdogStopLoop), further passes are driver steps (VerifWatchdogRunOnce); every restart of an image therefore includes one watchdog pass",
			"needed raft data = entries above max(snapshot index, MaybeCompact target); a regressed HardState after a removal is counted (label obs:hardstate-regressed-after-segment-removal) but not judged, because the statement names log entries only",
		},
	}
	pbt.Add(s, &pbt.Spec[Case]{Name: "cleanup", Gen: genCase, Run: runCase, Quick: 320, Thorough: 4000, Shards: 8})
	s.Main(t)
}
