// C10 — recovery after any crash yields a prefix-consistent, readable state.
// Shared crash-point machinery: internal/crash (workload on a vfsx-instrumented
// database, directory images at file-operation indices, reopen + model comparison).
package c10

import (
	"testing"

	"nokvverif/internal/crash"
	"nokvverif/internal/pbt"
	"pgregory.net/rapid"
)

func TestMain(m *testing.M) { pbt.RunMain(m) }

var profile = crash.Profile{Sync: "both", MaxOps: 24, PostN: 0}

func gen(t *rapid.T) crash.Case { return crash.Gen(t, profile) }
func run(c crash.Case, r *pbt.Rec) error { return crash.Run("C10", c, r) }

func TestCheck(t *testing.T) {
	if pbt.Tier() == "thorough" {
		profile.Stride = []int{1, 1, 2, 3}
		profile.MaxOps = 40
	}
	s := &pbt.Suite{ID: "C10", Level: "fault_enumeration",
		Rule: "rapid-generated workloads (4..24 client operations: plain Set/Del or 1-4 key transactions, values 1..40000 bytes around the separation threshold, forced rotation+flush, compactions, value-log rewrite/GC, tiny manifest rewrite threshold; configuration drawn) run once on a database whose file system is the vfsx shim; a directory image (= state after kill -9) is captured after every k-th mutating file operation (k drawn from {3,5,7}; {1,2,3} in the thorough tier), after every rename/remove/truncate, optionally with the in-flight write torn at 1, len/2 and len-1 bytes, and at the final call boundary; every image is reopened and compared with the model (states after each client operation; acknowledged <= recovered <= started). Second spec (vlogtear): value-log records are copied into a file mapping the shim cannot see, so for every operation that appended to a value-log file images are built from the directory before the operation plus a generated part of the appended bytes (first k bytes missing, only the first k present, or the page holding the head missing) and judged the same way. Non-trivial = workload with an image where something was really lost (recovered state older than the newest started operation) or where an operation was in flight; distinct by case content.",
		Assumptions: []string{"process-crash model: the page cache survives, user-space buffers do not; power loss is out of scope (the properties say process crash)",
			"single client goroutine; acked may be under- and started over-estimated by one operation, both in the sound direction",
			"plain and transactional data live in separate databases; plain workloads do not move tables out of L0 while C01-F1c is open"},
	}
	pbt.Add(s, &pbt.Spec[crash.Case]{Name: "workload", Gen: gen, Run: run, Quick: 96, Thorough: 3000, Shards: 16})
	// torn memory-mapped value-log appends (the shim cannot see stores into a mapping): see internal/crash/tear.go
	pbt.Add(s, &pbt.Spec[crash.Case]{Name: "vlogtear", Gen: func(t *rapid.T) crash.Case { return crash.GenTear(t, profile) }, Run: run, Quick: 40, Thorough: 1500, Shards: 8})
	s.Main(t)
}
