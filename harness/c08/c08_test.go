// C08 — value-log separation and GC never change or lose a live value.
//
// Uses the shared plain-API state machine (internal/plain) with a GC-heavy profile:
// value threshold 32 so most values live in the value log, values around the
// threshold and larger than a value-log file, small value-log files (frequent
// rotation), 1..3 buckets, and value-log rewrite / RunValueLogGC steps at any point.
// A second spec drives the same engine paths through transactions (internal/txm).
package c08

import (
	"testing"

	"nokvverif/internal/pbt"
	"nokvverif/internal/plain"
	"nokvverif/internal/txm"
	"pgregory.net/rapid"
)

func TestMain(m *testing.M) { pbt.RunMain(m) }

var profile = plain.Profile{
	Name:       "c08",
	OpKinds:    []string{"set", "set", "set", "set", "set", "del", "get", "maint", "maint", "maint", "maint", "reopen"},
	MaintKinds: []string{"rotate", "rotate", "drain", "once", "rewrite", "rewrite", "rewrite", "rewrite", "gc", "gc"},
	ValueSizes: []int{0, 31, 32, 33, 33, 100, 1000, 1000, 9000, 30000, 70000},
	ForceVlog:  true,
	MaxOps:     60,
}

func gen(t *rapid.T) plain.Case { return plain.Gen(t, profile) }

// txProfile drives the same value-log paths through transactions (several versions per key).
var txProfile = txm.Profile{
	Name:       "c08",
	OpKinds:    []string{"begin", "set", "set", "set", "set", "del", "commit", "commit", "commit", "get", "get", "iter", "maint", "maint", "maint", "reopen"},
	MaintKinds: []string{"rotate", "rotate", "drain", "once", "rewrite", "rewrite", "rewrite", "gc", "gc"},
	ValueSizes: []int{31, 32, 33, 100, 1000, 9000, 30000, 40000},
	MaxOps:     60,
	MaxKeys:    4,
}

func genTx(t *rapid.T) txm.Case {
	c := txm.Gen(t, txProfile)
	c.Cfg.ValueThreshold = 32
	return c
}

func TestCheck(t *testing.T) {
	s := &pbt.Suite{ID: "C08", Level: "exploration",
		Rule: "rapid-generated plain-API histories (5..60 steps) with value threshold 32, value sizes {0,31,32,33,100,1000,9000,30000,70000} (70000 exceeds the smallest value-log file), value-log file size in {64K,256K,1M}, 1..3 buckets, memtable engine drawn; maintenance steps: direct rewrite of any sealed value-log file (bypassing the sampling heuristic), RunValueLogGC with ratio in {0.01,0.5,0.99}, rotate+flush, compactions, reopen. Oracle: last-writer-wins map, byte-for-byte through Get after every step. Non-trivial = read of a separated (value-log) value of a key that was overwritten or deleted before, after at least one successful rewrite/GC step following its last write; distinct by case content.",
		Assumptions: []string{"single client goroutine: the race between GC's check-then-reinsert and a concurrent client overwrite (DESIGN R16) is not reachable here and is covered by C34's concurrent histories",
			"a rewrite is requested only for sealed files (fid below the active one), as runGC does"},
	}
	pbt.Add(s, &pbt.Spec[plain.Case]{Name: "history", Gen: gen, Run: plain.Run, Quick: 320, Thorough: 20000, Shards: 16})
	pbt.Add(s, &pbt.Spec[txm.Case]{Name: "txn", Gen: genTx, Run: txm.Run, Quick: 240, Thorough: 15000, Shards: 16})
	s.Main(t)
}
