package c15

import (
	"fmt"
	"sort"
	"strings"

	"github.com/feichai0017/NoKV/manifest"
)

// ---------------------------------------------------------------------------
// Case data (the replay format)

// E is one manifest edit in replay-friendly form (only the payload of its type is set).
type E struct {
	T   uint8                    `json:"t"` // manifest.EditType
	F   *manifest.FileMeta       `json:"f,omitempty"`
	Seg uint32                   `json:"seg,omitempty"`
	Off uint64                   `json:"off,omitempty"`
	V   *manifest.ValueLogMeta   `json:"v,omitempty"`
	R   *manifest.RaftLogPointer `json:"r,omitempty"`
	G   *manifest.RegionEdit     `json:"g,omitempty"`
}

func (e E) edit() manifest.Edit {
	out := manifest.Edit{Type: manifest.EditType(e.T), LogSeg: e.Seg, LogOffset: e.Off}
	if e.F != nil {
		f := *e.F
		out.File = &f
	}
	if e.V != nil {
		v := *e.V
		out.ValueLog = &v
	}
	if e.R != nil {
		r := *e.R
		out.Raft = &r
	}
	if e.G != nil {
		g := manifest.RegionEdit{Meta: manifest.CloneRegionMeta(e.G.Meta), Delete: e.G.Delete}
		out.Region = &g
	}
	return out
}

// family names the edit family of the property statement.
func (e E) family() string {
	switch manifest.EditType(e.T) {
	case manifest.EditAddFile:
		return "table-add"
	case manifest.EditDeleteFile:
		return "table-delete"
	case manifest.EditLogPointer:
		return "wal-checkpoint"
	case manifest.EditValueLogHead:
		return "vlog-head"
	case manifest.EditDeleteValueLog:
		return "vlog-delete"
	case manifest.EditUpdateValueLog:
		return "vlog-update"
	case manifest.EditRaftPointer:
		return "raft-pointer"
	case manifest.EditRegion:
		if e.G != nil && e.G.Delete {
			return "region-delete"
		}
		return "region-update"
	}
	return "?"
}

var allFamilies = []string{"table-add", "table-delete", "wal-checkpoint", "vlog-head", "vlog-delete",
	"vlog-update", "raft-pointer", "region-update", "region-delete"}

// Trunc are the arguments of Manager.LogRaftTruncate.
type Trunc struct {
	Group   uint64 `json:"group"`
	Index   uint64 `json:"index"`
	Term    uint64 `json:"term"`
	Segment uint32 `json:"segment"`
	Offset  uint64 `json:"offset"`
}

// Op is one client call.
//
//	log     LogEdit (1 edit) / LogEdits (>1 edits)
//	via     one edit through its typed wrapper (LogValueLogHead/Delete/Update, LogRaftPointer,
//	        LogRegionUpdate/Delete); types without a wrapper fall back to LogEdit
//	trunc   LogRaftTruncate
//	rewrite Rewrite()
//	thresh  SetRewriteThreshold(Thresh)
//	reopen  Close, manifest.Verify, manifest.Open (+ SetRewriteThreshold(current))
type Op struct {
	K      string `json:"k"`
	Edits  []E    `json:"edits,omitempty"`
	Trunc  *Trunc `json:"trunc,omitempty"`
	Thresh int64  `json:"thresh,omitempty"`
}

// Case is a whole session against one manifest directory.
type Case struct {
	Threshold int64 `json:"threshold"`
	Ops       []Op  `json:"ops"`
	// Excl: draws steered away from open known findings while generating (bookkeeping only).
	Excl int `json:"excl,omitempty"`
}

// ---------------------------------------------------------------------------
// Reference model of the manifest state.
//
// Written from the property statement, manifest/types.go and docs/manifest.md §2/§3:
//   - table add/delete manage the set of SST files of a level, a file is identified by
//     its id inside its level;
//   - the WAL checkpoint is a single (segment, offset) register;
//   - ValueLogs holds the metadata of every known vlog file keyed by (bucket, file id);
//     ValueLogHead caches the active head per bucket: "head" makes the file valid and the
//     head of its bucket, "delete" marks the file invalid (the edit carries no offset, the
//     entry keeps none) and drops the head if it was the head, "update" replaces the
//     entry and keeps the cached head in step (a head that became invalid is dropped);
//   - raft pointers and regions are maps keyed by group id / region id, last writer wins,
//     region delete removes the entry.
type Model struct {
	Files   map[int]map[uint64]manifest.FileMeta
	LogSeg  uint32
	LogOff  uint64
	VLogs   map[manifest.ValueLogID]manifest.ValueLogMeta
	Heads   map[uint32]manifest.ValueLogMeta
	Raft    map[uint64]manifest.RaftLogPointer
	Regions map[uint64]manifest.RegionMeta
}

func newModel() *Model {
	return &Model{
		Files:   map[int]map[uint64]manifest.FileMeta{},
		VLogs:   map[manifest.ValueLogID]manifest.ValueLogMeta{},
		Heads:   map[uint32]manifest.ValueLogMeta{},
		Raft:    map[uint64]manifest.RaftLogPointer{},
		Regions: map[uint64]manifest.RegionMeta{},
	}
}

func (m *Model) apply(e E) {
	switch manifest.EditType(e.T) {
	case manifest.EditAddFile:
		if m.Files[e.F.Level] == nil {
			m.Files[e.F.Level] = map[uint64]manifest.FileMeta{}
		}
		m.Files[e.F.Level][e.F.FileID] = *e.F
	case manifest.EditDeleteFile:
		delete(m.Files[e.F.Level], e.F.FileID)
	case manifest.EditLogPointer:
		m.LogSeg, m.LogOff = e.Seg, e.Off
	case manifest.EditValueLogHead:
		v := manifest.ValueLogMeta{Bucket: e.V.Bucket, FileID: e.V.FileID, Offset: e.V.Offset, Valid: true}
		m.VLogs[manifest.ValueLogID{Bucket: v.Bucket, FileID: v.FileID}] = v
		m.Heads[v.Bucket] = v
	case manifest.EditDeleteValueLog:
		id := manifest.ValueLogID{Bucket: e.V.Bucket, FileID: e.V.FileID}
		m.VLogs[id] = manifest.ValueLogMeta{Bucket: id.Bucket, FileID: id.FileID}
		if h, ok := m.Heads[id.Bucket]; ok && h.FileID == id.FileID {
			delete(m.Heads, id.Bucket)
		}
	case manifest.EditUpdateValueLog:
		v := *e.V
		m.VLogs[manifest.ValueLogID{Bucket: v.Bucket, FileID: v.FileID}] = v
		if h, ok := m.Heads[v.Bucket]; ok && h.FileID == v.FileID {
			if v.Valid {
				m.Heads[v.Bucket] = v
			} else {
				delete(m.Heads, v.Bucket)
			}
		}
	case manifest.EditRaftPointer:
		m.Raft[e.R.GroupID] = *e.R
	case manifest.EditRegion:
		if e.G.Delete {
			delete(m.Regions, e.G.Meta.ID)
		} else {
			m.Regions[e.G.Meta.ID] = manifest.CloneRegionMeta(e.G.Meta)
		}
	}
}

// truncate derives the edit produced by LogRaftTruncate in the current state.  The doc
// comment of LogRaftTruncate is not precise enough to define it, so the derivation of the
// pointer (which fields are inherited, when the call is a no-op) follows the function; C15
// does not judge that derivation, only that whatever pointer the call logged is reloaded.
// Returns (edit, wantError).
func (m *Model) truncate(t Trunc) (*E, bool) {
	if t.Group == 0 {
		return nil, true
	}
	ptr, ok := m.Raft[t.Group]
	if !ok {
		if t.Index == 0 && t.Term == 0 {
			return nil, false
		}
		ptr = manifest.RaftLogPointer{GroupID: t.Group}
	}
	segment, offset := t.Segment, t.Offset
	if ptr.TruncatedIndex == t.Index && ptr.TruncatedTerm == t.Term {
		if (segment == 0 || ptr.SegmentIndex == uint64(segment)) && (offset == 0 || ptr.TruncatedOffset == offset) {
			return nil, false
		}
		if offset == 0 {
			return nil, false
		}
	}
	ptr.GroupID = t.Group
	ptr.TruncatedIndex, ptr.TruncatedTerm = t.Index, t.Term
	if segment == 0 && ptr.SegmentIndex != 0 {
		segment = uint32(ptr.SegmentIndex)
	}
	ptr.SegmentIndex = uint64(segment)
	if offset == 0 && ptr.TruncatedOffset != 0 {
		offset = ptr.TruncatedOffset
	}
	ptr.TruncatedOffset = offset
	return &E{T: uint8(manifest.EditRaftPointer), R: &ptr}, false
}

// version renders the model as a manifest.Version (for the shared canonical form).
func (m *Model) version() manifest.Version {
	v := manifest.Version{
		Levels: map[int][]manifest.FileMeta{}, LogSegment: m.LogSeg, LogOffset: m.LogOff,
		ValueLogs: m.VLogs, ValueLogHead: m.Heads, RaftPointers: m.Raft, Regions: m.Regions,
	}
	for lvl, fs := range m.Files {
		for _, f := range fs {
			v.Levels[lvl] = append(v.Levels[lvl], f)
		}
	}
	return v
}

// ---------------------------------------------------------------------------
// Canonical form of a Version: levels as sets keyed by file id (empty levels dropped,
// order inside a level ignored), everything else exactly; byte slices by content
// (nil == empty), peer lists in order.

func canon(v manifest.Version) string {
	var b strings.Builder
	lvls := make([]int, 0, len(v.Levels))
	for l, fs := range v.Levels {
		if len(fs) > 0 {
			lvls = append(lvls, l)
		}
	}
	sort.Ints(lvls)
	for _, l := range lvls {
		fs := append([]manifest.FileMeta(nil), v.Levels[l]...)
		sort.SliceStable(fs, func(i, j int) bool { return fs[i].FileID < fs[j].FileID })
		for _, f := range fs {
			fmt.Fprintf(&b, "file L%d id=%d metaLevel=%d size=%d small=%x large=%x created=%d vsize=%d ingest=%v\n",
				l, f.FileID, f.Level, f.Size, f.Smallest, f.Largest, f.CreatedAt, f.ValueSize, f.Ingest)
		}
	}
	fmt.Fprintf(&b, "wal seg=%d off=%d\n", v.LogSegment, v.LogOffset)
	ids := make([]manifest.ValueLogID, 0, len(v.ValueLogs))
	for id := range v.ValueLogs {
		ids = append(ids, id)
	}
	sort.Slice(ids, func(i, j int) bool {
		if ids[i].Bucket != ids[j].Bucket {
			return ids[i].Bucket < ids[j].Bucket
		}
		return ids[i].FileID < ids[j].FileID
	})
	for _, id := range ids {
		x := v.ValueLogs[id]
		fmt.Fprintf(&b, "vlog key=%d/%d bucket=%d fid=%d off=%d valid=%v\n", id.Bucket, id.FileID, x.Bucket, x.FileID, x.Offset, x.Valid)
	}
	bs := make([]uint32, 0, len(v.ValueLogHead))
	for k := range v.ValueLogHead {
		bs = append(bs, k)
	}
	sort.Slice(bs, func(i, j int) bool { return bs[i] < bs[j] })
	for _, k := range bs {
		x := v.ValueLogHead[k]
		fmt.Fprintf(&b, "vhead key=%d bucket=%d fid=%d off=%d valid=%v\n", k, x.Bucket, x.FileID, x.Offset, x.Valid)
	}
	gs := make([]uint64, 0, len(v.RaftPointers))
	for k := range v.RaftPointers {
		gs = append(gs, k)
	}
	sort.Slice(gs, func(i, j int) bool { return gs[i] < gs[j] })
	for _, k := range gs {
		fmt.Fprintf(&b, "raft key=%d %+v\n", k, v.RaftPointers[k])
	}
	rs := make([]uint64, 0, len(v.Regions))
	for k := range v.Regions {
		rs = append(rs, k)
	}
	sort.Slice(rs, func(i, j int) bool { return rs[i] < rs[j] })
	for _, k := range rs {
		x := v.Regions[k]
		fmt.Fprintf(&b, "region key=%d id=%d start=%x end=%x epoch=%d/%d state=%d peers=%v\n",
			k, x.ID, x.StartKey, x.EndKey, x.Epoch.Version, x.Epoch.ConfVersion, x.State, x.Peers)
	}
	return b.String()
}

// diff renders the lines that differ between two canonical forms.
func diff(a, b, an, bn string) string {
	am, bm := map[string]bool{}, map[string]bool{}
	for _, l := range strings.Split(a, "\n") {
		am[l] = true
	}
	for _, l := range strings.Split(b, "\n") {
		bm[l] = true
	}
	var out []string
	for _, l := range strings.Split(a, "\n") {
		if !bm[l] {
			out = append(out, "  only in "+an+": "+clipLine(l))
		}
	}
	for _, l := range strings.Split(b, "\n") {
		if !am[l] {
			out = append(out, "  only in "+bn+": "+clipLine(l))
		}
	}
	if len(out) > 12 {
		out = append(out[:12], fmt.Sprintf("  … %d more", len(out)-12))
	}
	return strings.Join(out, "\n")
}

func clipLine(s string) string {
	if len(s) > 300 {
		return s[:300] + "…"
	}
	return s
}

// ---------------------------------------------------------------------------
// Expected history of a case

type opPlan struct {
	start   int  // number of edits before the call
	n       int  // edits the call logs
	wantErr bool // the call must return an error (and log nothing)
	edits   []E
}

// expect flattens the case into the edit list and the canonical state after each prefix.
func expect(c Case) (plans []opPlan, states []string, fams map[string]int) {
	m := newModel()
	states = []string{canon(m.version())}
	fams = map[string]int{}
	total := 0
	for _, op := range c.Ops {
		p := opPlan{start: total}
		switch op.K {
		case "log", "via":
			p.edits = op.Edits
		case "trunc":
			e, werr := m.truncate(*op.Trunc)
			p.wantErr = werr
			if e != nil {
				p.edits = []E{*e}
			}
		}
		for _, e := range p.edits {
			m.apply(e)
			states = append(states, canon(m.version()))
			fams[e.family()]++
		}
		p.n = len(p.edits)
		total += p.n
		plans = append(plans, p)
	}
	return plans, states, fams
}
